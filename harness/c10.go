package main

// C10 — client handshake. Kinds:
//   D10   Dialer.Upgrade against a scripted response (template with the accept value
//         derived from the key the dialer wrote), any chunking, trailing bytes
//   DD10  Dialer.Dial with recording NetDial / TLSClient: address derivation
//   NON   freshness of the key over consecutive upgrades
//   HP (hostport), MX (matchSelectedExtensions), RSL (httpParseResponseLine) through the hooks

import (
	"bytes"
	"context"
	"errors"
	"fmt"
	"io"
	"net"
	"net/url"
	"strconv"
	"strings"
	"time"

	"github.com/gobwas/httphead"
	"github.com/gobwas/ws"
)

var errCallback = errors.New("callback objects")

type dcfg struct {
	protocols []string
	exts      []httphead.Option
	hdr       []byte
	host      string
	onhdr     *[]string // keys (canonical) OnHeader objects to; nil = no callback
}

func (d dcfg) tokens() string {
	ps := "-"
	if len(d.protocols) > 0 {
		var x []string
		for _, p := range d.protocols {
			x = append(x, hxi([]byte(p)))
		}
		ps = strings.Join(x, ",")
	}
	return fmt.Sprintf("%s %s %s %s %s", ps, encOpts(d.exts), hx(d.hdr), hx([]byte(d.host)), encSet(d.onhdr))
}

func decDcfg(in []string) dcfg {
	var d dcfg
	if in[0] != "-" {
		for _, x := range strings.Split(in[0], ",") {
			d.protocols = append(d.protocols, string(unhxi(x)))
		}
	}
	d.exts = decOpts(in[1])
	d.hdr = unhx(in[2])
	d.host = string(unhx(in[3]))
	d.onhdr = decSet(in[4])
	return d
}

func (d dcfg) dialer(rbuf, wbuf int) ws.Dialer {
	dl := ws.Dialer{ReadBufferSize: rbuf, WriteBufferSize: wbuf, Protocols: d.protocols, Extensions: d.exts, Host: d.host}
	if d.hdr != nil {
		dl.Header = ws.HandshakeHeaderBytes(d.hdr)
	}
	if d.onhdr != nil {
		set := *d.onhdr
		dl.OnHeader = func(k, v []byte) error {
			if inSet(set, string(k)) {
				return errCallback
			}
			return nil
		}
	}
	return dl
}

// scriptConn answers the request written to it with a response template in which markers are
// replaced by values derived from the Sec-WebSocket-Key it received; the response is delivered
// in chunks of the scripted sizes (the last size repeats).
type scriptConn struct {
	template []byte
	sizes    []int
	tail     error
	in       bytes.Buffer // what the dialer wrote
	chunks   [][]byte
	actual   [][]byte
	started  bool
	nonce    []byte
}

func keyOfRequest(req []byte) []byte {
	for _, line := range bytes.Split(req, []byte("\r\n")) {
		if bytes.HasPrefix(line, []byte("Sec-WebSocket-Key: ")) {
			return append([]byte(nil), line[len("Sec-WebSocket-Key: "):]...)
		}
	}
	return nil
}

func substAccept(t []byte, nonce []byte) []byte {
	acc := make([]byte, 28)
	if len(nonce) == 24 {
		ws.VerifInitAcceptFromNonce(acc, nonce)
	}
	wrong := append([]byte(nil), acc...)
	wrong[5] ^= 1
	t = bytes.Replace(t, []byte("@@ACCEPTPAD@@"), append(append([]byte(nil), acc...), '='), -1)
	last := append([]byte(nil), acc...)
	last[27] = 'A'
	t = bytes.Replace(t, []byte("@@ACCEPTLAST@@"), last, -1)
	t = bytes.Replace(t, []byte("@@ACCEPT27@@"), acc[:27], -1)
	t = bytes.Replace(t, []byte("@@ACCEPTX@@"), wrong, -1)
	t = bytes.Replace(t, []byte("@@ACCEPTLOW@@"), bytes.ToLower(acc), -1)
	t = bytes.Replace(t, []byte("@@ACCEPT@@"), acc, -1)
	return t
}

func (s *scriptConn) Write(p []byte) (int, error) { return s.in.Write(p) }
func (s *scriptConn) Read(p []byte) (int, error) {
	if !s.started {
		s.started = true
		s.nonce = keyOfRequest(s.in.Bytes())
		b := substAccept(s.template, s.nonce)
		i := 0
		for len(b) > 0 {
			n := 1 << 30
			if len(s.sizes) > 0 {
				n = s.sizes[i]
				if i < len(s.sizes)-1 {
					i++
				}
			}
			if n < 1 {
				n = 1
			}
			if n > len(b) {
				n = len(b)
			}
			s.chunks = append(s.chunks, append([]byte(nil), b[:n]...))
			b = b[n:]
		}
		s.actual = cloneChunks(s.chunks)
	}
	if len(s.chunks) == 0 {
		return 0, s.tail
	}
	n := copy(p, s.chunks[0])
	s.chunks[0] = s.chunks[0][n:]
	if len(s.chunks[0]) == 0 {
		s.chunks = s.chunks[1:]
	}
	return n, nil
}
func (s *scriptConn) rest() []byte {
	var b []byte
	for _, x := range s.chunks {
		b = append(b, x...)
	}
	return b
}

func dialErrClass(err error) string {
	switch err {
	case nil:
		return "ok"
	case io.EOF:
		return "io:eof"
	case errTransport:
		return "io:fail"
	case ws.ErrMalformedResponse:
		return "malformed"
	case ws.ErrHandshakeBadProtocol:
		return "badproto"
	case ws.ErrHandshakeBadUpgrade:
		return "badupgrade"
	case ws.ErrHandshakeBadConnection:
		return "badconnection"
	case ws.ErrHandshakeBadSecAccept:
		return "badaccept"
	case ws.ErrHandshakeBadSubProtocol:
		return "badsubprotocol"
	case ws.ErrHandshakeBadExtensions:
		return "badextensions"
	case errCallback:
		return "callback"
	}
	if s, ok := err.(ws.StatusError); ok {
		return "status:" + strconv.Itoa(int(s))
	}
	return "other"
}

func encInts(xs []int) string {
	if len(xs) == 0 {
		return "-"
	}
	var s []string
	for _, x := range xs {
		s = append(s, strconv.Itoa(x))
	}
	return strings.Join(s, ",")
}

func decInts(s string) []int {
	if s == "-" {
		return nil
	}
	var out []int
	for _, x := range strings.Split(s, ",") {
		n, _ := strconv.Atoi(x)
		out = append(out, n)
	}
	return out
}

func d10(c *ctx, rbuf, wbuf int, tail string, urlstr string, template []byte, sizes []int, cfg dcfg) {
	u, err := url.ParseRequestURI(urlstr)
	if err != nil {
		return
	}
	conn := &scriptConn{template: template, sizes: sizes, tail: tailErr(tail)}
	cls := ""
	var hs ws.Handshake
	var left []byte
	brNonNil := false
	func() {
		defer func() {
			if r := recover(); r != nil {
				cls = "panic"
			}
		}()
		br, h, err := cfg.dialer(rbuf, wbuf).Upgrade(conn, u)
		hs = h
		cls = dialErrClass(err)
		if br != nil {
			brNonNil = true
			// what the caller can still read: the returned buffer, then the connection
			left = make([]byte, br.Buffered())
			io.ReadFull(br, left)
			ws.PutReader(br)
		}
		left = append(left, conn.rest()...)
	}()
	c.emit("D10 %d %d %s %s %s %s %s t=%s -> %s %s %s %s %s %s %s %s %d %s", rbuf, wbuf, tail, hx([]byte(urlstr)), hx(template),
		encInts(sizes), cfg.tokens(), headTag(template),
		hx([]byte(u.Host)), hx([]byte(u.RequestURI())), hx(conn.nonce), encChunks(conn.actual),
		cls, hx([]byte(hs.Protocol)), encOpts(hs.Extensions), hx(conn.in.Bytes()), b2i(brNonNil), hx(left))
}

// ---- Dial: address derivation ------------------------------------------------------

type nopConn struct{ net.Conn }

func (nopConn) Read([]byte) (int, error)         { return 0, io.EOF }
func (nopConn) Write(p []byte) (int, error)      { return len(p), nil }
func (nopConn) Close() error                     { return nil }
func (nopConn) SetDeadline(time.Time) error      { return nil }
func (nopConn) SetReadDeadline(time.Time) error  { return nil }
func (nopConn) SetWriteDeadline(time.Time) error { return nil }

func dd10(c *ctx, urlstr string) { dd10h(c, urlstr, "") }

// dd10h: the same with Dialer.Host set: the override goes into the Host header only, the connection is still
// made to the URL's host and port (kind DD10H, judged as DD10)
func dd10h(c *ctx, urlstr, hostOverride string) {
	var network, addr, tlsHost string
	dials, tlsCalls := 0, 0
	d := ws.Dialer{
		Host: hostOverride,
		NetDial: func(ctx context.Context, n, a string) (net.Conn, error) {
			dials++
			network, addr = n, a
			return nopConn{}, nil
		},
		TLSClient: func(conn net.Conn, hostname string) net.Conn {
			tlsCalls++
			tlsHost = hostname
			return conn
		},
	}
	u, perr := url.ParseRequestURI(urlstr)
	scheme, host := "-", "-"
	if perr == nil {
		scheme, host = hx([]byte(u.Scheme)), hx([]byte(u.Host))
	}
	var err error
	func() {
		defer func() {
			if r := recover(); r != nil {
				err = errors.New("panic")
			}
		}()
		_, _, _, err = d.Dial(context.Background(), urlstr)
	}()
	_ = err
	if hostOverride != "" {
		c.emit("DD10H %s %s -> %d %s %s %d %s %s %d %s", hx([]byte(urlstr)), hx([]byte(hostOverride)), b2i(perr == nil), scheme, host, dials, hx([]byte(network)), hx([]byte(addr)), tlsCalls, hx([]byte(tlsHost)))
		return
	}
	c.emit("DD10 %s -> %d %s %s %d %s %s %d %s", hx([]byte(urlstr)), b2i(perr == nil), scheme, host, dials, hx([]byte(network)), hx([]byte(addr)), tlsCalls, hx([]byte(tlsHost)))
}

func nonCase(c *ctx, n int) {
	var keys []string
	for i := 0; i < n; i++ {
		conn := &scriptConn{template: []byte("HTTP/1.1 400 Bad Request\r\n\r\n"), tail: io.EOF}
		u, _ := url.ParseRequestURI("ws://example.com/")
		ws.Dialer{}.Upgrade(conn, u)
		keys = append(keys, hxi(keyOfRequest(conn.in.Bytes())))
	}
	c.emit("NON %d -> %s", n, strings.Join(keys, ","))
}

func hp(c *ctx, host, dflt string) {
	hn, addr := ws.VerifHostport(host, dflt)
	c.emit("HP %s %s -> %s %s", hx([]byte(host)), hx([]byte(dflt)), hx([]byte(hn)), hx([]byte(addr)))
}

func mxErr(err error) string {
	switch err {
	case nil:
		return "ok"
	case ws.ErrMalformedResponse:
		return "malformed"
	case ws.ErrHandshakeBadExtensions:
		return "badextensions"
	}
	return "other"
}

func mx(c *ctx, selected []byte, wanted, received []httphead.Option) {
	out, err := ws.VerifMatchSelectedExtensions(selected, wanted, append([]httphead.Option(nil), received...))
	c.emit("MX %s %s %s -> %s %s", hx(selected), encOpts(wanted), encOpts(received), mxErr(err), encOpts(out))
}

func rsl(c *ctx, line []byte) {
	ma, mi, st, reason, err := ws.VerifHTTPParseResponseLine(line)
	if err != nil {
		c.emit("RSL %s -> err", hx(line))
		return
	}
	c.emit("RSL %s -> %d %d %d %s", hx(line), ma, mi, st, hx(reason))
}

func init() {
	props["C10"] = runC10
	replayers["D10"] = func(c *ctx, in []string) {
		rbuf, _ := strconv.Atoi(in[0])
		wbuf, _ := strconv.Atoi(in[1])
		d10(c, rbuf, wbuf, in[2], string(unhx(in[3])), unhx(in[4]), decInts(in[5]), decDcfg(in[6:11]))
	}
	replayers["DD10"] = func(c *ctx, in []string) { dd10(c, string(unhx(in[0]))) }
	replayers["DD10H"] = func(c *ctx, in []string) { dd10h(c, string(unhx(in[0])), string(unhx(in[1]))) }
	replayers["NON"] = func(c *ctx, in []string) { n, _ := strconv.Atoi(in[0]); nonCase(c, n) }
	replayers["HP"] = func(c *ctx, in []string) { hp(c, string(unhx(in[0])), string(unhx(in[1]))) }
	replayers["MX"] = func(c *ctx, in []string) { mx(c, unhx(in[0]), decOpts(in[1]), decOpts(in[2])) }
	replayers["RSL"] = func(c *ctx, in []string) { rsl(c, unhx(in[0])) }
}

// ---- response grammar -----------------------------------------------------------------

var statusTokens = []string{"101", "0101", "1010", "10", "0:1", "9;", "1O1", "\xef\xbc\x91\xef\xbc\x90\xef\xbc\x91", "18446744073709551717", "",
	"100", "200", "400", "404", "500", "301", "102", "101 ", "1 01", "+101", "-101", "101.0", "00101", "1e2", "65", "3:?", "101\t", "\t101"}

var respVersions = []string{"HTTP/1.1", "HTTP/1.0", "HTTP/0.9", "HTTP/1.2", "HTTP/1.10", "HTTP/2.0", "HTTP/11.1", "HTTP/1.:", "HTTP/1.;",
	"HTTP/18446744073709551617.1", "HTTP/1", "http/1.1", "HTTP/1.1x", "", "HTTP/1.01", "HTTP/01.1", "HTTP/2", "HTTP/1.18446744073709551617"}

type rmand struct {
	name  string
	good  string
	vars  []string // acceptable spellings
	wrong []string
}

var respMandatory = []rmand{
	{"Upgrade", "websocket", []string{"WebSocket", "WEBSOCKET", " websocket ", "\twebsocket"}, []string{"websockets", "h2c", "", "web socket", "websocket, foo"}},
	{"Connection", "Upgrade", []string{"upgrade", "UPGRADE", " Upgrade\t"}, []string{"keep-alive", "close", "", "upgrades", "keep-alive, Upgrade", "Upgrade, keep-alive"}},
	{"Sec-WebSocket-Accept", "@@ACCEPT@@", []string{" @@ACCEPT@@ "}, []string{"@@ACCEPTPAD@@", "@@ACCEPTLAST@@", "@@ACCEPTX@@", "@@ACCEPT27@@", "@@ACCEPTLOW@@", "", "s3pPLMBiTxaQ9kYGzzhZRbK+xOo=", "@@ACCEPT@@ x", "@@ACCEPT@@, @@ACCEPT@@"}},
}

type respSpec struct {
	version, status, reason string
	lines                   []string
	eol                     func(int) string
	blank                   bool
	trailing                []byte
}

func (r respSpec) bytes() []byte {
	var b bytes.Buffer
	b.WriteString(r.version + " " + r.status + " " + r.reason + r.eol(0))
	for i, l := range r.lines {
		b.WriteString(l + r.eol(i+1))
	}
	if r.blank {
		b.WriteString(r.eol(len(r.lines) + 1))
	}
	b.Write(r.trailing)
	return b.Bytes()
}

func baseResp() respSpec {
	return respSpec{version: "HTTP/1.1", status: "101", reason: "Switching Protocols", eol: eolCRLF, blank: true,
		lines: []string{"Upgrade: websocket", "Connection: Upgrade", "Sec-WebSocket-Accept: @@ACCEPT@@"}}
}

func respLinesExcept(skip string) []string {
	var ls []string
	for _, m := range respMandatory {
		if m.name != skip {
			ls = append(ls, m.name+": "+m.good)
		}
	}
	return ls
}

var dialCfgs = []dcfg{
	{},
	{protocols: []string{"a", "b"}},
	{protocols: []string{"chat"}, exts: []httphead.Option{httphead.NewOption("permessage-deflate", map[string]string{"client_max_window_bits": ""})}},
	{exts: []httphead.Option{httphead.NewOption("foo", nil), httphead.NewOption("bar", map[string]string{"x": "1"})}, hdr: []byte("Origin: http://example.com\r\nX-Test: 1\r\n")},
	{protocols: []string{"a", "b", "c"}, host: "override.example:8080", onhdr: &[]string{"X-Deny", "Set-Cookie"}},
	{onhdr: &[]string{}},
}

var respProtoLines = [][]string{
	nil, {"a"}, {"b"}, {"zzz"}, {"a", "zzz"}, {"zzz", "a"}, {"a", "a"}, {"a", "b"}, {""}, {"A"}, {"a, b"}, {"a "}, {"chat"}, {"c", "nope"}, {"a", "b", "zzz"},
}

var respExtLines = [][]string{
	nil, {"permessage-deflate"}, {"permessage-deflate; client_max_window_bits=10"}, {"foo"}, {"bar; x=2; y"}, {"foo, bar"}, {"foo", "bar"},
	{"baz"}, {"foo, baz"}, {"baz, foo"}, {"foo; a=\"q r\""}, {"foo;"}, {""}, {"foo,"}, {", foo"}, {"foo foo"}, {"FOO"}, {"foo;\ta=1"},
	{"permessage-deflate; server_no_context_takeover, permessage-deflate"}, {"foo; a=1, foo; a=2"}, {"bar", "baz"}, {"(c)"}, {"foo; a=\"x"},
}

var urlForms = []string{
	"ws://example.com", "ws://example.com/", "ws://example.com/chat?x=1&y=2", "ws://example.com:8080/ws", "wss://example.com/", "wss://example.com:8443/a/b",
	"ws://example.com:/", "wss://example.com:", "ws://[::1]/", "ws://[::1]:9000/x", "wss://[2001:db8::1]/", "wss://[2001:db8::1]:443/", "ws://127.0.0.1:80/",
	"ws://user@example.com/", "ws://user:pw@example.com:81/", "http://example.com/", "https://example.com/", "example.com/ws", "/ws", "ws:///path", "ws://", "WS://example.com/",
	"ws://example.com/a b", "ws://ex%41mple.com/", "ws://example.com/#frag", "ws://example.com?q", "ws://[fe80::1%25eth0]:1234/", "wss://xn--nxasmq6b.example/", "ws://example.com:0/", "ws://example.com:65536/",
	"ws://a:b:c/", "ws://[::1", "ws://]/",
}

func randSizes(c *ctx) []int {
	switch c.rng.Intn(4) {
	case 0:
		return nil // whole
	case 1:
		return []int{1}
	case 2:
		return []int{1 + c.rng.Intn(30)}
	}
	var s []int
	for k := 1 + c.rng.Intn(6); k > 0; k-- {
		s = append(s, 1+c.rng.Intn(40))
	}
	return s
}

func runResp(c *ctx, r respSpec, cfg dcfg, level int) {
	b := r.bytes()
	d10(c, 0, 0, "eof", "ws://example.com/ws", b, nil, cfg)
	if level >= 1 {
		d10(c, 1, 1, "eof", "ws://example.com/ws", b, []int{1}, cfg)
		d10(c, []int{16, 17, 64, 128, 4096}[c.rng.Intn(5)], []int{0, 16, 64}[c.rng.Intn(3)], pick(c, "eof", "fail"), "ws://example.com/ws", b, randSizes(c), cfg)
	}
	if level >= 2 {
		for i := 1; i < len(b); i++ {
			d10(c, 16, 0, "eof", "ws://example.com/ws", b, []int{i, 1 << 20}, cfg)
		}
	}
}

func runC10(c *ctx) {
	// (a) status tokens x versions
	for _, st := range statusTokens {
		r := baseResp()
		r.status = st
		runResp(c, r, dcfg{}, 1)
		r.reason = ""
		runResp(c, r, dcfg{}, 0)
	}
	for _, v := range respVersions {
		r := baseResp()
		r.version = v
		runResp(c, r, dcfg{}, 0)
	}
	for _, sl := range []string{"HTTP/1.1 101", "HTTP/1.1", "", "HTTP/1.1  101 x", "HTTP/1.1 101  x", " HTTP/1.1 101 x", "HTTP/1.1\t101\tx", "101 HTTP/1.1 x"} {
		var b bytes.Buffer
		b.WriteString(sl + "\r\n")
		for _, l := range respLinesExcept("") {
			b.WriteString(l + "\r\n")
		}
		b.WriteString("\r\n")
		d10(c, 0, 0, "eof", "ws://example.com/", b.Bytes(), nil, dcfg{})
	}
	// (b) each required header: absent / spellings / wrong / duplicated / reordered
	for _, m := range respMandatory {
		others := respLinesExcept(m.name)
		variants := [][]string{nil, {m.name + ": " + m.good}, {strings.ToLower(m.name) + ":" + m.good}, {strings.ToUpper(m.name) + ":  " + m.good}}
		for _, v := range m.vars {
			variants = append(variants, []string{m.name + ":" + v})
		}
		for _, w := range m.wrong {
			variants = append(variants, []string{m.name + ": " + w}, []string{m.name + ": " + m.good, m.name + ": " + w}, []string{m.name + ": " + w, m.name + ": " + m.good})
		}
		variants = append(variants, []string{m.name + ": " + m.good, m.name + ": " + m.good}, []string{m.name + " " + m.good})
		for _, v := range variants {
			for _, eol := range []func(int) string{eolCRLF, eolLF} {
				r := baseResp()
				r.eol = eol
				r.lines = shuffle(c, append(append([]string{}, others...), v...))
				lv := 0
				if c.rng.Intn(6) == 0 {
					lv = 1
				}
				runResp(c, r, dialCfgs[c.rng.Intn(2)], lv)
			}
		}
	}
	// (c) subprotocol / extension lines x configurations
	for _, cfg := range dialCfgs {
		for _, pl := range respProtoLines {
			r := baseResp()
			for _, p := range pl {
				r.lines = append(r.lines, "Sec-WebSocket-Protocol: "+p)
			}
			runResp(c, r, cfg, 0)
		}
		for _, xl := range respExtLines {
			r := baseResp()
			for _, x := range xl {
				r.lines = append(r.lines, "Sec-WebSocket-Extensions: "+x)
			}
			runResp(c, r, cfg, 0)
		}
		for _, extra := range []string{"X-Deny: 1", "Set-Cookie: a=b", "Server: x", "Host: h", "Sec-WebSocket-Version: 13", "Sec-WebSocket-Key: k", "nocolon", ": v", "X-Long: " + strings.Repeat("v", 200)} {
			r := baseResp()
			r.lines = shuffle(c, append(r.lines, extra))
			runResp(c, r, cfg, 0)
		}
	}
	// (d) trailing post-handshake bytes: 0..3 chunks, buffer sizes 16/64/4096, every boundary position
	frames := [][]byte{nil, []byte("\x81\x05hello"), []byte("\x81\x05hello\x82\x03abc"), bytes.Repeat([]byte("\x81\x02hi"), 20)}
	for _, tr := range frames {
		for _, rb := range []int{16, 64, 4096} {
			r := baseResp()
			r.trailing = tr
			head := len(r.bytes()) - len(tr)
			b := r.bytes()
			for _, cut := range []int{head - 2, head - 1, head, head + 1, head + 2, head + 5, len(b)} {
				if cut > 0 && cut <= len(b) {
					d10(c, rb, 0, "eof", "ws://example.com/", b, []int{cut, 3, 1 << 20}, dialCfgs[1])
				}
			}
			d10(c, rb, 0, "eof", "ws://example.com/", b, []int{1}, dcfg{})
			d10(c, rb, 0, "eof", "ws://example.com/", b, randSizes(c), dcfg{})
			// pad the head so that it ends exactly at multiples of the buffer size
			for pad := 0; pad < 20; pad++ {
				r2 := baseResp()
				r2.trailing = tr
				r2.lines = append(r2.lines, "X-Pad: "+strings.Repeat("p", pad))
				d10(c, 16, 0, "eof", "ws://example.com/", r2.bytes(), nil, dcfg{})
			}
		}
	}
	// (e) truncated responses
	{
		r := baseResp()
		full := r.bytes()
		n := 10
		if c.thor {
			n = len(full)
		}
		for i := 0; i < n; i++ {
			cut := i * len(full) / n
			d10(c, 0, 0, pick(c, "eof", "fail"), "ws://example.com/", full[:cut], randSizes(c), dcfg{})
		}
	}
	// (f) URL forms: request line / Host header through Upgrade, address derivation through Dial
	for _, us := range urlForms {
		d10(c, 0, 0, "eof", us, baseResp().bytes(), nil, dialCfgs[c.rng.Intn(len(dialCfgs))])
		dd10(c, us)
	}
	for _, h := range []string{"example.com", "example.com:80", "example.com:", "[::1]", "[::1]:80", "[::1]:", "::1", "a:b:c", "[a]:b]:c", "", ":", "]", "[", "x]:1", "[::1]x:1", "1.2.3.4:5"} {
		hp(c, h, ":80")
		hp(c, h, ":443")
	}
	// (g) random combinations
	nrand := 1200
	if c.thor {
		nrand = 20000
	}
	for i := 0; i < nrand; i++ {
		r := baseResp()
		if c.rng.Intn(10) == 0 {
			r.status = statusTokens[c.rng.Intn(len(statusTokens))]
		}
		if c.rng.Intn(10) == 0 {
			r.version = respVersions[c.rng.Intn(len(respVersions))]
		}
		switch c.rng.Intn(3) {
		case 0:
			r.eol = eolLF
		case 1:
			r.eol = func(i int) string {
				if i%3 == 0 {
					return "\n"
				}
				return "\r\n"
			}
		}
		var ls []string
		for _, m := range respMandatory {
			switch c.rng.Intn(8) {
			case 0:
			case 1:
				ls = append(ls, m.name+": "+m.wrong[c.rng.Intn(len(m.wrong))])
			case 2:
				ls = append(ls, m.name+":"+m.vars[c.rng.Intn(len(m.vars))])
			default:
				ls = append(ls, m.name+": "+m.good)
			}
		}
		if c.rng.Intn(3) == 0 {
			for _, p := range respProtoLines[c.rng.Intn(len(respProtoLines))] {
				ls = append(ls, "Sec-WebSocket-Protocol: "+p)
			}
		}
		if c.rng.Intn(3) == 0 {
			for _, x := range respExtLines[c.rng.Intn(len(respExtLines))] {
				ls = append(ls, "Sec-WebSocket-Extensions: "+x)
			}
		}
		if c.rng.Intn(4) == 0 {
			ls = append(ls, pick(c, "X-Deny: 1", "Server: s", "Set-Cookie: x", "Date: now"))
		}
		if c.rng.Intn(2) == 0 {
			ls = shuffle(c, ls)
		}
		r.lines = ls
		if c.rng.Intn(3) == 0 {
			r.trailing = frames[c.rng.Intn(len(frames))]
		}
		cfg := dialCfgs[c.rng.Intn(len(dialCfgs))]
		d10(c, []int{0, 1, 16, 17, 64, 4096}[c.rng.Intn(6)], []int{0, 1, 16}[c.rng.Intn(3)], "eof", "ws://example.com/ws", r.bytes(), randSizes(c), cfg)
		if c.thor && c.rng.Intn(300) == 0 {
			runResp(c, r, cfg, 2)
		}
	}
	nonCase(c, 50)
	// units
	wanted := []httphead.Option{httphead.NewOption("foo", nil), httphead.NewOption("bar", map[string]string{"x": "1"}), httphead.NewOption("permessage-deflate", nil)}
	for _, xl := range respExtLines {
		for _, x := range xl {
			mx(c, []byte(x), wanted, nil)
			mx(c, []byte(x), wanted, wanted[:1])
			mx(c, []byte(x), nil, nil)
		}
	}
	for _, v := range extensionValues {
		mx(c, []byte(v), wanted, nil)
	}
	for _, st := range statusTokens {
		for _, v := range []string{"HTTP/1.1", "HTTP/1.0", "HTTP/2.0", "HTTP/1.:"} {
			rsl(c, []byte(v+" "+st+" reason text"))
			rsl(c, []byte(v+" "+st))
		}
	}
}
