package main

import (
	"bytes"
	"fmt"
	"io"
	"strconv"
	"strings"
	"unsafe"

	"github.com/gobwas/ws"
	"github.com/gobwas/ws/wsutil"
)

func init() {
	props["C02"] = runC02
	replayers["C02C"] = func(c *ctx, in []string) {
		off, _ := strconv.ParseInt(in[2], 10, 64)
		al, _ := strconv.Atoi(in[3])
		c02C(c, unhx(in[0]), key4(in[1]), int(off), al)
	}
	replayers["C02R"] = func(c *ctx, in []string) { c02R(c, unhx(in[0]), key4(in[1]), in[2], in[3], in[4]) }
	replayers["C02WR"] = func(c *ctx, in []string) { c02WR(c, unhx(in[0]), key4(in[1]), key4(in[2]), in[3]) }
	replayers["C02RC"] = func(c *ctx, in []string) { c02RC(c, unhx(in[0]), key4(in[1]), in[2], in[3]) }
	replayers["C02G"] = func(c *ctx, in []string) {
		n, _ := strconv.ParseInt(in[0], 10, 64)
		c02G(c, n, key4(in[1]))
	}
	replayers["C02FB"] = func(c *ctx, in []string) {
		a, _ := strconv.Atoi(in[1])
		b, _ := strconv.Atoi(in[2])
		c02FB(c, in[0], a, b)
	}
	replayers["C02WS"] = func(c *ctx, in []string) {
		a, _ := strconv.Atoi(in[2])
		b, _ := strconv.Atoi(in[3])
		c02WS(c, unhx(in[0]), key4(in[1]), a, b)
	}
	replayers["C02W"] = func(c *ctx, in []string) { c02W(c, unhx(in[0]), key4(in[1]), in[2]) }
	replayers["C02F"] = func(c *ctx, in []string) { c02F(c, in[0], parseHdr(in[1:7]), unhx(in[7]), key4(in[8])) }
}

func key4(s string) (k [4]byte) { copy(k[:], unhx(s)); return }

func c02C(c *ctx, p []byte, key [4]byte, off int, align int) {
	arena := make([]byte, len(p)+16)
	buf := arena[align : align+len(p)]
	copy(buf, p)
	ws.Cipher(buf, key, off)
	// bytes outside the slice must be untouched
	clean := true
	for i, b := range arena {
		if (i < align || i >= align+len(p)) && b != 0 {
			clean = false
		}
	}
	c.emit("C02C %s %s %d %d -> %s %d", hx(p), hx(key[:]), off, align, hx(buf), b2i(clean))
}

func intsSpec(s string) []int {
	var out []int
	if s == "-" {
		return []int{4096}
	}
	for _, x := range strings.Split(s, ",") {
		v, _ := strconv.Atoi(x)
		if v <= 0 {
			v = 1
		}
		out = append(out, v)
	}
	return out
}

func c02R(c *ctx, p []byte, key [4]byte, spec, tail, bufs string) {
	src := newChunkReader(p, spec, tail)
	cr := wsutil.NewCipherReader(src, key)
	bs := intsSpec(bufs)
	var out []byte
	var err error
	for i := 0; ; i++ {
		buf := make([]byte, bs[i%len(bs)])
		var n int
		n, err = cr.Read(buf)
		out = append(out, buf[:n]...)
		if err != nil || i > len(p)+10 {
			break
		}
	}
	// Reset must restart the key stream
	src2 := newChunkReader(p, "-", "eof")
	cr.Reset(src2, key)
	buf := make([]byte, len(p)+1)
	n, _ := cr.Read(buf)
	c.emit("C02R %s %s %s %s %s -> %s %s %s", hx(p), hx(key[:]), spec, tail, bufs, hx(out), ioErrClass(err), hx(buf[:n]))
}

// C02RC: the mask reader drained by io.Copy (which takes a WriteTo fast path when the reader offers one)
func c02RC(c *ctx, p []byte, key [4]byte, spec, tail string) {
	src := newChunkReader(p, spec, tail)
	cr := wsutil.NewCipherReader(src, key)
	var out bytes.Buffer
	_, err := io.Copy(&out, cr)
	c.emit("C02RC %s %s %s %s -> %s %s", hx(p), hx(key[:]), spec, tail, hx(out.Bytes()), ioErrClass(err))
}

type patSrc struct{ pos, n int64 }

func (s *patSrc) Read(p []byte) (int, error) {
	if s.pos >= s.n {
		return 0, io.EOF
	}
	k := int64(len(p))
	if k > s.n-s.pos {
		k = s.n - s.pos
	}
	b := byte(s.pos*7 + 3)
	for i := int64(0); i < k; i++ {
		p[i] = b
		b += 7
	}
	s.pos += k
	return int(k), nil
}

// C02G: one payload longer than 2^31 bytes through the mask reader (reused 1 MiB buffer, odd-sized reads at the
// end): byte i is still payload[i] XOR key[i mod 4]
func c02G(c *ctx, total int64, key [4]byte) {
	out := "ok"
	func() {
		defer func() {
			if r := recover(); r != nil {
				out = "panic"
			}
		}()
		cr := wsutil.NewCipherReader(&patSrc{n: total}, key)
		buf := make([]byte, 1<<20)
		var pos int64
		bad := int64(-1)
		sizes := []int{1 << 20, 1<<20 - 1, 3, 5, 1 << 20, 7}
		for i := 0; ; i++ {
			k := sizes[i%len(sizes)]
			n, err := cr.Read(buf[:k])
			// check the first and the last 16 bytes of every read
			for j := 0; j < n; j++ {
				if j == 16 && n > 32 {
					j = n - 16
				}
				if buf[j] != byte((pos+int64(j))*7+3)^key[(pos+int64(j))%4] && bad < 0 {
					bad = pos + int64(j)
				}
			}
			pos += int64(n)
			if err != nil {
				break
			}
		}
		if bad >= 0 {
			out = fmt.Sprintf("bad:%d", bad)
		} else if pos != total {
			out = fmt.Sprintf("short:%d", pos)
		}
	}()
	c.emit("C02G %d %s -> %s", total, hx(key[:]), out)
}

func c02W(c *ctx, p []byte, key [4]byte, splits string) {
	w := newRecWriter()
	cw := wsutil.NewCipherWriter(w, key)
	sizes := intsSpec(splits)
	orig := append([]byte(nil), p...)
	mine := append([]byte(nil), p...)
	rest := mine
	intact := true
	for i := 0; len(rest) > 0 || i == 0; i++ {
		k := sizes[i%len(sizes)]
		if k > len(rest) {
			k = len(rest)
		}
		piece := rest[:k]
		n, err := cw.Write(piece)
		if n != k || err != nil {
			intact = false
		}
		rest = rest[k:]
		if len(rest) == 0 {
			break
		}
	}
	if !bytes.Equal(mine, orig) {
		intact = false
	}
	snapshot := w.all()
	for i := range mine { // caller reuses its slice afterwards
		mine[i] = 0xAA
	}
	destIntact := bytes.Equal(snapshot, w.all())
	c.emit("C02W %s %s %s -> %s %d %d", hx(p), hx(key[:]), splits, hxList(w.calls), b2i(intact), b2i(destIntact))
}

// shortWriter accepts only part of one call (returning io.ErrShortWrite), as a
// destination under back-pressure may; the caller resumes with the rest.
type shortWriter struct {
	got     []byte
	call    int
	shortAt int
	take    int
}

func (w *shortWriter) Write(p []byte) (int, error) {
	w.call++
	if w.call == w.shortAt && len(p) > w.take {
		w.got = append(w.got, p[:w.take]...)
		return w.take, errShort
	}
	w.got = append(w.got, p...)
	return len(p), nil
}

var errShort = fmt.Errorf("verif: short write")

// C02WS: CipherWriter over a destination that takes a call only partially; the caller resumes
func c02WS(c *ctx, p []byte, key [4]byte, piece int, shortAt int) {
	dst := &shortWriter{shortAt: shortAt, take: piece / 2}
	cw := wsutil.NewCipherWriter(dst, key)
	rest := append([]byte(nil), p...)
	guard := 0
	for len(rest) > 0 && guard < 10*len(p)+10 {
		guard++
		k := piece
		if k > len(rest) {
			k = len(rest)
		}
		n, err := cw.Write(rest[:k])
		if err != nil && err != errShort {
			break
		}
		if n == 0 && err == nil {
			break
		}
		rest = rest[n:]
	}
	c.emit("C02WS %s %s %d %d -> %s", hx(p), hx(key[:]), piece, shortAt, hx(dst.got))
}

// C02WR: CipherWriter reused through Reset: the key stream restarts at offset 0
func c02WR(c *ctx, p []byte, key, key2 [4]byte, splits string) {
	w := newRecWriter()
	cw := wsutil.NewCipherWriter(w, key)
	sizes := intsSpec(splits)
	write := func(data []byte) {
		rest := data
		for i := 0; len(rest) > 0; i++ {
			k := sizes[i%len(sizes)]
			if k > len(rest) {
				k = len(rest)
			}
			cw.Write(rest[:k])
			rest = rest[k:]
		}
	}
	write(p)
	w2 := newRecWriter()
	cw.Reset(w2, key2)
	write(p)
	c.emit("C02WR %s %s %s %s -> %s %s", hx(p), hx(key[:]), hx(key2[:]), splits, hx(w.all()), hx(w2.all()))
}

// C02FB: copying helpers on a payload that is a PREFIX of a larger caller buffer: the rest of
// the caller's backing array stays untouched and the returned payload does not live in it
func c02FB(c *ctx, name string, n, spare int) {
	backing := make([]byte, n+spare)
	for i := range backing {
		backing[i] = byte(0xC0 + i%7)
	}
	saved := append([]byte(nil), backing...)
	f := ws.Frame{Header: ws.Header{Fin: true, OpCode: ws.OpBinary, Length: int64(n)}, Payload: backing[:n]}
	var g ws.Frame
	key := [4]byte{9, 8, 7, 6}
	switch name {
	case "MaskFrame":
		g = ws.MaskFrame(f)
	case "MaskFrameWith":
		g = ws.MaskFrameWith(f, key)
	case "UnmaskFrame":
		f.Header.Masked, f.Header.Mask = true, key
		g = ws.UnmaskFrame(f)
	case "UnmaskFramePlain": // a frame that is not masked: the documented copy is still a copy
		g = ws.UnmaskFrame(f)
	case "MaskFrameMasked": // a frame whose header already says masked
		f.Header.Masked, f.Header.Mask = true, [4]byte{1, 2, 3, 4}
		g = ws.MaskFrameWith(f, key)
	}
	inside := false
	if len(g.Payload) > 0 && len(backing) > 0 {
		a := uintptr(unsafe.Pointer(&g.Payload[0]))
		lo := uintptr(unsafe.Pointer(&backing[0]))
		inside = a >= lo && a < lo+uintptr(len(backing))
	}
	c.emit("C02FB %s %d %d -> %d %d", name, n, spare, b2i(bytes.Equal(backing, saved)), b2i(inside))
}

func c02F(c *ctx, name string, h ws.Header, p []byte, key [4]byte) {
	caller := append([]byte(nil), p...)
	f := ws.Frame{Header: h, Payload: caller}
	var g ws.Frame
	switch name {
	case "MaskFrame":
		g = ws.MaskFrame(f)
	case "MaskFrameWith":
		g = ws.MaskFrameWith(f, key)
	case "MaskFrameInPlace":
		g = ws.MaskFrameInPlace(f)
	case "MaskFrameInPlaceWith":
		g = ws.MaskFrameInPlaceWith(f, key)
	case "UnmaskFrame":
		g = ws.UnmaskFrame(f)
	case "UnmaskFrameInPlace":
		g = ws.UnmaskFrameInPlace(f)
	}
	alias := len(p) > 0 && len(g.Payload) > 0 && &g.Payload[0] == &caller[0]
	c.emit("C02F %s %s %s %s -> %s %s %s %d", name, hdrStr(h), hx(p), hx(key[:]), hdrStr(g.Header), hx(g.Payload), hx(caller), b2i(alias))
}

func runC02(c *ctx) {
	keys := [][4]byte{{0, 0, 0, 0}, {0xde, 0xad, 0xbe, 0xef}, {1, 0x80, 0xff, 0x7f}}
	offs := []int{0, 1, 2, 3, 4, 5, 6, 7, 8, 9, 1 << 31, 1<<40 + 3}
	maxLen := 70
	// exhaustive lengths x offsets x alignments x keys
	for n := 0; n <= maxLen; n++ {
		p := make([]byte, n)
		c.rng.Read(p)
		for _, off := range offs {
			for al := 0; al < 8; al++ {
				if !c.thor && (al+n+off)%3 != 0 && n > 24 {
					continue
				}
				c02C(c, p, keys[(n+al)%3], off, al)
			}
		}
	}
	nr := 300
	if c.thor {
		nr = 5000
	}
	for i := 0; i < nr; i++ {
		n := c.rng.Intn(300)
		if i%10 == 0 {
			n = 1000 + c.rng.Intn(70000)
		}
		if !c.thor && n > 20000 {
			n = 20000
		}
		p := make([]byte, n)
		c.rng.Read(p)
		var key [4]byte
		c.rng.Read(key[:])
		c02C(c, p, key, int(c.rng.Int63n(1<<62)), c.rng.Intn(8))
		if n <= 5000 {
			bufs := []string{"1", "3", "4096", "2,7,1", "16,1"}[c.rng.Intn(5)]
			c02R(c, p, key, c.randChunkSpec(n), []string{"eof", "fail", "eofdata", "faildata"}[c.rng.Intn(4)], bufs)
			c02WS(c, p, key, 1+c.rng.Intn(9), c.rng.Intn(5))
			c02W(c, p, key, []string{"1", "3", "7,2", "4096", "16,1,5"}[c.rng.Intn(5)])
		} else {
			// big payloads in ONE write / read (beyond the largest class of the byte pool) and in big pieces
			c02W(c, p, key, []string{"1000000", "65536,3", "65537", "40000"}[i%4])
			c02R(c, p, key, []string{"-", "r65536", "r70001"}[i%3], []string{"eof", "eofdata"}[i%2], "1000000")
		}
	}
	for i, spec := range []string{"r3", "r1", "5,1,9", "r7", "1,2,3,5,7,11,13", "-", "r4096", "4095,1,2"} {
		p := make([]byte, []int{0, 1, 3, 10, 100, 5000, 9000}[i%7])
		c.rng.Read(p)
		c02RC(c, p, keys[1+i%2], spec, []string{"eof", "eofdata", "fail"}[i%3])
	}
	if c.thor {
		c02G(c, 1<<31+3<<20+5, keys[1])
		c02G(c, 1<<32+3<<20+3, keys[2])
	} else {
		c02G(c, 1<<31+3<<20+5, keys[2])
	}
	for _, n := range []int{65535, 65536, 65537, 65539, 131072, 131075, 200001} {
		p := make([]byte, n)
		c.rng.Read(p)
		c02W(c, p, keys[1], "1000000")
	}
	// every small length through reader/writer with 1-byte granularity
	for n := 0; n <= 40; n++ {
		p := make([]byte, n)
		c.rng.Read(p)
		for _, spec := range []string{"-", "r1", "r3", "5,1,9"} {
			for _, bufs := range []string{"1", "4", "4096"} {
				c02R(c, p, keys[1], spec, "eof", bufs)
				c02R(c, p, keys[2], spec, "eofdata", bufs)
			}
			c02WS(c, p, keys[1], 1+n%7, n%4)
		}
		for _, sp := range []string{"1", "2", "5", "9,1"} {
			c02W(c, p, keys[2], sp)
		}
	}
	for _, n := range []int{1, 2, 3, 5, 6, 7, 9, 13, 40} {
		p := make([]byte, n)
		c.rng.Read(p)
		c02WR(c, p, keys[1], keys[2], []string{"1", "3", "7,2", "4096"}[n%4])
	}
	for _, name := range []string{"MaskFrame", "MaskFrameWith", "UnmaskFrame", "UnmaskFramePlain", "MaskFrameMasked"} {
		for _, n := range []int{1, 7, 8, 33, 200} {
			for _, spare := range []int{0, 1, n - 1, n, n + 1, 3 * n, 4096} {
				if spare >= 0 {
					c02FB(c, name, n, spare)
				}
			}
		}
	}
	// frame helpers
	names := []string{"MaskFrame", "MaskFrameWith", "MaskFrameInPlace", "MaskFrameInPlaceWith", "UnmaskFrame", "UnmaskFrameInPlace"}
	for _, name := range names {
		for _, n := range []int{0, 1, 7, 8, 9, 23, 24, 25, 40, 127, 1000} {
			p := make([]byte, n)
			c.rng.Read(p)
			h := ws.Header{Fin: true, OpCode: ws.OpBinary, Length: int64(n), Rsv: byte(c.rng.Intn(8))}
			var key [4]byte
			c.rng.Read(key[:])
			if strings.HasPrefix(name, "Unmask") {
				h.Masked = true
				h.Mask = key
			}
			c02F(c, name, h, p, key)
			if !strings.HasPrefix(name, "Unmask") {
				// a frame whose header already says masked (stale key): the helper applies the new key only
				h.Masked = true
				c.rng.Read(h.Mask[:])
				c02F(c, name, h, p, key)
			}
			// a frame whose Header.Length does not (yet) say len(Payload) - a Frame literal filled in later, a
			// payload grown after NewFrame: the helpers mask the payload they are given, whatever the header says
			if n > 0 {
				for _, l := range []int64{0, 1, int64(n) - 1, int64(n) + 1, int64(n) / 2, 1 << 40} {
					if l == int64(n) || l < 0 {
						continue
					}
					h2 := ws.Header{Fin: true, OpCode: ws.OpBinary, Length: l}
					if strings.HasPrefix(name, "Unmask") {
						h2.Masked = true
						h2.Mask = key
					}
					c02F(c, name, h2, p, key)
				}
			}
		}
	}
}
