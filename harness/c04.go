package main

import (
	"bytes"
	"strconv"
	"strings"
)

func init() {
	props["C04"] = runC04
	props["C05"] = runC05
	props["C07"] = runC07
	props["C13"] = runC13
	props["C16"] = runC16
}

// is the abstract sequence RFC-valid and complete (ends outside a message)?
func seqValid(seq []aframe) bool {
	open := false
	for _, a := range seq {
		switch {
		case a.op >= 8:
			if !a.fin || a.n > 125 {
				return false
			}
		case a.op == 0:
			if !open {
				return false
			}
			open = !a.fin
		default:
			if open {
				return false
			}
			open = !a.fin
		}
	}
	return !open
}

func (c *ctx) concrete(side byte, seq []aframe) []sframe {
	var fs []sframe
	for _, a := range seq {
		fs = append(fs, c.mkFrame(side, a.fin, a.op, a.n))
	}
	return fs
}

// C04: valid streams, all entry points, chunkings, buffer sizes
func runC04(c *ctx) {
	maxLen := 3
	sizes := []int{0, 2}
	if c.thor {
		maxLen = 4
	}
	i := 0
	enumSeqs(alphabet(sizes), maxLen, func(seq []aframe) {
		if !seqValid(seq) {
			return
		}
		i++
		side := byte(1 + i%2)
		fs := c.concrete(side, seq)
		cfg := rcfg{state: sideState(side), chk: i%3 == 0, cb: 1}
		runRD(c, "RD", cfg, fs, "-", chunkSpecs[i%len(chunkSpecs)], "eof", bufSpecs[i%len(bufSpecs)])
		if i%2 == 0 {
			runRM(c, "RM", sideState(side), fs, "-", chunkSpecs[(i/2)%len(chunkSpecs)], "eof")
		}
		// skip / discard patterns: skipped bytes never leak into a later message
		runRDD(c, cfg, fs, chunkSpecs[(i+3)%len(chunkSpecs)], "eof", bufSpecs[(i+1)%len(bufSpecs)], []string{"d", "dr", "rd", "p", "pr", "drp"}[i%6])
	})
	// header split at every offset for a few streams with big payload classes
	for _, side := range []byte{1, 2} {
		fs := []sframe{c.mkFrame(side, false, 1, 126), c.mkFrame(side, true, 9, 125), c.mkFrame(side, false, 0, 0),
			c.mkFrame(side, true, 0, 300), c.mkFrame(side, true, 2, 70000), c.mkFrame(side, true, 8, 2)}
		w := len(wireOf(fs[:4]))
		small := append(append([]sframe(nil), fs[:4]...), fs[5])
		for cut := 1; cut < w && cut < 60; cut++ {
			runRD(c, "RD", rcfg{state: side, cb: 1}, small, "-", strconv.Itoa(cut)+",1,1,1,1", "eof", "4096")
		}
		runRD(c, "RD", rcfg{state: side, cb: 1, chk: true}, fs, "-", "r4096", "eof", "1000")
		runRM(c, "RM", side, fs, "-", "r1000", "eof")
	}
	n := 160
	if c.thor {
		n = 6000
	}
	for j := 0; j < n; j++ {
		side := byte(1 + c.rng.Intn(2))
		nf := 1 + c.rng.Intn(12)
		sameKey = 0
		if j%4 == 1 {
			sameKey = 1 + j%200 // consecutive frames masked with the same key
		}
		if j%50 == 7 {
			nf = 100 + c.rng.Intn(100)
		}
		maxp := 600
		if c.thor {
			maxp = 2000
		}
		if j%100 == 3 {
			maxp = 70000
		}
		fs := c.randValidStream(side, nf, maxp)
		cfg := rcfg{state: side, chk: c.rng.Intn(2) == 0, cb: c.rng.Intn(4) / 3 * 0}
		cfg.cb = 1
		if c.rng.Intn(5) == 0 {
			cfg.cb = 0
		}
		w := wireOf(fs)
		tl := []string{"eof", "eof", "eofdata"}[j%3] // the last bytes may arrive together with io.EOF
		runRD(c, "RD", cfg, fs, "-", c.randChunkSpec(len(w)), tl, bufSpecs[c.rng.Intn(len(bufSpecs))])
		runRM(c, "RM", side, fs, "-", c.randChunkSpec(len(w)), tl)
		runRDD(c, cfg, fs, c.randChunkSpec(len(w)), "eof", bufSpecs[c.rng.Intn(len(bufSpecs))], []string{"d", "dr", "rd", "p", "pr", "drp", "rrd"}[c.rng.Intn(7)])
		// scripts with Discard at random points and partial reads
		c.randScript(rcfg{state: side, chk: cfg.chk, cb: 1}, w)
	}
	sameKey = 0
	runC04X(c)
}

func (c *ctx) randScript(cfg rcfg, w []byte) {
	var ops []string
	nops := 3 + c.rng.Intn(20)
	for k := 0; k < nops; k++ {
		switch c.rng.Intn(6) {
		case 0, 1:
			ops = append(ops, "n")
		case 2:
			ops = append(ops, "d")
		default:
			ops = append(ops, "r"+strconv.Itoa([]int{1, 2, 5, 130, 4096}[c.rng.Intn(5)]))
		}
	}
	s := ops[0]
	for _, o := range ops[1:] {
		s += "," + o
	}
	if len(w) > 6000 {
		w = w[:6000]
	}
	runRS(c, cfg, w, c.randChunkSpec(len(w)), []string{"eof", "fail"}[c.rng.Intn(4)/3], s)
}

// invalid frames of the alphabet (C05)
type badFrame struct {
	op     byte
	fin    bool
	n      int
	rsv    byte
	flipMk bool
}

var badFrames = []badFrame{
	{op: 3, fin: true}, {op: 7, fin: true, n: 2}, {op: 0xb, fin: true}, {op: 0xf, fin: true, n: 1},
	{op: 9, fin: false, n: 1}, {op: 8, fin: false}, {op: 10, fin: false},
	{op: 9, fin: true, n: 126}, {op: 8, fin: true, n: 200},
	{op: 1, fin: true, n: 2, flipMk: true}, {op: 9, fin: true, flipMk: true},
	{op: 1, fin: true, n: 1, rsv: 4}, {op: 2, fin: false, n: 1, rsv: 1}, {op: 9, fin: true, rsv: 2},
	{op: 0, fin: true, n: 1}, {op: 0, fin: false}, // stray continuation (when no message open)
	{op: 1, fin: true, n: 1}, {op: 2, fin: false, n: 2}, // nested data frame (when a message is open)
	// continuation frames breaking a rule that has nothing to do with fragmentation (inside an open message
	// these are the only rules they break)
	{op: 0, fin: true, n: 1, flipMk: true}, {op: 0, fin: false, n: 2, flipMk: true},
	{op: 0, fin: true, n: 1, rsv: 4}, {op: 0, fin: false, rsv: 1}, {op: 0, fin: true, rsv: 2},
}

func runC05(c *ctx) {
	maxLen := 2
	if c.thor {
		maxLen = 3
	}
	i := 0
	enumSeqs(alphabet([]int{0, 2}), maxLen, func(seq []aframe) {
		// valid prefix (possibly ending inside a message)
		open := false
		for _, a := range seq {
			switch {
			case a.op >= 8:
				if !a.fin {
					return
				}
			case a.op == 0:
				if !open {
					return
				}
				open = !a.fin
			default:
				if open {
					return
				}
				open = !a.fin
			}
		}
		for _, b := range badFrames {
			i++
			side := byte(1 + i%2)
			fs := c.concrete(side, seq)
			bf := c.mkFrame(side, b.fin, b.op, b.n)
			bf.rsv = b.rsv
			if b.flipMk {
				bf.masked = !bf.masked
				if bf.masked {
					c.rng.Read(bf.key[:])
				}
			}
			fs = append(fs, bf, c.mkFrame(side, true, 2, 3))
			cfg := rcfg{state: side, cb: 1, chk: i%2 == 0}
			if i%7 == 0 {
				cfg.state |= 4 // extended: rsv allowed
			}
			runRD(c, "RD", cfg, fs, "-", chunkSpecs[i%len(chunkSpecs)], "eof", bufSpecs[i%len(bufSpecs)])
			if i%3 == 0 {
				runRM(c, "RM", side, fs, "-", chunkSpecs[(i/3)%len(chunkSpecs)], "eof")
			}
			if i%2 == 0 {
				runRDD(c, cfg, fs, chunkSpecs[(i+1)%len(chunkSpecs)], "eof", bufSpecs[(i+2)%len(bufSpecs)], []string{"d", "dr", "p"}[i%3])
			}
			// the ReadData family (incl. the helpers that skip messages of the other kind)
			if cfg.state&4 == 0 && (c.thor || i%2 == 1) {
				runRX(c, "RX", side, []string{"data", "text", "binary"}[(i/2)%3], fs, "-", chunkSpecs[(i+2)%len(chunkSpecs)], "eof")
			}
		}
	})
	// MaxFrameSize around the announced length
	for _, side := range []byte{1, 2} {
		for _, n := range []int{0, 1, 125, 126, 300, 65536} {
			for _, d := range []int64{-1, 0, 1} {
				max := int64(n) + d
				for _, pre := range [][]aframe{nil, {{1, false, 2}}, {{2, true, 1}, {9, true, 0}}} {
					fs := c.concrete(side, pre)
					op := byte(2)
					if len(pre) == 1 {
						op = 0
					}
					fs = append(fs, c.mkFrame(side, true, op, n), c.mkFrame(side, true, 1, 1))
					runRD(c, "RD", rcfg{state: side, cb: 1, max: max}, fs, "-", chunkSpecs[(n+int(d)+1)%len(chunkSpecs)], "eof", "4096")
				}
			}
		}
	}
	n := 300
	if c.thor {
		n = 5000
	}
	for j := 0; j < n; j++ {
		side := byte(1 + c.rng.Intn(2))
		fs := c.randValidStream(side, 1+c.rng.Intn(10), 500)
		// inject a violation at a random position
		k := c.rng.Intn(len(fs) + 1)
		b := badFrames[c.rng.Intn(len(badFrames))]
		bf := c.mkFrame(side, b.fin, b.op, b.n)
		bf.rsv = b.rsv
		if b.flipMk {
			bf.masked = !bf.masked
		}
		fs2 := append(append(append([]sframe(nil), fs[:k]...), bf), fs[k:]...)
		cfg := rcfg{state: side, cb: 1, chk: c.rng.Intn(2) == 0}
		w := wireOf(fs2)
		runRD(c, "RD", cfg, fs2, "-", c.randChunkSpec(len(w)), "eof", bufSpecs[c.rng.Intn(len(bufSpecs))])
		runRM(c, "RM", side, fs2, "-", c.randChunkSpec(len(w)), "eof")
		// the violation may sit inside a message the caller is skipping
		runRDD(c, cfg, fs2, c.randChunkSpec(len(w)), "eof", bufSpecs[c.rng.Intn(len(bufSpecs))], []string{"d", "dr", "rd", "p", "pd"}[c.rng.Intn(5)])
	}
}

// C07: text messages split at every offset, pings between, consecutive messages
func runC07(c *ctx) {
	runU8(c, 2000)
	runU8R(c)
	runUtf8Discard(c, 40) // a following message starts from a clean validator state
	nr := 300
	if c.thor {
		nr = 5000
	}
	for i := 0; i < nr; i++ {
		p, spec := c.utf8Runs()
		u8(c, p)
		u8r(c, p, spec, []string{"4096", "64", "16", "17"}[i%4])
		// as a text message: one fragment per piece
		side := byte(1 + i%2)
		var fs []sframe
		rest := p
		parts := strings.Split(spec, ",")
		for k, ps := range parts {
			n, _ := strconv.Atoi(ps)
			if spec == "-" || n > len(rest) {
				n = len(rest)
			}
			f := c.mkFrame(side, k == len(parts)-1, map[bool]byte{true: 1, false: 0}[k == 0], 0)
			f.payload = rest[:n]
			rest = rest[n:]
			fs = append(fs, f)
		}
		fs[len(fs)-1].payload = append(fs[len(fs)-1].payload, rest...)
		runRD(c, "RD", rcfg{state: side, chk: true, cb: 1}, fs, "-", "-", "eof", "4096")
		runRM(c, "RM", side, fs, "-", "r4096", "eof")
	}
	var samples [][]byte
	samples = append(samples, reasonSamples...)
	ns := 60
	if c.thor {
		ns = 1500
	}
	for i := 0; i < ns; i++ {
		samples = append(samples, randUtf8ish(c, 1+c.rng.Intn(14)))
	}
	i := 0
	for _, p := range samples {
		for _, side := range []byte{1, 2} {
			// whole
			mk := func(fin bool, op byte, pl []byte) sframe {
				f := c.mkFrame(side, fin, op, 0)
				f.payload = pl
				return f
			}
			follow := mk(true, 1, []byte("ok"))
			for cut1 := 0; cut1 <= len(p); cut1++ {
				for cut2 := cut1; cut2 <= len(p); cut2 += 1 + len(p)/3 {
					i++
					var fs []sframe
					if cut1 == len(p) && cut2 == len(p) {
						fs = []sframe{mk(true, 1, p), follow}
					} else {
						fs = []sframe{mk(false, 1, p[:cut1]), mk(true, 9, []byte{0xff, 0xfe}), mk(false, 0, p[cut1:cut2]), mk(true, 0, p[cut2:]), follow}
					}
					cfg := rcfg{state: side, chk: true, cb: 1}
					runRD(c, "RD", cfg, fs, "-", chunkSpecs[i%len(chunkSpecs)], "eof", bufSpecs[i%len(bufSpecs)])
					if i%3 == 0 {
						runRM(c, "RM", side, fs, "-", chunkSpecs[(i/3)%len(chunkSpecs)], "eof")
					}
					if i%5 == 0 { // binary is never checked; unchecked reader never fails
						fb := append([]sframe(nil), fs...)
						fb[0].op = 2
						runRD(c, "RD", cfg, fb, "-", "r2", "eof", "3")
						runRD(c, "RD", rcfg{state: side, chk: false, cb: 1}, fs, "-", "r3", "eof", "2")
					}
				}
			}
		}
	}
}

// multi-byte sequence opened, a long ASCII run, then the rest: chunk sizes = piece sizes
func (c *ctx) utf8Runs() ([]byte, string) {
	seqs := [][]byte{{0xc3, 0xa9}, {0xe2, 0x82, 0xac}, {0xf0, 0x9f, 0x98, 0x80}, {0xed, 0xa0, 0x80}, {0xe2, 0x82}, {0xc3}}
	var out []byte
	var sizes []string
	for k := 0; k < 1+c.rng.Intn(3); k++ {
		sq := seqs[c.rng.Intn(len(seqs))]
		cut := c.rng.Intn(len(sq) + 1)
		run := bytes.Repeat([]byte{byte('a' + c.rng.Intn(26))}, []int{0, 1, 15, 16, 17, 33, 64}[c.rng.Intn(7)])
		switch c.rng.Intn(3) {
		case 0: // ASCII run inside the sequence (invalid)
			out = append(out, sq[:cut]...)
			out = append(out, run...)
			out = append(out, sq[cut:]...)
			sizes = append(sizes, strconv.Itoa(cut), strconv.Itoa(len(run)), strconv.Itoa(len(sq)-cut))
		case 1: // run after the sequence (valid when the sequence is)
			out = append(out, sq...)
			out = append(out, run...)
			sizes = append(sizes, strconv.Itoa(len(sq)), strconv.Itoa(len(run)))
		default: // run before
			out = append(out, run...)
			out = append(out, sq...)
			sizes = append(sizes, strconv.Itoa(len(run)), strconv.Itoa(cut), strconv.Itoa(len(sq)-cut))
		}
	}
	var sz []string
	for _, x := range sizes {
		if x != "0" {
			sz = append(sz, x)
		}
	}
	if len(sz) == 0 {
		return out, "-"
	}
	return out, strings.Join(sz, ",")
}

// C13: MessageState attached; all RSV patterns on every frame kind
func runC13(c *ctx) {
	i := 0
	maxLen := 3
	enumSeqs(alphabet([]int{1}), maxLen, func(seq []aframe) {
		if !seqValid(seq) && c.rng.Intn(4) != 0 {
			return
		}
		for v := 0; v < 3; v++ {
			i++
			side := byte(1 + i%2)
			fs := c.concrete(side, seq)
			for k := range fs {
				switch c.rng.Intn(6) {
				case 0, 1:
					fs[k].rsv = 4
				case 2:
					fs[k].rsv = byte(c.rng.Intn(8))
				}
			}
			cfg := rcfg{state: side | 4, cb: 1, ext: true}
			if i%11 == 0 {
				cfg.state = side // extension attached but state not extended
			}
			if i%13 == 0 {
				cfg.ext = false
			}
			runRD(c, "RD", cfg, fs, "-", chunkSpecs[i%len(chunkSpecs)], "eof", bufSpecs[i%len(bufSpecs)])
		}
	})
	// discarding a message must not hide RSV1 on its later frames
	for j := 0; j < 60; j++ {
		side := byte(1 + j%2)
		first := c.mkFrame(side, false, byte(1+j%2), 3)
		first.rsv = []byte{4, 0}[j%2]
		mid := c.mkFrame(side, false, 0, 2)
		ctl := c.mkFrame(side, true, 9, 1)
		last := c.mkFrame(side, true, 0, 2)
		switch j % 3 {
		case 0:
			mid.rsv = 4
		case 1:
			ctl.rsv = 4
		case 2:
			last.rsv = 4
		}
		fs := []sframe{first, mid, ctl, last, c.mkFrame(side, true, 2, 1)}
		runRDD(c, rcfg{state: side | 4, cb: 1, ext: true}, fs, chunkSpecs[j%len(chunkSpecs)], "eof", bufSpecs[j%len(bufSpecs)], []string{"d", "p", "dr"}[j%3])
	}
	runC13W(c)
}

// C16 (read side): every cut offset of generated streams, EOF and failing tails
func runC16(c *ctx) {
	i := 0
	maxLen := 3
	enumSeqs(alphabet([]int{0, 3}), maxLen, func(seq []aframe) {
		if !seqValid(seq) {
			return
		}
		i++
		if !c.thor && i%4 != 0 {
			return
		}
		side := byte(1 + i%2)
		fs := c.concrete(side, seq)
		w := wireOf(fs)
		for cut := 0; cut < len(w); cut++ {
			tail := []string{"eof", "fail"}[(cut+i)%2]
			cfg := rcfg{state: side, cb: 1, chk: cut%2 == 0}
			runRD(c, "RC", cfg, fs, strconv.Itoa(cut), chunkSpecs[(i+cut)%len(chunkSpecs)], tail, bufSpecs[(i+cut)%len(bufSpecs)])
			if (cut+i)%3 == 0 {
				runRM(c, "RMC", side, fs, strconv.Itoa(cut), chunkSpecs[(i+cut+1)%len(chunkSpecs)], tail)
			}
		}
	})
	n := 30
	if c.thor {
		n = 600
	}
	for j := 0; j < n; j++ {
		side := byte(1 + c.rng.Intn(2))
		fs := c.randValidStream(side, 1+c.rng.Intn(6), 300)
		w := wireOf(fs)
		for cut := 0; cut < len(w); cut += 1 + c.rng.Intn(1+len(w)/40) {
			tail := []string{"eof", "fail"}[c.rng.Intn(2)]
			runRD(c, "RC", rcfg{state: side, cb: 1, chk: true}, fs, strconv.Itoa(cut), c.randChunkSpec(cut), tail, bufSpecs[c.rng.Intn(len(bufSpecs))])
			runRM(c, "RMC", side, fs, strconv.Itoa(cut), c.randChunkSpec(cut), tail)
			if cut%5 == 0 {
				c.randScript(rcfg{state: side, chk: true, cb: 1}, w[:cut])
			}
		}
	}
	runC16X(c)
	runC16W(c)
}
