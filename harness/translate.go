package main

// translate prints coq/gen/Translated.v: Gallina definitions re-derived, on every
// run, from the Go SOURCE text of the pure decision logic of gobwas/ws (tie C).
//
// The source directory is the directory of the file that defines ws.CheckHeader
// in the binary that runs (so the harness module's `replace` directive decides,
// and a scratch worktree given through VERIF_REPO is picked up).  The files are
// parsed with go/parser; a FIXED list of functions (plus whatever they call) is
// translated.  Only a small, total, side-effect-free subset of Go is accepted;
// anything else stops the translator with
//     translate: unsupported construct <pos>: <what>
// and exit status 1 — it never guesses.
//
// Conventions of the generated file are documented in its header comment.
//
// Accepted subset
//   functions / value-receiver methods with exactly one result (bool, integer,
//   error, struct of booleans and integers), named or not; parameters of those
//   types plus string / []byte (opaque: only passed on to library oracles);
//   statements: if / else if / else (no init), tagless and tagged switch (no
//     init, no fallthrough / break; several values per case; default anywhere),
//     blocks, `x := e`, `var x T [= e]`, `x = e`, `x op= e`, `x++ / x--` on
//     scalar locals (no shadowing of a name in scope), `return e`, bare return
//     with a named result; statements after a conditional are the continuation
//     of every branch that falls through (printed once per such branch);
//   expressions: integer / char literals, true / false / nil, iota, named
//     constants of the three packages (typed or untyped, implicit repetition,
//     evaluated exactly with go/constant, range-checked against their type),
//     locals, fields of struct values, struct literals (keyed or positional),
//     package variables ErrX (-> constructor E_ErrX) and package variables
//     holding a struct literal of constants that are never assigned or
//     address-taken in their package, + - * (and / % by a non-zero constant),
//     & | ^ &^, << >> (constant count, or a count of unsigned type), unary
//     - ^ + !, comparisons, && ||, conversions between integer types, len of a
//     fixed-size array field, calls of other functions / methods of the three
//     packages (translated on demand, recursion rejected), calls listed in
//     xlOracles (-> oracle parameter).
//   Everything is total: there is no indexing, no division by a variable, no
//   shift by a signed variable, no pointer, no loop.
//
// Trust: the translator is part of the trusted base of the `source` theorems
// (C0x_source_*): they speak about the generated term, so a translation that
// does not mean what the Go text means (wrong operator mapping, wrong wrap,
// wrong evaluation of a constant, wrong reading of switch / scoping rules,
// build-tag file selection different from the compiler's) could make a proved
// equality say nothing about the code.  It is kept small, rejects instead of
// approximating, and stays under the differential runs (tie B) that execute the
// compiled functions on the same inputs.

import (
	"fmt"
	"go/ast"
	"go/build"
	"go/constant"
	"go/parser"
	"go/token"
	"os"
	"path/filepath"
	"reflect"
	"runtime"
	"sort"
	"strconv"
	"strings"

	"github.com/gobwas/ws"
)

func init() {
	props["translate"] = func(c *ctx) {
		out, err := xlRun()
		if err != nil {
			c.w.Flush()
			fmt.Fprintln(os.Stderr, err.Error())
			os.Exit(1)
		}
		fmt.Fprint(c.w, out)
	}
}

// xlRoots is the fixed list: package (relative to the module root), then
// "Func" or "Recv.Method".  Order = priority order; output is in dependency
// order of a depth-first walk over this list (deterministic).
var xlRoots = [][2]string{
	{"", "OpCode.IsControl"}, {"", "OpCode.IsData"}, {"", "OpCode.IsReserved"},
	{"", "StatusCode.In"}, {"", "StatusCode.Empty"}, {"", "StatusCode.IsNotUsed"},
	{"", "StatusCode.IsApplicationSpec"}, {"", "StatusCode.IsPrivateSpec"},
	{"", "StatusCode.IsProtocolSpec"}, {"", "StatusCode.IsProtocolDefined"},
	{"", "StatusCode.IsProtocolReserved"},
	{"", "State.Is"}, {"", "State.Set"}, {"", "State.Clear"}, {"", "State.ServerSide"},
	{"", "State.ClientSide"}, {"", "State.Extended"}, {"", "State.Fragmented"},
	{"", "CheckHeader"}, {"", "CheckCloseFrameData"},
	{"", "HeaderSize"},
	{"wsutil", "headerSize"}, {"wsutil", "reserve"}, {"wsutil", "ceilPowerOfTwo"},
	{"wsflate", "isValidBits"}, {"wsflate", "WindowBits.Defined"}, {"wsflate", "WindowBits.Bytes"},
	{"", "Header.Rsv1"}, {"", "Header.Rsv2"}, {"", "Header.Rsv3"}, {"", "Rsv"},
	{"", "min"}, {"", "nonZero"}, {"wsflate", "min"},
}

// library calls that become oracle parameters of the generated definitions
var xlOracles = map[string]struct {
	params []string
	result string
}{
	"unicode/utf8.ValidString": {[]string{"string"}, "bool"},
	"unicode/utf8.Valid":       {[]string{"[]byte"}, "bool"},
}

// ---------------------------------------------------------------- errors

type xlErr struct{ msg string }

func (e xlErr) Error() string { return e.msg }

// ---------------------------------------------------------------- types

type xlKind int

const (
	kBool xlKind = iota
	kInt
	kUntyped // untyped integer constant
	kStruct
	kArray
	kError
	kNil
	kOpaque
)

type xlType struct {
	kind   xlKind
	bits   int
	signed bool
	name   string // identity: builtin name or "pkg.Name"
	fields []xlField
	alen   int64  // kArray
	opq    string // kOpaque: "string" | "[]byte"
}

type xlField struct {
	name string
	typ  *xlType
}

var (
	tBool    = &xlType{kind: kBool, name: "bool"}
	tUntyped = &xlType{kind: kUntyped, name: "untyped int"}
	tError   = &xlType{kind: kError, name: "error"}
	tNil     = &xlType{kind: kNil, name: "nil"}
	tString  = &xlType{kind: kOpaque, name: "string", opq: "string"}
	tBytes   = &xlType{kind: kOpaque, name: "[]byte", opq: "[]byte"}
	tInt     = &xlType{kind: kInt, bits: 64, signed: true, name: "int"}
)

var xlBuiltinInts = map[string]*xlType{
	"int": tInt, "int8": {kind: kInt, bits: 8, signed: true, name: "int8"},
	"int16": {kind: kInt, bits: 16, signed: true, name: "int16"}, "int32": {kind: kInt, bits: 32, signed: true, name: "int32"},
	"int64": {kind: kInt, bits: 64, signed: true, name: "int64"}, "uint": {kind: kInt, bits: 64, name: "uint"},
	"uint8": {kind: kInt, bits: 8, name: "uint8"}, "uint16": {kind: kInt, bits: 16, name: "uint16"},
	"uint32": {kind: kInt, bits: 32, name: "uint32"}, "uint64": {kind: kInt, bits: 64, name: "uint64"},
}

func init() {
	xlBuiltinInts["byte"] = xlBuiltinInts["uint8"]
	xlBuiltinInts["rune"] = xlBuiltinInts["int32"]
}

func (t *xlType) lo() constant.Value {
	if !t.signed {
		return constant.MakeInt64(0)
	}
	return constant.UnaryOp(token.SUB, constant.Shift(constant.MakeInt64(1), token.SHL, uint(t.bits-1)), 0)
}
func (t *xlType) hi() constant.Value { // inclusive
	n := t.bits
	if t.signed {
		n--
	}
	return constant.BinaryOp(constant.Shift(constant.MakeInt64(1), token.SHL, uint(n)), token.SUB, constant.MakeInt64(1))
}
func (t *xlType) holds(v constant.Value) bool {
	return constant.Compare(t.lo(), token.LEQ, v) && constant.Compare(v, token.LEQ, t.hi())
}
func (t *xlType) contains(s *xlType) bool { return t.holds(s.lo()) && t.holds(s.hi()) }

func (t *xlType) coq() string {
	switch t.kind {
	case kBool:
		return "bool"
	case kInt, kUntyped:
		return "Z"
	case kStruct:
		return "g_" + xlShort(t.name)
	case kError:
		return "option g_error"
	case kOpaque:
		if t.opq == "string" {
			return "string_t"
		}
		return "bytes_t"
	}
	return "?"
}

func (t *xlType) rangeDoc() string {
	if t.kind != kInt {
		return ""
	}
	return fmt.Sprintf("%s <= _ <= %s", t.lo().ExactString(), t.hi().ExactString())
}

// "ws.Header" -> "Header", "wsutil.X" -> "wsutil_X"
func xlShort(name string) string {
	if strings.HasPrefix(name, "ws.") {
		return name[3:]
	}
	return strings.ReplaceAll(name, ".", "_")
}

// ---------------------------------------------------------------- packages

type xlConst struct {
	pkg  *xlPkg
	file *ast.File
	typ  ast.Expr
	val  ast.Expr
	iota int
	pos  token.Pos
	busy bool
	done bool
	v    xlVal
}

type xlVar struct {
	pkg  *xlPkg
	file *ast.File
	typ  ast.Expr
	val  ast.Expr
	pos  token.Pos
	dup  bool
}

type xlTypeDecl struct {
	pkg  *xlPkg
	file *ast.File
	spec *ast.TypeSpec
	t    *xlType
	busy bool
}

type xlFuncDecl struct {
	pkg  *xlPkg
	file *ast.File
	decl *ast.FuncDecl
	dup  bool
}

type xlPkg struct {
	name   string // package clause
	rel    string // "" | "wsutil" | "wsflate"
	path   string // import path
	dir    string
	files  []*ast.File
	consts map[string]*xlConst
	vars   map[string]*xlVar
	types  map[string]*xlTypeDecl
	funcs  map[string]*xlFuncDecl
	dupc   map[string]bool
}

type xlFunc struct {
	key     string // pkg.name + "." + Recv.Method
	coqName string
	src     string // file name
	params  []xlField
	result  *xlType
	body    *xlNode
	oracles map[string]bool
	usesStr map[string]bool // opaque type params used
	busy    bool
	done    bool
}

type xlator struct {
	fset    *token.FileSet
	root    string
	modpath string
	pkgs    map[string]*xlPkg // by import path
	funcs   map[string]*xlFunc
	order   []*xlFunc
	errs    map[string]bool    // constructors of g_error
	structs map[string]*xlType // emitted records
	stOrder []string
}

type xlVal struct {
	coq string
	typ *xlType
	cv  constant.Value // non-nil: compile-time constant (int or bool)
}

func (x *xlator) fail(pos token.Pos, format string, a ...interface{}) {
	p := x.fset.Position(pos)
	rel := p.Filename
	if r, err := filepath.Rel(x.root, p.Filename); err == nil {
		rel = r
	}
	panic(xlErr{fmt.Sprintf("translate: unsupported construct %s:%d:%d: %s", rel, p.Line, p.Column, fmt.Sprintf(format, a...))})
}

func xlRun() (out string, err error) {
	defer func() {
		if r := recover(); r != nil {
			if e, ok := r.(xlErr); ok {
				err = e
				return
			}
			panic(r)
		}
	}()
	fn := runtime.FuncForPC(reflect.ValueOf(ws.CheckHeader).Pointer())
	if fn == nil {
		return "", xlErr{"translate: cannot locate ws.CheckHeader in the binary"}
	}
	file, _ := fn.FileLine(fn.Entry())
	root := filepath.Dir(file)
	x := &xlator{fset: token.NewFileSet(), root: root, pkgs: map[string]*xlPkg{}, funcs: map[string]*xlFunc{},
		errs: map[string]bool{}, structs: map[string]*xlType{}}
	gm, e := os.ReadFile(filepath.Join(root, "go.mod"))
	if e != nil {
		return "", xlErr{"translate: cannot read go.mod next to " + file + ": " + e.Error()}
	}
	for _, l := range strings.Split(string(gm), "\n") {
		if f := strings.Fields(l); len(f) == 2 && f[0] == "module" {
			x.modpath = f[1]
		}
	}
	if x.modpath == "" {
		return "", xlErr{"translate: no module line in go.mod"}
	}
	for _, rel := range []string{"", "wsutil", "wsflate"} {
		x.load(rel)
	}
	for _, r := range xlRoots {
		p := x.pkgs[x.importPath(r[0])]
		fd, ok := p.funcs[r[1]]
		if !ok {
			return "", xlErr{fmt.Sprintf("translate: unsupported construct %s: function %s of the fixed list is not declared in package %s",
				filepath.Join(r[0], "*.go"), r[1], p.name)}
		}
		x.function(fd)
	}
	return x.print(), nil
}

func (x *xlator) importPath(rel string) string {
	if rel == "" {
		return x.modpath
	}
	return x.modpath + "/" + rel
}

func (x *xlator) load(rel string) {
	dir := filepath.Join(x.root, rel)
	ents, err := os.ReadDir(dir)
	if err != nil {
		panic(xlErr{"translate: cannot read " + dir + ": " + err.Error()})
	}
	bctx := build.Default
	bctx.BuildTags = []string{"verif"}
	p := &xlPkg{rel: rel, path: x.importPath(rel), dir: dir, consts: map[string]*xlConst{}, vars: map[string]*xlVar{},
		types: map[string]*xlTypeDecl{}, funcs: map[string]*xlFuncDecl{}, dupc: map[string]bool{}}
	var names []string
	for _, e := range ents {
		n := e.Name()
		if e.IsDir() || !strings.HasSuffix(n, ".go") || strings.HasSuffix(n, "_test.go") {
			continue
		}
		if ok, err := bctx.MatchFile(dir, n); err != nil || !ok {
			continue
		}
		names = append(names, n)
	}
	sort.Strings(names)
	for _, n := range names {
		f, err := parser.ParseFile(x.fset, filepath.Join(dir, n), nil, parser.SkipObjectResolution)
		if err != nil {
			panic(xlErr{"translate: parse error: " + err.Error()})
		}
		if p.name == "" {
			p.name = f.Name.Name
		}
		if f.Name.Name != p.name {
			continue
		}
		p.files = append(p.files, f)
		for _, d := range f.Decls {
			switch d := d.(type) {
			case *ast.FuncDecl:
				key := d.Name.Name
				if d.Recv != nil && len(d.Recv.List) == 1 {
					rt := d.Recv.List[0].Type
					if st, ok := rt.(*ast.StarExpr); ok {
						rt = st.X
					}
					if id, ok := rt.(*ast.Ident); ok {
						key = id.Name + "." + key
					} else {
						continue
					}
				}
				if old, ok := p.funcs[key]; ok {
					old.dup = true
					continue
				}
				p.funcs[key] = &xlFuncDecl{pkg: p, file: f, decl: d}
			case *ast.GenDecl:
				switch d.Tok {
				case token.CONST:
					var lastT, lastV ast.Expr
					var lastVs []ast.Expr
					for i, s := range d.Specs {
						vs := s.(*ast.ValueSpec)
						if len(vs.Values) > 0 {
							lastT, lastVs = vs.Type, vs.Values
						}
						for j, nm := range vs.Names {
							lastV = nil
							if j < len(lastVs) {
								lastV = lastVs[j]
							}
							if nm.Name == "_" {
								continue
							}
							if _, ok := p.consts[nm.Name]; ok {
								p.dupc[nm.Name] = true
							}
							p.consts[nm.Name] = &xlConst{pkg: p, file: f, typ: lastT, val: lastV, iota: i, pos: nm.Pos()}
						}
					}
				case token.VAR:
					for _, s := range d.Specs {
						vs := s.(*ast.ValueSpec)
						for j, nm := range vs.Names {
							v := &xlVar{pkg: p, file: f, typ: vs.Type, pos: nm.Pos()}
							if len(vs.Values) == len(vs.Names) {
								v.val = vs.Values[j]
							}
							if _, ok := p.vars[nm.Name]; ok {
								v.dup = true
							}
							p.vars[nm.Name] = v
						}
					}
				case token.TYPE:
					for _, s := range d.Specs {
						ts := s.(*ast.TypeSpec)
						p.types[ts.Name.Name] = &xlTypeDecl{pkg: p, file: f, spec: ts}
					}
				}
			}
		}
	}
	x.pkgs[p.path] = p
}

// ---------------------------------------------------------------- scopes

type xlScope struct {
	x      *xlator
	pkg    *xlPkg
	file   *ast.File
	locals map[string]*xlType
	iota   int // -1 outside constant declarations
	fn     *xlFunc
	result *xlType
	resVar string // named result ("" if none)
}

func (s *xlScope) clone() map[string]*xlType {
	m := make(map[string]*xlType, len(s.locals))
	for k, v := range s.locals {
		m[k] = v
	}
	return m
}

// the package an identifier used as `alias.Name` refers to in this file:
// (*xlPkg, "") for the library's own packages, (nil, importpath) otherwise
func (s *xlScope) imported(alias string) (*xlPkg, string, bool) {
	for _, im := range s.file.Imports {
		path, _ := strconv.Unquote(im.Path.Value)
		name := path[strings.LastIndex(path, "/")+1:]
		if im.Name != nil {
			name = im.Name.Name
		}
		if name == alias {
			if p, ok := s.x.pkgs[path]; ok {
				return p, path, true
			}
			return nil, path, true
		}
	}
	return nil, "", false
}

// ---------------------------------------------------------------- types from syntax

func (s *xlScope) typeOf(e ast.Expr) *xlType {
	x := s.x
	switch e := e.(type) {
	case *ast.Ident:
		if td, ok := s.pkg.types[e.Name]; ok {
			return x.namedType(td)
		}
		if t, ok := xlBuiltinInts[e.Name]; ok {
			return t
		}
		switch e.Name {
		case "bool":
			return tBool
		case "string":
			return tString
		case "error":
			return tError
		}
		x.fail(e.Pos(), "type %s", e.Name)
	case *ast.SelectorExpr:
		if id, ok := e.X.(*ast.Ident); ok {
			if p, _, ok := s.imported(id.Name); ok && p != nil {
				if td, ok := p.types[e.Sel.Name]; ok {
					return x.namedType(td)
				}
			}
		}
		x.fail(e.Pos(), "type expression")
	case *ast.ParenExpr:
		return s.typeOf(e.X)
	case *ast.ArrayType:
		if e.Len == nil {
			if id, ok := e.Elt.(*ast.Ident); ok && (id.Name == "byte" || id.Name == "uint8") {
				return tBytes
			}
			x.fail(e.Pos(), "slice type")
		}
		n := s.expr(e.Len, nil)
		if n.cv == nil || n.cv.Kind() != constant.Int {
			x.fail(e.Pos(), "array length is not a constant")
		}
		l, _ := constant.Int64Val(n.cv)
		return &xlType{kind: kArray, alen: l, name: "array"}
	case *ast.StructType:
		t := &xlType{kind: kStruct}
		for _, f := range e.Fields.List {
			if len(f.Names) == 0 {
				x.fail(f.Pos(), "embedded field")
			}
			ft := s.fieldType(f.Type)
			for _, n := range f.Names {
				t.fields = append(t.fields, xlField{n.Name, ft})
			}
		}
		return t
	}
	x.fail(e.Pos(), "type expression %T", e)
	return nil
}

// field types that the subset cannot carry are kept as "omitted" (nil) so
// that a struct with, say, a func-typed field can still be read elsewhere
func (s *xlScope) fieldType(e ast.Expr) (t *xlType) {
	defer func() {
		if r := recover(); r != nil {
			if _, ok := r.(xlErr); ok {
				t = nil
				return
			}
			panic(r)
		}
	}()
	return s.typeOf(e)
}

func (x *xlator) namedType(td *xlTypeDecl) *xlType {
	if td.t != nil {
		return td.t
	}
	if td.busy {
		x.fail(td.spec.Pos(), "recursive type %s", td.spec.Name.Name)
	}
	if td.spec.TypeParams != nil {
		x.fail(td.spec.Pos(), "generic type")
	}
	td.busy = true
	sc := &xlScope{x: x, pkg: td.pkg, file: td.file, locals: map[string]*xlType{}, iota: -1}
	u := sc.typeOf(td.spec.Type)
	td.busy = false
	if td.spec.Assign.IsValid() { // alias
		td.t = u
		return u
	}
	c := *u
	c.name = td.pkg.name + "." + td.spec.Name.Name
	td.t = &c
	return td.t
}

func (x *xlator) useStruct(t *xlType, pos token.Pos) {
	if _, ok := x.structs[t.name]; ok {
		return
	}
	if t.name == "" {
		x.fail(pos, "anonymous struct type")
	}
	x.structs[t.name] = t
	x.stOrder = append(x.stOrder, t.name)
}

func xlScalar(t *xlType) bool { return t != nil && (t.kind == kBool || t.kind == kInt) }

// ---------------------------------------------------------------- expressions

func xlLit(v constant.Value) string {
	if v.Kind() == constant.Bool {
		if constant.BoolVal(v) {
			return "true"
		}
		return "false"
	}
	s := v.ExactString()
	if strings.HasPrefix(s, "-") {
		return "(" + s + ")"
	}
	return s
}

func (s *xlScope) wrap(t *xlType, e string) string {
	if t.signed {
		return fmt.Sprintf("(wrap_s %d %s)", t.bits, e)
	}
	return fmt.Sprintf("(wrap_u %d %s)", t.bits, e)
}

// implicit conversion of v to type `to` (assignment, argument, operand)
func (s *xlScope) coerce(v xlVal, to *xlType, pos token.Pos) xlVal {
	x := s.x
	switch {
	case to == nil:
		return v
	case v.typ.kind == kUntyped:
		if to.kind != kInt {
			x.fail(pos, "integer constant used as %s", to.name)
		}
		if !to.holds(v.cv) {
			x.fail(pos, "constant %s overflows %s", v.cv.ExactString(), to.name)
		}
		return xlVal{v.coq, to, v.cv}
	case v.typ.kind == kNil:
		if to.kind != kError {
			x.fail(pos, "nil used as %s", to.name)
		}
		return xlVal{"None", tError, nil}
	case v.typ.kind == kBool && to.kind == kBool:
		return v // named boolean types are not distinguished
	case v.typ.name == to.name && v.typ.kind == to.kind:
		return v
	}
	x.fail(pos, "value of type %s used as %s", v.typ.name, to.name)
	return v
}

func (s *xlScope) constVal(c *xlConst, name string) xlVal {
	x := s.x
	if c.done {
		return c.v
	}
	if c.pkg.dupc[name] {
		x.fail(c.pos, "constant %s is declared more than once (build-tagged files?)", name)
	}
	if c.busy {
		x.fail(c.pos, "constant %s depends on itself", name)
	}
	if c.val == nil {
		x.fail(c.pos, "constant %s has no value expression", name)
	}
	c.busy = true
	sc := &xlScope{x: x, pkg: c.pkg, file: c.file, locals: map[string]*xlType{}, iota: c.iota}
	var hint *xlType
	if c.typ != nil {
		hint = sc.typeOf(c.typ)
	}
	v := sc.expr(c.val, hint)
	if v.cv == nil {
		x.fail(c.pos, "constant %s: value is not a constant of the subset", name)
	}
	if hint != nil {
		v = sc.coerce(v, hint, c.pos)
	}
	c.busy = false
	c.done = true
	q := name
	if c.pkg.rel != "" {
		q = c.pkg.name + "." + name
	}
	c.v = xlVal{fmt.Sprintf("(%s (* %s *))", xlLit(v.cv), q), v.typ, v.cv}
	return c.v
}

// a package-level variable used as a value
func (s *xlScope) pkgVar(p *xlPkg, name string, v *xlVar, pos token.Pos) xlVal {
	x := s.x
	if v.dup {
		x.fail(pos, "variable %s is declared more than once", name)
	}
	if strings.HasPrefix(name, "Err") {
		cn := "E_" + name
		if p.rel != "" {
			cn = "E_" + p.name + "_" + name
		}
		x.errs[cn] = true
		return xlVal{"(Some " + cn + ")", tError, nil}
	}
	if v.val == nil {
		x.fail(pos, "package variable %s without a literal value", name)
	}
	if cl, ok := v.val.(*ast.CompositeLit); ok {
		if w := x.writtenTo(p, name); w.IsValid() {
			x.fail(w, "package variable %s is assigned or has its address taken; it cannot be read as a constant", name)
		}
		sc := &xlScope{x: x, pkg: v.pkg, file: v.file, locals: map[string]*xlType{}, iota: -1, fn: s.fn}
		r := sc.composite(cl, true)
		r.coq = strings.TrimSuffix(r.coq, ")") + " (* " + name + " *))"
		return r
	}
	x.fail(pos, "package variable %s (only Err… values and struct literals of constants are read)", name)
	return xlVal{}
}

// position of a write to (or address-of) package variable `name` inside package p
func (x *xlator) writtenTo(p *xlPkg, name string) token.Pos {
	var found token.Pos
	base := func(e ast.Expr) bool {
		for {
			switch t := e.(type) {
			case *ast.SelectorExpr:
				e = t.X
			case *ast.ParenExpr:
				e = t.X
			case *ast.IndexExpr:
				e = t.X
			case *ast.Ident:
				return t.Name == name
			default:
				return false
			}
		}
	}
	for _, f := range p.files {
		ast.Inspect(f, func(n ast.Node) bool {
			switch n := n.(type) {
			case *ast.AssignStmt:
				if n.Tok != token.DEFINE {
					for _, l := range n.Lhs {
						if base(l) && !found.IsValid() {
							found = l.Pos()
						}
					}
				}
			case *ast.IncDecStmt:
				if base(n.X) && !found.IsValid() {
					found = n.Pos()
				}
			case *ast.UnaryExpr:
				if n.Op == token.AND && base(n.X) && !found.IsValid() {
					found = n.Pos()
				}
			}
			return true
		})
	}
	return found
}

func (s *xlScope) composite(e *ast.CompositeLit, constOnly bool) xlVal {
	x := s.x
	if e.Type == nil {
		x.fail(e.Pos(), "composite literal without type")
	}
	t := s.typeOf(e.Type)
	if t.kind != kStruct {
		x.fail(e.Pos(), "composite literal of non-struct type")
	}
	x.useStruct(t, e.Pos())
	vals := map[string]string{}
	for i, el := range e.Elts {
		var fname string
		var ve ast.Expr
		if kv, ok := el.(*ast.KeyValueExpr); ok {
			id, ok := kv.Key.(*ast.Ident)
			if !ok {
				x.fail(kv.Pos(), "composite literal key")
			}
			fname, ve = id.Name, kv.Value
		} else {
			if i >= len(t.fields) {
				x.fail(el.Pos(), "too many values in struct literal")
			}
			fname, ve = t.fields[i].name, el
		}
		var ft *xlType
		found := false
		for _, f := range t.fields {
			if f.name == fname {
				ft, found = f.typ, true
			}
		}
		if !found {
			x.fail(el.Pos(), "unknown field %s", fname)
		}
		if !xlScalar(ft) {
			x.fail(el.Pos(), "field %s is not of boolean or integer type", fname)
		}
		v := s.coerce(s.expr(ve, ft), ft, ve.Pos())
		if constOnly && v.cv == nil {
			x.fail(ve.Pos(), "value of field %s is not a constant", fname)
		}
		if _, dup := vals[fname]; dup {
			x.fail(el.Pos(), "duplicate field %s", fname)
		}
		vals[fname] = v.coq
	}
	var b strings.Builder
	b.WriteString("(g_mk_" + xlShort(t.name))
	for _, f := range t.fields {
		if !xlScalar(f.typ) {
			continue
		}
		if v, ok := vals[f.name]; ok {
			b.WriteString(" " + v)
		} else if f.typ.kind == kBool {
			b.WriteString(" false")
		} else {
			b.WriteString(" 0")
		}
	}
	b.WriteString(")")
	return xlVal{b.String(), t, nil}
}

func (s *xlScope) ident(e *ast.Ident) xlVal {
	x := s.x
	if t, ok := s.locals[e.Name]; ok {
		return xlVal{"v_" + e.Name, t, nil}
	}
	if c, ok := s.pkg.consts[e.Name]; ok {
		return s.constVal(c, e.Name)
	}
	if v, ok := s.pkg.vars[e.Name]; ok {
		return s.pkgVar(s.pkg, e.Name, v, e.Pos())
	}
	switch e.Name {
	case "true":
		return xlVal{"true", tBool, constant.MakeBool(true)}
	case "false":
		return xlVal{"false", tBool, constant.MakeBool(false)}
	case "nil":
		return xlVal{"None", tNil, nil}
	case "iota":
		if s.iota < 0 {
			x.fail(e.Pos(), "iota outside a constant declaration")
		}
		return xlVal{strconv.Itoa(s.iota), tUntyped, constant.MakeInt64(int64(s.iota))}
	}
	x.fail(e.Pos(), "identifier %s (not a parameter, local, constant or readable package variable)", e.Name)
	return xlVal{}
}

func (s *xlScope) constOut(v constant.Value, t *xlType, pos token.Pos) xlVal {
	if t.kind == kInt && !t.holds(v) {
		s.x.fail(pos, "constant %s overflows %s", v.ExactString(), t.name)
	}
	return xlVal{xlLit(v), t, v}
}

// expr translates e; hint is the type an untyped operand would assume (may be nil)
func (s *xlScope) expr(e ast.Expr, hint *xlType) xlVal {
	x := s.x
	switch e := e.(type) {
	case *ast.ParenExpr:
		return s.expr(e.X, hint)
	case *ast.BasicLit:
		if e.Kind != token.INT && e.Kind != token.CHAR {
			x.fail(e.Pos(), "literal %s", e.Value)
		}
		v := constant.MakeFromLiteral(e.Value, e.Kind, 0)
		if v.Kind() != constant.Int {
			x.fail(e.Pos(), "literal %s", e.Value)
		}
		return xlVal{xlLit(v), tUntyped, v}
	case *ast.Ident:
		return s.ident(e)
	case *ast.CompositeLit:
		return s.composite(e, false)
	case *ast.SelectorExpr:
		if id, ok := e.X.(*ast.Ident); ok {
			if _, isLocal := s.locals[id.Name]; !isLocal {
				if p, path, ok := s.imported(id.Name); ok {
					if p == nil {
						x.fail(e.Pos(), "reference to %s.%s outside a call", path, e.Sel.Name)
					}
					if c, ok := p.consts[e.Sel.Name]; ok {
						return s.constVal(c, e.Sel.Name)
					}
					if v, ok := p.vars[e.Sel.Name]; ok {
						return s.pkgVar(p, e.Sel.Name, v, e.Pos())
					}
					x.fail(e.Pos(), "reference to %s.%s", id.Name, e.Sel.Name)
				}
			}
		}
		r := s.expr(e.X, nil)
		if r.typ.kind != kStruct {
			x.fail(e.Pos(), "selector on a value of type %s", r.typ.name)
		}
		x.useStruct(r.typ, e.Pos())
		for _, f := range r.typ.fields {
			if f.name == e.Sel.Name {
				if f.typ != nil && f.typ.kind == kArray {
					return xlVal{"", f.typ, nil} // only len() may consume it
				}
				if !xlScalar(f.typ) {
					x.fail(e.Pos(), "field %s is not of boolean or integer type", f.name)
				}
				return xlVal{fmt.Sprintf("(g_%s_%s %s)", xlShort(r.typ.name), f.name, r.coq), f.typ, nil}
			}
		}
		x.fail(e.Pos(), "unknown field or method value %s", e.Sel.Name)
	case *ast.UnaryExpr:
		return s.unary(e, hint)
	case *ast.BinaryExpr:
		return s.binary(e, hint)
	case *ast.CallExpr:
		return s.call(e, hint)
	}
	x.fail(e.Pos(), "expression %T", e)
	return xlVal{}
}

func (s *xlScope) unary(e *ast.UnaryExpr, hint *xlType) xlVal {
	x := s.x
	v := s.expr(e.X, hint)
	switch e.Op {
	case token.NOT:
		if v.typ.kind != kBool {
			x.fail(e.Pos(), "! on %s", v.typ.name)
		}
		if v.cv != nil {
			return s.constOut(constant.UnaryOp(token.NOT, v.cv, 0), tBool, e.Pos())
		}
		return xlVal{"(negb " + v.coq + ")", tBool, nil}
	case token.ADD, token.SUB, token.XOR:
		if v.typ.kind != kInt && v.typ.kind != kUntyped {
			x.fail(e.Pos(), "%s on %s", e.Op, v.typ.name)
		}
		if v.cv != nil {
			prec := uint(0)
			if e.Op == token.XOR && v.typ.kind == kInt && !v.typ.signed {
				prec = uint(v.typ.bits)
			}
			return s.constOut(constant.UnaryOp(e.Op, v.cv, prec), v.typ, e.Pos())
		}
		switch e.Op {
		case token.ADD:
			return v
		case token.SUB:
			return xlVal{s.wrap(v.typ, "(- "+v.coq+")"), v.typ, nil}
		default:
			if v.typ.signed {
				return xlVal{"(Z.lnot " + v.coq + ")", v.typ, nil}
			}
			return xlVal{s.wrap(v.typ, "(Z.lnot "+v.coq+")"), v.typ, nil}
		}
	}
	x.fail(e.Pos(), "unary operator %s", e.Op)
	return xlVal{}
}

func (s *xlScope) binary(e *ast.BinaryExpr, hint *xlType) xlVal {
	x := s.x
	switch e.Op {
	case token.LAND, token.LOR:
		a, b := s.expr(e.X, nil), s.expr(e.Y, nil)
		if a.typ.kind != kBool || b.typ.kind != kBool {
			x.fail(e.Pos(), "%s on non-boolean operands", e.Op)
		}
		if a.cv != nil && b.cv != nil {
			return s.constOut(constant.BinaryOp(a.cv, e.Op, b.cv), tBool, e.Pos())
		}
		op := "&&"
		if e.Op == token.LOR {
			op = "||"
		}
		return xlVal{"(" + a.coq + " " + op + " " + b.coq + ")", tBool, nil}
	case token.SHL, token.SHR:
		b := s.expr(e.Y, nil)
		if b.typ.kind != kInt && b.typ.kind != kUntyped {
			x.fail(e.Y.Pos(), "shift count of type %s", b.typ.name)
		}
		if b.cv != nil {
			if constant.Sign(b.cv) < 0 || !constant.Compare(b.cv, token.LSS, constant.MakeInt64(1024)) {
				x.fail(e.Y.Pos(), "shift count %s", b.cv.ExactString())
			}
		} else if b.typ.signed {
			x.fail(e.Y.Pos(), "non-constant shift count of a signed type (would panic when negative)")
		}
		a := s.expr(e.X, hint)
		if a.typ.kind == kUntyped && b.cv == nil {
			// Go: the untyped left operand takes the type it would have without the shift
			if hint == nil || hint.kind != kInt {
				x.fail(e.Pos(), "non-constant shift of an untyped constant without a typed context")
			}
			a = s.coerce(a, hint, e.X.Pos())
		}
		if a.typ.kind != kInt && a.typ.kind != kUntyped {
			x.fail(e.Pos(), "shift of %s", a.typ.name)
		}
		if a.cv != nil && b.cv != nil {
			n, _ := constant.Uint64Val(b.cv)
			return s.constOut(constant.Shift(a.cv, e.Op, uint(n)), a.typ, e.Pos())
		}
		if e.Op == token.SHR {
			return xlVal{"(Z.shiftr " + a.coq + " " + b.coq + ")", a.typ, nil}
		}
		return xlVal{s.wrap(a.typ, "(Z.shiftl "+a.coq+" "+b.coq+")"), a.typ, nil}
	}
	cmp := false
	switch e.Op {
	case token.EQL, token.NEQ, token.LSS, token.LEQ, token.GTR, token.GEQ:
		cmp = true
		hint = nil // the context of a comparison (bool) says nothing about its operands
	}
	a, b := s.expr(e.X, hint), s.expr(e.Y, hint)
	// operand type unification
	switch {
	case a.typ.kind == kUntyped && b.typ.kind == kInt:
		a = s.coerce(a, b.typ, e.X.Pos())
	case b.typ.kind == kUntyped && a.typ.kind == kInt:
		b = s.coerce(b, a.typ, e.Y.Pos())
	case a.typ.kind == kUntyped && b.typ.kind == kUntyped:
	case a.typ.kind == kBool && b.typ.kind == kBool:
	case a.typ.kind == kInt && b.typ.kind == kInt && a.typ.name == b.typ.name:
	default:
		x.fail(e.Pos(), "operator %s on %s and %s", e.Op, a.typ.name, b.typ.name)
	}
	t := a.typ
	if cmp {
		if t.kind == kBool {
			if e.Op != token.EQL && e.Op != token.NEQ {
				x.fail(e.Pos(), "ordering of booleans")
			}
			if a.cv != nil && b.cv != nil {
				return s.constOut(constant.MakeBool(constant.Compare(a.cv, e.Op, b.cv)), tBool, e.Pos())
			}
			r := "(Bool.eqb " + a.coq + " " + b.coq + ")"
			if e.Op == token.NEQ {
				r = "(negb " + r + ")"
			}
			return xlVal{r, tBool, nil}
		}
		if a.cv != nil && b.cv != nil {
			return s.constOut(constant.MakeBool(constant.Compare(a.cv, e.Op, b.cv)), tBool, e.Pos())
		}
		var r string
		switch e.Op {
		case token.EQL:
			r = "(" + a.coq + " =? " + b.coq + ")"
		case token.NEQ:
			r = "(negb (" + a.coq + " =? " + b.coq + "))"
		case token.LSS:
			r = "(" + a.coq + " <? " + b.coq + ")"
		case token.LEQ:
			r = "(" + a.coq + " <=? " + b.coq + ")"
		case token.GTR:
			r = "(" + b.coq + " <? " + a.coq + ")"
		case token.GEQ:
			r = "(" + b.coq + " <=? " + a.coq + ")"
		}
		return xlVal{r, tBool, nil}
	}
	if t.kind == kBool {
		x.fail(e.Pos(), "operator %s on booleans", e.Op)
	}
	if a.cv != nil && b.cv != nil {
		op := e.Op
		if op == token.QUO {
			if constant.Sign(b.cv) == 0 {
				x.fail(e.Pos(), "division by zero")
			}
			op = token.QUO_ASSIGN // integer division in go/constant
		}
		if op == token.REM && constant.Sign(b.cv) == 0 {
			x.fail(e.Pos(), "division by zero")
		}
		return s.constOut(constant.BinaryOp(a.cv, op, b.cv), t, e.Pos())
	}
	if t.kind == kUntyped {
		x.fail(e.Pos(), "untyped non-constant operands")
	}
	switch e.Op {
	case token.ADD:
		return xlVal{s.wrap(t, "("+a.coq+" + "+b.coq+")"), t, nil}
	case token.SUB:
		return xlVal{s.wrap(t, "("+a.coq+" - "+b.coq+")"), t, nil}
	case token.MUL:
		return xlVal{s.wrap(t, "("+a.coq+" * "+b.coq+")"), t, nil}
	case token.QUO, token.REM:
		if b.cv == nil || constant.Sign(b.cv) == 0 {
			x.fail(e.Pos(), "%s by a non-constant or zero divisor (may panic)", e.Op)
		}
		if e.Op == token.QUO {
			return xlVal{s.wrap(t, "(Z.quot "+a.coq+" "+b.coq+")"), t, nil}
		}
		return xlVal{"(Z.rem " + a.coq + " " + b.coq + ")", t, nil}
	case token.AND:
		return xlVal{"(Z.land " + a.coq + " " + b.coq + ")", t, nil}
	case token.OR:
		return xlVal{"(Z.lor " + a.coq + " " + b.coq + ")", t, nil}
	case token.XOR:
		return xlVal{"(Z.lxor " + a.coq + " " + b.coq + ")", t, nil}
	case token.AND_NOT:
		return xlVal{"(Z.ldiff " + a.coq + " " + b.coq + ")", t, nil}
	}
	x.fail(e.Pos(), "binary operator %s", e.Op)
	return xlVal{}
}

// conversion T(v)
func (s *xlScope) convert(v xlVal, to *xlType, pos token.Pos) xlVal {
	x := s.x
	if to.kind == kBool && v.typ.kind == kBool {
		return xlVal{v.coq, to, v.cv}
	}
	if to.kind != kInt || (v.typ.kind != kInt && v.typ.kind != kUntyped) {
		x.fail(pos, "conversion from %s to %s", v.typ.name, to.name)
	}
	if v.cv != nil {
		if !to.holds(v.cv) {
			x.fail(pos, "constant %s overflows %s", v.cv.ExactString(), to.name)
		}
		return xlVal{v.coq, to, v.cv}
	}
	if to.contains(v.typ) {
		return xlVal{v.coq, to, nil}
	}
	return xlVal{s.wrap(to, v.coq), to, nil}
}

func (s *xlScope) call(e *ast.CallExpr, hint *xlType) xlVal {
	x := s.x
	if e.Ellipsis.IsValid() {
		x.fail(e.Pos(), "variadic call")
	}
	// --- conversions and builtins
	isType := func(fe ast.Expr) (*xlType, bool) {
		switch fe := fe.(type) {
		case *ast.Ident:
			if _, ok := s.locals[fe.Name]; ok {
				return nil, false
			}
			if _, ok := s.pkg.funcs[fe.Name]; ok {
				return nil, false
			}
			if _, ok := s.pkg.types[fe.Name]; ok {
				return s.typeOf(fe), true
			}
			if _, ok := xlBuiltinInts[fe.Name]; ok || fe.Name == "bool" {
				return s.typeOf(fe), true
			}
		case *ast.SelectorExpr:
			if id, ok := fe.X.(*ast.Ident); ok {
				if _, isLocal := s.locals[id.Name]; !isLocal {
					if p, _, ok := s.imported(id.Name); ok && p != nil {
						if _, ok := p.types[fe.Sel.Name]; ok {
							return s.typeOf(fe), true
						}
					}
				}
			}
		case *ast.ParenExpr:
			if id, ok := fe.X.(*ast.Ident); ok {
				if _, ok := xlBuiltinInts[id.Name]; ok {
					return s.typeOf(id), true
				}
			}
		}
		return nil, false
	}
	if t, ok := isType(e.Fun); ok {
		if len(e.Args) != 1 {
			x.fail(e.Pos(), "conversion with %d arguments", len(e.Args))
		}
		return s.convert(s.expr(e.Args[0], t), t, e.Pos())
	}
	if id, ok := e.Fun.(*ast.Ident); ok && id.Name == "len" {
		if _, shadow := s.pkg.funcs["len"]; !shadow && len(e.Args) == 1 {
			a := s.expr(e.Args[0], nil)
			if a.typ.kind == kArray {
				v := constant.MakeInt64(a.typ.alen)
				return xlVal{xlLit(v), tInt, v}
			}
			x.fail(e.Pos(), "len of a value that is not a fixed-size array")
		}
	}
	// --- callee
	var fd *xlFuncDecl
	var recv *xlVal
	switch fe := e.Fun.(type) {
	case *ast.Ident:
		if _, ok := s.locals[fe.Name]; ok {
			x.fail(e.Pos(), "call of a function value")
		}
		d, ok := s.pkg.funcs[fe.Name]
		if !ok {
			x.fail(e.Pos(), "call of %s (not a function of the package)", fe.Name)
		}
		fd = d
	case *ast.SelectorExpr:
		if id, ok := fe.X.(*ast.Ident); ok {
			if _, isLocal := s.locals[id.Name]; !isLocal {
				if p, path, ok := s.imported(id.Name); ok {
					if p == nil {
						return s.oracle(e, path, fe.Sel.Name)
					}
					d, ok := p.funcs[fe.Sel.Name]
					if !ok {
						x.fail(e.Pos(), "call of %s.%s", id.Name, fe.Sel.Name)
					}
					fd = d
					break
				}
			}
		}
		r := s.expr(fe.X, nil)
		if r.typ.kind == kUntyped || !strings.Contains(r.typ.name, ".") {
			x.fail(e.Pos(), "method call on a value of type %s", r.typ.name)
		}
		dot := strings.Index(r.typ.name, ".")
		var tp *xlPkg
		for _, p := range x.pkgs {
			if p.name == r.typ.name[:dot] {
				tp = p
			}
		}
		d, ok := tp.funcs[r.typ.name[dot+1:]+"."+fe.Sel.Name]
		if !ok {
			x.fail(e.Pos(), "method %s of %s", fe.Sel.Name, r.typ.name)
		}
		fd, recv = d, &r
	default:
		x.fail(e.Pos(), "call of %T", e.Fun)
	}
	f := x.function(fd)
	var args []string
	ps := f.params
	if recv != nil {
		if fd.decl.Recv == nil {
			x.fail(e.Pos(), "method call resolves to a plain function")
		}
		args = append(args, s.coerce(*recv, ps[0].typ, e.Pos()).coq)
		ps = ps[1:]
	} else if fd.decl.Recv != nil {
		x.fail(e.Pos(), "method used as a function")
	}
	if len(ps) != len(e.Args) {
		x.fail(e.Pos(), "call with %d arguments to a function of %d parameters", len(e.Args), len(ps))
	}
	for i, a := range e.Args {
		args = append(args, s.coerce(s.expr(a, ps[i].typ), ps[i].typ, a.Pos()).coq)
	}
	var os_ []string
	for o := range f.oracles {
		os_ = append(os_, o)
		if s.fn != nil {
			s.fn.oracles[o] = true
		}
	}
	sort.Strings(os_)
	for o := range f.usesStr {
		if s.fn != nil {
			s.fn.usesStr[o] = true
		}
	}
	var pre []string
	for _, o := range os_ {
		pre = append(pre, xlOracleName(o))
	}
	if s.fn == nil && len(os_) > 0 {
		x.fail(e.Pos(), "call of a function with library oracles in a constant context")
	}
	return xlVal{"(" + strings.Join(append(append([]string{f.coqName}, pre...), args...), " ") + ")", f.result, nil}
}

func xlOracleName(key string) string { // "unicode/utf8.ValidString" -> "o_utf8_ValidString"
	k := key[strings.LastIndex(key, "/")+1:]
	return "o_" + strings.ReplaceAll(k, ".", "_")
}

func (s *xlScope) oracle(e *ast.CallExpr, path, name string) xlVal {
	x := s.x
	key := path + "." + name
	sig, ok := xlOracles[key]
	if !ok {
		x.fail(e.Pos(), "call of %s (no oracle declared for it)", key)
	}
	if s.fn == nil {
		x.fail(e.Pos(), "library call in a constant context")
	}
	if len(sig.params) != len(e.Args) {
		x.fail(e.Pos(), "call of %s with %d arguments", key, len(e.Args))
	}
	args := []string{xlOracleName(key)}
	for i, a := range e.Args {
		v := s.expr(a, nil)
		if v.typ.kind != kOpaque || v.typ.opq != sig.params[i] {
			x.fail(a.Pos(), "argument of %s has type %s, expected %s", key, v.typ.name, sig.params[i])
		}
		s.fn.usesStr[v.typ.opq] = true
		args = append(args, v.coq)
	}
	s.fn.oracles[key] = true
	return xlVal{"(" + strings.Join(args, " ") + ")", tBool, nil}
}

// ---------------------------------------------------------------- statements

// the generated term: lets, conditionals and leaves; a continuation that is
// reached on several paths is the same node, printed at each place
type xlNode struct {
	kind int // 0 leaf, 1 let, 2 if
	text string
	name string
	a, b *xlNode
}

func xlLeaf(s string) *xlNode { return &xlNode{kind: 0, text: s} }

type xlCont struct {
	s   *xlNode
	err *xlErr
}

func (k *xlCont) use() *xlNode {
	if k.err != nil {
		panic(*k.err)
	}
	return k.s
}

func (n *xlNode) print(b *strings.Builder, ind string) {
	switch n.kind {
	case 0:
		b.WriteString(n.text)
	case 1:
		b.WriteString("let " + n.name + " := " + n.text + " in\n" + ind)
		n.a.print(b, ind)
	case 2:
		b.WriteString("if " + n.text + "\n" + ind + "then ")
		if n.a.kind == 0 {
			n.a.print(b, ind+"  ")
		} else {
			b.WriteString("(")
			n.a.print(b, ind+"      ")
			b.WriteString(")")
		}
		b.WriteString("\n" + ind + "else ")
		switch n.b.kind {
		case 0:
			n.b.print(b, ind+"  ")
		case 2:
			n.b.print(b, ind)
		default:
			b.WriteString("(")
			n.b.print(b, ind+"      ")
			b.WriteString(")")
		}
	}
}

// seq translates a statement list followed by continuation k (nil: the function
// must have returned)
func (s *xlScope) seq(stmts []ast.Stmt, k *xlCont, end token.Pos) *xlNode {
	x := s.x
	if len(stmts) == 0 {
		if k == nil {
			x.fail(end, "control reaches the end of the function without return")
		}
		return k.use()
	}
	st := stmts[0]
	// continuation = the rest of this list, translated once, in the scope as it is now
	rest := func() *xlCont {
		saved := s.locals
		s.locals = s.clone()
		defer func() { s.locals = saved }()
		c := &xlCont{}
		func() {
			defer func() {
				if r := recover(); r != nil {
					if e, ok := r.(xlErr); ok {
						c.err = &e
						return
					}
					panic(r)
				}
			}()
			c.s = s.seq(stmts[1:], k, end)
		}()
		return c
	}
	inScope := func(f func() *xlNode) *xlNode {
		saved := s.locals
		s.locals = s.clone()
		defer func() { s.locals = saved }()
		return f()
	}
	bind := func(name string, v string, pos token.Pos) *xlNode {
		return &xlNode{kind: 1, name: "v_" + name, text: v, a: s.seq(stmts[1:], k, end)}
	}
	declare := func(id *ast.Ident, t *xlType) {
		if id.Name == "_" {
			x.fail(id.Pos(), "blank identifier")
		}
		if _, ok := s.locals[id.Name]; ok {
			x.fail(id.Pos(), "redeclaration (shadowing) of %s", id.Name)
		}
		if !xlScalar(t) {
			x.fail(id.Pos(), "local variable of type %s", t.name)
		}
		s.locals[id.Name] = t
	}
	switch st := st.(type) {
	case *ast.EmptyStmt:
		return s.seq(stmts[1:], k, end)
	case *ast.BlockStmt:
		r := rest()
		return inScope(func() *xlNode { return s.seq(st.List, r, st.End()) })
	case *ast.ReturnStmt:
		if len(stmts) > 1 {
			x.fail(stmts[1].Pos(), "statement after return")
		}
		if len(st.Results) == 0 {
			if s.resVar == "" {
				x.fail(st.Pos(), "return without a value")
			}
			return xlLeaf("v_" + s.resVar)
		}
		if len(st.Results) != 1 {
			x.fail(st.Pos(), "return of %d values", len(st.Results))
		}
		return xlLeaf(s.coerce(s.expr(st.Results[0], s.result), s.result, st.Pos()).coq)
	case *ast.DeclStmt:
		gd, ok := st.Decl.(*ast.GenDecl)
		if !ok || gd.Tok != token.VAR || len(gd.Specs) != 1 {
			x.fail(st.Pos(), "declaration statement")
		}
		vs := gd.Specs[0].(*ast.ValueSpec)
		if len(vs.Names) != 1 || len(vs.Values) > 1 {
			x.fail(st.Pos(), "declaration of several variables")
		}
		var t *xlType
		if vs.Type != nil {
			t = s.typeOf(vs.Type)
		}
		var v xlVal
		if len(vs.Values) == 1 {
			v = s.expr(vs.Values[0], t)
			if t == nil {
				t = v.typ
				if t.kind == kUntyped {
					t = tInt
				}
			}
			v = s.coerce(v, t, st.Pos())
		} else {
			if !xlScalar(t) {
				x.fail(st.Pos(), "variable of type %s", t.name)
			}
			v = xlVal{"0", t, nil}
			if t.kind == kBool {
				v.coq = "false"
			}
		}
		declare(vs.Names[0], t)
		return bind(vs.Names[0].Name, v.coq, st.Pos())
	case *ast.IncDecStmt:
		id, ok := st.X.(*ast.Ident)
		if !ok {
			x.fail(st.Pos(), "%s on a non-variable", st.Tok)
		}
		t, ok := s.locals[id.Name]
		if !ok || t.kind != kInt {
			x.fail(st.Pos(), "%s on %s", st.Tok, id.Name)
		}
		op := " + 1"
		if st.Tok == token.DEC {
			op = " - 1"
		}
		return bind(id.Name, s.wrap(t, "(v_"+id.Name+op+")"), st.Pos())
	case *ast.AssignStmt:
		if len(st.Lhs) != 1 || len(st.Rhs) != 1 {
			x.fail(st.Pos(), "assignment of several values")
		}
		id, ok := st.Lhs[0].(*ast.Ident)
		if !ok {
			x.fail(st.Pos(), "assignment to a non-variable")
		}
		if st.Tok == token.DEFINE {
			v := s.expr(st.Rhs[0], nil)
			t := v.typ
			if t.kind == kUntyped {
				t = tInt
			}
			v = s.coerce(v, t, st.Pos())
			declare(id, t)
			return bind(id.Name, v.coq, st.Pos())
		}
		t, ok := s.locals[id.Name]
		if !ok {
			x.fail(st.Pos(), "assignment to %s, which is not a local variable", id.Name)
		}
		if st.Tok == token.ASSIGN {
			return bind(id.Name, s.coerce(s.expr(st.Rhs[0], t), t, st.Pos()).coq, st.Pos())
		}
		ops := map[token.Token]token.Token{token.ADD_ASSIGN: token.ADD, token.SUB_ASSIGN: token.SUB, token.MUL_ASSIGN: token.MUL,
			token.AND_ASSIGN: token.AND, token.OR_ASSIGN: token.OR, token.XOR_ASSIGN: token.XOR, token.AND_NOT_ASSIGN: token.AND_NOT,
			token.SHL_ASSIGN: token.SHL, token.SHR_ASSIGN: token.SHR}
		op, ok := ops[st.Tok]
		if !ok {
			x.fail(st.Pos(), "assignment operator %s", st.Tok)
		}
		v := s.binary(&ast.BinaryExpr{X: id, OpPos: st.TokPos, Op: op, Y: st.Rhs[0]}, t)
		return bind(id.Name, s.coerce(v, t, st.Pos()).coq, st.Pos())
	case *ast.IfStmt:
		if st.Init != nil {
			x.fail(st.Init.Pos(), "if with an init statement")
		}
		c := s.expr(st.Cond, nil)
		if c.typ.kind != kBool {
			x.fail(st.Cond.Pos(), "condition of type %s", c.typ.name)
		}
		r := rest()
		thn := inScope(func() *xlNode { return s.seq(st.Body.List, r, st.Body.End()) })
		var els *xlNode
		switch eb := st.Else.(type) {
		case nil:
			els = r.use()
		case *ast.BlockStmt:
			els = inScope(func() *xlNode { return s.seq(eb.List, r, eb.End()) })
		case *ast.IfStmt:
			els = inScope(func() *xlNode { return s.seq([]ast.Stmt{eb}, r, eb.End()) })
		default:
			x.fail(st.Else.Pos(), "else branch")
		}
		return &xlNode{kind: 2, text: c.coq, a: thn, b: els}
	case *ast.SwitchStmt:
		if st.Init != nil {
			x.fail(st.Init.Pos(), "switch with an init statement")
		}
		var tag *xlVal
		if st.Tag != nil {
			t := s.expr(st.Tag, nil)
			if t.typ.kind != kInt && t.typ.kind != kBool {
				x.fail(st.Tag.Pos(), "switch on a value of type %s", t.typ.name)
			}
			tag = &t
		}
		r := rest()
		type arm struct {
			cond string
			body *xlNode
		}
		var arms []arm
		var def *xlNode
		for _, cs := range st.Body.List {
			cc := cs.(*ast.CaseClause)
			for _, b := range cc.Body {
				if br, ok := b.(*ast.BranchStmt); ok {
					x.fail(br.Pos(), "%s in a switch", br.Tok)
				}
			}
			body := inScope(func() *xlNode { return s.seq(cc.Body, r, cc.End()) })
			if cc.List == nil {
				if def != nil {
					x.fail(cc.Pos(), "second default")
				}
				def = body
				continue
			}
			var conds []string
			for _, ce := range cc.List {
				var c xlVal
				if tag == nil {
					c = s.expr(ce, nil)
					if c.typ.kind != kBool {
						x.fail(ce.Pos(), "case of type %s in a tagless switch", c.typ.name)
					}
				} else {
					v := s.coerce(s.expr(ce, tag.typ), tag.typ, ce.Pos())
					if tag.typ.kind == kBool {
						c = xlVal{"(Bool.eqb " + tag.coq + " " + v.coq + ")", tBool, nil}
					} else {
						c = xlVal{"(" + tag.coq + " =? " + v.coq + ")", tBool, nil}
					}
				}
				conds = append(conds, c.coq)
			}
			cond := conds[0]
			if len(conds) > 1 {
				cond = "(" + strings.Join(conds, " || ") + ")"
			}
			arms = append(arms, arm{cond, body})
		}
		var out *xlNode
		if def != nil {
			out = def
		} else {
			out = r.use()
		}
		for i := len(arms) - 1; i >= 0; i-- {
			out = &xlNode{kind: 2, text: arms[i].cond, a: arms[i].body, b: out}
		}
		return out
	}
	x.fail(st.Pos(), "statement %T", st)
	return nil
}

// ---------------------------------------------------------------- functions

func (x *xlator) function(fd *xlFuncDecl) *xlFunc {
	d := fd.decl
	key := fd.pkg.name + "." + d.Name.Name
	coq := "g_"
	if fd.pkg.rel != "" {
		coq += fd.pkg.name + "_"
	}
	sc := &xlScope{x: x, pkg: fd.pkg, file: fd.file, locals: map[string]*xlType{}, iota: -1}
	var recvT *xlType
	if d.Recv != nil {
		if len(d.Recv.List) != 1 {
			x.fail(d.Pos(), "receiver list")
		}
		rt := d.Recv.List[0].Type
		if _, ok := rt.(*ast.StarExpr); ok {
			x.fail(rt.Pos(), "pointer receiver (state)")
		}
		id, ok := rt.(*ast.Ident)
		if !ok {
			x.fail(rt.Pos(), "receiver type")
		}
		key = fd.pkg.name + "." + id.Name + "." + d.Name.Name
		coq += id.Name + "_"
		recvT = sc.typeOf(rt)
	}
	coq += d.Name.Name
	if f, ok := x.funcs[key]; ok {
		if f.busy {
			x.fail(d.Pos(), "recursive function %s", key)
		}
		return f
	}
	if fd.dup {
		x.fail(d.Pos(), "function %s is declared more than once (build-tagged files?)", key)
	}
	if d.Body == nil {
		x.fail(d.Pos(), "function %s has no body", key)
	}
	if d.Type.TypeParams != nil {
		x.fail(d.Pos(), "generic function")
	}
	f := &xlFunc{key: key, coqName: coq, src: filepath.Join(fd.pkg.rel, filepath.Base(x.fset.Position(d.Pos()).Filename)),
		oracles: map[string]bool{}, usesStr: map[string]bool{}, busy: true}
	x.funcs[key] = f
	sc.fn = f
	fresh := 0
	addParam := func(id *ast.Ident, t *xlType, pos token.Pos) {
		name := ""
		if id != nil {
			name = id.Name
		}
		if name == "" || name == "_" {
			fresh++
			name = fmt.Sprintf("unused%d", fresh)
		} else {
			if _, ok := sc.locals[name]; ok {
				x.fail(pos, "duplicate parameter %s", name)
			}
			sc.locals[name] = t
		}
		switch t.kind {
		case kBool, kInt:
		case kStruct:
			x.useStruct(t, pos)
		case kOpaque:
			f.usesStr[t.opq] = true
		default:
			x.fail(pos, "parameter of type %s", t.name)
		}
		f.params = append(f.params, xlField{name, t})
	}
	if recvT != nil {
		var id *ast.Ident
		if len(d.Recv.List[0].Names) == 1 {
			id = d.Recv.List[0].Names[0]
		}
		addParam(id, recvT, d.Recv.Pos())
	}
	for _, p := range d.Type.Params.List {
		if _, ok := p.Type.(*ast.Ellipsis); ok {
			x.fail(p.Pos(), "variadic parameter")
		}
		t := sc.typeOf(p.Type)
		if len(p.Names) == 0 {
			addParam(nil, t, p.Pos())
		}
		for _, n := range p.Names {
			addParam(n, t, n.Pos())
		}
	}
	if d.Type.Results == nil || len(d.Type.Results.List) != 1 || len(d.Type.Results.List[0].Names) > 1 {
		x.fail(d.Pos(), "function %s does not have exactly one result", key)
	}
	res := d.Type.Results.List[0]
	f.result = sc.typeOf(res.Type)
	sc.result = f.result
	switch f.result.kind {
	case kBool, kInt, kError:
	case kStruct:
		x.useStruct(f.result, res.Pos())
	default:
		x.fail(res.Pos(), "result of type %s", f.result.name)
	}
	pre := ""
	preName := ""
	if len(res.Names) == 1 && res.Names[0].Name != "_" {
		n := res.Names[0].Name
		if _, ok := sc.locals[n]; ok {
			x.fail(res.Pos(), "result %s shadows a parameter", n)
		}
		if !xlScalar(f.result) {
			x.fail(res.Pos(), "named result of type %s", f.result.name)
		}
		sc.locals[n] = f.result
		sc.resVar = n
		zero := "0"
		if f.result.kind == kBool {
			zero = "false"
		}
		pre, preName = zero, "v_"+n
	}
	f.body = sc.seq(d.Body.List, nil, d.Body.End())
	if preName != "" {
		f.body = &xlNode{kind: 1, name: preName, text: pre, a: f.body}
	}
	f.busy = false
	f.done = true
	x.order = append(x.order, f)
	return f
}

// ---------------------------------------------------------------- output

func (x *xlator) print() string {
	var b strings.Builder
	w := func(format string, a ...interface{}) { fmt.Fprintf(&b, format, a...) }
	w("(* GENERATED on every check by `harness translate` from the Go SOURCE — do not edit.\n")
	w("   source: the tree the harness was built against (module %s)\n\n", x.modpath)
	w("   Conventions (see harness/translate.go):\n")
	w("   - Go integers are Z, booleans are bool.  A value of a Go integer type is meant to lie in\n")
	w("     that type's range; `int`/`uint` are 64-bit.  +, -, *, <<, unary - and ^ and narrowing\n")
	w("     conversions are followed by an explicit wrap to the result type (wrap_u/wrap_s k);\n")
	w("     &, |, ^, &^, >> keep in-range operands in range and are not wrapped.\n")
	w("   - Named constants are inlined with their value, the Go name in a comment.\n")
	w("   - g_<Func> / g_<Type>_<Method> (prefix g_<pkg>_ outside package ws); the receiver is the\n")
	w("     first argument; parameters and locals are v_<name>; an assignment is a shadowing let.\n")
	w("   - Struct types are records g_<Type> with their boolean/integer fields only.\n")
	w("   - A function returning `error` returns option g_error: nil = None, the package-level\n")
	w("     variable ErrX = Some E_ErrX (keyed by the Go identifier, not by the message).\n")
	w("   - Calls into other libraries are oracle parameters o_<pkg>_<Func> (listed per function);\n")
	w("     Go `string` / `[]byte` values are only passed to oracles (type parameters string_t/bytes_t).\n")
	w("   - Package variables read as constants (struct literals) are checked not to be assigned\n")
	w("     or address-taken inside their package. *)\n")
	w("From Coq Require Import ZArith Bool.\nOpen Scope bool_scope.\nOpen Scope Z_scope.\n\n")
	w("Definition wrap_u (k x : Z) : Z := x mod 2 ^ k.\n")
	w("Definition wrap_s (k x : Z) : Z := (x + 2 ^ (k - 1)) mod 2 ^ k - 2 ^ (k - 1).\n\n")
	var es []string
	for e := range x.errs {
		es = append(es, e)
	}
	sort.Strings(es)
	if len(es) > 0 {
		w("Inductive g_error : Set :=\n")
		for _, e := range es {
			w("  | %s\n", e)
		}
		w(".\n\n")
	}
	sts := append([]string{}, x.stOrder...)
	sort.Strings(sts)
	for _, n := range sts {
		t := x.structs[n]
		sn := xlShort(n)
		var fs, omitted []string
		for _, f := range t.fields {
			if xlScalar(f.typ) {
				fs = append(fs, fmt.Sprintf("g_%s_%s : %s", sn, f.name, f.typ.coq()))
			} else {
				omitted = append(omitted, f.name)
			}
		}
		w("(* struct %s", n)
		if len(omitted) > 0 {
			w("; fields not carried: %s", strings.Join(omitted, ", "))
		}
		w(" *)\nRecord g_%s : Set := g_mk_%s { %s }.\n\n", sn, sn, strings.Join(fs, "; "))
	}
	var names []string
	for _, f := range x.order {
		var os_ []string
		for o := range f.oracles {
			os_ = append(os_, o)
		}
		sort.Strings(os_)
		var opq []string
		for o := range f.usesStr {
			opq = append(opq, o)
		}
		sort.Strings(opq)
		w("(* %s   [%s]", f.key, f.src)
		for _, p := range f.params {
			if p.typ.kind == kInt {
				w("\n   v_%s : %s, %s", p.name, p.typ.name, strings.Replace(p.typ.rangeDoc(), "_", "v_"+p.name, 1))
			}
		}
		if f.result.kind == kInt {
			w("\n   result : %s", f.result.name)
		}
		for _, o := range os_ {
			w("\n   oracle %s = %s", xlOracleName(o), o)
		}
		w(" *)\nDefinition %s", f.coqName)
		for _, o := range opq {
			if o == "string" {
				w(" {string_t : Type}")
			} else {
				w(" {bytes_t : Type}")
			}
		}
		for _, o := range os_ {
			sig := xlOracles[o]
			var ts []string
			for _, p := range sig.params {
				if p == "string" {
					ts = append(ts, "string_t")
				} else {
					ts = append(ts, "bytes_t")
				}
			}
			w(" (%s : %s -> bool)", xlOracleName(o), strings.Join(ts, " -> "))
		}
		for _, p := range f.params {
			w(" (v_%s : %s)", p.name, p.typ.coq())
		}
		w(" : %s :=\n  ", f.result.coq())
		f.body.print(&b, "  ")
		w(".\n\n")
		names = append(names, f.coqName)
	}
	w("Create HintDb xlate.\n#[export] Hint Unfold\n  %s : xlate.\n", strings.Join(names, "\n  "))
	return b.String()
}
