module verifharness

go 1.16

require (
	github.com/gobwas/httphead v0.1.0
	github.com/gobwas/pool v0.2.1
	github.com/gobwas/ws v0.0.0
)

replace github.com/gobwas/ws => /repo
