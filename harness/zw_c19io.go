package main

// C19IO: interference through the shared byte / bufio pools made DETERMINISTIC at the I/O points. A session's transport
// is a place where the goroutine may be descheduled and other sessions run; here the transport of session A, before it
// performs each Read or Write, runs a batch of other sessions' operations that draw from and return to the same pool
// classes with different data (control replies, client-side writes, handshakes, raw pool traffic). Session A must put
// on the wire / return exactly what it does alone. A prelude first walks the library's ERROR paths (rejected close
// frames with long reasons, failing destinations, cut streams), because a buffer given back twice or too early on such a
// path only shows later, when two users hold the same array.
//
//   C19IO <op> <side> <n> -> <same 0|1> <solo transcript> <nested transcript>

import (
	"bytes"
	"encoding/binary"
	"fmt"
	"io"
	"io/ioutil"
	"strings"

	"github.com/gobwas/ws"
	"github.com/gobwas/ws/wsutil"
)

func init() {
	for _, id := range []string{"C19", "C17"} {
		id := id
		old := props[id]
		props[id] = func(c *ctx) {
			if old != nil {
				old(c)
			}
			c19IOAll(c)
		}
	}
	replayers["C19IO"] = func(c *ctx, in []string) {
		var side, n int
		fmt.Sscan(in[1], &side)
		fmt.Sscan(in[2], &n)
		c19IOPrelude()
		c19IO(c, in[0], byte(side), n)
	}
}

type hookRW struct {
	r     io.Reader
	out   bytes.Buffer
	other func()
}

func (h *hookRW) Write(p []byte) (int, error) {
	if h.other != nil {
		h.other()
	}
	return h.out.Write(p)
}

func (h *hookRW) Read(p []byte) (int, error) {
	if h.other != nil {
		h.other()
	}
	if h.r == nil {
		return 0, io.EOF
	}
	return h.r.Read(p)
}

// other sessions' traffic: every size class the library draws from, other bytes
func c19IOOther() {
	defer func() { recover() }()
	for _, n := range []int{59, 63, 70, 100, 123, 125} {
		z := bytes.Repeat([]byte{'Z'}, n)
		for _, st := range []ws.State{ws.StateServerSide, ws.StateClientSide} {
			h := ws.Header{Fin: true, OpCode: ws.OpPing, Length: int64(n)}
			wsutil.ControlHandler{Src: bytes.NewReader(z), Dst: ioutil.Discard, State: st, DisableSrcCiphering: true}.HandlePing(h)
			body := ws.NewCloseFrameBody(ws.StatusNormalClosure, strings.Repeat("y", n-2))
			hc := ws.Header{Fin: true, OpCode: ws.OpClose, Length: int64(len(body))}
			wsutil.ControlHandler{Src: bytes.NewReader(body), Dst: ioutil.Discard, State: st, DisableSrcCiphering: true}.HandleClose(hc)
		}
	}
	for _, n := range []int{65, 100, 128, 1000, 4096, 5000} {
		e := bytes.Repeat([]byte{0xEE}, n)
		wsutil.WriteClientMessage(ioutil.Discard, ws.OpBinary, e)
		wsutil.WriteServerMessage(ioutil.Discard, ws.OpBinary, e)
		w := wsutil.NewWriter(ioutil.Discard, ws.StateClientSide, ws.OpBinary)
		w.WriteThrough(e)
		w.Flush()
		cw := wsutil.NewCipherWriter(ioutil.Discard, [4]byte{9, 8, 7, 6})
		cw.Write(e)
		gw := wsutil.GetWriter(ioutil.Discard, ws.StateClientSide, ws.OpBinary, 128)
		gw.Write(e)
		gw.Flush()
		wsutil.PutWriter(gw)
	}
	sc := &chunkConn{chunks: [][]byte{c19nRequest("q")}, tail: io.EOF}
	ws.Upgrader{}.Upgrade(sc)
	c17Poison()
}

// the library's error paths
func c19IOPrelude() {
	defer func() { recover() }()
	for _, st := range []ws.State{ws.StateServerSide, ws.StateClientSide} {
		for _, n := range []int{2, 30, 60, 63, 70, 100, 123, 125} {
			for _, code := range []uint16{1005, 1006, 1015, 999, 2999, 1000} {
				body := make([]byte, n)
				binary.BigEndian.PutUint16(body, code)
				for i := 2; i < n; i++ {
					body[i] = 'r'
				}
				if code == 1000 && n > 3 {
					body[n-1] = 0xff // not UTF-8
				}
				h := ws.Header{Fin: true, OpCode: ws.OpClose, Length: int64(n)}
				for _, dst := range []io.Writer{ioutil.Discard, &recWriter{failAt: 0}} {
					wsutil.ControlHandler{Src: bytes.NewReader(body), Dst: dst, State: st, DisableSrcCiphering: true}.HandleClose(h)
					wsutil.ControlHandler{Src: bytes.NewReader(body[:n/2]), Dst: dst, State: st, DisableSrcCiphering: true}.HandleClose(h)
					hp := ws.Header{Fin: true, OpCode: ws.OpPing, Length: int64(n)}
					wsutil.ControlHandler{Src: bytes.NewReader(body), Dst: dst, State: st, DisableSrcCiphering: true}.HandlePing(hp)
					wsutil.ControlHandler{Src: bytes.NewReader(body[:n/2]), Dst: dst, State: st, DisableSrcCiphering: true}.HandlePing(hp)
				}
			}
		}
	}
	for _, n := range []int{65, 100, 128, 1000, 5000, 70000} {
		p := bytes.Repeat([]byte{0x11}, n)
		for k := 0; k < 3; k++ {
			wsutil.WriteClientMessage(&recWriter{failAt: k}, ws.OpBinary, p)
			wsutil.WriteServerMessage(&recWriter{failAt: k}, ws.OpBinary, p)
			w := wsutil.NewWriter(&recWriter{failAt: k}, ws.StateClientSide, ws.OpBinary)
			w.WriteThrough(p)
			w.Write(p)
			w.Flush()
			wsutil.NewCipherWriter(&recWriter{failAt: k}, [4]byte{1, 2, 3, 4}).Write(p)
		}
	}
	req := c19nRequest("p")
	for _, cut := range []int{0, 10, len(req) / 2, len(req) - 1} {
		ws.Upgrader{}.Upgrade(&chunkConn{chunks: [][]byte{req[:cut]}, tail: io.EOF})
	}
	ws.Upgrader{}.Upgrade(&failingRW{r: bytes.NewReader(req)})
}

type failingRW struct{ r io.Reader }

func (f *failingRW) Read(p []byte) (int, error)  { return f.r.Read(p) }
func (f *failingRW) Write(p []byte) (int, error) { return 0, errFail }

// frames on the wire, unmasked: what the peer receives (random client keys do not matter)
func c19IOFrames(b []byte) string {
	r := bytes.NewReader(b)
	var parts []string
	for r.Len() > 0 {
		f, err := ws.ReadFrame(r)
		if err != nil {
			parts = append(parts, "cut:"+hx(b[len(b)-r.Len():]))
			break
		}
		if f.Header.Masked {
			ws.Cipher(f.Payload, f.Header.Mask, 0)
		}
		parts = append(parts, fmt.Sprintf("%d.%d.%d.%d.%s", b2i(f.Header.Fin), f.Header.Rsv, f.Header.OpCode, b2i(f.Header.Masked), hx(f.Payload)))
	}
	if len(parts) == 0 {
		return "-"
	}
	return strings.Join(parts, ",")
}

func c19IOAll(c *ctx) {
	c19IOPrelude()
	for _, side := range []byte{1, 2} {
		for _, n := range []int{10, 63, 100, 125} {
			c19IO(c, "ping", side, n)
			c19IO(c, "close", side, n)
			c19IO(c, "closebad", side, n)
		}
		for _, n := range []int{10, 100, 128, 1000, 5000, 70000} {
			c19IO(c, "writemsg", side, n)
			c19IO(c, "writer", side, n)
			c19IO(c, "writethrough", side, n)
			c19IO(c, "readmsg", side, n)
			c19IO(c, "readdata", side, n)
		}
	}
	for _, n := range []int{10, 100, 128, 1000, 70000} {
		c19IO(c, "cipherwriter", 2, n)
	}
}

func c19IO(c *ctx, op string, side byte, n int) {
	st := ws.State(side)
	p := patBytes(n, int(side)+3)
	run := func(other func()) (out string) {
		defer func() {
			if r := recover(); r != nil {
				out = "panic"
			}
		}()
		h := &hookRW{other: other}
		switch op {
		case "ping", "close", "closebad":
			body := append([]byte(nil), p...)
			oc := ws.OpPing
			if op != "ping" {
				oc = ws.OpClose
				code := uint16(1000)
				if op == "closebad" {
					code = 1005
				}
				if n >= 2 {
					binary.BigEndian.PutUint16(body, code)
					for i := 2; i < n; i++ {
						body[i] = byte('a' + i%26)
					}
				}
			}
			hd := ws.Header{Fin: true, OpCode: oc, Length: int64(len(body))}
			err := wsutil.ControlHandler{Src: bytes.NewReader(body), Dst: h, State: st, DisableSrcCiphering: true}.Handle(hd)
			return c19IOFrames(h.out.Bytes()) + "/" + hresClass(err)
		case "writemsg":
			var err error
			if st.ClientSide() {
				err = wsutil.WriteClientMessage(h, ws.OpBinary, p)
			} else {
				err = wsutil.WriteServerMessage(h, ws.OpBinary, p)
			}
			return c19IOFrames(h.out.Bytes()) + "/" + b2s(err == nil)
		case "writer":
			w := wsutil.NewWriterSize(h, st, ws.OpText, 64)
			_, err := w.Write(p)
			err2 := w.Flush()
			return c19IOFrames(h.out.Bytes()) + "/" + b2s(err == nil && err2 == nil)
		case "writethrough":
			w := wsutil.NewWriter(h, st, ws.OpBinary)
			_, err := w.WriteThrough(p)
			err2 := w.Flush()
			return c19IOFrames(h.out.Bytes()) + "/" + b2s(err == nil && err2 == nil)
		case "cipherwriter":
			cw := wsutil.NewCipherWriter(h, [4]byte{1, 2, 3, 4})
			_, err := cw.Write(p)
			return hx(h.out.Bytes()) + "/" + b2s(err == nil)
		case "readmsg", "readdata":
			ping := c.mkFrame(side, true, 9, 70)
			f1 := c.mkFrame(side, false, 2, n/2)
			f2 := c.mkFrame(side, true, 0, n-n/2)
			f1.payload, f2.payload, ping.payload = p[:n/2], p[n/2:], bytes.Repeat([]byte{'k'}, 70)
			h.r = bytes.NewReader(wireOf([]sframe{f1, ping, f2}))
			if op == "readmsg" {
				msgs, err := wsutil.ReadMessage(h, st, nil)
				var parts []string
				for _, m := range msgs {
					parts = append(parts, fmt.Sprintf("%d.%s", m.OpCode, hx(m.Payload)))
				}
				return strings.Join(parts, ",") + "/" + b2s(err == nil)
			}
			var data []byte
			var err error
			if st.ClientSide() {
				data, _, err = wsutil.ReadServerData(h)
			} else {
				data, _, err = wsutil.ReadClientData(h)
			}
			return hx(data) + "/" + c19IOFrames(h.out.Bytes()) + "/" + b2s(err == nil)
		}
		return "?"
	}
	solo := run(nil)
	nested := run(c19IOOther)
	c.emit("C19IO %s %d %d -> %d %s %s", op, side, n, b2i(solo == nested), solo, nested)
}
