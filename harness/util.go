package main

import (
	"bufio"
	"bytes"
	"errors"
	"io"
	"os"
	"strconv"
	"strings"

	"github.com/gobwas/ws"
)

var errFail = errors.New("verif: transport failure")

// chunkReader is the executable counterpart of Stream.src: it serves data in
// chunks of the given sizes (then the remainder as one chunk) and ends with
// io.EOF or errFail. A Read never crosses a chunk boundary.
type chunkReader struct {
	data     []byte
	sizes    []int
	rep      int // >0: every chunk has this size
	i, cur   int
	fail     bool
	withData bool // the final bytes are returned TOGETHER with the final error (io.Reader allows it)
	consumed int
	reads    int
	empties  int
	dress    string    // "" | "B<size>" | "BR" | "BB" | "SR": the concrete reader type the library is handed (see R)
	dr       io.Reader // the dressed reader, built by R
	total    int
}

// R is the reader handed to the library. Without a dress prefix in the chunk spec it is the chunked transport itself;
// with "<dress>/" the SAME transport stands behind another concrete type, because code that type-switches on its
// io.Reader (a fast path for *bufio.Reader, *bytes.Reader, *bytes.Buffer ...) must still decide what the property says:
// B<size> = bufio.NewReaderSize(transport, size); BR = bytes.NewReader, BB = bytes.NewBuffer, SR = strings.NewReader over
// the whole data (chunking does not apply; tail must be "eof").
func (r *chunkReader) R() io.Reader {
	if r.dress == "" {
		return r
	}
	if r.dr == nil {
		switch {
		case r.dress == "BR":
			r.dr = bytes.NewReader(r.data)
		case r.dress == "BB":
			r.dr = bytes.NewBuffer(append([]byte(nil), r.data...))
		case r.dress == "SR":
			r.dr = strings.NewReader(string(r.data))
		default:
			n, _ := strconv.Atoi(r.dress[1:])
			r.dr = bufio.NewReaderSize(r, n)
		}
	}
	return r.dr
}

// used is the number of bytes the library has taken from what it was handed: what left the transport minus what the
// dressing reader still holds
func (r *chunkReader) used() int {
	switch d := r.dr.(type) {
	case *bufio.Reader:
		return r.consumed - d.Buffered()
	case *bytes.Reader:
		return r.total - d.Len()
	case *bytes.Buffer:
		return r.total - d.Len()
	case *strings.Reader:
		return r.total - d.Len()
	}
	return r.consumed
}

// emptiesOf reports how many (0, nil) reads the transport has answered so far (0 for other readers): a caller
// loop that walks a list of buffer sizes does not count a read the transport left empty
func emptiesOf(src io.Reader) int {
	if c, ok := src.(*chunkReader); ok {
		return c.empties
	}
	return 0
}

func (r *chunkReader) Read(p []byte) (int, error) {
	r.reads++
	if len(p) == 0 {
		return 0, nil
	}
	if len(r.data) == 0 {
		// idle reads listed after the last byte: (0, nil) for every "z" still in the size list, then the end.
		// Not for a transport that returned its last bytes together with the error: nothing is read after that.
		if !r.withData && r.rep == 0 {
			for r.i < len(r.sizes) {
				sz := r.sizes[r.i]
				r.i++
				if sz < 0 {
					r.empties++
					return 0, nil
				}
			}
		}
		if r.fail {
			return 0, errFail
		}
		return 0, io.EOF
	}
	if r.cur == 0 {
		switch {
		case r.rep > 0:
			r.cur = r.rep
		case r.i < len(r.sizes):
			r.cur = r.sizes[r.i]
			r.i++
			if r.cur < 0 {
				r.cur = 0
				r.empties++
				return 0, nil
			}
		default:
			r.cur = len(r.data)
		}
	}
	n := len(p)
	if n > r.cur {
		n = r.cur
	}
	if n > len(r.data) {
		n = len(r.data)
	}
	copy(p, r.data[:n])
	r.data = r.data[n:]
	r.cur -= n
	if len(r.data) == 0 {
		r.cur = 0
	}
	r.consumed += n
	if len(r.data) == 0 && r.withData {
		if r.fail {
			return n, errFail
		}
		return n, io.EOF
	}
	return n, nil
}

// chunk spec token: "-" whole, "r<k>" repeat k, or "a,b,c".
func newChunkReader(data []byte, spec string, tail string) *chunkReader {
	r := &chunkReader{data: append([]byte(nil), data...), fail: tail == "fail" || tail == "faildata", withData: tail == "eofdata" || tail == "faildata"}
	r.total = len(data)
	if i := strings.IndexByte(spec, '/'); i >= 0 {
		r.dress, spec = spec[:i], spec[i+1:]
	}
	switch {
	case spec == "-":
	case strings.HasPrefix(spec, "r"):
		r.rep, _ = strconv.Atoi(spec[1:])
		if r.rep <= 0 {
			r.rep = 1
		}
	default:
		for _, s := range strings.Split(spec, ",") {
			if s == "z" { // an empty read: (0, nil), legal for an io.Reader
				r.sizes = append(r.sizes, -1)
				continue
			}
			v, _ := strconv.Atoi(s)
			if v <= 0 {
				v = 1
			}
			r.sizes = append(r.sizes, v)
		}
	}
	return r
}

func (c *ctx) randChunkSpec(n int) string {
	switch c.rng.Intn(5) {
	case 0:
		return "-"
	case 1:
		return "r1"
	case 2:
		return "r" + strconv.Itoa(1+c.rng.Intn(7))
	}
	var parts []string
	left := n
	for left > 0 && len(parts) < 12 {
		k := 1 + c.rng.Intn(1+left)
		if c.rng.Intn(2) == 0 {
			k = 1 + c.rng.Intn(4)
		}
		parts = append(parts, strconv.Itoa(k))
		left -= k
	}
	if len(parts) == 0 {
		return "-"
	}
	return strings.Join(parts, ",")
}

// recWriter records every Write call separately; optionally fails from call index failAt on.
type recWriter struct {
	calls  [][]byte
	failAt int   // -1: never
	err    error // the failure reported (default errFail)
}

// errTimeout is a failure of the kind a net.Conn reports when a write deadline has expired (net.Error, Timeout() true)
type timeoutError struct{}

func (timeoutError) Error() string   { return "verif: i/o timeout" }
func (timeoutError) Timeout() bool   { return true }
func (timeoutError) Temporary() bool { return true }

var errTimeout error = timeoutError{}

// failSpec: "-" never | "<k>" the k-th destination write and all later ones fail with errFail | "t<k>" the same with a
// timeout-type error | "d<k>" with os.ErrDeadlineExceeded
func (w *recWriter) setFail(spec string) {
	if spec == "-" {
		return
	}
	switch spec[0] {
	case 't':
		w.err, spec = errTimeout, spec[1:]
	case 'd':
		w.err, spec = os.ErrDeadlineExceeded, spec[1:]
	}
	w.failAt, _ = strconv.Atoi(spec)
}

func newRecWriter() *recWriter { return &recWriter{failAt: -1} }

func (w *recWriter) Write(p []byte) (int, error) {
	if w.failAt >= 0 && len(w.calls) >= w.failAt {
		w.calls = append(w.calls, nil) // record the attempt (no bytes reach the peer)
		if w.err != nil {
			return 0, w.err
		}
		return 0, errFail
	}
	w.calls = append(w.calls, append([]byte(nil), p...))
	return len(p), nil
}

func (w *recWriter) all() []byte {
	var out []byte
	for _, c := range w.calls {
		out = append(out, c...)
	}
	return out
}

func hxList(bs [][]byte) string {
	if len(bs) == 0 {
		return "-"
	}
	var parts []string
	for _, b := range bs {
		if len(b) == 0 {
			parts = append(parts, "_")
		} else {
			parts = append(parts, hx(b))
		}
	}
	return strings.Join(parts, ",")
}

func hdrStr(h ws.Header) string {
	return strconv.Itoa(b2i(h.Fin)) + " " + strconv.Itoa(int(h.Rsv)) + " " + strconv.Itoa(int(h.OpCode)) + " " +
		strconv.Itoa(b2i(h.Masked)) + " " + hx(h.Mask[:]) + " " + strconv.FormatInt(h.Length, 10)
}

func parseHdr(in []string) ws.Header {
	fin, _ := strconv.Atoi(in[0])
	rsv, _ := strconv.Atoi(in[1])
	op, _ := strconv.Atoi(in[2])
	m, _ := strconv.Atoi(in[3])
	var mask [4]byte
	copy(mask[:], unhx(in[4]))
	l, _ := strconv.ParseInt(in[5], 10, 64)
	return ws.Header{Fin: fin != 0, Rsv: byte(rsv), OpCode: ws.OpCode(op), Masked: m != 0, Mask: mask, Length: l}
}

// ioErrClass maps read errors to the model's classes.
func ioErrClass(err error) string {
	switch err {
	case nil:
		return "ok"
	case io.EOF:
		return "eof"
	case io.ErrUnexpectedEOF:
		return "unexpected"
	case errFail:
		return "fail"
	case ws.ErrHeaderLengthMSB:
		return "msb"
	case ws.ErrHeaderLengthUnexpected:
		return "lenunexpected"
	}
	return "other"
}
