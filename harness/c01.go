package main

import (
	"bytes"

	"github.com/gobwas/ws"
	"github.com/gobwas/ws/wsutil"
)

func init() {
	props["C01"] = runC01
	replayers["C01E"] = func(c *ctx, in []string) { c01E(c, parseHdr(in)) }
	replayers["C01D"] = func(c *ctx, in []string) { c01D(c, unhx(in[0]), in[1], in[2]) }
	replayers["C01F"] = func(c *ctx, in []string) { c01F(c, parseHdr(in), unhx(in[6]), unhx(in[7]), in[8]) }
	replayers["C01G"] = func(c *ctx, in []string) { c01G(c, unhx(in[0]), in[1], in[2]) }
}

// encoder: WriteHeader + HeaderSize
func c01E(c *ctx, h ws.Header) {
	w := newRecWriter()
	err := ws.WriteHeader(w, h)
	e := "ok"
	if err != nil {
		e = "err"
	}
	c.emit("C01E %s -> %s %d %d %s", hdrStr(h), hx(w.all()), len(w.calls), ws.HeaderSize(h), e)
}

// both decoders on arbitrary bytes under a chunking
func c01D(c *ctx, data []byte, spec, tail string) {
	r1 := newChunkReader(data, spec, tail)
	h1, err1 := ws.ReadHeader(r1.R())
	r2 := newChunkReader(data, spec, tail)
	rd := &wsutil.Reader{Source: r2.R(), SkipHeaderCheck: true}
	h2, err2 := rd.NextFrame()
	c.emit("C01D %s %s %s -> %s %s %d %s %s %d", hx(data), spec, tail,
		ioErrClass(err1), hdrStr(h1), r1.used(), ioErrClass(err2), hdrStr(h2), r2.used())
}

// frames: WriteFrame / CompileFrame, then ReadFrame of compiled++rest under a chunking
func c01F(c *ctx, h ws.Header, payload, rest []byte, spec string) {
	f := ws.Frame{Header: h, Payload: payload}
	w := newRecWriter()
	errW := ws.WriteFrame(w, f)
	comp, errC := ws.CompileFrame(f)
	var must []byte
	func() {
		defer func() { recover() }()
		must = ws.MustCompileFrame(f)
	}()
	okMust := bytes.Equal(must, comp) || errC != nil
	stream := append(append([]byte(nil), comp...), rest...)
	r := newChunkReader(stream, spec, "eof")
	g, errR := ws.ReadFrame(r.R())
	c.emit("C01F %s %s %s %s -> %s %s %d %d %d | %s %s %s %d", hdrStr(h), hx(payload), hx(rest), spec,
		hxList(w.calls), hx(comp), b2i(errW == nil), b2i(errC == nil), b2i(okMust),
		ioErrClass(errR), hdrStr(g.Header), hx(g.Payload), r.used())
}

// ReadFrame on arbitrary bytes
func c01G(c *ctx, data []byte, spec, tail string) {
	r := newChunkReader(data, spec, tail)
	g, err := ws.ReadFrame(r.R())
	c.emit("C01G %s %s %s -> %s %s %s %d", hx(data), spec, tail, ioErrClass(err), hdrStr(g.Header), hx(g.Payload), r.used())
}

var c01Lens = []int64{0, 1, 124, 125, 126, 127, 128, 65534, 65535, 65536, 65537, 1<<31 - 1, 1 << 31, 1 << 32, 1 << 62, 1<<63 - 1}

func runC01(c *ctx) {
	masks := [][4]byte{{0, 0, 0, 0}, {1, 2, 3, 4}, {0xff, 0x80, 0x7f, 0xfe}}
	// (a) exhaustive grid through the encoder, both decoders on the encoder's bytes + sentinels
	for fin := 0; fin < 2; fin++ {
		for rsv := 0; rsv < 8; rsv++ {
			for op := 0; op < 16; op++ {
				for m := 0; m < 2; m++ {
					for li, l := range c01Lens {
						h := ws.Header{Fin: fin != 0, Rsv: byte(rsv), OpCode: ws.OpCode(op), Masked: m != 0, Length: l}
						if m != 0 {
							h.Mask = masks[(li+op+rsv)%len(masks)]
						}
						c01E(c, h)
						w := newRecWriter()
						if ws.WriteHeader(w, h) == nil {
							data := append(w.all(), 0xde, 0xad, 0xbe)
							spec := []string{"-", "r1", "2", "1,1", "3,1,4", "z,1,z,1,z,z,2,z,1,z,4,z,8"}[(li+op)%6]
							c01D(c, data, spec, "eof")
						}
					}
				}
			}
		}
	}
	// random lengths, masks
	n := 3000
	if c.thor {
		n = 200000
	}
	for i := 0; i < n; i++ {
		var l int64
		switch c.rng.Intn(4) {
		case 0:
			l = int64(c.rng.Intn(130))
		case 1:
			l = int64(65500 + c.rng.Intn(80))
		case 2:
			l = c.rng.Int63()
		default:
			l = int64(c.rng.Intn(1 << 20))
		}
		h := ws.Header{Fin: c.rng.Intn(2) == 0, Rsv: byte(c.rng.Intn(8)), OpCode: ws.OpCode(c.rng.Intn(16)), Masked: c.rng.Intn(2) == 0, Length: l}
		if h.Masked {
			c.rng.Read(h.Mask[:])
		}
		c01E(c, h)
		w := newRecWriter()
		ws.WriteHeader(w, h)
		data := w.all()
		tailb := make([]byte, c.rng.Intn(4))
		c.rng.Read(tailb)
		data = append(data, tailb...)
		// truncated at every offset, both tails
		if i%10 == 0 {
			for cut := 0; cut <= len(data); cut++ {
				c01D(c, data[:cut], c.randChunkSpec(cut), []string{"eof", "fail"}[cut%2])
			}
		}
		c01D(c, data, c.randChunkSpec(len(data)), "eof")
	}
	// (c) arbitrary and mutated byte strings: MSB set, non-minimal forms, random
	for i := 0; i < n; i++ {
		k := c.rng.Intn(18)
		data := make([]byte, k)
		c.rng.Read(data)
		if k >= 2 {
			switch c.rng.Intn(6) {
			case 0:
				data[1] = data[1]&0x80 | 127
				if k > 2 {
					data[2] |= 0x80
				}
			case 1:
				data[1] = data[1]&0x80 | 126
				if k > 3 {
					data[2], data[3] = 0, byte(c.rng.Intn(126)) // non-minimal
				}
			case 2:
				data[1] = data[1]&0x80 | 127
				for j := 2; j < 9 && j < k; j++ {
					data[j] = 0 // non-minimal 64-bit
				}
			case 3:
				data[1] = data[1]&0x80 | 127
				if k > 2 {
					data[2] &= 0x7f
				}
			}
		}
		c01D(c, data, c.randChunkSpec(k), []string{"eof", "fail"}[c.rng.Intn(2)])
	}
	// structured 64-bit and 16-bit length fields: boundary bytes at every position
	vals := []byte{0x00, 0x01, 0x7f, 0x80, 0xff}
	for _, b1 := range []byte{127, 255, 126, 254} {
		w := 8
		if b1&0x7f == 126 {
			w = 2
		}
		for _, first := range vals {
			for _, fill := range []byte{0x00, 0xff, 0x5a} {
				for pos := 0; pos <= w; pos++ {
					for _, v := range vals {
						data := []byte{0x82, b1}
						ext := make([]byte, w)
						for j := range ext {
							ext[j] = fill
						}
						ext[0] = first
						if pos > 0 && pos < w {
							ext[pos] = v
						}
						data = append(data, ext...)
						data = append(data, 1, 2, 3, 4, 5)
						c01D(c, data, []string{"-", "r1", "2,3", "r3", "z,1,z,1,z,2,z,1,z,z,3"}[(pos+int(v))%5], "eof")
					}
				}
			}
		}
	}
	// (b) whole frames with real payloads around the thresholds
	sizes := []int{0, 1, 2, 124, 125, 126, 127, 300, 65534, 65535, 65536, 65537}
	for _, sz := range sizes {
		for m := 0; m < 2; m++ {
			for _, op := range []ws.OpCode{ws.OpText, ws.OpBinary, ws.OpContinuation, ws.OpPing, 0x7} {
				p := make([]byte, sz)
				c.rng.Read(p)
				h := ws.Header{Fin: c.rng.Intn(2) == 0, Rsv: byte(c.rng.Intn(8)), OpCode: op, Masked: m != 0, Length: int64(sz)}
				if h.Masked {
					c.rng.Read(h.Mask[:])
				}
				rest := make([]byte, c.rng.Intn(5))
				c.rng.Read(rest)
				for _, spec := range []string{"-", "r1", "r7", c.randChunkSpec(sz + 10)} {
					if sz > 1000 && spec == "r1" && !c.thor {
						continue
					}
					c01F(c, h, p, rest, spec)
				}
			}
		}
	}
	// ReadFrame on arbitrary bytes (announced lengths kept small: allocation is C15's topic)
	for i := 0; i < n; i++ {
		k := c.rng.Intn(40)
		data := make([]byte, k)
		c.rng.Read(data)
		if k >= 2 {
			switch c.rng.Intn(3) {
			case 0:
				data[1] = data[1]&0x80 | byte(c.rng.Intn(40))
			case 1:
				data[1] = data[1]&0x80 | 126
				if k > 3 {
					data[2], data[3] = 0, byte(c.rng.Intn(60))
				}
			default:
				data[1] = data[1]&0x80 | 127
				for j := 2; j < 10 && j < k; j++ {
					data[j] = 0
				}
				if k > 9 {
					data[9] = byte(c.rng.Intn(40))
				}
				if c.rng.Intn(8) == 0 && k > 2 {
					data[2] = 0x80
				}
			}
		}
		c01G(c, data, c.randChunkSpec(k), []string{"eof", "fail"}[c.rng.Intn(2)])
	}
}
