package main

// C11 — both peers agree; chunking independence; debug wrappers. Kinds:
//   A11  ws.Dialer.Upgrade against ws.Upgrader.Upgrade (request handed over when the dialer starts
//        reading, response + trailing frames when the upgrader returns; both under scripted chunkings)
//   CIU / CID  one request / response under many chunkings and buffer sizes: all outcomes identical
//   DBU / DBD  wsutil.DebugUpgrader / wsutil.DebugDialer against the un-wrapped peers

import (
	"bufio"
	"bytes"
	"context"
	"fmt"
	"io"
	"net"
	"net/url"
	"strconv"
	"strings"
	"time"

	"github.com/gobwas/httphead"
	"github.com/gobwas/ws"
	"github.com/gobwas/ws/wsutil"
)

func splitSizes(b []byte, sizes []int) [][]byte {
	var out [][]byte
	i := 0
	for len(b) > 0 {
		n := 1 << 30
		if len(sizes) > 0 {
			n = sizes[i]
			if i < len(sizes)-1 {
				i++
			}
		}
		if n < 1 {
			n = 1
		}
		if n > len(b) {
			n = len(b)
		}
		out = append(out, append([]byte(nil), b[:n]...))
		b = b[n:]
	}
	return out
}

// handoffConn is the dialer's side: the request is handed to the peer when the dialer first
// reads; the peer's complete answer is then delivered in scripted chunks.
type handoffConn struct {
	written  bytes.Buffer
	sizes    []int
	reqReady chan []byte
	respIn   chan []byte
	chunks   [][]byte
	actual   [][]byte
	started  bool
	hung     bool
}

func (h *handoffConn) Write(p []byte) (int, error) { return h.written.Write(p) }
func (h *handoffConn) Read(p []byte) (int, error) {
	if !h.started {
		h.started = true
		h.reqReady <- append([]byte(nil), h.written.Bytes()...)
		select {
		case resp := <-h.respIn:
			h.chunks = splitSizes(resp, h.sizes)
			h.actual = cloneChunks(h.chunks)
		case <-time.After(5 * time.Second):
			h.hung = true
		}
	}
	if len(h.chunks) == 0 {
		return 0, io.EOF
	}
	n := copy(p, h.chunks[0])
	h.chunks[0] = h.chunks[0][n:]
	if len(h.chunks[0]) == 0 {
		h.chunks = h.chunks[1:]
	}
	return n, nil
}
func (h *handoffConn) rest() []byte {
	var b []byte
	for _, x := range h.chunks {
		b = append(b, x...)
	}
	return b
}

func a11(c *ctx, drbuf, dwbuf, urbuf, uwbuf int, reqSizes, respSizes []int, urlstr string, dc dcfg, uc ucfg, trailing []byte) {
	u, err := url.ParseRequestURI(urlstr)
	if err != nil {
		return
	}
	hc := &handoffConn{sizes: respSizes, reqReady: make(chan []byte, 1), respIn: make(chan []byte, 1)}
	type sres struct {
		cls    string
		hs     ws.Handshake
		out    []byte
		chunks [][]byte
	}
	done := make(chan sres, 1)
	go func() {
		var req []byte
		select {
		case req = <-hc.reqReady:
		case <-time.After(5 * time.Second):
			done <- sres{cls: "hang"}
			return
		}
		sc := &chunkConn{chunks: splitSizes(req, reqSizes), tail: io.EOF}
		chunks := cloneChunks(sc.chunks)
		var r sres
		func() {
			defer func() {
				if rec := recover(); rec != nil {
					r.cls = "panic"
				}
			}()
			hs, err := uc.upgrader(urbuf, uwbuf).Upgrade(sc)
			r.hs = hs
			r.cls = upgradeErrClass(err)
		}()
		r.out = append([]byte(nil), sc.out.Bytes()...)
		r.chunks = chunks
		resp := append([]byte(nil), r.out...)
		if r.cls == "ok" {
			resp = append(resp, trailing...)
		}
		hc.respIn <- resp
		done <- r
	}()
	var chs ws.Handshake
	ccls := ""
	var left []byte
	func() {
		defer func() {
			if rec := recover(); rec != nil {
				ccls = "panic"
			}
		}()
		br, h, err := dc.dialer(drbuf, dwbuf).Upgrade(hc, u)
		chs = h
		ccls = dialErrClass(err)
		if br != nil {
			left = make([]byte, br.Buffered())
			io.ReadFull(br, left)
			ws.PutReader(br)
		}
		left = append(left, hc.rest()...)
	}()
	var sr sres
	select {
	case sr = <-done:
	case <-time.After(6 * time.Second):
		sr = sres{cls: "hang"}
	}
	if hc.hung {
		ccls = "hang"
	}
	c.emit("A11 %d %d %d %d %s %s %s %s %s %s -> %s %s %s %s %s %s %s %s %s %s %s %s %s",
		drbuf, dwbuf, urbuf, uwbuf, encInts(reqSizes), encInts(respSizes), hx([]byte(urlstr)), dc.tokens(), uc.tokens(), hx(trailing),
		hx([]byte(u.Host)), hx([]byte(u.RequestURI())), hx(keyOfRequest(hc.written.Bytes())), encChunks(sr.chunks), encChunks(hc.actual),
		ccls, hx([]byte(chs.Protocol)), encOpts(chs.Extensions), sr.cls, hx([]byte(sr.hs.Protocol)), encOpts(sr.hs.Extensions),
		hx(hc.written.Bytes()), hx(left))
}

// ---- chunking independence of a single peer -----------------------------------------------

type chunkPlan struct {
	rbuf, wbuf int
	sizes      []int
}

func encPlans(ps []chunkPlan) string {
	var s []string
	for _, p := range ps {
		s = append(s, fmt.Sprintf("%d/%d/%s", p.rbuf, p.wbuf, strings.Replace(encInts(p.sizes), ",", ".", -1)))
	}
	return strings.Join(s, ",")
}

func decPlans(s string) []chunkPlan {
	var out []chunkPlan
	for _, x := range strings.Split(s, ",") {
		f := strings.Split(x, "/")
		rb, _ := strconv.Atoi(f[0])
		wb, _ := strconv.Atoi(f[1])
		out = append(out, chunkPlan{rb, wb, decInts(strings.Replace(f[2], ".", ",", -1))})
	}
	return out
}

func standardPlans(c *ctx, n int, thorough bool) []chunkPlan {
	ps := []chunkPlan{{0, 0, nil}, {1, 1, []int{1}}, {16, 16, []int{1}}, {17, 0, []int{16}}, {16, 1, []int{17}}, {4096, 256, []int{3, 5, 7}},
		{256, 17, []int{15, 1, 16}}, {64, 0, []int{64}}, {128, 0, []int{63, 65}}}
	for k := 0; k < 4; k++ {
		ps = append(ps, chunkPlan{[]int{1, 16, 17, 31, 64, 100, 256, 4096}[c.rng.Intn(8)], []int{0, 1, 16, 17, 256}[c.rng.Intn(5)], randSizes(c)})
	}
	if thorough {
		for i := 1; i < n; i++ {
			ps = append(ps, chunkPlan{16, 0, []int{i, 1 << 20}})
		}
	}
	return ps
}

func ciu(c *ctx, req []byte, cfg ucfg, plans []chunkPlan) {
	var outs []string
	for _, p := range plans {
		conn := &chunkConn{chunks: splitSizes(req, p.sizes), tail: io.EOF}
		cls := ""
		var hs ws.Handshake
		func() {
			defer func() {
				if r := recover(); r != nil {
					cls = "panic"
				}
			}()
			h, err := cfg.upgrader(p.rbuf, p.wbuf).Upgrade(conn)
			hs = h
			cls = upgradeErrClass(err)
		}()
		if cls != "ok" {
			hs = ws.Handshake{} // the handshake next to an error is not fixed by the property
		}
		outs = append(outs, cls+"/"+hxi([]byte(hs.Protocol))+"/"+encOpts(hs.Extensions)+"/"+hxi(conn.out.Bytes()))
	}
	c.emit("CIU %s %s %s -> %s", hx(req), cfg.tokens(), encPlans(plans), strings.Join(outs, ","))
}

func cid(c *ctx, template []byte, cfg dcfg, plans []chunkPlan) {
	u, _ := url.ParseRequestURI("ws://example.com/ws")
	var outs []string
	for _, p := range plans {
		conn := &scriptConn{template: template, sizes: p.sizes, tail: io.EOF}
		cls := ""
		var hs ws.Handshake
		var left []byte
		func() {
			defer func() {
				if r := recover(); r != nil {
					cls = "panic"
				}
			}()
			br, h, err := cfg.dialer(p.rbuf, p.wbuf).Upgrade(conn, u)
			hs = h
			cls = dialErrClass(err)
			if br != nil {
				left = make([]byte, br.Buffered())
				io.ReadFull(br, left)
				ws.PutReader(br)
			}
			left = append(left, conn.rest()...)
		}()
		if cls != "ok" {
			hs = ws.Handshake{}
			left = nil
		}
		// the request differs only in the random key: compare it with the key blanked
		req := bytes.Replace(conn.in.Bytes(), conn.nonce, []byte("KEY"), 1)
		outs = append(outs, cls+"/"+hxi([]byte(hs.Protocol))+"/"+encOpts(hs.Extensions)+"/"+hxi(left)+"/"+hxi(req))
	}
	c.emit("CID %s %s %s -> %s", hx(template), cfg.tokens(), encPlans(plans), strings.Join(outs, ","))
}

// ---- debug wrappers -----------------------------------------------------------------------

// dbdExtra / dbuExtra: further observation kinds fed by the same generators (zz_dbgfull.go: DFD / DFU)
var dbdExtra func(c *ctx, template []byte, sizes []int, rbuf int, cfg dcfg, setReq, setResp bool)
var dbuExtra func(c *ctx, req []byte, sizes []int, cfg ucfg, setReq, setResp bool)

func dbu(c *ctx, req []byte, sizes []int, cfg ucfg, setReq, setResp bool) {
	if dbuExtra != nil {
		defer dbuExtra(c, req, sizes, cfg, setReq, setResp)
	}
	dbuW(c, 0, req, sizes, cfg, setReq, setResp)
}

// wbuf > 0: kind DBUW, the Upgrader writes through a buffer of wbuf bytes, so a response longer than that reaches
// the connection in several writes
func dbuW(c *ctx, wbuf int, req []byte, sizes []int, cfg ucfg, setReq, setResp bool) {
	// un-wrapped reference
	ref := &chunkConn{chunks: splitSizes(req, sizes), tail: io.EOF}
	rhs, rerr := cfg.upgrader(0, wbuf).Upgrade(ref)
	conn := &chunkConn{chunks: splitSizes(req, sizes), tail: io.EOF}
	var gotReq, gotResp []byte
	nReq, nResp := 0, 0
	d := wsutil.DebugUpgrader{Upgrader: cfg.upgrader(0, wbuf)}
	if setReq {
		d.OnRequest = func(p []byte) { nReq++; gotReq = append([]byte(nil), p...) }
	}
	if setResp {
		d.OnResponse = func(p []byte) { nResp++; gotResp = append([]byte(nil), p...) }
	}
	cls := ""
	var hs ws.Handshake
	func() {
		defer func() {
			if r := recover(); r != nil {
				cls = "panic"
			}
		}()
		h, err := d.Upgrade(conn)
		hs = h
		cls = upgradeErrClass(err)
	}()
	kind := "DBU"
	if wbuf > 0 {
		kind = "DBUW " + strconv.Itoa(wbuf)
	}
	c.emit(kind+" %s %s %s %d %d -> %s %s %s %s %s %s %s %s %d %s %d %s", hx(req), encInts(sizes), cfg.tokens(), b2i(setReq), b2i(setResp),
		upgradeErrClass(rerr), hx([]byte(rhs.Protocol)), encOpts(rhs.Extensions), hx(ref.out.Bytes()),
		cls, hx([]byte(hs.Protocol)), encOpts(hs.Extensions), hx(conn.out.Bytes()), nReq, hx(gotReq), nResp, hx(gotResp))
}

type scriptNetConn struct {
	net.Conn
	s *scriptConn
}

func (n scriptNetConn) Read(p []byte) (int, error)       { return n.s.Read(p) }
func (n scriptNetConn) Write(p []byte) (int, error)      { return n.s.Write(p) }
func (n scriptNetConn) Close() error                     { return nil }
func (n scriptNetConn) SetDeadline(time.Time) error      { return nil }
func (n scriptNetConn) SetReadDeadline(time.Time) error  { return nil }
func (n scriptNetConn) SetWriteDeadline(time.Time) error { return nil }

func dbd(c *ctx, template []byte, sizes []int, rbuf int, cfg dcfg, setReq, setResp bool) {
	if dbdExtra != nil {
		defer dbdExtra(c, template, sizes, rbuf, cfg, setReq, setResp)
	}
	run := func(debug bool) (cls string, hs ws.Handshake, left, req, nonce, gotReq, gotResp []byte, nReq, nResp int, actual [][]byte) {
		sc := &scriptConn{template: template, sizes: sizes, tail: io.EOF}
		dl := cfg.dialer(rbuf, 0)
		dl.NetDial = func(ctx context.Context, network, addr string) (net.Conn, error) { return scriptNetConn{s: sc}, nil }
		var conn net.Conn
		var br *bufio.Reader
		var err error
		func() {
			defer func() {
				if r := recover(); r != nil {
					cls = "panic"
				}
			}()
			if debug {
				d := wsutil.DebugDialer{Dialer: dl}
				if setReq {
					d.OnRequest = func(p []byte) { nReq++; gotReq = append([]byte(nil), p...) }
				}
				if setResp {
					d.OnResponse = func(p []byte) { nResp++; gotResp = append([]byte(nil), p...) }
				}
				conn, br, hs, err = d.Dial(context.Background(), "ws://example.com/ws")
			} else {
				conn, br, hs, err = dl.Dial(context.Background(), "ws://example.com/ws")
			}
			cls = dialErrClass(err)
			if err == nil {
				// everything the caller can still read: returned buffer, then the connection
				if br != nil {
					b := make([]byte, br.Buffered())
					io.ReadFull(br, b)
					left = append(left, b...)
				}
				if conn != nil {
					buf := make([]byte, 4096)
					for {
						n, e := conn.Read(buf)
						left = append(left, buf[:n]...)
						if e != nil || n == 0 {
							break
						}
					}
				}
			}
		}()
		return cls, hs, left, append([]byte(nil), sc.in.Bytes()...), sc.nonce, gotReq, gotResp, nReq, nResp, sc.actual
	}
	rcls, rhs, rleft, _, _, _, _, _, _, _ := run(false)
	cls, hs, left, req, _, gotReq, gotResp, nReq, nResp, actual := run(true)
	c.emit("DBD %s %s %d %s %d %d t=%s -> %s %s %s %s %s %s %s %s %s %d %s %d %s", hx(template), encInts(sizes), rbuf, cfg.tokens(), b2i(setReq), b2i(setResp), lfTag(template),
		rcls, hx([]byte(rhs.Protocol)), encOpts(rhs.Extensions), hx(rleft),
		cls, hx([]byte(hs.Protocol)), encOpts(hs.Extensions), hx(left), hx(req), nReq, hx(gotReq), nResp, hx(gotResp)+" "+encChunks(actual))
}

// lfTag: "lfhead" when the head of the message ends with a bare LF blank line (no CRLF CRLF)
func lfTag(head []byte) string {
	i := bytes.Index(head, []byte("\n\n"))
	j := bytes.Index(head, []byte("\r\n\r\n"))
	k := bytes.Index(head, []byte("\n\r\n"))
	if i >= 0 && (j < 0 || i < j) {
		return "lfhead"
	}
	if k >= 0 && (j < 0 || k+1 < j) {
		return "lfhead"
	}
	return "-"
}

func init() {
	props["C11"] = runC11
	replayers["A11"] = func(c *ctx, in []string) {
		n := func(i int) int { v, _ := strconv.Atoi(in[i]); return v }
		a11(c, n(0), n(1), n(2), n(3), decInts(in[4]), decInts(in[5]), string(unhx(in[6])), decDcfg(in[7:12]), decUcfg(in[12:20]), unhx(in[21]))
	}
	replayers["CIU"] = func(c *ctx, in []string) { ciu(c, unhx(in[0]), decUcfg(in[1:9]), decPlans(in[10])) }
	replayers["CID"] = func(c *ctx, in []string) { cid(c, unhx(in[0]), decDcfg(in[1:6]), decPlans(in[6])) }
	replayers["DBU"] = func(c *ctx, in []string) {
		dbu(c, unhx(in[0]), decInts(in[1]), decUcfg(in[2:10]), in[11] == "1", in[12] == "1")
	}
	replayers["DBD"] = func(c *ctx, in []string) {
		rb, _ := strconv.Atoi(in[2])
		dbd(c, unhx(in[0]), decInts(in[1]), rb, decDcfg(in[3:8]), in[8] == "1", in[9] == "1")
	}
}

// ---- generators ------------------------------------------------------------------------------

var agreeProtocols = [][]string{nil, {"chat"}, {"chat", "superchat"}, {"a", "b", "c"}, {"soap", "wamp", "mqtt", "chat"}, {"x-1.2", "y_z", "~tok!"}}
var agreeSelectors = []*[]string{nil, {"chat"}, {"superchat", "chat"}, {}, {"c", "b"}, {"mqtt"}, {"zzz"}, {"y_z"}}

func optp(name string, kv ...string) httphead.Option {
	o := httphead.Option{Name: []byte(name)}
	for i := 0; i+1 < len(kv); i += 2 {
		o.Parameters.Set([]byte(kv[i]), []byte(kv[i+1]))
	}
	return o
}

var agreeOffers = [][]httphead.Option{
	nil,
	{optp("permessage-deflate")},
	{optp("permessage-deflate", "client_max_window_bits", "", "server_no_context_takeover", "")},
	{optp("permessage-deflate", "client_max_window_bits", "10"), optp("permessage-deflate")},
	{optp("foo", "a", "1", "b", "2"), optp("bar", "c", "")},
	{optp("foo"), optp("bar"), optp("baz", "k", "v")},
	{optp("foo", "q", "needs quoting"), optp("bar", "e", "a\"b")}, // values that are not tokens: correspondence only
	// names and parameter lists of different lengths, several of them acceptable to one selector
	{optp("permessage-deflate", "client_max_window_bits", "10"), optp("foo", "a", "1", "b", "2"), optp("x-webkit-deflate-frame")},
	{optp("bar", "c", ""), optp("x-webkit-deflate-frame", "no_context_takeover", ""), optp("baz", "k", "v"), optp("foo")},
}

func agreeServerExt(c *ctx, k int) (ext *[]string, neg *[]negEntry) {
	switch k {
	case 1:
		return &[]string{"permessage-deflate", "foo"}, nil
	case 2:
		return &[]string{"bar", "baz"}, nil
	case 3:
		t := []negEntry{{name: "permessage-deflate", action: 'e'}, {name: "foo", action: 'e'}, {name: "bar", action: 'd'}}
		return nil, &t
	case 4:
		t := []negEntry{{name: "permessage-deflate", action: 'a', opt: optp("permessage-deflate", "server_max_window_bits", "12")},
			{name: "baz", action: 'a', opt: optp("baz", "k", "other")}, {name: "foo", action: 'e'}}
		return nil, &t
	case 6:
		return &[]string{"permessage-deflate", "x-webkit-deflate-frame", "foo", "baz"}, nil
	case 5:
		t := []negEntry{{name: "bar", action: 'r', rej: rejSamples[c.rng.Intn(len(rejSamples)-1)]}, {name: "foo", action: 'e'}}
		return nil, &t
	}
	return nil, nil
}

var bufSizes = []int{0, 1, 16, 17, 256, 4096}

func runC11(c *ctx) {
	// (a) agreement grid: protocols x selectors x offers x server extension handling
	for _, ps := range agreeProtocols {
		for _, sel := range agreeSelectors {
			for oi, offer := range agreeOffers {
				for k := 0; k < 7; k++ {
					if !c.thor && (oi+k)%2 == 1 && len(ps) > 1 {
						continue
					}
					ext, neg := agreeServerExt(c, k)
					dc := dcfg{protocols: ps, exts: offer}
					uc := ucfg{proto: sel, ext: ext, neg: neg}
					switch c.rng.Intn(4) {
					case 0:
						dc.hdr = []byte("Origin: http://example.com\r\nX-" + strings.Repeat("p", c.rng.Intn(40)) + ": 1\r\n")
					case 1:
						uc.hdr = []byte("X-Server: " + strings.Repeat("s", c.rng.Intn(40)) + "\r\n")
					}
					var trailing []byte
					if c.rng.Intn(2) == 0 {
						trailing = bytes.Repeat([]byte("\x81\x02hi"), 1+c.rng.Intn(3))
					}
					a11(c, bufSizes[c.rng.Intn(6)], bufSizes[c.rng.Intn(6)], bufSizes[c.rng.Intn(6)], bufSizes[c.rng.Intn(6)],
						randSizes(c), randSizes(c), pick(c, "ws://example.com/ws", "ws://example.com:8080/a?b=c", "ws://[::1]/"), dc, uc, trailing)
				}
			}
		}
	}
	// rejecting callbacks on the server: both must fail
	for _, rj := range rejSamples[:6] {
		rj := rj
		for k := 0; k < 4; k++ {
			uc := ucfg{}
			switch k {
			case 0:
				uc.onreq = []kvRej{{[]byte("/ws"), rj}}
			case 1:
				uc.onhost = []kvRej{{[]byte("example.com"), rj}}
			case 2:
				uc.onhdr = []kvRej{{[]byte("Origin"), rj}}
			case 3:
				uc.before = &beforeCfg{rej: &rj}
			}
			a11(c, 0, 0, 0, 0, randSizes(c), randSizes(c), "ws://example.com/ws", dcfg{protocols: []string{"chat"}, hdr: []byte("Origin: x\r\n")}, uc, nil)
		}
	}
	// header lines of length B-1, B, B+1, 3B on both sides
	for _, B := range []int{16, 17, 64} {
		for _, L := range []int{B - 1, B, B + 1, 3 * B} {
			for _, pad := range []int{L - 8, L - 7, L - 6, L} {
				if pad < 0 {
					continue
				}
				dc := dcfg{protocols: []string{"chat"}, hdr: []byte("X-Pad: " + strings.Repeat("p", pad) + "\r\n")}
				uc := ucfg{proto: &[]string{"chat"}, hdr: []byte("X-Pad: " + strings.Repeat("q", pad) + "\r\n")}
				a11(c, B, 0, B, 0, randSizes(c), randSizes(c), "ws://example.com/ws", dc, uc, []byte("\x81\x01x"))
			}
		}
	}
	// (b) chunking independence of a single peer
	nci := 60
	if c.thor {
		nci = 400
	}
	for i := 0; i < nci; i++ {
		r := baseReq()
		var ls []string
		for _, m := range mandatory {
			v := 1
			if c.rng.Intn(5) == 0 {
				v = c.rng.Intn(nVariants)
			}
			ls = append(ls, headerVariant(c, m, v)...)
		}
		if c.rng.Intn(2) == 0 {
			ls = append(ls, "Sec-WebSocket-Protocol: "+protocolValues[c.rng.Intn(len(protocolValues))])
		}
		if c.rng.Intn(2) == 0 {
			ls = append(ls, "Sec-WebSocket-Extensions: "+extensionValues[c.rng.Intn(len(extensionValues))])
		}
		if c.rng.Intn(3) == 0 {
			ls = append(ls, "X-Long: "+strings.Repeat("v", []int{8, 9, 10, 24, 25, 26, 40, 57, 100, 200}[c.rng.Intn(10)]))
		}
		r.lines = shuffle(c, ls)
		if c.rng.Intn(8) == 0 {
			r.eol = eolLF
		}
		req := r.bytes()
		ciu(c, req, randCfg(c, r), standardPlans(c, len(req), c.thor && i%40 == 0))
	}
	for i := 0; i < nci; i++ {
		r := baseResp()
		if c.rng.Intn(8) == 0 {
			r.status = statusTokens[c.rng.Intn(len(statusTokens))]
		}
		for _, p := range respProtoLines[c.rng.Intn(len(respProtoLines))] {
			if c.rng.Intn(2) == 0 {
				r.lines = append(r.lines, "Sec-WebSocket-Protocol: "+p)
			}
		}
		if c.rng.Intn(2) == 0 {
			for _, x := range respExtLines[c.rng.Intn(len(respExtLines))] {
				r.lines = append(r.lines, "Sec-WebSocket-Extensions: "+x)
			}
		}
		if c.rng.Intn(3) == 0 {
			r.lines = append(r.lines, "X-Long: "+strings.Repeat("v", []int{8, 9, 10, 24, 25, 26, 40, 57, 100, 200}[c.rng.Intn(10)]))
		}
		r.lines = shuffle(c, r.lines)
		if c.rng.Intn(2) == 0 {
			r.trailing = []byte("\x81\x05hello\x82\x01z")
		}
		b := r.bytes()
		cid(c, b, dialCfgs[c.rng.Intn(len(dialCfgs))], standardPlans(c, len(b), c.thor && i%40 == 0))
	}
	// lines many times longer than the read buffer whose END matters for the outcome (the selected
	// subprotocol / accepted extension parameters come last)
	for _, np := range []int{30, 60, 400} {
		var ps []string
		for k := 0; k < np; k++ {
			ps = append(ps, fmt.Sprintf("p%d", k))
		}
		r := baseReq()
		r.lines = append(canonLines(""), "Sec-WebSocket-Protocol: "+strings.Join(ps, ", "))
		req := r.bytes()
		last := ps[np-1]
		plans := standardPlans(c, len(req), false)
		if np == 400 {
			plans = []chunkPlan{{0, 0, nil}, {16, 16, []int{1000}}, {64, 0, []int{7}}, {256, 0, nil}, {4096, 256, []int{3, 5, 7}}}
		}
		ciu(c, req, ucfg{proto: &[]string{last}}, plans)
		rr := baseResp()
		rr.lines = append(rr.lines, "Sec-WebSocket-Extensions: foo; a="+strings.Repeat("v", np*4)+"; tail=1, bar; x=1")
		rr.trailing = []byte("\x81\x01z")
		b := rr.bytes()
		cid(c, b, dialCfgs[3], plans)
	}
	// (c) debug wrappers
	for i := 0; i < 40; i++ {
		r := baseReq()
		r.lines = canonLines("")
		if i%3 == 1 {
			r.lines = append(canonLines("Upgrade"), "Upgrade: nope")
		}
		if i%5 == 2 {
			r.lines = append(r.lines, "Sec-WebSocket-Protocol: chat, superchat")
		}
		if i%7 == 3 {
			r.eol = eolLF
		}
		cfg := ucfg{}
		if i%2 == 0 {
			cfg = randCfg(c, r)
		}
		dbu(c, r.bytes(), randSizes(c), cfg, i%4 != 3, i%4 != 2)
	}
	frames := [][]byte{nil, []byte("\x81\x05hello"), bytes.Repeat([]byte("\x81\x02hi"), 10)}
	for _, tr := range frames {
		for _, rb := range []int{0, 16, 64} {
			for pad := 0; pad < 24; pad++ {
				r := baseResp()
				r.trailing = tr
				r.lines = append(r.lines, "X-Pad: "+strings.Repeat("p", pad))
				if pad%6 == 5 {
					r.eol = eolLF
				}
				for _, sz := range [][]int{nil, {1}, {7}} {
					dbd(c, r.bytes(), sz, rb, dialCfgs[pad%2], true, true)
				}
			}
		}
	}
	for i := 0; i < 30; i++ {
		r := baseResp()
		if i%3 == 0 {
			r.status = "400"
		}
		if i%4 == 1 {
			r.lines = respLinesExcept("Upgrade")
		}
		r.trailing = frames[i%3]
		dbd(c, r.bytes(), randSizes(c), []int{0, 16, 4096}[i%3], dialCfgs[i%len(dialCfgs)], i%5 != 4, i%5 != 3)
	}
}
