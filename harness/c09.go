package main

// C09 — server handshake. Kinds:
//   U09  Upgrader.Upgrade / ws.Upgrade over a scripted chunked transport
//   H09  HTTPUpgrader.Upgrade / ws.UpgradeHTTP on a structured http.Request (fake Hijacker)
//   unit kinds through the verif hooks: RL (readLine), A2I (asciiToInt), PV (httpParseVersion),
//   HL (httpParseHeaderLine), TOK (httphead.ScanTokens + btsHasToken), OPT (httphead.ScanOptions
//   via ParseOptions + WriteOptions), EQF (bytes.EqualFold with "websocket"), ACC (accept value),
//   POOL (pbufio size classes).

import (
	"bufio"
	"bytes"
	"fmt"
	"net"
	"net/http"
	"sort"
	"strconv"
	"strings"
	"time"

	"github.com/gobwas/httphead"
	"github.com/gobwas/pool/pbufio"
	"github.com/gobwas/ws"
)

type beforeCfg struct {
	hdr []byte
	rej *rejSpec
}

type ucfg struct {
	hdr    []byte
	proto  *[]string
	ext    *[]string
	neg    *[]negEntry
	onreq  []kvRej
	onhost []kvRej
	onhdr  []kvRej
	before *beforeCfg
}

func (u ucfg) isZero() bool {
	return u.hdr == nil && u.proto == nil && u.ext == nil && u.neg == nil && u.onreq == nil &&
		u.onhost == nil && u.onhdr == nil && u.before == nil
}

func encBefore(b *beforeCfg) string {
	if b == nil {
		return "n"
	}
	if b.rej != nil {
		return "r:" + b.rej.enc()
	}
	return "h:" + hxi(b.hdr)
}

func decBefore(s string) *beforeCfg {
	if s == "n" {
		return nil
	}
	if s[0] == 'r' {
		r := decRej(s[2:])
		return &beforeCfg{rej: &r}
	}
	return &beforeCfg{hdr: unhxi(s[2:])}
}

func (u ucfg) codes() []int {
	var cs []int
	for _, t := range [][]kvRej{u.onreq, u.onhost, u.onhdr} {
		for _, e := range t {
			cs = append(cs, e.rej.code)
		}
	}
	if u.before != nil && u.before.rej != nil {
		cs = append(cs, u.before.rej.code)
	}
	if u.neg != nil {
		for _, e := range *u.neg {
			if e.action == 'r' {
				cs = append(cs, e.rej.code)
			}
		}
	}
	return cs
}

func (u ucfg) tokens() string {
	return fmt.Sprintf("%s %s %s %s %s %s %s %s %s", hx(u.hdr), encSet(u.proto), encSet(u.ext), encNeg(u.neg),
		encTable(u.onreq), encTable(u.onhost), encTable(u.onhdr), encBefore(u.before), encStatusTexts(u.codes()...))
}

func decUcfg(in []string) ucfg {
	return ucfg{hdr: unhx(in[0]), proto: decSet(in[1]), ext: decSet(in[2]), neg: decNeg(in[3]),
		onreq: decTable(in[4]), onhost: decTable(in[5]), onhdr: decTable(in[6]), before: decBefore(in[7])}
}

func (u ucfg) upgrader(rbuf, wbuf int) ws.Upgrader {
	up := ws.Upgrader{ReadBufferSize: rbuf, WriteBufferSize: wbuf}
	if u.hdr != nil {
		up.Header = ws.HandshakeHeaderBytes(u.hdr)
	}
	if u.proto != nil {
		set := *u.proto
		up.Protocol = func(p []byte) bool { return inSet(set, string(p)) }
	}
	if u.ext != nil {
		set := *u.ext
		up.Extension = func(o httphead.Option) bool { return inSet(set, string(o.Name)) }
	}
	if u.neg != nil {
		up.Negotiate = negFunc(*u.neg)
	}
	if u.onreq != nil {
		t := u.onreq
		up.OnRequest = func(uri []byte) error { return lookupTable(t, uri) }
	}
	if u.onhost != nil {
		t := u.onhost
		up.OnHost = func(h []byte) error { return lookupTable(t, h) }
	}
	if u.onhdr != nil {
		t := u.onhdr
		up.OnHeader = func(k, v []byte) error { return lookupTable(t, k) }
	}
	if u.before != nil {
		b := *u.before
		up.OnBeforeUpgrade = func() (ws.HandshakeHeader, error) {
			if b.rej != nil {
				return nil, b.rej.err()
			}
			return ws.HandshakeHeaderBytes(b.hdr), nil
		}
	}
	return up
}

func init() {
	props["C09"] = runC09
	replayers["U09"] = func(c *ctx, in []string) {
		rbuf, _ := strconv.Atoi(in[1])
		wbuf, _ := strconv.Atoi(in[2])
		u09(c, in[0], rbuf, wbuf, in[3], decChunks(in[4]), decUcfg(in[5:13]))
	}
	replayers["H09"] = func(c *ctx, in []string) {
		ma, _ := strconv.Atoi(in[2])
		mi, _ := strconv.Atoi(in[3])
		h09(c, in[0], string(unhx(in[1])), ma, mi, string(unhx(in[4])), decHeaderMap(in[5]),
			decHeaderMap(in[6]), decSet(in[7]), decSet(in[8]), decNeg(in[9]))
	}
	replayers["RL"] = func(c *ctx, in []string) {
		b, _ := strconv.Atoi(in[0])
		n, _ := strconv.Atoi(in[3])
		rlCase(c, b, in[1], decChunks(in[2]), n)
	}
	replayers["A2I"] = func(c *ctx, in []string) { a2i(c, unhx(in[0])) }
	replayers["PV"] = func(c *ctx, in []string) { pv(c, unhx(in[0])) }
	replayers["HL"] = func(c *ctx, in []string) { hl(c, unhx(in[0])) }
	replayers["TOK"] = func(c *ctx, in []string) { tok(c, unhx(in[0])) }
	replayers["OPT"] = func(c *ctx, in []string) { optCase(c, unhx(in[0])) }
	replayers["EQF"] = func(c *ctx, in []string) { eqf(c, unhx(in[0])) }
	replayers["ACC"] = func(c *ctx, in []string) { acc(c, unhx(in[0])) }
	replayers["POOL"] = func(c *ctx, in []string) { n, _ := strconv.Atoi(in[0]); poolCase(c, n) }
}

// ---------------------------------------------------------------- U09

func u09(c *ctx, api string, rbuf, wbuf int, tail string, chunks [][]byte, cfg ucfg) {
	conn := &chunkConn{chunks: cloneChunks(chunks), tail: tailErr(tail)}
	var hs ws.Handshake
	var err error
	cls := ""
	func() {
		defer func() {
			if r := recover(); r != nil {
				cls = "panic"
			}
		}()
		if api == "ws" {
			hs, err = ws.Upgrade(conn)
		} else {
			hs, err = cfg.upgrader(rbuf, wbuf).Upgrade(conn)
		}
		cls = upgradeErrClass(err)
	}()
	var flat []byte
	for _, ch := range chunks {
		flat = append(flat, ch...)
	}
	c.emit("U09 %s %d %d %s %s %s t=%s -> %s %s %s %s", api, rbuf, wbuf, tail, encChunks(chunks), cfg.tokens(), headTag(flat),
		cls, hx([]byte(hs.Protocol)), encOpts(hs.Extensions), hx(conn.out.Bytes()))
}

// ---------------------------------------------------------------- H09

type hmEntry struct {
	key  string
	vals []string
}

func encHeaderMap(h []hmEntry) string {
	if len(h) == 0 {
		return "-"
	}
	var s []string
	for _, e := range h {
		var vs []string
		for _, v := range e.vals {
			vs = append(vs, hxi([]byte(v)))
		}
		s = append(s, hxi([]byte(e.key))+":"+strings.Join(vs, ";"))
	}
	return strings.Join(s, ",")
}

func decHeaderMap(s string) []hmEntry {
	if s == "-" {
		return nil
	}
	var out []hmEntry
	for _, e := range strings.Split(s, ",") {
		i := strings.IndexByte(e, ':')
		ent := hmEntry{key: string(unhxi(e[:i]))}
		if e[i+1:] != "" {
			for _, v := range strings.Split(e[i+1:], ";") {
				ent.vals = append(ent.vals, string(unhxi(v)))
			}
		}
		out = append(out, ent)
	}
	return out
}

func toHTTPHeader(h []hmEntry) http.Header {
	if h == nil {
		return nil
	}
	out := http.Header{}
	for _, e := range h {
		out[e.key] = append(out[e.key], e.vals...)
	}
	return out
}

func fromHTTPHeader(h http.Header) []hmEntry {
	var ks []string
	for k := range h {
		ks = append(ks, k)
	}
	sort.Strings(ks)
	var out []hmEntry
	for _, k := range ks {
		out = append(out, hmEntry{k, h[k]})
	}
	return out
}

type fakeConn struct {
	net.Conn
	out *bytes.Buffer
}

func (f fakeConn) Write(p []byte) (int, error)      { return f.out.Write(p) }
func (f fakeConn) SetDeadline(time.Time) error      { return nil }
func (f fakeConn) SetWriteDeadline(time.Time) error { return nil }
func (f fakeConn) SetReadDeadline(time.Time) error  { return nil }
func (f fakeConn) Close() error                     { return nil }

type fakeHijacker struct {
	out  *bytes.Buffer
	hdr  http.Header
	code int
}

func (f *fakeHijacker) Header() http.Header         { return f.hdr }
func (f *fakeHijacker) Write(p []byte) (int, error) { return len(p), nil }
func (f *fakeHijacker) WriteHeader(code int)        { f.code = code }
func (f *fakeHijacker) Hijack() (net.Conn, *bufio.ReadWriter, error) {
	conn := fakeConn{out: f.out}
	br := bufio.NewReader(bytes.NewReader(nil))
	if h09Early {
		// the HTTP server has already read what the client sent right behind the request head (a first frame in the same
		// TCP segment): the hijacked reader holds buffered bytes
		br = bufio.NewReader(bytes.NewReader([]byte("\x81\x82\x01\x02\x03\x04ij")))
		br.Peek(1)
	}
	return conn, bufio.NewReadWriter(br, bufio.NewWriter(conn)), nil
}

// h09Early: the hijacked reader already holds client bytes (kind H09B)
var h09Early bool

// h09Wrap: the ResponseWriter handed to the HTTP upgraders is wrapped (kind H09W)
var h09Wrap bool

type unwrapRW struct{ http.ResponseWriter }

func (u unwrapRW) Unwrap() http.ResponseWriter { return u.ResponseWriter }

func h09(c *ctx, api, method string, major, minor int, host string, hdr []hmEntry, cfgHdr []hmEntry,
	proto, ext *[]string, neg *[]negEntry) {
	r := &http.Request{Method: method, ProtoMajor: major, ProtoMinor: minor, Host: host, Header: toHTTPHeader(hdr)}
	if r.Header == nil {
		r.Header = http.Header{}
	}
	w := &fakeHijacker{out: &bytes.Buffer{}, hdr: http.Header{}}
	var rw http.ResponseWriter = w
	kind := "H09"
	if h09Early {
		kind = "H09B"
	}
	if h09Wrap {
		// the usual middleware shape: a struct embedding the ResponseWriter (which does NOT promote Hijack) that offers
		// Unwrap, the way http.ResponseController finds the Hijacker since Go 1.20
		rw = unwrapRW{w}
		kind = "H09W"
	}
	u := ws.HTTPUpgrader{Header: toHTTPHeader(cfgHdr)}
	if proto != nil {
		set := *proto
		u.Protocol = func(p string) bool { return inSet(set, p) }
	}
	if ext != nil {
		set := *ext
		u.Extension = func(o httphead.Option) bool { return inSet(set, string(o.Name)) }
	}
	var codes []int
	if neg != nil {
		u.Negotiate = negFunc(*neg)
		for _, e := range *neg {
			if e.action == 'r' {
				codes = append(codes, e.rej.code)
			}
		}
	}
	var hs ws.Handshake
	var err error
	cls := ""
	func() {
		defer func() {
			if r := recover(); r != nil {
				cls = "panic"
			}
		}()
		if api == "ws" {
			_, _, hs, err = ws.UpgradeHTTP(r, rw)
		} else {
			_, _, hs, err = u.Upgrade(r, rw)
		}
		cls = upgradeErrClass(err)
	}()
	// what http.Header.Write produces for the configured header (net/http is outside the model)
	var hb bytes.Buffer
	if u.Header != nil && api != "ws" {
		u.Header.Write(&hb)
	}
	tag := "-"
	for _, e := range hdr {
		if isListHeader(e.key) {
			for _, v := range e.vals {
				if strings.Contains(strings.Trim(v, " \t"), "\t") {
					tag = "htlist"
				}
			}
		}
	}
	c.emit(kind+" %s %s %d %d %s %s %s %s %s %s %s %s t=%s -> %s %s %s %s", api, hx([]byte(method)), major, minor,
		hx([]byte(host)), encHeaderMap(hdr), encHeaderMap(cfgHdr), encSet(proto), encSet(ext), encNeg(neg),
		hx(hb.Bytes()), encStatusTexts(codes...), tag,
		cls, hx([]byte(hs.Protocol)), encOpts(hs.Extensions), hx(w.out.Bytes()))
}

// ---------------------------------------------------------------- unit kinds

func rlCase(c *ctx, b int, tail string, chunks [][]byte, n int) {
	conn := &chunkConn{chunks: cloneChunks(chunks), tail: tailErr(tail)}
	br := bufio.NewReaderSize(conn, b)
	var outs []string
	for i := 0; i < n; i++ {
		line, err := ws.VerifReadLine(br)
		if err != nil {
			outs = append(outs, "e:"+upgradeErrClass(err)[3:]+":"+hxi(line))
			break
		}
		outs = append(outs, "l:"+hxi(line))
	}
	// what is left: buffered bytes then the transport
	left := make([]byte, br.Buffered())
	br.Read(left)
	left = append(left, conn.rest()...)
	c.emit("RL %d %s %s %d -> %d %s %s", b, tail, encChunks(chunks), n, br.Size(), strings.Join(outs, ","), hx(left))
}

func a2i(c *ctx, b []byte) {
	v, err := ws.VerifAsciiToInt(b)
	if err != nil {
		c.emit("A2I %s -> err", hx(b))
		return
	}
	c.emit("A2I %s -> %d", hx(b), v)
}

func pv(c *ctx, b []byte) {
	ma, mi, ok := ws.VerifHTTPParseVersion(b)
	if !ok {
		c.emit("PV %s -> err", hx(b))
		return
	}
	c.emit("PV %s -> %d %d", hx(b), ma, mi)
}

func hl(c *ctx, line []byte) {
	k, v, ok := ws.VerifHTTPParseHeaderLine(append([]byte(nil), line...))
	c.emit("HL %s -> %d %s %s", hx(line), b2i(ok), hx(k), hx(v))
}

func tok(c *ctx, h []byte) {
	var toks []string
	ok := httphead.ScanTokens(h, func(v []byte) bool {
		toks = append(toks, hxi(v))
		return true
	})
	t := "-"
	if len(toks) > 0 {
		t = strings.Join(toks, ",")
	}
	c.emit("TOK %s -> %d %s %d", hx(h), b2i(ok), t, b2i(ws.VerifBtsHasToken(h, []byte("upgrade"))))
}

func optCase(c *ctx, h []byte) {
	opts, ok := httphead.ParseOptions(h, nil)
	var wb bytes.Buffer
	httphead.WriteOptions(&wb, opts)
	c.emit("OPT %s -> %d %s %s", hx(h), b2i(ok), encOpts(opts), hx(wb.Bytes()))
}

func eqf(c *ctx, v []byte) {
	c.emit("EQF %s -> %d %d", hx(v), b2i(bytes.EqualFold(v, []byte("websocket"))), b2i(strings.EqualFold(string(v), "websocket")))
}

func acc(c *ctx, nonce []byte) {
	a := make([]byte, 28)
	ws.VerifInitAcceptFromNonce(a, nonce)
	c.emit("ACC %s -> %s", hx(nonce), hx(a))
}

func poolCase(c *ctx, n int) {
	br := pbufio.GetReader(bytes.NewReader(nil), n)
	c.emit("POOL %d -> %d", n, br.Size())
	pbufio.PutReader(br)
}

// ---------------------------------------------------------------- request grammar

const goodKey = "dGhlIHNhbXBsZSBub25jZQ=="

type mand struct {
	name  string
	good  string
	mixed string
	wrong []string
}

var mandatory = []mand{
	{"Host", "example.com", "Example.COM", []string{""}},
	{"Upgrade", "websocket", "WebSocket", []string{"websockets", "web socket", "h2c", "", "websocket, foo", "websocke"}},
	{"Connection", "Upgrade", "UPGRADE", []string{"keep-alive", "upgrades", "close", "", "xupgrade", "up grade"}},
	{"Sec-WebSocket-Version", "13", "13", []string{"12", "14", "013", "13, 8", "1 3", "", "8"}},
	{"Sec-WebSocket-Key", goodKey, "DGHLIHNHBXBSZSBUB25JZQ==", []string{"", "dGhlIHNhbXBsZSBub25jZQ=", "dGhlIHNhbXBsZSBub25jZQ===",
		"dGhlIHNhbXBsZSBub25jZXh4eHg=", "c2hvcnQ=", "dGhlIHNhbXBsZSBu b25jZQ=="}},
}

func caseVar(s string, mode int) string {
	switch mode {
	case 1:
		return strings.ToLower(s)
	case 2:
		return strings.ToUpper(s)
	case 3:
		b := []byte(s)
		for i := range b {
			if i%2 == 0 {
				b[i] = byte(strings.ToUpper(string(b[i]))[0])
			} else {
				b[i] = byte(strings.ToLower(string(b[i]))[0])
			}
		}
		return string(b)
	}
	return s
}

const nVariants = 14

// headerVariant returns the header lines (without EOL) for mandatory header m in variant v.
func headerVariant(c *ctx, m mand, v int) []string {
	wrong := m.wrong[c.rng.Intn(len(m.wrong))]
	switch v {
	case 0:
		return nil
	case 1:
		return []string{m.name + ": " + m.good}
	case 2:
		return []string{caseVar(m.name, 1) + ": " + m.good}
	case 3:
		return []string{caseVar(m.name, 2) + ": " + m.good}
	case 4:
		return []string{caseVar(m.name, 3) + ": " + m.mixed}
	case 5:
		return []string{m.name + ":\t " + m.good + " \t "}
	case 6:
		return []string{m.name + ": " + wrong}
	case 7:
		return []string{m.name + ": " + m.good, m.name + ": " + wrong}
	case 8:
		return []string{m.name + ": " + wrong, m.name + ": " + m.good}
	case 9:
		return []string{m.name + ": " + m.good, caseVar(m.name, 1) + ":" + m.mixed}
	case 10:
		return []string{m.name + ":" + m.good}
	case 11:
		return []string{" " + m.name + " \t: " + m.good}
	case 12:
		return []string{m.name + ": " + m.good + "\r"} // a CR before the line end's own CR
	case 13:
		return []string{m.name + " " + m.good} // no colon
	}
	return nil
}

var connectionValues = []string{
	"Upgrade", "upgrade", "UPGRADE", "keep-alive, Upgrade", "Upgrade, keep-alive", "keep-alive, upgrade, foo",
	"keep-alive,Upgrade", "keep-alive ,Upgrade", "keep-alive , Upgrade", "keep-alive,\tUpgrade", "keep-alive\t, Upgrade",
	"keep-alive", "upgrades", "xupgrade", "up-grade", "Upgrade;q=1", "keep-alive; Upgrade", "\"upgrade\"", "(c) upgrade",
	"upgrade (c)", ", upgrade", "upgrade,", ",,upgrade,,", "", "keep-alive upgrade", "upgrade keep-alive", "Upgr\xc3\xa4de",
	"a, b, c, d, e, f, g, upgrade", "upgrade, \x01", "\x01, upgrade", "keep-alive, Upgrade, HTTP2-Settings", "close, upgrade",
	"upgrade=1", "x=upgrade", "upgrade/1.0", "[upgrade]",
}

var versionForms = []string{
	"HTTP/1.1", "HTTP/1.0", "HTTP/0.9", "HTTP/1.2", "HTTP/1.10", "HTTP/2.0", "HTTP/11.1", "HTTP/1.01", "HTTP/01.1",
	"HTTP/1.:", "HTTP/1.;", "HTTP/1.?", "HTTP/1.1:", "HTTP/0:.1", "HTTP/1.0;", "HTTP/18446744073709551617.1",
	"HTTP/1.18446744073709551617", "HTTP/1.18446744073709551616", "HTTP/1.9223372036854775807", "HTTP/1.9223372036854775808",
	"HTTP/1", "HTTP/1.", "HTTP/.1", "HTTP/..", "http/1.1", "HTTP/1.1x", "HTTP/1.1 ", "HTTP/ 1.1", "", "HTTP/1.1.1", "HTTP/1,1",
	"HTTP/-1.1", "HTTP/1.-1", "HTTP/+1.1", "HTTP/1.+1", "HTTP/1.999", "HTTP/2.1", "HTTP/3.0", "HTTP/0.1", "HTTP/1.00", "HTTP/1.000000001",
	"HTTP/\xef\xbc\x91.1", "HTTPS/1.1", "HTTP/1.1\t", "XHTTP/1.1",
}

var methodForms = []string{"GET", "POST", "get", "Get", "HEAD", "PUT", "OPTIONS", "CONNECT", "", "GETX", "G", "GE T"}

var protocolValues = []string{
	"chat", "chat, superchat", "superchat, chat", "superchat,chat", "a, b, c", "chat,", ",chat", "a,,b", "a b", "a;b", "\"chat\"",
	"(x) chat", "chat (x)", "", "ch\xc3\xa4t", "a,\tb", "chat , superchat", "soap, wamp, chat", "CHAT", "chat, chat", "a\x01",
	"chat/1", "x, chat=1", "mqtt",
}

var extensionValues = []string{
	"permessage-deflate", "permessage-deflate; client_max_window_bits", "permessage-deflate; client_max_window_bits=10",
	"permessage-deflate; server_no_context_takeover; client_max_window_bits=\"12\"", "foo, bar", "foo; a=1; b=2, bar; c",
	"foo; a=\"x\\\"y\"", "foo; a=\"x\\y\"", "foo; a=\"\"", "foo;", "foo; =1", "foo; a=", ", foo", "foo,", "foo;;a", "foo; a=1=2",
	"foo bar", "\"foo\"", "(c) foo", "foo (c", "", "foo; a=b; a=c", "permessage-deflate, permessage-deflate; server_max_window_bits=10",
	"x-webkit-deflate-frame", "foo; a=\"b c\"", "foo; a=\"b,c\", bar", "f\xc3\xb6o", "foo;\ta=1", "foo; a=\"unterminated",
	"foo; a=\"x\\", "foo; a=\"\\\\\"", "foo; a=\"q\\\\\"z\"",
}

type reqSpec struct {
	method, uri, version string
	lines                []string // header lines without EOL
	eol                  func(i int) string
	blank                bool
	trailing             string
}

func (r reqSpec) bytes() []byte {
	var b bytes.Buffer
	b.WriteString(r.method + " " + r.uri + " " + r.version + r.eol(0))
	for i, l := range r.lines {
		b.WriteString(l + r.eol(i+1))
	}
	if r.blank {
		b.WriteString(r.eol(len(r.lines) + 1))
	}
	b.WriteString(r.trailing)
	return b.Bytes()
}

func eolCRLF(int) string { return "\r\n" }
func eolLF(int) string   { return "\n" }

func baseReq() reqSpec {
	return reqSpec{method: "GET", uri: "/ws", version: "HTTP/1.1", eol: eolCRLF, blank: true}
}

// canonical mandatory lines except those in skip
func canonLines(skip string) []string {
	var ls []string
	for _, m := range mandatory {
		if m.name != skip {
			ls = append(ls, m.name+": "+m.good)
		}
	}
	return ls
}

var rejSamples = []rejSpec{
	{code: 403, reason: "forbidden"},
	{code: 401, hdr: []byte("WWW-Authenticate: Basic\r\n"), reason: "auth required"},
	{plain: true, reason: "plain callback error"},
	{code: 0, reason: "rejected without status"},
	{code: 400, reason: ""},
	{code: 503, hdr: []byte("Retry-After: 1\r\nX-A: b\r\n"), reason: "later, with a longer explanation text"},
	{code: 299, reason: "odd status"},
	{code: 1000, reason: "four digits"},
	{code: 403, reason: "denied\n"},
	{plain: true, reason: "boom\r\n"},
	{code: 418, reason: " spaced out \t"},
	{code: 403, hdr: []byte("X-Why: policy\r\n"), reason: "caf\xc3\xa9\n\nsecond paragraph\r\n\r\n"},
}

func randRej(c *ctx) rejSpec { return rejSamples[c.rng.Intn(len(rejSamples))] }

func randCfg(c *ctx, req reqSpec) ucfg {
	var u ucfg
	if c.rng.Intn(3) == 0 {
		u.hdr = []byte(pick(c, "X-Server: verif\r\n", "X-A: 1\r\nX-B: 2\r\n", "Set-Cookie: a=b\r\n"))
	}
	switch c.rng.Intn(4) {
	case 0:
		s := []string{"chat"}
		u.proto = &s
	case 1:
		s := []string{"superchat", "chat", "b"}
		u.proto = &s
	case 2:
		s := []string{}
		u.proto = &s
	}
	switch c.rng.Intn(5) {
	case 0:
		s := []string{"permessage-deflate"}
		u.ext = &s
	case 1:
		s := []string{"foo", "bar"}
		u.ext = &s
	case 2:
		t := []negEntry{{name: "permessage-deflate", action: 'e'}, {name: "foo", action: 'a',
			opt: httphead.NewOption("foo", map[string]string{"ok": "1"})}, {name: "bar", action: 'd'}}
		if c.rng.Intn(3) == 0 {
			t = append(t, negEntry{name: "x-webkit-deflate-frame", action: 'r', rej: randRej(c)})
			t[2] = negEntry{name: "bar", action: 'r', rej: randRej(c)}
		}
		u.neg = &t
	}
	if c.rng.Intn(4) == 0 {
		u.onreq = []kvRej{{[]byte(pick(c, req.uri, "/other")), randRej(c)}}
	}
	if c.rng.Intn(4) == 0 {
		u.onhost = []kvRej{{[]byte(pick(c, "example.com", "evil.example")), randRej(c)}}
	}
	if c.rng.Intn(4) == 0 {
		u.onhdr = []kvRej{{[]byte(pick(c, "Origin", "X-Test", "Cookie")), randRej(c)}}
	}
	switch c.rng.Intn(6) {
	case 0:
		u.before = &beforeCfg{hdr: []byte("X-Before: 1\r\n")}
	case 1:
		r := randRej(c)
		u.before = &beforeCfg{rej: &r}
	}
	return u
}

var extraHeaders = []string{
	"Origin: http://example.com", "X-Test: 1", "Cookie: a=b; c=d", "User-Agent: verif/1.0", "x-lower: v",
	"X-Empty:", "X-Colons: a:b:c", ": novalue-name", "X-Long: " + strings.Repeat("v", 300), "Sec-WebSocket-Accept: zzz",
	"Accept-Encoding: gzip, deflate", "X-Tab:\tv\t", "X-UTF8: \xc3\xa9", "Pragma: no-cache", "Cache-Control: no-cache",
}

func shuffle(c *ctx, ls []string) []string {
	out := append([]string(nil), ls...)
	c.rng.Shuffle(len(out), func(i, j int) { out[i], out[j] = out[j], out[i] })
	return out
}

// runChunkings runs one request under several chunkings and buffer sizes.
func runChunkings(c *ctx, req []byte, cfg ucfg, level int) {
	api := "up"
	if cfg.isZero() && c.rng.Intn(2) == 0 {
		api = "ws"
	}
	u09(c, api, 0, 0, "eof", chunkWhole(req), cfg)
	if level >= 1 {
		u09(c, "up", 1, 1, "eof", chunkBytes(req), cfg)
		u09(c, "up", []int{16, 17, 20, 64, 100, 128, 129, 4096}[c.rng.Intn(8)], []int{0, 1, 16, 64}[c.rng.Intn(4)],
			"eof", chunkRandom(c, req, 1+c.rng.Intn(40)), cfg)
	}
	if level >= 2 {
		for i := 1; i < len(req); i++ {
			u09(c, "up", 16, 0, "eof", chunkAt(req, i), cfg)
		}
	}
}

func runC09(c *ctx) {
	lv := 1
	// (a) each mandatory header in each variant, the others canonical; CRLF and LF; two orders
	for hi, m := range mandatory {
		for v := 0; v < nVariants; v++ {
			for _, eol := range []func(int) string{eolCRLF, eolLF} {
				r := baseReq()
				r.eol = eol
				var ls []string
				for hj, m2 := range mandatory {
					if hj == hi {
						ls = append(ls, headerVariant(c, m, v)...)
					} else {
						ls = append(ls, m2.name+": "+m2.good)
					}
				}
				r.lines = ls
				runChunkings(c, r.bytes(), ucfg{}, lv)
				r.lines = shuffle(c, append(ls, extraHeaders[c.rng.Intn(len(extraHeaders))]))
				runChunkings(c, r.bytes(), randCfg(c, r), 0)
			}
		}
		// all wrong values of this header
		for _, w := range m.wrong {
			r := baseReq()
			r.lines = append(canonLines(m.name), m.name+": "+w)
			runChunkings(c, r.bytes(), ucfg{}, 0)
		}
	}
	// (b) versions and methods
	for _, v := range versionForms {
		r := baseReq()
		r.version = v
		r.lines = canonLines("")
		runChunkings(c, r.bytes(), ucfg{}, 0)
		runChunkings(c, r.bytes(), randCfg(c, r), 0)
	}
	for _, m := range methodForms {
		r := baseReq()
		r.method = m
		r.lines = canonLines("")
		runChunkings(c, r.bytes(), ucfg{}, 0)
	}
	for _, rl := range []string{"GET /ws", "GET", "", "GET  /ws HTTP/1.1", "GET /ws  HTTP/1.1", "GET /a b HTTP/1.1", " GET /ws HTTP/1.1",
		"GET /ws HTTP/1.1 ", "GET\t/ws\tHTTP/1.1", "GET http://example.com/ws?x=1 HTTP/1.1", "GET * HTTP/1.1"} {
		var b bytes.Buffer
		b.WriteString(rl + "\r\n")
		for _, l := range canonLines("") {
			b.WriteString(l + "\r\n")
		}
		b.WriteString("\r\n")
		runChunkings(c, b.Bytes(), ucfg{}, 0)
	}
	// (c) Connection values
	for _, cv := range connectionValues {
		r := baseReq()
		r.lines = append(canonLines("Connection"), "Connection: "+cv)
		runChunkings(c, r.bytes(), ucfg{}, 0)
	}
	// (d) subprotocol / extension header values x selectors
	protoCfgs := []*[]string{nil, {"chat"}, {"superchat", "chat"}, {}, {"b", "c"}, {"mqtt", "CHAT"}}
	for _, pv := range protocolValues {
		for _, pc := range protoCfgs {
			r := baseReq()
			r.lines = append(canonLines(""), "Sec-WebSocket-Protocol: "+pv)
			runChunkings(c, r.bytes(), ucfg{proto: pc}, 0)
		}
		// two header lines
		r := baseReq()
		r.lines = append(canonLines(""), "Sec-WebSocket-Protocol: "+pv, "sec-websocket-protocol: "+protocolValues[c.rng.Intn(len(protocolValues))])
		runChunkings(c, r.bytes(), ucfg{proto: protoCfgs[1+c.rng.Intn(5)]}, 0)
	}
	negT := []negEntry{{name: "permessage-deflate", action: 'e'}, {name: "foo", action: 'a',
		opt: httphead.NewOption("foo", map[string]string{"ok": "1"})}, {name: "bar", action: 'r', rej: rejSamples[0]},
		{name: "x-webkit-deflate-frame", action: 'a', opt: httphead.Option{Name: []byte("x y"), Parameters: func() httphead.Parameters {
			var p httphead.Parameters
			p.Set([]byte("k"), []byte("a\"b"))
			return p
		}()}}}
	for _, xv := range extensionValues {
		for k := 0; k < 4; k++ {
			var cfg ucfg
			switch k {
			case 1:
				cfg.ext = &[]string{"permessage-deflate", "foo"}
			case 2:
				cfg.neg = &negT
			case 3:
				cfg.ext = &[]string{"foo", "bar"}
				cfg.neg = &[]negEntry{{name: "foo", action: 'e'}}
			}
			r := baseReq()
			r.lines = append(canonLines(""), "Sec-WebSocket-Extensions: "+xv)
			runChunkings(c, r.bytes(), cfg, 0)
			r.lines = append(r.lines, "Sec-Websocket-Extensions: "+extensionValues[c.rng.Intn(len(extensionValues))])
			runChunkings(c, r.bytes(), cfg, 0)
		}
	}
	// (e) callbacks: every table kind x accepting / rejecting samples
	for _, rj := range rejSamples {
		rj := rj
		r := baseReq()
		r.lines = append(canonLines(""), "Origin: http://example.com", "X-Test: 1")
		for k := 0; k < 6; k++ {
			cfg := ucfg{hdr: []byte("X-Server: verif\r\n")}
			switch k {
			case 0:
				cfg.onreq = []kvRej{{[]byte("/ws"), rj}}
			case 1:
				cfg.onhost = []kvRej{{[]byte("example.com"), rj}}
			case 2:
				cfg.onhdr = []kvRej{{[]byte("X-Test"), rj}}
			case 3:
				cfg.before = &beforeCfg{rej: &rj}
			case 4:
				cfg.onreq = []kvRej{{[]byte("/nomatch"), rj}}
				cfg.onhost = []kvRej{{[]byte("nomatch"), rj}}
				cfg.onhdr = []kvRej{{[]byte("X-Nomatch"), rj}}
				cfg.before = &beforeCfg{hdr: []byte("X-Before: yes\r\n")}
			case 5:
				cfg.hdr = nil
				cfg.neg = &[]negEntry{{name: "foo", action: 'r', rej: rj}}
				r.lines = append(r.lines, "Sec-WebSocket-Extensions: bar, foo; a=1, baz")
			}
			runChunkings(c, r.bytes(), cfg, 0)
		}
	}
	// (f) structure: missing blank line, truncation, empty stream, long lines, trailing bytes
	{
		r := baseReq()
		r.lines = canonLines("")
		full := r.bytes()
		n := 12
		if c.thor {
			n = len(full)
		}
		for i := 0; i < n; i++ {
			cut := i * len(full) / n
			u09(c, "up", 0, 0, pick(c, "eof", "fail"), chunkRandom(c, full[:cut], 20), ucfg{})
		}
		r.trailing = "\x81\x05hello"
		runChunkings(c, r.bytes(), ucfg{}, 1)
		for _, L := range []int{14, 15, 16, 17, 31, 32, 33, 48, 100} {
			r := baseReq()
			r.lines = append(canonLines(""), "X-Pad: "+strings.Repeat("p", L))
			u09(c, "up", 16, 16, "eof", chunkRandom(c, r.bytes(), 7), ucfg{})
			r.lines = shuffle(c, append(canonLines("Host"), "Host: "+strings.Repeat("h", L)))
			u09(c, "up", 17, 16, "eof", chunkRandom(c, r.bytes(), 50), ucfg{})
		}
	}
	// (g) random combinations
	nrand := 1500
	if c.thor {
		nrand = 20000
	}
	for i := 0; i < nrand; i++ {
		r := baseReq()
		if c.rng.Intn(10) == 0 {
			r.version = versionForms[c.rng.Intn(len(versionForms))]
		}
		if c.rng.Intn(12) == 0 {
			r.method = methodForms[c.rng.Intn(len(methodForms))]
		}
		r.uri = pick(c, "/ws", "/", "/chat?x=1", "*")
		switch c.rng.Intn(4) {
		case 0:
			r.eol = eolLF
		case 1:
			r.eol = func(i int) string {
				if i%2 == 0 {
					return "\n"
				}
				return "\r\n"
			}
		}
		var ls []string
		for _, m := range mandatory {
			v := 1
			if c.rng.Intn(4) == 0 {
				v = c.rng.Intn(nVariants)
			}
			ls = append(ls, headerVariant(c, m, v)...)
		}
		for k := c.rng.Intn(3); k > 0; k-- {
			ls = append(ls, extraHeaders[c.rng.Intn(len(extraHeaders))])
		}
		if c.rng.Intn(3) == 0 {
			ls = append(ls, "Sec-WebSocket-Protocol: "+protocolValues[c.rng.Intn(len(protocolValues))])
		}
		if c.rng.Intn(3) == 0 {
			ls = append(ls, "Sec-WebSocket-Extensions: "+extensionValues[c.rng.Intn(len(extensionValues))])
		}
		if c.rng.Intn(2) == 0 {
			ls = shuffle(c, ls)
		}
		r.lines = ls
		level := 0
		if c.rng.Intn(8) == 0 {
			level = 1
		}
		if c.thor && c.rng.Intn(200) == 0 {
			level = 2
		}
		runChunkings(c, r.bytes(), randCfg(c, r), level)
	}
	runH09(c)
	runC09Units(c)
}

// ---------------------------------------------------------------- H09 generator

func mandMap(skip string) []hmEntry {
	var h []hmEntry
	for _, m := range mandatory {
		if m.name == "Host" || m.name == skip {
			continue
		}
		h = append(h, hmEntry{http.CanonicalHeaderKey(m.name), []string{m.good}})
	}
	return h
}

func runH09(c *ctx) {
	// versions (structured): F8 region included
	for _, v := range [][2]int{{1, 1}, {1, 0}, {0, 9}, {1, 2}, {1, 10}, {2, 0}, {2, 1}, {3, 0}, {0, 0}, {11, 1}, {1, -1}, {-1, 1}} {
		h09(c, "up", "GET", v[0], v[1], "example.com", mandMap(""), nil, nil, nil, nil)
		h09(c, "ws", "GET", v[0], v[1], "example.com", mandMap(""), nil, nil, nil, nil)
	}
	for _, m := range methodForms {
		h09(c, "up", m, 1, 1, "example.com", mandMap(""), nil, nil, nil, nil)
	}
	h09(c, "up", "GET", 1, 1, "", mandMap(""), nil, nil, nil, nil)
	for _, m := range mandatory[1:] {
		key := http.CanonicalHeaderKey(m.name)
		h09(c, "up", "GET", 1, 1, "h", mandMap(m.name), nil, nil, nil, nil)
		vals := append([]string{m.good, m.mixed, " " + m.good, m.good + " "}, m.wrong...)
		for _, v := range vals {
			h09(c, "up", "GET", 1, 1, "h", append(mandMap(m.name), hmEntry{key, []string{v}}), nil, nil, nil, nil)
			h09(c, "up", "GET", 1, 1, "h", append(mandMap(m.name), hmEntry{key, []string{v, m.good}}), nil, nil, nil, nil)
			h09(c, "up", "GET", 1, 1, "h", append(mandMap(m.name), hmEntry{key, []string{m.good, v}}), nil, nil, nil, nil)
		}
	}
	for _, cv := range connectionValues {
		h09(c, "up", "GET", 1, 1, "h", append(mandMap("Connection"), hmEntry{"Connection", []string{cv}}), nil, nil, nil, nil)
	}
	for _, uv := range []string{"websoc\xe2\x84\xaaet", "web\xc5\xbfocket", "WEBSOCKET", "websocket\x00", "\xe2\x84\xaa"} {
		h09(c, "up", "GET", 1, 1, "h", append(mandMap("Upgrade"), hmEntry{"Upgrade", []string{uv}}), nil, nil, nil, nil)
	}
	protoCfgs := []*[]string{nil, {"chat"}, {"superchat", "chat"}, {}}
	cfgHdrs := [][]hmEntry{nil, {{"X-Server", []string{"verif"}}}, {{"X-B", []string{"2", "3"}}, {"X-A", []string{"1"}}}}
	negT := []negEntry{{name: "permessage-deflate", action: 'e'}, {name: "foo", action: 'a',
		opt: httphead.NewOption("foo", map[string]string{"ok": "1"})}, {name: "bar", action: 'r', rej: rejSamples[1]}}
	n := 400
	if c.thor {
		n = 6000
	}
	for i := 0; i < n; i++ {
		h := mandMap("")
		if c.rng.Intn(2) == 0 {
			k := c.rng.Intn(1 + c.rng.Intn(3))
			var vs []string
			for j := 0; j <= k; j++ {
				vs = append(vs, protocolValues[c.rng.Intn(len(protocolValues))])
			}
			h = append(h, hmEntry{"Sec-Websocket-Protocol", vs})
		}
		if c.rng.Intn(2) == 0 {
			k := c.rng.Intn(1 + c.rng.Intn(3))
			var vs []string
			for j := 0; j <= k; j++ {
				vs = append(vs, extensionValues[c.rng.Intn(len(extensionValues))])
			}
			h = append(h, hmEntry{"Sec-Websocket-Extensions", vs})
		}
		if c.rng.Intn(6) == 0 {
			m := mandatory[1+c.rng.Intn(4)]
			for j := range h {
				if h[j].key == http.CanonicalHeaderKey(m.name) {
					h[j].vals = []string{m.wrong[c.rng.Intn(len(m.wrong))]}
				}
			}
		}
		var ext *[]string
		var neg *[]negEntry
		switch c.rng.Intn(4) {
		case 0:
			ext = &[]string{"permessage-deflate", "foo"}
		case 1:
			neg = &negT
		case 2:
			ext = &[]string{"foo"}
			neg = &[]negEntry{{name: "bar", action: 'e'}}
		}
		h09(c, "up", "GET", 1, 1+c.rng.Intn(2), "example.com", h, cfgHdrs[c.rng.Intn(len(cfgHdrs))],
			protoCfgs[c.rng.Intn(len(protoCfgs))], ext, neg)
	}
}

// ---------------------------------------------------------------- unit generators

func runC09Units(c *ctx) {
	// readLine: lines of lengths around the buffer size, every chunking style
	for _, B := range []int{16, 17, 32, 64} {
		for _, L := range []int{0, 1, B - 2, B - 1, B, B + 1, 2*B - 1, 2 * B, 2*B + 1, 3*B + 5} {
			for _, eol := range []string{"\r\n", "\n", "\r\r\n"} {
				data := []byte(strings.Repeat("a", L) + eol + "next" + eol + eol + "rest")
				rlCase(c, B, "eof", chunkWhole(data), 4)
				rlCase(c, B, "fail", chunkBytes(data), 4)
				rlCase(c, B, "eof", chunkRandom(c, data, 1+c.rng.Intn(2*B)), 4)
				if c.thor || L <= B+1 {
					for i := 1; i < len(data); i++ {
						rlCase(c, B, "eof", chunkAt(data, i), 3)
					}
				}
			}
		}
	}
	nr := 300
	if c.thor {
		nr = 5000
	}
	for i := 0; i < nr; i++ {
		n := c.rng.Intn(120)
		data := make([]byte, n)
		for j := range data {
			data[j] = "ab\r\n\n:x "[c.rng.Intn(8)]
		}
		rlCase(c, 16+c.rng.Intn(20), pick(c, "eof", "fail"), chunkRandom(c, data, 1+c.rng.Intn(30)), 1+c.rng.Intn(6))
	}
	// asciiToInt / version
	nums := []string{"", "0", "1", "9", "10", "42", "101", "0101", "1010", "00000000000000000000001", "9223372036854775807", "9223372036854775808",
		"18446744073709551616", "18446744073709551717", "18446744073709551615", "99999999999999999999", "0:1", "9;", ":", "?", "1?", "/", "1/", "1a",
		"a", " 1", "1 ", "-1", "+1", "1.0", "\xef\xbc\x91", "12345678901234567890123", "922337203685477580", "922337203685477581",
		"9223372036854775799", "9223372036854775800", "<=>", "10:", "1:0"}
	for _, s := range nums {
		a2i(c, []byte(s))
	}
	for i := 0; i < 400; i++ {
		n := 1 + c.rng.Intn(22)
		b := make([]byte, n)
		for j := range b {
			if c.rng.Intn(12) == 0 {
				b[j] = byte(0x2e + c.rng.Intn(0x14))
			} else {
				b[j] = byte('0' + c.rng.Intn(10))
			}
		}
		a2i(c, b)
	}
	for _, v := range versionForms {
		pv(c, []byte(v))
	}
	// header lines
	for _, l := range append(append([]string{}, extraHeaders...), "Host: x", "host:x", " sec-websocket-key \t: \t v \t", "a-b-c-d: 1", "A--B: 2", "-a: 3",
		"noColon", ":", "::", "x:", "x: :", "cOnTeNt-lEnGtH: 5", "Sec-WebSocket-Key:abc", "\tX: y", "X\t:y", "X-\xc3\xa9: z", "x_y-z: 1", "1a-2b: q") {
		hl(c, []byte(l))
	}
	for i := 0; i < 300; i++ {
		n := c.rng.Intn(24)
		b := make([]byte, n)
		for j := range b {
			b[j] = "aZ-:_ \t9\xc3"[c.rng.Intn(9)]
		}
		hl(c, b)
	}
	// token lists and options (httphead)
	for _, v := range append(append(append([]string{}, connectionValues...), protocolValues...), extensionValues...) {
		tok(c, []byte(v))
		optCase(c, []byte(v))
	}
	nt := 1500
	if c.thor {
		nt = 30000
	}
	alphabet := []string{"a", "b", "foo", "upgrade", "Upgrade", ",", ", ", ";", "; ", "=", " ", "\t", "\"", "\\", "(", ")", "x y", "\"q\"", "\"a\\\"b\"", "1", "/", "\r\n ", "\r\n", "\x7f", "\x80", "k=v", "\"\""}
	for i := 0; i < nt; i++ {
		var sb strings.Builder
		for k := c.rng.Intn(9); k > 0; k-- {
			sb.WriteString(alphabet[c.rng.Intn(len(alphabet))])
		}
		tok(c, []byte(sb.String()))
		optCase(c, []byte(sb.String()))
	}
	// EqualFold with "websocket"
	for _, v := range []string{"websocket", "WebSocket", "WEBSOCKET", "websoc\xe2\x84\xaaet", "web\xc5\xbfocket", "WEB\xc5\xbfOC\xe2\x84\xaaET", "websockets", "websocke",
		"", "websocket\x00", "w\xc3\xa9bsocket", "websoc\xe2\x84\xabet", "web\xc5\xbeocket", "websoc\xe2\x84", "websoc\xe2", "\xe2\x84\xaa", "webSocket ", "wEbSoCkEt", "websoc\x4bet", "web\x73ocket", "websocket\xe2\x84\xaa", "@ebsocket", "WEBSOCKE\x54", "websocke\x74", "`ebsocket", "wEBSOCKEt", "w\x45bsocket", "7ebsocket", "\x57\x25bsocket"} {
		eqf(c, []byte(v))
	}
	for i := 0; i < 300; i++ {
		b := []byte("websocket")
		for k := c.rng.Intn(3); k >= 0; k-- {
			j := c.rng.Intn(len(b))
			switch c.rng.Intn(4) {
			case 0:
				b[j] ^= 0x20
			case 1:
				b[j] = byte(c.rng.Intn(256))
			case 2:
				b = append(b[:j], append([]byte{0xe2, 0x84, 0xaa}, b[j+1:]...)...)
			case 3:
				b = append(b[:j], append([]byte{0xc5, 0xbf}, b[j+1:]...)...)
			}
		}
		eqf(c, b)
	}
	// accept values: the RFC sample and random 24-byte keys
	acc(c, []byte(goodKey))
	na := 60
	if c.thor {
		na = 1500
	}
	for i := 0; i < na; i++ {
		k := make([]byte, 24)
		c.rng.Read(k)
		acc(c, k)
	}
	for _, n := range []int{1, 2, 15, 16, 17, 31, 32, 33, 100, 127, 128, 129, 255, 256, 257, 511, 512, 513, 1000, 4095, 4096, 4097, 65535, 65536, 65537, 100000} {
		poolCase(c, n)
	}
}
