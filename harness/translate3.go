package main

// translate3 prints coq/gen/Translated3.v: Gallina definitions re-derived, on every run, from the
// Go SOURCE text of byte-slice code that WRITES THROUGH ALIASES (tie C, third translator).
//
// Where translate2.go gives []byte value semantics (lib/GoSlices.v), this translator targets the
// memory model of coq/lib/GoMem.v:
//
//   world             a heap of byte arrays (list (list Z)) + the log of io.Writer.Write calls
//   []byte            slice = (array number, offset, len, cap); b[i:j] shares storage with b
//   b[i], b[i:j]      m_index / m_slice: CHECKED (b[i:j] against cap), a violation is Panic
//   b[i] = v          m_store: seen through every slice of the same array
//   [N]byte, [N]int   list Z VALUES (Go copies arrays); a[i] = lift (go_index a i), checked;
//                     a[i:j] of an array is accepted ONLY as a read-only argument of copy (source)
//                     or binary.X.UintNN, where the value of the bytes is all that matters
//   string            list Z VALUE (immutable); s[i:j] = lift (go_slice s i j); string(b) = m_bytes
//                     (a copy of the bytes now); []byte(s) = m_of_list (a new array)
//   make([]byte, n)   m_make; copy(dst, src) = m_copy / m_copy_list; len, cap = sl_len, sl_cap
//   binary.BigEndian.Uint16/Uint64/PutUint16/PutUint64, binary.LittleEndian.Uint32/Uint64/PutUint64
//                     m_get_uint / m_put_uint big k (v_get_uint on an array value)
//   w.Write(p), r.Read(p) on values of type io.Writer / io.Reader: oracles m_io_write / m_io_read
//   btsToString(b)    (util_unsafe.go, an unsafe cast) read as string(b): TRUSTED, see GoMem notes
//   struct values     records; fields of integer / bool / array / string / error / io types
//   func (u *T) m()   state passing: the receiver value is a parameter and the updated value is
//                     returned as an additional last result
//   for loops         m_loop fuel ...: fuel = 65 + the sum of the lengths of the []byte parameters
//   everything else   exactly as translate2.go (integers with explicit wrap, ordered switch, ...)
//
// v4 (stateful objects):
//   struct used through a pointer receiver ("object"): a record threaded through its methods.  A []byte
//                     field is a slice value (the heap is shared).  A [N]byte field is a slice HANDLE
//                     (array, off, N, N) of a heap cell owned by the object: c.buf[i], c.buf[i] = v,
//                     c.buf[i:j], c.buf[:] (bounds against N), copy(c.buf[k:], p) act on that cell and alias
//                     correctly; c.buf = [N]byte{...} overwrites the cell; reading c.buf as a value copies it.
//                     A VALUE of such a struct (copy) is rejected.  Structs used only as values keep arrays
//                     as list Z values (ws.Header).  Fields of types outside the subset are LEFT OUT of the
//                     record and any use of them is rejected.
//   recv.m(args)      a call of another pointer-receiver method on the receiver: the callee takes the record
//                     and returns the updated one, which rebinds the receiver (statement level only)
//   io.Reader         a STATEFUL oracle (GoMem.g_reader): r.Read(p) / io.ReadFull(r, p) return the reader after
//                     the call, which is stored back into the variable / field r was read from; io.Reader
//                     parameters are returned as additional last results.  io.ReadFull = GoMem.m_io_read_full
//   make([]byte,n,c)  m_make_cap;  copy(a[i:j], src) into an assignable [N]byte VALUE = v_copy_into
//
// Everything outside the subset stops the translator with
//     translate3: unsupported construct <file>:<line>:<col>: <what>
// and exit status 1 — it never guesses.  In particular: append, 3-index slices, closures, goroutines,
// pointers other than a method receiver, values (copies) of pointer-receiver objects with array fields, slices of
// LOCAL arrays that could be written through (other than as the destination of copy), interface method calls
// other than io.Writer.Write / io.Reader.Read, calls into other packages, struct literals, maps, channels, defer,
// labels, goto, fallthrough, panic.
//
// Trust: the translator's reading of Go and lib/GoMem.v are part of the trusted base of the
// C0x_source_* theorems proved in proofs/Translated3Ok.v; the differential runs on the compiled
// functions (tie B) remain as the second line.

import (
	"fmt"
	"go/ast"
	"go/build"
	"go/constant"
	"go/importer"
	"go/parser"
	"go/token"
	"go/types"
	"os"
	"path/filepath"
	"reflect"
	"runtime"
	"sort"
	"strings"

	"github.com/gobwas/ws"
)

func init() {
	props["translate3"] = func(c *ctx) {
		out, err := x3Run()
		if err != nil {
			c.w.Flush()
			fmt.Fprintln(os.Stderr, err.Error())
			os.Exit(1)
		}
		fmt.Fprint(c.w, out)
	}
}

// package (relative to the module root), function.  Output is in dependency order.
// methods are written Type.Method
var x3Roots = [][2]string{
	{"", "Cipher"},
	{"", "WriteHeader"},
	{"", "PutCloseFrameBody"}, {"", "NewCloseFrameBody"},
	{"", "ParseCloseFrameData"}, {"", "ParseCloseFrameDataUnsafe"},
	{"wsutil", "decode"}, {"wsutil", "UTF8Reader.Read"},
	// v4: stateful objects (slices and heap-resident array fields in structs, methods calling methods)
	{"wsflate", "cbuf.Write"}, {"wsflate", "cbuf.reset"},
	{"", "ReadHeader"},
	{"wsutil", "Writer.Size"}, {"wsutil", "Writer.Available"}, {"wsutil", "Writer.Buffered"},
}

// ---------------------------------------------------------------- loading

type x3Pkg struct {
	rel   string
	tpkg  *types.Package
	info  *types.Info
	files []*ast.File
	terrs []types.Error
	funcs map[string]*ast.FuncDecl
	dup   map[string]bool
}

type x3 struct {
	fset    *token.FileSet
	root    string
	modpath string
	pkgs    map[string]*x3Pkg
	funcs   map[string]*x3Func
	order   []*x3Func
	gerrs   map[string]bool
	structs map[string]*x3Struct
	stOrder []string
	real    types.ImporterFrom
	pkgvars map[string]string
	pvOrder []string
	objType map[string]bool // struct types used as pointer receivers: [N]byte fields live in the heap
	useEOF  bool            // io.ReadFull is used: print g3_is_eof
}

type x3Struct struct {
	name   string // Coq suffix
	goName string
	fields []x3Field
	obj    bool // a pointer-receiver object: its [N]byte fields are slice handles to heap cells
	hasArr bool // has a [N]byte field
	skipped []string // fields of unsupported types: not in the record
}

func (s *x3Struct) field(name string) (x3Field, bool) {
	for _, f := range s.fields {
		if f.name == name {
			return f, true
		}
	}
	return x3Field{}, false
}

// does coqType accept t?
func (x *x3) supportedType(t types.Type, pos token.Pos) (ok bool) {
	defer func() {
		if r := recover(); r != nil {
			if _, isX := r.(xlErr); isX {
				ok = false
				return
			}
			panic(r)
		}
	}()
	x.coqType(t, pos)
	return true
}

type x3Field struct {
	name string
	typ  types.Type
}

func (x *x3) fail(pos token.Pos, format string, a ...interface{}) {
	p := x.fset.Position(pos)
	rel := p.Filename
	if r, err := filepath.Rel(x.root, p.Filename); err == nil {
		rel = r
	}
	panic(xlErr{fmt.Sprintf("translate3: unsupported construct %s:%d:%d: %s", rel, p.Line, p.Column, fmt.Sprintf(format, a...))})
}

func (x *x3) posStr(pos token.Pos) string {
	p := x.fset.Position(pos)
	rel := p.Filename
	if r, err := filepath.Rel(x.root, p.Filename); err == nil {
		rel = r
	}
	return fmt.Sprintf("%s:%d", rel, p.Line)
}

// stdlib packages the translated functions may call are type-checked from source; every other
// import is an empty package (uses of it are type errors, which matter only inside translated
// declarations)
func (x *x3) Import(path string) (*types.Package, error) { return x.ImportFrom(path, "", 0) }
func (x *x3) ImportFrom(path, dir string, mode types.ImportMode) (*types.Package, error) {
	if path == "bytes" || path == "fmt" || path == "encoding/binary" || path == "io" {
		return x.real.ImportFrom(path, dir, mode)
	}
	p := types.NewPackage(path, path[strings.LastIndex(path, "/")+1:])
	p.MarkComplete()
	return p, nil
}

func x3Run() (out string, err error) {
	defer func() {
		if r := recover(); r != nil {
			if e, ok := r.(xlErr); ok {
				err = e
				return
			}
			panic(r)
		}
	}()
	fn := runtime.FuncForPC(reflect.ValueOf(ws.CheckHeader).Pointer())
	if fn == nil {
		return "", xlErr{"translate3: cannot locate ws.CheckHeader in the binary"}
	}
	file, _ := fn.FileLine(fn.Entry())
	root := filepath.Dir(file)
	x := &x3{fset: token.NewFileSet(), root: root, pkgs: map[string]*x3Pkg{}, funcs: map[string]*x3Func{},
		gerrs: map[string]bool{}, structs: map[string]*x3Struct{}, pkgvars: map[string]string{}, objType: map[string]bool{}}
	x.real = importer.ForCompiler(x.fset, "source", nil).(types.ImporterFrom)
	gm, e := os.ReadFile(filepath.Join(root, "go.mod"))
	if e != nil {
		return "", xlErr{"translate3: cannot read go.mod next to " + file + ": " + e.Error()}
	}
	for _, l := range strings.Split(string(gm), "\n") {
		if f := strings.Fields(l); len(f) == 2 && f[0] == "module" {
			x.modpath = f[1]
		}
	}
	if x.modpath == "" {
		return "", xlErr{"translate3: no module line in go.mod"}
	}
	for _, r := range x3Roots {
		p := x.load(r[0])
		fd, ok := p.funcs[r[1]]
		if !ok {
			return "", xlErr{fmt.Sprintf("translate3: unsupported construct %s: function %s of the fixed list is not declared",
				filepath.Join(r[0], "*.go"), r[1])}
		}
		x.function(p, fd)
	}
	return x.print(), nil
}

func (x *x3) load(rel string) *x3Pkg {
	if p, ok := x.pkgs[rel]; ok {
		return p
	}
	dir := filepath.Join(x.root, rel)
	ents, err := os.ReadDir(dir)
	if err != nil {
		panic(xlErr{"translate3: cannot read " + dir + ": " + err.Error()})
	}
	bctx := build.Default
	bctx.BuildTags = []string{"verif"}
	p := &x3Pkg{rel: rel, funcs: map[string]*ast.FuncDecl{}, dup: map[string]bool{}}
	var names []string
	for _, e := range ents {
		n := e.Name()
		if e.IsDir() || !strings.HasSuffix(n, ".go") || strings.HasSuffix(n, "_test.go") {
			continue
		}
		if ok, err := bctx.MatchFile(dir, n); err != nil || !ok {
			continue
		}
		names = append(names, n)
	}
	sort.Strings(names)
	pkgName := ""
	for _, n := range names {
		f, err := parser.ParseFile(x.fset, filepath.Join(dir, n), nil, 0)
		if err != nil {
			panic(xlErr{"translate3: parse error: " + err.Error()})
		}
		if pkgName == "" {
			pkgName = f.Name.Name
		}
		if f.Name.Name != pkgName {
			continue
		}
		p.files = append(p.files, f)
		for _, d := range f.Decls {
			if fd, ok := d.(*ast.FuncDecl); ok {
				name := fd.Name.Name
				if fd.Recv != nil {
					if len(fd.Recv.List) != 1 {
						continue
					}
					t := fd.Recv.List[0].Type
					if st, ok := t.(*ast.StarExpr); ok {
						t = st.X
					}
					id, ok := t.(*ast.Ident)
					if !ok {
						continue
					}
					name = id.Name + "." + name
				}
				if _, ok := p.funcs[name]; ok {
					p.dup[name] = true
				}
				p.funcs[name] = fd
			}
		}
	}
	path := x.modpath
	if rel != "" {
		path += "/" + rel
	}
	conf := types.Config{Importer: x, Error: func(err error) {
		if te, ok := err.(types.Error); ok {
			p.terrs = append(p.terrs, te)
		}
	}, Sizes: &types.StdSizes{WordSize: 8, MaxAlign: 8}}
	p.info = &types.Info{Types: map[ast.Expr]types.TypeAndValue{}, Uses: map[*ast.Ident]types.Object{},
		Defs: map[*ast.Ident]types.Object{}, Selections: map[*ast.SelectorExpr]*types.Selection{}}
	p.tpkg, _ = conf.Check(path, x.fset, p.files, p.info)
	x.pkgs[rel] = p
	return p
}

// a type error inside [from, to] makes the information of go/types there unreliable
func (x *x3) requireClean(p *x3Pkg, from, to token.Pos, what string) {
	for _, te := range p.terrs {
		if te.Fset == x.fset && from <= te.Pos && te.Pos <= to {
			x.fail(te.Pos, "type error inside %s: %s", what, te.Msg)
		}
	}
}

// ---------------------------------------------------------------- types

type x3Int struct {
	bits   int
	signed bool
}

func x3IntOf(t types.Type) (x3Int, bool) {
	b, ok := t.Underlying().(*types.Basic)
	if !ok {
		return x3Int{}, false
	}
	switch b.Kind() {
	case types.Int, types.Int64:
		return x3Int{64, true}, true
	case types.Int8:
		return x3Int{8, true}, true
	case types.Int16:
		return x3Int{16, true}, true
	case types.Int32:
		return x3Int{32, true}, true
	case types.Uint, types.Uint64, types.Uintptr:
		return x3Int{64, false}, true
	case types.Uint8:
		return x3Int{8, false}, true
	case types.Uint16:
		return x3Int{16, false}, true
	case types.Uint32:
		return x3Int{32, false}, true
	}
	return x3Int{}, false
}

func (i x3Int) lo() constant.Value {
	if !i.signed {
		return constant.MakeInt64(0)
	}
	return constant.UnaryOp(token.SUB, constant.Shift(constant.MakeInt64(1), token.SHL, uint(i.bits-1)), 0)
}
func (i x3Int) hi() constant.Value {
	n := i.bits
	if i.signed {
		n--
	}
	return constant.BinaryOp(constant.Shift(constant.MakeInt64(1), token.SHL, uint(n)), token.SUB, constant.MakeInt64(1))
}
func (i x3Int) contains(j x3Int) bool {
	return constant.Compare(i.lo(), token.LEQ, j.lo()) && constant.Compare(j.hi(), token.LEQ, i.hi())
}
func (i x3Int) wrap(e string) string {
	if i.signed {
		return fmt.Sprintf("(wrap_s %d %s)", i.bits, e)
	}
	return fmt.Sprintf("(wrap_u %d %s)", i.bits, e)
}
func (i x3Int) name() string {
	if i.signed {
		return fmt.Sprintf("int%d", i.bits)
	}
	return fmt.Sprintf("uint%d", i.bits)
}

func x3IsBool(t types.Type) bool {
	b, ok := t.Underlying().(*types.Basic)
	return ok && b.Info()&types.IsBoolean != 0
}

func x3IsBytes(t types.Type) bool {
	s, ok := t.Underlying().(*types.Slice)
	if !ok {
		return false
	}
	b, ok := s.Elem().Underlying().(*types.Basic)
	return ok && b.Kind() == types.Uint8
}

func x3IsError(t types.Type) bool {
	return types.Identical(t, types.Universe.Lookup("error").Type())
}

func x3IsString(t types.Type) bool {
	b, ok := t.Underlying().(*types.Basic)
	return ok && b.Info()&types.IsString != 0
}

// [N]T with T an integer type: a list Z value of length N
func x3ArrayLen(t types.Type) (int64, bool) {
	a, ok := t.Underlying().(*types.Array)
	if !ok {
		return 0, false
	}
	if _, ok := x3IntOf(a.Elem()); !ok {
		return 0, false
	}
	return a.Len(), true
}

// [N]byte
func x3IsByteArray(t types.Type) bool {
	a, ok := t.Underlying().(*types.Array)
	if !ok {
		return false
	}
	b, ok := a.Elem().Underlying().(*types.Basic)
	return ok && b.Kind() == types.Uint8
}

// io.Writer / io.Reader
func x3IoKind(t types.Type) string {
	n, ok := t.(*types.Named)
	if !ok || n.Obj().Pkg() == nil || n.Obj().Pkg().Path() != "io" {
		return ""
	}
	switch n.Obj().Name() {
	case "Writer":
		return "writer"
	case "Reader":
		return "reader"
	}
	return ""
}

func (x *x3) coqType(t types.Type, pos token.Pos) string {
	if _, ok := x3IntOf(t); ok {
		return "Z"
	}
	if _, ok := x3ArrayLen(t); ok {
		return "list Z"
	}
	switch {
	case x3IsBool(t):
		return "bool"
	case x3IsBytes(t):
		return "slice"
	case x3IsString(t):
		return "list Z"
	case x3IsError(t):
		return "option g_error"
	case x3IoKind(t) == "writer":
		return "g_writer g_error"
	case x3IoKind(t) == "reader":
		return "g_reader g_error"
	}
	if n, ok := t.(*types.Named); ok {
		if _, ok := n.Underlying().(*types.Struct); ok {
			s := x.useStruct(n, pos)
			if s.obj && s.hasArr {
				x.fail(pos, "struct %s is a pointer-receiver object with heap-resident array fields; a VALUE of it (copy) is not supported", s.goName)
			}
			return "g3_" + s.name
		}
	}
	x.fail(pos, "type %s", t.String())
	return ""
}

// the Coq type of a field: a [N]byte field of a pointer-receiver object is a slice handle (array, 0, N, N)
func (x *x3) fieldCoqType(s *x3Struct, f x3Field) string {
	if s.obj && x3IsByteArray(f.typ) {
		return "slice"
	}
	return x.coqType(f.typ, token.NoPos)
}

func (x *x3) useStruct(n *types.Named, pos token.Pos) *x3Struct {
	key := n.Obj().Pkg().Name() + "." + n.Obj().Name()
	if s, ok := x.structs[key]; ok {
		return s
	}
	st := n.Underlying().(*types.Struct)
	s := &x3Struct{goName: key, name: n.Obj().Name(), obj: x.objType[key]}
	if n.Obj().Pkg().Path() != x.modpath {
		s.name = n.Obj().Pkg().Name() + "_" + n.Obj().Name()
	}
	x.structs[key] = s
	for i := 0; i < st.NumFields(); i++ {
		f := st.Field(i)
		if f.Embedded() {
			s.skipped = append(s.skipped, f.Name())
			continue
		}
		if !x.supportedType(f.Type(), pos) {
			// a field of a type outside the subset is left out of the record; any use of it is rejected
			s.skipped = append(s.skipped, f.Name())
			continue
		}
		if x3IsByteArray(f.Type()) {
			s.hasArr = true
		}
		s.fields = append(s.fields, x3Field{f.Name(), f.Type()})
	}
	x.stOrder = append(x.stOrder, key)
	return s
}

func (x *x3) zero(t types.Type, pos token.Pos) string {
	if _, ok := x3IntOf(t); ok {
		return "0"
	}
	if n, ok := x3ArrayLen(t); ok {
		if n > 64 {
			x.fail(pos, "zero value of an array of %d elements", n)
		}
		parts := make([]string, n)
		for i := range parts {
			parts[i] = "0"
		}
		return "[" + strings.Join(parts, "; ") + "]"
	}
	switch {
	case x3IsBool(t):
		return "false"
	case x3IsBytes(t):
		return "nil_slice"
	case x3IsString(t):
		return "[]"
	case x3IsError(t):
		return "None"
	}
	if n, ok := t.(*types.Named); ok {
		if _, ok := n.Underlying().(*types.Struct); ok {
			s := x.useStruct(n, pos)
			if s.obj && s.hasArr {
				x.fail(pos, "zero value of the object type %s (its array fields need heap cells)", s.goName)
			}
			parts := []string{"g3_mk_" + s.name}
			for _, f := range s.fields {
				parts = append(parts, x.zero(f.typ, pos))
			}
			return "(" + strings.Join(parts, " ") + ")"
		}
	}
	x.fail(pos, "zero value of type %s", t.String())
	return ""
}

func x3Lit(v constant.Value) string {
	if v.Kind() == constant.Bool {
		if constant.BoolVal(v) {
			return "true"
		}
		return "false"
	}
	s := v.ExactString()
	if strings.HasPrefix(s, "-") {
		return "(" + s + ")"
	}
	return s
}

func x3BytesLit(s string) string {
	var parts []string
	for i := 0; i < len(s); i++ {
		parts = append(parts, fmt.Sprint(s[i]))
	}
	return "[" + strings.Join(parts, "; ") + "]"
}

// ---------------------------------------------------------------- functions

type x3Func struct {
	key     string
	coqName string
	src     string
	decl    *ast.FuncDecl
	params  []*types.Var
	results []types.Type
	recv    *types.Var // pointer receiver, passed and returned as a value (state passing)
	recvT   *types.Named
	readers []*types.Var // io.Reader parameters: stateful, returned (updated) after the receiver
	body    string
	loops   int
	notes   []string // alias assumptions
	busy    bool
}

// per-function translation state
type x3Fx struct {
	x      *x3
	p      *x3Pkg
	f      *x3Func
	names  map[types.Object]string
	used   map[string]bool
	tmp    int
	pre    *[]string // effectful bindings of the expression being translated, in order
	named  []*types.Var
	depth  int      // number of enclosing loops
	loops  []*x3Loop // enclosing loops
	lazy   int      // > 0 inside an operand that is evaluated conditionally (rebinding is lost there)
}

type x3Loop struct {
	state []types.Object
	post  func() string // the post statement followed by Continue
	from  token.Pos
	to    token.Pos
}

func (x *x3) function(p *x3Pkg, d *ast.FuncDecl) *x3Func {
	dname := d.Name.Name
	if d.Recv != nil {
		t := d.Recv.List[0].Type
		if st, ok := t.(*ast.StarExpr); ok {
			t = st.X
		}
		dname = t.(*ast.Ident).Name + "." + dname
	}
	key := p.tpkg.Name() + "." + dname
	if f, ok := x.funcs[key]; ok {
		if f.busy {
			x.fail(d.Pos(), "recursive function %s", key)
		}
		return f
	}
	if p.dup[dname] {
		x.fail(d.Pos(), "function %s is declared more than once (build-tagged files?)", key)
	}
	if d.Body == nil {
		x.fail(d.Pos(), "function %s has no body", key)
	}
	if d.Type.TypeParams != nil {
		x.fail(d.Pos(), "generic function")
	}
	x.requireClean(p, d.Pos(), d.End(), "function "+key)
	obj, _ := p.info.Defs[d.Name].(*types.Func)
	if obj == nil {
		x.fail(d.Pos(), "function %s has no type information", key)
	}
	sig := obj.Type().(*types.Signature)
	if sig.Variadic() {
		x.fail(d.Pos(), "variadic function")
	}
	coq := "g3_"
	if p.rel != "" {
		coq += p.tpkg.Name() + "_"
	}
	f := &x3Func{key: key, coqName: coq + strings.ReplaceAll(dname, ".", "_"), decl: d, busy: true,
		src: filepath.Join(p.rel, filepath.Base(x.fset.Position(d.Pos()).Filename))}
	x.funcs[key] = f
	fx := &x3Fx{x: x, p: p, f: f, names: map[types.Object]string{}, used: map[string]bool{}}
	if rv := sig.Recv(); rv != nil {
		pt, ok := rv.Type().(*types.Pointer)
		if !ok {
			x.fail(d.Pos(), "value receiver (only pointer receivers are translated)")
		}
		nt, ok := pt.Elem().(*types.Named)
		if !ok {
			x.fail(d.Pos(), "receiver type %s", rv.Type().String())
		}
		if _, ok := nt.Underlying().(*types.Struct); !ok {
			x.fail(d.Pos(), "receiver type %s is not a pointer to a struct", rv.Type().String())
		}
		if rv.Name() == "" || rv.Name() == "_" {
			x.fail(d.Pos(), "unnamed receiver")
		}
		skey := nt.Obj().Pkg().Name() + "." + nt.Obj().Name()
		if old, ok := x.structs[skey]; ok && !old.obj && old.hasArr {
			x.fail(d.Pos(), "struct %s is used both as a value (arrays are values) and as a pointer receiver (arrays live in the heap)", skey)
		}
		x.objType[skey] = true
		if old, ok := x.structs[skey]; ok {
			old.obj = true
		}
		x.useStruct(nt, d.Pos())
		f.recv, f.recvT = rv, nt
		fx.name(rv)
		// the receiver may only be used as  u.field  or  u.method(args)  (never copied, compared, passed
		// on or reassigned)
		var calls = map[*ast.SelectorExpr]bool{}
		ast.Inspect(d.Body, func(n ast.Node) bool {
			if ce, ok := n.(*ast.CallExpr); ok {
				if se, ok := ce.Fun.(*ast.SelectorExpr); ok {
					calls[se] = true
				}
			}
			if se, ok := n.(*ast.SelectorExpr); ok {
				if id, ok := se.X.(*ast.Ident); ok && p.info.Uses[id] == rv {
					sel := p.info.Selections[se]
					if sel == nil || !(sel.Kind() == types.FieldVal || sel.Kind() == types.MethodVal && calls[se]) {
						x.fail(se.Pos(), "use of the receiver other than as %s.field or %s.method(...)", rv.Name(), rv.Name())
					}
					return false
				}
			}
			if id, ok := n.(*ast.Ident); ok && p.info.Uses[id] == rv {
				x.fail(id.Pos(), "use of the receiver other than as %s.field or %s.method(...)", rv.Name(), rv.Name())
			}
			return true
		})
	}
	for i := 0; i < sig.Params().Len(); i++ {
		v := sig.Params().At(i)
				x.coqType(v.Type(), v.Pos())
		f.params = append(f.params, v)
		if x3IoKind(v.Type()) == "reader" && v.Name() != "" && v.Name() != "_" {
			f.readers = append(f.readers, v)
		}
		if v.Name() == "" || v.Name() == "_" {
			fx.names[v] = fmt.Sprintf("v_unused%d", i+1)
			fx.used[fx.names[v]] = true
		} else {
			fx.name(v)
		}
	}
	for i := 0; i < sig.Results().Len(); i++ {
		v := sig.Results().At(i)
		x.coqType(v.Type(), d.Type.Results.Pos())
		f.results = append(f.results, v.Type())
		if v.Name() != "" && v.Name() != "_" {
			fx.named = append(fx.named, v)
			fx.name(v)
		} else if v.Name() == "_" {
			x.fail(d.Type.Results.Pos(), "blank named result")
		}
	}
	if len(fx.named) != 0 && len(fx.named) != len(f.results) {
		x.fail(d.Type.Results.Pos(), "partly named results")
	}
	var pre []string
	fx.pre = &pre
	body := fx.seq(d.Body.List, func() string {
		if len(f.results) > 0 {
			x.fail(d.Body.Rbrace, "control reaches the end of the function without return")
		}
		return fx.ret(nil, d.Body.Rbrace)
	})
	var b strings.Builder
	if f.loops > 0 {
		var ls []string
		for _, v := range f.params {
			if x3IsBytes(v.Type()) {
				ls = append(ls, "Z.to_nat (sl_len "+fx.names[v]+")")
			}
		}
		ls = append(ls, "65")
		b.WriteString("let fuel := (" + strings.Join(ls, " + ") + ")%nat in\n")
	}
	for _, v := range fx.named {
		b.WriteString("let " + fx.name(v) + " : " + x.coqType(v.Type(), v.Pos()) + " := " + x.zero(v.Type(), v.Pos()) + " in\n")
	}
	b.WriteString(body)
	f.body = b.String()
	f.busy = false
	x.order = append(x.order, f)
	return f
}

func (fx *x3Fx) name(o types.Object) string {
	if n, ok := fx.names[o]; ok {
		return n
	}
	n := "v_" + o.Name()
	for i := 2; fx.used[n]; i++ {
		n = fmt.Sprintf("v_%s_%d", o.Name(), i)
	}
	fx.used[n] = true
	fx.names[o] = n
	return n
}

func (fx *x3Fx) fresh() string {
	fx.tmp++
	return fmt.Sprintf("t%d", fx.tmp)
}

// the result tuple of the function: declared results, then the stored-into parameters
func (fx *x3Fx) retTuple(vals []string) string {
	all := append([]string{}, vals...)
	if fx.f.recv != nil {
		all = append(all, fx.names[fx.f.recv])
	}
	for _, r := range fx.f.readers {
		all = append(all, fx.names[r])
	}
	switch len(all) {
	case 0:
		return "tt"
	case 1:
		return all[0]
	}
	return "(" + strings.Join(all, ", ") + ")"
}

func (fx *x3Fx) retType() string {
	var ts []string
	for _, t := range fx.f.results {
		ts = append(ts, fx.x.coqType(t, fx.f.decl.Pos()))
	}
	if fx.f.recv != nil {
		ts = append(ts, "g3_"+fx.x.structs[fx.f.recvT.Obj().Pkg().Name()+"."+fx.f.recvT.Obj().Name()].name)
	}
	for range fx.f.readers {
		ts = append(ts, "g_reader g_error")
	}
	switch len(ts) {
	case 0:
		return "unit"
	case 1:
		return ts[0]
	}
	return "(" + strings.Join(ts, " * ") + ")"
}

// `return vals` at the current loop depth
func (fx *x3Fx) ret(vals []string, pos token.Pos) string {
	if vals == nil && len(fx.f.results) > 0 {
		for _, v := range fx.named {
			vals = append(vals, fx.name(v))
		}
	}
	if fx.depth > 0 {
		return "ret (Return " + fx.retTuple(vals) + ")"
	}
	return "ret " + fx.retTuple(vals)
}

// ---------------------------------------------------------------- expressions

func x3Indent(s string) string {
	return "  " + strings.ReplaceAll(s, "\n", "\n  ")
}

// run fn with a fresh prelude; returns the bindings it produced and its result
func (fx *x3Fx) capture(fn func() string) ([]string, string) {
	saved := fx.pre
	var pre []string
	fx.pre = &pre
	defer func() { fx.pre = saved }()
	r := fn()
	return pre, r
}

func x3Join(pre []string, body string) string {
	if len(pre) == 0 {
		return body
	}
	return strings.Join(pre, "\n") + "\n" + body
}

func (fx *x3Fx) bindTo(name, resTerm string) {
	*fx.pre = append(*fx.pre, name+" <- "+resTerm+";;")
}

func (fx *x3Fx) typeOf(e ast.Expr) types.Type {
	tv, ok := fx.p.info.Types[e]
	if !ok || tv.Type == nil {
		fx.x.fail(e.Pos(), "expression without type information")
	}
	if b, ok := tv.Type.(*types.Basic); ok && b.Kind() == types.Invalid {
		fx.x.fail(e.Pos(), "expression of invalid type")
	}
	return tv.Type
}

// expr returns a pure Coq term for e; the checked / effectful parts go to fx.pre
func (fx *x3Fx) expr(e ast.Expr) string {
	x := fx.x
	info := fx.p.info
	if p, ok := e.(*ast.ParenExpr); ok {
		return fx.expr(p.X)
	}
	tv, ok := info.Types[e]
	if ok && tv.Value != nil {
		switch tv.Value.Kind() {
		case constant.Int:
			t := tv.Type
			if b, ok := t.(*types.Basic); ok && b.Info()&types.IsUntyped != 0 {
				t = types.Default(t)
			}
			it, ok := x3IntOf(t)
			if !ok {
				x.fail(e.Pos(), "integer constant of type %s", t.String())
			}
			if !(constant.Compare(it.lo(), token.LEQ, tv.Value) && constant.Compare(tv.Value, token.LEQ, it.hi())) {
				x.fail(e.Pos(), "constant %s overflows %s", tv.Value.ExactString(), t.String())
			}
			if id, ok := e.(*ast.Ident); ok {
				return fmt.Sprintf("(%s (* %s *))", x3Lit(tv.Value), id.Name)
			}
			return x3Lit(tv.Value)
		case constant.Bool:
			return x3Lit(tv.Value)
		case constant.String:
			if x3IsString(tv.Type) {
				return x3BytesLit(constant.StringVal(tv.Value))
			}
		}
		x.fail(e.Pos(), "constant of kind %s", tv.Value.Kind())
	}
	switch e := e.(type) {
	case *ast.Ident:
		obj := info.Uses[e]
		switch o := obj.(type) {
		case *types.Nil:
			t := fx.typeOf(e)
			switch {
			case x3IsBytes(t):
				return "nil_slice"
			case x3IsError(t):
				return "None"
			}
			x.fail(e.Pos(), "nil of type %s", t.String())
		case *types.Var:
			if o.Parent() == fx.p.tpkg.Scope() {
				return fx.pkgVar(o, e.Pos())
			}
			if o.IsField() {
				x.fail(e.Pos(), "field %s used as a variable", o.Name())
			}
			if _, ok := fx.names[o]; !ok {
				x.fail(e.Pos(), "variable %s is not a parameter or local of this function", o.Name())
			}
			if o == fx.f.recv {
				x.fail(e.Pos(), "use of the receiver other than as %s.field", o.Name())
			}
			x.coqType(o.Type(), e.Pos())
			return fx.names[o]
		}
		x.fail(e.Pos(), "identifier %s", e.Name)
	case *ast.SelectorExpr:
		if id, ok := e.X.(*ast.Ident); ok {
			if _, isPkg := info.Uses[id].(*types.PkgName); isPkg {
				x.fail(e.Pos(), "reference to %s.%s outside a call", id.Name, e.Sel.Name)
			}
		}
		sel := info.Selections[e]
		if sel == nil || sel.Kind() != types.FieldVal || len(sel.Index()) != 1 {
			x.fail(e.Pos(), "selector %s", e.Sel.Name)
		}
		if sel.Indirect() {
			// only  u.field  on the pointer receiver
			id, ok := e.X.(*ast.Ident)
			if !ok || fx.f.recv == nil || info.Uses[id] != fx.f.recv {
				x.fail(e.Pos(), "selector %s through a pointer that is not the method receiver", e.Sel.Name)
			}
			if h, _, isHeap := fx.heapArr(e); isHeap {
				// the array as a VALUE: a copy of the cell as it is now
				t := fx.fresh()
				fx.bindTo(t, "m_bytes "+h)
				return t
			}
			s := x.useStruct(fx.f.recvT, e.Pos())
			if _, has := s.field(e.Sel.Name); !has {
				x.fail(e.Pos(), "field %s of %s has a type outside the subset", e.Sel.Name, s.goName)
			}
			return fmt.Sprintf("(g3_%s_%s %s)", s.name, e.Sel.Name, fx.names[fx.f.recv])
		}
		n, ok := sel.Recv().(*types.Named)
		if !ok {
			x.fail(e.Pos(), "selector on a value of type %s", sel.Recv().String())
		}
		s := x.useStruct(n, e.Pos())
		if _, has := s.field(e.Sel.Name); !has {
			x.fail(e.Pos(), "field %s of %s has a type outside the subset", e.Sel.Name, s.goName)
		}
		return fmt.Sprintf("(g3_%s_%s %s)", s.name, e.Sel.Name, fx.expr(e.X))
	case *ast.UnaryExpr:
		return fx.unary(e)
	case *ast.BinaryExpr:
		return fx.binary(e)
	case *ast.CallExpr:
		rs := fx.call(e, 1)
		return rs[0]
	case *ast.IndexExpr:
		if h, _, isHeap := fx.heapArr(e.X); isHeap {
			i := fx.intExpr(e.Index)
			t := fx.fresh()
			fx.bindTo(t, fmt.Sprintf("m_index %s %s", h, i))
			return t
		}
		tx := fx.typeOf(e.X)
		_, isArr := x3ArrayLen(tx)
		if !x3IsBytes(tx) && !isArr && !x3IsString(tx) {
			x.fail(e.Pos(), "index into a value of type %s", tx.String())
		}
		b := fx.expr(e.X)
		i := fx.intExpr(e.Index)
		t := fx.fresh()
		if x3IsBytes(tx) {
			fx.bindTo(t, fmt.Sprintf("m_index %s %s", b, i))
		} else {
			fx.bindTo(t, fmt.Sprintf("lift (go_index %s %s)", b, i))
		}
		return t
	case *ast.SliceExpr:
		if e.Slice3 {
			x.fail(e.Pos(), "3-index slice expression")
		}
		if h, n, isHeap := fx.heapArr(e.X); isHeap {
			// a slice of a heap-resident array field: shares the cell (bounds against the array length)
			lo, hi := "0", fmt.Sprintf("(%d (* len of the array *))", n)
			if e.Low != nil {
				lo = fx.intExpr(e.Low)
			}
			if e.High != nil {
				hi = fx.intExpr(e.High)
			}
			t := fx.fresh()
			fx.bindTo(t, fmt.Sprintf("m_slice %s %s %s", h, lo, hi))
			return t
		}
		tx := fx.typeOf(e.X)
		if x3IsString(tx) {
			return fx.valueSlice(e)
		}
		if _, isArr := x3ArrayLen(tx); isArr {
			x.fail(e.Pos(), "slice of an array outside a read-only library argument (copy source, binary.X.UintNN): the slice would alias the array variable")
		}
		if !x3IsBytes(tx) {
			x.fail(e.Pos(), "slice of a value of type %s", tx.String())
		}
		b := fx.expr(e.X)
		lo, hi := "0", "(sl_len "+b+")"
		if e.Low != nil {
			lo = fx.intExpr(e.Low)
		}
		if e.High != nil {
			hi = fx.intExpr(e.High)
		}
		t := fx.fresh()
		fx.bindTo(t, fmt.Sprintf("m_slice %s %s %s", b, lo, hi))
		return t
	case *ast.CompositeLit:
		n, ok := x3ArrayLen(fx.typeOf(e))
		if !ok {
			x.fail(e.Pos(), "composite literal of type %s", fx.typeOf(e).String())
		}
		return fx.x.arrayLit(fx.p, e, n)
	}
	x.fail(e.Pos(), "expression %T", e)
	return ""
}

// e = recv.f with f a [N]byte field of the pointer-receiver object: the slice handle of its heap cell
func (fx *x3Fx) heapArr(e ast.Expr) (handle string, n int64, ok bool) {
	for {
		p, isP := e.(*ast.ParenExpr)
		if !isP {
			break
		}
		e = p.X
	}
	se, isSel := e.(*ast.SelectorExpr)
	if !isSel || fx.f.recv == nil {
		return "", 0, false
	}
	id, isId := se.X.(*ast.Ident)
	if !isId || fx.p.info.Uses[id] != fx.f.recv {
		return "", 0, false
	}
	sel := fx.p.info.Selections[se]
	if sel == nil || sel.Kind() != types.FieldVal || len(sel.Index()) != 1 || !x3IsByteArray(sel.Type()) {
		return "", 0, false
	}
	s := fx.x.useStruct(fx.f.recvT, e.Pos())
	if !s.obj {
		return "", 0, false
	}
	if _, has := s.field(se.Sel.Name); !has {
		fx.x.fail(e.Pos(), "field %s of %s has a type outside the subset", se.Sel.Name, s.goName)
	}
	return fmt.Sprintf("(g3_%s_%s %s)", s.name, se.Sel.Name, fx.names[fx.f.recv]), sel.Type().Underlying().(*types.Array).Len(), true
}

// s[i:j] of a string or an array as a VALUE (list Z)
func (fx *x3Fx) valueSlice(e *ast.SliceExpr) string {
	b := fx.expr(e.X)
	lo, hi := "0", "(go_len "+b+")"
	if e.Low != nil {
		lo = fx.intExpr(e.Low)
	}
	if e.High != nil {
		hi = fx.intExpr(e.High)
	}
	t := fx.fresh()
	fx.bindTo(t, fmt.Sprintf("lift (go_slice %s %s %s)", b, lo, hi))
	return t
}

// an argument that the callee only READS: a []byte (slice term, isList false) or a string /
// a slice of an array (list Z value, isList true)
func (fx *x3Fx) readOnly(e ast.Expr) (term string, isList bool) {
	for {
		p, ok := e.(*ast.ParenExpr)
		if !ok {
			break
		}
		e = p.X
	}
	if x3IsString(fx.typeOf(e)) {
		return fx.expr(e), true
	}
	if se, ok := e.(*ast.SliceExpr); ok && !se.Slice3 {
		if _, _, isHeap := fx.heapArr(se.X); isHeap {
			return fx.expr(e), false
		}
		if _, isArr := x3ArrayLen(fx.typeOf(se.X)); isArr {
			return fx.valueSlice(se), true
		}
	}
	if !x3IsBytes(fx.typeOf(e)) {
		fx.x.fail(e.Pos(), "argument of type %s", fx.typeOf(e).String())
	}
	return fx.expr(e), false
}

// an array composite literal with constant elements, as a list
func (x *x3) arrayLit(p *x3Pkg, e *ast.CompositeLit, n int64) string {
	var parts []string
	for _, el := range e.Elts {
		if _, ok := el.(*ast.KeyValueExpr); ok {
			x.fail(el.Pos(), "keyed element in an array literal")
		}
		tv := p.info.Types[el]
		if tv.Value == nil || tv.Value.Kind() != constant.Int {
			x.fail(el.Pos(), "array literal element that is not an integer constant")
		}
		parts = append(parts, x3Lit(tv.Value))
	}
	if int64(len(parts)) != n {
		x.fail(e.Pos(), "array literal with %d elements for an array of %d", len(parts), n)
	}
	return "[" + strings.Join(parts, "; ") + "]"
}

// e in a context that wants type t (gives `nil` its type)
func (fx *x3Fx) exprT(e ast.Expr, t types.Type) string {
	for {
		p, ok := e.(*ast.ParenExpr)
		if !ok {
			break
		}
		e = p.X
	}
	if id, ok := e.(*ast.Ident); ok {
		if _, isNil := fx.p.info.Uses[id].(*types.Nil); isNil && t != nil {
			switch {
			case x3IsBytes(t):
				return "nil_slice"
			case x3IsError(t):
				return "None"
			}
			fx.x.fail(e.Pos(), "nil of type %s", t.String())
		}
	}
	return fx.expr(e)
}

// an index / bound: any integer type (Go converts the value, never wraps it)
func (fx *x3Fx) intExpr(e ast.Expr) string {
	if _, ok := x3IntOf(fx.typeOf(e)); !ok {
		if b, ok := fx.typeOf(e).(*types.Basic); !ok || b.Info()&types.IsInteger == 0 {
			fx.x.fail(e.Pos(), "index of type %s", fx.typeOf(e).String())
		}
	}
	return fx.expr(e)
}

func (fx *x3Fx) pkgVar(o *types.Var, pos token.Pos) string {
	x := fx.x
	name := o.Name()
	if strings.HasPrefix(name, "Err") {
		cn := "E_" + name
		if fx.p.rel != "" {
			cn = "E_" + fx.p.tpkg.Name() + "_" + name
		}
		x.gerrs[cn] = true
		return "(Some " + cn + ")"
	}
	// var v = []byte("literal"), never written
	for _, f := range fx.p.files {
		for _, d := range f.Decls {
			gd, ok := d.(*ast.GenDecl)
			if !ok || gd.Tok != token.VAR {
				continue
			}
			for _, s := range gd.Specs {
				vs := s.(*ast.ValueSpec)
				for j, nm := range vs.Names {
					if fx.p.info.Defs[nm] != o {
						continue
					}
					if len(vs.Values) != len(vs.Names) {
						x.fail(pos, "package variable %s without a value of its own", name)
					}
					x.requireClean(fx.p, vs.Pos(), vs.End(), "declaration of "+name)
					lit, ok := vs.Values[j].(*ast.CompositeLit)
					n, isArr := x3ArrayLen(o.Type())
					if !ok || !isArr {
						x.fail(pos, "package variable %s (only Err… values and arrays of integer constants are read)", name)
					}
					if w := fx.writtenTo(o); w.IsValid() {
						x.fail(w, "package variable %s is assigned, stored into, sliced or has its address taken; it cannot be read as a constant", name)
					}
					cn := "g3_pv_"
					if fx.p.rel != "" {
						cn += fx.p.tpkg.Name() + "_"
					}
					cn += name
					if _, ok := x.pkgvars[cn]; !ok {
						x.pkgvars[cn] = x.arrayLit(fx.p, lit, n)
						x.pvOrder = append(x.pvOrder, cn)
					}
					return cn
				}
			}
		}
	}
	x.fail(pos, "package variable %s: declaration not found", name)
	return ""
}

func (fx *x3Fx) writtenTo(o types.Object) token.Pos {
	var found token.Pos
	var base func(e ast.Expr) bool
	base = func(e ast.Expr) bool {
		switch t := e.(type) {
		case *ast.ParenExpr:
			return base(t.X)
		case *ast.IndexExpr:
			return base(t.X)
		case *ast.SliceExpr:
			return base(t.X)
		case *ast.Ident:
			return fx.p.info.Uses[t] == o
		}
		return false
	}
	for _, f := range fx.p.files {
		// the verification's own read-only hooks (DESIGN §7) copy the tables out with a[:]
		if strings.HasPrefix(filepath.Base(fx.x.fset.Position(f.Pos()).Filename), "verif_export") {
			continue
		}
		ast.Inspect(f, func(n ast.Node) bool {
			switch n := n.(type) {
			case *ast.AssignStmt:
				if n.Tok != token.DEFINE {
					for _, l := range n.Lhs {
						if base(l) && !found.IsValid() {
							found = l.Pos()
						}
					}
				}
			case *ast.IncDecStmt:
				if base(n.X) && !found.IsValid() {
					found = n.Pos()
				}
			case *ast.UnaryExpr:
				if n.Op == token.AND && base(n.X) && !found.IsValid() {
					found = n.Pos()
				}
			case *ast.SliceExpr:
				// a slice of the array is a writable alias
				if base(n.X) && !found.IsValid() {
					found = n.Pos()
				}
			}
			return true
		})
	}
	return found
}

func (fx *x3Fx) unary(e *ast.UnaryExpr) string {
	x := fx.x
	v := fx.expr(e.X)
	t := fx.typeOf(e)
	switch e.Op {
	case token.NOT:
		if !x3IsBool(t) {
			x.fail(e.Pos(), "! on %s", t.String())
		}
		return "(negb " + v + ")"
	case token.ADD, token.SUB, token.XOR:
		it, ok := x3IntOf(t)
		if !ok {
			x.fail(e.Pos(), "%s on %s", e.Op, t.String())
		}
		switch e.Op {
		case token.ADD:
			return v
		case token.SUB:
			return it.wrap("(- " + v + ")")
		default:
			if it.signed {
				return "(Z.lnot " + v + ")"
			}
			return it.wrap("(Z.lnot " + v + ")")
		}
	}
	x.fail(e.Pos(), "unary operator %s", e.Op)
	return ""
}

// a op b on values of integer type it
func (fx *x3Fx) arith(op token.Token, a, b string, it x3Int, bconst constant.Value, bt types.Type, pos token.Pos) string {
	x := fx.x
	switch op {
	case token.ADD:
		return it.wrap("(" + a + " + " + b + ")")
	case token.SUB:
		return it.wrap("(" + a + " - " + b + ")")
	case token.MUL:
		return it.wrap("(" + a + " * " + b + ")")
	case token.QUO, token.REM:
		if bconst == nil || constant.Sign(bconst) == 0 {
			x.fail(pos, "%s by a non-constant or zero divisor (may panic)", op)
		}
		if op == token.QUO {
			return it.wrap("(Z.quot " + a + " " + b + ")")
		}
		return "(Z.rem " + a + " " + b + ")"
	case token.AND:
		return "(Z.land " + a + " " + b + ")"
	case token.OR:
		return "(Z.lor " + a + " " + b + ")"
	case token.XOR:
		return "(Z.lxor " + a + " " + b + ")"
	case token.AND_NOT:
		return "(Z.ldiff " + a + " " + b + ")"
	case token.SHL, token.SHR:
		if bconst != nil {
			if constant.Sign(bconst) < 0 || !constant.Compare(bconst, token.LSS, constant.MakeInt64(1024)) {
				x.fail(pos, "shift count %s", bconst.ExactString())
			}
		} else if bi, ok := x3IntOf(bt); !ok || bi.signed {
			x.fail(pos, "non-constant shift count of a signed type (would panic when negative)")
		}
		if op == token.SHR {
			return "(Z.shiftr " + a + " " + b + ")"
		}
		return it.wrap("(Z.shiftl " + a + " " + b + ")")
	}
	x.fail(pos, "binary operator %s", op)
	return ""
}

func (fx *x3Fx) binary(e *ast.BinaryExpr) string {
	x := fx.x
	switch e.Op {
	case token.LAND, token.LOR:
		a := fx.expr(e.X)
		fx.lazy++
		pre, b := fx.capture(func() string { return fx.expr(e.Y) })
		fx.lazy--
		if len(pre) == 0 {
			if e.Op == token.LAND {
				return "(" + a + " && " + b + ")"
			}
			return "(" + a + " || " + b + ")"
		}
		// the right operand is evaluated only when needed
		t := fx.fresh()
		rhs := "(\n" + x3Indent(x3Join(pre, "ret "+b)) + ")"
		if e.Op == token.LAND {
			fx.bindTo(t, "(if "+a+" then "+rhs+" else ret false)")
		} else {
			fx.bindTo(t, "(if "+a+" then ret true else "+rhs+")")
		}
		return t
	case token.EQL, token.NEQ, token.LSS, token.LEQ, token.GTR, token.GEQ:
		ta, tb := fx.typeOf(e.X), fx.typeOf(e.Y)
		// err == nil, err != nil
		if _, isNil := tb.(*types.Basic); isNil && tb.(*types.Basic).Kind() == types.UntypedNil && x3IsError(ta) {
			if e.Op != token.EQL && e.Op != token.NEQ {
				x.fail(e.Pos(), "ordering of errors")
			}
			a := fx.expr(e.X)
			if e.Op == token.NEQ {
				return "(go_is_err " + a + ")"
			}
			return "(negb (go_is_err " + a + "))"
		}
		a, b := fx.expr(e.X), fx.expr(e.Y)
		if x3IsBool(ta) && x3IsBool(tb) {
			switch e.Op {
			case token.EQL:
				return "(Bool.eqb " + a + " " + b + ")"
			case token.NEQ:
				return "(negb (Bool.eqb " + a + " " + b + "))"
			}
			x.fail(e.Pos(), "ordering of booleans")
		}
		_, oka := x3IntOf(ta)
		_, okb := x3IntOf(tb)
		if !oka || !okb {
			x.fail(e.Pos(), "comparison of %s and %s", ta.String(), tb.String())
		}
		switch e.Op {
		case token.EQL:
			return "(" + a + " =? " + b + ")"
		case token.NEQ:
			return "(negb (" + a + " =? " + b + "))"
		case token.LSS:
			return "(" + a + " <? " + b + ")"
		case token.LEQ:
			return "(" + a + " <=? " + b + ")"
		case token.GTR:
			return "(" + b + " <? " + a + ")"
		default:
			return "(" + b + " <=? " + a + ")"
		}
	}
	it, ok := x3IntOf(fx.typeOf(e))
	if !ok {
		x.fail(e.Pos(), "operator %s on %s", e.Op, fx.typeOf(e).String())
	}
	a, b := fx.expr(e.X), fx.expr(e.Y)
	return fx.arith(e.Op, a, b, it, fx.p.info.Types[e.Y].Value, fx.typeOf(e.Y), e.Pos())
}

// the translated callee of a call of a package function (nil otherwise), and the arguments
func (fx *x3Fx) calleeOf(e *ast.CallExpr) (*x3Func, []ast.Expr) {
	id, ok := e.Fun.(*ast.Ident)
	if !ok {
		return nil, nil
	}
	fo, ok := fx.p.info.Uses[id].(*types.Func)
	if !ok || fo.Pkg() != fx.p.tpkg {
		return nil, nil
	}
	d, ok := fx.p.funcs[fo.Name()]
	if !ok {
		return nil, nil
	}
	return fx.x.function(fx.p, d), e.Args
}

// call translates a call whose `want` results are used (0 = call statement); it returns the
// names / terms of the results
func (fx *x3Fx) call(e *ast.CallExpr, want int) []string {
	x := fx.x
	info := fx.p.info
	if e.Ellipsis.IsValid() {
		x.fail(e.Pos(), "variadic call f(xs...)")
	}
	one := func(s string) []string {
		if want > 1 {
			x.fail(e.Pos(), "call used as %d values", want)
		}
		return []string{s}
	}
	// an effectful library call with one result
	eff := func(term string) []string {
		if want > 1 {
			x.fail(e.Pos(), "call used as %d values", want)
		}
		t := "_"
		if want == 1 {
			t = fx.fresh()
		}
		fx.bindTo(t, term)
		return []string{t}
	}
	// conversion
	if tv, ok := info.Types[e.Fun]; ok && tv.IsType() {
		if len(e.Args) != 1 {
			x.fail(e.Pos(), "conversion with %d arguments", len(e.Args))
		}
		if want != 1 {
			x.fail(e.Pos(), "conversion used as %d values", want)
		}
		to := tv.Type
		from := fx.typeOf(e.Args[0])
		if ti, ok := x3IntOf(to); ok {
			fi, ok := x3IntOf(from)
			if !ok {
				x.fail(e.Pos(), "conversion from %s to %s", from.String(), to.String())
			}
			v := fx.expr(e.Args[0])
			if ti.contains(fi) {
				return one(v)
			}
			return one(ti.wrap(v))
		}
		if x3IsBool(to) && x3IsBool(from) {
			return one(fx.expr(e.Args[0]))
		}
		if x3IsBytes(to) && x3IsBytes(from) {
			return one(fx.expr(e.Args[0]))
		}
		if x3IsBytes(to) && x3IsString(from) {
			// []byte(str): a new array
			return eff("m_of_list " + fx.expr(e.Args[0]))
		}
		if x3IsString(to) && x3IsBytes(from) {
			// string(b): a copy of the bytes as they are now
			return eff("m_bytes " + fx.expr(e.Args[0]))
		}
		if x3IsString(to) && x3IsString(from) {
			return one(fx.expr(e.Args[0]))
		}
		x.fail(e.Pos(), "conversion from %s to %s", from.String(), to.String())
	}
	switch fe := e.Fun.(type) {
	case *ast.Ident:
		if b, ok := info.Uses[fe].(*types.Builtin); ok {
			switch b.Name() {
			case "len", "cap":
				if len(e.Args) == 1 {
					t := fx.typeOf(e.Args[0])
					if x3IsBytes(t) {
						return one("(sl_" + b.Name() + " " + fx.expr(e.Args[0]) + ")")
					}
					if x3IsString(t) && b.Name() == "len" {
						return one("(go_len " + fx.expr(e.Args[0]) + ")")
					}
				}
			case "make":
				if len(e.Args) == 2 && info.Types[e.Args[0]].IsType() && x3IsBytes(info.Types[e.Args[0]].Type) {
					return eff("m_make " + fx.intExpr(e.Args[1]))
				}
				if len(e.Args) == 3 && info.Types[e.Args[0]].IsType() && x3IsBytes(info.Types[e.Args[0]].Type) {
					n := fx.intExpr(e.Args[1])
					return eff("m_make_cap " + n + " " + fx.intExpr(e.Args[2]))
				}
			case "copy":
				if len(e.Args) == 2 && x3IsBytes(fx.typeOf(e.Args[0])) {
					if r, ok := fx.copyIntoArrayValue(e, want); ok {
						return r
					}
					dst := fx.expr(e.Args[0])
					srcT, isList := fx.readOnly(e.Args[1])
					if isList {
						return eff("m_copy_list " + dst + " " + srcT)
					}
					return eff("m_copy " + dst + " " + srcT)
				}
			}
			x.fail(e.Pos(), "builtin %s in this form (supported: len/cap of a []byte, len of a string, make([]byte, n), copy into a []byte)", b.Name())
		}
		if fo, ok := info.Uses[fe].(*types.Func); ok && fo.Pkg() == fx.p.tpkg && fo.Name() == "btsToString" && fx.p.rel == "" && len(e.Args) == 1 {
			// util_unsafe.go: an unsafe cast of the slice header; util_purego.go: string(bts).
			// Read as string(bts): the bytes as they are now (TRUSTED: the caller must not change
			// the bytes while the string is in use — the documented contract of the *Unsafe API).
			return eff("m_bytes " + fx.expr(e.Args[0]) + " (* btsToString: unsafe view read as a copy *)")
		}
		g, _ := fx.calleeOf(e)
		if g == nil {
			x.fail(e.Pos(), "call of %s (not a function of the package)", fe.Name)
		}
		if g.recv != nil {
			x.fail(e.Pos(), "call of method %s", g.key)
		}
		if len(g.readers) > 0 {
			x.fail(e.Pos(), "call of %s, which has io.Reader parameters", g.key)
		}
		if len(g.params) != len(e.Args) {
			x.fail(e.Pos(), "call with %d arguments to a function of %d parameters", len(e.Args), len(g.params))
		}
		args := []string{g.coqName}
		for i, a := range e.Args {
			args = append(args, fx.exprT(a, g.params[i].Type()))
		}
		if want != 0 && want != len(g.results) {
			x.fail(e.Pos(), "call of %s used as %d values", g.key, want)
		}
		var names, pat []string
		for range g.results {
			t := fx.fresh()
			names = append(names, t)
			pat = append(pat, t)
		}
		if want == 0 {
			for i := range pat {
				pat[i] = "_"
			}
		}
		lhs := "_"
		switch len(pat) {
		case 0:
		case 1:
			lhs = pat[0]
		default:
			lhs = "'(" + strings.Join(pat, ", ") + ")"
		}
		fx.bindTo(lhs, strings.Join(args, " "))
		return names
	case *ast.SelectorExpr:
		// recv.method(args): the callee takes the receiver record and returns the updated one
		if id, ok := fe.X.(*ast.Ident); ok && fx.f.recv != nil && info.Uses[id] == fx.f.recv {
			sel := info.Selections[fe]
			if sel == nil || sel.Kind() != types.MethodVal {
				x.fail(e.Pos(), "call of a field of the receiver")
			}
			d, ok := fx.p.funcs[fx.f.recvT.Obj().Name()+"."+fe.Sel.Name]
			if !ok {
				x.fail(e.Pos(), "method %s of %s is not declared in the package", fe.Sel.Name, fx.f.recvT.Obj().Name())
			}
			if fx.lazy > 0 {
				x.fail(e.Pos(), "method call on the receiver inside a conditionally evaluated operand")
			}
			g := x.function(fx.p, d)
			if g.recv == nil || g.recvT != fx.f.recvT {
				x.fail(e.Pos(), "method %s does not have the same pointer receiver type", g.key)
			}
			if len(g.readers) > 0 {
				x.fail(e.Pos(), "call of %s, which has io.Reader parameters", g.key)
			}
			if len(g.params) != len(e.Args) {
				x.fail(e.Pos(), "call with %d arguments to a method of %d parameters", len(e.Args), len(g.params))
			}
			args := []string{g.coqName}
			recvName := fx.names[fx.f.recv]
			var argTerms []string
			for i, a := range e.Args {
				argTerms = append(argTerms, fx.exprT(a, g.params[i].Type()))
			}
			args = append(args, recvName)
			args = append(args, argTerms...)
			if want != 0 && want != len(g.results) {
				x.fail(e.Pos(), "call of %s used as %d values", g.key, want)
			}
			var names, pat []string
			for range g.results {
				t := fx.fresh()
				names = append(names, t)
				if want == 0 {
					pat = append(pat, "_")
				} else {
					pat = append(pat, t)
				}
			}
			pat = append(pat, recvName)
			lhs := pat[0]
			if len(pat) > 1 {
				lhs = "'(" + strings.Join(pat, ", ") + ")"
			}
			fx.bindTo(lhs, strings.Join(args, " "))
			return names
		}
		// w.Write(p) / r.Read(p) on a value of type io.Writer / io.Reader: oracles
		if sel := info.Selections[fe]; sel != nil && sel.Kind() == types.MethodVal {
			kind := x3IoKind(sel.Recv())
			if kind == "writer" && fe.Sel.Name == "Write" && len(e.Args) == 1 {
				if want != 2 && want != 0 {
					x.fail(e.Pos(), "call of %s used as %d values", fe.Sel.Name, want)
				}
				o := fx.expr(fe.X)
				p := fx.expr(e.Args[0])
				n, er := "_", "_"
				if want == 2 {
					n, er = fx.fresh(), fx.fresh()
				}
				fx.bindTo("'("+n+", "+er+")", "m_io_write "+o+" "+p)
				return []string{n, er}
			}
			if kind == "reader" && fe.Sel.Name == "Read" && len(e.Args) == 1 {
				// a reader is a stateful object: the call returns the reader after the call, which is
				// stored back into the variable / field it was read from
				if want != 2 && want != 0 {
					x.fail(e.Pos(), "call of %s used as %d values", fe.Sel.Name, want)
				}
				if fx.lazy > 0 {
					x.fail(e.Pos(), "Read inside a conditionally evaluated operand")
				}
				o := fx.expr(fe.X)
				p := fx.expr(e.Args[0])
				n, er := "_", "_"
				if want == 2 {
					n, er = fx.fresh(), fx.fresh()
				}
				rn := fx.fresh()
				fx.bindTo("'("+n+", "+er+", "+rn+")", "m_io_read "+o+" "+p)
				*fx.pre = append(*fx.pre, fx.store(fe.X, rn)...)
				return []string{n, er}
			}
			if kind != "" {
				x.fail(e.Pos(), "method call %s", fe.Sel.Name)
			}
		}
		// binary.BigEndian.M / binary.LittleEndian.M
		if inner, ok := fe.X.(*ast.SelectorExpr); ok {
			if id, ok := inner.X.(*ast.Ident); ok {
				if pn, ok := info.Uses[id].(*types.PkgName); ok && pn.Imported().Path() == "encoding/binary" &&
					(inner.Sel.Name == "BigEndian" || inner.Sel.Name == "LittleEndian") {
					big := "false"
					if inner.Sel.Name == "BigEndian" {
						big = "true"
					}
					var k int
					put := strings.HasPrefix(fe.Sel.Name, "PutUint")
					switch strings.TrimPrefix(strings.TrimPrefix(fe.Sel.Name, "Put"), "Uint") {
					case "16":
						k = 2
					case "32":
						k = 4
					case "64":
						k = 8
					}
					if k == 0 || !(put || strings.HasPrefix(fe.Sel.Name, "Uint")) {
						x.fail(e.Pos(), "call of binary.%s.%s (no library function declared for it)", inner.Sel.Name, fe.Sel.Name)
					}
					if put {
						if len(e.Args) != 2 || !x3IsBytes(fx.typeOf(e.Args[0])) {
							x.fail(e.Pos(), "call of binary.%s.%s", inner.Sel.Name, fe.Sel.Name)
						}
						if it, ok := x3IntOf(fx.typeOf(e.Args[1])); !ok || it.signed || it.bits != 8*k {
							x.fail(e.Pos(), "value argument of binary.%s.%s of type %s", inner.Sel.Name, fe.Sel.Name, fx.typeOf(e.Args[1]).String())
						}
						if want != 0 {
							x.fail(e.Pos(), "binary.%s.%s used as a value", inner.Sel.Name, fe.Sel.Name)
						}
						dst := fx.expr(e.Args[0])
						v := fx.expr(e.Args[1])
						fx.bindTo("_", fmt.Sprintf("m_put_uint %s %d %s %s", big, k, dst, v))
						return nil
					}
					if len(e.Args) != 1 {
						x.fail(e.Pos(), "call of binary.%s.%s", inner.Sel.Name, fe.Sel.Name)
					}
					a, isList := fx.readOnly(e.Args[0])
					if isList {
						return eff(fmt.Sprintf("lift (v_get_uint %s %d %s)", big, k, a))
					}
					return eff(fmt.Sprintf("m_get_uint %s %d %s", big, k, a))
				}
			}
		}
		id, ok := fe.X.(*ast.Ident)
		if !ok {
			x.fail(e.Pos(), "method call")
		}
		pn, ok := info.Uses[id].(*types.PkgName)
		if !ok {
			x.fail(e.Pos(), "method call")
		}
		key := pn.Imported().Path() + "." + fe.Sel.Name
		if _, ok := info.Uses[fe.Sel].(*types.Func); !ok {
			x.fail(e.Pos(), "call of %s: not a function", key)
		}
		switch key {
		case "io.ReadFull":
			// library function lib/GoMem.v m_io_read_full (io.ReadAtLeast's loop over the reader oracle)
			if len(e.Args) != 2 || x3IoKind(fx.typeOf(e.Args[0])) != "reader" || !x3IsBytes(fx.typeOf(e.Args[1])) {
				x.fail(e.Pos(), "call of io.ReadFull")
			}
			if want != 2 && want != 0 {
				x.fail(e.Pos(), "call of io.ReadFull used as %d values", want)
			}
			if fx.lazy > 0 {
				x.fail(e.Pos(), "io.ReadFull inside a conditionally evaluated operand")
			}
			o := fx.expr(e.Args[0])
			p := fx.expr(e.Args[1])
			n, er := "_", "_"
			if want == 2 {
				n, er = fx.fresh(), fx.fresh()
			}
			rn := fx.fresh()
			x.gerrs["E_io_EOF"] = true
			x.gerrs["E_io_ErrUnexpectedEOF"] = true
			x.useEOF = true
			fx.bindTo("'("+n+", "+er+", "+rn+")", "m_io_read_full E_io_EOF E_io_ErrUnexpectedEOF g3_is_eof "+o+" "+p)
			*fx.pre = append(*fx.pre, fx.store(e.Args[0], rn)...)
			return []string{n, er}
		case "fmt.Errorf":
			// only the panics of the arguments matter; the message is not modelled
			for i, a := range e.Args {
				if i == 0 {
					if tv := info.Types[a]; tv.Value == nil || tv.Value.Kind() != constant.String {
						x.fail(a.Pos(), "format of fmt.Errorf is not a constant string")
					}
					continue
				}
				fx.effectsOf(a)
			}
			x.gerrs["E_fmt_Errorf"] = true
			return one("(Some E_fmt_Errorf)")
		}
		x.fail(e.Pos(), "call of %s (no library function declared for it)", key)
	}
	x.fail(e.Pos(), "call of %T", e.Fun)
	return nil
}

// copy(a[lo:hi], src) where a is an assignable [N]byte VALUE (a local array or a field of a local struct
// value): the temporary slice cannot escape, so the copy is an update of the value
func (fx *x3Fx) copyIntoArrayValue(e *ast.CallExpr, want int) ([]string, bool) {
	d := e.Args[0]
	for {
		p, ok := d.(*ast.ParenExpr)
		if !ok {
			break
		}
		d = p.X
	}
	se, ok := d.(*ast.SliceExpr)
	if !ok || se.Slice3 {
		return nil, false
	}
	if _, _, isHeap := fx.heapArr(se.X); isHeap || !x3IsByteArray(fx.typeOf(se.X)) {
		return nil, false
	}
	if want > 1 {
		fx.x.fail(e.Pos(), "call used as %d values", want)
	}
	if fx.lazy > 0 {
		fx.x.fail(e.Pos(), "copy into an array value inside a conditionally evaluated operand")
	}
	n := fx.typeOf(se.X).Underlying().(*types.Array).Len()
	a := fx.expr(se.X)
	lo, hi := "0", fmt.Sprintf("(%d (* len of the array *))", n)
	if se.Low != nil {
		lo = fx.intExpr(se.Low)
	}
	if se.High != nil {
		hi = fx.intExpr(se.High)
	}
	src, isList := fx.readOnly(e.Args[1])
	if !isList {
		t := fx.fresh()
		fx.bindTo(t, "m_bytes "+src)
		src = t
	}
	tn, ta := fx.fresh(), fx.fresh()
	fx.bindTo("'("+tn+", "+ta+")", fmt.Sprintf("lift (v_copy_into %s %s %s %s)", a, lo, hi, src))
	*fx.pre = append(*fx.pre, fx.store(se.X, ta)...)
	return []string{tn}, true
}

// evaluate an argument whose value is discarded (fmt.Errorf): string(x) is looked through
func (fx *x3Fx) effectsOf(a ast.Expr) {
	if c, ok := a.(*ast.CallExpr); ok && len(c.Args) == 1 {
		if tv, ok := fx.p.info.Types[c.Fun]; ok && tv.IsType() && x3IsString(tv.Type) {
			fx.effectsOf(c.Args[0])
			return
		}
	}
	if p, ok := a.(*ast.ParenExpr); ok {
		fx.effectsOf(p.X)
		return
	}
	if tv, ok := fx.p.info.Types[a]; ok && tv.Value != nil {
		return
	}
	fx.expr(a)
}

// ---------------------------------------------------------------- statements

// objects assigned inside n that are declared outside [from, to]
func (fx *x3Fx) assignedIn(nodes []ast.Node, from, to token.Pos) []types.Object {
	info := fx.p.info
	seen := map[types.Object]bool{}
	var out []types.Object
	add := func(e ast.Expr) {
		for {
			switch t := e.(type) {
			case *ast.ParenExpr:
				e = t.X
				continue
			case *ast.IndexExpr:
				if x3IsBytes(fx.typeOf(t.X)) {
					return // a store through a slice changes the heap, not the variable
				}
				if _, _, isHeap := fx.heapArr(t.X); isHeap {
					return
				}
				e = t.X
				continue
			case *ast.SelectorExpr:
				e = t.X
				continue
			}
			break
		}
		id, ok := e.(*ast.Ident)
		if !ok || id.Name == "_" {
			return
		}
		o := info.Uses[id]
		if o == nil {
			return // defined here
		}
		if _, ok := o.(*types.Var); !ok {
			return
		}
		if _, known := fx.names[o]; !known {
			return
		}
		if from <= o.Pos() && o.Pos() <= to {
			return
		}
		if !seen[o] {
			seen[o] = true
			out = append(out, o)
		}
	}
	for _, n := range nodes {
		if n == nil || reflect.ValueOf(n).IsNil() {
			continue
		}
		ast.Inspect(n, func(n ast.Node) bool {
			switch n := n.(type) {
			case *ast.AssignStmt:
				for _, l := range n.Lhs {
					add(l)
				}
			case *ast.IncDecStmt:
				add(n.X)
			case *ast.CallExpr:
				// calls that update a variable by state passing: recv.m(...), X.Read(p), io.ReadFull(X, p),
				// copy(a[i:j], src) into an array value
				if se, ok := n.Fun.(*ast.SelectorExpr); ok {
					if sel := info.Selections[se]; sel != nil && sel.Kind() == types.MethodVal {
						if id, ok := se.X.(*ast.Ident); ok && fx.f.recv != nil && info.Uses[id] == fx.f.recv {
							add(id)
						} else if x3IoKind(sel.Recv()) == "reader" {
							add(se.X)
						}
					} else if id, ok := se.X.(*ast.Ident); ok {
						if pn, ok := info.Uses[id].(*types.PkgName); ok && pn.Imported().Path() == "io" && se.Sel.Name == "ReadFull" && len(n.Args) == 2 {
							add(n.Args[0])
						}
					}
				} else if id, ok := n.Fun.(*ast.Ident); ok && id.Name == "copy" && len(n.Args) == 2 {
					if _, isB := info.Uses[id].(*types.Builtin); isB {
						if sl, ok := n.Args[0].(*ast.SliceExpr); ok {
							if _, _, isHeap := fx.heapArr(sl.X); !isHeap && x3IsByteArray(fx.typeOf(sl.X)) {
								add(sl.X)
							}
						}
					}
				}
			case *ast.RangeStmt:
				if n.Tok == token.ASSIGN {
					add(n.Key)
					if n.Value != nil {
						add(n.Value)
					}
				}
			}
			return true
		})
	}
	sort.SliceStable(out, func(i, j int) bool { return out[i].Pos() < out[j].Pos() })
	return out
}

func (fx *x3Fx) tupleOf(objs []types.Object) string {
	var ns []string
	for _, o := range objs {
		ns = append(ns, fx.names[o])
	}
	switch len(ns) {
	case 0:
		return "tt"
	case 1:
		return ns[0]
	}
	return "(" + strings.Join(ns, ", ") + ")"
}

func (fx *x3Fx) patOf(objs []types.Object) string {
	switch len(objs) {
	case 0:
		return "_"
	case 1:
		return fx.names[objs[0]]
	}
	return "'" + fx.tupleOf(objs)
}

// store value term v into the assignable expression l; returns the binding lines
func (fx *x3Fx) store(l ast.Expr, v string) []string {
	x := fx.x
	info := fx.p.info
	switch l := l.(type) {
	case *ast.ParenExpr:
		return fx.store(l.X, v)
	case *ast.Ident:
		if l.Name == "_" {
			return nil
		}
		o := info.Defs[l]
		if o == nil {
			o = info.Uses[l]
		}
		vo, ok := o.(*types.Var)
		if !ok || vo.Parent() == fx.p.tpkg.Scope() {
			x.fail(l.Pos(), "assignment to %s, which is not a local variable", l.Name)
		}
		if vo == fx.f.recv {
			x.fail(l.Pos(), "assignment to the receiver")
		}
		x.coqType(vo.Type(), l.Pos())
		if v == "[]" || v == "None" || v == "nil_slice" {
			return []string{"let " + fx.name(vo) + " : " + x.coqType(vo.Type(), l.Pos()) + " := " + v + " in"}
		}
		return []string{"let " + fx.name(vo) + " := " + v + " in"}
	case *ast.SelectorExpr:
		id, ok := l.X.(*ast.Ident)
		sel := info.Selections[l]
		if !ok || sel == nil || sel.Kind() != types.FieldVal || len(sel.Index()) != 1 {
			x.fail(l.Pos(), "assignment to a selector that is not a field of a local struct variable")
		}
		o, ok := info.Uses[id].(*types.Var)
		if !ok || fx.names[o] == "" {
			x.fail(l.Pos(), "assignment to a field of %s, which is not a local variable", id.Name)
		}
		var n *types.Named
		if sel.Indirect() {
			if o != fx.f.recv {
				x.fail(l.Pos(), "assignment through a pointer that is not the method receiver")
			}
			n = fx.f.recvT
		} else if n, ok = sel.Recv().(*types.Named); !ok {
			x.fail(l.Pos(), "assignment to a field of a value of type %s", sel.Recv().String())
		}
		s := x.useStruct(n, l.Pos())
		if _, has := s.field(l.Sel.Name); !has {
			x.fail(l.Pos(), "field %s of %s has a type outside the subset", l.Sel.Name, s.goName)
		}
		if h, _, isHeap := fx.heapArr(l); isHeap {
			// assignment of an array value to a heap-resident array field: the cell is overwritten
			return []string{fmt.Sprintf("_ <- m_copy_list %s %s (* array assignment *);;", h, v)}
		}
		parts := []string{"g3_mk_" + s.name}
		for _, f := range s.fields {
			if f.name == l.Sel.Name {
				parts = append(parts, v)
			} else {
				parts = append(parts, fmt.Sprintf("(g3_%s_%s %s)", s.name, f.name, fx.names[o]))
			}
		}
		return []string{"let " + fx.names[o] + " := (" + strings.Join(parts, " ") + ") in"}
	case *ast.IndexExpr:
		if h, _, isHeap := fx.heapArr(l.X); isHeap {
			pre, i := fx.capture(func() string { return fx.intExpr(l.Index) })
			return append(pre, fmt.Sprintf("_ <- m_store %s %s %s;;", h, i, v))
		}
		if x3IsBytes(fx.typeOf(l.X)) {
			// a store through a slice: into the heap
			pre, bi := fx.captureN(func() []string { return []string{fx.expr(l.X), fx.intExpr(l.Index)} })
			return append(pre, fmt.Sprintf("_ <- m_store %s %s %s;;", bi[0], bi[1], v))
		}
		id, ok := l.X.(*ast.Ident)
		if !ok {
			x.fail(l.Pos(), "store into an element of something that is neither a slice nor an array variable")
		}
		o, ok := info.Uses[id].(*types.Var)
		if _, isArr := x3ArrayLen(fx.typeOf(l.X)); !ok || fx.names[o] == "" || !isArr || o.Parent() == fx.p.tpkg.Scope() {
			x.fail(l.Pos(), "store into an element of %s, which is not a local array variable", id.Name)
		}
		pre, i := fx.capture(func() string { return fx.intExpr(l.Index) })
		return append(pre, fmt.Sprintf("%s <- lift (go_set_index %s %s %s);;", fx.names[o], fx.names[o], i, v))
	}
	x.fail(l.Pos(), "assignment to %T", l)
	return nil
}

var x3AssignOps = map[token.Token]token.Token{token.ADD_ASSIGN: token.ADD, token.SUB_ASSIGN: token.SUB, token.MUL_ASSIGN: token.MUL,
	token.QUO_ASSIGN: token.QUO, token.REM_ASSIGN: token.REM,
	token.AND_ASSIGN: token.AND, token.OR_ASSIGN: token.OR, token.XOR_ASSIGN: token.XOR, token.AND_NOT_ASSIGN: token.AND_NOT,
	token.SHL_ASSIGN: token.SHL, token.SHR_ASSIGN: token.SHR}

// l op= r  (op is the binary operator)
func (fx *x3Fx) opAssign(l ast.Expr, op token.Token, rterm string, rconst constant.Value, rtype types.Type, pos token.Pos) []string {
	it, ok := x3IntOf(fx.typeOf(l))
	if !ok {
		fx.x.fail(pos, "%s= on %s", op, fx.typeOf(l).String())
	}
	pre, cur := fx.capture(func() string { return fx.expr(l) })
	v := fx.arith(op, cur, rterm, it, rconst, rtype, pos)
	return append(pre, fx.store(l, v)...)
}

// seq translates a statement list; k yields the term for "falls off the end"
func (fx *x3Fx) seq(stmts []ast.Stmt, k func() string) string {
	x := fx.x
	info := fx.p.info
	if len(stmts) == 0 {
		return k()
	}
	st := stmts[0]
	rest := func() string { return fx.seq(stmts[1:], k) }
	// translate fn's expressions, then prepend their bindings
	withPre := func(fn func() string) string {
		pre, body := fx.capture(fn)
		return x3Join(pre, body)
	}
	switch st := st.(type) {
	case *ast.EmptyStmt:
		return rest()
	case *ast.BlockStmt:
		return fx.seq(st.List, rest)
	case *ast.ReturnStmt:
		if len(stmts) > 1 {
			x.fail(stmts[1].Pos(), "statement after return")
		}
		return withPre(func() string {
			if len(st.Results) == 0 {
				if len(fx.f.results) > 0 && len(fx.named) == 0 {
					x.fail(st.Pos(), "return without values")
				}
				return fx.ret(nil, st.Pos())
			}
			var vals []string
			if len(st.Results) == 1 && len(fx.f.results) > 1 {
				c, ok := st.Results[0].(*ast.CallExpr)
				if !ok {
					x.fail(st.Pos(), "return of one value for %d results", len(fx.f.results))
				}
				vals = fx.call(c, len(fx.f.results))
			} else {
				if len(st.Results) != len(fx.f.results) {
					x.fail(st.Pos(), "return of %d values for %d results", len(st.Results), len(fx.f.results))
				}
				for i, r := range st.Results {
					vals = append(vals, fx.exprT(r, fx.f.results[i]))
				}
			}
			return fx.ret(vals, st.Pos())
		})
	case *ast.DeclStmt:
		gd, ok := st.Decl.(*ast.GenDecl)
		if !ok || gd.Tok != token.VAR {
			x.fail(st.Pos(), "declaration statement")
		}
		return withPre(func() string {
			var lines []string
			for _, sp := range gd.Specs {
				vs := sp.(*ast.ValueSpec)
				switch {
				case len(vs.Values) == 0:
					for _, nm := range vs.Names {
						o := info.Defs[nm]
						if o == nil {
							continue // _
						}
						lines = append(lines, fx.store(nm, x.zero(o.Type(), nm.Pos()))...)
					}
				case len(vs.Values) == len(vs.Names):
					var vals []string
					for i, v := range vs.Values {
						var lt types.Type
						if o := info.Defs[vs.Names[i]]; o != nil {
							lt = o.Type()
						}
						p, t := fx.capture(func() string { return fx.exprT(v, lt) })
						lines = append(lines, p...)
						vals = append(vals, t)
					}
					for i, nm := range vs.Names {
						lines = append(lines, fx.store(nm, vals[i])...)
					}
				default:
					x.fail(vs.Pos(), "var declaration from a multi-valued call")
				}
			}
			return x3Join(lines, rest())
		})
	case *ast.IncDecStmt:
		return withPre(func() string {
			op := token.ADD
			if st.Tok == token.DEC {
				op = token.SUB
			}
			lines := fx.opAssign(st.X, op, "1", constant.MakeInt64(1), types.Typ[types.Int], st.Pos())
			return x3Join(lines, rest())
		})
	case *ast.AssignStmt:
		return withPre(func() string {
			var lines []string
			if op, ok := x3AssignOps[st.Tok]; ok {
				if len(st.Lhs) != 1 || len(st.Rhs) != 1 {
					x.fail(st.Pos(), "operator assignment of several values")
				}
				p, r := fx.capture(func() string { return fx.expr(st.Rhs[0]) })
				lines = append(lines, p...)
				lines = append(lines, fx.opAssign(st.Lhs[0], op, r, info.Types[st.Rhs[0]].Value, fx.typeOf(st.Rhs[0]), st.Pos())...)
				return x3Join(lines, rest())
			}
			if st.Tok != token.ASSIGN && st.Tok != token.DEFINE {
				x.fail(st.Pos(), "assignment operator %s", st.Tok)
			}
			var vals []string
			if len(st.Rhs) == 1 && len(st.Lhs) > 1 {
				c, ok := st.Rhs[0].(*ast.CallExpr)
				if !ok {
					x.fail(st.Pos(), "assignment of one value to %d operands", len(st.Lhs))
				}
				p, vs := fx.captureN(func() []string { return fx.call(c, len(st.Lhs)) })
				lines = append(lines, p...)
				vals = vs
			} else {
				if len(st.Rhs) != len(st.Lhs) {
					x.fail(st.Pos(), "assignment of %d values to %d operands", len(st.Rhs), len(st.Lhs))
				}
				for i, r := range st.Rhs {
					var lt types.Type
					if tv, ok := info.Types[st.Lhs[i]]; ok {
						lt = tv.Type
					}
					p, t := fx.capture(func() string { return fx.exprT(r, lt) })
					lines = append(lines, p...)
					vals = append(vals, t)
				}
				if len(st.Lhs) > 1 {
					// parallel assignment: all right-hand sides first, under names of their own
					for i := range vals {
						t := fx.fresh()
						lines = append(lines, "let "+t+" := "+vals[i]+" in")
						vals[i] = t
					}
				}
			}
			for i, l := range st.Lhs {
				lines = append(lines, fx.store(l, vals[i])...)
			}
			return x3Join(lines, rest())
		})
	case *ast.ExprStmt:
		c, ok := st.X.(*ast.CallExpr)
		if !ok {
			x.fail(st.Pos(), "expression statement")
		}
		return withPre(func() string {
			p, _ := fx.captureN(func() []string { return fx.call(c, 0) })
			return x3Join(p, rest())
		})
	case *ast.IfStmt:
		if st.Init != nil {
			cp := *st
			cp.Init = nil
			return fx.seq([]ast.Stmt{st.Init, &cp}, rest)
		}
		return withPre(func() string {
			c := fx.expr(st.Cond)
			if !x3IsBool(fx.typeOf(st.Cond)) {
				x.fail(st.Cond.Pos(), "condition of type %s", fx.typeOf(st.Cond).String())
			}
			thn := fx.seq(st.Body.List, rest)
			var els string
			switch eb := st.Else.(type) {
			case nil:
				els = rest()
			case *ast.BlockStmt:
				els = fx.seq(eb.List, rest)
			case *ast.IfStmt:
				els = fx.seq([]ast.Stmt{eb}, rest)
			default:
				x.fail(st.Else.Pos(), "else branch")
			}
			return "if " + c + " then (\n" + x3Indent(thn) + "\n) else (\n" + x3Indent(els) + "\n)"
		})
	case *ast.SwitchStmt:
		if st.Init != nil {
			cp := *st
			cp.Init = nil
			return fx.seq([]ast.Stmt{st.Init, &cp}, rest)
		}
		return withPre(func() string {
			tag := ""
			tagBool := false
			if st.Tag != nil {
				tt := fx.typeOf(st.Tag)
				_, isInt := x3IntOf(tt)
				if !isInt && !x3IsBool(tt) {
					x.fail(st.Tag.Pos(), "switch on a value of type %s", tt.String())
				}
				tagBool = !isInt
				v := fx.expr(st.Tag)
				tag = fx.fresh()
				*fx.pre = append(*fx.pre, "let "+tag+" := "+v+" in")
			}
			var def *ast.CaseClause
			var clauses []*ast.CaseClause
			for _, cs := range st.Body.List {
				cc := cs.(*ast.CaseClause)
				for _, b := range cc.Body {
					if br, ok := b.(*ast.BranchStmt); ok {
						x.fail(br.Pos(), "%s in a switch", br.Tok)
					}
				}
				if cc.List == nil {
					if def != nil {
						x.fail(cc.Pos(), "second default")
					}
					def = cc
				} else {
					clauses = append(clauses, cc)
				}
			}
			var build func(i int) string
			build = func(i int) string {
				if i == len(clauses) {
					if def != nil {
						return fx.seq(def.Body, rest)
					}
					return rest()
				}
				cc := clauses[i]
				// case e1, e2: e1 || e2, evaluated left to right, later ones only if needed
				var caseCond func(j int) (pre []string, term string)
				caseCond = func(j int) ([]string, string) {
					pre, c := fx.capture(func() string {
						v := fx.expr(cc.List[j])
						if tag == "" {
							if !x3IsBool(fx.typeOf(cc.List[j])) {
								x.fail(cc.List[j].Pos(), "case of type %s in a tagless switch", fx.typeOf(cc.List[j]).String())
							}
							return v
						}
						if tagBool {
							return "(Bool.eqb " + tag + " " + v + ")"
						}
						return "(" + tag + " =? " + v + ")"
					})
					if j == len(cc.List)-1 {
						return pre, c
					}
					fx.lazy++
					pre2, c2 := caseCond(j + 1)
					fx.lazy--
					if len(pre2) == 0 {
						return pre, "(" + c + " || " + c2 + ")"
					}
					t := fx.fresh()
					pre = append(pre, t+" <- (if "+c+" then ret true else (\n"+x3Indent(x3Join(pre2, "ret "+c2))+"));;")
					return pre, t
				}
				pre, c := caseCond(0)
				body := fx.seq(cc.Body, rest)
				return x3Join(pre, "if "+c+" then (\n"+x3Indent(body)+"\n) else (\n"+x3Indent(build(i+1))+"\n)")
			}
			return build(0)
		})
	case *ast.ForStmt:
		if st.Init != nil {
			cp := *st
			cp.Init = nil
			return fx.seq([]ast.Stmt{st.Init, &cp}, rest)
		}
		fx.f.loops++
		state := fx.assignedIn([]ast.Node{st.Body, st.Post}, st.Body.Lbrace, st.Body.Rbrace)
		lp := &x3Loop{state: state, from: st.Pos(), to: st.End()}
		lp.post = func() string {
			if st.Post == nil {
				return "ret (Continue " + fx.tupleOf(state) + ")"
			}
			return fx.seq([]ast.Stmt{st.Post}, func() string { return "ret (Continue " + fx.tupleOf(state) + ")" })
		}
		fx.loops = append(fx.loops, lp)
		fx.depth++
		body := withPre(func() string {
			inner := func() string { return fx.seq(st.Body.List, lp.post) }
			if st.Cond == nil {
				return inner()
			}
			if !x3IsBool(fx.typeOf(st.Cond)) {
				x.fail(st.Cond.Pos(), "condition of type %s", fx.typeOf(st.Cond).String())
			}
			c := fx.expr(st.Cond)
			return "if " + c + " then (\n" + x3Indent(inner()) + "\n) else ret (Break " + fx.tupleOf(state) + ")"
		})
		fx.depth--
		fx.loops = fx.loops[:len(fx.loops)-1]
		return fx.loopTerm(state, body, rest)
	case *ast.RangeStmt:
		if st.Tok != token.DEFINE {
			x.fail(st.Pos(), "range without := (only `for i, c := range b` is supported)")
		}
		rid, ok := st.X.(*ast.Ident)
		if !ok {
			x.fail(st.X.Pos(), "range over something that is not a variable")
		}
		ro, ok := info.Uses[rid].(*types.Var)
		if !ok || fx.names[ro] == "" || !x3IsBytes(ro.Type()) {
			x.fail(st.X.Pos(), "range over %s, which is not a local []byte variable", rid.Name)
		}
		// inside the loop the ranged variable may only be stored into by element, and the
		// iteration variables may not be assigned (they are per-iteration copies)
		var keyObj, valObj types.Object
		if id, ok := st.Key.(*ast.Ident); ok && id.Name != "_" {
			keyObj = info.Defs[id]
		} else if st.Key != nil && !ok {
			x.fail(st.Key.Pos(), "range key")
		}
		if st.Value != nil {
			if id, ok := st.Value.(*ast.Ident); ok && id.Name != "_" {
				valObj = info.Defs[id]
			} else if !ok {
				x.fail(st.Value.Pos(), "range value")
			}
		}
		ast.Inspect(st.Body, func(n ast.Node) bool {
			chk := func(e ast.Expr) {
				if id, ok := e.(*ast.Ident); ok {
					if o := info.Uses[id]; o != nil && (o == ro || o == keyObj || o == valObj) {
						x.fail(id.Pos(), "assignment to %s inside a range loop over / declaring it", id.Name)
					}
				}
			}
			switch n := n.(type) {
			case *ast.AssignStmt:
				for _, l := range n.Lhs {
					chk(l)
				}
			case *ast.IncDecStmt:
				chk(n.X)
			case *ast.FuncLit:
				x.fail(n.Pos(), "function literal")
			}
			return true
		})
		fx.f.loops++
		idx := "r_idx"
		if keyObj != nil {
			idx = fx.name(keyObj)
		} else {
			for i := 2; fx.used[idx]; i++ {
				idx = fmt.Sprintf("r_idx_%d", i)
			}
			fx.used[idx] = true
		}
		n := fx.fresh()
		state := fx.assignedIn([]ast.Node{st.Body}, st.Body.Lbrace, st.Body.Rbrace)
		tuple := func(first string) string {
			ns := []string{first}
			for _, o := range state {
				ns = append(ns, fx.names[o])
			}
			if len(ns) == 1 {
				return ns[0]
			}
			return "(" + strings.Join(ns, ", ") + ")"
		}
		lp := &x3Loop{state: state, from: st.Pos(), to: st.End()}
		lp.post = func() string { return "ret (Continue " + tuple("("+idx+" + 1)") + ")" }
		fx.loops = append(fx.loops, lp)
		fx.depth++
		var head []string
		if valObj != nil {
			head = append(head, fx.name(valObj)+" <- m_index "+fx.names[ro]+" "+idx+";;")
		}
		body := "if " + idx + " <? " + n + " then (\n" + x3Indent(x3Join(head, fx.seq(st.Body.List, lp.post))) +
			"\n) else ret (Break " + tuple(idx) + ")"
		fx.depth--
		fx.loops = fx.loops[:len(fx.loops)-1]
		pat := tuple(idx)
		fpat := pat
		if len(state) > 0 {
			fpat = "'" + pat
		}
		var b strings.Builder
		b.WriteString("let " + n + " := sl_len " + fx.names[ro] + " in\n")
		r := fx.fresh()
		b.WriteString(r + " <- m_loop fuel (fun " + fpat + " =>\n" + x3Indent(body) + ") " + tuple("0") + ";;\n")
		b.WriteString("match " + r + " with\n| inr rv => " + fx.retProp() + "\n| inl " + pat + " =>\n" + x3Indent(rest()) + "\nend")
		return b.String()
	case *ast.BranchStmt:
		if st.Label != nil || len(fx.loops) == 0 {
			x.fail(st.Pos(), "%s", st.Tok)
		}
		if len(stmts) > 1 {
			x.fail(stmts[1].Pos(), "statement after %s", st.Tok)
		}
		lp := fx.loops[len(fx.loops)-1]
		switch st.Tok {
		case token.BREAK:
			return "ret (Break " + fx.tupleOf(lp.state) + ")"
		case token.CONTINUE:
			return lp.post()
		}
		x.fail(st.Pos(), "%s", st.Tok)
	}
	x.fail(st.Pos(), "statement %T", st)
	return ""
}

func (fx *x3Fx) captureN(fn func() []string) ([]string, []string) {
	saved := fx.pre
	var pre []string
	fx.pre = &pre
	defer func() { fx.pre = saved }()
	r := fn()
	return pre, r
}

// a `return` that happened inside an inner loop, seen from the current depth
func (fx *x3Fx) retProp() string {
	if fx.depth > 0 {
		return "ret (Return rv)"
	}
	return "ret rv"
}

func (fx *x3Fx) loopTerm(state []types.Object, body string, rest func() string) string {
	r := fx.fresh()
	fpat := fx.patOf(state)
	if len(state) == 0 {
		fpat = "_"
	}
	var b strings.Builder
	b.WriteString(r + " <- m_loop fuel (fun " + fpat + " =>\n" + x3Indent(body) + ") " + fx.tupleOf(state) + ";;\n")
	ipat := fx.tupleOf(state)
	if len(state) == 0 {
		ipat = "_"
	}
	b.WriteString("match " + r + " with\n| inr rv => " + fx.retProp() + "\n| inl " + ipat + " =>\n" + x3Indent(rest()) + "\nend")
	return b.String()
}

// ---------------------------------------------------------------- output

func (x *x3) print() string {
	var b strings.Builder
	w := func(format string, a ...interface{}) { fmt.Fprintf(&b, format, a...) }
	w("(* GENERATED on every check by `harness translate3` from the Go SOURCE — do not edit.\n")
	w("   source: the tree the harness was built against (module %s)\n\n", x.modpath)
	w("   Semantics (vocabulary: lib/GoMem.v, lib/GoSlices.v; translator: harness/translate3.go):\n")
	w("   - every function is a computation M T = world -> res (T * world): Ok (t, world'), Panic (a Go\n")
	w("     run-time panic: index / slice bounds, make) or OutOfFuel; several Go results are a tuple.\n")
	w("   - []byte is a slice (array number, offset, len, cap) into the heap of the world: b[i] is m_index,\n")
	w("     b[i:j] is m_slice (checked against CAP, shares the array), b[i] = v is m_store; make is m_make,\n")
	w("     copy is m_copy / m_copy_list, string(b) is m_bytes, []byte(s) is m_of_list.\n")
	w("   - [N]byte / [N]int and strings are list Z VALUES: a[i] is lift (go_index a i), s[i:j] is\n")
	w("     lift (go_slice s i j); a never-written package array is the constant g3_pv_<name>.\n")
	w("   - binary.X.UintNN / PutUintNN are m_get_uint / m_put_uint big k (v_get_uint on an array value).\n")
	w("   - w.Write(p) / r.Read(p) on io.Writer / io.Reader values are the oracles m_io_write / m_io_read.\n")
	w("   - a method with a pointer receiver takes the receiver's value as its first parameter and returns\n")
	w("     the updated value as an additional LAST result; recv.m(args) rebinds the receiver.  A []byte field is a\n")
	w("     slice value; a [N]byte field of such an object is a slice HANDLE (array, off, N, N) of a heap cell.\n")
	w("   - io.Reader values are stateful (GoMem.g_reader): Read / io.ReadFull (m_io_read_full) return the reader\n")
	w("     after the call, stored back where it came from; io.Reader parameters are returned after the receiver.\n")
	w("   - integers are Z with explicit wrap_u/wrap_s after + - * << unary - ^ and narrowing conversions;\n")
	w("     int/uint are 64 bit; constants are folded by go/types and inlined (name in a comment).\n")
	w("   - for loops are m_loop fuel (fun state => ...) state0 over the variables assigned in the loop;\n")
	w("     fuel = 65 + the lengths of the function's []byte parameters at entry; the body yields\n")
	w("     Continue state | Break state | Return result.\n")
	w("   - fmt.Errorf(...) is Some E_fmt_Errorf; a package variable ErrX is Some E_ErrX; E_foreign k stands\n")
	w("     for the errors of the io oracles.\n")
	w("   - parameters and locals are v_<name>, temporaries t<n>; an assignment is a shadowing let. *)\n")
	w("From Coq Require Import ZArith List Bool.\nRequire Import GoSlices GoMem.\nImport ListNotations.\n")
	w("Open Scope bool_scope.\nOpen Scope Z_scope.\nOpen Scope gomem_scope.\n\n")
	var es []string
	for e := range x.gerrs {
		es = append(es, e)
	}
	sort.Strings(es)
	w("Inductive g_error : Set :=\n")
	w("  | E_foreign (k : nat)\n")
	for _, e := range es {
		w("  | %s\n", e)
	}
	w(".\n\n")
	if x.useEOF {
		w("Definition g3_is_eof (e : g_error) : bool := match e with E_io_EOF => true | _ => false end.\n\n")
	}
	for _, n := range x.pvOrder {
		w("Definition %s : list Z :=\n  %s.\n\n", n, x.pkgvars[n])
	}
	for _, n := range x.stOrder {
		s := x.structs[n]
		var fs []string
		for _, f := range s.fields {
			fs = append(fs, fmt.Sprintf("g3_%s_%s : %s", s.name, f.name, x.fieldCoqType(s, f)))
		}
		if s.obj && s.hasArr {
			w("(* %s is used through a pointer receiver: its [N]byte fields are slice HANDLES (array, 0, N, N) of heap cells owned by the object *)\n", n)
		}
		if len(s.skipped) > 0 {
			w("(* fields of %s left out (types outside the subset; any use is rejected): %s *)\n", n, strings.Join(s.skipped, ", "))
		}
		w("(* struct %s *)\nRecord g3_%s : Type := g3_mk_%s { %s }.\n\n", n, s.name, s.name, strings.Join(fs, "; "))
	}
	var names []string
	for _, f := range x.order {
		w("(* %s   [%s]", f.key, f.src)
		if f.recv != nil {
			w("\n   pointer receiver %s: passed as the first parameter, returned as the last result", f.recv.Name())
		}
		for _, v := range f.params {
			if it, ok := x3IntOf(v.Type()); ok {
				w("\n   %s : %s, %s <= _ <= %s", v.Name(), it.name(), it.lo().ExactString(), it.hi().ExactString())
			} else if x3IsBytes(v.Type()) {
				w("\n   %s : []byte, a slice into the heap", v.Name())
			} else if n, ok := x3ArrayLen(v.Type()); ok {
				w("\n   %s : %s, a list of length %d", v.Name(), v.Type().String(), n)
			}
		}
		w(" *)\nDefinition %s", f.coqName)
		for _, line := range f.paramDecls(x) {
			w(" %s", line)
		}
		w(" : M %s :=\n%s.\n\n", f.retTypeStr(x), x3Indent(f.body))
		names = append(names, f.coqName)
	}
	w("Create HintDb xlate3.\n#[export] Hint Unfold\n  %s : xlate3.\n", strings.Join(names, "\n  "))
	return b.String()
}

func (f *x3Func) paramDecls(x *x3) []string {
	var out []string
	used := map[string]bool{}
	if f.recv != nil {
		out = append(out, "(v_"+f.recv.Name()+" : "+x.recvCoqType(f)+")")
		used["v_"+f.recv.Name()] = true
	}
	for i, v := range f.params {
		n := "v_" + v.Name()
		if v.Name() == "" || v.Name() == "_" {
			n = fmt.Sprintf("v_unused%d", i+1)
		}
		for j := 2; used[n]; j++ {
			n = fmt.Sprintf("v_%s_%d", v.Name(), j)
		}
		used[n] = true
		out = append(out, "("+n+" : "+x.coqType(v.Type(), token.NoPos)+")")
	}
	return out
}

func (x *x3) recvCoqType(f *x3Func) string {
	return "g3_" + x.structs[f.recvT.Obj().Pkg().Name()+"."+f.recvT.Obj().Name()].name
}

func (f *x3Func) retTypeStr(x *x3) string {
	var ts []string
	for _, t := range f.results {
		ts = append(ts, x.coqType(t, token.NoPos))
	}
	if f.recv != nil {
		ts = append(ts, x.recvCoqType(f))
	}
	for range f.readers {
		ts = append(ts, "g_reader g_error")
	}
	switch len(ts) {
	case 0:
		return "unit"
	case 1:
		if strings.Contains(ts[0], " ") {
			return "(" + ts[0] + ")"
		}
		return ts[0]
	}
	return "(" + strings.Join(ts, " * ") + ")"
}
