package main

// Cases added after the ninth (short) round of seeded changes (DESIGN 14.11).

import (
	"context"
	"errors"
	"io"
	"net"
	"strings"
	"sync/atomic"
	"time"

	"github.com/gobwas/httphead"
	"github.com/gobwas/ws"
)

func init() {
	r9Wrap := func(id string, extra func(*ctx)) {
		old := props[id]
		props[id] = func(c *ctx) {
			if old != nil {
				old(c)
			}
			extra(c)
		}
	}
	r9Wrap("C19", r9Panics)
	r9Wrap("C20", r9C20D)
	replayers["C20D"] = func(c *ctx, in []string) { c20D(c, in[0], in[1] == "1", in[2] == "1") }
	r9Wrap("C01", r9NFC)
	replayers["NFC"] = func(c *ctx, in []string) { nfc(c, in[0], in[1] == "1", unhx(in[2])) }
	r9Wrap("C17", r9Panics)
	replayers["C19Q"] = func(c *ctx, in []string) { c19Q(c, in[0], in[1]) }
}

// C19Q: a user callback PANICS inside a handshake (the application recovers, as net/http does for its handlers). The
// library's deferred clean-ups run during the panic: the pooled readers / writers must neither be returned twice nor be
// left in a state that changes the NEXT handshakes of the process. Before and after the panicking handshake a nested
// pair of sessions (B inside a callback of A, i.e. two pooled readers and writers alive at once) must give A and B the
// results they see alone.
//
//	C19Q <side> <panicking callback> -> <same before 0|1> <same after 0|1> <panicked 0|1>
func c19Q(c *ctx, side, point string) {
	nested := func() bool {
		soloA := c19nUpgrade("a", "custom", func(string) {})
		soloB := c19nDial("z", "101", func(string) {})
		okB := true
		fired := false
		got := c19nUpgrade("a", "custom", func(at string) {
			if at != "onbefore" || fired {
				return
			}
			fired = true
			if c19nDial("z", "101", func(string) {}) != soloB || c19nUpgrade("z", "copy", func(string) {}) == "" {
				okB = false
			}
		})
		return got == soloA && okB
	}
	before := nested()
	panicked := false
	func() {
		defer func() {
			if recover() != nil {
				panicked = true
			}
		}()
		boom := func(at string) {
			if at == point {
				panic("verif: user callback panics")
			}
		}
		if side == "server" {
			c19nUpgrade("p", "custom", boom)
		} else {
			c19nDial("p", "101", boom)
		}
	}()
	// twice: a reader or writer put back twice is handed to the next TWO takers
	after := nested() && nested()
	c.emit("C19Q %s %s -> %d %d %d", side, point, b2i(before), b2i(after), b2i(panicked))
}

func r9Panics(c *ctx) {
	for _, p := range []string{"onrequest", "onhost", "onheader", "onbefore", "protocol", "extension", "header"} {
		c19Q(c, "server", p)
	}
	for _, p := range []string{"onheader", "header"} {
		c19Q(c, "client", p)
	}
	_ = io.EOF
	_ = strings.Repeat
	_ = httphead.Option{}
	_ = ws.OpText
}

// NFC: the frame constructors: the header announces exactly the payload given (length, opcode, FIN, no reserved bits, no
// mask), the payload is the bytes given, and the frame written is the header codec ++ payload (judged by C01F's rule on
// the bytes).  NFC <ctor> <fin> <payload> -> <fin> <rsv> <op> <masked> <len> <payload> <compiled bytes>
func nfc(c *ctx, ctor string, fin bool, p []byte) {
	var f ws.Frame
	switch ctor {
	case "frame1":
		f = ws.NewFrame(ws.OpText, fin, p)
	case "frame2":
		f = ws.NewFrame(ws.OpBinary, fin, p)
	case "frame0":
		f = ws.NewFrame(ws.OpContinuation, fin, p)
	case "text":
		f = ws.NewTextFrame(p)
	case "binary":
		f = ws.NewBinaryFrame(p)
	case "ping":
		f = ws.NewPingFrame(p)
	case "pong":
		f = ws.NewPongFrame(p)
	case "close":
		f = ws.NewCloseFrame(p)
	}
	comp, _ := ws.CompileFrame(f)
	c.emit("NFC %s %d %s -> %d %d %d %d %d %s %s", ctor, b2i(fin), hx(p), b2i(f.Header.Fin), f.Header.Rsv, f.Header.OpCode, b2i(f.Header.Masked), f.Header.Length, hx(f.Payload), hx(comp))
}

func r9NFC(c *ctx) {
	for _, n := range []int{0, 1, 2, 124, 125, 126, 127, 65535, 65536} {
		p := c.payload(n)
		for _, ctor := range []string{"frame1", "frame2", "frame0", "text", "binary", "ping", "pong", "close"} {
			if n > 125 && (ctor == "ping" || ctor == "pong" || ctor == "close") && n > 127 {
				continue
			}
			nfc(c, ctor, true, p)
			if strings.HasPrefix(ctor, "frame") {
				nfc(c, ctor, false, p)
			}
		}
	}
}

// C20D: the conn's SetDeadline / SetReadDeadline / SetWriteDeadline FAIL (a transport without deadline support). Whatever
// Dial makes of it: a non-nil error only after closing the conn, a nil error only with a completed handshake.
//
//	C20D <ctx kind> <tmo 0|1> -> <error class> <closed at return 0|1> <handshake bytes answered 0|1>
type c20dConn struct {
	c16dConn
	closed int32
}

var errNoDeadline = errors.New("verif: deadlines are not supported")

func (f *c20dConn) Close() error                     { atomic.StoreInt32(&f.closed, 1); return nil }
func (f *c20dConn) SetDeadline(time.Time) error      { return errNoDeadline }
func (f *c20dConn) SetReadDeadline(time.Time) error  { return errNoDeadline }
func (f *c20dConn) SetWriteDeadline(time.Time) error { return errNoDeadline }

func c20D(c *ctx, kind string, tmo bool, full bool) {
	ctx := context.Background()
	var cancel context.CancelFunc = func() {}
	switch kind {
	case "cancel":
		ctx, cancel = context.WithCancel(ctx)
	case "deadline":
		ctx, cancel = context.WithTimeout(ctx, time.Minute)
	}
	defer cancel()
	k := 40 // the response is cut after 40 bytes by a timeout-type read error ...
	if full {
		k = 1 << 20 // ... or delivered completely
	}
	fc := &c20dConn{c16dConn: c16dConn{k: k}}
	d := ws.Dialer{NetDial: func(ctx context.Context, network, addr string) (net.Conn, error) { return fc, nil }}
	if tmo {
		d.Timeout = time.Minute
	}
	cls, at := "hang", 0
	done := make(chan struct{})
	go func() {
		defer close(done)
		defer func() {
			if recover() != nil {
				cls = "panic"
			}
		}()
		_, br, _, err := d.Dial(ctx, "ws://c20d.example/")
		at = int(atomic.LoadInt32(&fc.closed))
		if br != nil {
			ws.PutReader(br)
		}
		cls = errClass(err)
	}()
	select {
	case <-done:
	case <-time.After(3 * time.Second):
	}
	c.emit("C20D %s %d %d -> %s %d", kind, b2i(tmo), b2i(full), cls, at)
}

func r9C20D(c *ctx) {
	for _, kind := range []string{"bg", "cancel", "deadline"} {
		for _, tmo := range []bool{false, true} {
			c20D(c, kind, tmo, false)
			c20D(c, kind, tmo, true)
		}
	}
}
