package main

// Cases added after the ninth (short) round of seeded changes (DESIGN 14.11).

import (
	"bytes"
	"compress/flate"
	"context"
	"errors"
	"fmt"
	"io"
	"io/ioutil"
	"net"
	"strconv"
	"strings"
	"sync"
	"sync/atomic"
	"time"

	"github.com/gobwas/httphead"
	"github.com/gobwas/ws"
	"github.com/gobwas/ws/wsflate"
	"github.com/gobwas/ws/wsutil"
)

func init() {
	r9Wrap := func(id string, extra func(*ctx)) {
		old := props[id]
		props[id] = func(c *ctx) {
			if old != nil {
				old(c)
			}
			extra(c)
		}
	}
	r9Wrap("C19", r9Panics)
	r9Wrap("C15", r9Versions)
	r9Wrap("C09", r9Versions)
	r9Wrap("C19", c19K)
	replayers["C19K"] = func(c *ctx, in []string) { c19Reexec(); c19K(c) }
	r9Wrap("C04", r9BigRX)
	r9Wrap("C08", r9C08)
	r9Wrap("C06", r9C06)
	r9Wrap("C13", r9C06)
	replayers["WXL"] = func(c *ctx, in []string) { runWXL(c, parseWcfg(in[0]), in[1]) }
	r9Wrap("C18", r9C18)
	r9Wrap("C12", r9C18)
	replayers["FRF"] = func(c *ctx, in []string) {
		a := func(i int) int { v, _ := strconv.Atoi(in[i]); return v }
		frf(c, a(0), a(1), a(2))
	}
	r9Wrap("C16", r9RDT)
	r9Wrap("C02", r9RDT)
	replayers["RDT"] = func(c *ctx, in []string) {
		side, _ := strconv.Atoi(in[0])
		k, _ := strconv.Atoi(in[2])
		runRDT(c, byte(side), parseFrames(in[1]), k, in[3])
	}
	// r9-C17: a close body modified by its owner must not change the next one (C03N), also under C17
	r9Wrap("C17", func(c *ctx) {
		for code := 1000; code <= 1015; code++ {
			c03N(c, uint16(code), 0)
		}
	})
	r9Wrap("C20", r9C20D)
	replayers["C20D"] = func(c *ctx, in []string) { c20D(c, in[0], in[1] == "1", in[2] == "1") }
	r9Wrap("C01", r9NFC)
	replayers["NFC"] = func(c *ctx, in []string) { nfc(c, in[0], in[1] == "1", unhx(in[2])) }
	r9Wrap("C17", r9Panics)
	replayers["C19Q"] = func(c *ctx, in []string) { c19Q(c, in[0], in[1]) }
}

// C19Q: a user callback PANICS inside a handshake (the application recovers, as net/http does for its handlers). The
// library's deferred clean-ups run during the panic: the pooled readers / writers must neither be returned twice nor be
// left in a state that changes the NEXT handshakes of the process. Before and after the panicking handshake a nested
// pair of sessions (B inside a callback of A, i.e. two pooled readers and writers alive at once) must give A and B the
// results they see alone.
//
//	C19Q <side> <panicking callback> -> <same before 0|1> <same after 0|1> <panicked 0|1>
func c19Q(c *ctx, side, point string) {
	nested := func() bool {
		soloA := c19nUpgrade("a", "custom", func(string) {})
		soloB := c19nDial("z", "101", func(string) {})
		okB := true
		fired := false
		got := c19nUpgrade("a", "custom", func(at string) {
			if at != "onbefore" || fired {
				return
			}
			fired = true
			if c19nDial("z", "101", func(string) {}) != soloB || c19nUpgrade("z", "copy", func(string) {}) == "" {
				okB = false
			}
		})
		return got == soloA && okB
	}
	before := nested()
	panicked := false
	func() {
		defer func() {
			if recover() != nil {
				panicked = true
			}
		}()
		boom := func(at string) {
			if at == point {
				panic("verif: user callback panics")
			}
		}
		if side == "server" {
			c19nUpgrade("p", "custom", boom)
		} else {
			c19nDial("p", "101", boom)
		}
	}()
	// twice: a reader or writer put back twice is handed to the next TWO takers
	after := nested() && nested()
	c.emit("C19Q %s %s -> %d %d %d", side, point, b2i(before), b2i(after), b2i(panicked))
}

func r9Panics(c *ctx) {
	for _, p := range []string{"onrequest", "onhost", "onheader", "onbefore", "protocol", "extension", "header"} {
		c19Q(c, "server", p)
	}
	for _, p := range []string{"onheader", "header"} {
		c19Q(c, "client", p)
	}
	_ = io.EOF
	_ = strings.Repeat
	_ = httphead.Option{}
	_ = ws.OpText
}

// NFC: the frame constructors: the header announces exactly the payload given (length, opcode, FIN, no reserved bits, no
// mask), the payload is the bytes given, and the frame written is the header codec ++ payload (judged by C01F's rule on
// the bytes).  NFC <ctor> <fin> <payload> -> <fin> <rsv> <op> <masked> <len> <payload> <compiled bytes>
func nfc(c *ctx, ctor string, fin bool, p []byte) {
	var f ws.Frame
	switch ctor {
	case "frame1":
		f = ws.NewFrame(ws.OpText, fin, p)
	case "frame2":
		f = ws.NewFrame(ws.OpBinary, fin, p)
	case "frame0":
		f = ws.NewFrame(ws.OpContinuation, fin, p)
	case "text":
		f = ws.NewTextFrame(p)
	case "binary":
		f = ws.NewBinaryFrame(p)
	case "ping":
		f = ws.NewPingFrame(p)
	case "pong":
		f = ws.NewPongFrame(p)
	case "close":
		f = ws.NewCloseFrame(p)
	}
	comp, _ := ws.CompileFrame(f)
	c.emit("NFC %s %d %s -> %d %d %d %d %d %s %s", ctor, b2i(fin), hx(p), b2i(f.Header.Fin), f.Header.Rsv, f.Header.OpCode, b2i(f.Header.Masked), f.Header.Length, hx(f.Payload), hx(comp))
}

func r9NFC(c *ctx) {
	for _, n := range []int{0, 1, 2, 124, 125, 126, 127, 65535, 65536} {
		p := c.payload(n)
		for _, ctor := range []string{"frame1", "frame2", "frame0", "text", "binary", "ping", "pong", "close"} {
			if n > 125 && (ctor == "ping" || ctor == "pong" || ctor == "close") && n > 127 {
				continue
			}
			nfc(c, ctor, true, p)
			if strings.HasPrefix(ctor, "frame") {
				nfc(c, ctor, false, p)
			}
		}
	}
}

// C20D: the conn's SetDeadline / SetReadDeadline / SetWriteDeadline FAIL (a transport without deadline support). Whatever
// Dial makes of it: a non-nil error only after closing the conn, a nil error only with a completed handshake.
//
//	C20D <ctx kind> <tmo 0|1> -> <error class> <closed at return 0|1> <handshake bytes answered 0|1>
type c20dConn struct {
	c16dConn
	closed int32
}

var errNoDeadline = errors.New("verif: deadlines are not supported")

func (f *c20dConn) Close() error                     { atomic.StoreInt32(&f.closed, 1); return nil }
func (f *c20dConn) SetDeadline(time.Time) error      { return errNoDeadline }
func (f *c20dConn) SetReadDeadline(time.Time) error  { return errNoDeadline }
func (f *c20dConn) SetWriteDeadline(time.Time) error { return errNoDeadline }

func c20D(c *ctx, kind string, tmo bool, full bool) {
	ctx := context.Background()
	var cancel context.CancelFunc = func() {}
	switch kind {
	case "cancel":
		ctx, cancel = context.WithCancel(ctx)
	case "deadline":
		ctx, cancel = context.WithTimeout(ctx, time.Minute)
	}
	defer cancel()
	k := 40 // the response is cut after 40 bytes by a timeout-type read error ...
	if full {
		k = 1 << 20 // ... or delivered completely
	}
	fc := &c20dConn{c16dConn: c16dConn{k: k}}
	d := ws.Dialer{NetDial: func(ctx context.Context, network, addr string) (net.Conn, error) { return fc, nil }}
	if tmo {
		d.Timeout = time.Minute
	}
	cls, at := "hang", 0
	done := make(chan struct{})
	go func() {
		defer close(done)
		defer func() {
			if recover() != nil {
				cls = "panic"
			}
		}()
		_, br, _, err := d.Dial(ctx, "ws://c20d.example/")
		at = int(atomic.LoadInt32(&fc.closed))
		if br != nil {
			ws.PutReader(br)
		}
		cls = errClass(err)
	}()
	select {
	case <-done:
	case <-time.After(3 * time.Second):
	}
	c.emit("C20D %s %d %d -> %s %d", kind, b2i(tmo), b2i(full), cls, at)
}

func r9C20D(c *ctx) {
	for _, kind := range []string{"bg", "cancel", "deadline"} {
		for _, tmo := range []bool{false, true} {
			c20D(c, kind, tmo, false)
			c20D(c, kind, tmo, true)
		}
	}
}

// r9-C08: a caller that goes on writing AFTER the control writer refused a write (ErrControlOverflow changes nothing,
// also for what follows)
func r9C08(c *ctx) {
	for _, side := range []byte{1, 2} {
		for _, op := range []byte{9, 8} {
			for _, ctor := range []string{"n", "b131", "b135", "b300", "b38"} {
				for _, ws := range []string{"100/1,30/2,100/3", "125/1,1/2,1/3", "100/1,26/2,20/3,5/4", "126/1,5/2", "60/1,70/2,60/3,10/4,1/5", "30/1,5/2,100/3,1/4"} {
					runWC(c, side, op, ctor, ws)
				}
			}
		}
	}
}

// r9-C06b: an extension that decides from the HEADER it is shown (its Length): what it sees for a buffered fragment must be
// the frame that leaves. WXL <cfg> <ops> -> per frame: <length the extension saw>:<rsv>:<payload length on the wire>
func runWXL(c *ctx, cfg wcfg, ops string) {
	dst := newRecWriter()
	w, pan := newWriter(dst, cfg)
	if pan {
		return
	}
	var seen []int64
	w.SetExtensions(wsutil.SendExtensionFunc(func(h ws.Header) (ws.Header, error) {
		seen = append(seen, h.Length)
		if h.Length%2 == 1 { // marks frames of odd length with RSV2
			h.Rsv |= 0x2
		}
		return h, nil
	}))
	runWops(w, dst, strings.Split(ops, ","))
	var parts []string
	r := bytes.NewReader(dst.all())
	i := 0
	for r.Len() > 0 {
		f, err := ws.ReadFrame(r)
		if err != nil {
			parts = append(parts, "cut")
			break
		}
		s := int64(-1)
		if i < len(seen) {
			s = seen[i]
		}
		parts = append(parts, fmt.Sprintf("%d:%d:%d", s, f.Header.Rsv, len(f.Payload)))
		i++
	}
	if len(parts) == 0 {
		parts = []string{"-"}
	}
	c.emit("WXL %s %s -> %s %d", cfg.tok(), ops, strings.Join(parts, ","), len(seen))
}

func r9C06(c *ctx) {
	for _, side := range []byte{1, 2} {
		for _, ctor := range []string{"s8", "s125", "d0"} {
			cfg := wcfg{ctor, side | 4, 2, "-"}
			runWXL(c, cfg, "w3/1,fl,w4/2,fl")
			runWXL(c, cfg, "w5/1,ff,w6/2,ff,w1/3,fl")
			runWXL(c, cfg, "w300/1,w7/2,fl,t9/3,w2/4,fl")
			runWXL(c, cfg, "r101/1/-,fl,w0/2,fl")
		}
	}
}

// r9-C18: the decompression reader re-used after a message that was taken with io.ReadFull of its KNOWN length (not read
// to EOF: the decompressor stops inside the appended tail), sources with and without ReadByte. FRF <n1> <n2> <kinds> ->
// <reused result> <fresh result> <fresh is right 0|1>
func frf(c *ctx, n1, n2, kinds int) {
	ctor := func(w io.Writer) wsflate.Compressor { f, _ := flate.NewWriter(w, 6); return f }
	dctor := func(r io.Reader) wsflate.Decompressor { return flate.NewReader(r) }
	comp := func(m []byte) []byte {
		var buf bytes.Buffer
		w := wsflate.NewWriter(&buf, ctor)
		w.Write(m)
		w.Flush()
		return buf.Bytes()
	}
	m1, m2 := patBytes(n1, 3), patBytes(n2, 5)
	c1, c2 := comp(m1), comp(m2)
	mk := func(byteReader bool, data []byte) io.Reader {
		if byteReader {
			return bytes.NewReader(data)
		}
		return plainReader{bytes.NewReader(data)}
	}
	one := func(f func() string) (out string) {
		out = "panic"
		res := fzRun(func() error { out = f(); return nil })
		if res.class == "panic" || res.class == "hang" {
			out = res.class
		}
		return out
	}
	ra := one(func() string {
		r := wsflate.NewReader(mk(kinds&1 != 0, c1), dctor)
		got := make([]byte, len(m1))
		if _, err := io.ReadFull(r, got); err != nil || !bytes.Equal(got, m1) {
			return "shortfirst"
		}
		r.Reset(mk(kinds&2 != 0, c2))
		out, err := ioutil.ReadAll(r)
		return fmt.Sprintf("%s.%s.%s", hx(out), readErrClass(err), readErrClass(r.Err()))
	})
	rb := one(func() string {
		f := wsflate.NewReader(mk(kinds&2 != 0, c2), dctor)
		out, err := ioutil.ReadAll(f)
		return fmt.Sprintf("%s.%s.%s", hx(out), readErrClass(err), readErrClass(f.Err()))
	})
	want := fmt.Sprintf("%s.nil.nil", hx(m2))
	c.emit("FRF %d %d %d -> %s %s %d", n1, n2, kinds, ra, rb, b2i(rb == want))
}

func r9C18(c *ctx) {
	for _, n1 := range []int{1, 10, 300, 5000} {
		for kinds := 0; kinds < 4; kinds++ {
			frf(c, n1, 40+n1%7, kinds)
		}
	}
}

// r9-C16b: a source that reports an error ONCE, together with payload bytes, and then goes on delivering (a read deadline
// that expired once): the bytes of a frame were interrupted by a transport error, so the read API that was in flight
// reports it - a message must not come back complete with a nil error as if nothing had happened.
//
//	RDT <side> <frames> <k> <api> -> <error seen 0|1> <messages delivered>
type onceErrReader struct {
	data  []byte
	at    int
	fired bool
	pos   int
}

func (r *onceErrReader) Read(p []byte) (int, error) {
	if r.pos >= len(r.data) {
		return 0, io.EOF
	}
	end := len(r.data)
	if !r.fired && r.pos < r.at && r.at < end {
		end = r.at
	}
	n := copy(p, r.data[r.pos:end])
	r.pos += n
	if !r.fired && r.pos == r.at && n > 0 {
		r.fired = true
		return n, errTimeout
	}
	return n, nil
}

func runRDT(c *ctx, side byte, fs []sframe, k int, api string) {
	w := wireOf(fs)
	src := &onceErrReader{data: w, at: k}
	sawErr, msgs := 0, 0
	res := fzRun(func() error {
		switch api {
		case "readmessage":
			for i := 0; i < len(fs)+1; i++ {
				ms, err := wsutil.ReadMessage(src, ws.State(side), nil)
				if err != nil {
					if err != io.EOF {
						sawErr = 1
					}
					return nil
				}
				msgs += len(ms)
			}
		default:
			var evs []event
			var ms wsflate.MessageState
			rd := newReader(src, rcfg{state: side, chk: true, cb: 1}, &evs, &ms)
			for i := 0; i < len(fs)+1; i++ {
				if _, err := rd.NextFrame(); err != nil {
					if err != io.EOF {
						sawErr = 1
					}
					return nil
				}
				if _, err := ioutil.ReadAll(rd); err != nil {
					sawErr = 1
					return nil
				}
				msgs++
			}
		}
		return nil
	})
	cls := "ok"
	if res.class == "panic" || res.class == "hang" {
		cls = res.class
	}
	c.emit("RDT %d %s %d %s -> %d %d %s", side, framesTok(fs), k, api, sawErr, msgs, cls)
}

func r9RDT(c *ctx) {
	for _, side := range []byte{1, 2} {
		f1, f2 := c.mkFrame(side, true, 2, 40), c.mkFrame(side, true, 1, 0)
		f2.payload = []byte("second message")
		fs := []sframe{f1, f2}
		w := wireOf(fs)
		for k := 1; k < len(w); k += 1 + k/6 {
			runRDT(c, side, fs, k, "readmessage")
			runRDT(c, side, fs, k, "reader")
		}
	}
}

// r9-C04: messages beyond 64 KiB through the ReadData family (one frame, and fragments that together cross the mark),
// followed by a second message
func r9BigRX(c *ctx) {
	sizes := []int{65535, 65536, 65537, 70000}
	if c.thor {
		sizes = append(sizes, 131073, 200000)
	}
	for _, side := range []byte{1, 2} {
		for i, n := range sizes {
			whole := c.mkFrame(side, true, 2, 0)
			whole.payload = patBytes(n, 7)
			next := c.mkFrame(side, true, 1, 0)
			next.payload = []byte("next")
			runRX(c, "RX", side, []string{"data", "binary"}[i%2], []sframe{whole, next}, "-", "-", "eof")
			a, b := c.mkFrame(side, false, 2, 0), c.mkFrame(side, true, 0, 0)
			a.payload, b.payload = whole.payload[:n-40000], whole.payload[n-40000:]
			runRX(c, "RX", side, "data", []sframe{a, b, next}, "-", "r4096", "eof")
		}
	}
}

// r9-C19: control frames WITH payloads of every size class (pings, pongs, closes) handled concurrently by sessions of both
// roles (race build): package-level scratch state behind a handler shows up as a race, and every reply is still the right one.
//
//	C19K <race build> -> <wrong replies> <race reports>
func c19K(c *ctx) {
	races0 := c19Races()
	var wrong int32
	var wg sync.WaitGroup
	for g := 0; g < 8; g++ {
		wg.Add(1)
		go func(g int) {
			defer wg.Done()
			st := []ws.State{ws.StateClientSide, ws.StateServerSide}[g%2]
			for k := 0; k < 6; k++ {
				for _, n := range []int{1, 30, 62, 63, 100, 125} {
					p := bytes.Repeat([]byte{byte('a' + g)}, n)
					// pong: nothing is written
					d := newRecWriter()
					wsutil.ControlHandler{Src: bytes.NewReader(p), Dst: d, State: st, DisableSrcCiphering: true}.Handle(ws.Header{Fin: true, OpCode: ws.OpPong, Length: int64(n)})
					if len(d.all()) != 0 {
						atomic.AddInt32(&wrong, 1)
					}
					// ping: the pong carries this session's bytes
					d = newRecWriter()
					wsutil.ControlHandler{Src: bytes.NewReader(p), Dst: d, State: st, DisableSrcCiphering: true}.Handle(ws.Header{Fin: true, OpCode: ws.OpPing, Length: int64(n)})
					if f, err := ws.ReadFrame(bytes.NewReader(d.all())); err != nil || f.Header.OpCode != ws.OpPong {
						atomic.AddInt32(&wrong, 1)
					} else {
						if f.Header.Masked {
							ws.Cipher(f.Payload, f.Header.Mask, 0)
						}
						if !bytes.Equal(f.Payload, p) {
							atomic.AddInt32(&wrong, 1)
						}
					}
					// a message written by a client-side session at the same time (random masks)
					wsutil.WriteClientMessage(ioutil.Discard, ws.OpBinary, p)
				}
			}
		}(g)
	}
	wg.Wait()
	c.emit("C19K %s -> %d %d", b2s(raceEnabled), wrong, c19Races()-races0)
}

// r9-C15b: Sec-WebSocket-Version values of every short shape (empty, blank, one character, "13" with blanks, longer
// numerals) through the upgrader: a value or an error, never a panic; and judged by the C09 model
func r9Versions(c *ctx) {
	for _, v := range []string{"", " ", "\t", "1", "3", "13", " 13", "13 ", "\t13\t", "1 3", "013", "13.0", "14", "12", "8", "130", "1313", "13, 8", "8, 13", "x", "-13", "+13", "١٣"} {
		req := "GET /ws HTTP/1.1\r\nHost: example.com\r\nUpgrade: websocket\r\nConnection: Upgrade\r\nSec-WebSocket-Key: dGhlIHNhbXBsZSBub25jZQ==\r\nSec-WebSocket-Version:" + v + "\r\n\r\n"
		fz(c, "up", []byte(req))
		u09(c, "up", 0, 0, "eof", [][]byte{[]byte(req)}, ucfg{})
		req2 := strings.Replace(req, "Sec-WebSocket-Version:", "Sec-WebSocket-Version: ", 1)
		fz(c, "up", []byte(req2))
		u09(c, "up", 0, 0, "eof", [][]byte{[]byte(req2)}, ucfg{})
	}
}
