package main

// C11, third clause — wsutil.DebugDialer / wsutil.DebugUpgrader against the FULL Coq model
// (coq/model/HsDebugFull.v). Kinds:
//   DFD  one DebugDialer.Dial and one plain Dialer.Dial on the same scripted transport. Observed: outcome,
//        handshake, the returned *bufio.Reader (nil or its buffered bytes), what the conn still delivers,
//        the Write calls that reached the conn, the callbacks' arguments; and what net/http did inside the
//        wrapper: the buffer sizes of the Read calls made below net/http (seen from the conn by a stack
//        walk) and, from a second run of http.ReadResponse on the same chunks, its answer
//        (resBuf.Len() - br.Buffered(), or -1) and the bytes captured. These enter the model as the
//        parse_head answer and the read sizes.
//   DFU  the same for DebugUpgrader.Upgrade (plus the order in which the callbacks ran).
//   DBH  a wrapper that blocks where the plain handshake returns (F25, F26), over net.Pipe with a watchdog.
// The generators of DBD / DBU (c11.go, zx_mut.go, zy_cov_b.go) feed these kinds through dbdExtra /
// dbuExtra; more cases (chunks larger than net/http's 4096-byte buffer, heads ending exactly at a read,
// bodies, pipelined bytes) are generated below.

import (
	"bufio"
	"bytes"
	"context"
	"fmt"
	"io"
	"io/ioutil"
	"net"
	"net/http"
	"runtime"
	"strconv"
	"strings"
	"sync"
	"time"

	"github.com/gobwas/ws"
	"github.com/gobwas/ws/wsutil"
)

// belowHTTP: is the caller running below net/http (ReadResponse / ReadRequest / body reads)?
func belowHTTP() bool {
	var pcs [96]uintptr
	n := runtime.Callers(2, pcs[:])
	fr := runtime.CallersFrames(pcs[:n])
	for {
		f, more := fr.Next()
		if strings.HasPrefix(f.Function, "net/http.") || strings.HasPrefix(f.Function, "net/textproto.") {
			return true
		}
		if !more {
			return false
		}
	}
}

// logConn: scripted transport that records, per Read, the buffer size and who asked
type logConn struct {
	net.Conn
	s         *scriptConn
	c         *chunkConn
	httpReads []int
	writes    [][]byte
}

func (l *logConn) Read(p []byte) (int, error) {
	if belowHTTP() {
		l.httpReads = append(l.httpReads, len(p))
	}
	if l.s != nil {
		return l.s.Read(p)
	}
	return l.c.Read(p)
}
func (l *logConn) Write(p []byte) (int, error) {
	l.writes = append(l.writes, append([]byte(nil), p...))
	if l.s != nil {
		return l.s.Write(p)
	}
	return l.c.Write(p)
}
func (l *logConn) Close() error { return nil }

func brTok(br *bufio.Reader) string {
	if br == nil {
		return "nil"
	}
	b := make([]byte, br.Buffered())
	io.ReadFull(br, b)
	return hx(b)
}

func drain(r io.Reader) []byte {
	var out []byte
	buf := make([]byte, 4096)
	for i := 0; i < 1<<16; i++ {
		n, e := r.Read(buf)
		out = append(out, buf[:n]...)
		if e != nil {
			break
		}
	}
	return out
}

// refParse: what http.ReadResponse / ReadRequest (+ body drain) does on these chunks, as the wrappers use it
func refParse(chunks [][]byte, response bool) (ans int, captured []byte, reads []int) {
	lc := &logConn{c: &chunkConn{chunks: cloneChunks(chunks), tail: io.EOF}}
	var buf bytes.Buffer
	br := bufio.NewReader(io.TeeReader(lc, &buf))
	ans = -1
	func() {
		defer func() { recover() }()
		if response {
			resp, err := http.ReadResponse(br, nil)
			if err == nil {
				io.Copy(ioutil.Discard, resp.Body)
				resp.Body.Close()
				ans = buf.Len() - br.Buffered()
			}
		} else {
			req, err := http.ReadRequest(br)
			if err == nil {
				io.Copy(ioutil.Discard, req.Body)
				req.Body.Close()
				ans = buf.Len() - br.Buffered()
			}
		}
	}()
	return ans, append([]byte(nil), buf.Bytes()...), lc.httpReads
}

type dfdObs struct {
	cls             string
	hs              ws.Handshake
	br              string
	rest            []byte
	writes          [][]byte
	nReq, nResp     int
	gotReq, gotResp []byte
	nonce           []byte
	actual          [][]byte
	httpReads       []int
}

func dfdRun(template []byte, sizes []int, rbuf int, cfg dcfg, debug, setReq, setResp bool) (o dfdObs) {
	sc := &scriptConn{template: template, sizes: sizes, tail: io.EOF}
	lc := &logConn{s: sc}
	dl := cfg.dialer(rbuf, 0)
	dl.NetDial = func(ctx context.Context, network, addr string) (net.Conn, error) {
		return scriptNetConnLog{lc: lc}, nil
	}
	func() {
		defer func() {
			if r := recover(); r != nil {
				o.cls = "panic"
			}
		}()
		var conn net.Conn
		var br *bufio.Reader
		var err error
		if debug {
			d := wsutil.DebugDialer{Dialer: dl}
			if setReq {
				d.OnRequest = func(p []byte) { o.nReq++; o.gotReq = append([]byte(nil), p...) }
			}
			if setResp {
				d.OnResponse = func(p []byte) { o.nResp++; o.gotResp = append([]byte(nil), p...) }
			}
			conn, br, o.hs, err = d.Dial(context.Background(), "ws://example.com/ws")
		} else {
			conn, br, o.hs, err = dl.Dial(context.Background(), "ws://example.com/ws")
		}
		o.cls = dialErrClass(err)
		o.br = brTok(br)
		if conn != nil {
			o.rest = drain(conn)
		} else {
			o.rest = drain(lc)
		}
	}()
	o.writes = lc.writes
	o.nonce = sc.nonce
	o.actual = sc.actual
	o.httpReads = lc.httpReads
	return o
}

type scriptNetConnLog struct {
	net.Conn
	lc *logConn
}

func (n scriptNetConnLog) Read(p []byte) (int, error)         { return n.lc.Read(p) }
func (n scriptNetConnLog) Write(p []byte) (int, error)        { return n.lc.Write(p) }
func (n scriptNetConnLog) Close() error                       { return nil }
func (n scriptNetConnLog) SetDeadline(t time.Time) error      { return nil }
func (n scriptNetConnLog) SetReadDeadline(t time.Time) error  { return nil }
func (n scriptNetConnLog) SetWriteDeadline(t time.Time) error { return nil }

func hsTok(cls string, hs ws.Handshake) string {
	if cls != "ok" {
		return "- -"
	}
	return hx([]byte(hs.Protocol)) + " " + encOpts(hs.Extensions)
}

func dfd(c *ctx, template []byte, sizes []int, rbuf int, cfg dcfg, setReq, setResp bool) {
	p := dfdRun(template, sizes, rbuf, cfg, false, false, false)
	d := dfdRun(template, sizes, rbuf, cfg, true, setReq, setResp)
	ans, captured, refReads := -1, []byte(nil), []int(nil)
	if setResp {
		ans, captured, refReads = refParse(d.actual, true)
	}
	same := encInts(refReads) == encInts(d.httpReads)
	c.emit("DFD %s %s %d %s %d %d -> %s %s %s %s %s %s %s %s %s %d %s %d %s %s %s %s %d %s %d",
		hx(template), encInts(sizes), rbuf, cfg.tokens(), b2i(setReq), b2i(setResp),
		p.cls, hsTok(p.cls, p.hs), p.br, hx(p.rest),
		d.cls, hsTok(d.cls, d.hs), d.br, hx(d.rest),
		encChunks(d.writes), d.nReq, hx(d.gotReq), d.nResp, hx(d.gotResp),
		hx(d.nonce), encChunks(d.actual), encInts(d.httpReads), ans, hx(captured), b2i(same))
}

type dfuObs struct {
	cls             string
	hs              ws.Handshake
	out             []byte
	rest            []byte
	nReq, nResp     int
	gotReq, gotResp []byte
	httpReads       []int
	order           string // callbacks in the order they ran: q = OnRequest, r = OnResponse
}

func dfuRun(chunks [][]byte, cfg ucfg, debug, setReq, setResp bool) (o dfuObs) {
	cc := &chunkConn{chunks: cloneChunks(chunks), tail: io.EOF}
	lc := &logConn{c: cc}
	func() {
		defer func() {
			if r := recover(); r != nil {
				o.cls = "panic"
			}
		}()
		var err error
		if debug {
			d := wsutil.DebugUpgrader{Upgrader: cfg.upgrader(0, 0)}
			if setReq {
				d.OnRequest = func(p []byte) { o.nReq++; o.order += "q"; o.gotReq = append([]byte(nil), p...) }
			}
			if setResp {
				d.OnResponse = func(p []byte) { o.nResp++; o.order += "r"; o.gotResp = append([]byte(nil), p...) }
			}
			o.hs, err = d.Upgrade(lc)
		} else {
			o.hs, err = cfg.upgrader(0, 0).Upgrade(lc)
		}
		o.cls = upgradeErrClass(err)
	}()
	o.out = append([]byte(nil), cc.out.Bytes()...)
	o.rest = cc.rest()
	o.httpReads = lc.httpReads
	return o
}

func dfu(c *ctx, req []byte, sizes []int, cfg ucfg, setReq, setResp bool) {
	chunks := splitSizes(req, sizes)
	p := dfuRun(chunks, cfg, false, false, false)
	d := dfuRun(chunks, cfg, true, setReq, setResp)
	ans, captured, refReads := -1, []byte(nil), []int(nil)
	if setReq {
		ans, captured, refReads = refParse(chunks, false)
	}
	same := encInts(refReads) == encInts(d.httpReads)
	if d.order == "" {
		d.order = "-"
	}
	c.emit("DFU %s %s %s %d %d -> %s %s %s %s %s %s %s %s %d %s %d %s %s %s %d %s %d %s",
		hx(req), encInts(sizes), cfg.tokens(), b2i(setReq), b2i(setResp),
		p.cls, hsTok(p.cls, p.hs), hx(p.out), hx(p.rest),
		d.cls, hsTok(d.cls, d.hs), hx(d.out), hx(d.rest),
		d.nReq, hx(d.gotReq), d.nResp, hx(d.gotResp),
		encChunks(chunks), encInts(d.httpReads), ans, hx(captured), b2i(same), d.order)
}

// DBH: the two scenarios in which a debugging wrapper waits for bytes the plain handshake does not need
// (F25: DebugUpgrader and a request announcing a body that is not sent; F26: DebugDialer and a refusal
// without Content-Length on a connection the server keeps open), over net.Pipe, next to the plain
// handshake, each under a 1.5 s watchdog. "hang" = still blocked when the watchdog fires.
const dbhHdrs = "Host: example.com\r\nUpgrade: websocket\r\nConnection: Upgrade\r\nSec-WebSocket-Version: 13\r\nSec-WebSocket-Key: dGhlIHNhbXBsZSBub25jZQ==\r\n"

func dbhServer(debug bool, req string) string {
	cl, sv := net.Pipe()
	defer cl.Close()
	defer sv.Close()
	done := make(chan string, 1)
	go func() {
		var err error
		if debug {
			d := wsutil.DebugUpgrader{OnRequest: func([]byte) {}}
			_, err = d.Upgrade(sv)
		} else {
			_, err = ws.Upgrade(sv)
		}
		done <- upgradeErrClass(err)
	}()
	go func() {
		cl.Write([]byte(req))
		buf := make([]byte, 4096)
		cl.Read(buf) // the client now waits for the 101
	}()
	select {
	case s := <-done:
		return s
	case <-time.After(1500 * time.Millisecond):
		return "hang"
	}
}

func dbhClient(debug bool, resp string) string {
	cl, sv := net.Pipe()
	defer cl.Close()
	defer sv.Close()
	go func() {
		buf := make([]byte, 4096)
		sv.Read(buf)
		sv.Write([]byte(resp)) // answers and keeps the connection open
	}()
	done := make(chan string, 1)
	go func() {
		d := ws.Dialer{NetDial: func(ctx context.Context, n, a string) (net.Conn, error) { return cl, nil }}
		var err error
		if debug {
			dd := wsutil.DebugDialer{Dialer: d, OnResponse: func([]byte) {}}
			_, _, _, err = dd.Dial(context.Background(), "ws://example.com/ws")
		} else {
			_, _, _, err = d.Dial(context.Background(), "ws://example.com/ws")
		}
		done <- dialErrClass(err)
	}()
	select {
	case s := <-done:
		return s
	case <-time.After(1500 * time.Millisecond):
		return "hang"
	}
}

var dbhScenarios = map[string]func(debug bool) string{
	"upgrader-content-length-body-not-sent": func(debug bool) string {
		return dbhServer(debug, "GET /ws HTTP/1.1\r\n"+dbhHdrs+"Content-Length: 5\r\n\r\n")
	},
	"dialer-refusal-without-content-length": func(debug bool) string {
		return dbhClient(debug, "HTTP/1.1 400 Bad Request\r\nX: y\r\n\r\n")
	},
	// controls: the same exchanges without the open-ended body
	"upgrader-plain-request": func(debug bool) string {
		return dbhServer(debug, "GET /ws HTTP/1.1\r\n"+dbhHdrs+"\r\n")
	},
	"dialer-refusal-with-content-length": func(debug bool) string {
		return dbhClient(debug, "HTTP/1.1 400 Bad Request\r\nContent-Length: 2\r\n\r\nno")
	},
}

// dbh runs the given scenarios concurrently (plain and wrapped side by side) and emits one line each
func dbh(c *ctx, names []string) {
	type res struct{ plain, debug string }
	out := make([]res, len(names))
	var wg sync.WaitGroup
	for i, n := range names {
		f := dbhScenarios[n]
		if f == nil {
			continue
		}
		wg.Add(2)
		go func(i int) { defer wg.Done(); out[i].plain = f(false) }(i)
		go func(i int) { defer wg.Done(); out[i].debug = f(true) }(i)
	}
	wg.Wait()
	for i, n := range names {
		if dbhScenarios[n] != nil {
			c.emit("DBH %s -> plain=%s debug=%s", n, out[i].plain, out[i].debug)
		}
	}
}

func init() {
	// quick tier: every second generator call feeds the full-model kinds (the thorough tier: all of them)
	nd := 0
	dbdExtra = func(c *ctx, template []byte, sizes []int, rbuf int, cfg dcfg, setReq, setResp bool) {
		nd++
		if c.thor || nd%2 == 0 {
			dfd(c, template, sizes, rbuf, cfg, setReq, setResp)
		}
	}
	dbuExtra = dfu
	replayers["DFD"] = func(c *ctx, in []string) {
		rb, _ := strconv.Atoi(in[2])
		dfd(c, unhx(in[0]), decInts(in[1]), rb, decDcfg(in[3:8]), in[8] == "1", in[9] == "1")
	}
	replayers["DFU"] = func(c *ctx, in []string) {
		dfu(c, unhx(in[0]), decInts(in[1]), decUcfg(in[2:10]), in[11] == "1", in[12] == "1")
	}
	replayers["DBH"] = func(c *ctx, in []string) { dbh(c, []string{in[0]}) }
	old := props["C11"]
	props["C11"] = func(c *ctx) {
		if old != nil {
			old(c)
		}
		dbgFullCases(c)
	}
}

// padHeaders: exactly n bytes (n = 0 or n >= 8; 1..7 are rounded up to 8) of short header lines (long single lines make the
// extracted model slow: Coq's List.rev is quadratic)
func padHeaders(n int, eol string) string {
	var b strings.Builder
	if n > 0 && n < 8 {
		n = 8
	}
	for n > 0 {
		k := 60
		if n-k < 8 {
			k = n
		}
		b.WriteString("X-P: " + strings.Repeat("p", k-5-len(eol)) + eol)
		n -= k
	}
	return b.String()
}

func dbgFullCases(c *ctx) {
	dbh(c, []string{"upgrader-content-length-body-not-sent", "dialer-refusal-without-content-length",
		"upgrader-plain-request", "dialer-refusal-with-content-length"})
	head := func(eol string, extra ...string) string {
		s := "HTTP/1.1 101 Switching Protocols" + eol + "Upgrade: websocket" + eol + "Connection: Upgrade" + eol +
			"Sec-WebSocket-Accept: @@ACCEPT@@" + eol
		for _, x := range extra {
			s += x
		}
		return s + eol
	}
	frames := "\x81\x05hello\x81\x02yo"
	big := strings.Repeat("\x82\x7e\x01\x00"+strings.Repeat("z", 256), 40) // 10400 bytes of frames
	// 1. heads around net/http's 4096-byte buffer, one chunk or several, CRLF / LF, frames of all sizes behind
	mid := strings.Repeat("\x82\x7e\x01\x00"+strings.Repeat("z", 256), 6)
	for _, eol := range []string{"\r\n", "\n"} {
		base := len(head(eol))
		pads := []int{0, 3900, 4096 - base - 1, 4096 - base, 4096 - base + 1, 5000}
		if c.thor {
			pads = append(pads, 1, 4096-base-2, 4096-base+2, 4096-base-len(frames), 8192-base, 9000)
		}
		for _, pad := range pads {
			h := head(eol, padHeaders(pad, eol))
			for _, tr := range []string{"", frames, mid} {
				szs := [][]int{nil, {len(h)}, {len(h) - 1, 1, 3}, {4096}, {len(h) + 3}}
				rbs := []int{0, 16}
				if c.thor {
					szs = append(szs, []int{4095, 2}, []int{4097}, []int{1000}, []int{1})
					rbs = append(rbs, 64, 8192)
				}
				for _, sz := range szs {
					for _, rb := range rbs {
						dfd(c, []byte(h+tr), sz, rb, dcfg{}, true, true)
					}
				}
			}
		}
		// chunks and buffers larger than net/http's buffer
		for _, pad := range []int{0, 4096 - base, 9000} {
			h := head(eol, padHeaders(pad, eol))
			for _, sz := range [][]int{nil, {4097}, {len(h) + 5000}} {
				dfd(c, []byte(h+big), sz, 8192, dcfg{}, true, true)
				dfd(c, []byte(h+big), sz, 0, dcfg{}, true, true)
			}
		}
	}
	// 2. callbacks set or not
	for i := 0; i < 4; i++ {
		for _, eol := range []string{"\r\n", "\n"} {
			dfd(c, []byte(head(eol)+frames), []int{30, 200}, 16, dcfg{}, i&1 != 0, i&2 != 0)
			dfd(c, []byte(head(eol)+frames), nil, 0, dcfg{protocols: []string{"a"}}, i&1 != 0, i&2 != 0)
		}
	}
	// 3. heads net/http refuses and the Dialer accepts (and mixed line ends), heads both refuse, truncated heads
	for _, t := range []string{
		"HTTP/1.10 101 x\r\nUpgrade: websocket\r\nConnection: Upgrade\r\nSec-WebSocket-Accept: @@ACCEPT@@\r\n\r\n",
		"HTTP/1.10 101 x\nUpgrade: websocket\nConnection: Upgrade\nSec-WebSocket-Accept: @@ACCEPT@@\n\n",
		"HTTP/1.1 101 x\r\nUpgrade: websocket\r\nConnection: Upgrade\r\n: v\r\nSec-WebSocket-Accept: @@ACCEPT@@\r\n\r\n",
		"HTTP/1.10 101 x\nUpgrade: websocket\nConnection: Upgrade\nSec-WebSocket-Accept: @@ACCEPT@@\n\r\n",
		"HTTP/1.1 101 x\r\nUpgrade: websocket\r\nConnection: Upgrade\r\nSec-WebSocket-Accept: @@ACCEPT@@\r\n" + padHeaders(5000, "\r\n") + ": v\r\n\r\n",
		"HTTP/1.1 101 x\r\nUpgrade: websocket\r\nConnection: Upgrade\r\nSec-WebSocket-Accept: @@ACCEPT@@\r\nContent-Length: 5\r\n\r\n",
		"HTTP/1.1 101 x\r\nUpgrade: websocket\r\nConnection: Upgrade\r\nSec-WebSocket-Accept: @@ACCEPT@@\r\nTransfer-Encoding: chunked\r\n\r\n",
		"HTTP/1.1 101 x\r\nUpgrade: websocket\r\nConnection: Upgrade\r\nSec-WebSocket-Accept: @@ACCEPT@@\r\n continued: line\r\n\r\n",
		"HTTP/1.1 101 x\r\nUpgrade: websocket\r\nConnection: Upgrade\r\nSec-WebSocket-Accept: @@ACCEPTX@@\r\n\r\n",
		"HTTP/1.1 400 Bad Request\r\nContent-Length: 5\r\n\r\nhello",
		"HTTP/1.1 400 Bad Request\r\nContent-Length: 5\r\n\r\nhe",
		"HTTP/1.1 400 Bad Request\r\n\r\nbody until the end",
		"HTTP/1.1 200 OK\r\nTransfer-Encoding: chunked\r\n\r\n3\r\nabc\r\n0\r\n\r\n",
		"HTTP/1.1 101 x\r\nUpgrade: websocket\r\nConn", "garbage", "", "\r\n", "\n\n",
	} {
		for _, tr := range []string{"", frames} {
			for _, sz := range [][]int{nil, {7}, {1}, {40, 3, 4096}} {
				for _, rb := range []int{0, 16} {
					dfd(c, []byte(t+tr), sz, rb, dcfg{}, true, true)
				}
			}
		}
	}
	n := 40
	if c.thor {
		n = 400
	}
	for i := 0; i < n; i++ {
		r := baseResp()
		if i%3 == 0 {
			r.eol = eolLF
		}
		if i%5 == 1 {
			r.status = "400"
		}
		for k := c.rng.Intn(70); k > 0; k-- {
			r.lines = append(r.lines, "X-Pad: "+strings.Repeat("p", c.rng.Intn(60)))
		}
		r.trailing = []byte([]string{"", frames, mid}[i%3])
		dfd(c, r.bytes(), randSizes(c), []int{0, 16, 4096, 100}[i%4], dialCfgs[i%len(dialCfgs)], i%7 != 6, i%7 != 5)
	}

	// ---- upgrader ----
	req := func(eol string, extra ...string) string {
		s := "GET /ws HTTP/1.1" + eol + "Host: example.com" + eol + "Upgrade: websocket" + eol + "Connection: Upgrade" + eol +
			"Sec-WebSocket-Version: 13" + eol + "Sec-WebSocket-Key: dGhlIHNhbXBsZSBub25jZQ==" + eol
		for _, x := range extra {
			s += x
		}
		return s + eol
	}
	mframes := "\x81\x85\x01\x02\x03\x04iglhn"
	for _, eol := range []string{"\r\n", "\n"} {
		base := len(req(eol))
		pads := []int{0, 4096 - base - 1, 4096 - base, 4096 - base + 1, 5000}
		if c.thor {
			pads = append(pads, 3900, 4096-base-2, 4096-base+2, 9000)
		}
		for _, pad := range pads {
			q := req(eol, padHeaders(pad, eol))
			for _, tr := range []string{"", mframes, mid} {
				szs := [][]int{nil, {len(q)}, {len(q) - 1, 1, 3}, {4096}, {len(q) + 3}}
				if c.thor {
					szs = append(szs, []int{4095, 2}, []int{1000}, []int{1})
				}
				for _, sz := range szs {
					for i := 0; i < 4; i++ {
						if i != 3 && (!c.thor || len(sz) > 1) && pad != 0 {
							continue
						}
						dfu(c, []byte(q+tr), sz, ucfg{}, i&1 != 0, i&2 != 0)
					}
				}
			}
		}
		q := req(eol)
		dfu(c, []byte(q+big), nil, ucfg{}, true, true)
		dfu(c, []byte(q+big), []int{len(q) + 5000}, ucfg{}, true, true)
	}
	for _, t := range []string{
		req("\r\n", "Content-Length: 5\r\n") + "hello" + mframes,
		req("\r\n", "Content-Length: 5\r\n") + "he",
		req("\r\n", "Transfer-Encoding: chunked\r\n") + "3\r\nabc\r\n0\r\n\r\n" + mframes,
		req("\r\n", ": v\r\n"), req("\r\n", " continued: x\r\n"), req("\r\n", "Host: other.example\r\n"),
		"GET /ws HTTP/1.10\r\nHost: x\r\n\r\n", strings.Replace(req("\r\n"), "HTTP/1.1\r", "HTTP/1.10\r", 1) + mframes, "POST /ws HTTP/1.1\r\nHost: x\r\nContent-Length: 3\r\n\r\nabc",
		"GET /ws HTTP/1.1\r\nHost: example.com\r\nUpgrade: websocket\r\nConn", "garbage", "", "\r\n", "\n\n",
		"GET /ws HTTP/1.1\r\nHost: example.com\r\nUpgrade: nope\r\nConnection: Upgrade\r\nSec-WebSocket-Version: 13\r\nSec-WebSocket-Key: dGhlIHNhbXBsZSBub25jZQ==\r\n\r\n" + mframes,
	} {
		for _, sz := range [][]int{nil, {7}, {1}, {40, 3, 4096}} {
			dfu(c, []byte(t), sz, ucfg{}, true, true)
			dfu(c, []byte(t), sz, ucfg{}, true, false)
		}
	}
	_ = fmt.Sprint
}
