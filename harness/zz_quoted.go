package main

// C11, agreement of both peers for extension parameters whose values need httphead's
// quoted-string form (Coq: model/HsAgreeQ.v, proofs/HsQuotedProofs.v).
//
// Every case is the ordinary agreement run a11 (real ws.Dialer.Upgrade against real
// ws.Upgrader.Upgrade).  The parameter values of the offers and of the Negotiate answers are
// classified here, FROM THE INPUT, against the exact write/scan frontier qv_ok:
//   in      value empty, a token, or free of backslashes and not ending in '"' / DEL
//   endq    value ends in '"'           enddel  value ends in DEL
//   bsl     value contains a backslash  bslend  an ANSWER value ends in a backslash
// Cases whose values are all "in" are emitted as ordinary A11 lines (any disagreement is a
// violation).  The others are emitted as
//   A11Q q=<class> <the A11 inputs> -> <the A11 outputs>
// judged by the same monitor (ocaml/k_zz_quoted.ml); disagreement there is finding F23.

import (
	"bufio"
	"bytes"
	"strings"

	"github.com/gobwas/httphead"
)

func qClassValue(v []byte) string {
	if len(v) == 0 {
		return "in"
	}
	tok := true
	for _, c := range v {
		if !httphead.OctetTypes[c].IsToken() {
			tok = false
		}
	}
	if tok {
		return "in"
	}
	switch {
	case v[len(v)-1] == '"':
		return "endq"
	case v[len(v)-1] == 127:
		return "enddel"
	case bytes.IndexByte(v, '\\') >= 0:
		return "bsl"
	}
	return "in"
}

func qClassCase(dc dcfg, uc ucfg) string {
	cls := "in"
	see := func(o httphead.Option, answer bool) {
		o.Parameters.ForEach(func(k, v []byte) bool {
			c := qClassValue(v)
			if answer && len(v) > 0 && v[len(v)-1] == '\\' {
				c = "bslend"
			}
			if c != "in" && (cls == "in" || c == "bslend") {
				cls = c
			}
			return true
		})
	}
	for _, o := range dc.exts {
		see(o, false)
	}
	if uc.neg != nil {
		for _, e := range *uc.neg {
			if e.action == 'a' {
				see(e.opt, true)
			}
		}
	}
	return cls
}

func a11q(c *ctx, drbuf, dwbuf, urbuf, uwbuf int, reqSizes, respSizes []int, urlstr string, dc dcfg, uc ucfg, trailing []byte) {
	cls := qClassCase(dc, uc)
	if cls == "in" {
		a11(c, drbuf, dwbuf, urbuf, uwbuf, reqSizes, respSizes, urlstr, dc, uc, trailing)
		return
	}
	var buf bytes.Buffer
	sub := &ctx{w: bufio.NewWriter(&buf), rng: c.rng, tier: c.tier, thor: c.thor, args: c.args}
	a11(sub, drbuf, dwbuf, urbuf, uwbuf, reqSizes, respSizes, urlstr, dc, uc, trailing)
	sub.w.Flush()
	for _, line := range strings.Split(strings.TrimRight(buf.String(), "\n"), "\n") {
		if strings.HasPrefix(line, "A11 ") {
			c.emit("A11Q q=%s %s", cls, line[4:])
		} else if line != "" {
			c.emit("%s", line)
		}
	}
}

// values inside the frontier: must agree exactly (theorem C11_agreement_extensions_quoted)
var quotedInside = []string{
	"needs quoting", "a,b", "a;b", "a=b", "a, b; c=d", "a\"b", "\"a", "\"\"a", "a\x7fb", "\x7fa", " lead", "trail ", " ",
	"\x00\x01\x1f", "\xff\xfe\x80", "a\rb", "a\tb", "\r", "(paren)", ")", "a/b", "[x]", "{y}", "a:b", "q?", "<tag>", "@",
	"x" + strings.Repeat(" y", 40), strings.Repeat("long value, ", 60) + "end", strings.Repeat("q\"", 30) + "e",
	strings.Repeat("z ", 2500) + "z",
}

// values outside the frontier: what each peer reports is given by theorem
// C11_both_succeed_dialer_reports_scanned; they may differ (C11_quoted_refuted, F23)
var quotedOutside = []string{
	"a\"", "a\"\"", "\"", "\"\"", "a b\"", "a\x7f", "a\x7f\x7f", "\x7f", "a\"\x7f", "a\\b", "a\\\\b", "\\ ", "\\a", "a\"\\b",
	"a\\\"", "a\\", "\\", "a b\\", "x\\y z", strings.Repeat("long value, ", 30) + "\"", strings.Repeat("w ", 600) + "\\\"q\"",
}

var quotedAnswersOutside = []string{"z\"", "z\x7f", "z\\b", "z \"\"", "z\\"}

func runQuoted(c *ctx) {
	pickBuf := func() int { return bufSizes[c.rng.Intn(len(bufSizes))] }
	run := func(dc dcfg, uc ucfg) {
		var trailing []byte
		if c.rng.Intn(2) == 0 {
			trailing = bytes.Repeat([]byte("\x81\x02hi"), 1+c.rng.Intn(3))
		}
		a11q(c, pickBuf(), pickBuf(), pickBuf(), pickBuf(), randSizes(c), randSizes(c), "ws://example.com/ws", dc, uc, trailing)
	}
	servers := func(answer string) []ucfg {
		echo := []negEntry{{name: "x", action: 'e'}, {name: "y", action: 'e'}}
		us := []ucfg{
			{ext: &[]string{"x", "y"}},
			{ext: &[]string{"y"}},
			{neg: &echo},
			{proto: &[]string{"chat"}, ext: &[]string{"x"}},
			{},
		}
		if answer != "" {
			ans := []negEntry{{name: "x", action: 'a', opt: optp("x", "r", answer, "s", "1")}, {name: "y", action: 'e'}}
			us = append(us, ucfg{neg: &ans})
		}
		return us
	}
	offersFor := func(v string) [][]httphead.Option {
		return [][]httphead.Option{
			{optp("x", "k", v)},
			{optp("x", "a", "1", "k", v, "f", ""), optp("y", "t", "tok")},
			{optp("y", "f", "", "k", v), optp("x", "k", v, "k2", v)},
		}
	}
	each := func(vals []string, answers []string) {
		for vi, v := range vals {
			if !c.thor && len(v) > 800 {
				v = v[:400] + v[len(v)-400:] // quick tier: the very long values shortened (the model run is quadratic in them)
			}
			for oi, offer := range offersFor(v) {
				if !c.thor && oi > 0 && (vi+oi)%3 != 0 {
					continue
				}
				ans := ""
				if len(answers) > 0 {
					ans = answers[(vi+oi)%len(answers)]
				}
				for ui, uc := range servers(ans) {
					if !c.thor && oi > 0 && ui%2 == 1 {
						continue
					}
					dc := dcfg{exts: offer}
					if uc.proto != nil {
						dc.protocols = []string{"chat", "superchat"}
					}
					run(dc, uc)
				}
			}
		}
	}
	// inside the frontier on offers and answers
	each(quotedInside, quotedInside)
	// outside on the offers (answers inside)
	each(quotedOutside, []string{"1 2", "a\"b"})
	// token offers, answers outside
	for _, a := range quotedAnswersOutside {
		ans := []negEntry{{name: "x", action: 'a', opt: optp("x", "r", a)}}
		run(dcfg{exts: []httphead.Option{optp("x", "k", "v")}}, ucfg{neg: &ans})
		ans2 := []negEntry{{name: "y", action: 'e'}, {name: "x", action: 'a', opt: optp("x", "s", "1", "r", a, "t", "")}}
		run(dcfg{exts: []httphead.Option{optp("y", "k", "in side"), optp("x")}}, ucfg{neg: &ans2})
	}
	// random octet strings (classified by qClassCase like the rest)
	n := 60
	if c.thor {
		n = 600
	}
	alpha := []byte(" ,;=\"\\\x7f\x00\r\t()ab1-\x80\xff")
	for i := 0; i < n; i++ {
		mk := func() string {
			b := make([]byte, 1+c.rng.Intn(12))
			for j := range b {
				b[j] = alpha[c.rng.Intn(len(alpha))]
			}
			return string(b)
		}
		offer := []httphead.Option{optp("x", "k", mk())}
		if c.rng.Intn(2) == 0 {
			offer = append(offer, optp("y", "a", mk(), "b", mk()))
		}
		ss := servers(mk())
		run(dcfg{exts: offer}, ss[c.rng.Intn(len(ss))])
	}
}

// quoted strings as they can only appear ON THE WIRE (WriteOptions never emits them): empty quoted
// value, escaped quote / backslash, backslash before the closing quote, a long quoted value.
// Single peers under many chunkings and buffer sizes (CIU / CID).
var quotedWire = []string{
	"x; k=\"\"", "x; k=\"\"; f", "x; k=\"a\\\"b\"", "x; k=\"a\\\\b\"", "x; k=\"a\\\\\"", "x; k=\"a\\\"", "x; k=\"a b\", y",
	"x; k=\"a,b;c=d\"; f, y; t=\" \"", "x; k=\"" + strings.Repeat("long value, ", 40) + "\"; tail=1", "x; k=\"a\\b\"", "x; k=\"a\x7fb\"",
	"x; k=\"\\\"\\\"\"", "x; \"k\"=1", "\"x\"; k=1",
}

func runQuotedWire(c *ctx) {
	for _, xv := range quotedWire {
		r := baseReq()
		r.lines = append(canonLines(""), "Sec-WebSocket-Extensions: "+xv)
		req := r.bytes()
		echo := []negEntry{{name: "x", action: 'e'}, {name: "y", action: 'd'}}
		for _, uc := range []ucfg{{ext: &[]string{"x", "y"}}, {neg: &echo}} {
			ciu(c, req, uc, standardPlans(c, len(req), false))
		}
		rr := baseResp()
		rr.lines = append(rr.lines, "Sec-WebSocket-Extensions: "+xv)
		rr.trailing = []byte("\x81\x01z")
		b := rr.bytes()
		cid(c, b, dcfg{exts: []httphead.Option{optp("x", "k", "v"), optp("y")}}, standardPlans(c, len(b), false))
	}
}

func init() {
	old := props["C11"]
	props["C11"] = func(c *ctx) {
		if old != nil {
			old(c)
		}
		runQuoted(c)
		runQuotedWire(c)
	}
	replayers["A11Q"] = func(c *ctx, in []string) {
		if a := replayers["A11"]; a != nil {
			// re-run through a11q: the class is recomputed from the inputs
			n := func(i int) int {
				v := 0
				for _, ch := range in[i] {
					v = v*10 + int(ch-'0')
				}
				return v
			}
			in = in[1:]
			a11q(c, n(0), n(1), n(2), n(3), decInts(in[4]), decInts(in[5]), string(unhx(in[6])), decDcfg(in[7:12]), decUcfg(in[12:20]), unhx(in[21]))
		}
	}
}
