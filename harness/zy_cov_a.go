package main

// Coverage-driven cases, framing / messaging side (tools/coverage.sh): entry points and branches of
// the library that no generator executed. Every new kind is either an ALIAS of an existing kind (the
// same observation format produced through another public entry point, judged by the same monitor
// and model in ocaml/k_y_cov.ml) or comes with a small monitor of its own there.
//
//	YRD / YRC   <variant> + RD / RC line     Reader built by NewReader / NewClientSideReader / NewServerSideReader
//	                                         ("ctor"), the package function NextReader ("next"), a reader with a
//	                                         recording OnContinuation ("oncont"), the compression state attached
//	                                         through the RecvExtensionFunc adapter ("extfn")
//	YRM / YRMC  <variant> + RM / RMC line    ReadClientMessage / ReadServerMessage
//	YC01G, YC01F                             MustReadFrame; MustWriteFrame + MustCompileFrame
//	YRSV                                     Header.Rsv1/Rsv2/Rsv3, ws.Rsv, ws.RsvBits against the RFC bit positions
//	YMW                                      WriteFrame / MustWriteFrame on a failing destination
//	YWM, YC17W                               WriteClientText/Binary, WriteServerText/Binary
//	YWZ                                      Writer.ReadFrom from a source that returns (0, nil)
//	YWX         <variant> + WHX line         MessageState attached through the SendExtensionFunc adapter
//	YCHF                                     control handlers writing their reply to a failing destination
//	YC12H       <variant> + C12H line        package-level CompressFrameBuffer / DecompressFrameBuffer
//	YC12E                                    Helper over compressors / decompressors that fail or break the tail rule
//	YFWR                                     wsflate.Reader whose decompressor has its own Reset; failed Close
import (
	"bytes"
	"compress/flate"
	"errors"
	"fmt"
	"io"
	"io/ioutil"
	"strconv"
	"strings"

	"github.com/gobwas/ws"
	"github.com/gobwas/ws/wsflate"
	"github.com/gobwas/ws/wsutil"
)

func init() {
	covWrapA := func(id string, extra func(*ctx)) {
		old := props[id]
		props[id] = func(c *ctx) {
			if old != nil {
				old(c)
			}
			extra(c)
		}
	}
	covWrapA("C01", covC01)
	covWrapA("C04", covC04)
	covWrapA("C05", covC05)
	covWrapA("C06", covC06)
	covWrapA("C07", covC07)
	covWrapA("C08", covC08)
	covWrapA("C12", covC12)
	covWrapA("C13", covC13)
	covWrapA("C16", covC16)
	covWrapA("C17", covC17)
	covWrapA("C18", covC18)

	for _, k := range []string{"YRD", "YRC"} {
		kind := k
		replayers[kind] = func(c *ctx, in []string) {
			covRD(c, kind, in[0], parseCfg(in[1]), parseFrames(in[2]), in[3], in[4], in[5], in[6])
		}
	}
	for _, k := range []string{"YRM", "YRMC"} {
		kind := k
		replayers[kind] = func(c *ctx, in []string) {
			st, _ := strconv.Atoi(in[1])
			covRM(c, kind, in[0], byte(st), parseFrames(in[2]), in[3], in[4], in[5])
		}
	}
	replayers["YC01G"] = func(c *ctx, in []string) { covC01G(c, unhx(in[0]), in[1], in[2]) }
	replayers["YC01F"] = func(c *ctx, in []string) { covC01F(c, parseHdr(in), unhx(in[6]), unhx(in[7]), in[8]) }
	replayers["YRSV"] = func(c *ctx, in []string) {
		b, _ := strconv.Atoi(in[0])
		covRSV(c, byte(b))
	}
	replayers["YMW"] = func(c *ctx, in []string) {
		k, _ := strconv.Atoi(in[7])
		covMW(c, parseHdr(in), unhx(in[6]), k)
	}
	replayers["YWM"] = func(c *ctx, in []string) {
		j, _ := strconv.Atoi(in[2])
		covWM(c, in[0], unhx(in[1]), byte(j))
	}
	replayers["YC17W"] = replayers["YWM"] // both lines come from the same run
	replayers["YWZ"] = func(c *ctx, in []string) { covWZ(c, parseWcfg(in[0]), in[1]) }
	replayers["YWX"] = func(c *ctx, in []string) { covWX(c, in[0], parseWcfg(in[1]), in[2], in[3]) }
	replayers["YCHF"] = func(c *ctx, in []string) {
		var side, op, k int
		fmt.Sscan(in[0], &side)
		fmt.Sscan(in[1], &op)
		fmt.Sscan(in[6], &k)
		covCHF(c, byte(side), byte(op), unhx(in[2]), in[3], in[4], in[5], k)
	}
	replayers["YC12H"] = func(c *ctx, in []string) {
		rsv, _ := strconv.Atoi(in[3])
		opc, _ := strconv.Atoi(in[4])
		var mask [4]byte
		copy(mask[:], unhx(in[6]))
		p := unhx(in[7])
		if in[1] == "d" {
			p = unhx(in[8])
		}
		covC12H(c, in[0], in[1], in[2] == "1", byte(rsv), byte(opc), in[5] == "1", mask, p)
	}
	replayers["YC12E"] = func(c *ctx, in []string) { covC12E(c, in[0], in[1], in[2], unhx(in[3])) }
	replayers["YFWR"] = func(c *ctx, in []string) {
		lv, _ := strconv.Atoi(in[3])
		covFWR(c, unhx(in[0]), unhx(in[1]), in[2], lv)
	}
}

// ---------------------------------------------------------------- message reader entry points

// covReader builds the Reader of the given variant (see the table at the top of the file).
func covReader(variant string, src io.Reader, c rcfg, evs *[]event, ms *wsflate.MessageState, ncont *int) *wsutil.Reader {
	var rd *wsutil.Reader
	switch variant {
	case "ctor":
		switch ws.State(c.state) {
		case ws.StateClientSide:
			rd = wsutil.NewClientSideReader(src)
		case ws.StateServerSide:
			rd = wsutil.NewServerSideReader(src)
		default:
			rd = wsutil.NewReader(src, ws.State(c.state))
		}
		rd.SkipHeaderCheck, rd.CheckUTF8, rd.MaxFrameSize = c.skip, c.chk, c.max
	default:
		rd = &wsutil.Reader{Source: src, State: ws.State(c.state), SkipHeaderCheck: c.skip, CheckUTF8: c.chk, MaxFrameSize: c.max}
	}
	if c.ext {
		if variant == "extfn" {
			rd.Extensions = []wsutil.RecvExtension{wsutil.RecvExtensionFunc(ms.UnsetBits)}
		} else {
			rd.Extensions = []wsutil.RecvExtension{ms}
		}
	}
	if c.cb == 1 {
		rd.OnIntermediate = func(h ws.Header, r io.Reader) error {
			b, err := ioutil.ReadAll(r)
			if err != nil {
				return err
			}
			*evs = append(*evs, event{byte(h.OpCode), true, ms.IsCompressed(), b})
			return nil
		}
	}
	if variant == "oncont" {
		rd.OnContinuation = func(h ws.Header, r io.Reader) error {
			*ncont++
			return nil
		}
	}
	return rd
}

// the canonical loop of driveReader over the variant's way of getting at the next message
func covDrive(variant string, src io.Reader, c rcfg, bufs []int, limit int) (evs []event, partial []byte, err error, ncont int) {
	var ms wsflate.MessageState
	var rd *wsutil.Reader
	if variant != "next" {
		rd = covReader(variant, src, c, &evs, &ms, &ncont)
	}
	for {
		var hdr ws.Header
		var body io.Reader
		var e error
		if variant == "next" {
			hdr, body, e = wsutil.NextReader(src, ws.State(c.state))
		} else {
			hdr, e = rd.NextFrame()
			body = rd
		}
		if e != nil {
			return evs, nil, e, ncont
		}
		var p []byte
		for i := 0; ; i++ {
			buf := make([]byte, bufs[i%len(bufs)])
			n, e := body.Read(buf)
			p = append(p, buf[:n]...)
			if e == io.EOF {
				break
			}
			if e != nil {
				return evs, p, e, ncont
			}
			if i > limit {
				return evs, p, errHang, ncont
			}
		}
		evs = append(evs, event{byte(hdr.OpCode), false, ms.IsCompressed(), p})
	}
}

// YRD / YRC: the RD / RC observation through another entry point. The package function NextReader
// creates a plain Reader (no callback, no UTF-8 check, no limit, no extension): its cfg is forced to that.
func covRD(c *ctx, kind, variant string, cfg rcfg, fs []sframe, cut, spec, tail, bufs string) {
	if variant == "next" {
		cfg = rcfg{state: cfg.state}
	}
	w := wireOf(fs)
	if cut != "-" {
		n, _ := strconv.Atoi(cut)
		if n < len(w) {
			w = w[:n]
		}
	}
	if len(w) > 20000 && bufs != "4096" && bufs != "1000" {
		bufs = "4096" // the extracted model is quadratic in (bytes x reads): big streams only with big caller buffers
	}
	src := newChunkReader(w, spec, tail)
	evs, partial, err, ncont := covDrive(variant, src, cfg, intsSpec(bufs), 2*len(w)+100)
	c.emit("%s %s %s %s %s %s %s %s -> %s %s %s %d %d", kind, variant, cfg.tok(), framesTok(fs), cut, spec, tail, bufs,
		eventsTok(evs), hx(partial), readErrClass(err), src.consumed, ncont)
}

// YRM / YRMC: repeated ReadClientMessage (we are the server, state 1) / ReadServerMessage (state 2)
func covRM(c *ctx, kind, variant string, state byte, fs []sframe, cut, spec, tail string) {
	w := wireOf(fs)
	if cut != "-" {
		n, _ := strconv.Atoi(cut)
		if n < len(w) {
			w = w[:n]
		}
	}
	src := newChunkReader(w, spec, tail)
	var evs []event
	var err error
	for i := 0; i < len(fs)+2; i++ {
		var msgs []wsutil.Message
		if state == 1 {
			msgs, err = wsutil.ReadClientMessage(src, nil)
		} else {
			msgs, err = wsutil.ReadServerMessage(src, nil)
		}
		for j, m := range msgs {
			inter := j < len(msgs)-1 || err != nil
			evs = append(evs, event{byte(m.OpCode), inter, false, m.Payload})
		}
		if err != nil {
			break
		}
	}
	if err == nil {
		err = errHang
	}
	c.emit("%s %s %d %s %s %s %s -> %s %s", kind, variant, state, framesTok(fs), cut, spec, tail, eventsTok(evs), readErrClass(err))
}

var covReadVariants = []string{"ctor", "next", "oncont"}

// all reader variants on one stream
func covReadAll(c *ctx, i int, side byte, chk bool, fs []sframe) {
	w := wireOf(fs)
	for k, v := range covReadVariants {
		cfg := rcfg{state: side, chk: chk, cb: 1}
		covRD(c, "YRD", v, cfg, fs, "-", c.randChunkSpec(len(w)), []string{"eof", "eof", "eofdata"}[(i+k)%3], bufSpecs[(i+k)%len(bufSpecs)])
	}
	covRM(c, "YRM", "side", side, fs, "-", c.randChunkSpec(len(w)), "eof")
}

// C04: valid streams through the remaining entry points
func covC04(c *ctx) {
	i := 0
	enumSeqs(alphabet([]int{0, 2}), 3, func(seq []aframe) {
		if !seqValid(seq) {
			return
		}
		i++
		if !c.thor && i%4 != 0 {
			return
		}
		side := byte(1 + i%2)
		fs := c.concrete(side, seq)
		v := covReadVariants[(i/4)%3]
		covRD(c, "YRD", v, rcfg{state: side, chk: i%3 == 0, cb: 1}, fs, "-", chunkSpecs[i%len(chunkSpecs)], "eof", bufSpecs[i%len(bufSpecs)])
		if i%8 == 0 {
			covRM(c, "YRM", "side", side, fs, "-", chunkSpecs[(i/2)%len(chunkSpecs)], "eof")
		}
	})
	for _, side := range []byte{1, 2} {
		fs := []sframe{c.mkFrame(side, false, 1, 126), c.mkFrame(side, true, 9, 125), c.mkFrame(side, false, 0, 0),
			c.mkFrame(side, true, 0, 300), c.mkFrame(side, true, 2, 70000), c.mkFrame(side, true, 8, 2)}
		covReadAll(c, int(side), side, false, fs)
	}
	n := 60
	if c.thor {
		n = 2000
	}
	for j := 0; j < n; j++ {
		side := byte(1 + c.rng.Intn(2))
		fs := c.randValidStream(side, 1+c.rng.Intn(10), 600)
		covReadAll(c, j, side, j%2 == 0, fs)
	}
}

// C05: a violation at a random position, through the remaining entry points
func covC05(c *ctx) {
	n := 100
	if c.thor {
		n = 3000
	}
	for j := 0; j < n; j++ {
		side := byte(1 + c.rng.Intn(2))
		fs := c.randValidStream(side, 1+c.rng.Intn(8), 300)
		k := c.rng.Intn(len(fs) + 1)
		b := badFrames[(j+c.rng.Intn(2))%len(badFrames)]
		bf := c.mkFrame(side, b.fin, b.op, b.n)
		bf.rsv = b.rsv
		if b.flipMk {
			bf.masked = !bf.masked
			if bf.masked {
				c.rng.Read(bf.key[:])
			}
		}
		fs2 := append(append(append([]sframe(nil), fs[:k]...), bf), fs[k:]...)
		covReadAll(c, j, side, j%2 == 0, fs2)
	}
	// the size limit on a reader made by a constructor
	for _, side := range []byte{1, 2} {
		for _, sz := range []int{1, 126, 300} {
			for _, d := range []int64{-1, 0, 1} {
				fs := []sframe{c.mkFrame(side, false, 2, 1), c.mkFrame(side, true, 0, sz), c.mkFrame(side, true, 1, 1)}
				covRD(c, "YRD", "ctor", rcfg{state: side, cb: 1, max: int64(sz) + d}, fs, "-", chunkSpecs[sz%len(chunkSpecs)], "eof", "4096")
				covRD(c, "YRD", "oncont", rcfg{state: side, cb: 1, max: int64(sz) + d}, fs, "-", chunkSpecs[sz%len(chunkSpecs)], "eof", "16")
			}
		}
	}
}

// C07: text split inside multi-byte characters, through the constructors and the message helpers
func covC07(c *ctx) {
	var samples [][]byte
	samples = append(samples, reasonSamples...)
	ns := 30
	if c.thor {
		ns = 600
	}
	for i := 0; i < ns; i++ {
		samples = append(samples, randUtf8ish(c, 1+c.rng.Intn(14)))
	}
	i := 0
	for _, p := range samples {
		for _, side := range []byte{1, 2} {
			mk := func(fin bool, op byte, pl []byte) sframe {
				f := c.mkFrame(side, fin, op, 0)
				f.payload = pl
				return f
			}
			for cut := 0; cut <= len(p); cut += 1 + c.rng.Intn(3) {
				i++
				fs := []sframe{mk(false, 1, p[:cut]), mk(true, 9, []byte{0xff}), mk(true, 0, p[cut:]), mk(true, 1, []byte("ok"))}
				cfg := rcfg{state: side, chk: true, cb: 1}
				covRD(c, "YRD", []string{"ctor", "oncont"}[i%2], cfg, fs, "-", chunkSpecs[i%len(chunkSpecs)], "eof", bufSpecs[i%len(bufSpecs)])
				if i%2 == 0 {
					covRM(c, "YRM", "side", side, fs, "-", chunkSpecs[(i/2)%len(chunkSpecs)], "eof")
				}
			}
		}
	}
}

// C13: the compression state attached through the function adapters of wsutil/extenstion.go
func covC13(c *ctx) {
	i := 0
	enumSeqs(alphabet([]int{1}), 3, func(seq []aframe) {
		if !seqValid(seq) && c.rng.Intn(4) != 0 {
			return
		}
		i++
		if !c.thor && i%3 != 0 {
			return
		}
		side := byte(1 + i%2)
		fs := c.concrete(side, seq)
		for k := range fs {
			switch c.rng.Intn(6) {
			case 0, 1:
				fs[k].rsv = 4
			case 2:
				fs[k].rsv = byte(c.rng.Intn(8))
			}
		}
		cfg := rcfg{state: side | 4, cb: 1, ext: true}
		if i%11 == 0 {
			cfg.state = side
		}
		covRD(c, "YRD", "extfn", cfg, fs, "-", chunkSpecs[i%len(chunkSpecs)], "eof", bufSpecs[i%len(bufSpecs)])
	})
	for _, ctor := range []string{"s1", "s5", "s125", "s126", "b20", "b133", "d0"} {
		for _, side := range []byte{1 | 4, 2 | 4} {
			for _, exts := range []string{"1", "0"} {
				for j := 0; j < 3; j++ {
					cfg := wcfg{ctor, side, byte(1 + j%2), exts}
					covWX(c, "sendfn", cfg, c.randHistory(cfg, 2+c.rng.Intn(6), false), "-")
				}
			}
		}
	}
}

// C16 (read side): streams cut at every offset, through the remaining entry points; MustWriteFrame /
// WriteFrame on a destination that fails
func covC16(c *ctx) {
	n := 12
	if c.thor {
		n = 300
	}
	for j := 0; j < n; j++ {
		side := byte(1 + c.rng.Intn(2))
		fs := c.randValidStream(side, 1+c.rng.Intn(5), 200)
		w := wireOf(fs)
		for cut := 0; cut < len(w); cut += 1 + c.rng.Intn(1+len(w)/25) {
			tail := []string{"eof", "fail"}[c.rng.Intn(2)]
			v := covReadVariants[(j+cut)%3]
			covRD(c, "YRC", v, rcfg{state: side, cb: 1, chk: v != "next"}, fs, strconv.Itoa(cut), c.randChunkSpec(cut), tail, bufSpecs[c.rng.Intn(len(bufSpecs))])
			if cut%2 == 0 {
				covRM(c, "YRMC", "side", side, fs, strconv.Itoa(cut), c.randChunkSpec(cut), tail)
			}
		}
	}
	for _, sz := range []int{0, 1, 125, 126, 70000} {
		for m := 0; m < 2; m++ {
			for _, k := range []int{-1, 0, 1, 2} {
				h := ws.Header{Fin: true, OpCode: ws.OpBinary, Masked: m != 0, Length: int64(sz)}
				if h.Masked {
					c.rng.Read(h.Mask[:])
				}
				covMW(c, h, c.payload(sz), k)
			}
		}
	}
}

// ---------------------------------------------------------------- C01: Must* variants, RSV accessors

func covRecoverErr(x interface{}) error {
	if e, ok := x.(error); ok {
		return e
	}
	return fmt.Errorf("panic: %v", x)
}

// YC01G: the C01G observation through MustReadFrame (a panic carries ReadFrame's error)
func covC01G(c *ctx, data []byte, spec, tail string) {
	r := newChunkReader(data, spec, tail)
	var g ws.Frame
	var err error
	func() {
		defer func() {
			if x := recover(); x != nil {
				err = covRecoverErr(x)
			}
		}()
		g = ws.MustReadFrame(r)
	}()
	c.emit("YC01G %s %s %s -> %s %s %s %d", hx(data), spec, tail, ioErrClass(err), hdrStr(g.Header), hx(g.Payload), r.consumed)
}

// YC01F: the C01F observation with MustWriteFrame as the writer and MustCompileFrame as the compiler
func covC01F(c *ctx, h ws.Header, payload, rest []byte, spec string) {
	f := ws.Frame{Header: h, Payload: payload}
	w := newRecWriter()
	okW, okC := true, true
	func() {
		defer func() {
			if recover() != nil {
				okW = false
			}
		}()
		ws.MustWriteFrame(w, f)
	}()
	var comp []byte
	func() {
		defer func() {
			if recover() != nil {
				okC = false
			}
		}()
		comp = ws.MustCompileFrame(f)
	}()
	ref, errRef := ws.CompileFrame(f)
	okMust := errRef != nil || bytes.Equal(ref, comp)
	stream := append(append([]byte(nil), comp...), rest...)
	r := newChunkReader(stream, spec, "eof")
	var g ws.Frame
	var errR error
	func() {
		defer func() {
			if x := recover(); x != nil {
				errR = covRecoverErr(x)
			}
		}()
		g = ws.MustReadFrame(r)
	}()
	c.emit("YC01F %s %s %s %s -> %s %s %d %d %d | %s %s %s %d", hdrStr(h), hx(payload), hx(rest), spec,
		hxList(w.calls), hx(comp), b2i(okW), b2i(okC), b2i(okMust),
		ioErrClass(errR), hdrStr(g.Header), hx(g.Payload), r.consumed)
}

// YRSV: first header byte b0 decoded by ReadHeader; the accessors and the bit helpers on the result
func covRSV(c *ctx, b0 byte) {
	h, err := ws.ReadHeader(bytes.NewReader([]byte{b0, 0}))
	r1, r2, r3 := ws.RsvBits(h.Rsv)
	c.emit("YRSV %d -> %d %d %d%d%d %d%d%d %d", b0, b2i(err == nil), h.Rsv, b2i(h.Rsv1()), b2i(h.Rsv2()), b2i(h.Rsv3()),
		b2i(r1), b2i(r2), b2i(r3), ws.Rsv(h.Rsv1(), h.Rsv2(), h.Rsv3()))
}

// YMW: WriteFrame and MustWriteFrame on a destination whose k-th Write call (0-based) fails
func covMW(c *ctx, h ws.Header, payload []byte, failAt int) {
	f := ws.Frame{Header: h, Payload: payload}
	w1 := newRecWriter()
	w1.failAt = failAt
	errW := ws.WriteFrame(w1, f)
	w2 := newRecWriter()
	w2.failAt = failAt
	must := "returned"
	func() {
		defer func() {
			if x := recover(); x != nil {
				must = "panic:" + ioErrClass(covRecoverErr(x))
			}
		}()
		ws.MustWriteFrame(w2, f)
	}()
	c.emit("YMW %s %s %d -> %s %d %s %d %s", hdrStr(h), hx(payload), failAt, ioErrClass(errW), len(w1.calls), must, len(w2.calls), hx(w2.all()))
}

func covC01(c *ctx) {
	for b := 0; b < 256; b++ {
		covRSV(c, byte(b))
	}
	sizes := []int{0, 1, 125, 126, 127, 300, 65535, 65536}
	for _, sz := range sizes {
		for m := 0; m < 2; m++ {
			for _, op := range []ws.OpCode{ws.OpText, ws.OpContinuation, ws.OpPing, 0xb} {
				p := make([]byte, sz)
				c.rng.Read(p)
				h := ws.Header{Fin: c.rng.Intn(2) == 0, Rsv: byte(c.rng.Intn(8)), OpCode: op, Masked: m != 0, Length: int64(sz)}
				if h.Masked {
					c.rng.Read(h.Mask[:])
				}
				rest := make([]byte, c.rng.Intn(5))
				c.rng.Read(rest)
				spec := []string{"-", "r7", c.randChunkSpec(sz + 10)}[c.rng.Intn(3)]
				covC01F(c, h, p, rest, spec)
			}
		}
	}
	n := 600
	if c.thor {
		n = 30000
	}
	for i := 0; i < n; i++ {
		k := c.rng.Intn(40)
		data := make([]byte, k)
		c.rng.Read(data)
		if k >= 2 {
			switch c.rng.Intn(3) {
			case 0:
				data[1] = data[1]&0x80 | byte(c.rng.Intn(40))
			case 1:
				data[1] = data[1]&0x80 | 126
				if k > 3 {
					data[2], data[3] = 0, byte(c.rng.Intn(60))
				}
			default:
				data[1] = data[1]&0x80 | 127
				for j := 2; j < 10 && j < k; j++ {
					data[j] = 0
				}
				if k > 9 {
					data[9] = byte(c.rng.Intn(40))
				}
				if c.rng.Intn(8) == 0 && k > 2 {
					data[2] = 0x80
				}
			}
		}
		covC01G(c, data, c.randChunkSpec(k), []string{"eof", "fail"}[c.rng.Intn(2)])
	}
}

// ---------------------------------------------------------------- one-shot message writers (C17)

// YWM + YC17W: WriteClientText / WriteClientBinary / WriteServerText / WriteServerBinary. YC17W is the
// C17W observation (caller's slice intact, bytes handed over not affected by the caller's reuse, bytes as
// the ownership model predicts); YWM puts the frame next to the one WriteMessage(state, op) sends.
func covWM(c *ctx, fn string, p []byte, junk byte) {
	client := strings.HasPrefix(fn, "client")
	text := strings.HasSuffix(fn, "text")
	state, op := ws.StateServerSide, ws.OpBinary
	if client {
		state = ws.StateClientSide
	}
	if text {
		op = ws.OpText
	}
	saved := append([]byte(nil), p...)
	dst := &recorder{}
	var callerAfter, mid []byte
	var err error
	st := guarded(func() {
		switch fn {
		case "clienttext":
			err = wsutil.WriteClientText(dst, p)
		case "clientbinary":
			err = wsutil.WriteClientBinary(dst, p)
		case "servertext":
			err = wsutil.WriteServerText(dst, p)
		default:
			err = wsutil.WriteServerBinary(dst, p)
		}
		callerAfter = append([]byte(nil), p...)
		mid = append([]byte(nil), dst.b...)
		for i := range p {
			p[i] = junk
		}
		c17Poison()
	})
	final := dst.b
	hdrlen, key := 0, []byte(nil)
	if h, e := ws.ReadHeader(bytes.NewReader(final)); e == nil {
		hdrlen = len(final) - int(h.Length)
		if h.Masked {
			key = h.Mask[:]
		}
	}
	c.emit("YC17W %s %s %d -> %s %d %s %s %s %s", fn, hx(saved), junk, hx(callerAfter), hdrlen, hx(key), hx(mid), hx(final), st)
	ref := &recorder{}
	errRef := wsutil.WriteMessage(ref, state, op, saved)
	c.emit("YWM %s %s %d -> %d %s %d %s", fn, hx(saved), junk, b2i(err == nil && st == "ok"), hx(mid), b2i(errRef == nil), hx(ref.b))
}

func covC17(c *ctx) {
	fns := []string{"clienttext", "clientbinary", "servertext", "serverbinary"}
	sizes := []int{0, 1, 7, 125, 126, 127, 300, 4000, 65535, 65536}
	if c.thor {
		sizes = append(sizes, 200, 1000, 5000, 70000, 140000)
	}
	i := 0
	for _, n := range sizes {
		for _, fn := range fns {
			i++
			covWM(c, fn, c.payload(n), byte(0x55+i))
		}
	}
}

// ---------------------------------------------------------------- fragmenting writer (C06, C13)

// stallReader hands out data in reads of at most chunk bytes; before byte offset stallAt it returns
// (0, nil) stalls times in a row (io.Reader allows it; ReadFrom gives up after 100 empty reads);
// stalls < 0: it fails there instead
type stallReader struct {
	data    []byte
	chunk   int
	stallAt int
	stalls  int
	pos     int
}

func (s *stallReader) Read(p []byte) (int, error) {
	if len(p) == 0 {
		return 0, nil
	}
	if s.pos == s.stallAt && s.stalls < 0 {
		return 0, errFail // stalls < 0: the source fails at this offset
	}
	if s.pos == s.stallAt && s.stalls > 0 {
		s.stalls--
		return 0, nil
	}
	if s.pos >= len(s.data) {
		return 0, io.EOF
	}
	n := len(s.data) - s.pos
	if n > len(p) {
		n = len(p)
	}
	if s.chunk > 0 && n > s.chunk {
		n = s.chunk
	}
	if s.pos < s.stallAt && s.pos+n > s.stallAt {
		n = s.stallAt - s.pos
	}
	copy(p, s.data[s.pos:s.pos+n])
	s.pos += n
	return n, nil
}

// op "z<n>/<seed>/<stallAt>/<stalls>/<chunk>": ReadFrom a stallReader over patBytes(n, seed)
func covApplyWop(w *wsutil.Writer, dst *recWriter, op string) (int, error) {
	if op[0] != 'z' {
		return applyWop(w, dst, op)
	}
	p := strings.Split(op[1:], "/")
	a := make([]int, 5)
	for i := range a {
		a[i], _ = strconv.Atoi(p[i])
	}
	n64, err := w.ReadFrom(&stallReader{data: patBytes(a[0], a[1]), stallAt: a[2], stalls: a[3], chunk: a[4]})
	return int(n64), err
}

// runWops with covApplyWop
func covRunWops(w *wsutil.Writer, dst *recWriter, ops []string) (out []wobs) {
	for _, op := range ops {
		var o wobs
		stop := false
		done := make(chan struct{})
		var n int
		var err error
		op := op
		go func() {
			defer func() {
				if r := recover(); r != nil {
					o.panicked = true
					stop = true
				}
				close(done)
			}()
			n, err = covApplyWop(w, dst, op)
		}()
		select {
		case <-done:
		case <-timeAfter():
			err = errHang
			stop = true
		}
		o.n, o.err = n, werrClass(err)
		if !stop || o.panicked {
			func() {
				defer func() { recover() }()
				o.buffered, o.avail, o.size = w.Buffered(), w.Available(), w.Size()
			}()
		}
		o.calls = len(dst.calls)
		out = append(out, o)
		if stop {
			break
		}
	}
	return out
}

// Regression note (defect F21, fixed in /repo): before the fix Writer.ReadFrom set the dirty flag on io.EOF
// only; when its source failed (or stalled into io.ErrNoProgress) right after a full buffer had left as a
// non-final fragment, the following Flush sent nothing, the message on the wire was never finished and the
// next message was glued onto it as continuation frames. The YWZ histories below include these inputs;
// corpus/C06.cases replays the first failing ones.

// YWZ: a history (WH op tokens plus "z") on one Writer with a working destination
func covWZ(c *ctx, cfg wcfg, ops string) {
	dst := newRecWriter()
	w, pan := newWriter(dst, cfg)
	if pan {
		return
	}
	os := covRunWops(w, dst, strings.Split(ops, ","))
	c.emit("YWZ %s %s -> %s %s", cfg.tok(), ops, obsTok(os), hxList(dst.calls))
}

func covC06(c *ctx) {
	i := 0
	for _, ctor := range []string{"s1", "s7", "s125", "s126", "b20", "b133", "s200", "d0"} {
		for _, side := range []byte{1, 2} {
			for _, stalls := range []int{1, 99, 100, 101, 250, -1} {
				for _, at := range []int{0, 5, 130} {
					i++
					n := at + []int{0, 1, 90}[i%3]
					z := fmt.Sprintf("z%d/%d/%d/%d/%d", n, i%200, at, stalls, []int{0, 1, 64}[i%3])
					pre := []string{"", "w3/1,", "w3/1,ff,", "df,w2/9,"}[i%4]
					post := []string{",fl", ",w4/2,fl", ",fl,w1/1,fl"}[i%3]
					cfg := wcfg{ctor, side, byte(1 + i%2), "-"}
					covWZ(c, cfg, pre+z+post)
				}
			}
		}
	}
}

// YWX: the WHX observation with the MessageState attached through wsutil.SendExtensionFunc
func covWX(c *ctx, variant string, cfg wcfg, ops string, failAt string) {
	dst := newRecWriter()
	if failAt != "-" {
		dst.failAt, _ = strconv.Atoi(failAt)
	}
	cfg0 := cfg
	cfg0.exts = "-"
	w, pan := newWriter(dst, cfg0)
	if pan {
		c.emit("YWX %s %s %s %s -> ctorpanic - -", variant, cfg.tok(), ops, failAt)
		return
	}
	var xs []wsutil.SendExtension
	for _, ch := range cfg.exts {
		ms := &wsflate.MessageState{}
		ms.SetCompressed(ch == '1')
		xs = append(xs, wsutil.SendExtensionFunc(ms.SetBits))
	}
	w.SetExtensions(xs...)
	raw := w.VerifRawLen()
	os := runWops(w, dst, strings.Split(ops, ","))
	c.emit("YWX %s %s %s %s -> %s %s %d.%d", variant, cfg.tok(), ops, failAt, obsTok(os), hxList(dst.calls), raw, w.VerifBufLen())
}

// ---------------------------------------------------------------- control handlers, failing destination (C08)

// YCHF: the CH case with a destination whose k-th Write call fails
func covCHF(c *ctx, side, op byte, payload []byte, key string, entry string, spec string, failAt int) {
	dst := newRecWriter()
	dst.failAt = failAt
	state := ws.State(side)
	h := ws.Header{Fin: true, OpCode: ws.OpCode(op), Length: int64(len(payload))}
	srcBytes := append([]byte(nil), payload...)
	masked := key != "-" && side == 1
	if masked {
		h.Masked = true
		copy(h.Mask[:], unhx(key))
		ws.Cipher(srcBytes, h.Mask, 0)
	}
	var err error
	func() {
		defer func() {
			if r := recover(); r != nil {
				err = fmt.Errorf("panic: %v", r)
			}
		}()
		switch entry {
		case "handle":
			err = wsutil.ControlHandler{Src: newChunkReader(srcBytes, spec, "eof"), Dst: dst, State: state, DisableSrcCiphering: !masked}.Handle(h)
		case "cfh":
			err = wsutil.ControlFrameHandler(dst, state)(h, newChunkReader(payload, spec, "eof"))
		case "hcm":
			msg := wsutil.Message{OpCode: ws.OpCode(op), Payload: payload}
			if side == 1 {
				err = wsutil.HandleClientControlMessage(dst, msg)
			} else {
				err = wsutil.HandleServerControlMessage(dst, msg)
			}
		case "hcm2":
			err = wsutil.HandleControlMessage(dst, state, wsutil.Message{OpCode: ws.OpCode(op), Payload: payload})
		}
	}()
	c.emit("YCHF %d %d %s %s %s %s %d -> %s %s", side, op, hx(payload), key, entry, spec, failAt, hxList(dst.calls), hresClass(err))
}

func covC08(c *ctx) {
	entries := []string{"handle", "cfh", "hcm", "hcm2"}
	i := 0
	for _, side := range []byte{1, 2} {
		for _, op := range []byte{8, 9, 10} {
			for _, n := range []int{0, 1, 2, 5, 125} {
				var p []byte
				if op == 8 {
					if n == 1 {
						p = []byte{7}
					} else if n >= 2 {
						p = ws.NewCloseFrameBody(ws.StatusCode([]int{1000, 1001, 3000, 1005, 1002}[i%5]), string(c.payload(n-2)))
					}
				} else {
					p = c.payload(n)
				}
				for _, k := range []int{0, 1} {
					i++
					key := "-"
					if i%2 == 0 {
						key = "a1b2c3d4"
					}
					covCHF(c, side, op, p, key, entries[i%4], []string{"-", "r1", "r7"}[i%3], k)
				}
			}
		}
	}
}

// ---------------------------------------------------------------- wsflate helpers (C12, C18)

// YC12H: the C12H observation through the package-level *FrameBuffer shortcuts ("pkgbuf") or the
// methods of a Helper value of our own over the standard flate engine ("ownbuf"), caller's buffer
func covC12H(c *ctx, variant, op string, fin bool, rsv, opc byte, masked bool, mask [4]byte, p []byte) {
	h := ws.Header{Fin: fin, Rsv: rsv, OpCode: ws.OpCode(opc), Masked: masked, Mask: mask}
	hdr := fmt.Sprintf("%d %d %d %d %s", b2i(fin), rsv, opc, b2i(masked), hx(mask[:]))
	own := wsflate.Helper{
		Compressor: func(w io.Writer) wsflate.Compressor {
			f, _ := flate.NewWriter(w, 9)
			return f
		},
		Decompressor: func(r io.Reader) wsflate.Decompressor { return flate.NewReader(r) },
	}
	var buf bytes.Buffer
	if op == "c" {
		h.Length = int64(len(p))
		in := ws.Frame{Header: h, Payload: append([]byte{}, p...)}
		var f ws.Frame
		var err error
		if variant == "pkgbuf" {
			f, err = wsflate.CompressFrameBuffer(&buf, in)
		} else {
			f, err = own.CompressFrameBuffer(&buf, in)
		}
		if err != nil {
			c.emit("YC12H %s c %s %s -> %s", variant, hdr, hx(p), c12HErr(err, fin))
		} else {
			c.emit("YC12H %s c %s %s -> %s", variant, hdr, hx(p), c12FrameTok(f))
		}
		return
	}
	comp, err := wsflate.DefaultHelper.Compress(p)
	if err != nil {
		panic(err)
	}
	h.Length = int64(len(comp))
	in := ws.Frame{Header: h, Payload: append([]byte{}, comp...)}
	var f ws.Frame
	if variant == "pkgbuf" {
		f, err = wsflate.DecompressFrameBuffer(&buf, in)
	} else {
		f, err = own.DecompressFrameBuffer(&buf, in)
	}
	if err != nil {
		c.emit("YC12H %s d %s %s %s -> %s", variant, hdr, hx(comp), hx(p), c12HErr(err, fin))
	} else {
		c.emit("YC12H %s d %s %s %s -> %s", variant, hdr, hx(comp), hx(p), c12FrameTok(f))
	}
}

var errCovEngine = errors.New("verif: engine failure")

// covComp: the standard flate writer with one injected defect.
//
//	werr    Write fails (nothing is compressed)        ferr  Flush fails (nothing is flushed)
//	badtail Flush appends one byte after the sync tail cerr  has a Close method that fails
type covComp struct {
	fw   *flate.Writer
	w    io.Writer
	kind string
}

func (k *covComp) Write(p []byte) (int, error) {
	if k.kind == "werr" {
		return 0, errCovEngine
	}
	return k.fw.Write(p)
}
func (k *covComp) Flush() error {
	if k.kind == "ferr" {
		return errCovEngine
	}
	err := k.fw.Flush()
	if k.kind == "badtail" && err == nil {
		_, err = k.w.Write([]byte{0})
	}
	return err
}

type covCompCloser struct{ covComp }

func (k *covCompCloser) Close() error { return errCovEngine }

type covTap struct {
	w io.Writer
	b []byte
}

func (t *covTap) Write(p []byte) (int, error) {
	n, err := t.w.Write(p)
	t.b = append(t.b, p[:n]...)
	return n, err
}

// covDec: the standard flate reader; "closeerr" = its Close fails
type covDec struct {
	fr   io.ReadCloser
	kind string
}

func (d *covDec) Read(p []byte) (int, error) { return d.fr.Read(p) }
func (d *covDec) Close() error {
	if d.kind == "closeerr" {
		return errCovEngine
	}
	return d.fr.Close()
}

// YC12E: one Helper call over a defective engine (or a failing destination / damaged input).
//
//	dir "c": api compress | compressto | cframe        kinds f9 werr ferr badtail cerr dstfail
//	dir "d": api decompress | decompressto | dframe    kinds rd closeerr trunc garbage
func covC12E(c *ctx, dir, api, kind string, p []byte) {
	var tap *covTap
	h := wsflate.Helper{
		Compressor: func(w io.Writer) wsflate.Compressor {
			tap = &covTap{w: w}
			f, _ := flate.NewWriter(tap, 9)
			k := covComp{fw: f, w: tap, kind: kind}
			if kind == "cerr" {
				return &covCompCloser{k}
			}
			return &k
		},
		Decompressor: func(r io.Reader) wsflate.Decompressor { return &covDec{flate.NewReader(r), kind} },
	}
	res, out := "ok", []byte(nil)
	var err error
	func() {
		defer func() {
			if recover() != nil {
				res = "panic"
			}
		}()
		if dir == "c" {
			switch api {
			case "compress":
				out, err = h.Compress(p)
			case "compressto":
				dst := newRecWriter()
				if kind == "dstfail" {
					dst.failAt = 0
				}
				err = h.CompressTo(dst, p)
				out = dst.all()
			default:
				var f ws.Frame
				f, err = h.CompressFrame(ws.NewFrame(ws.OpBinary, true, append([]byte(nil), p...)))
				out = f.Payload
			}
			return
		}
		in, e := wsflate.DefaultHelper.Compress(p)
		if e != nil {
			panic(e)
		}
		switch kind {
		case "trunc":
			in = in[:len(in)/2]
		case "garbage":
			in = append([]byte{0xff, 0xfe, 0x07}, in...)
		}
		switch api {
		case "decompress":
			out, err = h.Decompress(in)
		case "decompressto":
			var b bytes.Buffer
			err = h.DecompressTo(&b, in)
			out = b.Bytes()
		default:
			f := ws.NewFrame(ws.OpBinary, true, in)
			f.Header.Rsv = ws.Rsv(true, false, false)
			f, err = h.DecompressFrame(f)
			out = f.Payload
		}
	}()
	if res == "ok" && err != nil {
		res, out = "err", nil
	}
	var raw []byte
	if tap != nil {
		raw = tap.b
	}
	c.emit("YC12E %s %s %s %s -> %s %s %s", dir, api, kind, hx(p), res, hx(out), hx(raw))
}

func covC12(c *ctx) {
	var mask [4]byte
	c.rng.Read(mask[:])
	i := 0
	for _, p := range [][]byte{nil, []byte("hello, hello, hello"), c.payload(700)} {
		for fin := 0; fin < 2; fin++ {
			for rsv := 0; rsv < 8; rsv++ {
				for opc := 0; opc < 16; opc++ {
					i++
					if !c.thor && opc > 2 && opc != 8 && opc != 9 && (i+rsv)%5 != 0 {
						continue
					}
					m := i%2 == 1
					mk := mask
					if !m {
						mk = [4]byte{}
					}
					v := []string{"pkgbuf", "ownbuf"}[(i/2)%2]
					covC12H(c, v, "c", fin == 1, byte(rsv), byte(opc), m, mk, p)
					covC12H(c, v, "d", fin == 1, byte(rsv), byte(opc), m, mk, p)
				}
			}
		}
	}
	for _, p := range [][]byte{nil, []byte("a"), []byte("hello, hello, hello"), c.payload(300), bytes.Repeat([]byte("xyz"), 3000)} {
		for _, api := range []string{"compress", "compressto", "cframe"} {
			for _, kind := range []string{"f9", "werr", "ferr", "badtail", "cerr"} {
				covC12E(c, "c", api, kind, p)
			}
		}
		covC12E(c, "c", "compressto", "dstfail", p)
		for _, api := range []string{"decompress", "decompressto", "dframe"} {
			for _, kind := range []string{"rd", "closeerr", "trunc", "garbage"} {
				covC12E(c, "d", api, kind, p)
			}
		}
	}
}

// covRRDec: a decompressor that can be re-pointed at a new source by its own Reset(io.Reader)
// (wsflate.ReadResetter), as a pooled engine would offer
type covRRDec struct {
	fr       io.ReadCloser
	closeErr bool
}

func (d *covRRDec) Read(p []byte) (int, error) { return d.fr.Read(p) }
func (d *covRRDec) Reset(r io.Reader)          { d.fr.(flate.Resetter).Reset(r, nil) }
func (d *covRRDec) Close() error {
	if d.closeErr {
		return errCovEngine
	}
	return d.fr.Close()
}

// YFWR: a wsflate.Reader over a ReadResetter decompressor reads a first message (mode "trunc": cut in the
// middle; "whole"; "close": only its first byte, then Close fails, then one more Read and Close), is Reset
// onto the second message and reads it: next to a fresh Reader reading the second message.
func covFWR(c *ctx, msg1, msg2 []byte, mode string, level int) {
	comp := func(m []byte) []byte {
		var buf bytes.Buffer
		w := wsflate.NewWriter(&buf, func(w io.Writer) wsflate.Compressor {
			f, _ := flate.NewWriter(w, level)
			return f
		})
		w.Write(m)
		w.Flush()
		return buf.Bytes()
	}
	c1, c2 := comp(msg1), comp(msg2)
	if mode == "trunc" && len(c1) > 2 {
		c1 = c1[:len(c1)/2]
	}
	dctor := func(r io.Reader) wsflate.Decompressor {
		return &covRRDec{fr: flate.NewReader(r), closeErr: mode == "close"}
	}
	mkSrc := func(first bool, data []byte) io.Reader {
		if first == (level%2 == 0) {
			return bytes.NewReader(data)
		}
		return newChunkReader(data, "r3", "eof")
	}
	ra, rb, pre := "panic", "panic", "-"
	func() {
		defer func() { recover() }()
		r := wsflate.NewReader(mkSrc(true, c1), dctor)
		if mode == "close" {
			r.Read(make([]byte, 1)) // most of the first message is still to come
			e1 := r.Close()
			n, e2 := r.Read(make([]byte, 8))
			e3 := r.Close()
			pre = fmt.Sprintf("%d.%d.%d.%d.%d", b2i(e1 != nil), n, b2i(e2 != nil), b2i(e3 != nil), b2i(r.Err() != nil))
		} else {
			io.Copy(ioutil.Discard, r)
		}
		r.Reset(mkSrc(false, c2))
		out, err := ioutil.ReadAll(r)
		ra = fmt.Sprintf("%s.%s.%s", hx(out), readErrClass(err), readErrClass(r.Err()))
	}()
	func() {
		defer func() { recover() }()
		f := wsflate.NewReader(mkSrc(false, c2), dctor)
		out, err := ioutil.ReadAll(f)
		rb = fmt.Sprintf("%s.%s.%s", hx(out), readErrClass(err), readErrClass(f.Err()))
	}()
	c.emit("YFWR %s %s %s %d -> %s %s %s", hx(msg1), hx(msg2), mode, level, ra, rb, pre)
}

func covC18(c *ctx) {
	n := 30
	if c.thor {
		n = 600
	}
	for i := 0; i < n; i++ {
		covFWR(c, c.payload(20+c.rng.Intn(400)), c.payload(c.rng.Intn(400)), []string{"trunc", "close", "whole"}[i%3], []int{-1, 1, 9, 0}[(i/3)%4])
	}
}
