//go:build !pool_sanitize

package main

const poolSanitize = false
