package main

// Cases added after the tenth (short) round of seeded changes (DESIGN 14.12).

import (
	"bytes"
	"strconv"
	"strings"

	"github.com/gobwas/ws/wsutil"
)

func init() {
	r10Wrap := func(id string, extra func(*ctx)) {
		old := props[id]
		props[id] = func(c *ctx) {
			if old != nil {
				old(c)
			}
			extra(c)
		}
	}
	r10Wrap("C11", r10Lines)
	r10Wrap("C09", r10Lines)
	r10Wrap("C02", r10BigShort)
	r10Wrap("C02", r10SameKey)
	r10Wrap("C09", r10LookalikeReq)
	r10Wrap("C10", r10LookalikeResp)
	r10Wrap("C17", r10BigShort)
	replayers["C02WB"] = func(c *ctx, in []string) {
		n, _ := strconv.Atoi(in[0])
		take, _ := strconv.Atoi(in[1])
		c02WB(c, n, take, in[2] == "1")
	}
}

// r10-C11: header lines whose length is k*B-1, k*B, k*B+1 for k = 1..4 (a CRLF straddling the end of the k-th buffer
// load), on both peers of an agreement run and through readLine itself
func r10Lines(c *ctx) {
	for _, B := range []int{16, 32, 64} {
		for k := 1; k <= 4; k++ {
			for _, d := range []int{-2, -1, 0, 1} {
				L := k*B + d
				pad := L - len("X-Pad: ")
				if pad < 0 {
					continue
				}
				v := strings.Repeat("p", pad)
				dc := dcfg{protocols: []string{"chat"}, hdr: []byte("X-Pad: " + v + "\r\n")}
				uc := ucfg{proto: &[]string{"chat"}, hdr: []byte("X-Pad: " + v + "\r\n")}
				a11(c, B, 0, B, 0, randSizes(c), randSizes(c), "ws://example.com/ws", dc, uc, []byte("\x81\x01x"))
				line := []byte("X-Pad: " + v)
				for _, eol := range []string{"\r\n", "\n"} {
					data := append(append(append([]byte(nil), line...), eol...), "next\r\n"...)
					rlCase(c, B, "eof", [][]byte{data}, 3)
					rlCase(c, B, "eof", splitSizes(data, []int{B - 1, 1, B}), 3)
				}
			}
		}
	}
}

// r10-C02b: ONE big write (32 KiB and more) through the mask writer to a destination that accepts only a part of it: the
// caller's slice is bit-for-bit what it was (also behind the accepted part), the accepted bytes are the mask of their prefix.
//
//	C02WB <n> <take> <with error 0|1> -> <accepted n> <caller intact 0|1> <accepted bytes are the mask 0|1>
type partWriter struct {
	take    int
	withErr bool
	got     []byte
}

func (w *partWriter) Write(p []byte) (int, error) {
	k := w.take
	if k > len(p) {
		k = len(p)
	}
	w.got = append(w.got, p[:k]...)
	if k < len(p) {
		if w.withErr {
			return k, errShort
		}
		return k, nil
	}
	return k, nil
}

func c02WB(c *ctx, n, take int, withErr bool) {
	p := patBytes(n, 9)
	mine := append([]byte(nil), p...)
	key := [4]byte{0x11, 0x22, 0x33, 0x44}
	dst := &partWriter{take: take, withErr: withErr}
	cw := wsutil.NewCipherWriter(dst, key)
	k, _ := cw.Write(mine)
	intact := bytes.Equal(mine, p)
	want := append([]byte(nil), p...)
	for i := range want {
		want[i] ^= key[i%4]
	}
	okMask := k <= len(want) && bytes.Equal(dst.got, want[:len(dst.got)])
	c.emit("C02WB %d %d %d -> %d %d %d", n, take, b2i(withErr), k, b2i(intact), b2i(okMask))
}

func r10BigShort(c *ctx) {
	for _, n := range []int{100, 4096, 32767, 32768, 40000, 70000} {
		for _, take := range []int{0, 1, 5, n / 2, n - 1, n} {
			c02WB(c, n, take, true)
			c02WB(c, n, take, false)
		}
	}
}

// r10-C02: the streaming mask reader re-armed with the SAME source object and the SAME key (what wsutil.Reader does for
// two consecutive frames of a client that reuses its key) after k bytes, k not a multiple of 4: the key stream restarts
// at offset 0 (kind CRS, shared with C18)
func r10SameKey(c *ctx) {
	for k := 0; k <= 9; k++ {
		for _, n := range []int{0, 1, 5, 8, 13, 130} {
			crs(c, c.payload(k), c.payload(n), [4]byte{0xa1, 0xb2, 0xc3, byte(0xd0 + k)})
			crs(c, c.payload(k), c.payload(n), [4]byte{})
		}
	}
}

// look-alike header NAMES (the idea of r10-C14 carried over to the handshake): every mandatory header name with ONE byte
// replaced at every position - same length, same prefix or suffix, another header. (a) the look-alike INSTEAD of the real
// header: the request / response lacks the header and is refused; (b) the look-alike with a bad value NEXT TO the real
// header: it is an ordinary unknown header and changes nothing.
func r10Lookalikes(name string) []string {
	var out []string
	for i := 0; i < len(name); i++ {
		for _, ch := range []byte{'x', name[i] ^ 0x20} {
			n := []byte(name)
			if n[i] == ch || n[i] == '-' && ch == '-'^0x20 {
				continue
			}
			n[i] = ch
			if strings.EqualFold(string(n), name) {
				continue // the other case of a letter is the SAME header name
			}
			out = append(out, string(n))
		}
	}
	return out
}

func r10LookalikeReq(c *ctx) {
	for _, m := range mandatory {
		for _, look := range r10Lookalikes(m.name) {
			for _, api := range []string{"ws", "up"} {
				r := baseReq()
				r.lines = append(canonLines(m.name), look+": "+m.good)
				u09(c, api, 0, 0, "eof", chunkWhole(r.bytes()), ucfg{})
				r = baseReq()
				bad := "bogus"
				if len(m.wrong) > 0 && m.wrong[0] != "" {
					bad = m.wrong[0]
				}
				r.lines = append(canonLines(""), look+": "+bad)
				u09(c, api, 0, 0, "eof", chunkWhole(r.bytes()), ucfg{})
			}
		}
	}
}

func r10LookalikeResp(c *ctx) {
	for _, m := range respMandatory {
		for _, look := range r10Lookalikes(m.name) {
			r := baseResp()
			r.lines = append(respLinesExcept(m.name), look+": "+m.good)
			d10(c, 0, 0, "eof", "ws://example.com/ws", r.bytes(), nil, dcfg{})
			r = baseResp()
			r.lines = append(respLinesExcept(""), look+": bogus")
			d10(c, 0, 0, "eof", "ws://example.com/ws", r.bytes(), nil, dcfg{})
		}
	}
	for _, name := range []string{"Sec-WebSocket-Protocol", "Sec-WebSocket-Extensions"} {
		for _, look := range r10Lookalikes(name) {
			r := baseResp()
			r.lines = append(respLinesExcept(""), look+": zzz")
			d10(c, 0, 0, "eof", "ws://example.com/ws", r.bytes(), nil, dcfg{protocols: []string{"a"}})
		}
	}
}
