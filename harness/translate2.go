package main

// translate2 prints coq/gen/Translated2.v: Gallina definitions re-derived, on every run, from
// the Go SOURCE text of byte-slice code with loops and indexing (tie C, second translator).
//
// Where translate.go handles loop-free integer/boolean functions as total Gallina terms, this
// translator targets the monadic vocabulary of coq/lib/GoSlices.v:
//
//   []byte            list Z (elements 0..255); a slice expression yields a VALUE (sub-list)
//   b[i], b[i:j]      go_index / go_slice: CHECKED, a bounds violation is the result Panic
//                     (cap is not modelled; j <= len is demanded, see GoSlices.v)
//   b[i] = v          go_set_index, rebinding the variable b (value semantics)
//   for loops         go_loop fuel (fun state => ...) state0: recursion on explicit fuel; the fuel
//                     of every loop of a function is  65 + the sum of the lengths of the function's
//                     []byte parameters at entry; running out of it is the result OutOfFuel
//   return in a loop  Return r (leaves go_loop with inr r)
//   integers          Z with explicit wrap_u/wrap_s k, exactly as translate.go
//   bytes.IndexByte, bytes.Equal, len    go_index_byte, go_bytes_equal, go_len (GoSlices.v)
//   fmt.Errorf(...)   Some E_fmt_Errorf (message not modelled; the arguments are still evaluated
//                     for their panics, `string(x)` conversions in them are dropped)
//   package variable ErrX                Some E_ErrX (keyed by the identifier)
//   package variable v = []byte("lit")   the literal, provided v is never assigned, indexed on
//                     the left of an assignment or address-taken in its package
//   func f(k []byte) that stores into k  returns the updated k as an additional last result;
//                     a call statement f(x) rebinds x.  Other variables that alias x are NOT
//                     updated: every later read of another slice variable of the caller is listed
//                     in the generated file as an ALIAS ASSUMPTION (to be audited by a human).
//
// Types come from go/types (stdlib packages bytes and fmt are type-checked from GOROOT source,
// all other imports are left empty; a type error inside a translated declaration is a
// rejection).  Everything outside the subset stops the translator with
//     translate2: unsupported construct <file>:<line>:<col>: <what>
// and exit status 1 — it never guesses.
//
// Accepted subset
//   functions (no receiver) with 0..n results (named or not) of type bool / integer / []byte /
//   error / struct of those; parameters of the same types;
//   statements: blocks, var declarations, := = op= ++ -- on locals, on fields of local struct
//     variables and on elements b[i] of local slice variables; tuple assignment from one call or
//     n := n values; if / else if / else with optional init; tagless and tagged switch (no
//     fallthrough, no break); for with optional init / condition / post; for range over a slice
//     variable (key and/or value, `:=` form; the ranged variable may only be stored into by
//     element inside the loop); break / continue without label; return (bare return with named
//     results); call statements of package functions;
//   expressions: constants (folded by go/types), locals, + - * (/ % by a non-zero constant),
//     & | ^ &^, << >> (constant or unsigned count), unary - ^ + !, comparisons of integers and
//     booleans, err ==/!= nil, && || (short-circuit kept when the right operand can panic),
//     integer conversions, []byte("constant"), nil, len, indexing, 2-index slice expressions,
//     field selection, calls of package functions (translated on demand, recursion rejected),
//     bytes.IndexByte, bytes.Equal, fmt.Errorf.
//
// Trust: as for translate.go, the translator's reading of Go is part of the trusted base of the
// C09/C10/C15_source_* theorems; in addition the value semantics of slices (no aliasing, nil =
// empty), len for cap, and `int` = 64 bit.  The differential runs on the compiled functions
// (tie B) remain as the second line.

import (
	"fmt"
	"go/ast"
	"go/build"
	"go/constant"
	"go/importer"
	"go/parser"
	"go/token"
	"go/types"
	"os"
	"path/filepath"
	"reflect"
	"runtime"
	"sort"
	"strings"

	"github.com/gobwas/ws"
)

func init() {
	props["translate2"] = func(c *ctx) {
		out, err := x2Run()
		if err != nil {
			c.w.Flush()
			fmt.Fprintln(os.Stderr, err.Error())
			os.Exit(1)
		}
		fmt.Fprint(c.w, out)
	}
}

// package (relative to the module root), function.  Output is in dependency order.
var x2Roots = [][2]string{
	{"", "min"}, {"", "nonZero"}, {"", "pow"},
	{"", "asciiToInt"}, {"", "bsplit3"}, {"", "btrim"}, {"", "canonicalizeHeaderKey"},
	{"", "httpParseVersion"}, {"", "httpParseRequestLine"}, {"", "httpParseResponseLine"},
	{"", "httpParseHeaderLine"},
}

// ---------------------------------------------------------------- loading

type x2Pkg struct {
	rel   string
	tpkg  *types.Package
	info  *types.Info
	files []*ast.File
	terrs []types.Error
	funcs map[string]*ast.FuncDecl
	dup   map[string]bool
}

type x2 struct {
	fset    *token.FileSet
	root    string
	modpath string
	pkgs    map[string]*x2Pkg
	funcs   map[string]*x2Func
	order   []*x2Func
	gerrs   map[string]bool
	structs map[string]*x2Struct
	stOrder []string
	real    types.ImporterFrom
}

type x2Struct struct {
	name   string // Coq suffix
	goName string
	fields []x2Field
}

type x2Field struct {
	name string
	typ  types.Type
}

func (x *x2) fail(pos token.Pos, format string, a ...interface{}) {
	p := x.fset.Position(pos)
	rel := p.Filename
	if r, err := filepath.Rel(x.root, p.Filename); err == nil {
		rel = r
	}
	panic(xlErr{fmt.Sprintf("translate2: unsupported construct %s:%d:%d: %s", rel, p.Line, p.Column, fmt.Sprintf(format, a...))})
}

func (x *x2) posStr(pos token.Pos) string {
	p := x.fset.Position(pos)
	rel := p.Filename
	if r, err := filepath.Rel(x.root, p.Filename); err == nil {
		rel = r
	}
	return fmt.Sprintf("%s:%d", rel, p.Line)
}

// stdlib packages the translated functions may call are type-checked from source; every other
// import is an empty package (uses of it are type errors, which matter only inside translated
// declarations)
func (x *x2) Import(path string) (*types.Package, error) { return x.ImportFrom(path, "", 0) }
func (x *x2) ImportFrom(path, dir string, mode types.ImportMode) (*types.Package, error) {
	if path == "bytes" || path == "fmt" {
		return x.real.ImportFrom(path, dir, mode)
	}
	p := types.NewPackage(path, path[strings.LastIndex(path, "/")+1:])
	p.MarkComplete()
	return p, nil
}

func x2Run() (out string, err error) {
	defer func() {
		if r := recover(); r != nil {
			if e, ok := r.(xlErr); ok {
				err = e
				return
			}
			panic(r)
		}
	}()
	fn := runtime.FuncForPC(reflect.ValueOf(ws.CheckHeader).Pointer())
	if fn == nil {
		return "", xlErr{"translate2: cannot locate ws.CheckHeader in the binary"}
	}
	file, _ := fn.FileLine(fn.Entry())
	root := filepath.Dir(file)
	x := &x2{fset: token.NewFileSet(), root: root, pkgs: map[string]*x2Pkg{}, funcs: map[string]*x2Func{},
		gerrs: map[string]bool{}, structs: map[string]*x2Struct{}}
	x.real = importer.ForCompiler(x.fset, "source", nil).(types.ImporterFrom)
	gm, e := os.ReadFile(filepath.Join(root, "go.mod"))
	if e != nil {
		return "", xlErr{"translate2: cannot read go.mod next to " + file + ": " + e.Error()}
	}
	for _, l := range strings.Split(string(gm), "\n") {
		if f := strings.Fields(l); len(f) == 2 && f[0] == "module" {
			x.modpath = f[1]
		}
	}
	if x.modpath == "" {
		return "", xlErr{"translate2: no module line in go.mod"}
	}
	for _, r := range x2Roots {
		p := x.load(r[0])
		fd, ok := p.funcs[r[1]]
		if !ok {
			return "", xlErr{fmt.Sprintf("translate2: unsupported construct %s: function %s of the fixed list is not declared",
				filepath.Join(r[0], "*.go"), r[1])}
		}
		x.function(p, fd)
	}
	return x.print(), nil
}

func (x *x2) load(rel string) *x2Pkg {
	if p, ok := x.pkgs[rel]; ok {
		return p
	}
	dir := filepath.Join(x.root, rel)
	ents, err := os.ReadDir(dir)
	if err != nil {
		panic(xlErr{"translate2: cannot read " + dir + ": " + err.Error()})
	}
	bctx := build.Default
	bctx.BuildTags = []string{"verif"}
	p := &x2Pkg{rel: rel, funcs: map[string]*ast.FuncDecl{}, dup: map[string]bool{}}
	var names []string
	for _, e := range ents {
		n := e.Name()
		if e.IsDir() || !strings.HasSuffix(n, ".go") || strings.HasSuffix(n, "_test.go") {
			continue
		}
		if ok, err := bctx.MatchFile(dir, n); err != nil || !ok {
			continue
		}
		names = append(names, n)
	}
	sort.Strings(names)
	pkgName := ""
	for _, n := range names {
		f, err := parser.ParseFile(x.fset, filepath.Join(dir, n), nil, 0)
		if err != nil {
			panic(xlErr{"translate2: parse error: " + err.Error()})
		}
		if pkgName == "" {
			pkgName = f.Name.Name
		}
		if f.Name.Name != pkgName {
			continue
		}
		p.files = append(p.files, f)
		for _, d := range f.Decls {
			if fd, ok := d.(*ast.FuncDecl); ok && fd.Recv == nil {
				if _, ok := p.funcs[fd.Name.Name]; ok {
					p.dup[fd.Name.Name] = true
				}
				p.funcs[fd.Name.Name] = fd
			}
		}
	}
	path := x.modpath
	if rel != "" {
		path += "/" + rel
	}
	conf := types.Config{Importer: x, Error: func(err error) {
		if te, ok := err.(types.Error); ok {
			p.terrs = append(p.terrs, te)
		}
	}, Sizes: &types.StdSizes{WordSize: 8, MaxAlign: 8}}
	p.info = &types.Info{Types: map[ast.Expr]types.TypeAndValue{}, Uses: map[*ast.Ident]types.Object{},
		Defs: map[*ast.Ident]types.Object{}, Selections: map[*ast.SelectorExpr]*types.Selection{}}
	p.tpkg, _ = conf.Check(path, x.fset, p.files, p.info)
	x.pkgs[rel] = p
	return p
}

// a type error inside [from, to] makes the information of go/types there unreliable
func (x *x2) requireClean(p *x2Pkg, from, to token.Pos, what string) {
	for _, te := range p.terrs {
		if te.Fset == x.fset && from <= te.Pos && te.Pos <= to {
			x.fail(te.Pos, "type error inside %s: %s", what, te.Msg)
		}
	}
}

// ---------------------------------------------------------------- types

type x2Int struct {
	bits   int
	signed bool
}

func x2IntOf(t types.Type) (x2Int, bool) {
	b, ok := t.Underlying().(*types.Basic)
	if !ok {
		return x2Int{}, false
	}
	switch b.Kind() {
	case types.Int, types.Int64:
		return x2Int{64, true}, true
	case types.Int8:
		return x2Int{8, true}, true
	case types.Int16:
		return x2Int{16, true}, true
	case types.Int32:
		return x2Int{32, true}, true
	case types.Uint, types.Uint64, types.Uintptr:
		return x2Int{64, false}, true
	case types.Uint8:
		return x2Int{8, false}, true
	case types.Uint16:
		return x2Int{16, false}, true
	case types.Uint32:
		return x2Int{32, false}, true
	}
	return x2Int{}, false
}

func (i x2Int) lo() constant.Value {
	if !i.signed {
		return constant.MakeInt64(0)
	}
	return constant.UnaryOp(token.SUB, constant.Shift(constant.MakeInt64(1), token.SHL, uint(i.bits-1)), 0)
}
func (i x2Int) hi() constant.Value {
	n := i.bits
	if i.signed {
		n--
	}
	return constant.BinaryOp(constant.Shift(constant.MakeInt64(1), token.SHL, uint(n)), token.SUB, constant.MakeInt64(1))
}
func (i x2Int) contains(j x2Int) bool {
	return constant.Compare(i.lo(), token.LEQ, j.lo()) && constant.Compare(j.hi(), token.LEQ, i.hi())
}
func (i x2Int) wrap(e string) string {
	if i.signed {
		return fmt.Sprintf("(wrap_s %d %s)", i.bits, e)
	}
	return fmt.Sprintf("(wrap_u %d %s)", i.bits, e)
}
func (i x2Int) name() string {
	if i.signed {
		return fmt.Sprintf("int%d", i.bits)
	}
	return fmt.Sprintf("uint%d", i.bits)
}

func x2IsBool(t types.Type) bool {
	b, ok := t.Underlying().(*types.Basic)
	return ok && b.Info()&types.IsBoolean != 0
}

func x2IsBytes(t types.Type) bool {
	s, ok := t.Underlying().(*types.Slice)
	if !ok {
		return false
	}
	b, ok := s.Elem().Underlying().(*types.Basic)
	return ok && b.Kind() == types.Uint8
}

func x2IsError(t types.Type) bool {
	return types.Identical(t, types.Universe.Lookup("error").Type())
}

func x2IsString(t types.Type) bool {
	b, ok := t.Underlying().(*types.Basic)
	return ok && b.Info()&types.IsString != 0
}

func (x *x2) coqType(t types.Type, pos token.Pos) string {
	if _, ok := x2IntOf(t); ok {
		return "Z"
	}
	switch {
	case x2IsBool(t):
		return "bool"
	case x2IsBytes(t):
		return "list Z"
	case x2IsError(t):
		return "option g_error"
	}
	if n, ok := t.(*types.Named); ok {
		if _, ok := n.Underlying().(*types.Struct); ok {
			return "g2_" + x.useStruct(n, pos).name
		}
	}
	x.fail(pos, "type %s", t.String())
	return ""
}

func (x *x2) useStruct(n *types.Named, pos token.Pos) *x2Struct {
	key := n.Obj().Pkg().Name() + "." + n.Obj().Name()
	if s, ok := x.structs[key]; ok {
		return s
	}
	st := n.Underlying().(*types.Struct)
	s := &x2Struct{goName: key, name: n.Obj().Name()}
	if n.Obj().Pkg().Path() != x.modpath {
		s.name = n.Obj().Pkg().Name() + "_" + n.Obj().Name()
	}
	x.structs[key] = s
	for i := 0; i < st.NumFields(); i++ {
		f := st.Field(i)
		if f.Embedded() {
			x.fail(pos, "struct %s has an embedded field", key)
		}
		x.coqType(f.Type(), pos)
		s.fields = append(s.fields, x2Field{f.Name(), f.Type()})
	}
	x.stOrder = append(x.stOrder, key)
	return s
}

func (x *x2) zero(t types.Type, pos token.Pos) string {
	if _, ok := x2IntOf(t); ok {
		return "0"
	}
	switch {
	case x2IsBool(t):
		return "false"
	case x2IsBytes(t):
		return "[]"
	case x2IsError(t):
		return "None"
	}
	if n, ok := t.(*types.Named); ok {
		if _, ok := n.Underlying().(*types.Struct); ok {
			s := x.useStruct(n, pos)
			parts := []string{"g2_mk_" + s.name}
			for _, f := range s.fields {
				parts = append(parts, x.zero(f.typ, pos))
			}
			return "(" + strings.Join(parts, " ") + ")"
		}
	}
	x.fail(pos, "zero value of type %s", t.String())
	return ""
}

func x2Lit(v constant.Value) string {
	if v.Kind() == constant.Bool {
		if constant.BoolVal(v) {
			return "true"
		}
		return "false"
	}
	s := v.ExactString()
	if strings.HasPrefix(s, "-") {
		return "(" + s + ")"
	}
	return s
}

func x2BytesLit(s string) string {
	var parts []string
	for i := 0; i < len(s); i++ {
		parts = append(parts, fmt.Sprint(s[i]))
	}
	return "[" + strings.Join(parts, "; ") + "]"
}

// ---------------------------------------------------------------- functions

type x2Func struct {
	key     string
	coqName string
	src     string
	decl    *ast.FuncDecl
	params  []*types.Var
	results []types.Type
	mutated []int // indices of []byte parameters stored into; returned as extra results
	body    string
	loops   int
	notes   []string // alias assumptions
	busy    bool
}

// per-function translation state
type x2Fx struct {
	x      *x2
	p      *x2Pkg
	f      *x2Func
	names  map[types.Object]string
	used   map[string]bool
	tmp    int
	pre    *[]string // effectful bindings of the expression being translated, in order
	named  []*types.Var
	depth  int      // number of enclosing loops
	loops  []*x2Loop // enclosing loops
	writes []x2Write
	reads  []x2Read
	asg    map[types.Object][]token.Pos // where a variable receives a (non-zero) value
}

type x2Loop struct {
	state []types.Object
	post  func() string // the post statement followed by Continue
	from  token.Pos
	to    token.Pos
}

type x2Write struct {
	obj      types.Object
	pos      token.Pos
	from, to token.Pos // innermost enclosing loop (0,0 if none)
}
type x2Read struct {
	obj types.Object
	pos token.Pos
}

func (x *x2) function(p *x2Pkg, d *ast.FuncDecl) *x2Func {
	key := p.tpkg.Name() + "." + d.Name.Name
	if f, ok := x.funcs[key]; ok {
		if f.busy {
			x.fail(d.Pos(), "recursive function %s", key)
		}
		return f
	}
	if p.dup[d.Name.Name] {
		x.fail(d.Pos(), "function %s is declared more than once (build-tagged files?)", key)
	}
	if d.Body == nil {
		x.fail(d.Pos(), "function %s has no body", key)
	}
	if d.Type.TypeParams != nil {
		x.fail(d.Pos(), "generic function")
	}
	x.requireClean(p, d.Pos(), d.End(), "function "+key)
	obj, _ := p.info.Defs[d.Name].(*types.Func)
	if obj == nil {
		x.fail(d.Pos(), "function %s has no type information", key)
	}
	sig := obj.Type().(*types.Signature)
	if sig.Variadic() {
		x.fail(d.Pos(), "variadic function")
	}
	coq := "g2_"
	if p.rel != "" {
		coq += p.tpkg.Name() + "_"
	}
	f := &x2Func{key: key, coqName: coq + d.Name.Name, decl: d, busy: true,
		src: filepath.Join(p.rel, filepath.Base(x.fset.Position(d.Pos()).Filename))}
	x.funcs[key] = f
	fx := &x2Fx{x: x, p: p, f: f, names: map[types.Object]string{}, used: map[string]bool{}, asg: map[types.Object][]token.Pos{}}
	for i := 0; i < sig.Params().Len(); i++ {
		v := sig.Params().At(i)
		fx.asg[v] = append(fx.asg[v], d.Pos())
		x.coqType(v.Type(), v.Pos())
		f.params = append(f.params, v)
		if v.Name() == "" || v.Name() == "_" {
			fx.names[v] = fmt.Sprintf("v_unused%d", i+1)
			fx.used[fx.names[v]] = true
		} else {
			fx.name(v)
		}
	}
	for i := 0; i < sig.Results().Len(); i++ {
		v := sig.Results().At(i)
		x.coqType(v.Type(), d.Type.Results.Pos())
		f.results = append(f.results, v.Type())
		if v.Name() != "" && v.Name() != "_" {
			fx.named = append(fx.named, v)
			fx.name(v)
		} else if v.Name() == "_" {
			x.fail(d.Type.Results.Pos(), "blank named result")
		}
	}
	if len(fx.named) != 0 && len(fx.named) != len(f.results) {
		x.fail(d.Type.Results.Pos(), "partly named results")
	}
	// parameters stored into
	for i, v := range f.params {
		if x2IsBytes(v.Type()) && fx.storesInto(d.Body, v) {
			f.mutated = append(f.mutated, i)
		}
	}
	var pre []string
	fx.pre = &pre
	body := fx.seq(d.Body.List, func() string {
		if len(f.results) > 0 {
			x.fail(d.Body.Rbrace, "control reaches the end of the function without return")
		}
		return fx.ret(nil, d.Body.Rbrace)
	})
	var b strings.Builder
	if f.loops > 0 {
		var ls []string
		for _, v := range f.params {
			if x2IsBytes(v.Type()) {
				ls = append(ls, "length "+fx.names[v])
			}
		}
		ls = append(ls, "65")
		b.WriteString("let fuel := (" + strings.Join(ls, " + ") + ")%nat in\n")
	}
	for _, v := range fx.named {
		b.WriteString("let " + fx.name(v) + " : " + x.coqType(v.Type(), v.Pos()) + " := " + x.zero(v.Type(), v.Pos()) + " in\n")
	}
	b.WriteString(body)
	f.body = b.String()
	fx.aliasNotes()
	f.busy = false
	x.order = append(x.order, f)
	return f
}

func (fx *x2Fx) name(o types.Object) string {
	if n, ok := fx.names[o]; ok {
		return n
	}
	n := "v_" + o.Name()
	for i := 2; fx.used[n]; i++ {
		n = fmt.Sprintf("v_%s_%d", o.Name(), i)
	}
	fx.used[n] = true
	fx.names[o] = n
	return n
}

func (fx *x2Fx) fresh() string {
	fx.tmp++
	return fmt.Sprintf("t%d", fx.tmp)
}

// does body contain  v[i] = / op= / ++ , or a call statement of a storing function on v ?
func (fx *x2Fx) storesInto(body ast.Node, v types.Object) bool {
	found := false
	isV := func(e ast.Expr) bool {
		if ix, ok := e.(*ast.IndexExpr); ok {
			if id, ok := ix.X.(*ast.Ident); ok {
				return fx.p.info.Uses[id] == v
			}
		}
		return false
	}
	ast.Inspect(body, func(n ast.Node) bool {
		switch n := n.(type) {
		case *ast.AssignStmt:
			for _, l := range n.Lhs {
				if isV(l) {
					found = true
				}
			}
		case *ast.IncDecStmt:
			if isV(n.X) {
				found = true
			}
		case *ast.ExprStmt:
			if c, ok := n.X.(*ast.CallExpr); ok {
				if g, args := fx.calleeOf(c); g != nil {
					for _, mi := range g.mutated {
						if id, ok := args[mi].(*ast.Ident); ok && fx.p.info.Uses[id] == v {
							found = true
						}
					}
				}
			}
		}
		return true
	})
	return found
}

// the result tuple of the function: declared results, then the stored-into parameters
func (fx *x2Fx) retTuple(vals []string) string {
	all := append([]string{}, vals...)
	for _, mi := range fx.f.mutated {
		all = append(all, fx.names[fx.f.params[mi]])
	}
	switch len(all) {
	case 0:
		return "tt"
	case 1:
		return all[0]
	}
	return "(" + strings.Join(all, ", ") + ")"
}

func (fx *x2Fx) retType() string {
	var ts []string
	for _, t := range fx.f.results {
		ts = append(ts, fx.x.coqType(t, fx.f.decl.Pos()))
	}
	for range fx.f.mutated {
		ts = append(ts, "list Z")
	}
	switch len(ts) {
	case 0:
		return "unit"
	case 1:
		return ts[0]
	}
	return "(" + strings.Join(ts, " * ") + ")"
}

// `return vals` at the current loop depth
func (fx *x2Fx) ret(vals []string, pos token.Pos) string {
	if vals == nil && len(fx.f.results) > 0 {
		for _, v := range fx.named {
			vals = append(vals, fx.name(v))
		}
	}
	if fx.depth > 0 {
		return "Ok (Return " + fx.retTuple(vals) + ")"
	}
	return "Ok " + fx.retTuple(vals)
}

// ---------------------------------------------------------------- expressions

func x2Indent(s string) string {
	return "  " + strings.ReplaceAll(s, "\n", "\n  ")
}

// run fn with a fresh prelude; returns the bindings it produced and its result
func (fx *x2Fx) capture(fn func() string) ([]string, string) {
	saved := fx.pre
	var pre []string
	fx.pre = &pre
	defer func() { fx.pre = saved }()
	r := fn()
	return pre, r
}

func x2Join(pre []string, body string) string {
	if len(pre) == 0 {
		return body
	}
	return strings.Join(pre, "\n") + "\n" + body
}

func (fx *x2Fx) bindTo(name, resTerm string) {
	*fx.pre = append(*fx.pre, name+" <- "+resTerm+";;")
}

func (fx *x2Fx) typeOf(e ast.Expr) types.Type {
	tv, ok := fx.p.info.Types[e]
	if !ok || tv.Type == nil {
		fx.x.fail(e.Pos(), "expression without type information")
	}
	if b, ok := tv.Type.(*types.Basic); ok && b.Kind() == types.Invalid {
		fx.x.fail(e.Pos(), "expression of invalid type")
	}
	return tv.Type
}

// expr returns a pure Coq term for e; the checked / effectful parts go to fx.pre
func (fx *x2Fx) expr(e ast.Expr) string {
	x := fx.x
	info := fx.p.info
	if p, ok := e.(*ast.ParenExpr); ok {
		return fx.expr(p.X)
	}
	tv, ok := info.Types[e]
	if ok && tv.Value != nil {
		switch tv.Value.Kind() {
		case constant.Int:
			t := tv.Type
			if b, ok := t.(*types.Basic); ok && b.Info()&types.IsUntyped != 0 {
				t = types.Default(t)
			}
			it, ok := x2IntOf(t)
			if !ok {
				x.fail(e.Pos(), "integer constant of type %s", t.String())
			}
			if !(constant.Compare(it.lo(), token.LEQ, tv.Value) && constant.Compare(tv.Value, token.LEQ, it.hi())) {
				x.fail(e.Pos(), "constant %s overflows %s", tv.Value.ExactString(), t.String())
			}
			if id, ok := e.(*ast.Ident); ok {
				return fmt.Sprintf("(%s (* %s *))", x2Lit(tv.Value), id.Name)
			}
			return x2Lit(tv.Value)
		case constant.Bool:
			return x2Lit(tv.Value)
		}
		x.fail(e.Pos(), "constant of kind %s", tv.Value.Kind())
	}
	switch e := e.(type) {
	case *ast.Ident:
		obj := info.Uses[e]
		switch o := obj.(type) {
		case *types.Nil:
			t := fx.typeOf(e)
			switch {
			case x2IsBytes(t):
				return "[]"
			case x2IsError(t):
				return "None"
			}
			x.fail(e.Pos(), "nil of type %s", t.String())
		case *types.Var:
			if o.Parent() == fx.p.tpkg.Scope() {
				return fx.pkgVar(o, e.Pos())
			}
			if o.IsField() {
				x.fail(e.Pos(), "field %s used as a variable", o.Name())
			}
			if _, ok := fx.names[o]; !ok {
				x.fail(e.Pos(), "variable %s is not a parameter or local of this function", o.Name())
			}
			x.coqType(o.Type(), e.Pos())
			if x2IsBytes(o.Type()) {
				fx.reads = append(fx.reads, x2Read{o, e.Pos()})
			}
			return fx.names[o]
		}
		x.fail(e.Pos(), "identifier %s", e.Name)
	case *ast.SelectorExpr:
		if id, ok := e.X.(*ast.Ident); ok {
			if _, isPkg := info.Uses[id].(*types.PkgName); isPkg {
				x.fail(e.Pos(), "reference to %s.%s outside a call", id.Name, e.Sel.Name)
			}
		}
		sel := info.Selections[e]
		if sel == nil || sel.Kind() != types.FieldVal || len(sel.Index()) != 1 || sel.Indirect() {
			x.fail(e.Pos(), "selector %s", e.Sel.Name)
		}
		n, ok := sel.Recv().(*types.Named)
		if !ok {
			x.fail(e.Pos(), "selector on a value of type %s", sel.Recv().String())
		}
		s := x.useStruct(n, e.Pos())
		return fmt.Sprintf("(g2_%s_%s %s)", s.name, e.Sel.Name, fx.expr(e.X))
	case *ast.UnaryExpr:
		return fx.unary(e)
	case *ast.BinaryExpr:
		return fx.binary(e)
	case *ast.CallExpr:
		rs := fx.call(e, 1)
		return rs[0]
	case *ast.IndexExpr:
		if !x2IsBytes(fx.typeOf(e.X)) {
			x.fail(e.Pos(), "index into a value of type %s", fx.typeOf(e.X).String())
		}
		b := fx.expr(e.X)
		i := fx.intExpr(e.Index)
		t := fx.fresh()
		fx.bindTo(t, fmt.Sprintf("go_index %s %s", b, i))
		return t
	case *ast.SliceExpr:
		if e.Slice3 {
			x.fail(e.Pos(), "3-index slice expression")
		}
		if !x2IsBytes(fx.typeOf(e.X)) {
			x.fail(e.Pos(), "slice of a value of type %s", fx.typeOf(e.X).String())
		}
		b := fx.expr(e.X)
		lo, hi := "0", "(go_len "+b+")"
		if e.Low != nil {
			lo = fx.intExpr(e.Low)
		}
		if e.High != nil {
			hi = fx.intExpr(e.High)
		}
		t := fx.fresh()
		fx.bindTo(t, fmt.Sprintf("go_slice %s %s %s", b, lo, hi))
		return t
	}
	x.fail(e.Pos(), "expression %T", e)
	return ""
}

// e in a context that wants type t (gives `nil` its type)
func (fx *x2Fx) exprT(e ast.Expr, t types.Type) string {
	for {
		p, ok := e.(*ast.ParenExpr)
		if !ok {
			break
		}
		e = p.X
	}
	if id, ok := e.(*ast.Ident); ok {
		if _, isNil := fx.p.info.Uses[id].(*types.Nil); isNil && t != nil {
			switch {
			case x2IsBytes(t):
				return "[]"
			case x2IsError(t):
				return "None"
			}
			fx.x.fail(e.Pos(), "nil of type %s", t.String())
		}
	}
	return fx.expr(e)
}

// an index / bound: any integer type (Go converts the value, never wraps it)
func (fx *x2Fx) intExpr(e ast.Expr) string {
	if _, ok := x2IntOf(fx.typeOf(e)); !ok {
		if b, ok := fx.typeOf(e).(*types.Basic); !ok || b.Info()&types.IsInteger == 0 {
			fx.x.fail(e.Pos(), "index of type %s", fx.typeOf(e).String())
		}
	}
	return fx.expr(e)
}

func (fx *x2Fx) pkgVar(o *types.Var, pos token.Pos) string {
	x := fx.x
	name := o.Name()
	if strings.HasPrefix(name, "Err") {
		cn := "E_" + name
		if fx.p.rel != "" {
			cn = "E_" + fx.p.tpkg.Name() + "_" + name
		}
		x.gerrs[cn] = true
		return "(Some " + cn + ")"
	}
	// var v = []byte("literal"), never written
	for _, f := range fx.p.files {
		for _, d := range f.Decls {
			gd, ok := d.(*ast.GenDecl)
			if !ok || gd.Tok != token.VAR {
				continue
			}
			for _, s := range gd.Specs {
				vs := s.(*ast.ValueSpec)
				for j, nm := range vs.Names {
					if fx.p.info.Defs[nm] != o {
						continue
					}
					if len(vs.Values) != len(vs.Names) {
						x.fail(pos, "package variable %s without a value of its own", name)
					}
					x.requireClean(fx.p, vs.Pos(), vs.End(), "declaration of "+name)
					call, ok := vs.Values[j].(*ast.CallExpr)
					if !ok || len(call.Args) != 1 || !fx.p.info.Types[call.Fun].IsType() || !x2IsBytes(fx.p.info.Types[call.Fun].Type) {
						x.fail(pos, "package variable %s (only Err… values and []byte(\"constant\") are read)", name)
					}
					av := fx.p.info.Types[call.Args[0]]
					if av.Value == nil || av.Value.Kind() != constant.String {
						x.fail(pos, "package variable %s: not a constant string", name)
					}
					if w := fx.writtenTo(o); w.IsValid() {
						x.fail(w, "package variable %s is assigned, stored into or has its address taken; it cannot be read as a constant", name)
					}
					return fmt.Sprintf("(%s (* %s *))", x2BytesLit(constant.StringVal(av.Value)), name)
				}
			}
		}
	}
	x.fail(pos, "package variable %s: declaration not found", name)
	return ""
}

func (fx *x2Fx) writtenTo(o types.Object) token.Pos {
	var found token.Pos
	var base func(e ast.Expr) bool
	base = func(e ast.Expr) bool {
		switch t := e.(type) {
		case *ast.ParenExpr:
			return base(t.X)
		case *ast.IndexExpr:
			return base(t.X)
		case *ast.SliceExpr:
			return base(t.X)
		case *ast.Ident:
			return fx.p.info.Uses[t] == o
		}
		return false
	}
	for _, f := range fx.p.files {
		ast.Inspect(f, func(n ast.Node) bool {
			switch n := n.(type) {
			case *ast.AssignStmt:
				if n.Tok != token.DEFINE {
					for _, l := range n.Lhs {
						if base(l) && !found.IsValid() {
							found = l.Pos()
						}
					}
				}
			case *ast.IncDecStmt:
				if base(n.X) && !found.IsValid() {
					found = n.Pos()
				}
			case *ast.UnaryExpr:
				if n.Op == token.AND && base(n.X) && !found.IsValid() {
					found = n.Pos()
				}
			}
			return true
		})
	}
	return found
}

func (fx *x2Fx) unary(e *ast.UnaryExpr) string {
	x := fx.x
	v := fx.expr(e.X)
	t := fx.typeOf(e)
	switch e.Op {
	case token.NOT:
		if !x2IsBool(t) {
			x.fail(e.Pos(), "! on %s", t.String())
		}
		return "(negb " + v + ")"
	case token.ADD, token.SUB, token.XOR:
		it, ok := x2IntOf(t)
		if !ok {
			x.fail(e.Pos(), "%s on %s", e.Op, t.String())
		}
		switch e.Op {
		case token.ADD:
			return v
		case token.SUB:
			return it.wrap("(- " + v + ")")
		default:
			if it.signed {
				return "(Z.lnot " + v + ")"
			}
			return it.wrap("(Z.lnot " + v + ")")
		}
	}
	x.fail(e.Pos(), "unary operator %s", e.Op)
	return ""
}

// a op b on values of integer type it
func (fx *x2Fx) arith(op token.Token, a, b string, it x2Int, bconst constant.Value, bt types.Type, pos token.Pos) string {
	x := fx.x
	switch op {
	case token.ADD:
		return it.wrap("(" + a + " + " + b + ")")
	case token.SUB:
		return it.wrap("(" + a + " - " + b + ")")
	case token.MUL:
		return it.wrap("(" + a + " * " + b + ")")
	case token.QUO, token.REM:
		if bconst == nil || constant.Sign(bconst) == 0 {
			x.fail(pos, "%s by a non-constant or zero divisor (may panic)", op)
		}
		if op == token.QUO {
			return it.wrap("(Z.quot " + a + " " + b + ")")
		}
		return "(Z.rem " + a + " " + b + ")"
	case token.AND:
		return "(Z.land " + a + " " + b + ")"
	case token.OR:
		return "(Z.lor " + a + " " + b + ")"
	case token.XOR:
		return "(Z.lxor " + a + " " + b + ")"
	case token.AND_NOT:
		return "(Z.ldiff " + a + " " + b + ")"
	case token.SHL, token.SHR:
		if bconst != nil {
			if constant.Sign(bconst) < 0 || !constant.Compare(bconst, token.LSS, constant.MakeInt64(1024)) {
				x.fail(pos, "shift count %s", bconst.ExactString())
			}
		} else if bi, ok := x2IntOf(bt); !ok || bi.signed {
			x.fail(pos, "non-constant shift count of a signed type (would panic when negative)")
		}
		if op == token.SHR {
			return "(Z.shiftr " + a + " " + b + ")"
		}
		return it.wrap("(Z.shiftl " + a + " " + b + ")")
	}
	x.fail(pos, "binary operator %s", op)
	return ""
}

func (fx *x2Fx) binary(e *ast.BinaryExpr) string {
	x := fx.x
	switch e.Op {
	case token.LAND, token.LOR:
		a := fx.expr(e.X)
		pre, b := fx.capture(func() string { return fx.expr(e.Y) })
		if len(pre) == 0 {
			if e.Op == token.LAND {
				return "(" + a + " && " + b + ")"
			}
			return "(" + a + " || " + b + ")"
		}
		// the right operand is evaluated only when needed
		t := fx.fresh()
		rhs := "(\n" + x2Indent(x2Join(pre, "Ok "+b)) + ")"
		if e.Op == token.LAND {
			fx.bindTo(t, "(if "+a+" then "+rhs+" else Ok false)")
		} else {
			fx.bindTo(t, "(if "+a+" then Ok true else "+rhs+")")
		}
		return t
	case token.EQL, token.NEQ, token.LSS, token.LEQ, token.GTR, token.GEQ:
		ta, tb := fx.typeOf(e.X), fx.typeOf(e.Y)
		// err == nil, err != nil
		if _, isNil := tb.(*types.Basic); isNil && tb.(*types.Basic).Kind() == types.UntypedNil && x2IsError(ta) {
			if e.Op != token.EQL && e.Op != token.NEQ {
				x.fail(e.Pos(), "ordering of errors")
			}
			a := fx.expr(e.X)
			if e.Op == token.NEQ {
				return "(go_is_err " + a + ")"
			}
			return "(negb (go_is_err " + a + "))"
		}
		a, b := fx.expr(e.X), fx.expr(e.Y)
		if x2IsBool(ta) && x2IsBool(tb) {
			switch e.Op {
			case token.EQL:
				return "(Bool.eqb " + a + " " + b + ")"
			case token.NEQ:
				return "(negb (Bool.eqb " + a + " " + b + "))"
			}
			x.fail(e.Pos(), "ordering of booleans")
		}
		_, oka := x2IntOf(ta)
		_, okb := x2IntOf(tb)
		if !oka || !okb {
			x.fail(e.Pos(), "comparison of %s and %s", ta.String(), tb.String())
		}
		switch e.Op {
		case token.EQL:
			return "(" + a + " =? " + b + ")"
		case token.NEQ:
			return "(negb (" + a + " =? " + b + "))"
		case token.LSS:
			return "(" + a + " <? " + b + ")"
		case token.LEQ:
			return "(" + a + " <=? " + b + ")"
		case token.GTR:
			return "(" + b + " <? " + a + ")"
		default:
			return "(" + b + " <=? " + a + ")"
		}
	}
	it, ok := x2IntOf(fx.typeOf(e))
	if !ok {
		x.fail(e.Pos(), "operator %s on %s", e.Op, fx.typeOf(e).String())
	}
	a, b := fx.expr(e.X), fx.expr(e.Y)
	return fx.arith(e.Op, a, b, it, fx.p.info.Types[e.Y].Value, fx.typeOf(e.Y), e.Pos())
}

// the translated callee of a call of a package function (nil otherwise), and the arguments
func (fx *x2Fx) calleeOf(e *ast.CallExpr) (*x2Func, []ast.Expr) {
	id, ok := e.Fun.(*ast.Ident)
	if !ok {
		return nil, nil
	}
	fo, ok := fx.p.info.Uses[id].(*types.Func)
	if !ok || fo.Pkg() != fx.p.tpkg {
		return nil, nil
	}
	d, ok := fx.p.funcs[fo.Name()]
	if !ok {
		return nil, nil
	}
	return fx.x.function(fx.p, d), e.Args
}

// call translates a call whose `want` results are used (0 = call statement); it returns the
// names / terms of the results
func (fx *x2Fx) call(e *ast.CallExpr, want int) []string {
	x := fx.x
	info := fx.p.info
	if e.Ellipsis.IsValid() {
		x.fail(e.Pos(), "variadic call f(xs...)")
	}
	one := func(s string) []string {
		if want != 1 {
			x.fail(e.Pos(), "call used as %d values", want)
		}
		return []string{s}
	}
	// conversion
	if tv, ok := info.Types[e.Fun]; ok && tv.IsType() {
		if len(e.Args) != 1 {
			x.fail(e.Pos(), "conversion with %d arguments", len(e.Args))
		}
		to := tv.Type
		from := fx.typeOf(e.Args[0])
		if ti, ok := x2IntOf(to); ok {
			fi, ok := x2IntOf(from)
			if !ok {
				x.fail(e.Pos(), "conversion from %s to %s", from.String(), to.String())
			}
			v := fx.expr(e.Args[0])
			if ti.contains(fi) {
				return one(v)
			}
			return one(ti.wrap(v))
		}
		if x2IsBool(to) && x2IsBool(from) {
			return one(fx.expr(e.Args[0]))
		}
		if x2IsBytes(to) {
			if av := info.Types[e.Args[0]]; av.Value != nil && av.Value.Kind() == constant.String {
				return one(x2BytesLit(constant.StringVal(av.Value)))
			}
			if x2IsBytes(from) {
				return one(fx.expr(e.Args[0]))
			}
		}
		x.fail(e.Pos(), "conversion from %s to %s", from.String(), to.String())
	}
	switch fe := e.Fun.(type) {
	case *ast.Ident:
		if b, ok := info.Uses[fe].(*types.Builtin); ok {
			if b.Name() == "len" && len(e.Args) == 1 && x2IsBytes(fx.typeOf(e.Args[0])) {
				return one("(go_len " + fx.expr(e.Args[0]) + ")")
			}
			x.fail(e.Pos(), "builtin %s (only len of a []byte is supported; cap is not modelled)", b.Name())
		}
		g, _ := fx.calleeOf(e)
		if g == nil {
			x.fail(e.Pos(), "call of %s (not a function of the package)", fe.Name)
		}
		if len(g.params) != len(e.Args) {
			x.fail(e.Pos(), "call with %d arguments to a function of %d parameters", len(e.Args), len(g.params))
		}
		args := []string{g.coqName}
		for i, a := range e.Args {
			args = append(args, fx.exprT(a, g.params[i].Type()))
		}
		if len(g.mutated) > 0 && want != 0 {
			x.fail(e.Pos(), "call of %s, which stores into its argument, inside an expression", g.key)
		}
		if want != 0 && want != len(g.results) {
			x.fail(e.Pos(), "call of %s used as %d values", g.key, want)
		}
		// results: declared ones, then the stored-into arguments (rebound)
		var names, pat []string
		for range g.results {
			t := fx.fresh()
			names = append(names, t)
			pat = append(pat, t)
		}
		if want == 0 {
			for i := range pat {
				pat[i] = "_"
			}
		}
		for _, mi := range g.mutated {
			id, ok := e.Args[mi].(*ast.Ident)
			if !ok {
				x.fail(e.Args[mi].Pos(), "argument stored into by %s is not a plain variable", g.key)
			}
			o, ok := info.Uses[id].(*types.Var)
			if !ok || fx.names[o] == "" {
				x.fail(id.Pos(), "argument stored into by %s is not a local variable", g.key)
			}
			pat = append(pat, fx.names[o])
			fx.noteWrite(o, id.Pos())
		}
		lhs := "_"
		switch len(pat) {
		case 0:
		case 1:
			lhs = pat[0]
		default:
			lhs = "'(" + strings.Join(pat, ", ") + ")"
		}
		fx.bindTo(lhs, strings.Join(args, " "))
		return names
	case *ast.SelectorExpr:
		id, ok := fe.X.(*ast.Ident)
		if !ok {
			x.fail(e.Pos(), "method call")
		}
		pn, ok := info.Uses[id].(*types.PkgName)
		if !ok {
			x.fail(e.Pos(), "method call")
		}
		key := pn.Imported().Path() + "." + fe.Sel.Name
		if _, ok := info.Uses[fe.Sel].(*types.Func); !ok {
			x.fail(e.Pos(), "call of %s: not a function", key)
		}
		switch key {
		case "bytes.IndexByte":
			if len(e.Args) != 2 || !x2IsBytes(fx.typeOf(e.Args[0])) {
				x.fail(e.Pos(), "call of %s", key)
			}
			a := fx.expr(e.Args[0])
			return one("(go_index_byte " + a + " " + fx.expr(e.Args[1]) + ")")
		case "bytes.Equal":
			if len(e.Args) != 2 || !x2IsBytes(fx.typeOf(e.Args[0])) || !x2IsBytes(fx.typeOf(e.Args[1])) {
				x.fail(e.Pos(), "call of %s", key)
			}
			a := fx.expr(e.Args[0])
			return one("(go_bytes_equal " + a + " " + fx.expr(e.Args[1]) + ")")
		case "fmt.Errorf":
			// only the panics of the arguments matter; the message is not modelled
			for i, a := range e.Args {
				if i == 0 {
					if tv := info.Types[a]; tv.Value == nil || tv.Value.Kind() != constant.String {
						x.fail(a.Pos(), "format of fmt.Errorf is not a constant string")
					}
					continue
				}
				fx.effectsOf(a)
			}
			x.gerrs["E_fmt_Errorf"] = true
			return one("(Some E_fmt_Errorf)")
		}
		x.fail(e.Pos(), "call of %s (no library function declared for it)", key)
	}
	x.fail(e.Pos(), "call of %T", e.Fun)
	return nil
}

// evaluate an argument whose value is discarded (fmt.Errorf): string(x) is looked through
func (fx *x2Fx) effectsOf(a ast.Expr) {
	if c, ok := a.(*ast.CallExpr); ok && len(c.Args) == 1 {
		if tv, ok := fx.p.info.Types[c.Fun]; ok && tv.IsType() && x2IsString(tv.Type) {
			fx.effectsOf(c.Args[0])
			return
		}
	}
	if p, ok := a.(*ast.ParenExpr); ok {
		fx.effectsOf(p.X)
		return
	}
	if tv, ok := fx.p.info.Types[a]; ok && tv.Value != nil {
		return
	}
	fx.expr(a)
}

// ---------------------------------------------------------------- statements

func (fx *x2Fx) noteWrite(o types.Object, pos token.Pos) {
	w := x2Write{obj: o, pos: pos}
	if n := len(fx.loops); n > 0 {
		w.from, w.to = fx.loops[n-1].from, fx.loops[n-1].to
		// outermost loop is what matters for "executed again later"
		w.from, w.to = fx.loops[0].from, fx.loops[0].to
	}
	fx.writes = append(fx.writes, w)
}

// every read of ANOTHER slice variable that can execute after a store through variable o
func (fx *x2Fx) aliasNotes() {
	seen := map[string]bool{}
	for _, w := range fx.writes {
		for _, r := range fx.reads {
			if r.obj == w.obj {
				continue
			}
			inLoop := w.from.IsValid() && w.from <= r.pos && r.pos <= w.to
			if !(r.pos > w.pos || inLoop) {
				continue
			}
			// a variable that holds nothing but nil / a value computed after the store is fresh
			old := inLoop
			for _, a := range fx.asg[r.obj] {
				if a < w.pos {
					old = true
				}
			}
			if !old {
				continue
			}
			n := fmt.Sprintf("read of `%s` at %s after the store through `%s` at %s: assumed not to see a changed byte (value semantics; the two must not overlap in the bytes read)",
				r.obj.Name(), fx.x.posStr(r.pos), w.obj.Name(), fx.x.posStr(w.pos))
			if !seen[n] {
				seen[n] = true
				fx.f.notes = append(fx.f.notes, n)
			}
		}
	}
}

// objects assigned inside n that are declared outside [from, to]
func (fx *x2Fx) assignedIn(nodes []ast.Node, from, to token.Pos) []types.Object {
	info := fx.p.info
	seen := map[types.Object]bool{}
	var out []types.Object
	add := func(e ast.Expr) {
		for {
			switch t := e.(type) {
			case *ast.ParenExpr:
				e = t.X
				continue
			case *ast.IndexExpr:
				e = t.X
				continue
			case *ast.SelectorExpr:
				e = t.X
				continue
			}
			break
		}
		id, ok := e.(*ast.Ident)
		if !ok || id.Name == "_" {
			return
		}
		o := info.Uses[id]
		if o == nil {
			return // defined here
		}
		if _, ok := o.(*types.Var); !ok {
			return
		}
		if _, known := fx.names[o]; !known {
			return
		}
		if from <= o.Pos() && o.Pos() <= to {
			return
		}
		if !seen[o] {
			seen[o] = true
			out = append(out, o)
		}
	}
	for _, n := range nodes {
		if n == nil || reflect.ValueOf(n).IsNil() {
			continue
		}
		ast.Inspect(n, func(n ast.Node) bool {
			switch n := n.(type) {
			case *ast.AssignStmt:
				for _, l := range n.Lhs {
					add(l)
				}
			case *ast.IncDecStmt:
				add(n.X)
			case *ast.RangeStmt:
				if n.Tok == token.ASSIGN {
					add(n.Key)
					if n.Value != nil {
						add(n.Value)
					}
				}
			case *ast.ExprStmt:
				if c, ok := n.X.(*ast.CallExpr); ok {
					if g, args := fx.calleeOf(c); g != nil {
						for _, mi := range g.mutated {
							if mi < len(args) {
								add(args[mi])
							}
						}
					}
				}
			}
			return true
		})
	}
	sort.SliceStable(out, func(i, j int) bool { return out[i].Pos() < out[j].Pos() })
	return out
}

func (fx *x2Fx) tupleOf(objs []types.Object) string {
	var ns []string
	for _, o := range objs {
		ns = append(ns, fx.names[o])
	}
	switch len(ns) {
	case 0:
		return "tt"
	case 1:
		return ns[0]
	}
	return "(" + strings.Join(ns, ", ") + ")"
}

func (fx *x2Fx) patOf(objs []types.Object) string {
	switch len(objs) {
	case 0:
		return "_"
	case 1:
		return fx.names[objs[0]]
	}
	return "'" + fx.tupleOf(objs)
}

// store value term v into the assignable expression l; returns the binding lines
func (fx *x2Fx) store(l ast.Expr, v string) []string {
	x := fx.x
	info := fx.p.info
	switch l := l.(type) {
	case *ast.ParenExpr:
		return fx.store(l.X, v)
	case *ast.Ident:
		if l.Name == "_" {
			return nil
		}
		o := info.Defs[l]
		if o == nil {
			o = info.Uses[l]
		}
		vo, ok := o.(*types.Var)
		if !ok || vo.Parent() == fx.p.tpkg.Scope() {
			x.fail(l.Pos(), "assignment to %s, which is not a local variable", l.Name)
		}
		x.coqType(vo.Type(), l.Pos())
		if v != "[]" {
			fx.asg[vo] = append(fx.asg[vo], l.Pos())
		}
		if v == "[]" || v == "None" {
			return []string{"let " + fx.name(vo) + " : " + x.coqType(vo.Type(), l.Pos()) + " := " + v + " in"}
		}
		return []string{"let " + fx.name(vo) + " := " + v + " in"}
	case *ast.SelectorExpr:
		id, ok := l.X.(*ast.Ident)
		sel := info.Selections[l]
		if !ok || sel == nil || sel.Kind() != types.FieldVal || len(sel.Index()) != 1 || sel.Indirect() {
			x.fail(l.Pos(), "assignment to a selector that is not a field of a local struct variable")
		}
		o, ok := info.Uses[id].(*types.Var)
		if !ok || fx.names[o] == "" {
			x.fail(l.Pos(), "assignment to a field of %s, which is not a local variable", id.Name)
		}
		n, ok := sel.Recv().(*types.Named)
		if !ok {
			x.fail(l.Pos(), "assignment to a field of a value of type %s", sel.Recv().String())
		}
		s := x.useStruct(n, l.Pos())
		parts := []string{"g2_mk_" + s.name}
		for _, f := range s.fields {
			if f.name == l.Sel.Name {
				parts = append(parts, v)
			} else {
				parts = append(parts, fmt.Sprintf("(g2_%s_%s %s)", s.name, f.name, fx.names[o]))
			}
		}
		return []string{"let " + fx.names[o] + " := (" + strings.Join(parts, " ") + ") in"}
	case *ast.IndexExpr:
		id, ok := l.X.(*ast.Ident)
		if !ok {
			x.fail(l.Pos(), "store into an element of something that is not a variable")
		}
		o, ok := info.Uses[id].(*types.Var)
		if !ok || fx.names[o] == "" || !x2IsBytes(o.Type()) {
			x.fail(l.Pos(), "store into an element of %s, which is not a local []byte variable", id.Name)
		}
		pre, i := fx.capture(func() string { return fx.intExpr(l.Index) })
		fx.noteWrite(o, l.Pos())
		return append(pre, fmt.Sprintf("%s <- go_set_index %s %s %s;;", fx.names[o], fx.names[o], i, v))
	}
	x.fail(l.Pos(), "assignment to %T", l)
	return nil
}

var x2AssignOps = map[token.Token]token.Token{token.ADD_ASSIGN: token.ADD, token.SUB_ASSIGN: token.SUB, token.MUL_ASSIGN: token.MUL,
	token.QUO_ASSIGN: token.QUO, token.REM_ASSIGN: token.REM,
	token.AND_ASSIGN: token.AND, token.OR_ASSIGN: token.OR, token.XOR_ASSIGN: token.XOR, token.AND_NOT_ASSIGN: token.AND_NOT,
	token.SHL_ASSIGN: token.SHL, token.SHR_ASSIGN: token.SHR}

// l op= r  (op is the binary operator)
func (fx *x2Fx) opAssign(l ast.Expr, op token.Token, rterm string, rconst constant.Value, rtype types.Type, pos token.Pos) []string {
	it, ok := x2IntOf(fx.typeOf(l))
	if !ok {
		fx.x.fail(pos, "%s= on %s", op, fx.typeOf(l).String())
	}
	pre, cur := fx.capture(func() string { return fx.expr(l) })
	v := fx.arith(op, cur, rterm, it, rconst, rtype, pos)
	return append(pre, fx.store(l, v)...)
}

// seq translates a statement list; k yields the term for "falls off the end"
func (fx *x2Fx) seq(stmts []ast.Stmt, k func() string) string {
	x := fx.x
	info := fx.p.info
	if len(stmts) == 0 {
		return k()
	}
	st := stmts[0]
	rest := func() string { return fx.seq(stmts[1:], k) }
	// translate fn's expressions, then prepend their bindings
	withPre := func(fn func() string) string {
		pre, body := fx.capture(fn)
		return x2Join(pre, body)
	}
	switch st := st.(type) {
	case *ast.EmptyStmt:
		return rest()
	case *ast.BlockStmt:
		return fx.seq(st.List, rest)
	case *ast.ReturnStmt:
		if len(stmts) > 1 {
			x.fail(stmts[1].Pos(), "statement after return")
		}
		return withPre(func() string {
			if len(st.Results) == 0 {
				if len(fx.f.results) > 0 && len(fx.named) == 0 {
					x.fail(st.Pos(), "return without values")
				}
				return fx.ret(nil, st.Pos())
			}
			var vals []string
			if len(st.Results) == 1 && len(fx.f.results) > 1 {
				c, ok := st.Results[0].(*ast.CallExpr)
				if !ok {
					x.fail(st.Pos(), "return of one value for %d results", len(fx.f.results))
				}
				vals = fx.call(c, len(fx.f.results))
			} else {
				if len(st.Results) != len(fx.f.results) {
					x.fail(st.Pos(), "return of %d values for %d results", len(st.Results), len(fx.f.results))
				}
				for i, r := range st.Results {
					vals = append(vals, fx.exprT(r, fx.f.results[i]))
				}
			}
			return fx.ret(vals, st.Pos())
		})
	case *ast.DeclStmt:
		gd, ok := st.Decl.(*ast.GenDecl)
		if !ok || gd.Tok != token.VAR {
			x.fail(st.Pos(), "declaration statement")
		}
		return withPre(func() string {
			var lines []string
			for _, sp := range gd.Specs {
				vs := sp.(*ast.ValueSpec)
				switch {
				case len(vs.Values) == 0:
					for _, nm := range vs.Names {
						o := info.Defs[nm]
						if o == nil {
							continue // _
						}
						lines = append(lines, fx.store(nm, x.zero(o.Type(), nm.Pos()))...)
					}
				case len(vs.Values) == len(vs.Names):
					var vals []string
					for i, v := range vs.Values {
						var lt types.Type
						if o := info.Defs[vs.Names[i]]; o != nil {
							lt = o.Type()
						}
						p, t := fx.capture(func() string { return fx.exprT(v, lt) })
						lines = append(lines, p...)
						vals = append(vals, t)
					}
					for i, nm := range vs.Names {
						lines = append(lines, fx.store(nm, vals[i])...)
					}
				default:
					x.fail(vs.Pos(), "var declaration from a multi-valued call")
				}
			}
			return x2Join(lines, rest())
		})
	case *ast.IncDecStmt:
		return withPre(func() string {
			op := token.ADD
			if st.Tok == token.DEC {
				op = token.SUB
			}
			lines := fx.opAssign(st.X, op, "1", constant.MakeInt64(1), types.Typ[types.Int], st.Pos())
			return x2Join(lines, rest())
		})
	case *ast.AssignStmt:
		return withPre(func() string {
			var lines []string
			if op, ok := x2AssignOps[st.Tok]; ok {
				if len(st.Lhs) != 1 || len(st.Rhs) != 1 {
					x.fail(st.Pos(), "operator assignment of several values")
				}
				p, r := fx.capture(func() string { return fx.expr(st.Rhs[0]) })
				lines = append(lines, p...)
				lines = append(lines, fx.opAssign(st.Lhs[0], op, r, info.Types[st.Rhs[0]].Value, fx.typeOf(st.Rhs[0]), st.Pos())...)
				return x2Join(lines, rest())
			}
			if st.Tok != token.ASSIGN && st.Tok != token.DEFINE {
				x.fail(st.Pos(), "assignment operator %s", st.Tok)
			}
			var vals []string
			if len(st.Rhs) == 1 && len(st.Lhs) > 1 {
				c, ok := st.Rhs[0].(*ast.CallExpr)
				if !ok {
					x.fail(st.Pos(), "assignment of one value to %d operands", len(st.Lhs))
				}
				p, vs := fx.captureN(func() []string { return fx.call(c, len(st.Lhs)) })
				lines = append(lines, p...)
				vals = vs
			} else {
				if len(st.Rhs) != len(st.Lhs) {
					x.fail(st.Pos(), "assignment of %d values to %d operands", len(st.Rhs), len(st.Lhs))
				}
				for i, r := range st.Rhs {
					var lt types.Type
					if tv, ok := info.Types[st.Lhs[i]]; ok {
						lt = tv.Type
					}
					p, t := fx.capture(func() string { return fx.exprT(r, lt) })
					lines = append(lines, p...)
					vals = append(vals, t)
				}
				if len(st.Lhs) > 1 {
					// parallel assignment: all right-hand sides first, under names of their own
					for i := range vals {
						t := fx.fresh()
						lines = append(lines, "let "+t+" := "+vals[i]+" in")
						vals[i] = t
					}
				}
			}
			for i, l := range st.Lhs {
				lines = append(lines, fx.store(l, vals[i])...)
			}
			return x2Join(lines, rest())
		})
	case *ast.ExprStmt:
		c, ok := st.X.(*ast.CallExpr)
		if !ok {
			x.fail(st.Pos(), "expression statement")
		}
		return withPre(func() string {
			p, _ := fx.captureN(func() []string { return fx.call(c, 0) })
			return x2Join(p, rest())
		})
	case *ast.IfStmt:
		if st.Init != nil {
			cp := *st
			cp.Init = nil
			return fx.seq([]ast.Stmt{st.Init, &cp}, rest)
		}
		return withPre(func() string {
			c := fx.expr(st.Cond)
			if !x2IsBool(fx.typeOf(st.Cond)) {
				x.fail(st.Cond.Pos(), "condition of type %s", fx.typeOf(st.Cond).String())
			}
			thn := fx.seq(st.Body.List, rest)
			var els string
			switch eb := st.Else.(type) {
			case nil:
				els = rest()
			case *ast.BlockStmt:
				els = fx.seq(eb.List, rest)
			case *ast.IfStmt:
				els = fx.seq([]ast.Stmt{eb}, rest)
			default:
				x.fail(st.Else.Pos(), "else branch")
			}
			return "if " + c + " then (\n" + x2Indent(thn) + "\n) else (\n" + x2Indent(els) + "\n)"
		})
	case *ast.SwitchStmt:
		if st.Init != nil {
			cp := *st
			cp.Init = nil
			return fx.seq([]ast.Stmt{st.Init, &cp}, rest)
		}
		return withPre(func() string {
			tag := ""
			tagBool := false
			if st.Tag != nil {
				tt := fx.typeOf(st.Tag)
				_, isInt := x2IntOf(tt)
				if !isInt && !x2IsBool(tt) {
					x.fail(st.Tag.Pos(), "switch on a value of type %s", tt.String())
				}
				tagBool = !isInt
				v := fx.expr(st.Tag)
				tag = fx.fresh()
				*fx.pre = append(*fx.pre, "let "+tag+" := "+v+" in")
			}
			var def *ast.CaseClause
			var clauses []*ast.CaseClause
			for _, cs := range st.Body.List {
				cc := cs.(*ast.CaseClause)
				for _, b := range cc.Body {
					if br, ok := b.(*ast.BranchStmt); ok {
						x.fail(br.Pos(), "%s in a switch", br.Tok)
					}
				}
				if cc.List == nil {
					if def != nil {
						x.fail(cc.Pos(), "second default")
					}
					def = cc
				} else {
					clauses = append(clauses, cc)
				}
			}
			var build func(i int) string
			build = func(i int) string {
				if i == len(clauses) {
					if def != nil {
						return fx.seq(def.Body, rest)
					}
					return rest()
				}
				cc := clauses[i]
				// case e1, e2: e1 || e2, evaluated left to right, later ones only if needed
				var caseCond func(j int) (pre []string, term string)
				caseCond = func(j int) ([]string, string) {
					pre, c := fx.capture(func() string {
						v := fx.expr(cc.List[j])
						if tag == "" {
							if !x2IsBool(fx.typeOf(cc.List[j])) {
								x.fail(cc.List[j].Pos(), "case of type %s in a tagless switch", fx.typeOf(cc.List[j]).String())
							}
							return v
						}
						if tagBool {
							return "(Bool.eqb " + tag + " " + v + ")"
						}
						return "(" + tag + " =? " + v + ")"
					})
					if j == len(cc.List)-1 {
						return pre, c
					}
					pre2, c2 := caseCond(j + 1)
					if len(pre2) == 0 {
						return pre, "(" + c + " || " + c2 + ")"
					}
					t := fx.fresh()
					pre = append(pre, t+" <- (if "+c+" then Ok true else (\n"+x2Indent(x2Join(pre2, "Ok "+c2))+"));;")
					return pre, t
				}
				pre, c := caseCond(0)
				body := fx.seq(cc.Body, rest)
				return x2Join(pre, "if "+c+" then (\n"+x2Indent(body)+"\n) else (\n"+x2Indent(build(i+1))+"\n)")
			}
			return build(0)
		})
	case *ast.ForStmt:
		if st.Init != nil {
			cp := *st
			cp.Init = nil
			return fx.seq([]ast.Stmt{st.Init, &cp}, rest)
		}
		fx.f.loops++
		state := fx.assignedIn([]ast.Node{st.Body, st.Post}, st.Body.Lbrace, st.Body.Rbrace)
		lp := &x2Loop{state: state, from: st.Pos(), to: st.End()}
		lp.post = func() string {
			if st.Post == nil {
				return "Ok (Continue " + fx.tupleOf(state) + ")"
			}
			return fx.seq([]ast.Stmt{st.Post}, func() string { return "Ok (Continue " + fx.tupleOf(state) + ")" })
		}
		fx.loops = append(fx.loops, lp)
		fx.depth++
		body := withPre(func() string {
			inner := func() string { return fx.seq(st.Body.List, lp.post) }
			if st.Cond == nil {
				return inner()
			}
			if !x2IsBool(fx.typeOf(st.Cond)) {
				x.fail(st.Cond.Pos(), "condition of type %s", fx.typeOf(st.Cond).String())
			}
			c := fx.expr(st.Cond)
			return "if " + c + " then (\n" + x2Indent(inner()) + "\n) else Ok (Break " + fx.tupleOf(state) + ")"
		})
		fx.depth--
		fx.loops = fx.loops[:len(fx.loops)-1]
		return fx.loopTerm(state, body, rest)
	case *ast.RangeStmt:
		if st.Tok != token.DEFINE {
			x.fail(st.Pos(), "range without := (only `for i, c := range b` is supported)")
		}
		rid, ok := st.X.(*ast.Ident)
		if !ok {
			x.fail(st.X.Pos(), "range over something that is not a variable")
		}
		ro, ok := info.Uses[rid].(*types.Var)
		if !ok || fx.names[ro] == "" || !x2IsBytes(ro.Type()) {
			x.fail(st.X.Pos(), "range over %s, which is not a local []byte variable", rid.Name)
		}
		fx.reads = append(fx.reads, x2Read{ro, rid.Pos()})
		// inside the loop the ranged variable may only be stored into by element, and the
		// iteration variables may not be assigned (they are per-iteration copies)
		var keyObj, valObj types.Object
		if id, ok := st.Key.(*ast.Ident); ok && id.Name != "_" {
			keyObj = info.Defs[id]
		} else if st.Key != nil && !ok {
			x.fail(st.Key.Pos(), "range key")
		}
		if st.Value != nil {
			if id, ok := st.Value.(*ast.Ident); ok && id.Name != "_" {
				valObj = info.Defs[id]
			} else if !ok {
				x.fail(st.Value.Pos(), "range value")
			}
		}
		ast.Inspect(st.Body, func(n ast.Node) bool {
			chk := func(e ast.Expr) {
				if id, ok := e.(*ast.Ident); ok {
					if o := info.Uses[id]; o != nil && (o == ro || o == keyObj || o == valObj) {
						x.fail(id.Pos(), "assignment to %s inside a range loop over / declaring it", id.Name)
					}
				}
			}
			switch n := n.(type) {
			case *ast.AssignStmt:
				for _, l := range n.Lhs {
					chk(l)
				}
			case *ast.IncDecStmt:
				chk(n.X)
			case *ast.FuncLit:
				x.fail(n.Pos(), "function literal")
			}
			return true
		})
		fx.f.loops++
		idx := "r_idx"
		if keyObj != nil {
			idx = fx.name(keyObj)
		} else {
			for i := 2; fx.used[idx]; i++ {
				idx = fmt.Sprintf("r_idx_%d", i)
			}
			fx.used[idx] = true
		}
		n := fx.fresh()
		state := fx.assignedIn([]ast.Node{st.Body}, st.Body.Lbrace, st.Body.Rbrace)
		tuple := func(first string) string {
			ns := []string{first}
			for _, o := range state {
				ns = append(ns, fx.names[o])
			}
			if len(ns) == 1 {
				return ns[0]
			}
			return "(" + strings.Join(ns, ", ") + ")"
		}
		lp := &x2Loop{state: state, from: st.Pos(), to: st.End()}
		lp.post = func() string { return "Ok (Continue " + tuple("("+idx+" + 1)") + ")" }
		fx.loops = append(fx.loops, lp)
		fx.depth++
		var head []string
		if valObj != nil {
			head = append(head, fx.name(valObj)+" <- go_index "+fx.names[ro]+" "+idx+";;")
		}
		body := "if " + idx + " <? " + n + " then (\n" + x2Indent(x2Join(head, fx.seq(st.Body.List, lp.post))) +
			"\n) else Ok (Break " + tuple(idx) + ")"
		fx.depth--
		fx.loops = fx.loops[:len(fx.loops)-1]
		pat := tuple(idx)
		fpat := pat
		if len(state) > 0 {
			fpat = "'" + pat
		}
		var b strings.Builder
		b.WriteString("let " + n + " := go_len " + fx.names[ro] + " in\n")
		r := fx.fresh()
		b.WriteString(r + " <- go_loop fuel (fun " + fpat + " =>\n" + x2Indent(body) + ") " + tuple("0") + ";;\n")
		b.WriteString("match " + r + " with\n| inr ret => " + fx.retProp() + "\n| inl " + pat + " =>\n" + x2Indent(rest()) + "\nend")
		return b.String()
	case *ast.BranchStmt:
		if st.Label != nil || len(fx.loops) == 0 {
			x.fail(st.Pos(), "%s", st.Tok)
		}
		if len(stmts) > 1 {
			x.fail(stmts[1].Pos(), "statement after %s", st.Tok)
		}
		lp := fx.loops[len(fx.loops)-1]
		switch st.Tok {
		case token.BREAK:
			return "Ok (Break " + fx.tupleOf(lp.state) + ")"
		case token.CONTINUE:
			return lp.post()
		}
		x.fail(st.Pos(), "%s", st.Tok)
	}
	x.fail(st.Pos(), "statement %T", st)
	return ""
}

func (fx *x2Fx) captureN(fn func() []string) ([]string, []string) {
	saved := fx.pre
	var pre []string
	fx.pre = &pre
	defer func() { fx.pre = saved }()
	r := fn()
	return pre, r
}

// a `return` that happened inside an inner loop, seen from the current depth
func (fx *x2Fx) retProp() string {
	if fx.depth > 0 {
		return "Ok (Return ret)"
	}
	return "Ok ret"
}

func (fx *x2Fx) loopTerm(state []types.Object, body string, rest func() string) string {
	r := fx.fresh()
	fpat := fx.patOf(state)
	if len(state) == 0 {
		fpat = "_"
	}
	var b strings.Builder
	b.WriteString(r + " <- go_loop fuel (fun " + fpat + " =>\n" + x2Indent(body) + ") " + fx.tupleOf(state) + ";;\n")
	ipat := fx.tupleOf(state)
	if len(state) == 0 {
		ipat = "_"
	}
	b.WriteString("match " + r + " with\n| inr ret => " + fx.retProp() + "\n| inl " + ipat + " =>\n" + x2Indent(rest()) + "\nend")
	return b.String()
}

// ---------------------------------------------------------------- output

func (x *x2) print() string {
	var b strings.Builder
	w := func(format string, a ...interface{}) { fmt.Fprintf(&b, format, a...) }
	w("(* GENERATED on every check by `harness translate2` from the Go SOURCE — do not edit.\n")
	w("   source: the tree the harness was built against (module %s)\n\n", x.modpath)
	w("   Semantics (vocabulary: lib/GoSlices.v; translator: harness/translate2.go):\n")
	w("   - every function returns res T: Ok t, Panic (a Go run-time panic: index or slice bounds out of\n")
	w("     range) or OutOfFuel (a loop ran longer than `fuel`); several Go results are a tuple.\n")
	w("   - []byte is list Z with elements 0..255; a slice expression yields a sub-list VALUE (no aliasing,\n")
	w("     nil = empty = []).  b[i] is go_index (Panic unless 0 <= i < len b), b[i:j] is go_slice (Panic\n")
	w("     unless 0 <= i <= j <= len b: len stands for cap, which panics at least whenever Go does),\n")
	w("     b[i] = v is go_set_index and rebinds b.  A function storing into a []byte parameter returns\n")
	w("     the updated list as an extra last result and a call statement f(x) rebinds x; variables\n")
	w("     aliasing x are not updated: see the ALIAS ASSUMPTION lines.\n")
	w("   - integers are Z with explicit wrap_u/wrap_s after + - * << unary - ^ and narrowing conversions;\n")
	w("     int/uint are 64 bit; constants are folded by go/types and inlined (name in a comment).\n")
	w("   - for loops are go_loop fuel (fun state => ...) state0 over the variables assigned in the loop;\n")
	w("     fuel = 65 + the lengths of the function's []byte parameters at entry; the body yields\n")
	w("     Continue state | Break state | Return result.\n")
	w("   - bytes.IndexByte / bytes.Equal / len are go_index_byte / go_bytes_equal / go_len;\n")
	w("     fmt.Errorf(...) is Some E_fmt_Errorf (arguments evaluated for panics only); a package variable\n")
	w("     ErrX is Some E_ErrX; a never-written package variable []byte(\"lit\") is the literal.\n")
	w("   - parameters and locals are v_<name>, temporaries t<n>; an assignment is a shadowing let. *)\n")
	w("From Coq Require Import ZArith List Bool.\nRequire Import GoSlices.\nImport ListNotations.\n")
	w("Open Scope bool_scope.\nOpen Scope Z_scope.\nOpen Scope go_scope.\n\n")
	var es []string
	for e := range x.gerrs {
		es = append(es, e)
	}
	sort.Strings(es)
	w("Inductive g_error : Set :=\n")
	if len(es) == 0 {
		w("  | E_none_used\n")
	}
	for _, e := range es {
		w("  | %s\n", e)
	}
	w(".\n\n")
	for _, n := range x.stOrder {
		s := x.structs[n]
		var fs []string
		for _, f := range s.fields {
			fs = append(fs, fmt.Sprintf("g2_%s_%s : %s", s.name, f.name, x.coqType(f.typ, token.NoPos)))
		}
		w("(* struct %s *)\nRecord g2_%s : Set := g2_mk_%s { %s }.\n\n", n, s.name, s.name, strings.Join(fs, "; "))
	}
	var names []string
	for _, f := range x.order {
		w("(* %s   [%s]", f.key, f.src)
		for _, v := range f.params {
			if it, ok := x2IntOf(v.Type()); ok {
				w("\n   %s : %s, %s <= _ <= %s", v.Name(), it.name(), it.lo().ExactString(), it.hi().ExactString())
			} else if x2IsBytes(v.Type()) {
				w("\n   %s : []byte, every element 0..255", v.Name())
			}
		}
		if len(f.mutated) > 0 {
			w("\n   stores into its parameter(s)")
			for _, mi := range f.mutated {
				w(" %s", f.params[mi].Name())
			}
			w(": the updated value is the last component of the result")
		}
		for _, n := range f.notes {
			w("\n   ALIAS ASSUMPTION: %s", n)
		}
		w(" *)\nDefinition %s", f.coqName)
		for _, line := range f.paramDecls(x) {
			w(" %s", line)
		}
		w(" : res %s :=\n%s.\n\n", f.retTypeStr(x), x2Indent(f.body))
		names = append(names, f.coqName)
	}
	w("Create HintDb xlate2.\n#[export] Hint Unfold\n  %s : xlate2.\n", strings.Join(names, "\n  "))
	return b.String()
}

func (f *x2Func) paramDecls(x *x2) []string {
	var out []string
	used := map[string]bool{}
	for i, v := range f.params {
		n := "v_" + v.Name()
		if v.Name() == "" || v.Name() == "_" {
			n = fmt.Sprintf("v_unused%d", i+1)
		}
		for j := 2; used[n]; j++ {
			n = fmt.Sprintf("v_%s_%d", v.Name(), j)
		}
		used[n] = true
		out = append(out, "("+n+" : "+x.coqType(v.Type(), token.NoPos)+")")
	}
	return out
}

func (f *x2Func) retTypeStr(x *x2) string {
	var ts []string
	for _, t := range f.results {
		ts = append(ts, x.coqType(t, token.NoPos))
	}
	for range f.mutated {
		ts = append(ts, "list Z")
	}
	switch len(ts) {
	case 0:
		return "unit"
	case 1:
		if strings.Contains(ts[0], " ") {
			return "(" + ts[0] + ")"
		}
		return ts[0]
	}
	return "(" + strings.Join(ts, " * ") + ")"
}
