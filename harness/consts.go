package main

import (
	"fmt"
	"strings"

	"github.com/gobwas/ws"
	"github.com/gobwas/ws/wsflate"
	"github.com/gobwas/ws/wsutil"
)

// consts prints coq/gen/Extracted.v: the constants and tables the running code
// holds now (tie A). Values are read from the compiled packages through the
// verif hooks, so an edit of a literal in /repo changes this file.
func init() {
	props["consts"] = func(c *ctx) {
		var b strings.Builder
		b.WriteString("(* GENERATED on every check from /repo by `harness consts` — do not edit. *)\n")
		b.WriteString("From Coq Require Import NArith ZArith List.\nImport ListNotations.\nOpen Scope N_scope.\n\n")
		nl := func(name string, vals []int) {
			fmt.Fprintf(&b, "Definition %s : list N := [", name)
			for i, v := range vals {
				if i > 0 {
					b.WriteString("; ")
				}
				if i%32 == 0 && i > 0 {
					b.WriteString("\n  ")
				}
				fmt.Fprintf(&b, "%d", v)
			}
			b.WriteString("].\n")
		}
		z := func(name string, v int64) { fmt.Fprintf(&b, "Definition %s : Z := (%d)%%Z.\n", name, v) }
		n := func(name string, v int) { fmt.Fprintf(&b, "Definition %s : N := %d.\n", name, v) }
		var tab []int
		for _, x := range wsutil.VerifUtf8d() {
			tab = append(tab, int(x))
		}
		nl("utf8d", tab)
		n("utf8_accept", wsutil.VerifUtf8Accept)
		n("utf8_reject", wsutil.VerifUtf8Reject)
		var rem []int
		for _, x := range ws.VerifRemain {
			rem = append(rem, x)
		}
		nl("remain", rem)
		z("ws_len7", ws.VerifLen7)
		z("ws_len16", ws.VerifLen16)
		z("ws_len64", ws.VerifLen64)
		z("wsutil_len7", wsutil.VerifLen7)
		z("wsutil_len16", wsutil.VerifLen16)
		z("wsutil_len64", wsutil.VerifLen64)
		n("max_header_size", ws.MaxHeaderSize)
		n("min_header_size", ws.MinHeaderSize)
		n("max_control_frame_payload_size", ws.MaxControlFramePayloadSize)
		n("op_continuation", int(ws.OpContinuation))
		n("op_text", int(ws.OpText))
		n("op_binary", int(ws.OpBinary))
		n("op_close", int(ws.OpClose))
		n("op_ping", int(ws.OpPing))
		n("op_pong", int(ws.OpPong))
		n("state_server_side", int(ws.StateServerSide))
		n("state_client_side", int(ws.StateClientSide))
		n("state_extended", int(ws.StateExtended))
		n("state_fragmented", int(ws.StateFragmented))
		n("status_protocol_error", int(ws.StatusProtocolError))
		n("status_no_status_rcvd", int(ws.StatusNoStatusRcvd))
		nl("status_ranges", []int{int(ws.StatusRangeNotInUse.Min), int(ws.StatusRangeNotInUse.Max),
			int(ws.StatusRangeProtocol.Min), int(ws.StatusRangeProtocol.Max),
			int(ws.StatusRangeApplication.Min), int(ws.StatusRangeApplication.Max),
			int(ws.StatusRangePrivate.Min), int(ws.StatusRangePrivate.Max)})
		var ct, crt []int
		for _, x := range wsflate.VerifCompressionTail {
			ct = append(ct, int(x))
		}
		for _, x := range wsflate.VerifCompressionReadTail {
			crt = append(crt, int(x))
		}
		nl("compression_tail", ct)
		nl("compression_read_tail", crt)
		n("nonce_key_size", ws.VerifNonceKeySize)
		n("nonce_size", ws.VerifNonceSize)
		n("accept_size", ws.VerifAcceptSize)
		n("default_write_buffer", wsutil.DefaultWriteBuffer)
		n("default_server_read_buffer_size", ws.DefaultServerReadBufferSize)
		n("default_server_write_buffer_size", ws.DefaultServerWriteBufferSize)
		n("default_client_read_buffer_size", ws.DefaultClientReadBufferSize)
		n("default_client_write_buffer_size", ws.DefaultClientWriteBufferSize)
		fmt.Fprint(c.w, b.String())
	}
}
