package main

import (
	"fmt"
	"strconv"

	"github.com/gobwas/ws"
	"github.com/gobwas/ws/wsutil"
)

func init() {
	for _, k := range []string{"RX", "RXC"} {
		kind := k
		replayers[kind] = func(c *ctx, in []string) {
			side, _ := strconv.Atoi(in[0])
			runRX(c, kind, byte(side), in[1], parseFrames(in[2]), in[3], in[4], in[5])
		}
	}
}

// RX / RXC: ONE call of a ReadData-family helper on a frame stream (optionally cut).
// want: "data" (ReadClientData/ReadServerData), "text", "binary".
func runRX(c *ctx, kind string, side byte, want string, fs []sframe, cut, spec, tail string) {
	w := wireOf(fs)
	if cut != "-" {
		n, _ := strconv.Atoi(cut)
		if n < len(w) {
			w = w[:n]
		}
	}
	rw := &rwPair{r: newChunkReader(w, spec, tail), w: newRecWriter()}
	var p []byte
	var op ws.OpCode
	var err error
	res := fzRun(func() error {
		switch {
		case want == "data" && side == 1:
			p, op, err = wsutil.ReadClientData(rw)
		case want == "data":
			p, op, err = wsutil.ReadServerData(rw)
		case want == "text" && side == 1:
			p, err = wsutil.ReadClientText(rw)
			op = ws.OpText
		case want == "text":
			p, err = wsutil.ReadServerText(rw)
			op = ws.OpText
		case want == "binary" && side == 1:
			p, err = wsutil.ReadClientBinary(rw)
			op = ws.OpBinary
		default:
			p, err = wsutil.ReadServerBinary(rw)
			op = ws.OpBinary
		}
		return err
	})
	out := hresClass(err)
	if res.class == "panic" || res.class == "hang" {
		out = res.class
	} else if err == nil {
		out = fmt.Sprintf("data:%d:%s", op, hx(p))
	} else if out == "other" || out == "proto:other" {
		out = "err:" + readErrClass(err)
	}
	c.emit("%s %d %s %s %s %s %s -> %s %s", kind, side, want, framesTok(fs), cut, spec, tail, hxList(rw.w.calls), out)
}

func runC04X(c *ctx) {
	n := 150
	if c.thor {
		n = 3000
	}
	wants := []string{"data", "text", "binary"}
	for j := 0; j < n; j++ {
		side := byte(1 + c.rng.Intn(2))
		fs := c.randValidStream(side, 1+c.rng.Intn(8), 300)
		w := wireOf(fs)
		runRX(c, "RX", side, wants[j%3], fs, "-", c.randChunkSpec(len(w)), "eof")
	}
	i := 0
	enumSeqs(alphabet([]int{0, 2}), 3, func(seq []aframe) {
		if !seqValid(seq) {
			return
		}
		i++
		if !c.thor && i%3 != 0 {
			return
		}
		side := byte(1 + i%2)
		runRX(c, "RX", side, wants[i%3], c.concrete(side, seq), "-", chunkSpecs[i%len(chunkSpecs)], "eof")
	})
}

func runC16X(c *ctx) {
	n := 25
	if c.thor {
		n = 400
	}
	wants := []string{"data", "text", "binary"}
	for j := 0; j < n; j++ {
		side := byte(1 + c.rng.Intn(2))
		fs := c.randValidStream(side, 1+c.rng.Intn(5), 60)
		w := wireOf(fs)
		for cut := 0; cut < len(w); cut += 1 + c.rng.Intn(1+len(w)/30) {
			runRX(c, "RXC", side, wants[(j+cut)%3], fs, strconv.Itoa(cut), c.randChunkSpec(cut), []string{"eof", "fail", "eofdata"}[(cut+j)%3])
		}
	}
}
