package main

// Cases added after mutation testing (tools/mutate.py, tools/mutation-results.md): every block below
// generates an INPUT CLASS that no earlier generator produced and that lets a one-token change of the
// library survive all checks although it breaks the property for that class. The cases are judged by
// the existing monitors wherever one exists (the observation line has an existing kind); new kinds
// (prefix ZM, monitors in ocaml/k_z_mut.ml) are introduced only where no existing kind observes the
// behaviour. Each block names the mutants (ids of tools/mutation-results.md) it is there for.

import (
	"context"
	"net"
	"strconv"
	"strings"

	"github.com/gobwas/httphead"
	"github.com/gobwas/ws"
	"github.com/gobwas/ws/wsflate"
)

func init() {
	mutWrap := func(id string, extra func(*ctx)) {
		old := props[id]
		props[id] = func(c *ctx) {
			if old != nil {
				old(c)
			}
			extra(c)
		}
	}
	mutWrap("C01", mutC01)
	mutWrap("C06", mutC06)
	mutWrap("C09", mutC09)
	mutWrap("C10", mutC10)
	replayers["ZMDU"] = func(c *ctx, in []string) { mutDU(c, string(unhx(in[0]))) }
	mutWrap("C13", mutC13)
	replayers["ZMCPL"] = func(c *ctx, in []string) { mutCPL(c, in[0]) }
	replayers["ZMBIT"] = func(c *ctx, in []string) {
		var fin, rsv, op int
		fin, _ = strconv.Atoi(in[0])
		rsv, _ = strconv.Atoi(in[1])
		op, _ = strconv.Atoi(in[2])
		mutBIT(c, fin == 1, byte(rsv), byte(op))
	}
	mutWrap("C11", mutC11)
	mutWrap("C16", mutC16)
	mutWrap("C18", mutC18)
}

// C18 -----------------------------------------------------------------------------------------------
func mutC18(c *ctx) {
	// [24e706e3] a put/get cycle that REALLY recycles the writer. PutWriter files a writer under Size(), the
	// pool only has power-of-two classes 128..65536, and every constructor but NewWriterBuffer yields a Size()
	// that is a power of two minus the reserved header room -- so the cycles generated so far always got a
	// fresh writer from GetWriter. A caller-supplied buffer of 2^k + reserved bytes (4 server side, 8 client
	// side) gives Size() == 2^k: the writer is pooled by PutWriter and handed out again by GetWriter.
	type pc struct {
		ctor  string
		state byte
	}
	i := 0
	for _, p := range []pc{{"u132", 1}, {"u136", 2}, {"u1028", 1}, {"u1032", 2}, {"u260", 1}, {"u264", 2}} {
		for _, exts := range []string{"-", "1"} {
			for _, h1 := range []string{"w3/1,fl", "w3/1", "w90/2,ff,w7/3", "w300/4,fl,w5/1", "fl"} {
				for _, fail := range []string{"-", "0"} {
					i++
					if !c.thor && fail == "0" && i%2 == 0 {
						continue
					}
					cfg := wcfg{p.ctor, p.state, byte(1 + i%2), exts}
					if exts != "-" {
						cfg.state |= 4
					}
					st2 := byte(1 + (i/2)%2)
					runW18(c, cfg, h1, fail, "pool", st2, byte(1+(i/3)%2), "w5/7,fl,w200/8,w3/9,fl")
				}
			}
		}
	}
}

// C16 -----------------------------------------------------------------------------------------------
func mutC16(c *ctx) {
	// [6667e2c7] a control frame with a NON-EMPTY payload (close with code and reason, ping, pong), alone,
	// before a message or between its fragments, cut at every byte offset inside it, through every helper of
	// the ReadData family: no reply for the cut frame, and never a clean end of stream.
	wants := []string{"data", "text", "binary"}
	i := 0
	for _, side := range []byte{1, 2} {
		for _, op := range []byte{8, 9, 10} {
			for _, n := range []int{2, 3, 9, 125} {
				for _, shape := range []int{0, 1, 2} {
					ctl := c.mkFrame(side, true, op, n)
					if op == 8 {
						ctl.payload = append([]byte{0x03, 0xe8}, []byte(strings.Repeat("bye ", 32))[:n-2]...)
					}
					var fs []sframe
					switch shape {
					case 0:
						fs = []sframe{ctl, c.mkFrame(side, true, 1, 2)}
					case 1:
						fs = []sframe{c.mkFrame(side, false, 2, 3), ctl, c.mkFrame(side, true, 0, 1)}
					case 2:
						fs = []sframe{c.mkFrame(side, true, 9, 1), ctl}
					}
					for k := range fs {
						if fs[k].op == 1 {
							for j := range fs[k].payload {
								fs[k].payload[j] = 'a' + fs[k].payload[j]%26
							}
						}
					}
					start := 0
					for _, f := range fs {
						if &f.payload[0] == &ctl.payload[0] {
							break
						}
						start += len(wireOf([]sframe{f}))
					}
					end := start + len(wireOf([]sframe{ctl}))
					step := 1
					if n == 125 && !c.thor {
						step = 17
					}
					for cut := start + 1; cut < end; cut += step {
						i++
						runRX(c, "RXC", side, wants[i%3], fs, strconv.Itoa(cut), chunkSpecs[i%len(chunkSpecs)], []string{"eof", "fail", "eofdata"}[i%3])
					}
				}
			}
		}
	}
}

// C01 -----------------------------------------------------------------------------------------------

// [507ea5ed] the package-level precompiled frames: each must be the header codec followed by the payload
// of the frame its name says (ping / pong / close, empty or carrying just the named status code).
var mutCompiled = []struct {
	name string
	get  func() []byte
	op   byte
	code int // -1: empty payload
}{
	{"Ping", func() []byte { return ws.CompiledPing }, 9, -1},
	{"Pong", func() []byte { return ws.CompiledPong }, 10, -1},
	{"Close", func() []byte { return ws.CompiledClose }, 8, -1},
	{"CloseNormalClosure", func() []byte { return ws.CompiledCloseNormalClosure }, 8, 1000},
	{"CloseGoingAway", func() []byte { return ws.CompiledCloseGoingAway }, 8, 1001},
	{"CloseProtocolError", func() []byte { return ws.CompiledCloseProtocolError }, 8, 1002},
	{"CloseUnsupportedData", func() []byte { return ws.CompiledCloseUnsupportedData }, 8, 1003},
	{"CloseNoMeaningYet", func() []byte { return ws.CompiledCloseNoMeaningYet }, 8, 1004},
	{"CloseInvalidFramePayloadData", func() []byte { return ws.CompiledCloseInvalidFramePayloadData }, 8, 1007},
	{"ClosePolicyViolation", func() []byte { return ws.CompiledClosePolicyViolation }, 8, 1008},
	{"CloseMessageTooBig", func() []byte { return ws.CompiledCloseMessageTooBig }, 8, 1009},
	{"CloseMandatoryExt", func() []byte { return ws.CompiledCloseMandatoryExt }, 8, 1010},
	{"CloseInternalServerError", func() []byte { return ws.CompiledCloseInternalServerError }, 8, 1011},
	{"CloseTLSHandshake", func() []byte { return ws.CompiledCloseTLSHandshake }, 8, 1015},
}

func mutCPL(c *ctx, name string) {
	for _, e := range mutCompiled {
		if e.name == name {
			c.emit("ZMCPL %s %d %d -> %s", e.name, e.op, e.code, hx(e.get()))
		}
	}
}

func mutC01(c *ctx) {
	for _, e := range mutCompiled {
		mutCPL(c, e.name)
	}
}

// C13 -----------------------------------------------------------------------------------------------

// [6a146f9e] the stateless helpers wsflate.UnsetBit / SetBit / IsCompressed on every header shape, in
// particular RSV1 on a continuation or control frame (must be refused) and on frames that are no data
// frame (SetBit must leave them alone).
func mutBIT(c *ctx, fin bool, rsv, op byte) {
	h := ws.Header{Fin: fin, Rsv: rsv, OpCode: ws.OpCode(op), Length: 3}
	uh, was, uerr := wsflate.UnsetBit(h)
	sh, serr := wsflate.SetBit(h)
	ic, ierr := wsflate.IsCompressed(h)
	same := func(a ws.Header) int {
		a.Rsv = h.Rsv
		return b2i(a == h)
	}
	c.emit("ZMBIT %d %d %d -> %d %d %d %d %d %d %d %d %d", b2i(fin), rsv, op,
		uh.Rsv, b2i(was), b2i(uerr != nil), same(uh), sh.Rsv, b2i(serr != nil), same(sh), b2i(ic), b2i(ierr != nil))
}

func mutC13(c *ctx) {
	for _, fin := range []bool{true, false} {
		for rsv := byte(0); rsv < 8; rsv++ {
			for op := byte(0); op < 16; op++ {
				mutBIT(c, fin, rsv, op)
			}
		}
	}
}

// C06 -----------------------------------------------------------------------------------------------
func mutC06(c *ctx) {
	// zero-length operations (looked at for [11a6a838], which turned out to be left open by C06): a
	// reader-to-writer copy from an EMPTY source (zero bytes, then EOF), zero-length Write / WriteThrough,
	// alone and mixed with real data, judged by the WH model.
	i := 0
	for _, ctor := range []string{"d0", "s5", "s125", "u64"} {
		for _, side := range []byte{1, 2} {
			for _, h := range []string{
				"r0/1/-,fl", "r0/1/-,ff,fl", "w0/1,fl", "t0/1,fl", "r0/1/-,r0/2/-,fl,fl",
				"r0/1/-,w3/2,fl", "w3/1,r0/2/-,fl", "w3/1,fl,r0/2/-,fl", "r4/1/1,r0/2/-,fl,r0/3/-,fl", "df,r0/1/-,fl",
			} {
				i++
				runWH(c, "WH", wcfg{ctor, side, byte(1 + i%2), "-"}, h, "-")
			}
		}
	}
}

// C10 -----------------------------------------------------------------------------------------------

// [c906390c] the OUTCOME of Dial for a URL it cannot dial (does not parse, scheme other than ws/wss): DD10 /
// DDW only look at the address handed to NetDial. Success may be reported only for a valid 101.
func mutDU(c *ctx, urlstr string) {
	dials := 0
	d := ws.Dialer{
		NetDial: func(ctx context.Context, n, a string) (net.Conn, error) {
			dials++
			return nopConn{}, nil
		},
		TLSClient: func(conn net.Conn, hostname string) net.Conn { return conn },
	}
	res := "panic"
	connNil := true
	func() {
		defer func() { recover() }()
		conn, _, _, err := d.Dial(context.Background(), urlstr)
		connNil = conn == nil
		res = dialErrClass(err)
	}()
	c.emit("ZMDU %s -> %d %s %d", hx([]byte(urlstr)), dials, res, b2i(connNil))
}

func mutC10(c *ctx) {
	for _, us := range urlForms {
		mutDU(c, us)
	}
	for _, us := range []string{"", "%zz", "ws://%zz/", "ws://exa mple.com/", "://x", "ws://example.com/%", "\x7f://a/", "ftp://example.com/", "ws:example.com", "1ws://a/"} {
		mutDU(c, us)
	}
}

// C09 -----------------------------------------------------------------------------------------------
func mutC09(c *ctx) {
	// [7064b4a4] a Negotiate callback that reacts to an option with an EMPTY name (answers it with an
	// extension of its own, or rejects it): the callback must only ever see the client's offers, so
	// neither the phantom extension nor the rejection may show up.
	phantom := httphead.NewOption("phantom", map[string]string{"p": "1"})
	for _, rj := range rejSamples[:2] {
		for _, xv := range []string{"foo", "permessage-deflate; client_max_window_bits, foo; a=1", "bar", "foo, foo", ""} {
			for k, t := range [][]negEntry{
				{{name: "", action: 'a', opt: phantom}, {name: "foo", action: 'e'}},
				{{name: "", action: 'r', rej: rj}, {name: "foo", action: 'e'}},
				{{name: "", action: 'e'}},
			} {
				t := t
				r := baseReq()
				r.lines = canonLines("")
				if xv != "" || k == 0 {
					r.lines = append(r.lines, "Sec-WebSocket-Extensions: "+xv)
				}
				runChunkings(c, r.bytes(), ucfg{neg: &t}, 0)
				r.lines = append(r.lines, "Sec-Websocket-Extensions: baz; q=\"x\"")
				runChunkings(c, r.bytes(), ucfg{neg: &t}, 0)
				// the same through HTTPUpgrader
				h := mandMap("")
				if xv != "" {
					h = append(h, hmEntry{"Sec-Websocket-Extensions", []string{xv, "baz"}})
				}
				h09(c, "up", "GET", 1, 1, "example.com", h, nil, nil, nil, &t)
			}
		}
	}
	// [f5d4bc09] extension (and subprotocol) names of ONE character, without parameters: an accepted
	// answer of size 1 is still an answer.
	for _, xv := range []string{"x", "x, y", "x; a=1", "y, x", "x,x", "z"} {
		for k, t := range [][]negEntry{
			{{name: "x", action: 'e'}},
			{{name: "x", action: 'a', opt: httphead.Option{Name: []byte("x")}}, {name: "y", action: 'a', opt: httphead.Option{Name: []byte("q")}}},
			{{name: "y", action: 'e'}, {name: "x", action: 'd'}},
		} {
			t := t
			r := baseReq()
			r.lines = append(canonLines(""), "Sec-WebSocket-Extensions: "+xv, "Sec-WebSocket-Protocol: a, b")
			runChunkings(c, r.bytes(), ucfg{neg: &t, proto: &[]string{"b", "a"}}, 0)
			h := append(mandMap(""), hmEntry{"Sec-Websocket-Extensions", []string{xv}})
			h09(c, "up", "GET", 1, 1, "example.com", h, nil, nil, nil, &t)
			if k == 0 {
				// deprecated selection path
				runChunkings(c, r.bytes(), ucfg{ext: &[]string{"x"}}, 0)
				h09(c, "up", "GET", 1, 1, "example.com", h, nil, nil, &[]string{"x", "y"}, nil)
			}
		}
	}
}

// C11 -----------------------------------------------------------------------------------------------
func mutC11(c *ctx) {
	// [9eca3275] DebugDialer, response that net/http's parser refuses but the Dialer accepts, whose lines
	// end with a bare LF (the Dialer's readLine takes LF and CRLF alike), followed by frames: the end of
	// "the response bytes" is the first EMPTY line, not the first line holding a lone CR.
	for _, eol := range []string{"\n", "\r\n"} {
		for _, t := range []string{
			"HTTP/1.10 101 Switching Protocols" + eol + "Upgrade: websocket" + eol + "Connection: Upgrade" + eol + "Sec-WebSocket-Accept: @@ACCEPT@@" + eol + eol,
			"HTTP/1.1 101 Switching Protocols" + eol + "Upgrade: websocket" + eol + "Connection: Upgrade" + eol + ": novalue-name" + eol + "Sec-WebSocket-Accept: @@ACCEPT@@" + eol + eol,
			// mixed line ends: the blank line is CRLF after LF-ended lines and the other way round
			"HTTP/1.10 101 x\n" + "Upgrade: websocket\n" + "Connection: Upgrade\n" + "Sec-WebSocket-Accept: @@ACCEPT@@\n" + "\r\n",
			"HTTP/1.10 101 x\r\n" + "Upgrade: websocket\r\n" + "Connection: Upgrade\r\n" + "Sec-WebSocket-Accept: @@ACCEPT@@\r\n" + "\n",
		} {
			for _, rb := range []int{0, 16} {
				tt := []byte(t + "\x81\x05hello\x81\x02yo")
				dbd(c, tt, nil, rb, dcfg{}, true, true)
				dbd(c, tt, []int{7, 1, 30, 2, 500}, rb, dcfg{}, false, true)
				dbd(c, []byte(t), []int{5, 40, 3}, rb, dcfg{}, true, true)
				// a frame whose payload itself contains an empty line / a lone CR line
				dbd(c, []byte(t+"\x81\x04\n\n\r\n"+"\x81\x03\r\n\n"), nil, rb, dcfg{}, true, true)
			}
		}
	}
	// [14493845] a response net/http refuses and the Dialer refuses too, that holds NO empty line, or no line
	// end at all (the stream ends first): "the response bytes" are all bytes received, and nothing panics.
	for _, t := range []string{"garbage", "garbage\r\n", "HTTP/1.10 400 Bad Request\r\nX: y", "HTTP/1.10 101 x\r\nUpgrade: websocket\r\nConnection: Upgrade",
		"\n", "\r", "x\ny", "HTTP/1.1 101 x\r\n: v\r\nUpgrade: websocket"} {
		for _, rb := range []int{0, 16} {
			dbd(c, []byte(t), nil, rb, dcfg{}, true, true)
			dbd(c, []byte(t), nil, rb, dialCfgs[1], false, true)
		}
	}
	_ = strings.Repeat
}
