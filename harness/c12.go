package main

// C12 — permessage-deflate payloads.  Kinds (byte strings hex, "-" empty):
//
//	C12W comp dstfail OPS -> RES LENS EMS DESTLOG Z
//	   comp     f<level> | fnc<level> (flate without Close) | ident | late | tailonly | short | errw
//	   dstfail  -1, or the number of destination writes that succeed before it fails
//	   OPS      comma list of  W<hex> | F | C | R (Reset to a new destination)
//	   RES      per op  n:err      err = none | comp | tail     (R: 0:none)
//	   LENS     per op  length of the current destination after the op
//	   EMS      per op  what the compressor wrote to the cbuf during the op:
//	            x (not called) or chunks joined by "+", "!" appended if it returned an error
//	   DESTLOG  Write calls on each destination joined by "+"; destinations (one per Reset) joined by "|"
//	   Z        python zlib (wbits=-15) inflates destination++tail to the accepted input at
//	            every successful Flush/Close: 1 | 0 | - (no such point / not a flate compressor)
//	C12R api dec chunking br enc PAYLOAD MSG -> ok OUT
//	   api      reader (wsflate.NewReader) | helper (Helper.Decompress) | frame (DecompressFrame)
//	   dec      std (flate.NewReader) | byteonly (a DEFLATE decoder that reads through io.ByteReader only)
//	   chunking 1 | r<seed> | w ; br: source implements io.ByteReader
//	   enc      who produced MSG (sync-flushed, tail removed): z<level>s<strategy> python zlib,
//	            stored (checked against the Coq encoder), go<level> (wsflate.Writer)
//	   OUT      = (equal to PAYLOAD) or hex
//	C12C dstfail CHUNKS -> RES DSTLOG HELD n err          cbuf through the hook
//	C12S br end SRCCHUNKS REQS -> OUTS                     suffixedReader through the hook
//	   end eof|eofl|fail ; REQS comma list r<k>|b ; OUTS per request hex:nil|eof|err
//	C12H c fin rsv op masked mask P -> err | fin rsv op masked mask len C
//	C12H d fin rsv op masked mask C P -> err | fin rsv op masked mask len OUT
//	C12B P -> C ok OUT                                      Helper.Compress then Decompress

import (
	"bufio"
	"bytes"
	"compress/flate"
	"errors"
	"fmt"
	"io"
	"io/ioutil"
	"os/exec"
	"strconv"
	"strings"

	"github.com/gobwas/ws"
	"github.com/gobwas/ws/wsflate"
)

// ---------------------------------------------------------------- python zlib helper
type pyZlib struct {
	cmd *exec.Cmd
	in  *bufio.Writer
	out *bufio.Reader
	ok  bool
}

const pyScript = `
import sys, zlib, binascii
def unh(s): return b'' if s == '-' else binascii.unhexlify(s)
def hx(b): return binascii.hexlify(b).decode() or '-'
for line in sys.stdin:
    t = line.split()
    try:
        if t[0] == 'I':
            d = zlib.decompressobj(-15)
            print(hx(d.decompress(unh(t[1]))))
        elif t[0] == 'D':
            c = zlib.compressobj(int(t[1]), zlib.DEFLATED, -15, 9, int(t[2]))
            print(hx(c.compress(unh(t[3])) + c.flush(zlib.Z_SYNC_FLUSH)))
        else:
            print('ERR')
    except Exception as e:
        print('ERR')
    sys.stdout.flush()
`

var py *pyZlib

func getPy() *pyZlib {
	if py != nil {
		return py
	}
	py = &pyZlib{}
	cmd := exec.Command("python3", "-u", "-c", pyScript)
	stdin, e1 := cmd.StdinPipe()
	stdout, e2 := cmd.StdoutPipe()
	if e1 != nil || e2 != nil || cmd.Start() != nil {
		return py
	}
	py.cmd, py.in, py.out, py.ok = cmd, bufio.NewWriterSize(stdin, 1<<20), bufio.NewReaderSize(stdout, 1<<20), true
	return py
}

func (p *pyZlib) call(req string) (string, bool) {
	if !p.ok {
		return "", false
	}
	p.in.WriteString(req)
	p.in.WriteByte('\n')
	if p.in.Flush() != nil {
		p.ok = false
		return "", false
	}
	line, err := p.out.ReadString('\n')
	if err != nil {
		p.ok = false
		return "", false
	}
	line = strings.TrimSpace(line)
	return line, line != "ERR"
}

func (p *pyZlib) inflate(b []byte) ([]byte, bool) {
	s, ok := p.call("I " + hx(b))
	if !ok {
		return nil, false
	}
	return unhx(s), true
}

// deflate returns zlib's sync-flushed raw DEFLATE of b.
func (p *pyZlib) deflate(level, strategy int, b []byte) ([]byte, bool) {
	s, ok := p.call(fmt.Sprintf("D %d %d %s", level, strategy, hx(b)))
	if !ok {
		return nil, false
	}
	return unhx(s), true
}

// ---------------------------------------------------------------- destinations and compressors
type logDst struct {
	log  [][]byte
	left int // -1: never fails
}

var errDst = errors.New("destination failed")

func (d *logDst) Write(p []byte) (int, error) {
	if d.left == 0 {
		return 0, errDst
	}
	if d.left > 0 {
		d.left--
	}
	d.log = append(d.log, append([]byte{}, p...))
	return len(p), nil
}
func (d *logDst) flat() []byte {
	var b []byte
	for _, c := range d.log {
		b = append(b, c...)
	}
	return b
}
func chunksTok(cs [][]byte) string {
	if len(cs) == 0 {
		return "/" // no chunk at all ("-" is one empty chunk)
	}
	var s []string
	for _, c := range cs {
		s = append(s, hx(c))
	}
	return strings.Join(s, "+")
}
func parseChunks(s string) [][]byte {
	if s == "/" {
		return nil
	}
	var out [][]byte
	for _, t := range strings.Split(s, "+") {
		b := unhx(t)
		if b == nil {
			b = []byte{}
		}
		out = append(out, b)
	}
	return out
}

// tap records what a compressor writes downstream and what it returns.
type tap struct {
	w      io.Writer
	chunks [][]byte
	called bool
	err    error
}

func (t *tap) Write(p []byte) (int, error) {
	t.chunks = append(t.chunks, append([]byte{}, p...))
	return t.w.Write(p)
}

type tapComp struct {
	t     *tap
	inner wsflate.Compressor
}

func (c *tapComp) Write(p []byte) (int, error) {
	c.t.called = true
	n, err := c.inner.Write(p)
	c.t.err = err
	return n, err
}
func (c *tapComp) Flush() error {
	c.t.called = true
	err := c.inner.Flush()
	c.t.err = err
	return err
}

type tapCompCloser struct{ tapComp }

func (c *tapCompCloser) Close() error {
	c.t.called = true
	err := c.inner.(io.Closer).Close()
	c.t.err = err
	return err
}

// non-conforming compressors
type fakeComp struct {
	w      io.Writer
	kind   string
	held   []byte
	writes int
}

var errComp = errors.New("compressor failed")

func (f *fakeComp) Write(p []byte) (int, error) {
	f.writes++
	switch f.kind {
	case "late":
		f.held = append(f.held, p...)
		return len(p), nil
	case "errw":
		if f.writes >= 2 {
			return 0, errComp
		}
	}
	return f.w.Write(p)
}
func (f *fakeComp) Flush() error {
	var err error
	switch f.kind {
	case "late":
		_, err = f.w.Write(f.held)
		f.held = nil
	case "tailonly":
		_, err = f.w.Write([]byte{0, 0, 0xff, 0xff})
	case "short":
		_, err = f.w.Write([]byte{0, 0xff, 0xff})
	case "suffix1":
		_, err = f.w.Write([]byte{0xff})
	case "suffix2":
		_, err = f.w.Write([]byte{0xff, 0xff})
	case "suffix3":
		_, err = f.w.Write([]byte{0, 0xff, 0xff})
	}
	return err
}

type noCloser struct{ wsflate.Compressor }

func c12Ctor(comp string, taps *[]*tap) func(io.Writer) wsflate.Compressor {
	return func(w io.Writer) wsflate.Compressor {
		t := &tap{w: w}
		*taps = append(*taps, t)
		switch {
		case strings.HasPrefix(comp, "fnc"):
			lv, _ := strconv.Atoi(comp[3:])
			f, _ := flate.NewWriter(t, lv)
			return &tapComp{t, f}
		case strings.HasPrefix(comp, "f"):
			lv, _ := strconv.Atoi(comp[1:])
			f, _ := flate.NewWriter(t, lv)
			return &tapCompCloser{tapComp{t, f}}
		}
		return &tapComp{t, &fakeComp{w: t, kind: comp}}
	}
}

type c12wop struct {
	kind byte // W F C R
	data []byte
}

func c12OpsTok(ops []c12wop) string {
	var s []string
	for _, o := range ops {
		if o.kind == 'W' {
			s = append(s, "W"+hx(o.data))
		} else {
			s = append(s, string(o.kind))
		}
	}
	return joinOrDash(s)
}
func c12ParseOps(s string) []c12wop {
	var ops []c12wop
	for _, t := range strings.Split(s, ",") {
		if t == "-" || t == "" {
			continue
		}
		if t[0] == 'W' {
			ops = append(ops, c12wop{'W', unhx(t[1:])})
		} else {
			ops = append(ops, c12wop{t[0], nil})
		}
	}
	return ops
}

func c12W(c *ctx, comp string, dstfail int, ops []c12wop) {
	var taps []*tap
	dst := &logDst{left: dstfail}
	dsts := []*logDst{dst}
	w := wsflate.NewWriter(dst, c12Ctor(comp, &taps))
	var res, lens, ems []string
	var accepted []byte
	isFlate := strings.HasPrefix(comp, "f")
	z := "-"
	var known []struct {
		err error
		cls string
	}
	classify := func(err error, t *tap) string {
		if err == nil {
			return "none"
		}
		for _, k := range known {
			if k.err == err {
				return k.cls
			}
		}
		cls := "tail"
		if t.called && t.err == err {
			cls = "comp"
		}
		known = append(known, struct {
			err error
			cls string
		}{err, cls})
		return cls
	}
	for _, o := range ops {
		t := taps[len(taps)-1]
		t.chunks, t.called, t.err = nil, false, nil
		n := 0
		var err error
		switch o.kind {
		case 'W':
			n, err = w.Write(o.data)
			accepted = append(accepted, o.data[:n]...)
		case 'F':
			err = w.Flush()
		case 'C':
			err = w.Close()
		case 'R':
			dst = &logDst{left: dstfail}
			dsts = append(dsts, dst)
			w.Reset(dst)
			accepted = nil
			known = nil
		}
		res = append(res, fmt.Sprintf("%d:%s", n, classify(err, t)))
		lens = append(lens, strconv.Itoa(len(dst.flat())))
		if o.kind == 'R' {
			ems = append(ems, "x")
		} else if !t.called {
			ems = append(ems, "x")
		} else {
			e := chunksTok(t.chunks)
			if t.err != nil {
				e += "!"
			}
			ems = append(ems, e)
		}
		if isFlate && err == nil && (o.kind == 'F' || o.kind == 'C') {
			if !getPy().ok {
				z = "na"
			} else if out, ok := getPy().inflate(append(dst.flat(), 0, 0, 0xff, 0xff)); ok && bytes.Equal(out, accepted) {
				if z == "-" {
					z = "1"
				}
			} else if getPy().ok {
				z = "0"
			}
		}
	}
	var logs []string
	for _, d := range dsts {
		logs = append(logs, chunksTok(d.log))
	}
	c.emit("C12W %s %d %s -> %s %s %s %s %s", comp, dstfail, c12OpsTok(ops), joinOrDash(res), joinOrDash(lens),
		joinOrDash(ems), strings.Join(logs, "|"), z)
}

// ---------------------------------------------------------------- sources
type chunkSrc struct {
	chunks [][]byte
	end    string // eof | eofl | fail
}

var errSrc = errors.New("source failed")

func (s *chunkSrc) endErr() error {
	if s.end == "fail" {
		return errSrc
	}
	if s.end == "uex" { // the source was cut: what a frame reader reports for a payload that ends early
		return io.ErrUnexpectedEOF
	}
	return io.EOF
}
func (s *chunkSrc) Read(p []byte) (int, error) {
	if len(s.chunks) == 0 {
		return 0, s.endErr()
	}
	c := s.chunks[0]
	if len(c) <= len(p) {
		copy(p, c)
		s.chunks = s.chunks[1:]
		if len(s.chunks) == 0 && s.end == "eofl" {
			return len(c), io.EOF
		}
		return len(c), nil
	}
	copy(p, c[:len(p)])
	s.chunks[0] = c[len(p):]
	return len(p), nil
}

type chunkByteSrc struct{ chunkSrc }

func (s *chunkByteSrc) ReadByte() (byte, error) {
	for len(s.chunks) > 0 && len(s.chunks[0]) == 0 {
		s.chunks = s.chunks[1:]
	}
	if len(s.chunks) == 0 {
		return 0, s.endErr()
	}
	b := s.chunks[0][0]
	if len(s.chunks[0]) == 1 {
		s.chunks = s.chunks[1:]
	} else {
		s.chunks[0] = s.chunks[0][1:]
	}
	return b, nil
}

func newSrc(chunks [][]byte, end string, br bool) io.Reader {
	cp := make([][]byte, len(chunks))
	for i := range chunks {
		cp[i] = append([]byte{}, chunks[i]...)
	}
	if br {
		return &chunkByteSrc{chunkSrc{cp, end}}
	}
	return &chunkSrc{cp, end}
}

func c12Chunk(c *ctx, b []byte, mode string) [][]byte {
	var out [][]byte
	switch {
	case mode == "w":
		if len(b) > 0 {
			out = append(out, b)
		}
	case mode == "1":
		for i := range b {
			out = append(out, b[i:i+1])
		}
	case mode[0] == 'z': // like r<seed>, with idle (0, nil) reads in between: an empty chunk
		for _, ch := range c12Chunk(c, b, "r"+mode[1:]) {
			out = append(out, ch)
			if (len(ch)+len(out))%2 == 0 {
				out = append(out, []byte{})
			}
		}
		if len(out) > 0 {
			out = append([][]byte{{}}, out...)
		}
	default: // r<seed>
		seed, _ := strconv.ParseInt(mode[1:], 10, 64)
		x := uint64(seed)*6364136223846793005 + 1442695040888963407
		for len(b) > 0 {
			x = x*6364136223846793005 + 1442695040888963407
			n := 1 + int((x>>33)%uint64(1+len(b)/3+7))
			if n > len(b) {
				n = len(b)
			}
			out = append(out, b[:n])
			b = b[n:]
		}
	}
	return out
}

// byteOnly is a reader that, when its source offers io.ByteReader, takes every byte through it.
type byteOnly struct{ r io.Reader }

func (b byteOnly) Read(p []byte) (int, error) {
	br, ok := b.r.(io.ByteReader)
	if !ok {
		return b.r.Read(p)
	}
	for i := range p {
		x, err := br.ReadByte()
		if err != nil {
			return i, err
		}
		p[i] = x
	}
	return len(p), nil
}
func (b byteOnly) ReadByte() (byte, error) {
	if br, ok := b.r.(io.ByteReader); ok {
		return br.ReadByte()
	}
	var p [1]byte
	for {
		n, err := b.r.Read(p[:])
		if n == 1 {
			return p[0], nil
		}
		if err != nil {
			return 0, err
		}
	}
}

func c12Dec(dec string) func(io.Reader) wsflate.Decompressor {
	if dec == "byteonly" {
		return func(r io.Reader) wsflate.Decompressor { return flate.NewReader(byteOnly{r}) }
	}
	return func(r io.Reader) wsflate.Decompressor { return flate.NewReader(r) }
}

func c12R(c *ctx, api, dec, chunking string, br bool, enc string, payload, msg []byte) {
	var out []byte
	var err error
	func() {
		defer func() {
			if r := recover(); r != nil {
				err = fmt.Errorf("panic: %v", r)
			}
		}()
		switch api {
		case "reader":
			src := newSrc(c12Chunk(c, msg, chunking), "eof", br)
			r := wsflate.NewReader(src, c12Dec(dec))
			out, err = ioutil.ReadAll(r)
			if err == nil {
				err = r.Close()
			}
		case "helper":
			h := wsflate.Helper{Decompressor: c12Dec(dec)}
			out, err = h.Decompress(msg)
		case "frame":
			h := wsflate.Helper{Decompressor: c12Dec(dec)}
			var f ws.Frame
			f, err = h.DecompressFrame(ws.Frame{Header: ws.Header{Fin: true, Rsv: ws.Rsv(true, false, false),
				OpCode: ws.OpBinary, Length: int64(len(msg))}, Payload: msg})
			out = f.Payload
		}
	}()
	o := hx(out)
	if bytes.Equal(out, payload) && len(out) > 64 {
		o = "="
	}
	c.emit("C12R %s %s %s %d %s %s %s -> %d %s", api, dec, chunking, b2i(br), enc, hx(payload), hx(msg), b2i(err == nil), o)
}

// storedMessage: the message as non-final stored blocks followed by the header byte of
// the empty stored block (what a sync flush leaves once 00 00 ff ff is removed).
func storedMessage(m []byte) []byte {
	var out []byte
	for len(m) > 0 {
		n := len(m)
		if n > 65535 {
			n = 65535
		}
		out = append(out, 0, byte(n), byte(n>>8), byte(^n), byte((^n)>>8))
		out = append(out, m[:n]...)
		m = m[n:]
	}
	return append(out, 0)
}

// ---------------------------------------------------------------- hooks: cbuf, suffixedReader
func c12C(c *ctx, dstfail int, chunks [][]byte) {
	dst := &logDst{left: dstfail}
	cb := wsflate.NewVerifCbuf(dst)
	var res []string
	for _, p := range chunks {
		n, err := cb.Write(p)
		res = append(res, fmt.Sprintf("%d:%d", n, b2i(err != nil)))
	}
	held, n := cb.Held()
	c.emit("C12C %d %s -> %s %s %s %d %d", dstfail, chunksTok(chunks), joinOrDash(res), chunksTok(dst.log), hx(held[:]), n, b2i(cb.Err() != nil))
}

func c12S(c *ctx, br bool, end string, chunks [][]byte, reqs []string) {
	src := newSrc(chunks, end, br)
	sr := wsflate.NewVerifSuffixedReader(src)
	var outs []string
	st := func(err error) string {
		switch err {
		case nil:
			return "nil"
		case io.EOF:
			return "eof"
		}
		return "err"
	}
	for _, q := range reqs {
		if q == "b" {
			b, err := sr.ReadByte()
			if err != nil {
				outs = append(outs, "-:"+st(err))
			} else {
				outs = append(outs, hx([]byte{b})+":nil")
			}
		} else {
			k, _ := strconv.Atoi(q[1:])
			p := make([]byte, k)
			n, err := sr.Read(p)
			outs = append(outs, hx(p[:n])+":"+st(err))
		}
	}
	c.emit("C12S %d %s %s %s -> %s", b2i(br), end, chunksTok(chunks), joinOrDash(reqs), joinOrDash(outs))
}

// ---------------------------------------------------------------- helpers
func c12HErr(err error, fin bool) string {
	if err == wsflate.ErrUnexpectedCompressionBit {
		return "bit"
	}
	if !fin {
		return "frag"
	}
	return "engine"
}
func c12FrameTok(f ws.Frame) string {
	return fmt.Sprintf("%d %d %d %d %s %d %s", b2i(f.Header.Fin), f.Header.Rsv, f.Header.OpCode, b2i(f.Header.Masked),
		hx(f.Header.Mask[:]), f.Header.Length, hx(f.Payload))
}
func c12H(c *ctx, op string, fin bool, rsv, opc byte, masked bool, mask [4]byte, p []byte) {
	h := ws.Header{Fin: fin, Rsv: rsv, OpCode: ws.OpCode(opc), Masked: masked, Mask: mask}
	hdr := fmt.Sprintf("%d %d %d %d %s", b2i(fin), rsv, opc, b2i(masked), hx(mask[:]))
	if op == "c" {
		h.Length = int64(len(p))
		f, err := wsflate.CompressFrame(ws.Frame{Header: h, Payload: append([]byte{}, p...)})
		if err != nil {
			c.emit("C12H c %s %s -> %s", hdr, hx(p), c12HErr(err, fin))
		} else {
			c.emit("C12H c %s %s -> %s", hdr, hx(p), c12FrameTok(f))
		}
		return
	}
	comp, err := wsflate.DefaultHelper.Compress(p)
	if err != nil {
		panic(err)
	}
	h.Length = int64(len(comp))
	f, err := wsflate.DecompressFrame(ws.Frame{Header: h, Payload: append([]byte{}, comp...)})
	if err != nil {
		c.emit("C12H d %s %s %s -> %s", hdr, hx(comp), hx(p), c12HErr(err, fin))
	} else {
		c.emit("C12H d %s %s %s -> %s", hdr, hx(comp), hx(p), c12FrameTok(f))
	}
}

func c12B(c *ctx, p []byte) {
	comp, err := wsflate.DefaultHelper.Compress(p)
	var out []byte
	if err == nil {
		out, err = wsflate.DefaultHelper.Decompress(comp)
	}
	c.emit("C12B %s -> %s %d %s", hx(p), hx(comp), b2i(err == nil), hx(out))
}

// ---------------------------------------------------------------- registration, generation
func init() {
	props["C12"] = runC12
	replayers["C12W"] = func(c *ctx, in []string) {
		df, _ := strconv.Atoi(in[1])
		c12W(c, in[0], df, c12ParseOps(in[2]))
	}
	replayers["C12R"] = func(c *ctx, in []string) {
		c12R(c, in[0], in[1], in[2], in[3] == "1", in[4], unhx(in[5]), unhx(in[6]))
	}
	replayers["C12C"] = func(c *ctx, in []string) {
		df, _ := strconv.Atoi(in[0])
		c12C(c, df, parseChunks(in[1]))
	}
	replayers["C12S"] = func(c *ctx, in []string) {
		var reqs []string
		if in[3] != "-" {
			reqs = strings.Split(in[3], ",")
		}
		c12S(c, in[0] == "1", in[1], parseChunks(in[2]), reqs)
	}
	replayers["C12H"] = func(c *ctx, in []string) {
		rsv, _ := strconv.Atoi(in[2])
		opc, _ := strconv.Atoi(in[3])
		var mask [4]byte
		copy(mask[:], unhx(in[5]))
		p := unhx(in[6])
		if in[0] == "d" {
			p = unhx(in[7])
		}
		c12H(c, in[0], in[1] == "1", byte(rsv), byte(opc), in[4] == "1", mask, p)
	}
	replayers["C12B"] = func(c *ctx, in []string) { c12B(c, unhx(in[0])) }
}

type c12payload struct {
	name string
	data []byte
	big  bool
}

func c12Payloads(c *ctx) []c12payload {
	text := []byte(strings.Repeat("The quick brown fox jumps over the lazy dog. ", 7) + "permessage-deflate é€")
	rnd := make([]byte, 64<<10)
	c.rng.Read(rnd)
	zeros := make([]byte, 200<<10)
	rep := make([]byte, 40000)
	pat := make([]byte, 1777)
	c.rng.Read(pat)
	for i := range rep {
		rep[i] = pat[i%len(pat)]
	}
	small := make([]byte, 300)
	c.rng.Read(small)
	return []c12payload{
		{"empty", nil, false}, {"one", []byte{0x41}, false}, {"text", text, false}, {"rnd300", small, false},
		{"tailbytes", []byte{1, 2, 3, 0, 0, 0xff, 0xff}, false},
		{"rnd64k", rnd, true}, {"zeros200k", zeros, true}, {"rep40k", rep, true},
	}
}

// scripts: how a payload is written and flushed
func c12Scripts(c *ctx, p []byte) [][]c12wop {
	W := func(b []byte) c12wop { return c12wop{'W', b} }
	F, C := c12wop{'F', nil}, c12wop{'C', nil}
	half := len(p) / 2
	third := len(p) / 3
	scripts := [][]c12wop{
		{W(p), F},
		{W(p), F, C},
		{W(p), C},
		{W(p[:half]), W(p[half:]), F, F},      // double flush
		{F, W(p), F},                          // flush with nothing written
		{W(p[:third]), F, W(p[third:]), F, C}, // write after flush
		{W(p[:third]), W(p[third : 2*third]), F, W(p[2*third:]), F, F, C, C}, // close twice
		{W(p), F, C, W(p), F}, // write after close
	}
	if len(p) < 1000 {
		var bytewise []c12wop
		for i := range p {
			bytewise = append(bytewise, W(p[i:i+1]))
		}
		scripts = append(scripts, append(bytewise, F))
	}
	return scripts
}

func compositions(b []byte) [][][]byte {
	if len(b) == 0 {
		return [][][]byte{nil}
	}
	var out [][][]byte
	for mask := 0; mask < 1<<(len(b)-1); mask++ {
		var cs [][]byte
		start := 0
		for i := 1; i <= len(b); i++ {
			if i == len(b) || mask&(1<<(i-1)) != 0 {
				cs = append(cs, b[start:i])
				start = i
			}
		}
		out = append(out, cs)
	}
	return out
}

func runC12(c *ctx) {
	payloads := c12Payloads(c)
	levels := []int{-2, -1, 0, 1, 2, 3, 4, 5, 6, 7, 8, 9}
	// 1. Writer scripts over payload classes x levels
	for _, p := range payloads {
		scripts := c12Scripts(c, p.data)
		for li, lv := range levels {
			for si, s := range scripts {
				if p.big && !c.thor {
					// quick tier: big payloads on a diagonal of (level, script)
					if si != li%len(scripts) && !(si == 5 && (lv == 9 || lv == -2)) {
						continue
					}
				}
				c12W(c, fmt.Sprintf("f%d", lv), -1, s)
			}
		}
		if !p.big {
			c12W(c, "fnc6", -1, []c12wop{{'W', p.data}, {'F', nil}, {'C', nil}, {'C', nil}})
		}
	}
	// Reset in the middle, random scripts
	nrand := 150
	if c.thor {
		nrand = 1500
	}
	for i := 0; i < nrand; i++ {
		var ops []c12wop
		n := 1 + c.rng.Intn(9)
		for j := 0; j < n; j++ {
			switch r := c.rng.Intn(10); {
			case r < 5:
				b := make([]byte, c.rng.Intn(600))
				if c.rng.Intn(2) == 0 {
					c.rng.Read(b)
				}
				ops = append(ops, c12wop{'W', b})
			case r < 8:
				ops = append(ops, c12wop{'F', nil})
			case r < 9:
				ops = append(ops, c12wop{'C', nil})
			default:
				ops = append(ops, c12wop{'R', nil})
			}
		}
		ops = append(ops, c12wop{'F', nil})
		c12W(c, fmt.Sprintf("f%d", levels[c.rng.Intn(len(levels))]), -1, ops)
	}
	// 2. non-conforming compressors and failing destinations
	small := [][]byte{nil, {1}, {1, 2, 3}, {0, 0, 0xff, 0xff}, {9, 0, 0, 0xff, 0xff}, {0, 0xff, 0xff}, {5, 6, 7, 8, 9, 10, 11},
		[]byte("hello, world"), {0, 0, 0xff}, {0xff, 0xff, 0, 0, 0xff, 0xff, 0, 0, 0xff, 0xff}}
	for _, comp := range []string{"ident", "late", "tailonly", "short", "errw"} {
		for _, p := range small {
			c12W(c, comp, -1, []c12wop{{'W', p}, {'F', nil}})
			c12W(c, comp, -1, []c12wop{{'W', p}, {'F', nil}, {'W', p}, {'F', nil}, {'C', nil}})
			c12W(c, comp, -1, []c12wop{{'W', p}, {'W', p}, {'C', nil}, {'R', nil}, {'W', p}, {'F', nil}})
		}
	}
	for df := 0; df < 4; df++ {
		for _, p := range small {
			c12W(c, "f6", df, []c12wop{{'W', p}, {'F', nil}, {'W', p}, {'F', nil}, {'C', nil}})
			c12W(c, "ident", df, []c12wop{{'W', p}, {'W', p}, {'F', nil}, {'W', p}})
		}
	}
	// 3. Reader: independent encoders' sync-flushed output minus tail
	type encoded struct {
		enc string
		p   c12payload
		msg []byte
	}
	var encs []encoded
	for _, p := range payloads {
		for _, zl := range []struct{ lv, st int }{{0, 0}, {1, 0}, {6, 0}, {9, 0}, {9, 4}, {6, 2}, {6, 3}} {
			if p.big && !c.thor && !(zl.lv == 6 && zl.st == 0 || zl.lv == 9 && zl.st == 4) {
				continue
			}
			if out, ok := getPy().deflate(zl.lv, zl.st, p.data); ok && len(out) >= 4 {
				encs = append(encs, encoded{fmt.Sprintf("z%ds%d", zl.lv, zl.st), p, out[:len(out)-4]})
			}
		}
		encs = append(encs, encoded{"stored", p, storedMessage(p.data)})
		for _, lv := range []int{-2, 0, 1, 9} {
			if p.big && !c.thor && lv != 9 {
				continue
			}
			var b bytes.Buffer
			w := wsflate.NewWriter(&b, func(w io.Writer) wsflate.Compressor { f, _ := flate.NewWriter(w, lv); return f })
			w.Write(p.data)
			w.Flush()
			encs = append(encs, encoded{fmt.Sprintf("go%d", lv), p, append([]byte{}, b.Bytes()...)})
		}
	}
	for _, e := range encs {
		for _, ch := range []string{"1", fmt.Sprintf("r%d", c.rng.Intn(1000)), "w", fmt.Sprintf("z%d", c.rng.Intn(1000))} {
			if e.p.big && ch == "1" && !c.thor {
				continue
			}
			for br := 0; br < 2; br++ {
				c12R(c, "reader", "std", ch, br == 1, e.enc, e.p.data, e.msg)
				if !e.p.big {
					c12R(c, "reader", "byteonly", ch, br == 1, e.enc, e.p.data, e.msg)
				}
			}
		}
		c12R(c, "helper", "std", "w", true, e.enc, e.p.data, e.msg)
		c12R(c, "frame", "std", "w", true, e.enc, e.p.data, e.msg)
		if !e.p.big {
			c12R(c, "helper", "byteonly", "w", true, e.enc, e.p.data, e.msg)
		}
	}
	// 4. cbuf and suffixedReader through the hooks: all splits of strings of length <= 9
	base := []byte{0x61, 0, 0, 0xff, 0xff, 0x62, 0x63, 0, 0xff}
	for n := 0; n <= 9; n++ {
		for _, cs := range compositions(base[:n]) {
			c12C(c, -1, cs)
			for _, end := range []string{"eof", "eofl"} {
				for br := 0; br < 2; br++ {
					c12S(c, br == 1, end, cs, []string{"r1", "r1", "r1", "r1", "r1", "r1", "r1", "r1", "r1", "r1", "r1", "r1", "r1", "r1", "r1", "r1", "r1", "r1", "r1", "r1", "r1"})
					c12S(c, br == 1, end, cs, []string{"r64", "r64", "r64", "r64", "r64", "r64", "r64", "r64", "r64", "r64", "r64", "r64"})
					c12S(c, br == 1, end, cs, []string{"r3", "r4", "r2", "r5", "r3", "r4", "r2", "r5", "r3", "r4", "r2", "r5", "r7", "r7"})
					if br == 1 {
						var bs []string
						for i := 0; i < n+11; i++ {
							bs = append(bs, "b")
						}
						c12S(c, true, end, cs, bs)
						var mix []string
						for i := 0; i < n+12; i++ {
							if c.rng.Intn(2) == 0 {
								mix = append(mix, "b")
							} else {
								mix = append(mix, fmt.Sprintf("r%d", 1+c.rng.Intn(4)))
							}
						}
						c12S(c, true, end, cs, mix)
					}
				}
			}
		}
	}
	c12C(c, -1, [][]byte{{}, {1}, {}, {2, 3, 4, 5, 6}, {}, {7}})
	for df := 0; df < 3; df++ {
		c12C(c, df, [][]byte{{1, 2, 3}, {4, 5, 6}, {7, 8, 9, 10, 11, 12}, {13}, {14}})
		c12C(c, df, [][]byte{{1, 2, 3, 4, 5, 6, 7, 8, 9}, {1, 2}, {3}})
	}
	for i := 0; i < 300; i++ {
		var cs [][]byte
		for j := c.rng.Intn(7); j >= 0; j-- {
			b := make([]byte, c.rng.Intn(12))
			c.rng.Read(b)
			cs = append(cs, b)
		}
		c12C(c, -1, cs)
	}
	// sources that answer some reads with (0, nil) while data remains: not the end of the source
	for _, br := range []bool{false, true} {
		for _, end := range []string{"eof", "eofl", "fail"} {
			for _, cs := range [][][]byte{{{1, 2}, {}, {3}, {}, {}, {4, 5, 6}}, {{}, {1}}, {{1}, {}}, {{}, {}, {7, 8, 9, 10}, {}}} {
				c12S(c, br, end, cs, []string{"r1", "r1", "r1", "r1", "r1", "r1", "r1", "r1", "r1", "r1", "r1", "r1", "r1", "r1", "r1", "r1", "r1", "r1", "r1", "r1", "r1", "r1", "r1"})
				c12S(c, br, end, cs, []string{"r5", "r5", "r5", "r64", "r64", "r64", "r64", "r64", "r64", "r64", "r64", "r64", "r64"})
			}
		}
	}
	for _, br := range []bool{false, true} {
		c12S(c, br, "fail", [][]byte{{1, 2}, {3}}, []string{"r1", "r5", "r5", "r5", "r5"})
		c12S(c, br, "fail", nil, []string{"r5", "r5"})
	}
	c12S(c, true, "fail", [][]byte{{1, 2}, {3}}, []string{"b", "b", "b", "b", "b"})
	// 5. frame helpers
	var mask [4]byte
	c.rng.Read(mask[:])
	for _, p := range [][]byte{nil, []byte("hello, hello, hello"), payloads[3].data} {
		for fin := 0; fin < 2; fin++ {
			for rsv := 0; rsv < 8; rsv++ {
				for opc := 0; opc < 16; opc++ {
					for m := 0; m < 2; m++ {
						mk := mask
						if m == 0 {
							mk = [4]byte{}
						}
						c12H(c, "c", fin == 1, byte(rsv), byte(opc), m == 1, mk, p)
						c12H(c, "d", fin == 1, byte(rsv), byte(opc), m == 1, mk, p)
					}
				}
			}
		}
	}
	for _, p := range payloads {
		c12B(c, p.data)
	}
}
