package main

// C17 — Returned data and caller buffers are never aliased to pooled or internal memory.
//
// Poison-and-recheck: GOMAXPROCS(1) and the GC switched off during the window, so that a
// sync.Pool Get of a size class returns the object that was Put last.  After every call
// under test the harness
//   1. snapshots what the result reads as (before),
//   2. recycles the library's pools — pbytes of every size class, pbufio readers and
//      writers, wsutil's frame writers — overwriting every recycled buffer with 0xAA,
//   3. runs a second, different operation of the same kind (which reuses the same buffers),
//   4. re-reads the very same result objects (after).
// Write side: the caller's slice is compared with a saved copy; the caller then scribbles on
// it and the bytes the destination received are re-read (for the buffered Writer: scribble
// between Write and Flush).
// A build with -tags pool_sanitize (gobwas/pool's guard-page allocator) runs the same cases:
// a write into a slice after Put faults at once, a read faults after the GC has run the
// finalizer that unmaps it (the harness forces two GCs before re-reading).
//
// Lines:
//   C17R path san buf pieces lits -> before after status
//   C17W path client p junk -> caller_after hdrlen key dest_mid dest_final status
//   C17M fn p key -> caller_after result_before result_after status
//   C17X san payload -> before after status          (positive control: the unsafe parser)

import (
	"bufio"
	"bytes"
	"crypto/sha1"
	"encoding/base64"
	"fmt"
	"io"
	"net"
	"net/http"
	"net/url"
	"runtime"
	"runtime/debug"
	"strconv"
	"strings"
	"time"

	"github.com/gobwas/httphead"
	"github.com/gobwas/pool/pbufio"
	"github.com/gobwas/pool/pbytes"
	"github.com/gobwas/ws"
	"github.com/gobwas/ws/wsflate"
	"github.com/gobwas/ws/wsutil"
)

func init() {
	props["C17"] = runC17
	replayers["C17R"] = func(c *ctx, in []string) { c17Setup(); c17ReplayR(c, in) }
	replayers["C17W"] = func(c *ctx, in []string) {
		c17Setup()
		cl, _ := strconv.Atoi(in[1])
		j, _ := strconv.Atoi(in[3])
		c17W(c, in[0], cl != 0, unhx(in[2]), byte(j))
	}
	replayers["C17M"] = func(c *ctx, in []string) {
		c17Setup()
		var k [4]byte
		copy(k[:], unhx(in[2]))
		c17M(c, in[0], unhx(in[1]), k)
	}
	replayers["C17X"] = func(c *ctx, in []string) { c17Setup(); c17X(c, unhx(in[1])) }
}

var c17Ready bool

func c17Setup() {
	if !c17Ready {
		c17Ready = true
		runtime.GOMAXPROCS(1)
		debug.SetGCPercent(-1)
		debug.SetPanicOnFault(true)
	}
}

func hxl(l [][]byte) string {
	if len(l) == 0 {
		return "-"
	}
	s := make([]string, len(l))
	for i, b := range l {
		if len(b) == 0 {
			s[i] = "."
		} else {
			s[i] = hx(b)
		}
	}
	return strings.Join(s, ",")
}

// cpStr copies a string's bytes for certain. ([]byte(s) may share the string's memory when the
// compiler sees the slice is only read - which would make a snapshot follow an aliasing bug.)
func cpStr(s string) []byte {
	b := make([]byte, len(s))
	copy(b, s)
	return b
}

func errOr(st string) string {
	if st == "ok" {
		return "err"
	}
	return st
}

func b2s(b bool) string {
	if b {
		return "1"
	}
	return "0"
}

type aaReader struct{}

func (aaReader) Read(p []byte) (int, error) {
	for i := range p {
		p[i] = 0xAA
	}
	return len(p), nil
}

var c17AA = bytes.Repeat([]byte{0xAA}, 1<<17)

// c17Poison recycles every pool the library uses and overwrites what it gets.
func c17Poison() {
	for n := 128; n <= 65536; n <<= 1 {
		var held [][]byte
		if !poolSanitize {
			for k := 0; k < 3; k++ {
				b := pbytes.GetLen(n)
				b = b[:cap(b)]
				copy(b, c17AA)
				held = append(held, b)
			}
			for _, b := range held {
				pbytes.Put(b)
			}
		}
		var rs []*bufio.Reader
		for k := 0; k < 3; k++ {
			r := pbufio.GetReader(aaReader{}, n)
			r.Peek(r.Size())
			rs = append(rs, r)
		}
		for _, r := range rs {
			pbufio.PutReader(r)
		}
		var wsx []*bufio.Writer
		for k := 0; k < 3; k++ {
			w := pbufio.GetWriter(io.Discard, n)
			w.Write(c17AA[:w.Size()-1])
			wsx = append(wsx, w)
		}
		for _, w := range wsx {
			w.Reset(io.Discard)
			pbufio.PutWriter(w)
		}
		var fw []*wsutil.Writer
		for k := 0; k < 2; k++ {
			w := wsutil.GetWriter(io.Discard, ws.StateServerSide, ws.OpBinary, n)
			w.Write(c17AA[:w.Size()])
			fw = append(fw, w)
		}
		for _, w := range fw {
			wsutil.PutWriter(w)
		}
	}
	if poolSanitize {
		// let the finalizers of returned slices unmap them: a stale alias now faults
		runtime.GC()
		time.Sleep(time.Millisecond)
		runtime.GC()
		time.Sleep(time.Millisecond)
	}
}

// guarded runs f and reports a fault / panic as a status.
func guarded(f func()) (status string) {
	status = "ok"
	defer func() {
		if r := recover(); r != nil {
			status = "fault"
		}
	}()
	f()
	return
}

// rwConn is an in-memory net.Conn: reads from in, records writes.
type rwConn struct {
	in  *bytes.Reader
	out bytes.Buffer
}

func (c *rwConn) Read(p []byte) (int, error)       { return c.in.Read(p) }
func (c *rwConn) Write(p []byte) (int, error)      { return c.out.Write(p) }
func (c *rwConn) Close() error                     { return nil }
func (c *rwConn) LocalAddr() net.Addr              { return &net.TCPAddr{} }
func (c *rwConn) RemoteAddr() net.Addr             { return &net.TCPAddr{} }
func (c *rwConn) SetDeadline(time.Time) error      { return nil }
func (c *rwConn) SetReadDeadline(time.Time) error  { return nil }
func (c *rwConn) SetWriteDeadline(time.Time) error { return nil }
func newRW(in []byte) *rwConn                      { return &rwConn{in: bytes.NewReader(in)} }

// hsPieces lists what a Handshake's results read as: protocol, then per extension its name
// and its parameters (key, value ...).
func hsPieces(hs *ws.Handshake) [][]byte {
	out := [][]byte{cpStr(hs.Protocol)}
	for _, e := range hs.Extensions {
		out = append(out, append([]byte(nil), e.Name...))
		e.Parameters.ForEach(func(k, v []byte) bool {
			out = append(out, append([]byte(nil), k...), append([]byte(nil), v...))
			return true
		})
	}
	return out
}

// locate finds the pieces in buf (each after the previous hit when possible).
func locate(buf []byte, pieces [][]byte) string {
	var s []string
	from := 0
	for _, p := range pieces {
		if len(p) == 0 {
			s = append(s, "0:0")
			continue
		}
		i := bytes.Index(buf[from:], p)
		if i >= 0 {
			i += from
		} else {
			i = bytes.Index(buf, p)
		}
		if i < 0 {
			s = append(s, "x:"+hx(p)) // not taken from the buffer: a literal
			continue
		}
		s = append(s, fmt.Sprintf("%d:%d", i, len(p)))
		from = i + len(p)
	}
	if len(s) == 0 {
		return "-"
	}
	return strings.Join(s, ",")
}

type c17HS struct {
	path    string
	protos  []string // offered (server paths) / requested (dial)
	exts    string   // Sec-WebSocket-Extensions value
	pick    int      // which protocol the check accepts
	bufSize int
	pad     int // extra header padding to move things inside the buffer
}

func (h c17HS) tokens() string {
	return fmt.Sprintf("%s %s %s %d %d %d", h.path, hxl(strs(h.protos)), hx([]byte(h.exts)), h.pick, h.bufSize, h.pad)
}

func strs(l []string) [][]byte {
	var o [][]byte
	for _, s := range l {
		o = append(o, []byte(s))
	}
	return o
}

func c17Request(h c17HS) []byte {
	var b strings.Builder
	b.WriteString("GET /c17 HTTP/1.1\r\nHost: c17.test\r\nUpgrade: websocket\r\nConnection: Upgrade\r\n")
	b.WriteString("Sec-WebSocket-Version: 13\r\nSec-WebSocket-Key: dGhlIHNhbXBsZSBub25jZQ==\r\n")
	if h.pad > 0 {
		b.WriteString("X-Pad: " + strings.Repeat("p", h.pad) + "\r\n")
	}
	if len(h.protos) > 0 {
		b.WriteString("Sec-WebSocket-Protocol: " + strings.Join(h.protos, ", ") + "\r\n")
	}
	if h.exts != "" {
		b.WriteString("Sec-WebSocket-Extensions: " + h.exts + "\r\n")
	}
	b.WriteString("\r\n")
	return []byte(b.String())
}

// runHS performs one handshake through the chosen library-owned selection path and returns
// the buffer contents the results were selected from plus the live Handshake.
func runHS(h c17HS) (buf []byte, hs *ws.Handshake, err error) {
	hs = new(ws.Handshake)
	pickProto := func(i int) func([]byte) bool {
		return func(p []byte) bool { return i < len(h.protos) && string(p) == h.protos[i] }
	}
	switch h.path {
	case "upg_proto", "upg_ext", "upg_negotiate":
		buf = c17Request(h)
		conn := newRW(buf)
		u := ws.Upgrader{ReadBufferSize: h.bufSize, WriteBufferSize: h.bufSize}
		switch h.path {
		case "upg_proto":
			u.Protocol = pickProto(h.pick)
		case "upg_ext":
			u.Protocol = pickProto(h.pick)
			u.Extension = func(o httphead.Option) bool { return !bytes.HasPrefix(o.Name, []byte("no")) }
		case "upg_negotiate":
			e := wsflate.Extension{Parameters: wsflate.Parameters{ServerNoContextTakeover: true, ClientNoContextTakeover: true}}
			u.Negotiate = e.Negotiate
		}
		*hs, err = u.Upgrade(conn)
	case "httpupg":
		buf = c17Request(h)
		req, e := http.ReadRequest(bufio.NewReader(bytes.NewReader(buf)))
		if e != nil {
			return buf, hs, e
		}
		conn := newRW(nil)
		rw := &hijackRW{conn: conn}
		u := ws.HTTPUpgrader{
			Protocol:  func(p string) bool { return h.pick < len(h.protos) && p == h.protos[h.pick] },
			Extension: func(o httphead.Option) bool { return !bytes.HasPrefix(o.Name, []byte("no")) },
		}
		_, _, *hs, err = u.Upgrade(req, rw)
		// what the results were selected from: the header values
		buf = []byte(strings.Join(req.Header["Sec-Websocket-Protocol"], ", ") + "|" + strings.Join(req.Header["Sec-Websocket-Extensions"], ", "))
	case "dial":
		// the peer's answer echoes protocol h.protos[h.pick] and the extensions in h.exts
		d := ws.Dialer{ReadBufferSize: h.bufSize, WriteBufferSize: h.bufSize, Protocols: h.protos}
		if h.exts != "" {
			// request every extension name that the answer will contain (with other parameters)
			httphead.ScanOptions([]byte(h.exts), func(i int, name, attr, val []byte) httphead.Control {
				found := false
				for _, o := range d.Extensions {
					if bytes.Equal(o.Name, name) {
						found = true
					}
				}
				if !found {
					d.Extensions = append(d.Extensions, httphead.Option{Name: append([]byte(nil), name...)})
				}
				return httphead.ControlContinue
			})
		}
		conn := &dialConn{h: h}
		u, _ := url.Parse("ws://c17.test/x")
		var br *bufio.Reader
		br, *hs, err = d.Upgrade(conn, u)
		if br != nil {
			ws.PutReader(br)
		}
		buf = conn.resp
	}
	return buf, hs, err
}

// dialConn answers the upgrade request it receives.
type dialConn struct {
	h    c17HS
	resp []byte
	rd   *bytes.Reader
}

func (c *dialConn) Write(p []byte) (int, error) {
	key := ""
	for _, line := range strings.Split(string(p), "\r\n") {
		if i := strings.IndexByte(line, ':'); i > 0 && strings.EqualFold(line[:i], "Sec-WebSocket-Key") {
			key = strings.TrimSpace(line[i+1:])
		}
	}
	s := sha1.Sum([]byte(key + "258EAFA5-E914-47DA-95CA-C5AB0DC85B11"))
	var b strings.Builder
	b.WriteString("HTTP/1.1 101 Switching Protocols\r\nUpgrade: websocket\r\nConnection: Upgrade\r\n")
	if c.h.pad > 0 {
		b.WriteString("X-Pad: " + strings.Repeat("p", c.h.pad) + "\r\n")
	}
	b.WriteString("Sec-WebSocket-Accept: " + base64.StdEncoding.EncodeToString(s[:]) + "\r\n")
	if c.h.pick < len(c.h.protos) {
		b.WriteString("Sec-WebSocket-Protocol: " + c.h.protos[c.h.pick] + "\r\n")
	}
	if c.h.exts != "" {
		b.WriteString("Sec-WebSocket-Extensions: " + c.h.exts + "\r\n")
	}
	b.WriteString("\r\n")
	c.resp = []byte(b.String())
	c.rd = bytes.NewReader(c.resp)
	return len(p), nil
}
func (c *dialConn) Read(p []byte) (int, error) {
	if c.rd == nil {
		return 0, io.EOF
	}
	return c.rd.Read(p)
}

type hijackRW struct {
	conn *rwConn
	hdr  http.Header
}

func (h *hijackRW) Header() http.Header {
	if h.hdr == nil {
		h.hdr = http.Header{}
	}
	return h.hdr
}
func (h *hijackRW) Write(p []byte) (int, error) { return h.conn.Write(p) }
func (h *hijackRW) WriteHeader(int)             {}
func (h *hijackRW) Hijack() (net.Conn, *bufio.ReadWriter, error) {
	return h.conn, bufio.NewReadWriter(bufio.NewReader(h.conn), bufio.NewWriter(h.conn)), nil
}

// c17R: a handshake path. second = a different handshake of the same kind run after the poison.
func c17HSCase(c *ctx, h c17HS) {
	var buf []byte
	var hs *ws.Handshake
	var err error
	st := guarded(func() { buf, hs, err = runHS(h) })
	if st != "ok" || err != nil {
		c.emit("C17R %s %s - - -> - - %s", h.tokens(), b2s(poolSanitize), errOr(st))
		return
	}
	before := hsPieces(hs)
	loc := locate(buf, before)
	var after [][]byte
	st = guarded(func() {
		c17Poison()
		h2 := h
		h2.protos = []string{"ZZZZ", "YYYY", "XXXXXXXX"}
		if h.exts != "" {
			h2.exts = "zz; q=9; w=8, yy; e=7"
		}
		h2.pick = 0
		runHS(h2)
		after = hsPieces(hs)
	})
	c.emit("C17R %s %s %s %s -> %s %s %s", h.tokens(), b2s(poolSanitize), hx(buf), loc, hxl(before), hxl(after), st)
}

func c17ReplayR(c *ctx, in []string) {
	switch in[0] {
	case "close", "closedata":
		cl, _ := strconv.Atoi(in[1])
		c17Close(c, in[0], cl != 0, unhx(in[2]))
	case "readmsg", "readdata":
		cl, _ := strconv.Atoi(in[1])
		fr, _ := strconv.Atoi(in[3])
		c17Read(c, in[0], cl != 0, unhx(in[2]), fr)
	default:
		pick, _ := strconv.Atoi(in[3])
		bs, _ := strconv.Atoi(in[4])
		pad, _ := strconv.Atoi(in[5])
		var protos []string
		if in[1] != "-" {
			for _, p := range strings.Split(in[1], ",") {
				protos = append(protos, string(unhx(p)))
			}
		}
		c17HSCase(c, c17HS{path: in[0], protos: protos, exts: string(unhx(in[2])), pick: pick, bufSize: bs, pad: pad})
	}
}

// frames builds a (possibly fragmented, possibly masked) message stream.
func c17Frames(masked bool, op ws.OpCode, payload []byte, frags int) []byte {
	var out bytes.Buffer
	if frags < 1 {
		frags = 1
	}
	for i := 0; i < frags; i++ {
		lo, hi := len(payload)*i/frags, len(payload)*(i+1)/frags
		f := ws.NewFrame(op, i == frags-1, append([]byte(nil), payload[lo:hi]...))
		if i > 0 {
			f.Header.OpCode = ws.OpContinuation
		}
		if masked {
			f = ws.MaskFrameInPlaceWith(f, [4]byte{1, 2, 3, byte(i)})
		}
		ws.WriteFrame(&out, f)
	}
	return out.Bytes()
}

// close reasons: ControlHandler.HandleClose directly, or through ReadData meeting a close frame.
func c17Close(c *ctx, path string, client bool, payload []byte) {
	state := ws.StateServerSide
	if client {
		state = ws.StateClientSide
	}
	var cerr wsutil.ClosedError
	var ok bool
	run := func(pl []byte) (e wsutil.ClosedError, ok bool) {
		stream := c17Frames(!client, ws.OpClose, pl, 1)
		conn := newRW(stream)
		var err error
		if path == "close" {
			h, _ := ws.ReadHeader(conn)
			err = wsutil.ControlHandler{Src: conn, Dst: conn, State: state}.HandleClose(h)
		} else {
			_, _, err = wsutil.ReadData(conn, state)
		}
		e, ok = err.(wsutil.ClosedError)
		return
	}
	st := guarded(func() { cerr, ok = run(payload) })
	if st != "ok" || !ok {
		c.emit("C17R %s %d %s %s -> - - %s", path, b2i(client), hx(payload), b2s(poolSanitize), errOr(st))
		return
	}
	before := [][]byte{cpStr(cerr.Reason)}
	var after [][]byte
	st = guarded(func() {
		c17Poison()
		other := append([]byte{0x03, 0xe8}, bytes.Repeat([]byte{'Z'}, len(payload))...)
		if len(other) > 125 {
			other = other[:125]
		}
		run(other)
		after = [][]byte{cpStr(cerr.Reason)}
	})
	c.emit("C17R %s %d %s %s -> %s %s %s", path, b2i(client), hx(payload), b2s(poolSanitize), hxl(before), hxl(after), st)
}

// message payloads returned by the read helpers
func c17Read(c *ctx, path string, client bool, payload []byte, frags int) {
	state := ws.StateServerSide
	if client {
		state = ws.StateClientSide
	}
	run := func(pl []byte) (res [][]byte, err error) {
		stream := c17Frames(!client, ws.OpBinary, pl, frags)
		conn := newRW(stream)
		if path == "readmsg" {
			var ms []wsutil.Message
			ms, err = wsutil.ReadMessage(conn, state, nil)
			for _, m := range ms {
				res = append(res, m.Payload)
			}
		} else {
			var p []byte
			p, _, err = wsutil.ReadData(conn, state)
			res = append(res, p)
		}
		return
	}
	var res [][]byte
	var err error
	st := guarded(func() { res, err = run(payload) })
	if st != "ok" || err != nil {
		c.emit("C17R %s %d %s %d %s -> - - %s", path, b2i(client), hx(payload), frags, b2s(poolSanitize), errOr(st))
		return
	}
	snap := func() [][]byte {
		var o [][]byte
		for _, r := range res {
			o = append(o, append([]byte(nil), r...))
		}
		return o
	}
	before := snap()
	var after [][]byte
	st = guarded(func() {
		c17Poison()
		run(bytes.Repeat([]byte{0x5A}, len(payload)))
		after = snap()
	})
	c.emit("C17R %s %d %s %d %s -> %s %s %s", path, b2i(client), hx(payload), frags, b2s(poolSanitize), hxl(before), hxl(after), st)
}

// positive control: ParseCloseFrameDataUnsafe on a pooled slice must be seen to change
func c17X(c *ctx, payload []byte) {
	p := pbytes.GetLen(len(payload))
	copy(p, payload)
	_, reason := ws.ParseCloseFrameDataUnsafe(p)
	before := [][]byte{cpStr(reason)}
	pbytes.Put(p)
	var after [][]byte
	st := guarded(func() {
		c17Poison()
		after = [][]byte{cpStr(reason)}
	})
	c.emit("C17X %s %s -> %s %s %s", b2s(poolSanitize), hx(payload), hxl(before), hxl(after), st)
}

// recorder is a destination that consumes the bytes during Write, as io.Writer requires.
type recorder struct{ b []byte }

func (r *recorder) Write(p []byte) (int, error) { r.b = append(r.b, p...); return len(p), nil }

func c17W(c *ctx, path string, client bool, p []byte, junk byte) {
	state := ws.StateServerSide
	if client {
		state = ws.StateClientSide
	}
	saved := append([]byte(nil), p...)
	dst := &recorder{}
	var mid []byte
	scribble := func() {
		for i := range p {
			p[i] = junk
		}
	}
	var callerAfter []byte
	st := guarded(func() {
		switch path {
		case "writemsg":
			wsutil.WriteMessage(dst, state, ws.OpBinary, p)
		case "writethrough":
			w := wsutil.NewWriterSize(dst, state, ws.OpBinary, 128)
			w.WriteThrough(p)
		case "cipher":
			cw := wsutil.NewCipherWriter(dst, [4]byte{9, 8, 7, 6})
			cw.Write(p)
		case "writer":
			// buffered: Write, then the caller reuses its slice, then Flush
			w := wsutil.NewWriterSize(dst, state, ws.OpBinary, len(p)+16)
			w.Write(p)
			callerAfter = append([]byte(nil), p...)
			mid = append([]byte(nil), dst.b...)
			scribble()
			w.Flush()
		case "getwriter":
			w := wsutil.GetWriter(dst, state, ws.OpBinary, len(p)+16)
			w.Write(p)
			callerAfter = append([]byte(nil), p...)
			mid = append([]byte(nil), dst.b...)
			scribble()
			w.Flush()
			wsutil.PutWriter(w)
		}
		if callerAfter == nil {
			callerAfter = append([]byte(nil), p...)
			mid = append([]byte(nil), dst.b...)
			scribble()
		}
		c17Poison()
	})
	final := dst.b
	hdrlen, key := 0, []byte(nil)
	if path == "cipher" {
		key = []byte{9, 8, 7, 6}
	} else if h, err := ws.ReadHeader(bytes.NewReader(final)); err == nil {
		hdrlen = len(final) - int(h.Length)
		if h.Masked {
			key = h.Mask[:]
		}
	}
	c.emit("C17W %s %d %s %d -> %s %d %s %s %s %s", path, b2i(client), hx(saved), junk, hx(callerAfter), hdrlen, hx(key), hx(mid), hx(final), st)
}

// copying mask helpers
func c17M(c *ctx, fn string, p []byte, key [4]byte) {
	saved := append([]byte(nil), p...)
	f := ws.NewBinaryFrame(p)
	var g ws.Frame
	var callerAfter, before, after []byte
	st := guarded(func() {
		switch fn {
		case "MaskFrameWith":
			g = ws.MaskFrameWith(f, key)
		case "MaskFrame":
			g = ws.MaskFrame(f)
			key = g.Header.Mask
		case "UnmaskFrame":
			f.Header.Masked = true
			f.Header.Mask = key
			g = ws.UnmaskFrame(f)
		}
		callerAfter = append([]byte(nil), p...)
		before = append([]byte(nil), g.Payload...)
		for i := range p {
			p[i] = 0x55
		}
		c17Poison()
		after = append([]byte(nil), g.Payload...)
	})
	c.emit("C17M %s %s %s -> %s %s %s %s", fn, hx(saved), hx(key[:]), hx(callerAfter), hx(before), hx(after), st)
}

func runC17(c *ctx) {
	c17Setup()
	// ---- handshakes
	protos := [][]string{{"chat"}, {"chat", "superchat"}, {"a", "bb", "ccc", "v1.json.example"}}
	exts := []string{"", "foo", "foo; a=1; b=2", "foo; a=1, bar; x=\"quoted value\"; y, nope; z=1", "permessage-deflate; client_max_window_bits; server_max_window_bits=10"}
	bufs := []int{0, 512, 4096}
	pads := []int{0, 100, 300}
	if c.thor {
		bufs = append(bufs, 1024, 8192, 65536)
		pads = append(pads, 7, 1000, 3000)
	}
	for _, path := range []string{"upg_proto", "upg_ext", "upg_negotiate", "httpupg", "dial"} {
		for _, ps := range protos {
			for pick := 0; pick < len(ps); pick++ {
				for _, e := range exts {
					if path == "upg_proto" && e != "" && !c.thor {
						continue
					}
					if path == "upg_negotiate" && !strings.HasPrefix(e, "permessage") {
						continue
					}
					for _, bs := range bufs {
						for _, pad := range pads {
							if bs != 0 && bs < 600+pad {
								continue // the request line/headers must fit the buffer
							}
							c17HSCase(c, c17HS{path: path, protos: ps, exts: e, pick: pick, bufSize: bs, pad: pad})
						}
					}
				}
			}
		}
	}
	// ---- close reasons
	for _, n := range []int{0, 1, 2, 3, 10, 64, 122, 123} {
		for _, client := range []bool{false, true} {
			pl := []byte{0x03, 0xe8}
			for i := 0; i < n; i++ {
				pl = append(pl, byte('a'+i%26))
			}
			c17Close(c, "close", client, pl)
			c17Close(c, "closedata", client, pl)
		}
	}
	// ---- message payloads across the pool's size classes
	sizes := []int{0, 1, 125, 126, 127, 128, 129, 255, 256, 257, 1023, 1024, 1025, 4095, 4096, 4097, 65535, 65536, 65537}
	if c.thor {
		sizes = append(sizes, 2047, 2048, 2049, 8191, 8192, 8193, 16384, 32767, 32768, 32769, 131072)
	}
	for _, n := range sizes {
		pl := make([]byte, n)
		c.rng.Read(pl)
		for _, client := range []bool{false, true} {
			for _, fr := range []int{1, 3} {
				if n > 20000 && fr == 3 && !c.thor {
					continue
				}
				c17Read(c, "readmsg", client, pl, fr)
				c17Read(c, "readdata", client, pl, fr)
			}
		}
	}
	// ---- positive control
	for _, n := range []int{10, 100, 125, 200, 1000, 5000} {
		pl := append([]byte{0x03, 0xe8}, bytes.Repeat([]byte{'r'}, n)...)
		c17X(c, pl)
	}
	// ---- write side
	wsizes := []int{0, 1, 125, 126, 127, 128, 129, 255, 256, 257, 4095, 4096, 4097, 65535, 65536, 65537}
	for _, n := range wsizes {
		for _, client := range []bool{false, true} {
			for _, path := range []string{"writemsg", "writethrough", "cipher", "writer", "getwriter"} {
				if path == "cipher" && client {
					continue
				}
				pl := make([]byte, n)
				c.rng.Read(pl)
				c17W(c, path, client, pl, byte(0x55))
			}
		}
		for _, fn := range []string{"MaskFrameWith", "MaskFrame", "UnmaskFrame"} {
			pl := make([]byte, n)
			c.rng.Read(pl)
			var k [4]byte
			c.rng.Read(k[:])
			c17M(c, fn, pl, k)
		}
	}
	runtime.GC()
}
