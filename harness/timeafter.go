package main

import "time"

// per-op watchdog: a call that does not return within this time is a hang
func timeAfter() <-chan time.Time { return time.After(3 * time.Second) }
