package main

import (
	"bufio"
	"bytes"
	"context"
	"fmt"
	"io"
	"io/ioutil"
	"net"
	"net/url"
	"strings"
	"time"
	"unsafe"

	"github.com/gobwas/ws"

	"github.com/gobwas/httphead"
	"github.com/gobwas/ws/wsflate"
	"github.com/gobwas/ws/wsutil"
)

// Additions layered on other files' property runners (this file's init runs last).
func init() {
	wrap := func(id string, extra func(*ctx)) {
		old := props[id]
		props[id] = func(c *ctx) {
			if old != nil {
				old(c)
			}
			extra(c)
		}
	}
	// C12: compression writer / reader reused through Reset (also across ByteReader / plain sources)
	wrap("C12", func(c *ctx) {
		for i := 0; i < 24; i++ {
			fwr(c, c.payload(1+c.rng.Intn(300)), c.payload(c.rng.Intn(300)), []int{-1, 0, 1}[i%3], []int{-1, 1, 9, 0}[(i/3)%4])
		}
	})
	// C13 (send side): a message split into more than 256 frames
	wrap("C13", func(c *ctx) {
		// the same writer reused for control frames while the message state says "compressed"
		for _, side := range []byte{1 | 4, 2 | 4} {
			for _, op := range []int{9, 10, 8, 2} {
				runWH(c, "WHX", wcfg{"s125", side, 1, "1"}, fmt.Sprintf("w20/1,fl,ro%d,w5/2,fl,ro1,w300/3,fl", op), "-")
				runWH(c, "WHX", wcfg{"s5", side, 2, "1"}, fmt.Sprintf("w3/1,w9/4,ro%d,w2/2,fl", op), "-")
			}
		}
		var ops []string
		for i := 0; i < 300; i++ {
			ops = append(ops, fmt.Sprintf("w2/%d", i%200))
		}
		ops = append(ops, "fl", "w2/1", "w2/2", "fl")
		for _, side := range []byte{1 | 4, 2 | 4} {
			runWH(c, "WHX", wcfg{"s1", side, 1, "1"}, strings.Join(ops, ","), "-")
			runWH(c, "WHX", wcfg{"s1", side, 2, "-"}, strings.Join(ops, ","), "-")
		}
	})
	replayers["WRF"] = func(c *ctx, in []string) {
		var n, k int
		fmt.Sscan(in[1], &n)
		fmt.Sscan(in[2], &k)
		wrf(c, parseWcfg(in[0]), n, k)
	}
	wrap("C06", func(c *ctx) {
		for _, ctor := range []string{"s5", "s125", "u200", "d0"} {
			for _, side := range []byte{1, 2} {
				for _, n := range []int{1, 4, 5, 6, 130, 300} {
					for _, k := range []int{0, 1, n / 2, n} {
						wrf(c, wcfg{ctor, side, 2, "-"}, n, k)
					}
				}
			}
		}
		var ops []string
		for i := 0; i < 270; i++ {
			ops = append(ops, fmt.Sprintf("w3/%d", i%200))
		}
		ops = append(ops, "fl")
		runWH(c, "WH", wcfg{"s2", 1, 2, "-"}, strings.Join(ops, ","), "-")
		runWH(c, "WH", wcfg{"u16", 2, 1, "-"}, strings.Join(ops, ",")+",w40/1,ff,w40/2,fl", "-")
	})
	// C16: handshakes over a transport cut at every offset; ResetOp after a destination failure
	replayers["HSC"] = func(c *ctx, in []string) {
		var cut int
		fmt.Sscan(in[1], &cut)
		hsCut(c, in[0], cut, in[2], in[3])
	}
	wrap("C16", func(c *ctx) {
		reqLen, respLen := len(hsRequest), len(hsResponseFor("dGhlIHNhbXBsZSBub25jZQ=="))
		for cut := 0; cut < reqLen; cut++ {
			if !c.thor && cut%2 == 1 && cut < reqLen-40 {
				continue
			}
			hsCut(c, "up", cut, chunkSpecs[cut%len(chunkSpecs)], []string{"eof", "fail", "eofdata"}[cut%3])
		}
		for cut := 0; cut < respLen; cut++ {
			if !c.thor && cut%2 == 1 && cut < respLen-40 {
				continue
			}
			hsCut(c, "di", cut, chunkSpecs[cut%len(chunkSpecs)], []string{"eof", "fail", "eofdata"}[cut%3])
		}
		for _, ctor := range []string{"s7", "s125", "b20"} {
			for _, side := range []byte{1, 2} {
				cfg := wcfg{ctor, side, 2, "-"}
				h := "w9/1,ff,w30/2,fl,ro1,w5/3,fl,w300/4,ro2,t3/5,ff,fl"
				for k := 0; k <= 6; k++ {
					runWH(c, "WHF", cfg, h, fmt.Sprint(k))
				}
			}
		}
	})
	// C15: the size limit also applies to continuation frames
	wrap("C15", func(c *ctx) {
		for _, side := range []byte{1, 2} {
			for _, n := range []int{1001, 1017, 70000} {
				first := c.mkFrame(side, false, 2, 5)
				ping := c.mkFrame(side, true, 9, 3)
				big := c.mkFrame(side, true, 0, n)
				e := fmt.Sprintf("rd%dm", side)
				fz(c, e, wireOf([]sframe{first, big}))
				fz(c, e, wireOf([]sframe{first, ping, big}))
				mid := c.mkFrame(side, false, 0, n)
				fz(c, e, wireOf([]sframe{first, mid, c.mkFrame(side, true, 0, 1)}))
			}
		}
	})
	// C17: control messages collected by ReadMessage; caller slices under failing destinations
	replayers["C17Z"] = func(c *ctx, in []string) {
		var n, v int
		fmt.Sscan(in[1], &n)
		fmt.Sscan(in[2], &v)
		c17Z(c, in[0], n, v)
	}
	wrap("C17", func(c *ctx) {
		for _, n := range []int{0, 1, 64, 65, 100, 125} {
			for v := 0; v < 2; v++ {
				c17Z(c, "readmessage", n, v)
			}
		}
		for _, name := range []string{"writeclient", "writeserver", "writethrough", "writer", "cipherwriter"} {
			for _, n := range []int{1, 127, 128, 4096, 65536, 65537, 70000} {
				for v := 0; v < 4; v++ {
					c17Z(c, name, n, v)
				}
			}
		}
	})
	// C11: debug wrappers must not change the outcome — also for requests net/http refuses or reads
	// differently, and for dialers with a byte-transforming WrapConn
	replayers["DBU2"] = func(c *ctx, in []string) { dbu2(c, unhx(in[0])) }
	replayers["DBD2"] = func(c *ctx, in []string) {
		var v int
		fmt.Sscan(in[0], &v)
		dbd2(c, v)
	}
	wrap("C11", func(c *ctx) {
		base := hsRequest
		vars := []string{
			base,
			strings.Replace(base, "Host: example.com\r\n", "Host: example.com\r\nX-No-Colon-Line\r\n", 1),
			strings.Replace(base, "Host: example.com\r\n", "Host: example.com\r\nContent-Length: abc\r\n", 1),
			strings.Replace(base, "Host: example.com\r\n", "Host: example.com\r\nX-(odd): 1\r\n", 1),
			strings.Replace(base, "Host: example.com\r\n", "Host: example.com\r\nContent-Length: 0\r\nX-A: b\r\n", 1),
			strings.ReplaceAll(base, "\r\n", "\n"),
			strings.Replace(base, "HTTP/1.1", "HTTP/1.0", 1),
			strings.Replace(base, "GET ", "POST ", 1),
			strings.Replace(base, "Upgrade: websocket\r\n", "", 1),
			strings.Replace(base, "Sec-WebSocket-Version: 13", "Sec-WebSocket-Version: 12", 1),
			strings.Replace(base, "Host: example.com\r\n", "Host: example.com\r\nTransfer-Encoding: bogus\r\n", 1),
			strings.Replace(base, "Host: example.com\r\n", " folded: x\r\nHost: example.com\r\n", 1),
			base + "\x81\x02hi",
		}
		for _, v := range vars {
			dbu2(c, []byte(v))
		}
		for v := 0; v < 4; v++ {
			dbd2(c, v)
		}
	})
	// C14: one negotiator reused with a DIFFERENT configuration after Reset behaves as a new one
	replayers["C14R"] = func(c *ctx, in []string) { c14R(c, in[0], in[1], in[2], in[3]) }
	wrap("C14", func(c *ctx) {
		cfgs := []string{"0.0.0.0", "1.1.0.0", "0.0.8.0", "1.0.10.12", "0.1.15.15", "1.1.12.8", "0.0.0.9"}
		offers := []string{"permessage-deflate", "permessage-deflate; server_max_window_bits=9", "permessage-deflate; client_max_window_bits",
			"permessage-deflate; server_no_context_takeover; client_max_window_bits=12", "permessage-deflate; server_max_window_bits=15; client_no_context_takeover", "foo"}
		for i, a := range cfgs {
			for j, b := range cfgs {
				c14R(c, a, offers[(i+j)%len(offers)], b, offers[(i*3+j)%len(offers)])
			}
		}
	})
}

const hsRequest = "GET /chat HTTP/1.1\r\nHost: example.com\r\nUpgrade: websocket\r\nConnection: Upgrade\r\nSec-WebSocket-Key: dGhlIHNhbXBsZSBub25jZQ==\r\nSec-WebSocket-Version: 13\r\nSec-WebSocket-Protocol: chat\r\n\r\n"

func hsResponseFor(key string) string {
	acc := make([]byte, 28)
	ws.VerifInitAcceptFromNonce(acc, []byte(key))
	return "HTTP/1.1 101 Switching Protocols\r\nUpgrade: websocket\r\nConnection: Upgrade\r\nSec-WebSocket-Accept: " + string(acc) + "\r\nSec-WebSocket-Protocol: chat\r\n\r\n"
}

// lazyResponse answers the dialer's request (read from what it wrote) with a correct 101 cut after [cut] bytes
type lazyResponse struct {
	w          *recWriter
	cut        int
	spec, tail string
	r          *chunkReader
}

func (l *lazyResponse) Read(p []byte) (int, error) {
	if l.r == nil {
		req := string(l.w.all())
		key := ""
		if i := strings.Index(req, "Sec-WebSocket-Key: "); i >= 0 {
			key = req[i+19:]
			if j := strings.Index(key, "\r\n"); j >= 0 {
				key = key[:j]
			}
		}
		resp := hsResponseFor(key)
		if l.cut < len(resp) {
			resp = resp[:l.cut]
		}
		l.r = newChunkReader([]byte(resp), l.spec, l.tail)
	}
	return l.r.Read(p)
}

// HSC: a valid handshake whose transport ends (EOF / error) after [cut] bytes must fail, and no 101 is written
func hsCut(c *ctx, who string, cut int, spec, tail string) {
	dst := newRecWriter()
	var err error
	res := fzRun(func() error {
		if who == "up" {
			rw := &rwPair{r: newChunkReader([]byte(hsRequest)[:cut], spec, tail), w: dst}
			_, err = ws.Upgrader{Protocol: func(p []byte) bool { return string(p) == "chat" }}.Upgrade(rw)
		} else {
			u, _ := url.Parse("ws://example.com/chat")
			lr := &lazyResponse{w: dst, cut: cut, spec: spec, tail: tail}
			_, _, err = ws.Dialer{Protocols: []string{"chat"}}.Upgrade(struct {
				io.Reader
				io.Writer
			}{lr, dst}, u)
		}
		return err
	})
	wrote101 := strings.HasPrefix(string(dst.all()), "HTTP/1.1 101")
	c.emit("HSC %s %d %s %s -> %s %d %d", who, cut, spec, tail, res.class, b2i(err != nil), b2i(wrote101))
}

// aliasWriter fails from call failAt on (-1: never) and notices when it is handed the caller's own memory
type aliasWriter struct {
	calls   int
	failAt  int
	lo, hi  uintptr
	aliased bool
}

func (w *aliasWriter) Write(p []byte) (int, error) {
	if len(p) > 0 {
		a := uintptr(unsafe.Pointer(&p[0]))
		if a >= w.lo && a < w.hi {
			w.aliased = true
		}
	}
	w.calls++
	if w.failAt >= 0 && w.calls > w.failAt {
		return 0, errFail
	}
	return len(p), nil
}

// C17Z: [readmessage] control payloads returned by ReadMessage survive pool recycling;
// [write*] client-side (non-mutating) writes leave the caller's slice intact and never hand it to the
// destination, also when the destination fails (variant: 0 ok, 1 fails at once, 2 fails on 2nd call, 3 ok)
func c17Z(c *ctx, name string, n, variant int) {
	c17Setup()
	status, intact, aliased := "ok", true, false
	st := guarded(func() {
		if name == "readmessage" {
			side := byte(1 + variant)
			ctl := c.mkFrame(side, true, 9, n)
			fs := []sframe{c.mkFrame(side, false, 2, 10), ctl, c.mkFrame(side, false, 0, 3), c.mkFrame(side, true, 10, n), c.mkFrame(side, true, 0, 200)}
			msgs, err := wsutil.ReadMessage(bytes.NewReader(wireOf(fs)), ws.State(side), nil)
			if err != nil {
				status = "readerr"
				return
			}
			var snap [][]byte
			for _, m := range msgs {
				snap = append(snap, append([]byte(nil), m.Payload...))
			}
			// the documented next step: hand the collected control messages to the handler, then go on
			for _, m := range msgs[:len(msgs)-1] {
				wsutil.HandleControlMessage(ioutil.Discard, ws.State(side), m)
			}
			wsutil.WriteClientMessage(ioutil.Discard, ws.OpBinary, bytes.Repeat([]byte{0x55}, 100))
			c17Poison()
			for i, m := range msgs {
				if !bytes.Equal(m.Payload, snap[i]) {
					intact = false
				}
			}
			return
		}
		p := patBytes(n, 7)
		saved := append([]byte(nil), p...)
		w := &aliasWriter{failAt: []int{-1, 0, 1, -1}[variant]}
		w.lo = uintptr(unsafe.Pointer(&p[0]))
		w.hi = w.lo + uintptr(len(p))
		mustCopy := true
		switch name {
		case "writeclient":
			wsutil.WriteClientMessage(w, ws.OpBinary, p)
		case "writeserver":
			wsutil.WriteServerMessage(w, ws.OpBinary, p)
			mustCopy = false // the server side may pass the caller's slice through; it must not modify it
		case "writethrough":
			wr := wsutil.NewWriter(w, ws.StateClientSide, ws.OpBinary)
			wr.WriteThrough(p)
		case "writer":
			wr := wsutil.NewWriterSize(w, ws.StateClientSide, ws.OpBinary, 64)
			wr.Write(p)
			wr.Flush()
		case "cipherwriter":
			cw := wsutil.NewCipherWriter(w, [4]byte{1, 2, 3, 4})
			cw.Write(p)
		}
		intact = bytes.Equal(p, saved)
		aliased = mustCopy && w.aliased
	})
	if st != "ok" {
		status = st
	}
	c.emit("C17Z %s %d %d -> %d %d %s", name, n, variant, b2i(intact), b2i(aliased), status)
}

// DBU: the same request through ws.Upgrader and through wsutil.DebugUpgrader
func dbu2(c *ctx, req []byte) {
	up := ws.Upgrader{Protocol: func(p []byte) bool { return string(p) == "chat" }}
	d1 := newRecWriter()
	var e1, e2 error
	r1 := fzRun(func() error {
		_, e1 = up.Upgrade(&rwPair{r: bytes.NewReader(req), w: d1})
		return e1
	})
	d2 := newRecWriter()
	var onReq, onResp []byte
	called := 0
	r2 := fzRun(func() error {
		du := wsutil.DebugUpgrader{Upgrader: up,
			OnRequest:  func(b []byte) { onReq = append([]byte(nil), b...); called |= 1 },
			OnResponse: func(b []byte) { onResp = append([]byte(nil), b...); called |= 2 }}
		_, e2 = du.Upgrade(&rwPair{r: bytes.NewReader(req), w: d2})
		return e2
	})
	c.emit("DBU2 %s -> %s.%d.%s %s.%d.%s %d %d %d", hx(req), r1.class, b2i(e1 == nil), hx(d1.all()), r2.class, b2i(e2 == nil), hx(d2.all()),
		called, b2i(bytes.HasPrefix(req, onReq)), b2i(bytes.Equal(onResp, d2.all())))
}

// xorConn is a byte-transforming transport (what Dialer.WrapConn is for)
type xorConn struct{ net.Conn }

func (x xorConn) Read(p []byte) (int, error) {
	n, err := x.Conn.Read(p)
	for i := 0; i < n; i++ {
		p[i] ^= 0x5a
	}
	return n, err
}
func (x xorConn) Write(p []byte) (int, error) {
	q := make([]byte, len(p))
	for i := range p {
		q[i] = p[i] ^ 0x5a
	}
	return x.Conn.Write(q)
}

// DBD: a ws.Dialer (variant bit0: with a transforming WrapConn, bit1: server sends a frame right
// behind the response) against a real ws.Upgrade server over net.Pipe — plain and through DebugDialer
func dbd2(c *ctx, variant int) {
	run := func(debug bool) string {
		cl, sv := net.Pipe()
		deadline := time.Now().Add(3 * time.Second)
		cl.SetDeadline(deadline)
		sv.SetDeadline(deadline)
		go func() {
			var conn net.Conn = sv
			if variant&1 != 0 {
				conn = xorConn{sv}
			}
			if _, err := ws.Upgrade(conn); err == nil {
				ws.WriteFrame(conn, ws.NewTextFrame([]byte("hi")))
			}
			time.Sleep(20 * time.Millisecond)
			sv.Close()
		}()
		d := ws.Dialer{NetDial: func(ctx context.Context, network, addr string) (net.Conn, error) { return cl, nil }}
		if variant&1 != 0 {
			d.WrapConn = func(c net.Conn) net.Conn { return xorConn{c} }
		}
		if variant&2 != 0 {
			d.ReadBufferSize = 16
		}
		var conn net.Conn
		var br *bufio.Reader
		var err error
		seen := 0
		if debug {
			dd := wsutil.DebugDialer{Dialer: d, OnRequest: func(b []byte) { seen |= 1 }, OnResponse: func(b []byte) {
				if bytes.HasPrefix(b, []byte("HTTP/1.1 101")) && bytes.HasSuffix(b, []byte("\r\n\r\n")) {
					seen |= 2
				}
			}}
			conn, br, _, err = dd.Dial(context.Background(), "ws://example.com/x")
		} else {
			conn, br, _, err = d.Dial(context.Background(), "ws://example.com/x")
			seen = 3
		}
		if err != nil {
			return "dialerr"
		}
		var r io.Reader = conn
		if br != nil {
			r = br
		}
		f, err := ws.ReadFrame(r)
		if err != nil {
			return "readerr"
		}
		return fmt.Sprintf("ok:%s:%d", hx(f.Payload), seen)
	}
	var a, b string
	ra := fzRun(func() error { a = run(false); return nil })
	rb := fzRun(func() error { b = run(true); return nil })
	if ra.class != "ok" {
		a = ra.class
	}
	if rb.class != "ok" {
		b = rb.class
	}
	c.emit("DBD2 %d -> %s %s", variant, a, b)
}

// WRF: ReadFrom a source that FAILS after k of n bytes, then Flush: what was accepted must still go out
func wrf(c *ctx, cfg wcfg, n, k int) {
	dst := newRecWriter()
	w, pan := newWriter(dst, cfg)
	if pan {
		return
	}
	data := patBytes(n, 3)
	src := newChunkReader(data[:k], "r3", "fail")
	m, err := w.ReadFrom(src)
	buffered := w.Buffered()
	ferr := w.Flush()
	c.emit("WRF %s %d %d -> %d %s %d %s %s", cfg.tok(), n, k, m, werrClass(err), buffered, werrClass(ferr), hxList(dst.calls))
}

func c14Params(s string) wsflate.Parameters {
	var a, b, x, y int
	fmt.Sscanf(strings.ReplaceAll(s, ".", " "), "%d %d %d %d", &a, &b, &x, &y)
	return wsflate.Parameters{ServerNoContextTakeover: a != 0, ClientNoContextTakeover: b != 0, ServerMaxWindowBits: wsflate.WindowBits(x), ClientMaxWindowBits: wsflate.WindowBits(y)}
}

func c14Neg(e *wsflate.Extension, offer string) string {
	opts, ok := httphead.ParseOptions([]byte(offer), nil)
	if !ok || len(opts) == 0 {
		return "unparsable"
	}
	out, err := e.Negotiate(opts[0])
	p, acc := e.Accepted()
	r := "err"
	if err == nil {
		r = "-"
		if out.Size() > 0 {
			var b strings.Builder
			httphead.WriteOptions(&b, []httphead.Option{out})
			r = strings.ReplaceAll(b.String(), " ", "")
		}
	}
	return fmt.Sprintf("%s|%v|%v", r, acc, p)
}

// C14R: config A + offer A on one Extension, Reset, switch to config B, offer B — against a fresh Extension{B}
func c14R(c *ctx, cfgA, offerA, cfgB, offerB string) {
	e := wsflate.Extension{Parameters: c14Params(cfgA)}
	c14Neg(&e, offerA)
	e.Reset()
	e.Parameters = c14Params(cfgB)
	ra := strings.ReplaceAll(c14Neg(&e, offerB), " ", "_")
	f := wsflate.Extension{Parameters: c14Params(cfgB)}
	rb := strings.ReplaceAll(c14Neg(&f, offerB), " ", "_")
	c.emit("C14R %s %s %s %s -> %s %s", cfgA, strings.ReplaceAll(offerA, " ", "_"), cfgB, strings.ReplaceAll(offerB, " ", "_"), ra, rb)
}
