package main

import (
	"bufio"
	"bytes"
	"context"
	"crypto/tls"
	"errors"
	"fmt"
	"io"
	"io/ioutil"
	"net"
	"net/url"
	"runtime"
	"strconv"
	"strings"
	"sync"
	"sync/atomic"
	"time"
	"unsafe"

	"github.com/gobwas/ws"

	"github.com/gobwas/httphead"
	"github.com/gobwas/ws/wsflate"
	"github.com/gobwas/ws/wsutil"
)

// Additions layered on other files' property runners (this file's init runs last).
func init() {
	wrap := func(id string, extra func(*ctx)) {
		old := props[id]
		props[id] = func(c *ctx) {
			if old != nil {
				old(c)
			}
			extra(c)
		}
	}
	// C12: compression writer / reader reused through Reset (also across ByteReader / plain sources)
	wrap("C12", func(c *ctx) {
		for i := 0; i < 24; i++ {
			fwr(c, c.payload(1+c.rng.Intn(300)), c.payload(c.rng.Intn(300)), []int{-1, 0, 1}[i%3], []int{-1, 1, 9, 0}[(i/3)%4])
		}
	})
	// C08: control frames BETWEEN the fragments of a message through the ReadData family (judged by RX:
	// every ping answered with the identical payload, whichever helper and side); refused close frames
	// whose reason is long valid multi-byte text (the protocol-error reply must itself be acceptable)
	wrap("C08", func(c *ctx) {
		wants := []string{"data", "text", "binary"}
		i := 0
		for _, side := range []byte{1, 2} {
			for n := 0; n <= 125; n++ {
				if !c.thor && n > 20 && n%7 != 0 && n < 120 {
					continue
				}
				for _, cop := range []byte{9, 10} {
					i++
					dop := byte(1 + i%2)
					fs := []sframe{c.mkFrame(side, false, dop, 1+i%5), c.mkFrame(side, true, cop, n), c.mkFrame(side, false, 0, i%3)}
					if i%4 == 0 {
						fs = append(fs, c.mkFrame(side, true, 9, (n*3)%126))
					}
					fs = append(fs, c.mkFrame(side, true, 0, 2))
					if dop == 1 {
						for k := range fs {
							if fs[k].op < 8 {
								for j := range fs[k].payload {
									fs[k].payload[j] = 'a' + fs[k].payload[j]%26
								}
							}
						}
					}
					runRX(c, "RX", side, wants[i%3], fs, "-", chunkSpecs[i%len(chunkSpecs)], "eof")
				}
			}
		}
		fill := [][]byte{[]byte("\xe2\x82\xac"), []byte("\xf0\x9f\x98\x80"), []byte("\xc3\xa9")}
		entries := []string{"handle", "cfh", "hcm", "hcm2"}
		for _, code := range []int{1005, 1006, 1015, 999, 2999, 0, 1004, 5000} {
			for n := 100; n <= 123; n++ {
				for pre := 0; pre < 4; pre++ {
					i++
					if !c.thor && i%3 != 0 {
						continue
					}
					r := bytes.Repeat([]byte("a"), pre)
					f := fill[i%3]
					for len(r)+len(f) <= n {
						r = append(r, f...)
					}
					for len(r) < n {
						r = append(r, 'z')
					}
					body := append([]byte{byte(code >> 8), byte(code)}, r...)
					c08H(c, byte(1+i%2), 8, body, []string{"-", "0a0b0c0d"}[i%2], entries[i%4], []string{"-", "r7"}[i%2])
				}
			}
		}
	})
	// C19: TLS sessions relying on the library defaults (no TLSConfig / TLSClient), each to its own host:
	// every session must announce ITS host name whatever the other sessions do
	replayers["C19T"] = func(c *ctx, in []string) {
		var n int
		fmt.Sscan(in[0], &n)
		c19Reexec()
		c19TLS(c, n, in[1] == "1")
	}
	replayers["C19P"] = func(c *ctx, in []string) {
		var n int
		fmt.Sscan(in[0], &n)
		c19Reexec()
		c19Pool(c, n)
	}
	replayers["C19W"] = func(c *ctx, in []string) {
		var n int
		fmt.Sscan(in[1], &n)
		c19Reexec()
		c19W(c, in[0], n)
	}
	replayers["C19G"] = func(c *ctx, in []string) { c19Reexec(); c19G(c) }
	wrap("C17", func(c *ctx) {
		for _, n := range []int{128, 1024, 65536, 100} {
			c19W(c, "server", n)
			c19W(c, "client", n)
		}
		c19G(c)
	})
	wrap("C19", func(c *ctx) {
		for _, n := range []int{128, 256, 1024, 4096, 65536, 100, 1000} {
			c19W(c, "server", n)
			c19W(c, "client", n)
		}
		c19G(c)
		c19Pool(c, 4)
		c19TLS(c, 3, false)
		c19TLS(c, 8, true)
		if c.thor {
			c19TLS(c, 32, true)
		}
	})
	// C05: frames announcing a 64-bit length far beyond MaxFrameSize (also >= 2^32, where only the low 32 bits
	// look small) after a valid prefix; C04: masking keys that are all zero / almost zero
	replayers["RDL"] = func(c *ctx, in []string) {
		var ln int64
		fmt.Sscan(in[3], &ln)
		runRDL(c, parseCfg(in[0]), parseFrames(in[1]), parseFrames(in[2])[0], ln, unhx(in[4]), in[5], in[6])
	}
	rdlLimits := func(c *ctx) {
		// ordinary lengths just over the limit, header check on and off
		for _, side := range []byte{1, 2} {
			for _, n := range []int{1, 126, 300, 70000, 1 << 20} {
				for _, skip := range []bool{false, true} {
					h := c.mkFrame(side, true, 2, 0)
					runRDL(c, rcfg{state: side, cb: 1, max: int64(n - 1), skip: skip}, c.concrete(side, []aframe{{1, true, 2}}), h, int64(n), c.payload(7), "-", "4096")
				}
			}
		}
	}
	wrap("C15", rdlLimits)
	wrap("C05", func(c *ctx) {
		rdlLimits(c)
		lens := []int64{1 << 32, 1<<32 + 5, 1<<40 + 100, 1<<62 + 7, 1<<63 - 1, 1<<32 - 1, 1 << 31, 70000, 1 << 16, 1<<33 + 65536}
		i := 0
		for _, side := range []byte{1, 2} {
			for _, max := range []int64{65536, 10, 1 << 20} {
				for _, ln := range lens {
					for _, pre := range [][]aframe{nil, {{2, false, 2}}, {{1, true, 3}, {9, true, 2}}, {{2, false, 1}, {9, true, 0}}} {
						i++
						if !c.thor && i%2 == 0 {
							continue
						}
						fs := c.concrete(side, pre)
						op := byte(2)
						if len(pre) > 0 && !pre[len(pre)-1].fin || (len(pre) == 2 && !pre[0].fin) {
							op = 0
						}
						h := c.mkFrame(side, i%3 != 0, op, 0)
						runRDL(c, rcfg{state: side, cb: 1, max: max}, fs, h, ln, c.payload(7), chunkSpecs[i%len(chunkSpecs)], bufSpecs[i%len(bufSpecs)])
						if i%3 == 0 {
							// the size limit is independent of the header check
							runRDL(c, rcfg{state: side, cb: 1, max: max, skip: true}, fs, h, ln, c.payload(7), chunkSpecs[(i+1)%len(chunkSpecs)], bufSpecs[(i+1)%len(bufSpecs)])
						}
					}
				}
			}
		}
	})
	// C18: the extension slice handed to SetExtensions stays the caller's: Reset / PutWriter must not wipe it, and
	// the reset writer configured from it again behaves like a fresh one
	replayers["W18X"] = func(c *ctx, in []string) {
		var side, n int
		fmt.Sscan(in[0], &side)
		fmt.Sscan(in[2], &n)
		w18x(c, byte(side), in[1], n)
	}
	wrap("C18", func(c *ctx) {
		for _, side := range []byte{1 | 4, 2 | 4} {
			for _, how := range []string{"reset", "pool"} {
				for _, n := range []int{0, 5, 300} {
					w18x(c, side, how, n)
				}
			}
		}
	})
	// C13: the header handed to the application: RSV1 cleared on the first frame of a data message, RSV2/RSV3 and
	// everything else untouched; directly (MessageState.UnsetBits) and through Reader.NextFrame
	replayers["C13U"] = func(c *ctx, in []string) {
		var op, rsv, fin, prev int
		fmt.Sscan(in[0], &op)
		fmt.Sscan(in[1], &rsv)
		fmt.Sscan(in[2], &fin)
		fmt.Sscan(in[3], &prev)
		c13U(c, byte(op), byte(rsv), fin != 0, prev != 0)
	}
	wrap("C13", func(c *ctx) {
		for _, op := range []byte{1, 2, 0, 8, 9, 10} {
			for rsv := 0; rsv < 8; rsv++ {
				for fin := 0; fin < 2; fin++ {
					for prev := 0; prev < 2; prev++ {
						c13U(c, op, byte(rsv), fin != 0, prev != 0)
					}
				}
			}
		}
	})
	// C20: wss:// with the library's own TLS wrapping and a peer that stays silent during the TLS handshake
	replayers["C20T"] = func(c *ctx, in []string) { c20T(c, in[0]) }
	replayers["C20S"] = func(c *ctx, in []string) { c20S(c) }
	wrap("C20", func(c *ctx) {
		for _, m := range []string{"ctxdl", "cancel", "tmo", "tmoctx"} {
			c20T(c, m)
		}
		c20S(c)
	})
	// C19: a pooled Writer handed to another session carries nothing of the previous one
	replayers["C19R"] = func(c *ctx, in []string) {
		var n int
		fmt.Sscan(in[0], &n)
		c19R(c, n)
	}
	replayers["C19J"] = func(c *ctx, in []string) {
		var n int
		fmt.Sscan(in[0], &n)
		c19Reexec()
		c19J(c, n)
	}
	wrap("C19", func(c *ctx) {
		for _, n := range []int{128, 4096, 65536} {
			c19R(c, n)
		}
		c19J(c, 16)
	})
	// C10: Dialer.Host overrides the Host HEADER, not where the connection goes
	wrap("C10", func(c *ctx) {
		for _, u := range []string{"ws://10.0.0.7:8080/chat", "wss://a.example/x", "ws://[::1]/", "ws://b.example:/", "wss://[2001:db8::1]:8443/"} {
			for _, h := range []string{"chat.example.org", "override.example:8080", "[::2]:99"} {
				dd10h(c, u, h)
			}
		}
	})
	// C07: a validating reader reused through Reset judges the new stream on its own; a consumer that reads a
	// text frame with io.ReadFull into a buffer of exactly the announced length still learns that it is invalid
	replayers["RDF"] = func(c *ctx, in []string) {
		var side int
		fmt.Sscan(in[0], &side)
		rdf(c, byte(side), unhx(in[1]), in[2])
	}
	wrap("C07", func(c *ctx) {
		u8rsPending(c)
		texts := []string{"ok", "caf\xc3\xa9", "caf\xc3", "ab\xe2\x82", "\xe2\x82\xac", "\xf0\x9f\x98", "x\xff", "\xc0\xaf", "price: 5\xe2\x82\xac", "\xed\xa0\x80", ""}
		for i, t := range texts {
			for _, side := range []byte{1, 2} {
				rdf(c, side, []byte(t), chunkSpecs[(i+int(side))%len(chunkSpecs)])
			}
		}
	})
	replayers["RDZ"] = func(c *ctx, in []string) {
		runRD(c, "RDZ", parseCfg(in[0]), parseFrames(in[1]), in[2], in[3], in[4], in[5])
	}
	wrap("C04", func(c *ctx) {
		// an OnIntermediate handler that does not read the control payload
		nz := 40
		if c.thor {
			nz = 600
		}
		for i := 0; i < nz; i++ {
			side := byte(1 + i%2)
			fs := c.randValidStream(side, 2+c.rng.Intn(7), 150)
			w := wireOf(fs)
			runRD(c, "RDZ", rcfg{state: side, cb: 2, chk: i%3 == 0}, fs, "-", c.randChunkSpec(len(w)), "eof", bufSpecs[i%len(bufSpecs)])
		}
		for _, side := range []byte{1, 2} {
			for n := 0; n <= 125; n += 1 + n/4 {
				fs := []sframe{c.mkFrame(side, false, 2, 3), c.mkFrame(side, true, 9, n), c.mkFrame(side, false, 0, 2), c.mkFrame(side, true, 10, 125-n), c.mkFrame(side, true, 0, 1), c.mkFrame(side, true, 2, 4)}
				runRD(c, "RDZ", rcfg{state: side, cb: 2}, fs, "-", chunkSpecs[n%len(chunkSpecs)], "eof", bufSpecs[n%len(bufSpecs)])
			}
		}
		n := 12
		if c.thor {
			n = 200
		}
		for i := 0; i < n; i++ {
			fs := c.randValidStream(1, 1+c.rng.Intn(6), 200)
			for k := range fs {
				switch (i + k) % 3 {
				case 0:
					fs[k].key = [4]byte{}
				case 1:
					fs[k].key = [4]byte{0, 0, 0, byte(1 + k)}
				}
			}
			w := wireOf(fs)
			cfg := rcfg{state: 1, cb: 1, chk: i%2 == 0}
			runRD(c, "RD", cfg, fs, "-", c.randChunkSpec(len(w)), "eof", bufSpecs[i%len(bufSpecs)])
			runRM(c, "RM", 1, fs, "-", c.randChunkSpec(len(w)), "eof")
			runRX(c, "RX", 1, []string{"data", "text", "binary"}[i%3], fs, "-", c.randChunkSpec(len(w)), "eof")
			// idle (0, nil) reads between the LAST byte and the end of the stream (and right before it): io.ReadFull
			// has read n = 0 bytes when the end comes, so the loop ends with a clean io.EOF
			side := byte(1 + i%2)
			gs := c.randValidStream(side, 1+c.rng.Intn(5), 120)
			gw := wireOf(gs)
			trail := []string{fmt.Sprintf("%d,z,z", len(gw)), fmt.Sprintf("%d,z,1,z,z,z", len(gw)-1), fmt.Sprintf("z,%d,z", len(gw)+5)}[i%3]
			runRD(c, "RD", rcfg{state: side, cb: 1, chk: i%2 == 0}, gs, "-", trail, "eof", bufSpecs[i%len(bufSpecs)])
			runRM(c, "RM", side, gs, "-", trail, "eof")
			if len(gw) > 3 { // and when the stream is cut: idle reads, then the end
				cut := 1 + c.rng.Intn(len(gw)-1)
				runRD(c, "RC", rcfg{state: side, cb: 1, chk: true}, gs, fmt.Sprint(cut), fmt.Sprintf("%d,z,z", cut), []string{"eof", "fail"}[i%2], bufSpecs[(i+1)%len(bufSpecs)])
			}
		}
	})
	// C13 (send side): a message split into more than 256 frames
	wrap("C13", func(c *ctx) {
		// the same writer reused for control frames while the message state says "compressed"
		for _, side := range []byte{1 | 4, 2 | 4} {
			for _, op := range []int{9, 10, 8, 2} {
				runWH(c, "WHX", wcfg{"s125", side, 1, "1"}, fmt.Sprintf("w20/1,fl,ro%d,w5/2,fl,ro1,w300/3,fl", op), "-")
				runWH(c, "WHX", wcfg{"s5", side, 2, "1"}, fmt.Sprintf("w3/1,w9/4,ro%d,w2/2,fl", op), "-")
			}
		}
		// one writer living for several messages with SetExtensions called again before each of them
		for _, side := range []byte{1 | 4, 2 | 4} {
			for _, ctor := range []string{"s125", "s5", "d0"} {
				runWH(c, "WHX", wcfg{ctor, side, 1, "-"}, "x1,w3/1,fl,x1,w4/2,fl,x0,w2/3,fl,x1,w2/1,ff,w9/4,fl", "-")
				runWH(c, "WHX", wcfg{ctor, side, 2, "1"}, "w3/1,fl,x1,w4/2,fl,ro1,x1,w20/3,fl", "-")
			}
		}
		var ops []string
		for i := 0; i < 300; i++ {
			ops = append(ops, fmt.Sprintf("w2/%d", i%200))
		}
		ops = append(ops, "fl", "w2/1", "w2/2", "fl")
		for _, side := range []byte{1 | 4, 2 | 4} {
			runWH(c, "WHX", wcfg{"s1", side, 1, "1"}, strings.Join(ops, ","), "-")
			runWH(c, "WHX", wcfg{"s1", side, 2, "-"}, strings.Join(ops, ","), "-")
		}
	})
	replayers["WRF"] = func(c *ctx, in []string) {
		var n, k int
		fmt.Sscan(in[1], &n)
		fmt.Sscan(in[2], &k)
		tail := "fail"
		if len(in) > 3 {
			tail = in[3]
		}
		wrf(c, parseWcfg(in[0]), n, k, tail)
	}
	wrap("C06", func(c *ctx) {
		for _, ctor := range []string{"s5", "s125", "u200", "d0"} {
			for _, side := range []byte{1, 2} {
				for _, n := range []int{1, 4, 5, 6, 130, 300} {
					for _, k := range []int{0, 1, n / 2, n} {
						wrf(c, wcfg{ctor, side, 2, "-"}, n, k, "fail")
						// the last bytes arrive together with the error / with io.EOF
						wrf(c, wcfg{ctor, side, 2, "-"}, n, k, "faildata")
						wrf(c, wcfg{ctor, side, 2, "-"}, n, k, "eofdata")
					}
				}
			}
		}
		// caller-supplied buffers around the header-reservation thresholds (125/126 and 65535/65536 payload
		// bytes of room, with and without the mask), filled completely
		for _, side := range []byte{1, 2} {
			for _, n := range []int{127, 128, 129, 131, 132, 133, 65538, 65539, 65540, 65541, 65543, 65544, 65545, 65549, 65550, 65551} {
				if !c.thor && n > 1000 && (n < 65535+int(side)*4 || n > 65537+int(side)*4) {
					continue // quick tier: only the three sizes around this side's threshold
				}
				ctor := fmt.Sprintf("u%d", n)
				if c.thor || n < 1000 {
					runWH(c, "WH", wcfg{ctor, side, 2, "-"}, fmt.Sprintf("w%d/1,fl", n), "-")
				}
				// the second write finds the buffer part-filled: it is topped up and flushed completely full
				runWH(c, "WH", wcfg{ctor, side, 1, "-"}, fmt.Sprintf("w%d/2,w%d/3,fl", n*2/3, n*2/3), "-")
			}
		}
		// automatic flushing disabled and ONE write around / beyond 65535 bytes: still nothing before the final
		// flush, then the whole message as one frame
		for i, ctor := range []string{"s125", "d0", "s65535", "u200"} {
			side := byte(1 + i%2)
			runWH(c, "WH", wcfg{ctor, side, 2, "-"}, "df,w65535/1,fl", "-")
			runWH(c, "WH", wcfg{ctor, side, 1, "-"}, "df,w65536/2,fl", "-")
			if c.thor || i == 0 {
				runWH(c, "WH", wcfg{ctor, side, 2, "-"}, "df,w70000/3,w5/1,fl", "-")
				runWH(c, "WH", wcfg{ctor, 3 - side, 2, "-"}, "df,w3/1,w66000/3,fl", "-")
			}
		}
		var ops []string
		for i := 0; i < 270; i++ {
			ops = append(ops, fmt.Sprintf("w3/%d", i%200))
		}
		ops = append(ops, "fl")
		runWH(c, "WH", wcfg{"s2", 1, 2, "-"}, strings.Join(ops, ","), "-")
		runWH(c, "WH", wcfg{"u16", 2, 1, "-"}, strings.Join(ops, ",")+",w40/1,ff,w40/2,fl", "-")
	})
	// C16: handshakes over a transport cut at every offset; ResetOp after a destination failure
	replayers["HSC"] = func(c *ctx, in []string) {
		var cut int
		fmt.Sscan(in[1], &cut)
		hsCut(c, in[0], cut, in[2], in[3])
	}
	replayers["HSW"] = func(c *ctx, in []string) {
		var wbuf, k int
		fmt.Sscan(in[1], &wbuf)
		fmt.Sscan(in[2], &k)
		hsWriteFail(c, in[0], wbuf, k)
	}
	wrap("C16", func(c *ctx) {
		reqLen, respLen := len(hsRequest), len(hsResponseFor("dGhlIHNhbXBsZSBub25jZQ=="))
		for cut := 0; cut < reqLen; cut++ {
			if !c.thor && cut%2 == 1 && cut < reqLen-40 {
				continue
			}
			hsCut(c, "up", cut, chunkSpecs[cut%len(chunkSpecs)], []string{"eof", "fail", "eofdata"}[cut%3])
		}
		for cut := 0; cut < respLen; cut++ {
			if !c.thor && cut%2 == 1 && cut < respLen-40 {
				continue
			}
			hsCut(c, "di", cut, chunkSpecs[cut%len(chunkSpecs)], []string{"eof", "fail", "eofdata"}[cut%3])
		}
		// the same heads with bare-LF line ends (readLine accepts them): every offset again
		lfReq, lfResp := len(hsLF(hsRequest)), len(hsLF(hsResponseFor("dGhlIHNhbXBsZSBub25jZQ==")))
		for cut := 0; cut < lfReq; cut++ {
			if !c.thor && cut%3 != 0 && cut < lfReq-12 {
				continue
			}
			hsCut(c, "uplf", cut, chunkSpecs[(cut+1)%len(chunkSpecs)], []string{"fail", "eof", "eofdata"}[(cut/3+cut)%3])
		}
		for cut := 0; cut < lfResp; cut++ {
			if !c.thor && cut%3 != 0 && cut < lfResp-12 {
				continue
			}
			hsCut(c, "dilf", cut, chunkSpecs[(cut+1)%len(chunkSpecs)], []string{"fail", "eof", "eofdata"}[(cut/3+cut)%3])
		}
		// write side: the destination fails at its k-th write while the response / request is flushed
		for _, who := range []string{"up", "uprej", "di"} {
			for _, wbuf := range []int{0, 16, 64} {
				for k := 0; k < 4; k++ {
					hsWriteFail(c, who, wbuf, k)
				}
			}
		}
		for _, ctor := range []string{"s7", "s125", "b20"} {
			for _, side := range []byte{1, 2} {
				cfg := wcfg{ctor, side, 2, "-"}
				h := "w9/1,ff,w30/2,fl,ro1,w5/3,fl,w300/4,ro2,t3/5,ff,fl"
				for k := 0; k <= 6; k++ {
					runWH(c, "WHF", cfg, h, fmt.Sprint(k))
				}
			}
		}
	})
	// C15: the size limit also applies to continuation frames
	wrap("C15", func(c *ctx) {
		for _, side := range []byte{1, 2} {
			for _, n := range []int{1001, 1017, 70000} {
				first := c.mkFrame(side, false, 2, 5)
				ping := c.mkFrame(side, true, 9, 3)
				big := c.mkFrame(side, true, 0, n)
				e := fmt.Sprintf("rd%dm", side)
				fz(c, e, wireOf([]sframe{first, big}))
				fz(c, e, wireOf([]sframe{first, ping, big}))
				mid := c.mkFrame(side, false, 0, n)
				fz(c, e, wireOf([]sframe{first, mid, c.mkFrame(side, true, 0, 1)}))
			}
			// fragmented TEXT whose last non-empty fragment stops inside a multi-byte character, ended by
			// EMPTY fragments: the invalid message is reported, never a count beyond the caller's buffer
			for _, n := range []int{1, 2, 100, 509, 510, 511, 512, 513, 1021, 1022, 1023, 4095, 4096} {
				for _, tailb := range []string{"\xe2", "\xe2\x82", "\xf0\x9f\x98", "\xc3"} {
					if !c.thor && (n+len(tailb))%2 == 0 && n > 2 && n < 509 {
						continue
					}
					first := c.mkFrame(side, false, 1, 0)
					first.payload = append(bytes.Repeat([]byte("a"), n), []byte(tailb)...)
					empty := c.mkFrame(side, false, 0, 0)
					last := c.mkFrame(side, true, 0, 0)
					for _, e := range []string{fmt.Sprintf("rd%d", side), fmt.Sprintf("rx%d", side), fmt.Sprintf("rm%d", side)} {
						fz(c, e, wireOf([]sframe{first, last}))
						fz(c, e, wireOf([]sframe{first, empty, c.mkFrame(side, true, 9, 2), last}))
					}
				}
			}
		}
	})
	// C17: control messages collected by ReadMessage; caller slices under failing destinations
	replayers["C17Z"] = func(c *ctx, in []string) {
		var n, v int
		fmt.Sscan(in[1], &n)
		fmt.Sscan(in[2], &v)
		c17Z(c, in[0], n, v)
	}
	replayers["DXM"] = func(c *ctx, in []string) {
		dxm(c, strings.ReplaceAll(in[0], "_", " "), strings.ReplaceAll(in[1], "_", " "))
	}
	wrap("C17", func(c *ctx) {
		// the caller's Dialer (its Extensions, Protocols) is input only: a handshake whose answer carries other
		// parameters than the offer must not write into it, and a second handshake offers the same again
		for _, oa := range [][2]string{
			{"permessage-deflate; client_max_window_bits=15", "permessage-deflate; server_no_context_takeover; client_max_window_bits=10"},
			{"permessage-deflate; client_max_window_bits, foo; a=1", "foo; a=2; b=3"},
			{"foo; a=1; b=2, bar", "bar; x=y, foo"},
			{"permessage-deflate", "permessage-deflate"},
		} {
			dxm(c, oa[0], oa[1])
		}
		// helpers documented as copying: the result never lives in the caller's buffer, masked input or not
		for _, name := range []string{"MaskFrame", "MaskFrameWith", "UnmaskFrame", "UnmaskFramePlain", "MaskFrameMasked"} {
			for _, n := range []int{1, 8, 125, 1000} {
				c02FB(c, name, n, 16)
			}
		}
		for _, n := range []int{0, 1, 64, 65, 100, 125} {
			for v := 0; v < 2; v++ {
				c17Z(c, "readmessage", n, v)
				c17Z(c, "readmessage-recycle", n, v)
			}
		}
		for _, name := range []string{"writeclient", "writeserver", "writethrough", "writer", "cipherwriter"} {
			for _, n := range []int{1, 127, 128, 4096, 65536, 65537, 70000} {
				for v := 0; v < 4; v++ {
					c17Z(c, name, n, v)
				}
			}
		}
	})
	// C11: debug wrappers must not change the outcome — also for requests net/http refuses or reads
	// differently, and for dialers with a byte-transforming WrapConn
	replayers["DBU2"] = func(c *ctx, in []string) { dbu2(c, unhx(in[0])) }
	replayers["DBD2"] = func(c *ctx, in []string) {
		var v int
		fmt.Sscan(in[0], &v)
		dbd2(c, v)
	}
	wrap("C11", func(c *ctx) {
		base := hsRequest
		vars := []string{
			base,
			strings.Replace(base, "Host: example.com\r\n", "Host: example.com\r\nX-No-Colon-Line\r\n", 1),
			strings.Replace(base, "Host: example.com\r\n", "Host: example.com\r\nContent-Length: abc\r\n", 1),
			strings.Replace(base, "Host: example.com\r\n", "Host: example.com\r\nX-(odd): 1\r\n", 1),
			strings.Replace(base, "Host: example.com\r\n", "Host: example.com\r\nContent-Length: 0\r\nX-A: b\r\n", 1),
			strings.ReplaceAll(base, "\r\n", "\n"),
			strings.Replace(base, "HTTP/1.1", "HTTP/1.0", 1),
			strings.Replace(base, "GET ", "POST ", 1),
			strings.Replace(base, "Upgrade: websocket\r\n", "", 1),
			strings.Replace(base, "Sec-WebSocket-Version: 13", "Sec-WebSocket-Version: 12", 1),
			strings.Replace(base, "Host: example.com\r\n", "Host: example.com\r\nTransfer-Encoding: bogus\r\n", 1),
			strings.Replace(base, "Host: example.com\r\n", " folded: x\r\nHost: example.com\r\n", 1),
			base + "\x81\x02hi",
		}
		for _, v := range vars {
			dbu2(c, []byte(v))
		}
		for v := 0; v < 4; v++ {
			dbd2(c, v)
		}
	})
	// C14: one negotiator reused with a DIFFERENT configuration after Reset behaves as a new one
	replayers["C14R"] = func(c *ctx, in []string) { c14R(c, in[0], in[1], in[2], in[3]) }
	c14Resets := func(c *ctx) {
		cfgs := []string{"0.0.0.0", "1.1.0.0", "0.0.8.0", "1.0.10.12", "0.1.15.15", "1.1.12.8", "0.0.0.9"}
		offers := []string{"permessage-deflate", "permessage-deflate; server_max_window_bits=9", "permessage-deflate; client_max_window_bits",
			"permessage-deflate; server_no_context_takeover; client_max_window_bits=12", "permessage-deflate; server_max_window_bits=15; client_no_context_takeover", "foo"}
		for i, a := range cfgs {
			for j, b := range cfgs {
				c14R(c, a, offers[(i+j)%len(offers)], b, offers[(i*3+j)%len(offers)])
			}
			// the accepted offer before the Reset is the BARE one (it parses to no parameters at all)
			c14R(c, a, "permessage-deflate", a, offers[i%len(offers)])
			c14R(c, a, "permessage-deflate", cfgs[(i+1)%len(cfgs)], "permessage-deflate")
		}
	}
	wrap("C14", c14Resets)
	wrap("C18", c14Resets)
}

const hsRequest = "GET /chat HTTP/1.1\r\nHost: example.com\r\nUpgrade: websocket\r\nConnection: Upgrade\r\nSec-WebSocket-Key: dGhlIHNhbXBsZSBub25jZQ==\r\nSec-WebSocket-Version: 13\r\nSec-WebSocket-Protocol: chat\r\n\r\n"

func hsResponseFor(key string) string {
	acc := make([]byte, 28)
	ws.VerifInitAcceptFromNonce(acc, []byte(key))
	return "HTTP/1.1 101 Switching Protocols\r\nUpgrade: websocket\r\nConnection: Upgrade\r\nSec-WebSocket-Accept: " + string(acc) + "\r\nSec-WebSocket-Protocol: chat\r\n\r\n"
}

// lazyResponse answers the dialer's request (read from what it wrote) with a correct 101 cut after [cut] bytes
type lazyResponse struct {
	w          *recWriter
	cut        int
	spec, tail string
	lf         bool
	key, sent  string
	r          *chunkReader
}

func (l *lazyResponse) Read(p []byte) (int, error) {
	if l.r == nil {
		req := string(l.w.all())
		key := ""
		if i := strings.Index(req, "Sec-WebSocket-Key: "); i >= 0 {
			key = req[i+19:]
			if j := strings.Index(key, "\r\n"); j >= 0 {
				key = key[:j]
			}
		}
		resp := hsResponseFor(key)
		if l.lf {
			resp = hsLF(resp)
		}
		if l.cut < len(resp) {
			resp = resp[:l.cut]
		}
		l.key, l.sent = key, resp
		l.r = newChunkReader([]byte(resp), l.spec, l.tail)
	}
	return l.r.Read(p)
}

// hsLF rewrites a head with bare-LF line ends
func hsLF(s string) string { return strings.Replace(s, "\r\n", "\n", -1) }

// hsErrClass: the projected outcome of a handshake (shared classes of C09 / C10; the chunk readers of
// this file fail with errFail)
func hsErrClass(who string, err error) string {
	if err == errFail {
		return "io:fail"
	}
	if strings.HasPrefix(who, "up") {
		return upgradeErrClass(err)
	}
	return dialErrClass(err)
}

// HSC: a valid handshake whose transport ends (EOF / error) after [cut] bytes must fail, and no 101 is written.
// who: up / di (CRLF heads), uplf / dilf (bare-LF heads).  Beside the monitor's observables the line carries
// what the model needs: the bytes that arrived, the key the dialer sent, the outcome class and the bytes the
// upgrader wrote.
func hsCut(c *ctx, who string, cut int, spec, tail string) {
	dst := newRecWriter()
	var err error
	lf := strings.HasSuffix(who, "lf")
	stream, key := "", ""
	var lr *lazyResponse
	res := fzRun(func() error {
		if strings.HasPrefix(who, "up") {
			req := hsRequest
			if lf {
				req = hsLF(req)
			}
			stream = req[:cut]
			rw := &rwPair{r: newChunkReader([]byte(stream), spec, tail), w: dst}
			_, err = ws.Upgrader{Protocol: func(p []byte) bool { return string(p) == "chat" }}.Upgrade(rw)
		} else {
			u, _ := url.Parse("ws://example.com/chat")
			lr = &lazyResponse{w: dst, cut: cut, spec: spec, tail: tail, lf: lf}
			_, _, err = ws.Dialer{Protocols: []string{"chat"}}.Upgrade(struct {
				io.Reader
				io.Writer
			}{lr, dst}, u)
		}
		return err
	})
	out := "-"
	if lr != nil {
		stream, key = lr.sent, lr.key
	} else {
		out = hx(dst.all())
	}
	fine := res.class
	if res.class == "ok" || res.class == "err" {
		fine = hsErrClass(who, err)
	}
	wrote101 := strings.HasPrefix(string(dst.all()), "HTTP/1.1 101")
	c.emit("HSC %s %d %s %s %s %s -> %s %d %d %s %s", who, cut, spec, tail, hx([]byte(stream)), hx([]byte(key)),
		res.class, b2i(err != nil), b2i(wrote101), fine, out)
}

// failAtWriter accepts k writes and fails from then on
type failAtWriter struct {
	k, calls int
	got      []byte
}

func (w *failAtWriter) Write(p []byte) (int, error) {
	w.calls++
	if w.calls > w.k {
		return 0, errFail
	}
	w.got = append(w.got, p...)
	return len(p), nil
}

// HSW: the destination fails at its (k+1)-th write while a handshake is written (the handshake models have no
// failing destination, this clause is observed only).  up: valid request, the 101 is flushed into a failing
// writer; uprej: a request that is refused (the error response meets the failing writer); di: the dialer's
// request meets the failing writer (a correct response would follow).  Observables: error returned, whether
// the destination was asked to write at all, and whether every write succeeded.
func hsWriteFail(c *ctx, who string, wbuf, k int) {
	dst := &failAtWriter{k: k}
	var err error
	res := fzRun(func() error {
		switch who {
		case "up", "uprej", "uphdr600", "uphdr1100", "uphdr5000":
			req := hsRequest
			if who == "uprej" {
				req = strings.Replace(req, "Upgrade: websocket", "Upgrade: nonsense", 1)
			}
			rw := struct {
				io.Reader
				io.Writer
			}{newChunkReader([]byte(req), "-", "eof"), dst}
			up := ws.Upgrader{WriteBufferSize: wbuf, Protocol: func(p []byte) bool { return string(p) == "chat" }}
			if strings.HasPrefix(who, "uphdr") { // a long extra header: bufio writes what exceeds its buffer directly
				n, _ := strconv.Atoi(who[5:])
				up.Header = ws.HandshakeHeaderBytes([]byte("X-Long: " + strings.Repeat("x", n) + "\r\n"))
			}
			_, err = up.Upgrade(rw)
		default:
			u, _ := url.Parse("ws://example.com/chat")
			rec := newRecWriter()
			lr := &lazyResponse{w: rec, cut: 1 << 20, spec: "-", tail: "eof"}
			_, _, err = ws.Dialer{WriteBufferSize: wbuf, Protocols: []string{"chat"}}.Upgrade(struct {
				io.Reader
				io.Writer
			}{lr, io.MultiWriter(rec, dst)}, u)
		}
		return err
	})
	c.emit("HSW %s %d %d -> %s %d %d %d", who, wbuf, k, res.class, b2i(err != nil), dst.calls, b2i(dst.calls > dst.k))
}

// aliasWriter fails from call failAt on (-1: never) and notices when it is handed the caller's own memory
type aliasWriter struct {
	calls   int
	failAt  int
	lo, hi  uintptr
	aliased bool
}

func (w *aliasWriter) Write(p []byte) (int, error) {
	if len(p) > 0 {
		a := uintptr(unsafe.Pointer(&p[0]))
		if a >= w.lo && a < w.hi {
			w.aliased = true
		}
	}
	w.calls++
	if w.failAt >= 0 && w.calls > w.failAt {
		return 0, errFail
	}
	return len(p), nil
}

// C17Z: [readmessage] control payloads returned by ReadMessage survive pool recycling;
// [write*] client-side (non-mutating) writes leave the caller's slice intact and never hand it to the
// destination, also when the destination fails (variant: 0 ok, 1 fails at once, 2 fails on 2nd call, 3 ok)
func c17Z(c *ctx, name string, n, variant int) {
	c17Setup()
	status, intact, aliased := "ok", true, false
	st := guarded(func() {
		if name == "readmessage-recycle" {
			// the []Message slice is recycled (m = m[:0], the idiom of a read loop) while the application still
			// holds the payloads it was given earlier: later calls must not build their messages in that memory
			side := byte(1 + variant)
			var wire []byte
			var want [][]byte
			for k := 0; k < 6; k++ {
				sz := n - k
				if sz < 0 {
					sz = 0
				}
				f := c.mkFrame(side, true, 2, sz)
				wire = append(wire, wireOf([]sframe{f})...)
				want = append(want, f.payload)
			}
			src := bytes.NewReader(wire)
			var msgs []wsutil.Message
			var held [][]byte
			for k := 0; k < 6; k++ {
				var err error
				msgs, err = wsutil.ReadMessage(src, ws.State(side), msgs[:0])
				if err != nil || len(msgs) != 1 {
					status = "readerr"
					return
				}
				held = append(held, msgs[0].Payload)
				c17Poison()
			}
			for k := range held {
				if !bytes.Equal(held[k], want[k]) {
					intact = false
				}
			}
			return
		}
		if name == "readmessage" {
			side := byte(1 + variant)
			ctl := c.mkFrame(side, true, 9, n)
			fs := []sframe{c.mkFrame(side, false, 2, 10), ctl, c.mkFrame(side, false, 0, 3), c.mkFrame(side, true, 10, n), c.mkFrame(side, true, 0, 200)}
			msgs, err := wsutil.ReadMessage(bytes.NewReader(wireOf(fs)), ws.State(side), nil)
			if err != nil {
				status = "readerr"
				return
			}
			var snap [][]byte
			for _, m := range msgs {
				snap = append(snap, append([]byte(nil), m.Payload...))
			}
			// the documented next step: hand the collected control messages to the handler, then go on
			for _, m := range msgs[:len(msgs)-1] {
				wsutil.HandleControlMessage(ioutil.Discard, ws.State(side), m)
			}
			wsutil.WriteClientMessage(ioutil.Discard, ws.OpBinary, bytes.Repeat([]byte{0x55}, 100))
			c17Poison()
			for i, m := range msgs {
				if !bytes.Equal(m.Payload, snap[i]) {
					intact = false
				}
			}
			return
		}
		p := patBytes(n, 7)
		saved := append([]byte(nil), p...)
		w := &aliasWriter{failAt: []int{-1, 0, 1, -1}[variant]}
		w.lo = uintptr(unsafe.Pointer(&p[0]))
		w.hi = w.lo + uintptr(len(p))
		mustCopy := true
		switch name {
		case "writeclient":
			wsutil.WriteClientMessage(w, ws.OpBinary, p)
		case "writeserver":
			wsutil.WriteServerMessage(w, ws.OpBinary, p)
			mustCopy = false // the server side may pass the caller's slice through; it must not modify it
		case "writethrough":
			wr := wsutil.NewWriter(w, ws.StateClientSide, ws.OpBinary)
			wr.WriteThrough(p)
		case "writer":
			wr := wsutil.NewWriterSize(w, ws.StateClientSide, ws.OpBinary, 64)
			wr.Write(p)
			wr.Flush()
		case "cipherwriter":
			cw := wsutil.NewCipherWriter(w, [4]byte{1, 2, 3, 4})
			cw.Write(p)
		}
		intact = bytes.Equal(p, saved)
		aliased = mustCopy && w.aliased
	})
	if st != "ok" {
		status = st
	}
	c.emit("C17Z %s %d %d -> %d %d %s", name, n, variant, b2i(intact), b2i(aliased), status)
}

// DBU: the same request through ws.Upgrader and through wsutil.DebugUpgrader
func dbu2(c *ctx, req []byte) {
	up := ws.Upgrader{Protocol: func(p []byte) bool { return string(p) == "chat" }}
	d1 := newRecWriter()
	var e1, e2 error
	r1 := fzRun(func() error {
		_, e1 = up.Upgrade(&rwPair{r: bytes.NewReader(req), w: d1})
		return e1
	})
	d2 := newRecWriter()
	var onReq, onResp []byte
	called := 0
	r2 := fzRun(func() error {
		du := wsutil.DebugUpgrader{Upgrader: up,
			OnRequest:  func(b []byte) { onReq = append([]byte(nil), b...); called |= 1 },
			OnResponse: func(b []byte) { onResp = append([]byte(nil), b...); called |= 2 }}
		_, e2 = du.Upgrade(&rwPair{r: bytes.NewReader(req), w: d2})
		return e2
	})
	c.emit("DBU2 %s -> %s.%d.%s %s.%d.%s %d %d %d", hx(req), r1.class, b2i(e1 == nil), hx(d1.all()), r2.class, b2i(e2 == nil), hx(d2.all()),
		called, b2i(bytes.HasPrefix(req, onReq)), b2i(bytes.Equal(onResp, d2.all())))
}

// xorConn is a byte-transforming transport (what Dialer.WrapConn is for)
type xorConn struct{ net.Conn }

func (x xorConn) Read(p []byte) (int, error) {
	n, err := x.Conn.Read(p)
	for i := 0; i < n; i++ {
		p[i] ^= 0x5a
	}
	return n, err
}
func (x xorConn) Write(p []byte) (int, error) {
	q := make([]byte, len(p))
	for i := range p {
		q[i] = p[i] ^ 0x5a
	}
	return x.Conn.Write(q)
}

// DBD: a ws.Dialer (variant bit0: with a transforming WrapConn, bit1: server sends a frame right
// behind the response) against a real ws.Upgrade server over net.Pipe — plain and through DebugDialer
func dbd2(c *ctx, variant int) {
	run := func(debug bool) string {
		cl, sv := net.Pipe()
		deadline := time.Now().Add(3 * time.Second)
		cl.SetDeadline(deadline)
		sv.SetDeadline(deadline)
		go func() {
			var conn net.Conn = sv
			if variant&1 != 0 {
				conn = xorConn{sv}
			}
			if _, err := ws.Upgrade(conn); err == nil {
				ws.WriteFrame(conn, ws.NewTextFrame([]byte("hi")))
			}
			time.Sleep(20 * time.Millisecond)
			sv.Close()
		}()
		d := ws.Dialer{NetDial: func(ctx context.Context, network, addr string) (net.Conn, error) { return cl, nil }}
		if variant&1 != 0 {
			d.WrapConn = func(c net.Conn) net.Conn { return xorConn{c} }
		}
		if variant&2 != 0 {
			d.ReadBufferSize = 16
		}
		var conn net.Conn
		var br *bufio.Reader
		var err error
		seen := 0
		if debug {
			dd := wsutil.DebugDialer{Dialer: d, OnRequest: func(b []byte) { seen |= 1 }, OnResponse: func(b []byte) {
				if bytes.HasPrefix(b, []byte("HTTP/1.1 101")) && bytes.HasSuffix(b, []byte("\r\n\r\n")) {
					seen |= 2
				}
			}}
			conn, br, _, err = dd.Dial(context.Background(), "ws://example.com/x")
		} else {
			conn, br, _, err = d.Dial(context.Background(), "ws://example.com/x")
			seen = 3
		}
		if err != nil {
			return "dialerr"
		}
		var r io.Reader = conn
		if br != nil {
			r = br
		}
		f, err := ws.ReadFrame(r)
		if err != nil {
			return "readerr"
		}
		return fmt.Sprintf("ok:%s:%d", hx(f.Payload), seen)
	}
	var a, b string
	ra := fzRun(func() error { a = run(false); return nil })
	rb := fzRun(func() error { b = run(true); return nil })
	if ra.class != "ok" {
		a = ra.class
	}
	if rb.class != "ok" {
		b = rb.class
	}
	c.emit("DBD2 %d -> %s %s", variant, a, b)
}

// WRF: ReadFrom a source that FAILS after k of n bytes, then Flush: what was accepted must still go out
func wrf(c *ctx, cfg wcfg, n, k int, tail string) {
	dst := newRecWriter()
	w, pan := newWriter(dst, cfg)
	if pan {
		return
	}
	data := patBytes(n, 3)
	src := newChunkReader(data[:k], "r3", tail)
	m, err := w.ReadFrom(src)
	buffered := w.Buffered()
	ferr := w.Flush()
	c.emit("WRF %s %d %d %s -> %d %s %d %s %s", cfg.tok(), n, k, tail, m, werrClass(err), buffered, werrClass(ferr), hxList(dst.calls))
}

func c14Params(s string) wsflate.Parameters {
	var a, b, x, y int
	fmt.Sscanf(strings.ReplaceAll(s, ".", " "), "%d %d %d %d", &a, &b, &x, &y)
	return wsflate.Parameters{ServerNoContextTakeover: a != 0, ClientNoContextTakeover: b != 0, ServerMaxWindowBits: wsflate.WindowBits(x), ClientMaxWindowBits: wsflate.WindowBits(y)}
}

func c14Neg(e *wsflate.Extension, offer string) string {
	opts, ok := httphead.ParseOptions([]byte(offer), nil)
	if !ok || len(opts) == 0 {
		return "unparsable"
	}
	out, err := e.Negotiate(opts[0])
	p, acc := e.Accepted()
	r := "err"
	if err == nil {
		r = "-"
		if out.Size() > 0 {
			var b strings.Builder
			httphead.WriteOptions(&b, []httphead.Option{out})
			r = strings.ReplaceAll(b.String(), " ", "")
		}
	}
	return fmt.Sprintf("%s|%v|%v", r, acc, p)
}

// C14R: config A + offer A on one Extension, Reset, switch to config B, offer B — against a fresh Extension{B}
func c14R(c *ctx, cfgA, offerA, cfgB, offerB string) {
	e := wsflate.Extension{Parameters: c14Params(cfgA)}
	c14Neg(&e, offerA)
	e.Reset()
	e.Parameters = c14Params(cfgB)
	_, acc0 := e.Accepted() // right after the Reset, before any offer
	ra := fmt.Sprintf("%v!", acc0) + strings.ReplaceAll(c14Neg(&e, offerB), " ", "_")
	f := wsflate.Extension{Parameters: c14Params(cfgB)}
	_, accF := f.Accepted()
	rb := fmt.Sprintf("%v!", accF) + strings.ReplaceAll(c14Neg(&f, offerB), " ", "_")
	c.emit("C14R %s %s %s %s -> %s %s", cfgA, strings.ReplaceAll(offerA, " ", "_"), cfgB, strings.ReplaceAll(offerB, " ", "_"), ra, rb)
}

// c19SNI dials wss://host/ with a zero Dialer over a pipe; the fake TLS server records the announced
// server name and aborts the handshake (no certificates needed).
func c19SNI(host string) string {
	got := make(chan string, 1)
	d := ws.Dialer{}
	d.NetDial = func(ctx context.Context, network, addr string) (net.Conn, error) {
		cl, sv := net.Pipe()
		go func() {
			defer sv.Close()
			srv := tls.Server(sv, &tls.Config{GetConfigForClient: func(h *tls.ClientHelloInfo) (*tls.Config, error) {
				got <- h.ServerName
				return nil, fmt.Errorf("verif: abort handshake")
			}})
			_ = srv.Handshake()
		}()
		return cl, nil
	}
	ctx, cancel := context.WithTimeout(context.Background(), 5*time.Second)
	defer cancel()
	conn, _, _, err := d.Dial(ctx, "wss://"+host+"/")
	if err == nil {
		conn.Close()
		return "!success"
	}
	select {
	case name := <-got:
		return name
	case <-time.After(5 * time.Second):
		return "!nohello"
	}
}

func c19TLS(c *ctx, n int, concurrent bool) {
	races0 := c19Races()
	hosts := make([]string, n)
	seen := make([]string, n)
	for i := range hosts {
		hosts[i] = fmt.Sprintf("h%d.example", i)
	}
	if concurrent {
		var wg sync.WaitGroup
		for i := range hosts {
			wg.Add(1)
			go func(i int) { defer wg.Done(); seen[i] = c19SNI(hosts[i]) }(i)
		}
		wg.Wait()
	} else {
		for i := range hosts {
			seen[i] = c19SNI(hosts[i])
		}
	}
	mism, first := 0, "-"
	for i := range hosts {
		if seen[i] != hosts[i] {
			if mism == 0 {
				first = hosts[i] + "=>" + seen[i]
			}
			mism++
		}
	}
	c.emit("C19T %d %d %s -> %d %d %s", n, b2i(concurrent), b2s(raceEnabled), mism, c19Races()-races0, first)
}

// ---- C19P: a session that failed while SENDING its request, then two overlapping sessions ----

type c19BrokenConn struct{ net.Conn }

func (c19BrokenConn) Write(p []byte) (int, error) { return 0, errors.New("verif: broken pipe") }

// c19Session: one client handshake against the library's upgrader over a pipe; returns "" when the
// server saw exactly this session's host and path and both sides succeeded.
func c19Session(host, path string, hdr ws.HandshakeHeader) (res string) {
	defer func() {
		if r := recover(); r != nil {
			res = "panic"
		}
	}()
	type seen struct {
		uri, host string
		err       error
	}
	srv := make(chan seen, 1)
	d := ws.Dialer{Header: hdr, NetDial: func(ctx context.Context, network, addr string) (net.Conn, error) {
		cl, sv := net.Pipe()
		go func() {
			defer sv.Close()
			var sn seen
			u := ws.Upgrader{
				OnRequest: func(uri []byte) error { sn.uri = string(uri); return nil },
				OnHost:    func(h []byte) error { sn.host = string(h); return nil },
			}
			_, sn.err = u.Upgrade(sv)
			srv <- sn
		}()
		return cl, nil
	}}
	ctx, cancel := context.WithTimeout(context.Background(), 3*time.Second)
	defer cancel()
	conn, br, _, err := d.Dial(ctx, "ws://"+host+path)
	if br != nil {
		ws.PutReader(br)
	}
	if err != nil {
		return "dialerr"
	}
	conn.Close()
	select {
	case sn := <-srv:
		if sn.err != nil || sn.uri != path || sn.host != host {
			return fmt.Sprintf("server-saw:%s%s:%v", sn.host, sn.uri, sn.err != nil)
		}
	case <-time.After(3 * time.Second):
		return "serverhang"
	}
	return ""
}

func c19Pool(c *ctx, rounds int) {
	races0 := c19Races()
	old := runtime.GOMAXPROCS(1)
	bad, first := 0, "-"
	note := func(who, r string) {
		if r != "" {
			if bad == 0 {
				first = who + ":" + strings.ReplaceAll(r, " ", "_")
			}
			bad++
		}
	}
	for round := 0; round < rounds; round++ {
		broken := ws.Dialer{NetDial: func(ctx context.Context, network, addr string) (net.Conn, error) {
			cl, sv := net.Pipe()
			go func() { io.Copy(ioutil.Discard, sv) }()
			return c19BrokenConn{cl}, nil
		}}
		if _, _, _, err := broken.Dial(context.Background(), "ws://broken.example/"); err == nil {
			note("broken", "success")
		}
		// session B runs entirely while session A is between taking and returning its pooled writer
		resB := make(chan string, 1)
		hdrA := ws.HandshakeHeaderFunc(func(w io.Writer) (int64, error) {
			go func() { resB <- c19Session("b.example", "/session-B", nil) }()
			rb := <-resB
			resB <- rb
			n, err := io.WriteString(w, "X-Session: A\r\n")
			return int64(n), err
		})
		ra := c19Session("a.example", "/session-A", hdrA)
		rb := <-resB
		note("A", ra)
		note("B", rb)
	}
	runtime.GOMAXPROCS(old)
	c.emit("C19P %d %s -> %d %d %s", rounds, b2s(raceEnabled), bad, c19Races()-races0, first)
}

// RDL: valid frames, then the HEADER of a frame announcing ln payload bytes (ln may be astronomically large),
// then a few bytes; the Reader has MaxFrameSize set. Judged: the frames before are delivered as usual, the
// oversized frame is refused with the size error (or the header error for an invalid length) and none of
// the bytes behind its header is delivered.
func runRDL(c *ctx, cfg rcfg, fs []sframe, h sframe, ln int64, trailing []byte, spec, bufs string) {
	hdr := ws.Header{Fin: h.fin, Rsv: h.rsv, OpCode: ws.OpCode(h.op), Masked: h.masked, Mask: h.key, Length: ln}
	var hb bytes.Buffer
	ws.WriteHeader(&hb, hdr)
	w := append(append(wireOf(fs), hb.Bytes()...), trailing...)
	src := newChunkReader(w, spec, "eof")
	evs, partial, err := driveReader(src, cfg, intsSpec(bufs), 2*len(w)+100)
	h.payload = nil
	c.emit("RDL %s %s %s %d %s %s %s -> %s %s %s", cfg.tok(), framesTok(fs), framesTok([]sframe{h}), ln, hx(trailing), spec, bufs,
		eventsTok(evs), hx(partial), readErrClass(err))
}

// DXM: two handshakes with ONE Dialer value; the server answers the offered extensions with other parameters
func dxm(c *ctx, offer, answer string) {
	opts, _ := httphead.ParseOptions([]byte(offer), nil)
	d := ws.Dialer{Extensions: opts, Protocols: []string{"chat"}}
	enc := func(os []httphead.Option) string {
		var b strings.Builder
		httphead.WriteOptions(&b, os)
		return strings.ReplaceAll(b.String(), " ", "")
	}
	before := enc(d.Extensions)
	var offers []string
	var results []string
	for round := 0; round < 2; round++ {
		d.NetDial = func(ctx context.Context, network, addr string) (net.Conn, error) {
			cl, sv := net.Pipe()
			go func() {
				defer sv.Close()
				br := bufio.NewReader(sv)
				key, ext := "", ""
				for {
					line, err := br.ReadString('\n')
					if err != nil {
						return
					}
					line = strings.TrimRight(line, "\r\n")
					if line == "" {
						break
					}
					if k, v, ok := strings.Cut(line, ": "); ok {
						switch strings.ToLower(k) {
						case "sec-websocket-key":
							key = v
						case "sec-websocket-extensions":
							ext = strings.ReplaceAll(v, " ", "")
						}
					}
				}
				offers = append(offers, ext)
				acc := make([]byte, 28)
				ws.VerifInitAcceptFromNonce(acc, []byte(key))
				io.WriteString(sv, "HTTP/1.1 101 Switching Protocols\r\nUpgrade: websocket\r\nConnection: Upgrade\r\nSec-WebSocket-Accept: "+string(acc)+"\r\nSec-WebSocket-Extensions: "+answer+"\r\n\r\n")
				io.Copy(ioutil.Discard, sv)
			}()
			return cl, nil
		}
		ctx, cancel := context.WithTimeout(context.Background(), 3*time.Second)
		conn, br, hs, err := d.Dial(ctx, "ws://example.com/")
		cancel()
		if br != nil {
			ws.PutReader(br)
		}
		if err != nil {
			results = append(results, "err")
			continue
		}
		got := enc(hs.Extensions)
		// the caller may do what it likes with the returned handshake
		for i := range hs.Extensions {
			hs.Extensions[i] = httphead.Option{Name: []byte("scribbled")}
		}
		conn.Close()
		results = append(results, got)
	}
	for len(offers) < 2 {
		offers = append(offers, "?")
	}
	und := func(x string) string {
		if x == "" {
			return "-"
		}
		return x
	}
	c.emit("DXM %s %s -> %s %s %s %s %s %s", strings.ReplaceAll(offer, " ", "_"), strings.ReplaceAll(answer, " ", "_"),
		und(before), und(enc(d.Extensions)), und(offers[0]), und(offers[1]), und(results[0]), und(results[1]))
}

func w18x(c *ctx, side byte, how string, n int) {
	ms := &wsflate.MessageState{}
	ms.SetCompressed(true)
	xs := []wsutil.SendExtension{ms}
	run := func(w *wsutil.Writer, d *recWriter) (out string) {
		out = "panic"
		defer func() { recover() }()
		w.SetExtensions(xs...)
		k, e1 := w.Write(patBytes(n, 5))
		e2 := w.Flush()
		return fmt.Sprintf("%d.%s.%s.%s", k, werrClass(e1), werrClass(e2), hx(d.all()))
	}
	d0 := newRecWriter()
	var a *wsutil.Writer
	// a writer with a 128-byte payload buffer: PutWriter really keeps it (size class 128) and GetWriter(128)
	// hands the same object back
	a = wsutil.NewWriterSize(d0, ws.State(side), ws.OpText, 128)
	a.SetExtensions(xs...)
	a.Write([]byte("first"))
	a.Flush()
	dA := newRecWriter()
	if how == "pool" {
		wsutil.PutWriter(a)
		a = wsutil.GetWriter(dA, ws.State(side), ws.OpText, 128)
	} else {
		a.Reset(dA, ws.State(side), ws.OpText)
	}
	intact := xs[0] != nil
	ra := "-"
	if intact {
		ra = run(a, dA)
	}
	dB := newRecWriter()
	rb := run(wsutil.NewWriterSize(dB, ws.State(side), ws.OpText, 128), dB)
	if side&2 != 0 { // client side: random masks, compare the unmasked frames
		ra, rb = unmaskLog(ra), unmaskLog(rb)
	}
	c.emit("W18X %d %s %d -> %d %s %s", side, how, n, b2i(intact), ra, rb)
}

// unmaskLog replaces the hex wire bytes at the end of a "k.e1.e2.hex" token by header fields + unmasked payloads
func unmaskLog(tok string) string {
	i := strings.LastIndex(tok, ".")
	if i < 0 {
		return tok
	}
	data := unhx(tok[i+1:])
	var parts []string
	r := bytes.NewReader(data)
	for r.Len() > 0 {
		f, err := ws.ReadFrame(r)
		if err != nil {
			parts = append(parts, "bad")
			break
		}
		if f.Header.Masked {
			ws.Cipher(f.Payload, f.Header.Mask, 0)
		}
		parts = append(parts, fmt.Sprintf("%v/%d/%d/%v/%s", f.Header.Fin, f.Header.Rsv, f.Header.OpCode, f.Header.Masked, hx(f.Payload)))
	}
	return tok[:i+1] + strings.Join(parts, "+")
}

// C19W: one session sends a message from its own buffer (capacity exactly a pool size class when n is a power of
// two) with the one-shot helpers; afterwards OTHER sessions of the same process use the byte pool heavily (client
// writes, control handling of the same size classes). The first session's buffer must still hold its bytes.
func c19W(c *ctx, role string, n int) {
	races0 := c19Races()
	mine := make([]byte, n)
	for i := range mine {
		mine[i] = byte('A' + i%26)
	}
	saved := append([]byte(nil), mine...)
	d := newRecWriter()
	var err error
	if role == "server" {
		err = wsutil.WriteServerMessage(d, ws.OpBinary, mine)
	} else {
		err = wsutil.WriteClientMessage(d, ws.OpBinary, mine)
	}
	// other sessions
	var wg sync.WaitGroup
	for g := 0; g < 4; g++ {
		wg.Add(1)
		go func(g int) {
			defer wg.Done()
			for k := 0; k < 8; k++ {
				other := bytes.Repeat([]byte{byte(0xE0 + g)}, n-n/3)
				wsutil.WriteClientMessage(ioutil.Discard, ws.OpText, other)
				wsutil.WriteClientMessage(ioutil.Discard, ws.OpText, bytes.Repeat([]byte{0xEE}, n))
			}
		}(g)
	}
	for k := 0; k < 8; k++ {
		wsutil.WriteClientMessage(ioutil.Discard, ws.OpText, bytes.Repeat([]byte{0xDD}, n))
	}
	wg.Wait()
	c.emit("C19W %s %d %s -> %s %d %d", role, n, b2s(raceEnabled), werrClass(err), b2i(bytes.Equal(mine, saved)), c19Races()-races0)
}

// C19G: package-level precompiled frames (ws.CompiledPing, CompiledPong, CompiledClose...) are shared by every
// session: after client-side and server-side sessions have answered empty and non-empty pings and closes, the
// globals still hold their bytes and a server-side empty-ping reply is still the unmasked empty pong.
func c19G(c *ctx) {
	races0 := c19Races()
	snap := func() string {
		return hx(ws.CompiledPing) + "." + hx(ws.CompiledPong) + "." + hx(ws.CompiledClose) + "." + hx(ws.CompiledCloseNormalClosure) + "." + hx(ws.CompiledCloseProtocolError)
	}
	before := snap()
	reply := func(state ws.State, op ws.OpCode, payload []byte) []byte {
		d := newRecWriter()
		h := ws.Header{Fin: true, OpCode: op, Length: int64(len(payload))}
		ch := wsutil.ControlHandler{Src: bytes.NewReader(payload), Dst: d, State: state}
		ch.Handle(h)
		return d.all()
	}
	var wg sync.WaitGroup
	for g := 0; g < 4; g++ {
		wg.Add(1)
		go func(g int) {
			defer wg.Done()
			st := []ws.State{ws.StateClientSide, ws.StateServerSide}[g%2]
			for k := 0; k < 4; k++ {
				reply(st, ws.OpPing, nil)
				reply(st, ws.OpPing, []byte("abc"))
				reply(st, ws.OpClose, nil)
			}
		}(g)
	}
	wg.Wait()
	srv := reply(ws.StateServerSide, ws.OpPing, nil)
	cli := reply(ws.StateClientSide, ws.OpPing, nil)
	c.emit("C19G %s -> %d %s %s %d", b2s(raceEnabled), b2i(snap() == before), hx(srv), hx(cli), c19Races()-races0)
}

func c13U(c *ctx, op, rsv byte, fin, prev bool) {
	h := ws.Header{Fin: fin, Rsv: rsv, OpCode: ws.OpCode(op), Length: 1}
	var ms wsflate.MessageState
	ms.SetCompressed(prev)
	g, err := ms.UnsetBits(h)
	direct := fmt.Sprintf("%d.%d.%d.%d.%d.%s.%d", b2i(g.Fin), g.Rsv, g.OpCode, b2i(g.Masked), g.Length, map[bool]string{true: "nil", false: "err"}[err == nil], b2i(ms.IsCompressed()))
	// through the Reader (client side: unmasked frame from the server; extended state so that RSV bits pass the header check)
	via := "-"
	if (op == 0) == prev || op >= 8 { // a continuation needs an open message; skip shapes the Reader refuses for other reasons
		var ms2 wsflate.MessageState
		var pre []byte
		if op == 0 {
			// open a message first (its first frame decides the state the continuation meets)
			f0 := ws.NewFrame(ws.OpText, false, []byte("a"))
			if prev {
				f0.Header.Rsv = 4
			}
			var b bytes.Buffer
			ws.WriteFrame(&b, f0)
			pre = b.Bytes()
		}
		var b bytes.Buffer
		b.Write(pre)
		if op >= 8 && !fin {
			via = "-"
		} else {
			ws.WriteFrame(&b, ws.Frame{Header: h, Payload: []byte("x")})
			rd := &wsutil.Reader{Source: bytes.NewReader(b.Bytes()), State: ws.StateClientSide | ws.StateExtended, Extensions: []wsutil.RecvExtension{&ms2}}
			var hh ws.Header
			var e error
			if op == 0 {
				if _, e = rd.NextFrame(); e == nil {
					_, e = io.ReadFull(rd, make([]byte, 1))
					if e == nil {
						hh, e = rd.NextFrame()
					}
				}
			} else {
				if op >= 8 || true {
					ms2.SetCompressed(prev && op >= 8)
				}
				hh, e = rd.NextFrame()
			}
			via = fmt.Sprintf("%d.%d.%d.%s.%d", b2i(hh.Fin), hh.Rsv, hh.OpCode, map[bool]string{true: "nil", false: "err"}[e == nil], b2i(ms2.IsCompressed()))
		}
	}
	c.emit("C13U %d %d %d %d -> %s %s", op, rsv, b2i(fin), b2i(prev), direct, via)
}

// C20T: Dial("wss://…") over a deadline-honouring pipe whose far end reads and never answers; the context ends
// (deadline / cancel) or Dialer.Timeout elapses after 100 ms. Dial must return promptly, with the context's error
// when a context ended, and the conn must be closed.
func c20T(c *ctx, mode string) {
	closed := make(chan struct{})
	var tc *c20TrackConn
	d := ws.Dialer{NetDial: func(ctx context.Context, network, addr string) (net.Conn, error) {
		cl, sv := net.Pipe()
		go func() {
			io.Copy(ioutil.Discard, sv) // ends when the client side is closed
			close(closed)
		}()
		tc = &c20TrackConn{Conn: cl}
		return tc, nil
	}}
	ctx := context.Background()
	var cancel context.CancelFunc = func() {}
	switch mode {
	case "ctxdl":
		ctx, cancel = context.WithTimeout(ctx, 100*time.Millisecond)
	case "cancel":
		ctx, cancel = context.WithCancel(ctx)
		go func() { time.Sleep(100 * time.Millisecond); cancel() }()
	case "tmo":
		d.Timeout = 100 * time.Millisecond
	case "tmoctx":
		d.Timeout = 100 * time.Millisecond
		ctx, cancel = context.WithTimeout(ctx, time.Minute)
	}
	defer cancel()
	type res struct {
		err      error
		atReturn bool
	}
	done := make(chan res, 1)
	t0 := time.Now()
	go func() {
		_, _, _, err := d.Dial(ctx, "wss://silent.example/")
		// "returns a non-nil error AFTER closing the connection": Close has been called when Dial returns (looked at in
		// this very goroutine, before anything else can run on its behalf)
		at := tc != nil && atomic.LoadInt32(&tc.closed) == 1
		done <- res{err, at}
	}()
	out, cls, isClosed, atReturn := "returned", "-", 0, 0
	select {
	case r := <-done:
		atReturn = b2i(r.atReturn)
		switch {
		case r.err == nil:
			cls = "nil"
		case r.err == context.DeadlineExceeded:
			cls = "deadline"
		case r.err == context.Canceled:
			cls = "canceled"
		default:
			cls = "other"
			if ne, ok := r.err.(net.Error); ok && ne.Timeout() {
				cls = "timeout"
			}
		}
		select {
		case <-closed:
			isClosed = 1
		case <-time.After(time.Second):
		}
	case <-time.After(3 * time.Second):
		out = "hang"
	}
	_ = t0
	c.emit("C20T %s -> %s %s %d %d", mode, out, cls, isClosed, atReturn)
}

// c20TrackConn notes that Close was called
type c20TrackConn struct {
	net.Conn
	closed int32
}

func (t *c20TrackConn) Close() error {
	atomic.StoreInt32(&t.closed, 1)
	return t.Conn.Close()
}

// C19R: session A uses a poolable Writer (payload size a power of two) with an extension and flushing disabled,
// puts it back; session B gets a Writer of that size class: B's frames are those of a fresh Writer
func c19R(c *ctx, n int) {
	dA := newRecWriter()
	a := wsutil.NewWriterSize(dA, ws.StateServerSide|ws.StateExtended, ws.OpText, n)
	ms := &wsflate.MessageState{}
	ms.SetCompressed(true)
	a.SetExtensions(ms)
	a.Write([]byte("session A"))
	a.Flush()
	a.DisableFlush()
	a.Write([]byte("left over"))
	wsutil.PutWriter(a)
	dB := newRecWriter()
	b := wsutil.GetWriter(dB, ws.StateServerSide, ws.OpBinary, n)
	same := b == a
	b.Write([]byte("session B"))
	b.Flush()
	wsutil.PutWriter(b)
	dF := newRecWriter()
	f := wsutil.NewWriterSize(dF, ws.StateServerSide, ws.OpBinary, n)
	f.Write([]byte("session B"))
	f.Flush()
	c.emit("C19R %d -> %d %s %s", n, b2i(same), hx(dB.all()), hx(dF.all()))
}

type dlConn struct {
	net.Conn
	mu    sync.Mutex
	first time.Time
}

func (d *dlConn) SetDeadline(t time.Time) error {
	d.mu.Lock()
	if d.first.IsZero() && !t.IsZero() {
		d.first = t
	}
	d.mu.Unlock()
	return d.Conn.SetDeadline(t)
}

// C20S: background context, Dialer.Timeout = 400 ms, a connect phase that itself takes 300 ms, then a silent
// peer: the deadline Dial arms on the conn is Timeout after the START of Dial ("returns once the configured dial
// timeout elapses"), not Timeout after the connect.
func c20S(c *ctx) {
	var dc *dlConn
	d := ws.Dialer{Timeout: 400 * time.Millisecond, NetDial: func(ctx context.Context, network, addr string) (net.Conn, error) {
		time.Sleep(300 * time.Millisecond)
		cl, sv := net.Pipe()
		go io.Copy(ioutil.Discard, sv)
		dc = &dlConn{Conn: cl}
		return dc, nil
	}}
	t0 := time.Now()
	done := make(chan error, 1)
	go func() {
		_, _, _, err := d.Dial(context.Background(), "ws://slow.example/")
		done <- err
	}()
	out := "returned"
	var err error
	select {
	case err = <-done:
	case <-time.After(3 * time.Second):
		out = "hang"
	}
	armed := int64(-1)
	if dc != nil {
		dc.mu.Lock()
		if !dc.first.IsZero() {
			armed = dc.first.Sub(t0).Milliseconds()
		}
		dc.mu.Unlock()
	}
	c.emit("C20S 400 300 -> %s %d %d", out, b2i(err != nil), armed)
}

// C19J: many server-side sessions REFUSED at the same time, with the built-in and with callback-chosen statuses
// (405, 505, 426, 400, 401, 403, 404, 418): each gets the response it gets alone
func c19J(c *ctx, n int) {
	races0 := c19Races()
	type job struct {
		req    string
		status int
	}
	mk := func(i int) job {
		base := "Host: example.com\r\nUpgrade: websocket\r\nConnection: Upgrade\r\nSec-WebSocket-Key: dGhlIHNhbXBsZSBub25jZQ==\r\nSec-WebSocket-Version: 13\r\n\r\n"
		switch i % 8 {
		case 0:
			return job{"POST /a HTTP/1.1\r\n" + base, 0}
		case 1:
			return job{"GET /a HTTP/1.0\r\n" + base, 0}
		case 2:
			return job{"GET /a HTTP/1.1\r\n" + strings.Replace(base, "Version: 13", "Version: 12", 1), 0}
		case 3:
			return job{"GET /a HTTP/1.1\r\n" + strings.Replace(base, "Upgrade: websocket\r\n", "", 1), 0}
		}
		return job{"GET /a HTTP/1.1\r\n" + base, []int{401, 403, 404, 418}[i%4]}
	}
	run := func(j job) string {
		var out bytes.Buffer
		u := ws.Upgrader{}
		if j.status != 0 {
			st := j.status
			u.OnHeader = func(k, v []byte) error {
				return ws.RejectConnectionError(ws.RejectionStatus(st), ws.RejectionReason(fmt.Sprintf("refused %d", st)))
			}
		}
		_, err := u.Upgrade(struct {
			io.Reader
			io.Writer
		}{strings.NewReader(j.req), &out})
		return fmt.Sprintf("%v|%s", err != nil, out.String())
	}
	solo := make([]string, n)
	for i := range solo {
		solo[i] = "?"
	}
	conc := make([]string, n)
	var wg sync.WaitGroup
	for i := 0; i < n; i++ {
		wg.Add(1)
		go func(i int) { defer wg.Done(); conc[i] = run(mk(i)) }(i)
	}
	wg.Wait()
	mism := 0
	for i := 0; i < n; i++ {
		solo[i] = run(mk(i))
		if solo[i] != conc[i] {
			mism++
		}
	}
	c.emit("C19J %d %s -> %d %d", n, b2s(raceEnabled), mism, c19Races()-races0)
}

// RDF: one single-frame text message, CheckUTF8 on, read with io.ReadFull into exactly hdr.Length bytes, then
// one more Read
func rdf(c *ctx, side byte, text []byte, spec string) {
	f := c.mkFrame(side, true, 1, 0)
	f.payload = text
	w := wireOf([]sframe{f, c.mkFrame(side, true, 2, 1)})
	rd := &wsutil.Reader{Source: newChunkReader(w, spec, "eof"), State: ws.State(side), CheckUTF8: true}
	n1, e1, n2, e2 := 0, "-", 0, "-"
	var got []byte
	hdr, err := rd.NextFrame()
	if err != nil {
		e1 = "next:" + readErrClass(err)
	} else {
		buf := make([]byte, hdr.Length)
		var er error
		n1, er = io.ReadFull(rd, buf)
		got = buf[:n1]
		e1 = readErrClass(er)
		one := make([]byte, 8)
		n2, er = rd.Read(one)
		e2 = readErrClass(er)
	}
	c.emit("RDF %d %s %s -> %d %s %s %d %s", side, hx(text), spec, n1, e1, hx(got), n2, e2)
}
