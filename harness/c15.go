package main

import (
	"bufio"
	"bytes"
	"compress/flate"
	"fmt"
	"io"
	"net/url"
	"os"
	"os/exec"
	"runtime"
	"runtime/debug"
	"strings"
	"time"

	"github.com/gobwas/httphead"
	"github.com/gobwas/ws"
	"github.com/gobwas/ws/wsflate"
	"github.com/gobwas/ws/wsutil"
)

func init() {
	props["C15"] = runC15
	props["fzchild"] = func(c *ctx) { // child process for cases that may crash the runtime
		c.emit("%s", fzOne(c.args[0], unhx(c.args[1])))
	}
	replayers["FZ"] = func(c *ctx, in []string) { fz(c, in[0], unhx(in[1])) }
	replayers["FZX"] = func(c *ctx, in []string) { fzx(c, in[0], unhx(in[1])) }
}

type fzres struct {
	class  string // ok | err | panic | hang
	detail string
	alloc  uint64
}

// fzWatchdog: how long one entry point may take before it counts as a hang (long-stream entries, which read millions of
// frames in a child process, get more: a loaded machine must not turn them into a false "hang")
var fzWatchdog = 3 * time.Second

// fzRun executes f under recover, a watchdog and allocation accounting.
func fzRun(f func() error) fzres {
	done := make(chan fzres, 1)
	go func() {
		var res fzres
		defer func() {
			if r := recover(); r != nil {
				msg := fmt.Sprint(r)
				msg = strings.Map(func(r rune) rune {
					if r == ' ' || r == '\n' || r == '\t' {
						return '_'
					}
					return r
				}, msg)
				if len(msg) > 80 {
					msg = msg[:80]
				}
				res = fzres{class: "panic", detail: msg}
			}
			done <- res
		}()
		var m0, m1 runtime.MemStats
		runtime.ReadMemStats(&m0)
		err := f()
		runtime.ReadMemStats(&m1)
		res.alloc = m1.TotalAlloc - m0.TotalAlloc
		if err != nil {
			res.class = "err"
			res.detail = readErrClass(err)
			if res.detail == "other" {
				res.detail = "e"
			}
		} else {
			res.class = "ok"
			res.detail = "-"
		}
	}()
	select {
	case r := <-done:
		return r
	case <-time.After(fzWatchdog):
		return fzres{class: "hang", detail: "-"}
	}
}

// fzOne runs one entry point on the bytes; returns the output part of the observation line.
func fzOne(entry string, data []byte) string {
	nev := 0
	if strings.HasPrefix(entry, "xr") || strings.HasPrefix(entry, "xm") {
		// a LONG stream given by a short description: prefix ++ unit x count ++ suffix (see fzRep). Run in a child
		// process only (fzx): the goroutine stack is capped (4 MB), so that stack use growing with the NUMBER of frames the
		// peer sends ends in the runtime's fatal "stack overflow" within a stream of a few megabytes
		data = fzExpand(data)
		debug.SetMaxStack(4 << 20)
		fzWatchdog = 60 * time.Second
	}
	r := fzRun(func() error {
		switch entry {
		case "rh":
			_, err := ws.ReadHeader(bytes.NewReader(data))
			return err
		case "rf":
			_, err := ws.ReadFrame(bytes.NewReader(data))
			return err
		case "xr1", "xr2":
			cfg := rcfg{state: entry[2] - '0', chk: true, cb: 1}
			evs, _, err := driveReader(bytes.NewReader(data), cfg, []int{512}, 2*len(data)+100)
			nev = len(evs)
			return err
		case "xm1", "xm2":
			ms, err := wsutil.ReadMessage(bytes.NewReader(data), ws.State(entry[2]-'0'), nil)
			nev = len(ms)
			return err
		case "rd1", "rd2", "rd1m", "rd2m":
			cfg := rcfg{state: entry[2] - '0', chk: true, cb: 1}
			if strings.HasSuffix(entry, "m") {
				cfg.max = 1000
			}
			evs, _, err := driveReader(newChunkReader(data, "-", "eof"), cfg, []int{512}, 2*len(data)+100)
			nev = len(evs)
			return err
		case "rm1", "rm2":
			src := bytes.NewReader(data)
			var err error
			for i := 0; i < len(data)+2 && err == nil; i++ {
				var ms []wsutil.Message
				ms, err = wsutil.ReadMessage(src, ws.State(entry[2]-'0'), nil)
				nev += len(ms)
			}
			return err
		case "rx1", "rx2":
			rw := &rwPair{r: bytes.NewReader(data), w: newRecWriter()}
			var err error
			for i := 0; i < len(data)+2 && err == nil; i++ {
				if entry == "rx1" {
					_, _, err = wsutil.ReadClientData(rw)
				} else {
					_, _, err = wsutil.ReadServerData(rw)
				}
			}
			return err
		case "hc1", "hc2":
			src := bytes.NewReader(data)
			h, err := ws.ReadHeader(src)
			if err != nil {
				return err
			}
			if h.Length > 125 { // callers must have checked the header (ControlHandler doc)
				h.Length = 125
			}
			return wsutil.ControlHandler{Src: src, Dst: newRecWriter(), State: ws.State(entry[2] - '0')}.Handle(h)
		case "up":
			rw := &rwPair{r: bytes.NewReader(data), w: newRecWriter()}
			_, err := ws.Upgrader{
				Protocol:  func(p []byte) bool { return len(p) > 0 && p[0] == 'a' },
				Extension: func(o httphead.Option) bool { return true },
			}.Upgrade(rw)
			return err
		case "upn":
			rw := &rwPair{r: bytes.NewReader(data), w: newRecWriter()}
			var e wsflate.Extension
			_, err := ws.Upgrader{Negotiate: e.Negotiate}.Upgrade(rw)
			return err
		case "di":
			rw := &rwPair{r: bytes.NewReader(data), w: newRecWriter()}
			u, _ := url.Parse("ws://example.com/path")
			_, _, err := ws.Dialer{Protocols: []string{"a", "b"}, Extensions: []httphead.Option{{Name: []byte("permessage-deflate")}}}.Upgrade(rw, u)
			return err
		case "pp":
			opts, ok := httphead.ParseOptions(data, nil)
			if !ok {
				return fmt.Errorf("malformed")
			}
			var err error
			for _, o := range opts {
				var p wsflate.Parameters
				if e := p.Parse(o); e != nil {
					err = e
				}
				var x wsflate.Extension
				if _, e := x.Negotiate(o); e != nil {
					err = e
				}
			}
			return err
		case "sel":
			ws.VerifBtsSelectProtocol(data, func(p []byte) bool { return len(p) > 3 })
			ws.VerifStrSelectProtocol(string(data), func(p string) bool { return len(p) > 3 })
			_, err := ws.VerifNegotiateExtensions(data, nil, func(o httphead.Option) (httphead.Option, error) { return o, nil })
			ws.VerifBtsHasToken(data, []byte("upgrade"))
			return err
		case "df":
			_, err := wsflate.DecompressFrame(ws.Frame{Header: ws.Header{Fin: true, Rsv: 4, OpCode: ws.OpBinary, Length: int64(len(data))}, Payload: data})
			return err
		case "rl":
			br := bufio.NewReaderSize(bytes.NewReader(data), 16)
			var err error
			for i := 0; i < len(data)+2 && err == nil; i++ {
				_, err = ws.VerifReadLine(br)
			}
			return err
		case "hl":
			ws.VerifHTTPParseRequestLine(data)
			ws.VerifHTTPParseResponseLine(data)
			ws.VerifHTTPParseHeaderLine(data)
			ws.VerifHTTPParseVersion(data)
			ws.VerifAsciiToInt(data)
			ws.VerifBsplit3(data, ' ')
			ws.VerifBtrim(data)
			ws.VerifHostport(string(data), ":80")
			return nil
		}
		return fmt.Errorf("unknown entry")
	})
	over := 0
	limit := uint64(256<<10) + 64*uint64(len(data))
	if entry == "df" {
		limit = 64 << 20 // a deflate stream may legitimately expand (bounded by its own length x 1032)
	}
	if r.alloc > limit && !strings.HasPrefix(entry, "x") { // long-stream entries: the harness's own per-frame bookkeeping dominates
		over = 1
	}
	return fmt.Sprintf("%s %s %d %d", r.class, r.detail, over, nev)
}

func fz(c *ctx, entry string, data []byte) {
	c.emit("FZ %s %s -> %s", entry, hx(data), fzOne(entry, data))
}

// fzx runs the case in a child process (an unrecoverable runtime failure must not take the harness down)
func fzx(c *ctx, entry string, data []byte) {
	cmd := exec.Command(os.Args[0], "fzchild", entry, hx(data))
	var out, errb bytes.Buffer
	cmd.Stdout, cmd.Stderr = &out, &errb
	done := make(chan error, 1)
	if err := cmd.Start(); err != nil {
		c.emit("FZX %s %s -> crash start 0 0", entry, hx(data))
		return
	}
	go func() { done <- cmd.Wait() }()
	select {
	case err := <-done:
		if err != nil {
			msg := strings.SplitN(errb.String(), "\n", 2)[0]
			msg = strings.ReplaceAll(msg, " ", "_")
			if len(msg) > 80 {
				msg = msg[:80]
			}
			c.emit("FZX %s %s -> crash %s 0 0", entry, hx(data), msg)
			return
		}
		c.emit("FZX %s %s -> %s", entry, hx(data), strings.TrimSpace(out.String()))
	case <-time.After(90 * time.Second):
		cmd.Process.Kill()
		c.emit("FZX %s %s -> hang - 0 0", entry, hx(data))
	}
}

// ---------------------------------------------------------------- mutation
func (c *ctx) mutate(seed []byte) []byte {
	b := append([]byte(nil), seed...)
	n := 1 + c.rng.Intn(3)
	for i := 0; i < n; i++ {
		switch c.rng.Intn(9) {
		case 0: // bit flip
			if len(b) > 0 {
				b[c.rng.Intn(len(b))] ^= 1 << uint(c.rng.Intn(8))
			}
		case 1: // truncate
			if len(b) > 0 {
				b = b[:c.rng.Intn(len(b))]
			}
		case 2: // overwrite a byte
			if len(b) > 0 {
				b[c.rng.Intn(len(b))] = []byte{0, 0x7e, 0x7f, 0xff, 0x80, '"', '(', '\\', ';', ',', '=', '\r', '\n', ':', ' ', '\t'}[c.rng.Intn(16)]
			}
		case 3: // insert tokens
			toks := []string{"\"", "\\\"", "(", ")", ";", ",,", "=;", "\r\n", "\n", "\x00", "a=\"b", "; ;", ",;=", strings.Repeat("x", 40), strings.Repeat("a,", 30)}
			t := toks[c.rng.Intn(len(toks))]
			p := 0
			if len(b) > 0 {
				p = c.rng.Intn(len(b))
			}
			b = append(b[:p:p], append([]byte(t), b[p:]...)...)
		case 4: // duplicate a slice
			if len(b) > 1 {
				p := c.rng.Intn(len(b) - 1)
				q := p + 1 + c.rng.Intn(len(b)-p-1)
				b = append(b[:q:q], append(append([]byte(nil), b[p:q]...), b[q:]...)...)
			}
		case 5: // delete a slice
			if len(b) > 1 {
				p := c.rng.Intn(len(b) - 1)
				q := p + 1 + c.rng.Intn(len(b)-p-1)
				b = append(b[:p:p], b[q:]...)
			}
		case 6: // long line
			p := 0
			if len(b) > 0 {
				p = c.rng.Intn(len(b))
			}
			b = append(b[:p:p], append(bytes.Repeat([]byte{'z'}, 5000), b[p:]...)...)
		case 7: // random tail
			t := make([]byte, c.rng.Intn(12))
			c.rng.Read(t)
			b = append(b, t...)
		case 8: // length field overwrite (frame seeds): second byte 126/127 forms
			if len(b) > 10 {
				b[1] = b[1]&0x80 | byte(126+c.rng.Intn(2))
			}
		}
	}
	return b
}

var extremeLens = []uint64{1<<31 - 1, 1 << 31, 1 << 32, 1 << 40, 1 << 47, 1 << 48, 1 << 62, 1<<63 - 1, 1 << 63, 1<<64 - 1}

func runC15(c *ctx) {
	n := 150
	if c.thor {
		n = 4000
	}
	frameEntries := []string{"rh", "rf", "rd1", "rd2", "rd1m", "rd2m", "rm1", "rm2", "rx1", "rx2", "hc1", "hc2"}
	// (1) frame streams
	for i := 0; i < n; i++ {
		side := byte(1 + c.rng.Intn(2))
		seed := wireOf(c.randValidStream(side, 1+c.rng.Intn(5), 300))
		for _, e := range frameEntries {
			if (e[len(e)-1] == '1' || strings.HasSuffix(e, "1m")) != (side == 1) && e != "rh" && e != "rf" {
				continue
			}
			fz(c, e, c.mutate(seed))
		}
		if i%10 == 0 {
			junk := make([]byte, c.rng.Intn(40))
			c.rng.Read(junk)
			for _, e := range frameEntries {
				fz(c, e, junk)
			}
		}
	}
	// (2) extreme announced lengths at every frame entry point (child process)
	k := 0
	for _, l := range extremeLens {
		for _, masked := range []bool{false, true} {
			for _, op := range []byte{0x82, 0x81, 0x02, 0x89, 0x88} {
				for _, tailn := range []int{0, 10} {
					k++
					if !c.thor && k%3 != 0 {
						continue
					}
					b := []byte{op, 127}
					if masked {
						b[1] |= 0x80
					}
					for s := 56; s >= 0; s -= 8 {
						b = append(b, byte(l>>uint(s)))
					}
					if masked {
						b = append(b, 1, 2, 3, 4)
					}
					b = append(b, bytes.Repeat([]byte{'x'}, tailn)...)
					for _, e := range frameEntries {
						if e == "rf" || strings.HasPrefix(e, "rm") || strings.HasPrefix(e, "rx") {
							fzx(c, e, b)
						} else {
							fz(c, e, b)
						}
					}
				}
			}
		}
	}
	// (3) handshake requests / responses
	req := []byte("GET /chat HTTP/1.1\r\nHost: example.com\r\nUpgrade: websocket\r\nConnection: keep-alive, Upgrade\r\nSec-WebSocket-Key: dGhlIHNhbXBsZSBub25jZQ==\r\nSec-WebSocket-Version: 13\r\nSec-WebSocket-Protocol: abc, b\r\nSec-WebSocket-Extensions: permessage-deflate; client_max_window_bits, foo; a=\"b c\"; d\r\n\r\n")
	for i := 0; i < n; i++ {
		m := c.mutate(req)
		fz(c, "up", m)
		fz(c, "upn", m)
		fz(c, "rl", m)
	}
	// the dialer needs the accept for its own random key: mutate structure around a fixed prefix
	resp := []byte("HTTP/1.1 101 Switching Protocols\r\nUpgrade: websocket\r\nConnection: Upgrade\r\nSec-WebSocket-Accept: s3pPLMBiTxaQ9kYGzzhZRbK+xOo=\r\nSec-WebSocket-Protocol: a\r\nSec-WebSocket-Extensions: permessage-deflate; server_max_window_bits=10\r\n\r\n")
	for i := 0; i < n; i++ {
		fz(c, "di", c.mutate(resp))
	}
	// (4) option lists and single lines
	optSeeds := []string{"permessage-deflate; client_max_window_bits; server_max_window_bits=10", "a, b;c=d;e=\"f\\\"g\", h", "foo;bar=\"baz\";qux, x", "abc", "upgrade, keep-alive", "GET / HTTP/1.1", "HTTP/1.1 101 OK", "Key: value", "[::1]:80", "host:"}
	for i := 0; i < 2*n; i++ {
		m := c.mutate([]byte(optSeeds[c.rng.Intn(len(optSeeds))]))
		fz(c, "pp", m)
		fz(c, "sel", m)
		fz(c, "hl", m)
	}
	// (5) compressed payloads
	for i := 0; i < n; i++ {
		var buf bytes.Buffer
		fw, _ := flate.NewWriter(&buf, c.rng.Intn(10))
		fw.Write(c.payload(c.rng.Intn(600)))
		fw.Flush()
		seed := buf.Bytes()
		if len(seed) >= 4 {
			seed = seed[:len(seed)-4]
		}
		fz(c, "df", c.mutate(seed))
		if i%8 == 0 {
			j := make([]byte, c.rng.Intn(30))
			c.rng.Read(j)
			fz(c, "df", j)
		}
	}
	_ = io.EOF
}

// fzRep describes the stream prefix ++ unit x count ++ suffix in a few bytes; fzExpand builds it
func fzRep(prefix, unit []byte, count int, suffix []byte) []byte {
	var b []byte
	b = append(b, byte(count>>24), byte(count>>16), byte(count>>8), byte(count))
	for _, p := range [][]byte{prefix, unit, suffix} {
		b = append(b, byte(len(p)>>8), byte(len(p)))
		b = append(b, p...)
	}
	return b
}

func fzExpand(d []byte) []byte {
	if len(d) < 4 {
		return nil
	}
	count := int(d[0])<<24 | int(d[1])<<16 | int(d[2])<<8 | int(d[3])
	d = d[4:]
	var parts [3][]byte
	for i := range parts {
		if len(d) < 2 {
			return nil
		}
		n := int(d[0])<<8 | int(d[1])
		if len(d) < 2+n {
			return nil
		}
		parts[i], d = d[2:2+n], d[2+n:]
	}
	out := make([]byte, 0, len(parts[0])+count*len(parts[1])+len(parts[2]))
	out = append(out, parts[0]...)
	for i := 0; i < count; i++ {
		out = append(out, parts[1]...)
	}
	return append(out, parts[2]...)
}
