package main

import (
	"bytes"
	"fmt"
	"io"

	"github.com/gobwas/ws"
	"github.com/gobwas/ws/wsutil"
)

func init() {
	runC08H = runC08Himpl
	replayers["CH"] = func(c *ctx, in []string) {
		var side, op int
		fmt.Sscan(in[0], &side)
		fmt.Sscan(in[1], &op)
		c08H(c, byte(side), byte(op), unhx(in[2]), in[3], in[4], in[5])
	}
}

func hresClass(err error) string {
	switch e := err.(type) {
	case nil:
		return "nil"
	case wsutil.ClosedError:
		return fmt.Sprintf("closed:%d:%s", e.Code, hx([]byte(e.Reason)))
	case ws.ProtocolError:
		return "proto:" + closeErrName(err)
	}
	if err == wsutil.ErrNotControlFrame {
		return "notcontrol"
	}
	if c := ioErrClass(err); c != "other" {
		return "io:" + c
	}
	if err == wsutil.ErrControlOverflow {
		return "overflow"
	}
	return "other"
}

// one control frame through one entry point. key "-" = source not masked.
func c08H(c *ctx, side, op byte, payload []byte, key string, entry string, spec string) {
	dst := newRecWriter()
	state := ws.State(side)
	h := ws.Header{Fin: true, OpCode: ws.OpCode(op), Length: int64(len(payload))}
	srcBytes := append([]byte(nil), payload...)
	masked := key != "-" && side == 1
	if masked {
		h.Masked = true
		copy(h.Mask[:], unhx(key))
		ws.Cipher(srcBytes, h.Mask, 0)
	}
	var err error
	func() {
		defer func() {
			if r := recover(); r != nil {
				err = fmt.Errorf("panic: %v", r)
			}
		}()
		switch entry {
		case "handle":
			err = wsutil.ControlHandler{Src: newChunkReader(srcBytes, spec, "eof"), Dst: dst, State: state, DisableSrcCiphering: !masked}.Handle(h)
		case "cfh":
			err = wsutil.ControlFrameHandler(dst, state)(h, newChunkReader(payload, spec, "eof"))
		case "hcm":
			msg := wsutil.Message{OpCode: ws.OpCode(op), Payload: payload}
			if side == 1 {
				err = wsutil.HandleClientControlMessage(dst, msg)
			} else {
				err = wsutil.HandleServerControlMessage(dst, msg)
			}
		case "hcm2":
			err = wsutil.HandleControlMessage(dst, state, wsutil.Message{OpCode: ws.OpCode(op), Payload: payload})
		}
	}()
	c.emit("CH %d %d %s %s %s %s -> %s %s", side, op, hx(payload), key, entry, spec, hxList(dst.calls), hresClass(err))
}

// control frame handled inline by ReadData: [control][text "hi"] -> reply + data
func c08RX(c *ctx, side, op byte, payload []byte, spec string) {
	peerMasked := side == 1
	f := sframe{fin: true, op: op, payload: payload, masked: peerMasked}
	d := sframe{fin: true, op: 1, payload: []byte("hi"), masked: peerMasked}
	if peerMasked {
		c.rng.Read(f.key[:])
		c.rng.Read(d.key[:])
	}
	w := wireOf([]sframe{f, d})
	rw := &rwPair{r: newChunkReader(w, spec, "eof"), w: newRecWriter()}
	var p []byte
	var opc ws.OpCode
	var err error
	if side == 1 {
		p, opc, err = wsutil.ReadClientData(rw)
	} else {
		p, opc, err = wsutil.ReadServerData(rw)
	}
	res := hresClass(err)
	if err == nil {
		res = fmt.Sprintf("data:%d:%s", opc, hx(p))
	}
	c.emit("CX %d %d %s %s -> %s %s", side, op, hx(payload), spec, hxList(rw.w.calls), res)
}

type rwPair struct {
	r io.Reader
	w *recWriter
}

func (p *rwPair) Read(b []byte) (int, error)  { return p.r.Read(b) }
func (p *rwPair) Write(b []byte) (int, error) { return p.w.Write(b) }

func runC08Himpl(c *ctx) {
	entries := []string{"handle", "cfh", "hcm", "hcm2"}
	specs := []string{"-", "r1", "r7", "3,1,50"}
	i := 0
	for _, side := range []byte{1, 2} {
		for _, op := range []byte{9, 10, 8} {
			for n := 0; n <= 125; n++ {
				i++
				var p []byte
				if op == 8 {
					if n == 1 {
						p = []byte{byte(c.rng.Intn(256))}
					} else if n >= 2 {
						p = ws.NewCloseFrameBody(ws.StatusCode([]int{1000, 1001, 3000, 4999, 1002}[n%5]), string(c.payload(n-2)))
					}
				} else {
					p = make([]byte, n)
					c.rng.Read(p)
				}
				key := "-"
				if i%2 == 0 {
					key = "a1b2c3d4"
				}
				c08H(c, side, op, p, key, entries[i%4], specs[(i/4)%4])
				c08H(c, side, op, p, "-", entries[(i+1)%4], specs[(i/3)%4])
				if n%9 == 0 {
					c08RX(c, side, op, p, specs[i%4])
				}
			}
			// an opcode that is not a control opcode
			c08H(c, side, 1, []byte("x"), "-", "cfh", "-")
		}
	}
	// close codes
	reasons := [][]byte{nil, []byte("bye"), []byte("\xe2\x82\xac ok"), []byte("\xc0\xaf"), []byte("\xed\xa0\x80"), []byte("tr\xe2\x82")}
	for code := 0; code < 65536; code++ {
		if !c.thor && code > 5100 && code < 65000 && code%97 != 0 {
			continue
		}
		for ri, r := range reasons {
			if !c.thor && (code+ri)%3 != 0 && code > 1100 {
				continue
			}
			body := make([]byte, 2+len(r))
			body[0], body[1] = byte(code>>8), byte(code)
			copy(body[2:], r)
			side := byte(1 + (code+ri)%2)
			c08H(c, side, 8, body, []string{"-", "01020304"}[code%2], entries[(code+ri)%4], specs[code%4])
		}
	}
	for b := 0; b < 256; b++ {
		c08H(c, byte(1+b%2), 8, []byte{byte(b)}, "-", entries[b%4], "-")
	}
	_ = bytes.Equal
}
