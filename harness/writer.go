package main

import (
	"fmt"
	"io"
	"os"
	"strconv"
	"strings"

	"github.com/gobwas/ws"
	"github.com/gobwas/ws/wsflate"
	"github.com/gobwas/ws/wsutil"
)

// deterministic payload shared with the checker: byte i = (seed + 31*i) mod 251
func patBytes(n, seed int) []byte {
	p := make([]byte, n)
	for i := range p {
		p[i] = byte((seed + 31*i) % 251)
	}
	return p
}

func werrClass(err error) string {
	switch err {
	case nil:
		return "nil"
	case errFail, errTimeout, os.ErrDeadlineExceeded:
		return "dest"
	case wsutil.ErrNotEmpty:
		return "notempty"
	case wsutil.ErrControlOverflow:
		return "overflow"
	case wsflate.ErrUnexpectedCompressionBit:
		return "ext"
	case io.ErrNoProgress:
		return "noprogress"
	case errHang:
		return "hang"
	}
	return "other"
}

type wcfg struct {
	ctor  string // d | s<n> | b<n> | u<n>
	state byte
	op    byte
	exts  string // compressed flags of attached MessageStates, "-" none
}

func (c wcfg) tok() string { return fmt.Sprintf("%s.%d.%d.%s", c.ctor, c.state, c.op, c.exts) }
func parseWcfg(s string) wcfg {
	p := strings.Split(s, ".")
	st, _ := strconv.Atoi(p[1])
	op, _ := strconv.Atoi(p[2])
	return wcfg{p[0], byte(st), byte(op), p[3]}
}

func mkExts(flags string) []wsutil.SendExtension {
	if flags == "-" {
		return nil
	}
	var xs []wsutil.SendExtension
	for _, ch := range flags {
		ms := &wsflate.MessageState{}
		ms.SetCompressed(ch == '1')
		xs = append(xs, ms)
	}
	return xs
}

func newWriter(dst io.Writer, c wcfg) (w *wsutil.Writer, panicked bool) {
	defer func() {
		if recover() != nil {
			panicked = true
		}
	}()
	n, _ := strconv.Atoi(c.ctor[1:])
	st, op := ws.State(c.state), ws.OpCode(c.op)
	switch c.ctor[0] {
	case 'd':
		w = wsutil.NewWriter(dst, st, op)
	case 's':
		w = wsutil.NewWriterSize(dst, st, op, n)
	case 'b':
		w = wsutil.NewWriterBufferSize(dst, st, op, n)
	case 'u':
		w = wsutil.NewWriterBuffer(dst, st, op, make([]byte, n))
	}
	if c.exts != "-" {
		w.SetExtensions(mkExts(c.exts)...)
	}
	return w, false
}

type wobs struct {
	n                     int
	err                   string
	panicked              bool
	buffered, avail, size int
	calls                 int
}

func (o wobs) tok() string {
	return fmt.Sprintf("%d.%s.%d.%d.%d.%d.%d", o.n, o.err, b2i(o.panicked), o.buffered, o.avail, o.size, o.calls)
}

// runWops applies op tokens to w; dst is the recording destination (for the call count).
func runWops(w *wsutil.Writer, dst *recWriter, ops []string) (out []wobs) {
	for _, op := range ops {
		var o wobs
		stop := false
		func() {
			defer func() {
				if r := recover(); r != nil {
					o.panicked = true
					stop = true
				}
			}()
			done := make(chan struct{})
			var n int
			var err error
			go func() {
				defer func() {
					if r := recover(); r != nil {
						o.panicked = true
						stop = true
					}
					close(done)
				}()
				n, err = applyWop(w, dst, op)
			}()
			select {
			case <-done:
			case <-timeAfter():
				err = errHang
				stop = true
			}
			o.n, o.err = n, werrClass(err)
		}()
		if !stop || o.panicked {
			func() {
				defer func() { recover() }()
				o.buffered, o.avail, o.size = w.Buffered(), w.Available(), w.Size()
			}()
		}
		o.calls = len(dst.calls)
		out = append(out, o)
		if stop {
			break
		}
	}
	return out
}

func applyWop(w *wsutil.Writer, dst *recWriter, op string) (int, error) {
	switch {
	case op == "ff":
		return 0, w.FlushFragment()
	case op == "fl":
		return 0, w.Flush()
	case op == "df":
		w.DisableFlush()
		return 0, nil
	case op[0] == 'g':
		n, _ := strconv.Atoi(op[1:])
		w.Grow(n)
		return 0, nil
	case op[0] == 'x':
		w.SetExtensions(mkExts(op[1:])...)
		return 0, nil
	case strings.HasPrefix(op, "rs"):
		p := strings.Split(op[2:], "/")
		st, _ := strconv.Atoi(p[0])
		o, _ := strconv.Atoi(p[1])
		w.Reset(dst, ws.State(st), ws.OpCode(o))
		return 0, nil
	case strings.HasPrefix(op, "ro"):
		o, _ := strconv.Atoi(op[2:])
		w.ResetOp(ws.OpCode(o))
		return 0, nil
	}
	p := strings.Split(op[1:], "/")
	n, _ := strconv.Atoi(p[0])
	seed, _ := strconv.Atoi(p[1])
	data := patBytes(n, seed)
	switch op[0] {
	case 'w':
		return w.Write(data)
	case 't':
		return w.WriteThrough(data)
	case 'r':
		spec := strings.ReplaceAll(p[2], "+", ",")
		if len(p) > 3 { // r<n>/<seed>/<spec>/<dress>: the source behind another concrete reader type (io.WriterTo ...)
			spec = p[3] + "/" + spec
		}
		n64, err := w.ReadFrom(newChunkReader(data, spec, "eof").R())
		return int(n64), err
	}
	return 0, fmt.Errorf("bad op %q", op)
}

func obsTok(os []wobs) string {
	if len(os) == 0 {
		return "-"
	}
	var parts []string
	for _, o := range os {
		parts = append(parts, o.tok())
	}
	return strings.Join(parts, ",")
}

// WH: a history on one Writer
func runWH(c *ctx, kind string, cfg wcfg, ops string, failAt string) {
	dst := newRecWriter()
	dst.setFail(failAt)
	w, pan := newWriter(dst, cfg)
	if pan {
		c.emit("%s %s %s %s -> ctorpanic - -", kind, cfg.tok(), ops, failAt)
		return
	}
	raw := w.VerifRawLen()
	os := runWops(w, dst, strings.Split(ops, ","))
	c.emit("%s %s %s %s -> %s %s %d.%d", kind, cfg.tok(), ops, failAt, obsTok(os), hxList(dst.calls), raw, w.VerifBufLen())
}

// WC: ControlWriter: writes then Flush
func runWC(c *ctx, state, op byte, ctor string, writes string) {
	dst := newRecWriter()
	var cw *wsutil.ControlWriter
	pan := false
	func() {
		defer func() {
			if recover() != nil {
				pan = true
			}
		}()
		if ctor == "n" {
			cw = wsutil.NewControlWriter(dst, ws.State(state), ws.OpCode(op))
		} else {
			n, _ := strconv.Atoi(ctor[1:])
			cw = wsutil.NewControlWriterBuffer(dst, ws.State(state), ws.OpCode(op), make([]byte, n))
		}
	}()
	if pan {
		c.emit("WC %d %d %s %s -> ctorpanic - -", state, op, ctor, writes)
		return
	}
	var outs []string
	for _, wtok := range strings.Split(writes, ",") {
		p := strings.Split(wtok, "/")
		n, _ := strconv.Atoi(p[0])
		seed, _ := strconv.Atoi(p[1])
		k, err := cw.Write(patBytes(n, seed))
		outs = append(outs, fmt.Sprintf("%d.%s.%d", k, werrClass(err), len(dst.calls)))
	}
	err := cw.Flush()
	c.emit("WC %d %d %s %s -> %s %s %s", state, op, ctor, writes, strings.Join(outs, ","), werrClass(err), hxList(dst.calls))
}

// W18: history h1, Reset (or Put/Get through the pool), history h2 — against a fresh writer running h2
func runW18(c *ctx, cfg wcfg, h1 string, failAt string, mode string, st2, op2 byte, h2 string) {
	dst1 := newRecWriter()
	if failAt != "-" {
		dst1.failAt, _ = strconv.Atoi(failAt)
	}
	a, pan := newWriter(dst1, cfg)
	if pan {
		return
	}
	runWops(a, dst1, strings.Split(h1, ","))
	dstA := newRecWriter()
	var fresh *wsutil.Writer
	dstB := newRecWriter()
	ok := true
	poolSize := 0
	func() {
		defer func() {
			if recover() != nil {
				ok = false
			}
		}()
		switch mode {
		case "reset":
			a.Reset(dstA, ws.State(st2), ws.OpCode(op2))
			fresh = wsutil.NewWriterBuffer(dstB, ws.State(st2), ws.OpCode(op2), make([]byte, a.VerifRawLen()))
		case "pool":
			size := a.Size()
			poolSize = size
			wsutil.PutWriter(a)
			a = wsutil.GetWriter(dstA, ws.State(st2), ws.OpCode(op2), size)
			fresh = wsutil.NewWriterBuffer(dstB, ws.State(st2), ws.OpCode(op2), make([]byte, a.VerifRawLen()))
		case "resetop":
			// documented: drops unflushed fragments, keeps extensions and the flush mode
			a.ResetOp(ws.OpCode(op2))
			dstA = dst1
			base := len(dst1.calls)
			fresh = wsutil.NewWriterBuffer(dstB, a.VerifState(), ws.OpCode(op2), make([]byte, a.VerifRawLen()))
			if a.VerifNoFlush() {
				fresh.DisableFlush()
			}
			if cfg.exts != "-" && a.VerifNExt() > 0 {
				fresh.SetExtensions(mkExts(cfg.exts)...)
			}
			dstA = &recWriter{failAt: -1}
			_ = base
			a.Reset(dstA, a.VerifState(), ws.OpCode(op2)) // not used: see below
		}
	}()
	if !ok || mode == "resetop" {
		// resetop is compared through plain WH histories containing "ro" ops against the model
		if !ok {
			// a fresh writer over a buffer of the same size must then panic as well
			// (buffer too small for the new side's header): same behaviour
			freshPanics := false
			func() {
				defer func() {
					if recover() != nil {
						freshPanics = true
					}
				}()
				if mode == "pool" {
					// the fresh counterpart of a put/get cycle is GetWriter on its own (tiny sizes: the
					// buffer cannot hold the new side's header, with or without the cycle)
					wsutil.GetWriter(newRecWriter(), ws.State(st2), ws.OpCode(op2), poolSize)
				} else {
					wsutil.NewWriterBuffer(newRecWriter(), ws.State(st2), ws.OpCode(op2), make([]byte, a.VerifRawLen()))
				}
			}()
			res := "panic"
			if freshPanics {
				res = "bothpanic"
			}
			c.emit("W18 %s %s %s %s %d.%d %s -> %s - - -", cfg.tok(), h1, failAt, mode, st2, op2, h2, res)
		}
		return
	}
	oa := runWops(a, dstA, strings.Split(h2, ","))
	ob := runWops(fresh, dstB, strings.Split(h2, ","))
	c.emit("W18 %s %s %s %s %d.%d %s -> %s %s %s %s", cfg.tok(), h1, failAt, mode, st2, op2, h2,
		obsTok(oa), hxList(dstA.calls), obsTok(ob), hxList(dstB.calls))
}

func init() {
	props["C06"] = runC06
	props["C08"] = runC08
	props["C18"] = runC18
	runC13W = runC13Wimpl
	runC16W = runC16Wimpl
	for _, k := range []string{"WH", "WHF", "WHX"} {
		kind := k
		replayers[kind] = func(c *ctx, in []string) { runWH(c, kind, parseWcfg(in[0]), in[1], in[2]) }
	}
	replayers["WC"] = func(c *ctx, in []string) {
		st, _ := strconv.Atoi(in[0])
		op, _ := strconv.Atoi(in[1])
		runWC(c, byte(st), byte(op), in[2], in[3])
	}
	replayers["W18"] = func(c *ctx, in []string) {
		p := strings.Split(in[4], ".")
		st, _ := strconv.Atoi(p[0])
		op, _ := strconv.Atoi(p[1])
		runW18(c, parseWcfg(in[0]), in[1], in[2], in[3], byte(st), byte(op), in[5])
	}
}

// ---------------------------------------------------------------- generators
var writerCtors = []string{"d0", "s1", "s2", "s124", "s125", "s126", "s127", "s65534", "s65535", "s65536", "s65537",
	"b3", "b7", "b128", "b129", "b130", "b131", "b132", "b133", "b65538", "b65540", "b65544", "b65548", "u16", "u200", "u70000"}

func (c *ctx) wopAlphabet(avail, size int, withGrow bool) []string {
	seed := c.rng.Intn(200)
	sz := func(n int) string {
		if n < 0 {
			n = 0
		}
		return strconv.Itoa(n) + "/" + strconv.Itoa(seed)
	}
	ops := []string{"w" + sz(0), "w" + sz(1), "w" + sz(avail-1), "w" + sz(avail), "w" + sz(avail+1), "w" + sz(2*size), "w" + sz(3*size+1),
		"t" + sz(0), "t" + sz(size+3), "r" + sz(avail+2) + "/-", "r" + sz(2*size+1) + "/" + map[bool]string{true: "r3", false: "r4099"}[2*size+1 < 3000], "r" + sz(0) + "/-", "ff", "fl", "fl"}
	if withGrow {
		ops = append(ops, "g"+strconv.Itoa(1+c.rng.Intn(3*size+1)), "g1", "df")
	}
	return ops
}

func (c *ctx) randHistory(cfg wcfg, depth int, withGrow bool) string {
	// sizes relative to the CURRENT buffer need a live writer: simulate with a scratch writer
	dst := newRecWriter()
	w, pan := newWriter(dst, cfg)
	if pan {
		return "fl"
	}
	var ops []string
	size0 := w.Size()
	budget := 40000
	if c.thor {
		budget = 300000
	}
	if size0 > 60000 {
		budget = 200000
	}
	for i := 0; i < depth; i++ {
		size, avail := w.Size(), w.Available()
		if size > 70000 {
			size = 70000
		}
		if size > 2*size0+64 && size > 2200 { // grown buffers: keep relative sizes moderate
			size = 2200
			if avail > size {
				avail = size
			}
		}
		al := c.wopAlphabet(avail, size, withGrow)
		op := al[c.rng.Intn(len(al))]
		if op[0] == 'w' || op[0] == 't' || op[0] == 'r' {
			n, _ := strconv.Atoi(strings.Split(op[1:], "/")[0])
			if n > budget {
				continue
			}
			budget -= n
		}
		if op[0] == 'g' {
			n, _ := strconv.Atoi(op[1:])
			if n > 100000 {
				continue
			}
		}
		ops = append(ops, op)
		func() {
			defer func() { recover() }()
			applyWop(w, dst, op)
		}()
	}
	ops = append(ops, "fl")
	return strings.Join(ops, ",")
}

func runC06(c *ctx) {
	depth := 4
	nrand := 8
	if c.thor {
		depth = 6
		nrand = 60
	}
	for _, ctor := range writerCtors {
		for _, side := range []byte{1, 2} {
			for _, op := range []byte{1, 2} {
				cfg := wcfg{ctor, side, op, "-"}
				big := strings.HasPrefix(ctor, "s655") || strings.HasPrefix(ctor, "b655") || ctor == "u70000" || ctor == "d0"
				k := nrand
				if big && c.thor {
					k = 12 // big buffers: each history is 100-400 KB of observation; 12 x 4 per constructor
				}
				if big && !c.thor {
					k = 0
					if (int(side)+int(op))%2 == 0 && op == 1 {
						k = 1
					}
				}
				for j := 0; j < k; j++ {
					runWH(c, "WH", cfg, c.randHistory(cfg, 1+c.rng.Intn(depth), j%3 == 0), "-")
				}
				if !big {
					runWH(c, "WH", cfg, c.randHistory(cfg, 20+c.rng.Intn(40), true), "-")
				}
			}
		}
	}
	// with a MessageState extension (C13 send side)
	runC13Wimpl(c)
	// two extensions that both want the compression bit: the second one objects
	for _, side := range []byte{1 | 4, 2 | 4} {
		runWH(c, "WHX", wcfg{"u16", side, 1, "11"}, "w100/3,fl", "-")
		runWH(c, "WHX", wcfg{"u64", side, 2, "11"}, "w5/3,fl,w3/1,fl", "-")
	}
}

func runC13Wimpl(c *ctx) {
	for _, ctor := range []string{"s1", "s5", "s125", "s126", "b20", "b133", "d0"} {
		for _, side := range []byte{1 | 4, 2 | 4} {
			for _, exts := range []string{"1", "0"} {
				for j := 0; j < 6; j++ {
					cfg := wcfg{ctor, side, byte(1 + j%2), exts}
					runWH(c, "WHX", cfg, c.randHistory(cfg, 2+c.rng.Intn(6), false), "-")
				}
			}
		}
	}
}

func runC16Wimpl(c *ctx) {
	n := 6
	if c.thor {
		n = 40
	}
	for _, ctor := range []string{"s1", "s7", "s125", "s126", "b20", "b133", "s200"} {
		for _, side := range []byte{1, 2} {
			for j := 0; j < n; j++ {
				cfg := wcfg{ctor, side, 2, "-"}
				h := c.randHistory(cfg, 4+c.rng.Intn(8), j%2 == 0) + ",w5/1,fl,t3/2,ff,fl"
				// every failing destination-write index
				dst := newRecWriter()
				w, _ := newWriter(dst, cfg)
				runWops(w, dst, strings.Split(h, ","))
				for k := 0; k <= len(dst.calls); k++ {
					runWH(c, "WHF", cfg, h, strconv.Itoa(k))
				}
			}
		}
	}
}

func runC08(c *ctx) {
	// control writer: all splits of totals around the limit into <= 3 writes (sampled in quick)
	for _, side := range []byte{1, 2} {
		for _, op := range []byte{8, 9, 10} {
			for _, ctor := range []string{"n", "b131", "b135", "b300", "b20", "b7"} {
				for total := 118; total <= 260; total += 1 + c.rng.Intn(3) {
					a := c.rng.Intn(total + 1)
					b := c.rng.Intn(total - a + 1)
					ws := fmt.Sprintf("%d/1,%d/2,%d/3", a, b, total-a-b)
					runWC(c, side, op, ctor, ws)
				}
				for _, ws := range []string{"0/1", "125/1", "126/1", "100/1,100/2", "125/1,1/2", "1/1,124/2,1/3", "60/1,60/2,60/3", "200/1,10/2"} {
					runWC(c, side, op, ctor, ws)
				}
			}
		}
	}
	runC08H(c)
}

func runC18(c *ctx) {
	n := 40
	if c.thor {
		n = 600
	}
	ctors := []string{"s1", "s7", "s125", "s126", "b20", "b133", "s200", "s4000", "d0"}
	for j := 0; j < n; j++ {
		cfg := wcfg{ctors[c.rng.Intn(len(ctors))], byte(1 + c.rng.Intn(2)), byte(1 + c.rng.Intn(2)), []string{"-", "-", "1", "0"}[c.rng.Intn(4)]}
		if cfg.exts != "-" {
			cfg.state |= 4
		}
		h1 := c.randHistory(cfg, 1+c.rng.Intn(8), true)
		if c.rng.Intn(2) == 0 { // leave unflushed data behind
			h1 = strings.TrimSuffix(h1, ",fl")
			if h1 == "fl" {
				h1 = "w3/1"
			}
		}
		fail := "-"
		if c.rng.Intn(3) == 0 {
			fail = strconv.Itoa(c.rng.Intn(4))
		}
		st2 := byte(1 + c.rng.Intn(2))
		cfg2 := wcfg{"u64", st2, byte(1 + c.rng.Intn(2)), "-"}
		h2 := c.randHistory(cfg2, 1+c.rng.Intn(6), j%4 == 0)
		runW18(c, cfg, h1, fail, []string{"reset", "reset", "pool"}[c.rng.Intn(3)], st2, cfg2.op, h2)
		if j%3 == 0 {
			// writers whose payload size is a power of two are really kept by the pool: PutWriter, then
			// GetWriter of the same class hands the SAME object back, reset
			pc := cfg
			pc.ctor = []string{"s128", "s256", "s4096", "s65536"}[(j/3)%4]
			runW18(c, pc, c.randHistory(pc, 1+c.rng.Intn(6), j%2 == 0), fail, "pool", st2, cfg2.op, h2)
		}
		// the quick opcode reset is covered by histories containing "ro"
		runWH(c, "WH", cfg, strings.TrimSuffix(h1, ",fl")+",ro"+strconv.Itoa(int(cfg2.op))+","+h2, "-")
	}
	runC18R(c)
}
