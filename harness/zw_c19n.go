package main

// C19N: interference through the shared pools made DETERMINISTIC. Every user callback of a handshake is a point where
// other sessions of the process may run; here a second, complete pair of sessions B (one server-side Upgrade, one
// client-side Dialer.Upgrade, default buffer sizes, i.e. the same pool classes, different bytes of the same layout) runs
// INSIDE each callback of session A in turn. Session A must return the results and write the bytes it does alone.
// A uses the zero-copy selectors the API documents (ProtocolCustom returning an unsafe string, ExtensionCustom returning
// httphead.ParseOptions slices: "valid until Upgrade returns") as well as the copying ones.
//
//   C19N <side> <hook> <selectors> -> <same 0|1> <solo result> <nested result> <B ok 0|1>

import (
	"bytes"
	"fmt"
	"io"
	"io/ioutil"
	"net/url"
	"strings"
	"unsafe"

	"github.com/gobwas/httphead"
	"github.com/gobwas/ws"
)

func init() {
	old := props["C19"]
	props["C19"] = func(c *ctx) {
		if old != nil {
			old(c)
		}
		c19Nested(c)
	}
	old17 := props["C17"]
	props["C17"] = func(c *ctx) {
		if old17 != nil {
			old17(c)
		}
		c19Nested(c)
	}
	replayers["C19N"] = func(c *ctx, in []string) { c19N(c, in[0], in[1], in[2]) }
}

var c19nServerHooks = []string{"none", "onrequest", "onhost", "onheader", "onbefore", "protocol", "extension", "negotiate", "header"}
var c19nClientHooks = []string{"none", "onheader", "header", "onstatuserror", "afterreturn"}

func c19Nested(c *ctx) {
	for _, sel := range []string{"custom", "copy", "negotiate"} {
		for _, h := range c19nServerHooks {
			c19N(c, "server", h, sel)
		}
	}
	for _, h := range c19nClientHooks {
		c19N(c, "client", h, "-")
	}
}

func c19nRequest(tag string) []byte {
	// same layout for every tag: only the letters differ
	t := strings.Repeat(tag, 4)
	return []byte("GET /" + t + " HTTP/1.1\r\nHost: " + t + ".example\r\nUpgrade: websocket\r\nConnection: Upgrade\r\n" +
		"Sec-WebSocket-Version: 13\r\nSec-WebSocket-Key: dGhlIHNhbXBsZSBub25jZQ==\r\n" +
		"Sec-WebSocket-Protocol: " + t + "1, " + t + "2\r\n" +
		"Sec-WebSocket-Extensions: " + t + "x; p=" + t + ", " + t + "y; q=" + tag + "\r\n" +
		"X-Tag: " + t + "\r\n\r\n")
}

func c19nResponse(tag string, status string) []byte {
	t := strings.Repeat(tag, 4)
	if status != "101" {
		return []byte("HTTP/1.1 " + status + " Nope\r\nContent-Length: 4\r\nX-Tag: " + t + "\r\n\r\n" + t)
	}
	return []byte("HTTP/1.1 101 Switching Protocols\r\nUpgrade: websocket\r\nConnection: Upgrade\r\n" +
		"Sec-WebSocket-Accept: @@ACCEPT@@\r\nSec-WebSocket-Protocol: " + t + "1\r\n" +
		"Sec-WebSocket-Extensions: " + t + "x; p=" + t + "\r\nX-Tag: " + t + "\r\n\r\n\x81\x04" + t)
}

func c19nDial(tag, status string, hook func(string)) string {
	t := strings.Repeat(tag, 4)
	conn := &scriptConn{template: c19nResponse(tag, status), tail: io.EOF}
	u, _ := url.ParseRequestURI("ws://" + t + ".example/" + t)
	exts, _ := httphead.ParseOptions([]byte(t+"x; p="+t+", "+t+"y"), nil)
	var seen []string
	d := ws.Dialer{
		Protocols:  []string{t + "1", t + "2"},
		Extensions: exts,
		OnHeader: func(k, v []byte) error {
			seen = append(seen, string(k)+"="+string(v))
			hook("onheader")
			return nil
		},
		Header: ws.HandshakeHeaderFunc(func(w io.Writer) (int64, error) {
			hook("header")
			n, err := io.WriteString(w, "X-Tag: "+t+"\r\n")
			return int64(n), err
		}),
		OnStatusError: func(status int, reason []byte, resp io.Reader) {
			hook("onstatuserror")
			b := make([]byte, 512)
			n, _ := resp.Read(b)
			seen = append(seen, fmt.Sprintf("status=%d/%s/%s", status, reason, hx(b[:n])))
		},
	}
	br, hs, err := d.Upgrade(conn, u)
	hook("afterreturn") // other sessions run between the return of Upgrade and the caller reading the early frames
	var left []byte
	if br != nil {
		// everything the server sent behind the response: through the returned reader up to the end of the stream
		left, _ = ioutil.ReadAll(br)
		ws.PutReader(br)
	}
	req := bytes.Replace(conn.in.Bytes(), conn.nonce, []byte("KEY"), 1)
	return fmt.Sprintf("%s|%s|%s|%s|%s|%s", dialErrClass(err), hs.Protocol, encOpts(hs.Extensions), hx(left), hx(req), strings.Join(seen, ","))
}

func c19nUpgrade(tag, sel string, hook func(string)) string {
	sc := &chunkConn{chunks: [][]byte{c19nRequest(tag)}, tail: io.EOF}
	t := strings.Repeat(tag, 4)
	var seen []string
	u := ws.Upgrader{
		OnRequest: func(uri []byte) error { seen = append(seen, "uri="+string(uri)); hook("onrequest"); return nil },
		OnHost:    func(h []byte) error { seen = append(seen, "host="+string(h)); hook("onhost"); return nil },
		OnHeader:  func(k, v []byte) error { seen = append(seen, string(k)+"="+string(v)); hook("onheader"); return nil },
		OnBeforeUpgrade: func() (ws.HandshakeHeader, error) {
			hook("onbefore")
			return ws.HandshakeHeaderString("X-Before: " + t + "\r\n"), nil
		},
		Header: ws.HandshakeHeaderFunc(func(w io.Writer) (int64, error) {
			hook("header")
			n, err := io.WriteString(w, "X-Tag: "+t+"\r\n")
			return int64(n), err
		}),
	}
	switch sel {
	case "custom":
		u.ProtocolCustom = func(field []byte) (string, bool) {
			hook("protocol")
			i := bytes.IndexByte(field, ',')
			if i < 0 {
				i = len(field)
			}
			tok := bytes.TrimSpace(field[:i])
			return *(*string)(unsafe.Pointer(&tok)), true // zero copy: valid until Upgrade returns
		}
		u.ExtensionCustom = func(field []byte, dst []httphead.Option) ([]httphead.Option, bool) {
			hook("extension")
			return httphead.ParseOptions(field, dst) // zero copy
		}
	case "copy":
		u.Protocol = func(p []byte) bool { hook("protocol"); return true }
		u.Extension = func(o httphead.Option) bool { hook("extension"); return true }
	case "negotiate":
		u.Protocol = func(p []byte) bool { hook("protocol"); return true }
		u.Negotiate = func(o httphead.Option) (httphead.Option, error) { hook("negotiate"); return o, nil } // echo, zero copy
	}
	hs, err := u.Upgrade(sc)
	return fmt.Sprintf("%s|%s|%s|%s|%s", upgradeErrClass(err), hs.Protocol, encOpts(hs.Extensions), hx(sc.out.Bytes()), strings.Join(seen, ","))
}

func c19N(c *ctx, side, hookName, sel string) {
	run := func(hook func(string)) (out string) {
		defer func() {
			if r := recover(); r != nil {
				out = "panic"
			}
		}()
		if side == "server" {
			return c19nUpgrade("a", sel, hook)
		}
		status := "101"
		if hookName == "onstatuserror" {
			status = "403"
		}
		return c19nDial("a", status, hook)
	}
	soloBU := c19nUpgrade("z", "custom", func(string) {})
	soloBD := c19nDial("z", "101", func(string) {})
	solo := run(func(string) {})
	bOK := true
	fired := false
	nested := run(func(at string) {
		if at != hookName || fired {
			return
		}
		fired = true
		// a complete other pair of sessions, same pool classes, other bytes
		gotU := c19nUpgrade("z", "custom", func(string) {})
		gotD := c19nDial("z", "101", func(string) {})
		if gotU != soloBU || gotD != soloBD {
			bOK = false
		}
	})
	c.emit("C19N %s %s %s -> %d %s %s %d", side, hookName, sel, b2i(solo == nested), strings.ReplaceAll(solo, " ", "_"), strings.ReplaceAll(nested, " ", "_"), b2i(bOK))
}
