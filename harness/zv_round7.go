package main

// Cases added after the seventh round of seeded changes (DESIGN 14.9).

import (
	"bufio"
	"bytes"
	"compress/flate"
	"context"
	"io"
	"io/ioutil"
	"net"
	"strconv"
	"strings"
	"time"
	"unsafe"

	"github.com/gobwas/httphead"
	"github.com/gobwas/ws"
	"github.com/gobwas/ws/wsflate"
	"github.com/gobwas/ws/wsutil"
)

func init() {
	r7Wrap := func(id string, extra func(*ctx)) {
		old := props[id]
		props[id] = func(c *ctx) {
			if old != nil {
				old(c)
			}
			extra(c)
		}
	}
	r7Wrap("C01", r7C01)
	r7Wrap("C04", r7C01)
	for id, apis := range map[string][]string{
		"C01": {"writeheader", "writeframe"},
		"C02": {"cipherwriter"},
		"C06": {"writemessage", "writer", "writerreadfrom", "writethrough"},
		"C08": {"control", "ping"},
	} {
		apis := apis
		r7Wrap(id, func(c *ctx) { r7DW(c, apis) })
	}
	replayers["DW"] = func(c *ctx, in []string) {
		var side, n int
		side, _ = strconv.Atoi(in[2])
		n, _ = strconv.Atoi(in[3])
		dw(c, in[0], in[1], byte(side), n)
	}
	r7Wrap("C02", r7C02)
	replayers["C02WV"] = func(c *ctx, in []string) { c02WV(c, unhx(in[1]), key4(in[2]), in[3]) }
	r7Wrap("C03", r7C03)
	replayers["C03N"] = func(c *ctx, in []string) {
		code, _ := strconv.Atoi(in[0])
		rl, _ := strconv.Atoi(in[1])
		c03N(c, uint16(code), rl)
	}
	r7Wrap("C05", r7C05)
	r7Wrap("C15", r7C05)
	r7Wrap("C07", r7C07)
	r7Wrap("C04", r7C07)
	r7Wrap("C19", r7C19Close)
	r7Wrap("C09", r7H09W)
	replayers["H09W"] = func(c *ctx, in []string) {
		h09Wrap = true
		defer func() { h09Wrap = false }()
		replayers["H09"](c, in)
	}
	r7Wrap("C09", r7Statuses)
	r7Wrap("C11", r7ManyHeaders)
	r7Wrap("C11", r7DBUF)
	r7Wrap("C16", r7DBUF)
	replayers["DBUF"] = func(c *ctx, in []string) {
		a, _ := strconv.Atoi(in[0])
		b, _ := strconv.Atoi(in[1])
		d, _ := strconv.Atoi(in[2])
		dbuf(c, a, b, d)
	}
	r7Wrap("C12", r7C12Close)
	r7Wrap("C14", r7WindowBits)
	r7Wrap("C15", r7WindowBits)
	r7Wrap("C16", r7HSWLong)
	r7Wrap("C19", c19D)
	r7Wrap("C17", r7C17X)
	r7Wrap("C10", r7C17X)
	replayers["C17HX"] = func(c *ctx, in []string) {
		pick, _ := strconv.Atoi(in[3])
		bs, _ := strconv.Atoi(in[4])
		pad, _ := strconv.Atoi(in[5])
		var protos []string
		if in[1] != "-" {
			for _, p := range strings.Split(in[1], ",") {
				protos = append(protos, string(unhx(p)))
			}
		}
		c17HX(c, c17HS{path: in[0], protos: protos, exts: string(unhx(in[2])), pick: pick, bufSize: bs, pad: pad})
	}
	r7Wrap("C10", c19D)
	replayers["C19D"] = func(c *ctx, in []string) { c19D(c) }
	// r7-C17b: a response accepting TWO parameterised extensions in one header line (and three, and repeated names)
	respExtLines = append(respExtLines,
		[]string{"foo; a=1; mode=fast, bar; x=22; y=xyz"}, []string{"bar; x=2; y, foo; a=1"},
		[]string{"foo; alpha=1, bar; x=2, foo; beta=3"}, []string{"foo; a=1; b=2; c=3, bar; longer-parameter-name=longer-value"})
}

// r7-C01: one long-lived Reader decoding frames of EVERY length form one after the other, in every order: a scratch
// area that keeps bytes of an earlier (longer) length form must not leak into a later header
func r7C01(c *ctx) {
	sizes := []int{65536, 300, 5, 70000, 126, 0, 65535, 125, 65537, 127, 1, 66000, 4000}
	rots := 4
	if !c.thor {
		sizes = []int{65536, 300, 5, 126, 0, 65535, 127}
		rots = 1
	}
	for _, side := range []byte{1, 2} {
		for rot := 0; rot < rots; rot++ {
			var fs []sframe
			for i := range sizes {
				n := sizes[(i+rot*3)%len(sizes)]
				f := c.mkFrame(side, true, 2, 0)
				f.payload = patBytes(n, i+1)
				fs = append(fs, f)
			}
			cfg := rcfg{state: side, cb: 1, chk: true}
			runRD(c, "RD", cfg, fs, "-", []string{"-", "r4096", "r7", "B4096/r4096"}[rot], "eof", "4096")
			if c.thor {
				runRM(c, "RM", side, fs, "-", "-", "eof")
			}
		}
	}
}

// ---------------------------------------------------------------------------------------------------------------
// DW: the concrete type of the DESTINATION must not change the bytes. The same operation is run against a plain
// recording writer and against the same recorder behind another concrete writer type - a *bufio.Writer (fresh, or one
// that has been used before so that its buffer holds stale bytes), a *bytes.Buffer with stale capacity, a writer that
// also offers WriteString / WriteByte / ReadFrom - and the bytes that arrive (client frames unmasked, the random key
// does not matter) must be the same. What the plain run sends is judged by the model-based kinds; this kind carries
// their verdict over to the other destination types (r7-C01b: WriteHeader encoding into bufio's AvailableBuffer OR-ed
// its flag bits into a stale byte).
//   DW <api> <dress> <side> <n> -> <same 0|1> <plain> <dressed>

type richWriter struct{ rec *recWriter }

func (w richWriter) Write(p []byte) (int, error)       { return w.rec.Write(p) }
func (w richWriter) WriteString(s string) (int, error) { return w.rec.Write([]byte(s)) }
func (w richWriter) WriteByte(b byte) error            { _, err := w.rec.Write([]byte{b}); return err }
func (w richWriter) ReadFrom(r io.Reader) (int64, error) {
	b, err := ioutil.ReadAll(r)
	w.rec.Write(b)
	return int64(len(b)), err
}

var dwDresses = []string{"bufw16", "bufw64", "bufw4096", "bufw4096dirty", "bufw64dirty", "bytesbuf", "bytesbufdirty", "rich"}

func dwDress(dress string, rec *recWriter) (io.Writer, func()) {
	switch {
	case strings.HasPrefix(dress, "bufw"):
		d := strings.TrimPrefix(dress, "bufw")
		dirty := strings.HasSuffix(d, "dirty")
		n, _ := strconv.Atoi(strings.TrimSuffix(d, "dirty"))
		bw := bufio.NewWriterSize(ioutil.Discard, n)
		if dirty {
			bw.Write(bytes.Repeat([]byte{0xff}, n+n/2)) // the buffer has wrapped and holds stale bytes
			bw.Flush()
		}
		bw.Reset(rec)
		return bw, func() { bw.Flush() }
	case strings.HasPrefix(dress, "bytesbuf"):
		var b bytes.Buffer
		if strings.HasSuffix(dress, "dirty") {
			b.Write(bytes.Repeat([]byte{0xff}, 300))
			b.Reset()
		}
		return &b, func() { rec.Write(b.Bytes()) }
	}
	if dress == "reentrant" {
		return reentrantWriter{rec}, func() {}
	}
	return richWriter{rec}, func() {}
}

func dw(c *ctx, api, dress string, side byte, n int) {
	st := ws.State(side)
	p := patBytes(n, n%7+int(side))
	run := func(dst io.Writer) string {
		res := "ok"
		func() {
			defer func() {
				if r := recover(); r != nil {
					res = "panic"
				}
			}()
			h := ws.Header{Fin: n%2 == 0, Rsv: byte(n % 8), OpCode: ws.OpCode(1 + n%2), Length: int64(n), Masked: st.ClientSide()}
			if h.Masked {
				h.Mask = [4]byte{9, byte(n), 7, 5}
			}
			switch api {
			case "writeheader":
				// three headers in a row: the second and third land where earlier bytes were
				ws.WriteHeader(dst, ws.Header{Fin: true, OpCode: ws.OpPing})
				ws.WriteHeader(dst, h)
				ws.WriteHeader(dst, ws.Header{Fin: false, OpCode: ws.OpText, Length: int64(n), Masked: h.Masked, Mask: h.Mask})
			case "writeframe":
				ws.WriteFrame(dst, ws.NewPingFrame([]byte("hi")))
				f := ws.Frame{Header: h, Payload: append([]byte(nil), p...)}
				ws.WriteFrame(dst, f)
				ws.WriteFrame(dst, ws.NewFrame(ws.OpText, false, p))
			case "writemessage":
				wsutil.WriteMessage(dst, st, ws.OpBinary, p)
				wsutil.WriteMessage(dst, st, ws.OpText, []byte("tail"))
			case "writer":
				w := wsutil.NewWriterSize(dst, st, ws.OpText, 64)
				w.Write(p)
				w.Flush()
				w.Write([]byte("second"))
				w.Flush()
			case "writerreadfrom":
				w := wsutil.NewWriterSize(dst, st, ws.OpBinary, 64)
				w.ReadFrom(bytes.NewReader(p))
				w.Flush()
			case "writethrough":
				w := wsutil.NewWriter(dst, st, ws.OpBinary)
				w.WriteThrough(p)
				w.Flush()
			case "control":
				cw := wsutil.NewControlWriter(dst, st, ws.OpPing)
				q := p
				if len(q) > 125 {
					q = q[:125]
				}
				cw.Write(q)
				cw.Flush()
			case "cipherwriter":
				cw := wsutil.NewCipherWriter(dst, [4]byte{1, 2, 3, 4})
				cw.Write(p[:len(p)/3])
				io.WriteString(cw, string(p[len(p)/3:2*len(p)/3]))
				cw.Write(p[2*len(p)/3:])
			case "ping":
				q := p
				if len(q) > 125 {
					q = q[:125]
				}
				hd := ws.Header{Fin: true, OpCode: ws.OpPing, Length: int64(len(q))}
				wsutil.ControlHandler{Src: bytes.NewReader(q), Dst: dst, State: st, DisableSrcCiphering: true}.HandlePing(hd)
			}
		}()
		return res
	}
	plain := newRecWriter()
	r1 := run(plain)
	rec := newRecWriter()
	dst, flush := dwDress(dress, rec)
	r2 := run(dst)
	flush()
	norm := func(b []byte, r string) string {
		if api == "cipherwriter" {
			return hx(b) + "/" + r
		}
		return c19IOFrames(b) + "/" + r
	}
	a, b := norm(plain.all(), r1), norm(rec.all(), r2)
	c.emit("DW %s %s %d %d -> %d %s %s", api, dress, side, n, b2i(a == b), a, b)
}

func r7DW(c *ctx, apis []string) {
	k := 0
	for _, api := range apis {
		for _, dress := range dwDresses {
			for _, side := range []byte{1, 2} {
				for _, n := range []int{0, 5, 125, 126, 300, 5000, 70000} {
					k++
					if !c.thor && n >= 5000 && k%3 != 0 {
						continue
					}
					dw(c, api, dress, side, n)
				}
			}
		}
	}
}

// r7-C02: the mask writer fed through io.WriteString (an io.StringWriter fast path must advance the key position like
// Write does). C02WV <via> <C02W line>: pieces are written alternately with Write and io.WriteString
func c02WV(c *ctx, p []byte, key [4]byte, splits string) {
	w := newRecWriter()
	cw := wsutil.NewCipherWriter(w, key)
	sizes := intsSpec(splits)
	rest := append([]byte(nil), p...)
	intact := true
	for i := 0; len(rest) > 0 || i == 0; i++ {
		k := sizes[i%len(sizes)]
		if k > len(rest) {
			k = len(rest)
		}
		var n int
		var err error
		if i%2 == 0 {
			n, err = io.WriteString(cw, string(rest[:k]))
		} else {
			n, err = cw.Write(rest[:k])
		}
		if n != k || err != nil {
			intact = false
		}
		rest = rest[k:]
		if len(rest) == 0 {
			break
		}
	}
	c.emit("C02WV ws %s %s %s -> %s %d 1", hx(p), hx(key[:]), splits, hxList(w.calls), b2i(intact))
}

func r7C02(c *ctx) {
	for _, n := range []int{1, 3, 5, 7, 8, 9, 17, 40, 100, 1000} {
		for _, sp := range []string{"1", "3", "5,2", "7,1,9", "16", "2,3"} {
			var key [4]byte
			c.rng.Read(key[:])
			c02WV(c, c.payload(n), key, sp)
		}
	}
}

// r7-C03: a close body built by the library belongs to the caller: changing it (masking the frame in place, writing
// into it) must not change what the library builds next. C03N <code> <reasonlen> -> <code parsed from the SECOND body>
// <its reason> <len>
func c03N(c *ctx, code uint16, rl int) {
	reason := strings.Repeat("r", rl)
	b1 := ws.NewCloseFrameBody(ws.StatusCode(code), reason)
	f := ws.MaskFrameInPlace(ws.NewCloseFrame(b1))
	for i := range b1 {
		b1[i] ^= 0x5a
	}
	_ = f
	mine := append([]byte(nil), b1...) // what the owner of the first body holds now
	b2 := ws.NewCloseFrameBody(ws.StatusCode(code), reason)
	pc, pr := ws.ParseCloseFrameData(b2)
	// ... and building another body must not touch the first one (two results must not share memory)
	intact := bytes.Equal(b1, mine)
	c.emit("C03N %d %d -> %d %s %d %d", code, rl, pc, hx([]byte(pr)), len(b2), b2i(intact))
}

func r7C03(c *ctx) {
	for code := 990; code <= 1020; code++ {
		for _, rl := range []int{0, 1, 5} {
			c03N(c, uint16(code), rl)
		}
	}
	for _, code := range []uint16{0, 3000, 4999, 65535} {
		c03N(c, code, 0)
	}
	// reasons longer than a control frame can carry are still judged as a whole (the function does not know about
	// frames): invalid bytes behind offset 123, characters straddling it
	for _, n := range []int{120, 122, 123, 124, 125, 130, 200, 1000} {
		ok := []byte(strings.Repeat("a", n))
		c03C(c, 1000, ok)
		for _, at := range []int{n - 1, n - 2, n / 2, 122, 123, 124} {
			if at < 0 || at >= n {
				continue
			}
			bad := append([]byte(nil), ok...)
			bad[at] = 0xff
			c03C(c, 1000, bad)
			if at+3 <= n {
				euro := append([]byte(nil), ok...)
				copy(euro[at:], "\xe2\x82\xac")
				c03C(c, 1000, euro)
			}
		}
	}
}

// r7-C05: a SMALL frame-size limit (below 125) applies to control frames too, wherever they arrive: alone, before a
// message, between the fragments of one
func r7C05(c *ctx) {
	for _, side := range []byte{1, 2} {
		for _, max := range []int64{8, 63, 100, 124} {
			for _, pl := range []int{0, 8, 9, 63, 64, 100, 101, 125} {
				for _, op := range []byte{9, 10} {
					ctl := c.mkFrame(side, true, op, pl)
					t1, t2, t3 := c.mkFrame(side, false, 1, 5), c.mkFrame(side, false, 0, 3), c.mkFrame(side, true, 0, 4)
					t1.payload, t2.payload, t3.payload = []byte("hello"), []byte(", w"), []byte("orld")
					cfg := rcfg{state: side, cb: 1, chk: true, max: max}
					runRD(c, "RD", cfg, []sframe{t1, ctl, t2, t3}, "-", chunkSpecs[(pl+int(op))%len(chunkSpecs)], "eof", "16")
					runRD(c, "RD", cfg, []sframe{ctl, t1, t2, t3}, "-", "-", "eof", "4096")
					cfg.cb = 0
					runRD(c, "RD", cfg, []sframe{t1, t2, ctl, t3}, "-", "r3", "eof", "3")
				}
			}
		}
	}
}

// r7-C07: a control frame (empty or not) in FRONT of a fragmented text message whose continuation frames carry the
// invalid bytes; through the Reader loop, ReadMessage and the ReadData family
func r7C07(c *ctx) {
	for _, side := range []byte{1, 2} {
		for _, op := range []byte{9, 10} {
			for _, cpl := range []int{0, 1, 20} {
				for vi, v := range []struct{ a, b, d string }{
					{"ab", "\xff", "c"}, {"caf", "\xc3", "("}, {"ok ", "\xed\xa0\x80", ""}, {"x", "yz", "\xc3"}, {"valid \xe2\x82", "\xac", " end"},
				} {
					ctl := c.mkFrame(side, true, op, cpl)
					t1, t2, t3 := c.mkFrame(side, false, 1, 0), c.mkFrame(side, false, 0, 0), c.mkFrame(side, true, 0, 0)
					t1.payload, t2.payload, t3.payload = []byte(v.a), []byte(v.b), []byte(v.d)
					fs := []sframe{ctl, t1, t2, t3}
					cfg := rcfg{state: side, cb: 1, chk: true}
					runRD(c, "RD", cfg, fs, "-", chunkSpecs[(vi+cpl)%len(chunkSpecs)], "eof", bufSpecs[vi%len(bufSpecs)])
					runRM(c, "RM", side, fs, "-", "-", "eof")
					runRX(c, "RX", side, []string{"data", "text"}[vi%2], fs, "-", "-", "eof")
					// twice in a row on one reader: control, message, control, message
					runRD(c, "RD", cfg, append(append([]sframe(nil), fs...), fs...), "-", "r7", "eof", "4096")
				}
			}
		}
	}
}

// r7-C19: close reasons of every pooled size class re-read after other sessions used the pools (so far under C17 only)
func r7C19Close(c *ctx) {
	for _, n := range []int{0, 10, 61, 62, 63, 64, 80, 100, 123} {
		for _, client := range []bool{false, true} {
			pl := []byte{0x03, 0xe8}
			for i := 0; i < n; i++ {
				pl = append(pl, byte('a'+i%26))
			}
			c17Close(c, "close", client, pl)
			c17Close(c, "closedata", client, pl)
		}
	}
}

// ---------------------------------------------------------------------------------------------------------------
// batch 2

// r7-C09: the HTTP upgraders behind a ResponseWriter that reaches its Hijacker through Unwrap() (H09W, judged as H09)
func r7H09W(c *ctx) {
	h09Wrap = true
	defer func() { h09Wrap = false }()
	for _, v := range [][2]int{{1, 1}, {1, 0}, {2, 0}} {
		h09(c, "up", "GET", v[0], v[1], "example.com", mandMap(""), nil, nil, nil, nil)
		h09(c, "ws", "GET", v[0], v[1], "example.com", mandMap(""), nil, nil, nil, nil)
	}
	h09(c, "up", "POST", 1, 1, "example.com", mandMap(""), nil, nil, nil, nil)
	h09(c, "up", "GET", 1, 1, "h", mandMap("Upgrade"), nil, nil, nil, nil)
	sel := []string{"chat"}
	h09(c, "up", "GET", 1, 1, "h", append(mandMap(""), hmEntry{"Sec-Websocket-Protocol", []string{"chat, superchat"}}), []hmEntry{{"X-Extra", []string{"1", "2"}}}, &sel, nil, nil)
}

// r7-C09b: rejections with EVERY status one after the other in one process, in two orders (a cache of status lines keyed
// by a truncated code answers a later rejection with an earlier one's status)
func r7Statuses(c *ctx) {
	r := baseReq()
	r.lines = canonLines("")
	req := r.bytes()
	codes := []int{}
	for k := 300; k < 600; k++ {
		codes = append(codes, k)
	}
	order2 := []int{}
	for k := 0; k < 300; k++ {
		order2 = append(order2, 300+(k*131)%300)
	}
	if !c.thor {
		codes = []int{301, 429, 428, 300, 403, 531, 404, 532, 500, 372, 401, 529, 417, 545, 451, 579}
		order2 = []int{429, 301, 300, 428, 531, 403}
	}
	for _, list := range [][]int{codes, order2} {
		for _, code := range list {
			rj := rejSpec{code: code, reason: "status " + strconv.Itoa(code)}
			u09(c, "up", 0, 0, "eof", [][]byte{req}, ucfg{onreq: []kvRej{{[]byte("/ws"), rj}}})
		}
	}
}

// r7-C11: many header lines on either side (a peer that counts lines must count the other's too)
func r7ManyHeaders(c *ctx) {
	counts := []int{28, 31, 32, 33, 40, 100, 300}
	if !c.thor {
		counts = []int{31, 32, 33, 40}
	}
	for _, n := range counts {
		var b strings.Builder
		for i := 0; i < n; i++ {
			b.WriteString("X-H" + strconv.Itoa(i) + ": v" + strconv.Itoa(i) + "\r\n")
		}
		for side := 0; side < 2; side++ {
			dc := dcfg{protocols: []string{"chat"}}
			uc := ucfg{proto: &[]string{"chat"}}
			if side == 0 {
				uc.hdr = []byte(b.String())
			} else {
				dc.hdr = []byte(b.String())
			}
			a11(c, 0, 0, 0, 0, randSizes(c), randSizes(c), "ws://example.com/ws", dc, uc, []byte("\x81\x01x"))
		}
	}
}

// r7-C11b: DebugUpgrader over a conn whose k-th Write is refused: OnResponse must report the bytes the conn ACCEPTED
// (what was exchanged), for responses that leave in one and in several writes.
//
//	DBUF <wbuf> <k> <hdrlen> -> <plain class> <debug class> <accepted bytes> <OnResponse bytes> <calls>
func dbuf(c *ctx, wbuf, k, hdrlen int) {
	r := baseReq()
	r.lines = canonLines("")
	req := r.bytes()
	hdr := []byte("X-Long: " + strings.Repeat("h", hdrlen) + "\r\n")
	mkU := func() ws.Upgrader { return ws.Upgrader{WriteBufferSize: wbuf, Header: ws.HandshakeHeaderBytes(hdr)} }
	plainDst := &failAtWriter{k: k}
	_, perr := mkU().Upgrade(struct {
		io.Reader
		io.Writer
	}{bytes.NewReader(req), plainDst})
	dst := &failAtWriter{k: k}
	var got []byte
	n := 0
	d := wsutil.DebugUpgrader{Upgrader: mkU(), OnResponse: func(p []byte) { n++; got = append([]byte(nil), p...) }}
	cls := "ok"
	func() {
		defer func() {
			if recover() != nil {
				cls = "panic"
			}
		}()
		_, err := d.Upgrade(struct {
			io.Reader
			io.Writer
		}{bytes.NewReader(req), dst})
		cls = upgradeErrClass(err)
	}()
	c.emit("DBUF %d %d %d -> %s %s %s %s %d", wbuf, k, hdrlen, upgradeErrClass(perr), cls, hx(dst.got), hx(got), n)
}

func r7DBUF(c *ctx) {
	for _, wbuf := range []int{0, 64, 256} {
		for _, hl := range []int{0, 300, 1500} {
			for k := 0; k < 5; k++ {
				dbuf(c, wbuf, k, hl)
			}
		}
	}
}

// r7-C12: messages the library's own writer ends with Close() and no Flush() before it (the last bytes reach the
// decompression reader together with the end of the DEFLATE stream), and written in several pieces
func r7C12Close(c *ctx) {
	for i, n := range []int{0, 1, 10, 100, 1000, 5000, 40000, 70000} {
		if !c.thor && n > 5000 && i%2 == 0 {
			continue
		}
		p := patBytes(n, 3)
		if i%2 == 1 {
			p = bytes.Repeat([]byte("compressible text "), n/18+1)[:n]
		}
		for _, lv := range []int{-2, 1, 9} {
			for _, pieces := range []int{1, 3} {
				var b bytes.Buffer
				w := wsflate.NewWriter(&b, func(w io.Writer) wsflate.Compressor { f, _ := flate.NewWriter(w, lv); return f })
				for k := 0; k < pieces; k++ {
					w.Write(p[len(p)*k/pieces : len(p)*(k+1)/pieces])
				}
				if w.Close() != nil {
					continue
				}
				msg := append([]byte(nil), b.Bytes()...)
				enc := "goclose" + strconv.Itoa(lv) + "p" + strconv.Itoa(pieces)
				for _, ch := range []string{"w", "1", "r" + strconv.Itoa(n%1000)} {
					if n > 5000 && ch == "1" {
						continue
					}
					for br := 0; br < 2; br++ {
						c12R(c, "reader", "std", ch, br == 1, enc, p, msg)
					}
				}
				c12R(c, "helper", "std", "w", true, enc, p, msg)
				c12R(c, "frame", "std", "w", true, enc, p, msg)
			}
		}
	}
}

// r7-C15b: every decimal window-bits value 0..300 (and odd numerals) for both window parameters through
// Parameters.Parse and Extension.Negotiate
func r7WindowBits(c *ctx) {
	vals := []string{"", "00", "008", "8.0", "+8", "-1", "0x0f", "1e1", " 9", "9 ", "９", "4294967304", "18446744073709551624"}
	for k := 0; k <= 300; k++ {
		vals = append(vals, strconv.Itoa(k))
	}
	for _, v := range vals {
		fz(c, "pp", []byte("permessage-deflate; server_max_window_bits="+v))
		fz(c, "pp", []byte("permessage-deflate; client_max_window_bits="+v))
		fz(c, "pp", []byte("permessage-deflate; client_max_window_bits="+v+"; server_max_window_bits="+v))
	}
}

// r7-C16b: the destination refuses its k-th write while an Upgrader writes a response with a LONG extra header (bufio
// sends what does not fit its buffer directly; an error there must still be reported)
func r7HSWLong(c *ctx) {
	for _, wbuf := range []int{0, 64, 4096} {
		for _, hl := range []int{600, 1100, 5000} {
			for k := 0; k < 5; k++ {
				hsWriteFail(c, "uphdr"+strconv.Itoa(hl), wbuf, k)
			}
		}
	}
}

// r7-C19b: sessions that use the library's DEFAULT net dialer (NetDial == nil) one after the other against a loopback
// listener: one with a tiny Timeout (it may fail), then one without (it must succeed, as it does alone)
//
//	C19D -> <listening 0|1> <A class> <B class> <B alone class> <C class>
func c19D(c *ctx) {
	ln, err := net.Listen("tcp", "127.0.0.1:0")
	if err != nil {
		c.emit("C19D x -> 0 - - - -")
		return
	}
	defer ln.Close()
	go func() {
		for {
			conn, err := ln.Accept()
			if err != nil {
				return
			}
			go func(conn net.Conn) {
				defer conn.Close()
				conn.SetDeadline(time.Now().Add(5 * time.Second))
				ws.Upgrader{}.Upgrade(conn)
			}(conn)
		}
	}()
	url := "ws://" + ln.Addr().String() + "/"
	one := func(timeout time.Duration) string {
		ctx, cancel := context.WithTimeout(context.Background(), 5*time.Second)
		defer cancel()
		conn, br, _, err := ws.Dialer{Timeout: timeout}.Dial(ctx, url)
		if br != nil {
			ws.PutReader(br)
		}
		if conn != nil {
			conn.Close()
		}
		if err != nil {
			return "err"
		}
		return "ok"
	}
	alone := one(0)
	a := one(time.Nanosecond)
	b := one(0)
	cc := one(3 * time.Second)
	c.emit("C19D x -> 1 %s %s %s %s", a, b, alone, cc)
}

// r7-C17b: the values of ONE handshake result must be what the peer sent and must not share memory with each other
// (every accepted extension copied into the same scratch buffer overwrites the earlier ones; a write through one result
// shows up in another).  C17HX <handshake tokens> -> <status> <equal to what was sent 0|1> <pairs sharing memory>
func c17HX(c *ctx, h c17HS) {
	var hs *ws.Handshake
	var err error
	st := guarded(func() { _, hs, err = runHS(h) })
	if st != "ok" || err != nil || hs == nil {
		c.emit("C17HX %s -> err 1 0", h.tokens())
		return
	}
	var raw [][]byte
	for _, e := range hs.Extensions {
		raw = append(raw, e.Name)
		e.Parameters.ForEach(func(k, v []byte) bool {
			raw = append(raw, k, v)
			return true
		})
	}
	var want [][]byte
	opts, _ := httphead.ParseOptions([]byte(h.exts), nil)
	for _, e := range opts {
		if h.path != "dial" && string(e.Name) == "nope" {
			continue // the server-side selectors of runHS refuse this one
		}
		want = append(want, e.Name)
		e.Parameters.ForEach(func(k, v []byte) bool {
			want = append(want, k, v)
			return true
		})
	}
	equal := len(raw) == len(want)
	for i := 0; equal && i < len(raw); i++ {
		equal = bytes.Equal(raw[i], want[i])
	}
	shared := 0
	for i := range raw {
		for j := i + 1; j < len(raw); j++ {
			if len(raw[i]) == 0 || len(raw[j]) == 0 {
				continue
			}
			a0 := uintptr(unsafe.Pointer(&raw[i][0]))
			b0 := uintptr(unsafe.Pointer(&raw[j][0]))
			if a0 < b0+uintptr(len(raw[j])) && b0 < a0+uintptr(len(raw[i])) {
				shared++
			}
		}
	}
	c.emit("C17HX %s -> ok %d %d", h.tokens(), b2i(equal), shared)
}

func r7C17X(c *ctx) {
	exts := []string{"foo; a=1; mode=fast, bar; x=22; y=xyz", "foo; a=1, bar; x=\"quoted value\"; y", "bar; x=2; y, foo; a=1",
		"foo; alpha=1; beta=22; gamma=333, bar; longer-parameter-name=longer-value, baz; z=9"}
	for _, e := range exts {
		for _, bs := range []int{0, 512, 4096} {
			c17HX(c, c17HS{path: "dial", protos: []string{"chat"}, exts: e, bufSize: bs})
		}
	}
}
