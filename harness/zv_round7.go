package main

// Cases added after the seventh round of seeded changes (DESIGN 14.9).

import (
	"github.com/gobwas/ws"
)

func init() {
	r7Wrap := func(id string, extra func(*ctx)) {
		old := props[id]
		props[id] = func(c *ctx) {
			if old != nil {
				old(c)
			}
			extra(c)
		}
	}
	r7Wrap("C01", r7C01)
	r7Wrap("C04", r7C01)
	_ = ws.OpText
}

// r7-C01: one long-lived Reader decoding frames of EVERY length form one after the other, in every order: a scratch
// area that keeps bytes of an earlier (longer) length form must not leak into a later header
func r7C01(c *ctx) {
	sizes := []int{65536, 300, 5, 70000, 126, 0, 65535, 125, 65537, 127, 1, 66000, 4000}
	rots := 4
	if !c.thor {
		sizes = []int{65536, 300, 5, 126, 0, 65535, 127}
		rots = 1
	}
	for _, side := range []byte{1, 2} {
		for rot := 0; rot < rots; rot++ {
			var fs []sframe
			for i := range sizes {
				n := sizes[(i+rot*3)%len(sizes)]
				f := c.mkFrame(side, true, 2, 0)
				f.payload = patBytes(n, i+1)
				fs = append(fs, f)
			}
			cfg := rcfg{state: side, cb: 1, chk: true}
			runRD(c, "RD", cfg, fs, "-", []string{"-", "r4096", "r7", "B4096/r4096"}[rot], "eof", "4096")
			if c.thor {
				runRM(c, "RM", side, fs, "-", "-", "eof")
			}
		}
	}
}
