package main

import (
	"bytes"
	"fmt"
	"io"
	"io/ioutil"
	"strconv"
	"strings"

	"github.com/gobwas/ws"
	"github.com/gobwas/ws/wsflate"
	"github.com/gobwas/ws/wsutil"
)

// ---- frames as the peer means them (unmasked payload + optional key) ----
type sframe struct {
	fin     bool
	rsv     byte
	op      byte
	masked  bool
	key     [4]byte
	payload []byte
}

func (f sframe) tok() string {
	k := "-"
	if f.masked {
		k = hx(f.key[:])
	}
	return fmt.Sprintf("%d.%d.%d.%s.%s", b2i(f.fin), f.rsv, f.op, k, hx(f.payload))
}

func framesTok(fs []sframe) string {
	if len(fs) == 0 {
		return "-"
	}
	var parts []string
	for _, f := range fs {
		parts = append(parts, f.tok())
	}
	return strings.Join(parts, ",")
}

func parseFrames(s string) []sframe {
	if s == "-" {
		return nil
	}
	var out []sframe
	for _, t := range strings.Split(s, ",") {
		p := strings.Split(t, ".")
		fin, _ := strconv.Atoi(p[0])
		rsv, _ := strconv.Atoi(p[1])
		op, _ := strconv.Atoi(p[2])
		f := sframe{fin: fin != 0, rsv: byte(rsv), op: byte(op), payload: unhx(p[4])}
		if p[3] != "-" {
			f.masked = true
			copy(f.key[:], unhx(p[3]))
		}
		out = append(out, f)
	}
	return out
}

// wire bytes through the library's own encoder (C01) and cipher (C02)
func (f sframe) wire() []byte {
	h := ws.Header{Fin: f.fin, Rsv: f.rsv, OpCode: ws.OpCode(f.op), Masked: f.masked, Mask: f.key, Length: int64(len(f.payload))}
	var b bytes.Buffer
	ws.WriteHeader(&b, h)
	p := append([]byte(nil), f.payload...)
	if f.masked {
		ws.Cipher(p, f.key, 0)
	}
	b.Write(p)
	return b.Bytes()
}

func wireOf(fs []sframe) []byte {
	var out []byte
	for _, f := range fs {
		out = append(out, f.wire()...)
	}
	return out
}

// ---- reader configuration ----
type rcfg struct {
	state byte
	skip  bool
	chk   bool
	max   int64
	ext   bool
	cb    int // 0 none, 1 read-all-and-record
}

func (c rcfg) tok() string {
	return fmt.Sprintf("%d.%d.%d.%d.%d.%d", c.state, b2i(c.skip), b2i(c.chk), c.max, b2i(c.ext), c.cb)
}

func parseCfg(s string) rcfg {
	p := strings.Split(s, ".")
	st, _ := strconv.Atoi(p[0])
	sk, _ := strconv.Atoi(p[1])
	ch, _ := strconv.Atoi(p[2])
	mx, _ := strconv.ParseInt(p[3], 10, 64)
	ex, _ := strconv.Atoi(p[4])
	cb, _ := strconv.Atoi(p[5])
	return rcfg{byte(st), sk != 0, ch != 0, mx, ex != 0, cb}
}

type event struct {
	op      byte
	inter   bool
	comp    bool
	payload []byte
}

func eventsTok(evs []event) string {
	if len(evs) == 0 {
		return "-"
	}
	var parts []string
	for _, e := range evs {
		parts = append(parts, fmt.Sprintf("%d.%d.%d.%s", e.op, b2i(e.inter), b2i(e.comp), hx(e.payload)))
	}
	return strings.Join(parts, ",")
}

func readErrClass(err error) string {
	switch err {
	case nil:
		return "nil"
	case wsutil.ErrFrameTooLarge:
		return "toolarge"
	case wsutil.ErrNoFrameAdvance:
		return "noadvance"
	case wsutil.ErrInvalidUTF8:
		return "invalidutf8"
	case wsflate.ErrUnexpectedCompressionBit:
		return "compbit"
	case errHang:
		return "hang"
	case errPanic:
		return "panic"
	}
	if c := ioErrClass(err); c != "other" {
		return c
	}
	if n := headerErrName(err); n != "other" {
		return "protocol:" + n
	}
	return "other"
}

var errHang = fmt.Errorf("verif: no progress")
var errPanic = fmt.Errorf("verif: the library panicked")

func newReader(src io.Reader, c rcfg, evs *[]event, ms *wsflate.MessageState) *wsutil.Reader {
	rd := &wsutil.Reader{Source: src, State: ws.State(c.state), SkipHeaderCheck: c.skip, CheckUTF8: c.chk, MaxFrameSize: c.max}
	if c.ext {
		rd.Extensions = []wsutil.RecvExtension{ms}
	}
	if c.cb == 1 {
		rd.OnIntermediate = func(h ws.Header, r io.Reader) error {
			b, err := ioutil.ReadAll(r)
			if err != nil {
				return err
			}
			*evs = append(*evs, event{byte(h.OpCode), true, ms.IsCompressed(), b})
			return nil
		}
	}
	if c.cb == 2 {
		// a handler that only takes note of the frame and leaves its payload unread: the Reader has to skip it
		rd.OnIntermediate = func(h ws.Header, r io.Reader) error {
			*evs = append(*evs, event{byte(h.OpCode), true, ms.IsCompressed(), nil})
			return nil
		}
	}
	return rd
}

// the canonical loop: NextFrame, read to io.EOF with the given buffer sizes, repeat
func driveReader(src io.Reader, c rcfg, bufs []int, limit int) (evs []event, partial []byte, err error) {
	var ms wsflate.MessageState
	rd := newReader(src, c, &evs, &ms)
	for {
		hdr, e := rd.NextFrame()
		if e != nil {
			return evs, nil, e
		}
		var p []byte
		for i := 0; ; i++ {
			buf := make([]byte, bufs[i%len(bufs)])
			n, e := rd.Read(buf)
			p = append(p, buf[:n]...)
			if e == io.EOF {
				break
			}
			if e != nil {
				return evs, p, e
			}
			if i > limit {
				return evs, p, errHang
			}
		}
		evs = append(evs, event{byte(hdr.OpCode), false, ms.IsCompressed(), p})
	}
}

// like driveReader, but per message: 'r' read it, 'd' Discard it at once, 'p' read one buffer then Discard
func driveReaderPat(src io.Reader, c rcfg, bufs []int, pat string, limit int) (evs []event, partial []byte, err error) {
	var ms wsflate.MessageState
	rd := newReader(src, c, &evs, &ms)
	for m := 0; ; m++ {
		hdr, e := rd.NextFrame()
		if e != nil {
			return evs, nil, e
		}
		switch pat[m%len(pat)] {
		case 'd':
			if e := rd.Discard(); e != nil {
				return evs, nil, e
			}
		case 'p':
			buf := make([]byte, bufs[0])
			n, e := rd.Read(buf)
			if e == io.EOF {
				evs = append(evs, event{byte(hdr.OpCode), false, ms.IsCompressed(), buf[:n]})
				continue
			}
			if e != nil {
				return evs, buf[:n], e
			}
			if e := rd.Discard(); e != nil {
				return evs, nil, e
			}
		default:
			var p []byte
			done := false
			for i := 0; !done; i++ {
				buf := make([]byte, bufs[i%len(bufs)])
				n, e := rd.Read(buf)
				p = append(p, buf[:n]...)
				if e == io.EOF {
					done = true
				} else if e != nil {
					return evs, p, e
				} else if i > limit {
					return evs, p, errHang
				}
			}
			evs = append(evs, event{byte(hdr.OpCode), false, ms.IsCompressed(), p})
		}
		if m > limit {
			return evs, nil, errHang
		}
	}
}

// RDD: valid frames through the read/discard-pattern loop
func runRDD(c *ctx, cfg rcfg, fs []sframe, spec, tail, bufs, pat string) {
	w := wireOf(fs)
	src := newChunkReader(w, spec, tail)
	evs, partial, err := driveReaderPat(src.R(), cfg, intsSpec(bufs), pat, 2*len(w)+100)
	c.emit("RDD %s %s %s %s %s %s -> %s %s %s", cfg.tok(), framesTok(fs), spec, tail, bufs, pat, eventsTok(evs), hx(partial), readErrClass(err))
}

// RD / RC: frames (optionally cut after cutlen bytes) through the drive loop
func runRD(c *ctx, kind string, cfg rcfg, fs []sframe, cut string, spec, tail, bufs string) {
	w := wireOf(fs)
	if cut != "-" {
		n, _ := strconv.Atoi(cut)
		if n < len(w) {
			w = w[:n]
		}
	}
	src := newChunkReader(w, spec, tail)
	var evs []event
	var partial []byte
	var err error
	func() {
		defer func() {
			if r := recover(); r != nil {
				err = errPanic // a panic inside the library is an observation, not the end of the run
			}
		}()
		evs, partial, err = driveReader(src.R(), cfg, intsSpec(bufs), 2*len(w)+100)
	}()
	c.emit("%s %s %s %s %s %s %s -> %s %s %s %d", kind, cfg.tok(), framesTok(fs), cut, spec, tail, bufs,
		eventsTok(evs), hx(partial), readErrClass(err), src.used())
}

// RM: repeated wsutil.ReadMessage on one source
func runRM(c *ctx, kind string, state byte, fs []sframe, cut string, spec, tail string) {
	w := wireOf(fs)
	if cut != "-" {
		n, _ := strconv.Atoi(cut)
		if n < len(w) {
			w = w[:n]
		}
	}
	src := newChunkReader(w, spec, tail)
	var evs []event
	var err error
	for i := 0; i < len(fs)+2; i++ {
		var msgs []wsutil.Message
		func() {
			defer func() {
				if r := recover(); r != nil {
					err = errPanic
				}
			}()
			msgs, err = wsutil.ReadMessage(src.R(), ws.State(state), nil)
		}()
		for j, m := range msgs {
			inter := j < len(msgs)-1 || err != nil
			evs = append(evs, event{byte(m.OpCode), inter, false, m.Payload})
		}
		if err != nil {
			break
		}
	}
	if err == nil {
		err = errHang
	}
	c.emit("%s %d %s %s %s %s -> %s %s", kind, state, framesTok(fs), cut, spec, tail, eventsTok(evs), readErrClass(err))
}

// RS: arbitrary op script on one Reader over arbitrary bytes
func runRS(c *ctx, cfg rcfg, data []byte, spec, tail, ops string) {
	src := newChunkReader(data, spec, tail)
	var evs []event
	var ms wsflate.MessageState
	rd := newReader(src, cfg, &evs, &ms)
	var outs []string
	var done []string
	for _, op := range strings.Split(ops, ",") {
		// documented usage: NextFrame() only after all bytes of the current message were received or
		// discarded. A script that would advance over an unfinished message discards it first.
		if op == "n" && (!rd.VerifFrameNil() || rd.State.Fragmented()) {
			err := rd.Discard()
			outs = append(outs, "d:"+readErrClass(err))
			done = append(done, "d")
		}
		done = append(done, op)
		switch {
		case op == "n":
			h, err := rd.NextFrame()
			if err != nil && ioErrClass(err) != "other" {
				h = ws.Header{} // partially filled header on I/O errors is not compared
			}
			outs = append(outs, "n:"+strings.ReplaceAll(hdrStr(h), " ", "/")+":"+readErrClass(err))
		case op == "d":
			err := rd.Discard()
			outs = append(outs, "d:"+readErrClass(err))
		case strings.HasPrefix(op, "r"):
			k, _ := strconv.Atoi(op[1:])
			if k <= 0 {
				k = 1
			}
			buf := make([]byte, k)
			n, err := rd.Read(buf)
			if n > len(buf) {
				// the io.Reader contract (0 <= n <= len(p)) is broken: report it as an observation
				outs = append(outs, "r:"+hx(buf)+":overrun"+strconv.Itoa(n))
				continue
			}
			outs = append(outs, "r:"+hx(buf[:n])+":"+readErrClass(err))
		}
	}
	c.emit("RS %s %s %s %s %s -> %s %s %d %d", cfg.tok(), hx(data), spec, tail, strings.Join(done, ","), strings.Join(outs, ","), eventsTok(evs),
		src.consumed, b2i(ms.IsCompressed()))
}

func init() {
	for _, k := range []string{"RD", "RC"} {
		kind := k
		replayers[kind] = func(c *ctx, in []string) {
			runRD(c, kind, parseCfg(in[0]), parseFrames(in[1]), in[2], in[3], in[4], in[5])
		}
	}
	for _, k := range []string{"RM", "RMC"} {
		kind := k
		replayers[kind] = func(c *ctx, in []string) {
			st, _ := strconv.Atoi(in[0])
			runRM(c, kind, byte(st), parseFrames(in[1]), in[2], in[3], in[4])
		}
	}
	replayers["RDD"] = func(c *ctx, in []string) { runRDD(c, parseCfg(in[0]), parseFrames(in[1]), in[2], in[3], in[4], in[5]) }
	replayers["RS"] = func(c *ctx, in []string) { runRS(c, parseCfg(in[0]), unhx(in[1]), in[2], in[3], in[4]) }
}

// ---------------------------------------------------------------- generators
var payloadClasses = []int{0, 1, 7, 125, 126, 300}

func (c *ctx) payload(n int) []byte {
	p := make([]byte, n)
	for i := range p {
		p[i] = byte('a' + c.rng.Intn(26))
	}
	return p
}

// sameKey > 0: every masked frame reuses one key (legal, and what a lazy client does)
var sameKey = 0

func (c *ctx) mkFrame(side byte, fin bool, op byte, n int) sframe {
	f := sframe{fin: fin, op: op, payload: c.payload(n)}
	if side == 1 { // we are the server: peer frames are masked
		f.masked = true
		if sameKey > 0 {
			f.key = [4]byte{0x37, 0xfa, 0x21, byte(sameKey)}
		} else {
			c.rng.Read(f.key[:])
		}
	}
	return f
}

// randValidStream builds an RFC-valid sequence of nf frames (text payloads ASCII).
func (c *ctx) randValidStream(side byte, nf int, maxPayload int) []sframe {
	var fs []sframe
	open := false
	for len(fs) < nf || open {
		r := c.rng.Intn(10)
		size := payloadClasses[c.rng.Intn(len(payloadClasses))]
		if c.rng.Intn(12) == 0 {
			size = c.rng.Intn(maxPayload + 1)
		}
		switch {
		case r < 2: // control
			if size > 125 {
				size = 125
			}
			fs = append(fs, c.mkFrame(side, true, []byte{8, 9, 10}[c.rng.Intn(3)], size))
		case open:
			fin := c.rng.Intn(3) == 0 || len(fs) > nf+3
			fs = append(fs, c.mkFrame(side, fin, 0, size))
			open = !fin
		default:
			fin := c.rng.Intn(2) == 0
			fs = append(fs, c.mkFrame(side, fin, []byte{1, 2}[c.rng.Intn(2)], size))
			open = !fin
		}
	}
	return fs
}

var chunkSpecs = []string{"-", "r1", "r2", "r3", "1,1,2", "5,1,9", "r7", "r4096", "z,1,z,z,2,z,1,z,3,z,1,1,z,9,z,400,z", "1,z,2,z,z"}
var bufSpecs = []string{"1", "3", "4096", "2,7,1", "16"}

func sideState(side byte) byte { return side } // 1 = server side, 2 = client side

// alphabet for bounded-exhaustive enumeration
type aframe struct {
	op  byte
	fin bool
	n   int
}

func alphabet(sizes []int) []aframe {
	var out []aframe
	for _, op := range []byte{1, 2, 0, 9, 10, 8} {
		for _, fin := range []bool{true, false} {
			for _, n := range sizes {
				out = append(out, aframe{op, fin, n})
			}
		}
	}
	return out
}

func enumSeqs(alpha []aframe, maxLen int, f func([]aframe)) {
	var rec func(prefix []aframe)
	rec = func(prefix []aframe) {
		if len(prefix) > 0 {
			f(prefix)
		}
		if len(prefix) == maxLen {
			return
		}
		for _, a := range alpha {
			rec(append(prefix[:len(prefix):len(prefix)], a))
		}
	}
	rec(nil)
}
