package main

import (
	"bytes"
	"strconv"
	"unicode/utf8"

	"github.com/gobwas/ws"
)

func init() {
	props["C03"] = runC03
	replayers["C03H"] = func(c *ctx, in []string) {
		fin, _ := strconv.Atoi(in[0])
		rsv, _ := strconv.Atoi(in[1])
		op, _ := strconv.Atoi(in[2])
		m, _ := strconv.Atoi(in[3])
		l, _ := strconv.ParseInt(in[4], 10, 64)
		st, _ := strconv.Atoi(in[5])
		c03H(c, fin != 0, byte(rsv), byte(op), m != 0, l, byte(st))
	}
	replayers["C03C"] = func(c *ctx, in []string) {
		code, _ := strconv.Atoi(in[0])
		c03C(c, uint16(code), unhx(in[1]))
	}
	replayers["C03B"] = func(c *ctx, in []string) {
		code, _ := strconv.Atoi(in[0])
		c03B(c, uint16(code), unhx(in[1]))
	}
	replayers["C03P"] = func(c *ctx, in []string) { c03P(c, unhx(in[0])) }
	replayers["C03K"] = func(c *ctx, in []string) { c03K(c) }
	replayers["C03O"] = func(c *ctx, in []string) { op, _ := strconv.Atoi(in[0]); c03O(c, byte(op)) }
	replayers["C03S"] = func(c *ctx, in []string) { code, _ := strconv.Atoi(in[0]); c03S(c, uint16(code)) }
	replayers["U8"] = func(c *ctx, in []string) { u8(c, unhx(in[0])) }
}

func headerErrName(err error) string {
	switch err {
	case nil:
		return "none"
	case ws.ErrProtocolOpCodeReserved:
		return "ReservedOp"
	case ws.ErrProtocolControlPayloadOverflow:
		return "ControlTooLong"
	case ws.ErrProtocolControlNotFinal:
		return "ControlNotFinal"
	case ws.ErrProtocolNonZeroRsv:
		return "RsvWithoutExt"
	case ws.ErrProtocolMaskRequired:
		return "MaskRequired"
	case ws.ErrProtocolMaskUnexpected:
		return "MaskUnexpected"
	case ws.ErrProtocolContinuationExpected:
		return "ContinuationExpected"
	case ws.ErrProtocolContinuationUnexpected:
		return "ContinuationUnexpected"
	}
	return "other"
}

func closeErrName(err error) string {
	switch err {
	case nil:
		return "none"
	case ws.ErrProtocolStatusCodeNotInUse:
		return "NotInUse"
	case ws.ErrProtocolStatusCodeApplicationLevel:
		return "AppLevel"
	case ws.ErrProtocolStatusCodeNoMeaning:
		return "NoMeaning"
	case ws.ErrProtocolStatusCodeUnknown:
		return "Unknown"
	case ws.ErrProtocolInvalidUTF8:
		return "BadUtf8"
	}
	return "other"
}

func c03H(c *ctx, fin bool, rsv, op byte, masked bool, l int64, st byte) {
	h := ws.Header{Fin: fin, Rsv: rsv, OpCode: ws.OpCode(op), Masked: masked, Length: l}
	err := ws.CheckHeader(h, ws.State(st))
	c.emit("C03H %d %d %d %d %d %d -> %s", b2i(fin), rsv, op, b2i(masked), l, st, headerErrName(err))
}

func c03C(c *ctx, code uint16, reason []byte) {
	err := ws.CheckCloseFrameData(ws.StatusCode(code), string(reason))
	c.emit("C03C %d %s -> %s", code, hx(reason), closeErrName(err))
}

func c03B(c *ctx, code uint16, reason []byte) {
	body := ws.NewCloseFrameBody(ws.StatusCode(code), string(reason))
	pc, pr := ws.ParseCloseFrameData(body)
	pc2, pr2 := ws.ParseCloseFrameDataUnsafe(append([]byte(nil), body...))
	agree := pc == pc2 && pr == pr2
	c.emit("C03B %d %s -> %s %d %s %d", code, hx(reason), hx(body), pc, hx([]byte(pr)), b2i(agree))
}

func c03P(c *ctx, p []byte) {
	var pc, pc2 ws.StatusCode
	var pr, pr2 string
	panicked := false
	func() {
		defer func() {
			if recover() != nil {
				panicked = true
			}
		}()
		pc, pr = ws.ParseCloseFrameData(p)
		pc2, pr2 = ws.ParseCloseFrameDataUnsafe(append([]byte(nil), p...))
	}()
	if panicked {
		c.emit("C03P %s -> 0 - panic", hx(p))
		return
	}
	c.emit("C03P %s -> %d %s %d", hx(p), pc, hx([]byte(pr)), b2i(pc == pc2 && pr == pr2))
}

// C03K: the package's precompiled close frames carry the code their name says (and parse back to it)
func c03K(c *ctx) {
	for _, k := range []struct {
		name string
		b    []byte
		code int
	}{
		{"Close", ws.CompiledClose, 0},
		{"NormalClosure", ws.CompiledCloseNormalClosure, 1000}, {"GoingAway", ws.CompiledCloseGoingAway, 1001},
		{"ProtocolError", ws.CompiledCloseProtocolError, 1002}, {"UnsupportedData", ws.CompiledCloseUnsupportedData, 1003},
		{"NoMeaningYet", ws.CompiledCloseNoMeaningYet, 1004}, {"InvalidFramePayloadData", ws.CompiledCloseInvalidFramePayloadData, 1007},
		{"PolicyViolation", ws.CompiledClosePolicyViolation, 1008}, {"MessageTooBig", ws.CompiledCloseMessageTooBig, 1009},
		{"MandatoryExt", ws.CompiledCloseMandatoryExt, 1010}, {"InternalServerError", ws.CompiledCloseInternalServerError, 1011},
		{"TLSHandshake", ws.CompiledCloseTLSHandshake, 1015},
	} {
		f, err := ws.ReadFrame(bytes.NewReader(k.b))
		if err != nil {
			c.emit("C03K %s %d -> bad - - -", k.name, k.code)
			continue
		}
		pc, pr := ws.ParseCloseFrameData(f.Payload)
		c.emit("C03K %s %d -> %s %d %s %d", k.name, k.code, hdrStr(f.Header), pc, hx([]byte(pr)), len(k.b))
	}
	for _, k := range []struct {
		name string
		b    []byte
		op   int
	}{{"Ping", ws.CompiledPing, 9}, {"Pong", ws.CompiledPong, 10}} {
		c.emit("C03K %s %d -> %s", k.name, k.op, hx(k.b))
	}
}

func c03O(c *ctx, op byte) {
	o := ws.OpCode(op)
	c.emit("C03O %d -> %d %d %d", op, b2i(o.IsControl()), b2i(o.IsData()), b2i(o.IsReserved()))
}

func c03S(c *ctx, code uint16) {
	s := ws.StatusCode(code)
	c.emit("C03S %d -> %d %d %d %d %d %d %d", code, b2i(s.IsNotUsed()), b2i(s.IsApplicationSpec()),
		b2i(s.IsPrivateSpec()), b2i(s.IsProtocolSpec()), b2i(s.IsProtocolDefined()),
		b2i(s.IsProtocolReserved()), b2i(s.Empty()))
}

// u8 validates the Coq SPEC of UTF-8 against Go's unicode/utf8 (spec validation).
func u8(c *ctx, p []byte) {
	c.emit("U8 %s -> %d", hx(p), b2i(utf8.Valid(p)))
}

var reasonSamples = [][]byte{
	nil,
	[]byte("bye"),
	[]byte("\xc3\xa9"),         // 2-byte
	[]byte("\xe2\x82\xac"),     // 3-byte
	[]byte("\xf0\x9f\x98\x80"), // 4-byte
	[]byte("\xc0\xaf"),         // overlong
	[]byte("\xed\xa0\x80"),     // surrogate
	[]byte("\xe2\x82"),         // truncated
	[]byte("\xf4\x90\x80\x80"), // > U+10FFFF
	[]byte("ok\xffno"),         // stray byte
	[]byte("\xf0\x90\x80\x80"), // U+10000 smallest 4-byte
	[]byte("\xf4\x8f\xbf\xbf"), // U+10FFFF
	[]byte("\xe0\x9f\xbf"),     // overlong 3
	[]byte("\xef\xbf\xbf"),     // U+FFFF
}

func runC03(c *ctx) {
	lens := []int64{0, 1, 125, 126, 127, 65535, 65536, 1<<63 - 1, -1}
	var states []byte
	for s := 0; s < 16; s++ {
		states = append(states, byte(s))
	}
	states = append(states, 0x10, 0xf1, 0xfe, 0xff, 0x83)
	for _, st := range states {
		for fin := 0; fin < 2; fin++ {
			for rsv := 0; rsv < 8; rsv++ {
				for op := 0; op < 16; op++ {
					for m := 0; m < 2; m++ {
						for _, l := range lens {
							c03H(c, fin != 0, byte(rsv), byte(op), m != 0, l, st)
						}
					}
				}
			}
		}
	}
	// close codes: all 65536 codes x reason classes
	nreasons := 4
	if c.thor {
		nreasons = len(reasonSamples)
	}
	for code := 0; code < 65536; code++ {
		for i := 0; i < nreasons; i++ {
			r := reasonSamples[(i*5)%len(reasonSamples)]
			if c.thor {
				r = reasonSamples[i]
			}
			c03C(c, uint16(code), r)
		}
	}
	// close reasons made of edge code points (U+FFFD itself is a valid character), and the same
	// with one byte damaged, under acceptable and unacceptable codes
	edgeRunes := []rune{0x24, 0x7f, 0x80, 0x7ff, 0x800, 0xd7ff, 0xe000, 0xfffd, 0xfffe, 0xffff, 0x10000, 0x10ffff, 0xfeff, 0x2028}
	nedge := 300
	if c.thor {
		nedge = 6000
	}
	for i := 0; i < nedge; i++ {
		var r []byte
		k := 1 + c.rng.Intn(6)
		if i < len(edgeRunes) {
			r = []byte(string(edgeRunes[i]))
		} else {
			for j := 0; j < k; j++ {
				r = append(r, []byte(string(edgeRunes[c.rng.Intn(len(edgeRunes))]))...)
			}
		}
		code := []uint16{1000, 1001, 1003, 1007, 1011, 3000, 4999, 1005, 999, 2999}[c.rng.Intn(10)]
		if i < 2*len(edgeRunes) {
			code = 1000
		}
		c03C(c, code, r)
		if i%3 == 0 && len(r) > 0 {
			d := append([]byte(nil), r...)
			d[c.rng.Intn(len(d))] ^= byte(1 << uint(c.rng.Intn(8)))
			c03C(c, code, d)
		}
	}
	// reasons of 8..40 bytes, ASCII except ONE byte >= 0x80 at every position (word-at-a-time validators)
	for n := 8; n <= 40; n += 4 {
		for pos := 0; pos < n; pos++ {
			r := bytes.Repeat([]byte("a"), n)
			r[pos] = []byte{0x80, 0xff, 0xc3, 0xbf}[(n+pos)%4]
			c03C(c, 1000, r)
		}
	}
	c03K(c)
	// bodies: reason lengths 0..130 incl. multibyte straddling the crop
	for n := 0; n <= 130; n++ {
		for _, code := range []uint16{0, 1000, 1002, 1005, 4999, 65535, 256, 255} {
			r := make([]byte, n)
			for i := range r {
				r[i] = byte('a' + (i % 26))
			}
			c03B(c, code, r)
			// multi-byte chars: fill with 3-byte euro signs then pad
			r2 := make([]byte, 0, n)
			for len(r2)+3 <= n {
				r2 = append(r2, 0xe2, 0x82, 0xac)
			}
			for len(r2) < n {
				r2 = append(r2, 'x')
			}
			c03B(c, code, r2)
			r3 := make([]byte, n)
			c.rng.Read(r3)
			c03B(c, uint16(c.rng.Intn(65536)), r3)
		}
	}
	c03P(c, nil)
	for b := 0; b < 256; b++ {
		c03P(c, []byte{byte(b)})
	}
	for i := 0; i < 200; i++ {
		p := make([]byte, 2+c.rng.Intn(5))
		c.rng.Read(p)
		c03P(c, p)
	}
	for op := 0; op < 256; op++ {
		c03O(c, byte(op))
	}
	for code := 0; code < 65536; code++ {
		c03S(c, uint16(code))
	}
	runU8(c, 3000)
}

// runU8 feeds byte strings to Go's utf8.Valid for comparison with the Coq spec.
func runU8(c *ctx, nrand int) {
	for _, r := range reasonSamples {
		u8(c, r)
	}
	// all 1- and 2-byte strings
	for a := 0; a < 256; a++ {
		u8(c, []byte{byte(a)})
	}
	for a := 0x70; a < 256; a++ {
		for b := 0; b < 256; b++ {
			u8(c, []byte{byte(a), byte(b)})
		}
	}
	edges := []byte{0x00, 0x7f, 0x80, 0x8f, 0x90, 0x9f, 0xa0, 0xbf, 0xc0, 0xc1, 0xc2, 0xdf, 0xe0, 0xe1, 0xec, 0xed, 0xee, 0xef, 0xf0, 0xf1, 0xf3, 0xf4, 0xf5, 0xff}
	for a := 0xc0; a < 256; a++ {
		for _, b := range edges {
			for _, d := range edges {
				u8(c, []byte{byte(a), b, d})
				if a >= 0xf0 {
					for _, e := range edges {
						u8(c, []byte{byte(a), b, d, e})
					}
				}
			}
		}
	}
	for i := 0; i < nrand; i++ {
		u8(c, randUtf8ish(c, 1+c.rng.Intn(12)))
	}
}

// randUtf8ish builds strings from valid, invalid and truncated sequences.
func randUtf8ish(c *ctx, n int) []byte {
	var out []byte
	for len(out) < n {
		switch c.rng.Intn(8) {
		case 0:
			out = append(out, byte(c.rng.Intn(128)))
		case 1:
			out = append(out, []byte(string(rune(0x80+c.rng.Intn(0x780))))...)
		case 2:
			r := rune(0x800 + c.rng.Intn(0xf800))
			if r >= 0xd800 && r < 0xe000 {
				r = 0xe000
			}
			out = append(out, []byte(string(r))...)
		case 3:
			out = append(out, []byte(string(rune(0x10000+c.rng.Intn(0x100000))))...)
		case 4:
			out = append(out, byte(0x80+c.rng.Intn(0x80)))
		case 5: // truncated
			s := []byte(string(rune(0x800 + c.rng.Intn(0x1000))))
			out = append(out, s[:len(s)-1]...)
		case 6: // surrogate / overlong / too large
			alts := [][]byte{{0xed, 0xa0, 0x80}, {0xc0, 0x80}, {0xe0, 0x80, 0x80}, {0xf0, 0x8f, 0xbf, 0xbf}, {0xf4, 0x90, 0x80, 0x80}, {0xf5, 0x80, 0x80, 0x80}}
			out = append(out, alts[c.rng.Intn(len(alts))]...)
		case 7:
			out = append(out, byte(c.rng.Intn(256)))
		}
	}
	return out
}
