package main

// C19 — Concurrent connections do not interfere through the library's shared pools.
//
// Stress harness, built with -race.  A scenario is a mix of N independent sessions; a session
// is a scripted client and a scripted server over an in-memory duplex pipe: handshake
// (Dialer.Upgrade / Upgrader.Upgrade with subprotocol selection, optionally permessage-deflate
// negotiation through wsflate.Extension), messages in both directions (1 B .. 128 KiB; the
// wsutil helpers, the fragmenting wsutil.Writer from the GetWriter/PutWriter pool, frame-level
// API with the copying and in-place mask helpers, wsflate frame helpers for compressed
// sessions), pings with payloads answered by the control handler, and the close handshake.
// Every session records a transcript of what it observed (handshake results, opcode / length /
// SHA-1 of every received payload, close code and reason, errors).  Each script is first run
// ALONE, then all N run concurrently (2N goroutines) at GOMAXPROCS in {1,2,16}; every
// concurrent transcript must equal the solo transcript, and the race detector must stay silent
// (its reports are counted through GORACE=log_path; the process re-executes itself once to set
// that up; the parent waits and removes the log directory).
//
// Lines:
//   C19 n procs mixseed race -> ok mismatches races status first
//   C19M schedseed msgs -> received              (small-payload sessions, for the model run)

import (
	"bytes"
	"crypto/sha1"
	"encoding/hex"
	"fmt"
	"io"
	"math/rand"
	"net/url"
	"os"
	"os/exec"
	"path/filepath"
	"runtime"
	"strconv"
	"strings"
	"sync"
	"time"

	"github.com/gobwas/httphead"
	"github.com/gobwas/ws"
	"github.com/gobwas/ws/wsflate"
	"github.com/gobwas/ws/wsutil"
)

func init() {
	props["C19"] = runC19
	replayers["C19"] = func(c *ctx, in []string) {
		c19Reexec()
		n, _ := strconv.Atoi(in[0])
		p, _ := strconv.Atoi(in[1])
		s, _ := strconv.ParseInt(in[2], 10, 64)
		c19Scenario(c, n, p, s)
	}
	replayers["C19X"] = func(c *ctx, in []string) { c19Reexec(); c19Control(c) }
	replayers["C19M"] = func(c *ctx, in []string) {
		// a model line is a by-product of a scenario; re-emit it as it is
		c.emit("C19M %s", strings.Join(in, " "))
	}
}

// ---------- race log plumbing ----------

var c19RaceDir string

// c19Reexec makes sure the race runtime logs to a directory we can read.
func c19Reexec() {
	if !raceEnabled || c19RaceDir != "" {
		return
	}
	if d := os.Getenv("C19_RACE_DIR"); d != "" {
		c19RaceDir = d
		return
	}
	d, err := os.MkdirTemp("", "c19race")
	if err != nil {
		return
	}
	// run ourselves once more with the race log directed to d; stay around to remove d
	cmd := exec.Command(os.Args[0], os.Args[1:]...)
	if exe, err := os.Executable(); err == nil {
		cmd.Path = exe
	}
	cmd.Env = append(os.Environ(), "C19_RACE_DIR="+d, "GORACE=log_path="+filepath.Join(d, "r")+" halt_on_error=0 exitcode=0")
	cmd.Stdin, cmd.Stdout, cmd.Stderr = os.Stdin, os.Stdout, os.Stderr
	err = cmd.Run()
	os.RemoveAll(d)
	if err != nil {
		if ee, ok := err.(*exec.ExitError); ok {
			os.Exit(ee.ExitCode())
		}
		os.Exit(2)
	}
	os.Exit(0)
}

func c19Races() int {
	if c19RaceDir == "" {
		return 0
	}
	n := 0
	fs, _ := filepath.Glob(filepath.Join(c19RaceDir, "r*"))
	for _, f := range fs {
		b, _ := os.ReadFile(f)
		n += bytes.Count(b, []byte("WARNING: DATA RACE"))
	}
	return n
}

// ---------- in-memory duplex pipe with unbounded buffering ----------

type halfPipe struct {
	mu     sync.Mutex
	cond   *sync.Cond
	buf    []byte
	closed bool
}

func newHalf() *halfPipe { h := &halfPipe{}; h.cond = sync.NewCond(&h.mu); return h }

func (h *halfPipe) write(p []byte) (int, error) {
	h.mu.Lock()
	defer h.mu.Unlock()
	if h.closed {
		return 0, io.ErrClosedPipe
	}
	h.buf = append(h.buf, p...)
	h.cond.Broadcast()
	return len(p), nil
}

func (h *halfPipe) read(p []byte) (int, error) {
	h.mu.Lock()
	defer h.mu.Unlock()
	for len(h.buf) == 0 {
		if h.closed {
			return 0, io.EOF
		}
		h.cond.Wait()
	}
	n := copy(p, h.buf)
	h.buf = h.buf[n:]
	return n, nil
}

func (h *halfPipe) close() {
	h.mu.Lock()
	h.closed = true
	h.cond.Broadcast()
	h.mu.Unlock()
}

type duplex struct{ r, w *halfPipe }

func (d duplex) Read(p []byte) (int, error)  { return d.r.read(p) }
func (d duplex) Write(p []byte) (int, error) { return d.w.write(p) }
func (d duplex) Close()                      { d.r.close(); d.w.close() }

// ---------- scripts ----------

type c19Msg struct {
	op      ws.OpCode
	payload []byte
	ping    []byte // a ping with this payload precedes the message (nil: none)
	how     int    // which write API the client uses
	reply   int    // which write API the server uses
}

type c19Script struct {
	seed       int64
	compressed bool
	protos     []string
	pick       int
	msgs       []c19Msg
	closeCode  ws.StatusCode
	closeText  string
	small      bool
}

var c19Sizes = []int{0, 1, 2, 125, 126, 127, 128, 129, 1000, 4095, 4096, 4097, 20000, 65535, 65536, 65537, 131072}

func c19MakeScript(seed int64, big bool) c19Script {
	r := rand.New(rand.NewSource(seed))
	s := c19Script{seed: seed, compressed: r.Intn(3) == 0, closeCode: ws.StatusCode(1000 + r.Intn(4)), closeText: fmt.Sprintf("bye-%d", seed)}
	if s.closeCode == 1004 {
		s.closeCode = 3000
	}
	np := 1 + r.Intn(3)
	for i := 0; i < np; i++ {
		s.protos = append(s.protos, fmt.Sprintf("p%d-%d", seed%97, i))
	}
	s.pick = r.Intn(np)
	nm := 2 + r.Intn(4)
	s.small = !s.compressed && r.Intn(2) == 0
	for i := 0; i < nm; i++ {
		var n int
		switch {
		case s.small:
			n = r.Intn(48)
		case big && r.Intn(6) == 0:
			n = c19Sizes[len(c19Sizes)-1-r.Intn(5)]
		default:
			n = c19Sizes[r.Intn(len(c19Sizes)-6)]
			if r.Intn(3) == 0 {
				n += r.Intn(50)
			}
		}
		m := c19Msg{op: ws.OpBinary, how: r.Intn(4), reply: r.Intn(3)}
		m.payload = make([]byte, n)
		if r.Intn(2) == 0 {
			m.op = ws.OpText
			for j := range m.payload {
				m.payload[j] = byte('a' + r.Intn(26))
			}
		} else {
			r.Read(m.payload)
		}
		if r.Intn(3) == 0 {
			m.ping = []byte(fmt.Sprintf("ping-%d-%d", seed, i))
		}
		s.msgs = append(s.msgs, m)
	}
	return s
}

type transcript struct {
	mu sync.Mutex
	b  strings.Builder
}

func (t *transcript) add(format string, a ...interface{}) {
	t.mu.Lock()
	fmt.Fprintf(&t.b, format, a...)
	t.b.WriteByte(';')
	t.mu.Unlock()
}

func sum(p []byte) string { s := sha1.Sum(p); return hex.EncodeToString(s[:6]) }

func hsText(hs ws.Handshake) string {
	var b strings.Builder
	b.WriteString(hs.Protocol)
	for _, e := range hs.Extensions {
		b.WriteString("|" + string(e.Name))
		e.Parameters.ForEach(func(k, v []byte) bool { b.WriteString("," + string(k) + "=" + string(v)); return true })
	}
	return b.String()
}

func reverse(p []byte) []byte {
	o := make([]byte, len(p))
	for i := range p {
		o[len(p)-1-i] = p[i]
	}
	return o
}

// c19Client drives the client side; received records the payloads as the SERVER saw them
// (filled by the server side) for the model line.
// one Dialer value configured once and used (by value copy, as applications do) for every
// compressed session: its Extensions slice is shared by all of them. The offer is the bare
// extension name, so the server's answer (with both no_context_takeover parameters) differs from it.
var c19SharedDialer = ws.Dialer{Extensions: []httphead.Option{{Name: []byte("permessage-deflate")}}}

func c19Client(s c19Script, conn duplex, t *transcript) {
	d := ws.DefaultDialer
	if s.compressed {
		d = c19SharedDialer
		t.add("c:offer:%s", encOpts(d.Extensions))
	}
	d.Protocols = s.protos
	u, _ := url.Parse("ws://c19.test/s")
	br, hs, err := d.Upgrade(conn, u)
	if br != nil {
		ws.PutReader(br)
	}
	if err != nil {
		t.add("c:upgrade-error:%v", err)
		return
	}
	t.add("c:hs:%s", hsText(hs))
	for _, m := range s.msgs {
		if m.ping != nil {
			wsutil.WriteClientMessage(conn, ws.OpPing, m.ping)
		}
		switch {
		case s.compressed:
			f := ws.NewFrame(m.op, true, append([]byte(nil), m.payload...))
			f, err = wsflate.CompressFrame(f)
			if err != nil {
				t.add("c:compress-error:%v", err)
				return
			}
			f = ws.MaskFrameInPlace(f)
			err = ws.WriteFrame(conn, f)
		case m.how == 0 || len(m.payload) == 0: // (an empty Write + Flush sends no frame at all)
			err = wsutil.WriteClientMessage(conn, m.op, m.payload)
		case m.how == 1:
			w := wsutil.GetWriter(conn, ws.StateClientSide, m.op, 256)
			_, err = w.Write(m.payload)
			if err == nil {
				err = w.Flush()
			}
			wsutil.PutWriter(w)
		case m.how == 2:
			err = ws.WriteFrame(conn, ws.MaskFrame(ws.NewFrame(m.op, true, m.payload)))
		default:
			w := wsutil.NewWriterSize(conn, ws.StateClientSide, m.op, 1024)
			_, err = io.Copy(w, bytes.NewReader(m.payload))
			if err == nil {
				err = w.Flush()
			}
		}
		if err != nil {
			t.add("c:write-error:%v", err)
			return
		}
		// the reply
		var p []byte
		var op ws.OpCode
		if s.compressed {
			p, op, err = c19ReadCompressed(conn, ws.StateClientSide)
		} else {
			p, op, err = wsutil.ReadServerData(conn)
		}
		if err != nil {
			t.add("c:read-error:%v", err)
			return
		}
		t.add("c:msg:%d:%d:%s", op, len(p), sum(p))
		if !bytes.Equal(p, reverse(m.payload)) {
			t.add("c:WRONG-REPLY")
		}
	}
	wsutil.WriteClientMessage(conn, ws.OpClose, ws.NewCloseFrameBody(s.closeCode, s.closeText))
	for {
		var err error
		if s.compressed {
			_, _, err = c19ReadCompressed(conn, ws.StateClientSide)
		} else {
			_, _, err = wsutil.ReadServerData(conn)
		}
		if ce, ok := err.(wsutil.ClosedError); ok {
			t.add("c:closed:%d:%s", ce.Code, ce.Reason)
			return
		}
		if err != nil {
			t.add("c:close-read-error:%v", err)
			return
		}
	}
}

// c19ReadCompressed reads one data message with the frame-level API, handling control frames
// with the library's control handler and inflating a compressed frame.
func c19ReadCompressed(conn duplex, state ws.State) ([]byte, ws.OpCode, error) {
	for {
		f, err := ws.ReadFrame(conn)
		if err != nil {
			return nil, 0, err
		}

		if f.Header.Masked {
			f = ws.UnmaskFrameInPlace(f)
		}
		if f.Header.OpCode.IsControl() {
			h := wsutil.ControlHandler{Src: bytes.NewReader(f.Payload), Dst: conn, State: state, DisableSrcCiphering: true}
			if err := h.Handle(f.Header); err != nil {
				return nil, 0, err
			}
			continue
		}
		if ok, _ := wsflate.IsCompressed(f.Header); ok {
			f, err = wsflate.DecompressFrame(f)
			if err != nil {
				return nil, 0, err
			}
		}
		return f.Payload, f.Header.OpCode, nil
	}
}

func c19Server(s c19Script, conn duplex, t *transcript, received *[][]byte) {
	ext := wsflate.Extension{Parameters: wsflate.DefaultParameters}
	up := ws.Upgrader{
		Protocol: func(p []byte) bool { return string(p) == s.protos[s.pick] },
	}
	if s.seed%2 == 0 {
		up.Negotiate = ext.Negotiate
	}
	hs, err := up.Upgrade(conn)
	if err != nil {
		t.add("s:upgrade-error:%v", err)
		return
	}
	t.add("s:hs:%s", hsText(hs))
	_, compressed := ext.Accepted()
	for i := 0; ; i++ {
		var p []byte
		var op ws.OpCode
		if s.compressed {
			p, op, err = c19ReadCompressed(conn, ws.StateServerSide)
		} else {
			p, op, err = wsutil.ReadClientData(conn)
		}
		if ce, ok := err.(wsutil.ClosedError); ok {
			t.add("s:closed:%d:%s", ce.Code, ce.Reason)
			return
		}
		if err != nil {
			t.add("s:read-error:%v", err)
			return
		}
		t.add("s:msg:%d:%d:%s", op, len(p), sum(p))
		if received != nil {
			*received = append(*received, p)
		}
		reply := reverse(p)
		how := 0
		if i < len(s.msgs) {
			how = s.msgs[i].reply
		}
		switch {
		case s.compressed:
			// frame-level session: one frame per message, deflated when negotiated
			f := ws.NewFrame(op, true, reply)
			if compressed {
				f, err = wsflate.CompressFrame(f)
			}
			if err == nil {
				err = ws.WriteFrame(conn, f)
			}
		case how == 0 || len(reply) == 0:
			err = wsutil.WriteServerMessage(conn, op, reply)
		case how == 1:
			w := wsutil.GetWriter(conn, ws.StateServerSide, op, 512)
			_, err = w.Write(reply)
			if err == nil {
				err = w.Flush()
			}
			wsutil.PutWriter(w)
		default:
			err = ws.WriteFrame(conn, ws.NewFrame(op, true, reply))
		}
		if err != nil {
			t.add("s:write-error:%v", err)
			return
		}
	}
}

// c19Run runs one session to completion and returns its transcript.
func c19Run(s c19Script, received *[][]byte) string {
	a, b := newHalf(), newHalf()
	cl, sv := duplex{r: a, w: b}, duplex{r: b, w: a}
	var tc, ts transcript
	var wg sync.WaitGroup
	wg.Add(2)
	guard := func(t *transcript, who string) {
		if r := recover(); r != nil {
			t.add("%s:PANIC:%v", who, r)
		}
	}
	go func() { defer wg.Done(); defer sv.w.close(); defer guard(&ts, "s"); c19Server(s, sv, &ts, received) }()
	go func() { defer wg.Done(); defer cl.w.close(); defer guard(&tc, "c"); c19Client(s, cl, &tc) }()
	done := make(chan struct{})
	go func() { wg.Wait(); close(done) }()
	select {
	case <-done:
	case <-time.After(60 * time.Second):
		cl.Close()
		<-done
		return "TIMEOUT;" + tc.b.String() + "#" + ts.b.String()
	}
	return tc.b.String() + "#" + ts.b.String()
}

func c19Scenario(c *ctx, n, procs int, mixSeed int64) {
	old := runtime.GOMAXPROCS(procs)
	defer runtime.GOMAXPROCS(old)
	r := rand.New(rand.NewSource(mixSeed))
	scripts := make([]c19Script, n)
	solo := make([]string, n)
	races0 := c19Races()
	for i := range scripts {
		scripts[i] = c19MakeScript(r.Int63(), c.thor || i%8 == 0)
		solo[i] = c19Run(scripts[i], nil)
	}
	conc := make([]string, n)
	recv := make([][][]byte, n)
	var wg sync.WaitGroup
	start := make(chan struct{})
	for i := range scripts {
		wg.Add(1)
		go func(i int) {
			defer wg.Done()
			<-start
			conc[i] = c19Run(scripts[i], &recv[i])
		}(i)
	}
	close(start)
	wg.Wait()
	mism, first := 0, "-"
	for i := range scripts {
		if conc[i] != solo[i] || strings.Contains(solo[i], "error") || strings.Contains(solo[i], "WRONG") || strings.Contains(solo[i], "TIMEOUT") || strings.Contains(solo[i], "PANIC") {
			mism++
			if first == "-" {
				first = fmt.Sprintf("session%d/seed%d", i, scripts[i].seed)
			}
		}
	}
	time.Sleep(5 * time.Millisecond)
	races := c19Races() - races0
	c.emit("C19 %d %d %d %s -> %d %d %d ok %s", n, procs, mixSeed, b2s(raceEnabled), n-mism, mism, races, first)
	// model lines: sessions with small uncompressed payloads
	k := 0
	for i, s := range scripts {
		if !s.small || k >= 4 {
			continue
		}
		k++
		var ms [][]byte
		for _, m := range s.msgs {
			ms = append(ms, m.payload)
		}
		c.emit("C19M %d %s -> %s", s.seed%100000, hxl(ms), hxl(recv[i]))
	}
}

// c19Control commits a deliberate data race on a harness variable: the run is only meaningful
// if the race detector's report shows up in the log the harness counts from.
func c19Control(c *ctx) {
	before := c19Races()
	var x int
	var wg sync.WaitGroup
	for g := 0; g < 2; g++ {
		wg.Add(1)
		go func() { defer wg.Done(); x++ }()
	}
	wg.Wait()
	_ = x
	time.Sleep(5 * time.Millisecond)
	c.emit("C19X %s -> %d", b2s(raceEnabled), c19Races()-before)
}

func runC19(c *ctx) {
	c19Reexec()
	c19Control(c)
	type sc struct{ n, procs int }
	mix := []sc{{8, 1}, {8, 2}, {16, 16}, {32, 2}, {64, 16}, {16, 1}}
	if c.thor {
		mix = append(mix, sc{64, 1}, sc{64, 2}, sc{32, 16}, sc{48, 4}, sc{8, 16}, sc{64, 16}, sc{24, 3}, sc{64, 8})
	}
	for _, m := range mix {
		c19Scenario(c, m.n, m.procs, c.rng.Int63()%1000000)
	}
}
