package main

// Cases added after the eighth round of seeded changes (DESIGN 14.10).

import (
	"io/ioutil"
	"strings"

	"github.com/gobwas/ws"
)

func init() {
	r8Wrap := func(id string, extra func(*ctx)) {
		old := props[id]
		props[id] = func(c *ctx) {
			if old != nil {
				old(c)
			}
			extra(c)
		}
	}
	r8Wrap("C01", r8C01)
	r8Wrap("C02", r8C02)
	r8Wrap("C03", r8C03)
	// a destination that itself writes frames while it is being written to (a WebSocket tunnelled in a WebSocket, a
	// logging writer): re-entrancy into the library from inside Write
	dwDresses = append(dwDresses, "reentrant")
}

// reentrantWriter performs other library writes (to nowhere) before it records what it was given
type reentrantWriter struct{ rec *recWriter }

func (w reentrantWriter) Write(p []byte) (int, error) {
	ws.WriteHeader(ioutil.Discard, ws.Header{Fin: true, OpCode: ws.OpBinary, Length: 70000, Masked: true, Mask: [4]byte{0xde, 0xad, 0xbe, 0xef}})
	ws.WriteFrame(ioutil.Discard, ws.NewTextFrame([]byte(strings.Repeat("Z", 200))))
	ws.WriteFrame(ioutil.Discard, ws.MaskFrame(ws.NewCloseFrame(ws.NewCloseFrameBody(1001, "bye"))))
	return w.rec.Write(p)
}

// r8-C01: the header decoders over sources that return the LAST header bytes together with io.EOF or an error (a
// complete header is still a complete header), every hop boundary, undressed transports
func r8C01(c *ctx) {
	for _, n := range []int64{0, 5, 125, 126, 65535, 65536, 1 << 40} {
		for m := 0; m < 2; m++ {
			h := ws.Header{Fin: true, OpCode: ws.OpPing, Length: n, Masked: m == 1, Mask: [4]byte{1, 2, 3, 4}}
			if n > 125 {
				h.OpCode = ws.OpBinary
			}
			w := newRecWriter()
			ws.WriteHeader(w, h)
			hb := w.all()
			for _, tail := range []string{"eofdata", "faildata"} {
				for _, spec := range []string{"-", "2", "1,1", "2," + itoa(len(hb)-2), "1", "3"} {
					c01D(c, hb, spec, tail)
					if n == 0 {
						c01G(c, hb, spec, tail)
					}
				}
			}
		}
	}
}

func itoa(n int) string {
	if n <= 0 {
		return "1"
	}
	s := ""
	for n > 0 {
		s = string(rune('0'+n%10)) + s
		n /= 10
	}
	return s
}

// r8-C02: the legal all-zero masking key, and a key equal to the (stale) Mask field of an unmasked header, through every
// frame helper
func r8C02(c *ctx) {
	names := []string{"MaskFrame", "MaskFrameWith", "MaskFrameInPlace", "MaskFrameInPlaceWith", "UnmaskFrame", "UnmaskFrameInPlace"}
	for _, name := range names {
		for _, n := range []int{0, 1, 9, 40} {
			p := c.payload(n)
			for _, key := range [][4]byte{{0, 0, 0, 0}, {7, 7, 7, 7}} {
				h := ws.Header{Fin: true, OpCode: ws.OpBinary, Length: int64(n)}
				if strings.HasPrefix(name, "Unmask") {
					h.Masked = true
				}
				h.Mask = key // for Mask*: a stale key field on an unmasked header, equal to the key applied
				c02F(c, name, h, p, key)
				h.Mask = [4]byte{}
				c02F(c, name, h, p, key)
			}
		}
	}
}

// r8-C03: reasons far longer than a control frame can carry (256 and more, lengths that wrap an 8-bit counter): the
// body still holds the code and the first 123 bytes
func r8C03(c *ctx) {
	for _, n := range []int{131, 200, 255, 256, 257, 300, 378, 379, 380, 512, 600, 1000, 65535, 65536, 65541} {
		c03B(c, 1000, []byte(strings.Repeat("r", n)))
		c03B(c, 4999, []byte(strings.Repeat("\xc3\xa9", n/2)))
	}
}
