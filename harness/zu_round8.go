package main

// Cases added after the eighth round of seeded changes (DESIGN 14.10).

import (
	"bytes"
	"compress/flate"
	"context"
	"fmt"
	"io"
	"io/ioutil"
	"net"
	"os"
	"os/exec"
	"path/filepath"
	"strconv"
	"strings"
	"sync"
	"sync/atomic"
	"time"
	"unicode/utf8"

	"github.com/gobwas/httphead"
	"github.com/gobwas/ws"
	"github.com/gobwas/ws/wsflate"
	"github.com/gobwas/ws/wsutil"
)

func init() {
	r8Wrap := func(id string, extra func(*ctx)) {
		old := props[id]
		props[id] = func(c *ctx) {
			if old != nil {
				old(c)
			}
			extra(c)
		}
	}
	r8Wrap("C01", r8C01)
	r8Wrap("C02", r8C02)
	r8Wrap("C03", r8C03)
	r8Wrap("C12", r8C12)
	r8Wrap("C12", r8C12U)
	r8Wrap("C16", r8C12U)
	replayers["C12U"] = func(c *ctx, in []string) {
		k, _ := strconv.Atoi(in[1])
		c12U(c, unhx(in[0]), k, in[2] == "1")
	}
	r8Wrap("C06", r8C06)
	r8Wrap("C16", r8C16D)
	r8Wrap("C20", r8C16D)
	replayers["C16D"] = func(c *ctx, in []string) {
		k, _ := strconv.Atoi(in[1])
		c16D(c, in[0], k)
	}
	r8Wrap("C15", r8C15)
	r8Wrap("C09", r8C15)
	r8Wrap("C09", r8H09B)
	r8Wrap("C11", r8H09B)
	replayers["H09B"] = func(c *ctx, in []string) {
		h09Early = true
		defer func() { h09Early = false }()
		replayers["H09"](c, in)
	}
	r8Wrap("C20", r8C20)
	replayers["C20H"] = func(c *ctx, in []string) {
		a, _ := strconv.Atoi(in[0])
		b, _ := strconv.Atoi(in[1])
		c20H(c, a, b, in[2])
	}
	for _, id := range []string{"C04", "C07", "C18"} {
		r8Wrap(id, r8RDE)
	}
	replayers["RDE"] = func(c *ctx, in []string) {
		side, _ := strconv.Atoi(in[0])
		runRDE(c, byte(side), parseFrames(in[1]), in[2])
	}
	r8Wrap("C05", r8C05)
	r8Wrap("C08", r8C08RM)
	r8Wrap("C08", r8C08)
	r8Wrap("C16", r8C08)
	replayers["CHC"] = func(c *ctx, in []string) {
		a := func(i int) int { v, _ := strconv.Atoi(in[i]); return v }
		c08Cut(c, byte(a(0)), byte(a(1)), unhx(in[2]), in[3], in[4], a(5), in[6])
	}
	// the streams of r7 (a control frame in front of a fragmented text message with invalid continuation frames) also
	// under C18: a reader that has handled a frame reads the next message as a new reader would
	r8Wrap("C18", r7C07)
	r8Wrap("C19", r8C19F)
	props["c19first"] = func(c *ctx) { c19FirstChild() }
	replayers["C19F"] = func(c *ctx, in []string) { c19F(c, 0) }
	r8Wrap("C13", r8C13)
	r8Wrap("C14", r8C14)
	r8Wrap("C17", r8C14)
	replayers["C14A"] = func(c *ctx, in []string) {
		a := func(i int) int { v, _ := strconv.Atoi(in[i]); return v }
		c14A(c, c14cfg{snct: a(0) == 1, cnct: a(1) == 1, s: a(2), c: a(3)}, string(unhx(in[4])))
	}
	r8Wrap("C16", r8C12)
	replayers["C12WT"] = func(c *ctx, in []string) {
		k, _ := strconv.Atoi(in[1])
		c12WT(c, in[0], k, c12ParseOps(in[2]))
	}
	// a destination that itself writes frames while it is being written to (a WebSocket tunnelled in a WebSocket, a
	// logging writer): re-entrancy into the library from inside Write
	dwDresses = append(dwDresses, "reentrant")
}

// reentrantWriter performs other library writes (to nowhere) before it records what it was given
type reentrantWriter struct{ rec *recWriter }

func (w reentrantWriter) Write(p []byte) (int, error) {
	ws.WriteHeader(ioutil.Discard, ws.Header{Fin: true, OpCode: ws.OpBinary, Length: 70000, Masked: true, Mask: [4]byte{0xde, 0xad, 0xbe, 0xef}})
	ws.WriteFrame(ioutil.Discard, ws.NewTextFrame([]byte(strings.Repeat("Z", 200))))
	ws.WriteFrame(ioutil.Discard, ws.MaskFrame(ws.NewCloseFrame(ws.NewCloseFrameBody(1001, "bye"))))
	return w.rec.Write(p)
}

// r8-C01: the header decoders over sources that return the LAST header bytes together with io.EOF or an error (a
// complete header is still a complete header), every hop boundary, undressed transports
func r8C01(c *ctx) {
	for _, n := range []int64{0, 5, 125, 126, 65535, 65536, 1 << 40} {
		for m := 0; m < 2; m++ {
			h := ws.Header{Fin: true, OpCode: ws.OpPing, Length: n, Masked: m == 1, Mask: [4]byte{1, 2, 3, 4}}
			if n > 125 {
				h.OpCode = ws.OpBinary
			}
			w := newRecWriter()
			ws.WriteHeader(w, h)
			hb := w.all()
			for _, tail := range []string{"eofdata", "faildata"} {
				for _, spec := range []string{"-", "2", "1,1", "2," + itoa(len(hb)-2), "1", "3"} {
					c01D(c, hb, spec, tail)
					if n == 0 {
						c01G(c, hb, spec, tail)
					}
				}
			}
		}
	}
}

func itoa(n int) string {
	if n <= 0 {
		return "1"
	}
	s := ""
	for n > 0 {
		s = string(rune('0'+n%10)) + s
		n /= 10
	}
	return s
}

// r8-C02: the legal all-zero masking key, and a key equal to the (stale) Mask field of an unmasked header, through every
// frame helper
func r8C02(c *ctx) {
	names := []string{"MaskFrame", "MaskFrameWith", "MaskFrameInPlace", "MaskFrameInPlaceWith", "UnmaskFrame", "UnmaskFrameInPlace"}
	for _, name := range names {
		for _, n := range []int{0, 1, 9, 40} {
			p := c.payload(n)
			for _, key := range [][4]byte{{0, 0, 0, 0}, {7, 7, 7, 7}} {
				h := ws.Header{Fin: true, OpCode: ws.OpBinary, Length: int64(n)}
				if strings.HasPrefix(name, "Unmask") {
					h.Masked = true
				}
				h.Mask = key // for Mask*: a stale key field on an unmasked header, equal to the key applied
				c02F(c, name, h, p, key)
				h.Mask = [4]byte{}
				c02F(c, name, h, p, key)
			}
		}
	}
}

// r8-C03: reasons far longer than a control frame can carry (256 and more, lengths that wrap an 8-bit counter): the
// body still holds the code and the first 123 bytes
func r8C03(c *ctx) {
	// reasons of EVERY length 1..130 that end in a truncated multi-byte sequence (the sender cropped inside a character):
	// not valid UTF-8, whatever the length
	for n := 1; n <= 130; n++ {
		for _, tailSeq := range []string{"\xc3", "\xe2", "\xe2\x82", "\xf0\x9f", "\xf0\x9f\x98"} {
			if len(tailSeq) > n {
				continue
			}
			c03C(c, 1000, []byte(strings.Repeat("a", n-len(tailSeq))+tailSeq))
		}
	}
	for _, n := range []int{131, 200, 255, 256, 257, 300, 378, 379, 380, 512, 600, 1000, 65535, 65536, 65541} {
		c03B(c, 1000, []byte(strings.Repeat("r", n)))
		c03B(c, 4999, []byte(strings.Repeat("\xc3\xa9", n/2)))
	}
}

// r8-C12: a destination that refuses exactly ONE write and then works again (a deadline that expired once, a full
// socket buffer): the refused bytes are lost, so some operation must report the failure - a message that went out with a
// hole in it must not be reported as written.  C12WT <comp> <k> <ops> -> <results> <refused 0|1> <z>
type onceFailDst struct {
	log     [][]byte
	calls   int
	failAt  int
	refused bool
}

func (d *onceFailDst) Write(p []byte) (int, error) {
	d.calls++
	if d.calls-1 == d.failAt {
		d.refused = true
		return 0, errDst
	}
	d.log = append(d.log, append([]byte{}, p...))
	return len(p), nil
}

func c12WT(c *ctx, comp string, k int, ops []c12wop) {
	var taps []*tap
	dst := &onceFailDst{failAt: k}
	w := wsflate.NewWriter(dst, c12Ctor(comp, &taps))
	var res []string
	var accepted []byte
	z := "-"
	for _, o := range ops {
		n := 0
		var err error
		switch o.kind {
		case 'W':
			n, err = w.Write(o.data)
			accepted = append(accepted, o.data[:n]...)
		case 'F':
			err = w.Flush()
		case 'C':
			err = w.Close()
		}
		res = append(res, strconv.Itoa(n)+":"+b2s(err == nil))
		if err == nil && (o.kind == 'F' || o.kind == 'C') {
			var flat []byte
			for _, ch := range dst.log {
				flat = append(flat, ch...)
			}
			if !getPy().ok {
				z = "na"
			} else if out, ok := getPy().inflate(append(flat, 0, 0, 0xff, 0xff)); ok && bytes.Equal(out, accepted) {
				z = "1"
			} else {
				z = "0"
			}
		}
	}
	c.emit("C12WT %s %d %s -> %s %d %s", comp, k, c12OpsTok(ops), joinOrDash(res), b2i(dst.refused), z)
}

func r8C12(c *ctx) {
	big := patBytes(6000, 5) // incompressible enough to leave in several destination writes
	small := []byte("hello, hello, hello")
	hists := [][]c12wop{
		{{'W', big}, {'F', nil}},
		{{'W', small}, {'F', nil}, {'W', big}, {'F', nil}},
		{{'W', big}, {'W', big}, {'C', nil}},
		{{'W', small}, {'F', nil}, {'W', small}, {'F', nil}, {'W', small}, {'C', nil}},
	}
	for _, comp := range []string{"f1", "f-2", "fnc1"} {
		for hi, h := range hists {
			for k := 0; k < 8; k++ {
				if !c.thor && (hi+k)%2 == 1 && k > 3 {
					continue
				}
				c12WT(c, comp, k, h)
			}
		}
	}
	// compressors whose whole output is a proper suffix of the tail (1-3 bytes): not a conforming flush
	for _, comp := range []string{"suffix1", "suffix2", "suffix3"} {
		c12W(c, comp, -1, []c12wop{{'W', small}, {'F', nil}})
		c12W(c, comp, -1, []c12wop{{'F', nil}})
		c12W(c, comp, -1, []c12wop{{'W', nil}, {'C', nil}})
	}
}

// r8-C06: ReadFrom with sources of other concrete types (io.WriterTo: *bytes.Reader, *bytes.Buffer, *strings.Reader,
// *bufio.Reader), EMPTY sources included: a copy of nothing still starts (and the flush ends) a message
func r8C06(c *ctx) {
	for _, side := range []byte{1, 2} {
		for _, ctor := range []string{"s125", "s5", "d0"} {
			for di, d := range []string{"BR", "BB", "SR", "B16"} {
				cfg := wcfg{ctor, side, byte(1 + di%2), "-"}
				runWH(c, "WH", cfg, "r0/1/-/"+d+",fl,w3/2,fl", "-")
				runWH(c, "WH", cfg, "r5/1/-/"+d+",fl,r0/2/-/"+d+",fl", "-")
				runWH(c, "WH", cfg, "w2/1,r300/2/-/"+d+",fl,r0/3/-/"+d+",r4/4/-/"+d+",fl", "-")
			}
		}
	}
}

// r8-C13b: a writer that carried a compressing extension, handed to another owner through Reset / the pool, who attaches
// nothing: its messages carry no RSV1 (the W18 comparison with a fresh writer, so far under C18 only, also under C13)
func r8C13(c *ctx) {
	for _, p := range []struct {
		ctor  string
		state byte
	}{{"s125", 1}, {"s125", 2}, {"u132", 1}, {"u136", 2}} {
		for _, mode := range []string{"reset", "pool"} {
			cfg := wcfg{p.ctor, p.state | 4, 1, "1"}
			runW18(c, cfg, "w3/1,fl", "-", mode, p.state, 1, "w3/1,fl,w200/2,fl")
			runW18(c, cfg, "w3/1,ff,w2/2", "-", mode, p.state, 2, "w5/1,ff,w5/2,fl")
		}
	}
}

// r8-C14: the answer of Negotiate must not live in the OFFER's memory (the caller - the Upgrader's read buffer - reuses
// it before the response is written).  C14A <cfg> <offer> -> <accepted 0|1> <answer before> <answer after the offer's
// memory was overwritten>
func c14A(c *ctx, g c14cfg, offer string) {
	buf := []byte(offer)
	opts, ok := httphead.ParseOptions(buf, nil) // zero copy: the options point into buf
	if !ok || len(opts) == 0 {
		return
	}
	e := wsflate.Extension{Parameters: g.params()}
	ans, err := e.Negotiate(opts[0])
	enc := func(o httphead.Option) string {
		var b bytes.Buffer
		httphead.WriteOptions(&b, []httphead.Option{o})
		return hx(b.Bytes())
	}
	before := "-"
	if err == nil {
		before = enc(ans)
	}
	for i := range buf {
		buf[i] = 'c'
	}
	after := "-"
	if err == nil {
		after = enc(ans)
	}
	c.emit("C14A %s %s -> %d %s %s", g, hx([]byte(offer)), b2i(err == nil), before, after)
}

func r8C14(c *ctx) {
	cfgs := []c14cfg{{}, {snct: true}, {cnct: true}, {s: 10}, {c: 12}, {snct: true, cnct: true, s: 9, c: 15}}
	offers := []string{"permessage-deflate", "permessage-deflate; server_no_context_takeover", "permessage-deflate; client_no_context_takeover",
		"permessage-deflate; server_max_window_bits=10", "permessage-deflate; client_max_window_bits=12", "permessage-deflate; client_max_window_bits",
		"permessage-deflate; server_no_context_takeover; client_no_context_takeover; server_max_window_bits=9; client_max_window_bits=15"}
	for _, g := range cfgs {
		for _, o := range offers {
			c14A(c, g, o)
		}
	}
}

// r8-C19b: FIRST use in a process, concurrently. State that the library initialises lazily (a table filled on first
// use) is raced over only by the first sessions of a process; the C19 runs execute every script alone first, which would
// hide it. A child process (race build) does nothing but start goroutines that, released together, each make the first
// use of the negotiation / parsing / handshake / control paths; the parent counts the race reports of the child.
//
//	C19F <round> <race build 0|1> -> <race reports> <child ok 0|1>
func c19FirstChild() {
	start := make(chan struct{})
	var wg sync.WaitGroup
	for g := 0; g < 8; g++ {
		wg.Add(1)
		go func(g int) {
			defer wg.Done()
			defer func() { recover() }()
			<-start
			bits := []string{"8", "9", "10", "11", "12", "13", "14", "15"}[g%8]
			opts, _ := httphead.ParseOptions([]byte("permessage-deflate; server_max_window_bits="+bits+"; client_max_window_bits="+bits), nil)
			var p wsflate.Parameters
			for _, o := range opts {
				p.Parse(o)
				e := wsflate.Extension{Parameters: wsflate.Parameters{ServerMaxWindowBits: 15, ClientMaxWindowBits: wsflate.WindowBits(8 + g%8)}}
				e.Negotiate(o)
			}
			_ = p.Option()
			sc := &chunkConn{chunks: [][]byte{c19nRequest("f")}, tail: io.EOF}
			e2 := wsflate.Extension{Parameters: wsflate.DefaultParameters}
			ws.Upgrader{Negotiate: e2.Negotiate}.Upgrade(sc)
			c19nDial("f", "101", func(string) {})
			body := ws.NewCloseFrameBody(ws.StatusNormalClosure, strings.Repeat("y", 70))
			wsutil.ControlHandler{Src: bytes.NewReader(body), Dst: ioutil.Discard, State: ws.StateServerSide, DisableSrcCiphering: true}.HandleClose(ws.Header{Fin: true, OpCode: ws.OpClose, Length: int64(len(body))})
			wsutil.WriteClientMessage(ioutil.Discard, ws.OpText, body)
			h := wsflate.DefaultHelper
			if f, err := h.CompressFrame(ws.NewTextFrame(body)); err == nil {
				h.DecompressFrame(f)
			}
		}(g)
	}
	close(start)
	wg.Wait()
}

func c19F(c *ctx, round int) {
	d, err := os.MkdirTemp("", "c19first")
	if err != nil {
		return
	}
	defer os.RemoveAll(d)
	cmd := exec.Command(os.Args[0], "c19first")
	if exe, err := os.Executable(); err == nil {
		cmd.Path = exe
	}
	cmd.Env = append(os.Environ(), "C19_RACE_DIR="+d, "GORACE=log_path="+filepath.Join(d, "r")+" halt_on_error=0 exitcode=0")
	done := make(chan error, 1)
	if err := cmd.Start(); err != nil {
		c.emit("C19F %d %s -> 0 0", round, b2s(raceEnabled))
		return
	}
	go func() { done <- cmd.Wait() }()
	ok := 1
	select {
	case err := <-done:
		if err != nil {
			ok = 0
		}
	case <-time.After(60 * time.Second):
		cmd.Process.Kill()
		ok = 0
	}
	n := 0
	fs, _ := filepath.Glob(filepath.Join(d, "r*"))
	for _, f := range fs {
		b, _ := os.ReadFile(f)
		n += bytes.Count(b, []byte("WARNING: DATA RACE"))
	}
	c.emit("C19F %d %s -> %d %d", round, b2s(raceEnabled), n, ok)
}

func r8C19F(c *ctx) {
	for round := 0; round < 4; round++ {
		c19F(c, round)
	}
}

// r8-C08b: a control frame whose payload does NOT arrive completely (source ends or fails after k < Length bytes) through
// the handler entry points: no reply is written for it and an error is reported.
//
//	CHC <side> <op> <payload> <key|-> <entry> <k> <tail> -> <destination writes> <result class>
func c08Cut(c *ctx, side, op byte, payload []byte, key string, entry string, k int, tail string) {
	dst := newRecWriter()
	state := ws.State(side)
	h := ws.Header{Fin: true, OpCode: ws.OpCode(op), Length: int64(len(payload))}
	srcBytes := append([]byte(nil), payload...)
	masked := key != "-" && side == 1
	if masked {
		h.Masked = true
		copy(h.Mask[:], unhx(key))
		ws.Cipher(srcBytes, h.Mask, 0)
	}
	var err error
	func() {
		defer func() {
			if r := recover(); r != nil {
				err = fmt.Errorf("panic: %v", r)
			}
		}()
		switch entry {
		case "handle":
			err = wsutil.ControlHandler{Src: newChunkReader(srcBytes[:k], "r3", tail), Dst: dst, State: state, DisableSrcCiphering: !masked}.Handle(h)
		default:
			err = wsutil.ControlFrameHandler(dst, state)(h, newChunkReader(payload[:k], "r3", tail))
		}
	}()
	c.emit("CHC %d %d %s %s %s %d %s -> %s %s", side, op, hx(payload), key, entry, k, tail, hxList(dst.calls), hresClass(err))
}

func r8C08(c *ctx) {
	for _, side := range []byte{1, 2} {
		for _, op := range []byte{8, 9, 10} {
			for _, n := range []int{2, 10, 70, 125} {
				p := c.payload(n)
				if op == 8 {
					p[0], p[1] = 0x03, 0xe8
					for i := 2; i < n; i++ {
						p[i] = byte('a' + i%26)
					}
				}
				for _, k := range []int{0, 1, n / 2, n - 1} {
					if k >= n {
						continue
					}
					// the handler's contract: Src yields the payload and then ends; a source that is CUT says so with an
					// error (as the Reader's frame reader does: io.ErrUnexpectedEOF) - a clean EOF after k bytes would be
					// indistinguishable from a shorter payload, so only failing tails are judged here
					for ti, tail := range []string{"fail", "faildata"} {
						key := "-"
						if side == 1 && (k+ti)%2 == 0 {
							key = "01020304"
						}
						c08Cut(c, side, op, p, key, []string{"handle", "cfh"}[(k+ti)%2], k, tail)
					}
				}
			}
		}
	}
}

// r8-C18b / r8-C07: a reader goes on after an invalid text message. RDE: every message is read to its end; when Read
// reports invalid UTF-8 the message is discarded (Discard) and the loop goes on with the next message, which must be
// judged exactly as a new reader would judge it. Verdict per message against unicode/utf8 on the concatenated payload
// (text) or "ok" (binary; top-level control frames: their payload is never subject to the check).
//
//	RDE <side> <frames> <bufs> -> <observed verdicts> <expected verdicts> <final error class>
func runRDE(c *ctx, side byte, fs []sframe, bufs string) {
	w := wireOf(fs)
	var evs []event
	var ms wsflate.MessageState
	rd := newReader(bytes.NewReader(w), rcfg{state: side, chk: true, cb: 1}, &evs, &ms)
	sizes := intsSpec(bufs)
	var got []string
	final := "eof"
	for m := 0; m < len(fs)+2; m++ {
		hdr, err := rd.NextFrame()
		if err != nil {
			final = readErrClass(err)
			break
		}
		verdict := ""
		for i := 0; verdict == "" && i < 2*len(w)+10; i++ {
			_, e := rd.Read(make([]byte, sizes[i%len(sizes)]))
			switch {
			case e == io.EOF:
				verdict = "ok"
			case e == wsutil.ErrInvalidUTF8:
				verdict = "invalid"
				if de := rd.Discard(); de != nil {
					verdict = "invalid+" + readErrClass(de)
				}
			case e != nil:
				verdict = "err:" + readErrClass(e)
			}
		}
		got = append(got, fmt.Sprintf("%d:%s", hdr.OpCode, verdict))
		if strings.HasPrefix(verdict, "err:") {
			break
		}
	}
	// expected
	var want []string
	var cur []byte
	var curOp byte
	open := false
	for _, f := range fs {
		switch {
		case f.op >= 8 && !open:
			want = append(want, fmt.Sprintf("%d:ok", f.op))
		case f.op >= 8:
			// intermediate: handled by the callback, not a message of its own
		default:
			if !open {
				cur, curOp, open = nil, f.op, true
			}
			cur = append(cur, f.payload...)
			if f.fin {
				v := "ok"
				if curOp == 1 && !utf8.Valid(cur) {
					v = "invalid"
				}
				want = append(want, fmt.Sprintf("%d:%s", curOp, v))
				open = false
			}
		}
	}
	c.emit("RDE %d %s %s -> %s %s %s", side, framesTok(fs), bufs, strings.Join(got, ","), strings.Join(want, ","), final)
}

func r8RDE(c *ctx) {
	for _, side := range []byte{1, 2} {
		mk := func(op byte, fin bool, p string) sframe {
			f := c.mkFrame(side, fin, op, 0)
			f.payload = []byte(p)
			return f
		}
		bads := [][]sframe{
			{mk(1, true, "ab\xff")}, {mk(1, true, "caf\xc3")}, {mk(1, false, "ab"), mk(0, true, "\xe2\x82")}, {mk(1, false, "x\xe2"), mk(0, true, "")},
			{mk(1, false, "ok"), mk(0, false, "\xff"), mk(0, true, "tail")}, {mk(1, true, "\xed\xa0\x80")},
		}
		nexts := [][]sframe{
			{mk(1, true, "valid \xe2\x82\xac text")}, {mk(2, true, "\xff\xfe binary")}, {mk(1, false, "\xc3"), mk(0, true, "\xa9")},
			{mk(9, true, "\xff"), mk(1, true, "after a ping with a non-UTF-8 payload")}, {mk(10, true, "\xc3"), mk(2, true, "b")}, {mk(1, true, "\xac starts with a continuation byte")},
		}
		for bi, b := range bads {
			for ni, n := range nexts {
				fs := append(append([]sframe(nil), b...), n...)
				fs = append(fs, mk(1, true, "last"))
				runRDE(c, side, fs, bufSpecs[(bi+ni)%len(bufSpecs)])
			}
		}
		// control frames with payloads that are not UTF-8, alone between valid messages
		for _, op := range []byte{9, 10} {
			runRDE(c, side, []sframe{mk(1, true, "one"), mk(op, true, "\xff\xfe\xfd"), mk(1, true, "two"), mk(op, true, "\xe2\x82"), mk(2, true, "\xac")}, "4096")
		}
	}
}

// r8-C05: a 64-bit length with its top bit set is refused by BOTH decoders, whatever the low bits say (a header
// announcing 0x8000000000000005 followed by 5 bytes is not a 5-byte frame), alone and behind valid frames, with and
// without a size limit
func r8C05(c *ctx) {
	for _, side := range []byte{1, 2} {
		for _, low := range []uint64{0, 5, 125, 126, 70000} {
			for _, hi := range []uint64{1 << 63, 0xff << 56, 1<<63 | 1<<32} {
				b := []byte{0x82, 127}
				if side == 1 {
					b[1] |= 0x80
				}
				v := hi | low
				for s := 56; s >= 0; s -= 8 {
					b = append(b, byte(v>>uint(s)))
				}
				if side == 1 {
					b = append(b, 1, 2, 3, 4)
				}
				b = append(b, bytes.Repeat([]byte{'x'}, int(low%200))...)
				c01D(c, b, "-", "eof")
				pre := wireOf([]sframe{c.mkFrame(side, true, 1, 3)})
				for _, e := range []string{"rd", "rm", "rx"} {
					entry := e + strconv.Itoa(int(side))
					fz(c, entry, b)
					fz(c, entry, append(append([]byte(nil), pre...), b...))
				}
				fz(c, "rd"+strconv.Itoa(int(side))+"m", b)
			}
		}
	}
}

// r8-C08: SEVERAL control frames between the fragments of one message through ReadMessage: every returned control message
// keeps its own payload (they are then answered by HandleControlMessage: the pong for the first ping carries the first
// ping's bytes)
func r8C08RM(c *ctx) {
	for _, side := range []byte{1, 2} {
		for _, sizes := range [][]int{{5, 7}, {70, 70}, {125, 1}, {40, 40, 40, 40}, {0, 3, 0}, {125, 125, 125}} {
			fs := []sframe{c.mkFrame(side, false, 2, 4)}
			for i, n := range sizes {
				f := c.mkFrame(side, true, []byte{9, 10}[i%2], 0)
				f.payload = patBytes(n, i+11)
				fs = append(fs, f, c.mkFrame(side, false, 0, 2))
			}
			fs = append(fs, c.mkFrame(side, true, 0, 3))
			runRM(c, "RM", side, fs, "-", chunkSpecs[len(sizes)%len(chunkSpecs)], "eof")
			// ... and each of them answered
			msgs, err := wsutil.ReadMessage(bytes.NewReader(wireOf(fs)), ws.State(side), nil)
			if err != nil {
				continue
			}
			for _, m := range msgs {
				if m.OpCode.IsControl() {
					c08H(c, side, byte(m.OpCode), m.Payload, "-", "hcm2", "-")
				}
			}
		}
	}
}

// r8-C20: the context ends while the REQUEST is still being written: a long Dialer.Header does not fit the write buffer,
// so the handshake writes to the conn several times, and the peer does not read. The error is the context's error.
//
//	C20H <header bytes> <wbuf> <mode> -> <returned|hang> <error class> <closed at return 0|1>
func c20H(c *ctx, hdrlen, wbuf int, mode string) {
	var tc *c20TrackConn
	d := ws.Dialer{
		WriteBufferSize: wbuf,
		Header:          ws.HandshakeHeaderBytes([]byte("X-Long: " + strings.Repeat("h", hdrlen) + "\r\n")),
		NetDial: func(ctx context.Context, network, addr string) (net.Conn, error) {
			cl, _ := net.Pipe() // the far end never reads: every Write blocks until a deadline
			tc = &c20TrackConn{Conn: cl}
			return tc, nil
		}}
	ctx := context.Background()
	var cancel context.CancelFunc = func() {}
	switch mode {
	case "ctxdl":
		ctx, cancel = context.WithTimeout(ctx, 60*time.Millisecond)
	case "cancel":
		ctx, cancel = context.WithCancel(ctx)
		go func() { time.Sleep(60 * time.Millisecond); cancel() }()
	case "done":
		ctx, cancel = context.WithCancel(ctx)
		cancel()
	}
	defer cancel()
	type res struct {
		err error
		at  bool
	}
	done := make(chan res, 1)
	go func() {
		_, _, _, err := d.Dial(ctx, "ws://silent.example/")
		done <- res{err, tc == nil || atomic.LoadInt32(&tc.closed) == 1}
	}()
	out, cls, at := "returned", "-", 0
	select {
	case r := <-done:
		at = b2i(r.at)
		switch {
		case r.err == nil:
			cls = "nil"
		case r.err == context.DeadlineExceeded:
			cls = "deadline"
		case r.err == context.Canceled:
			cls = "canceled"
		default:
			cls = "other"
		}
	case <-time.After(3 * time.Second):
		out = "hang"
		if tc != nil {
			tc.Close()
		}
	}
	c.emit("C20H %d %d %s -> %s %s %d", hdrlen, wbuf, mode, out, cls, at)
}

func r8C20(c *ctx) {
	for _, mode := range []string{"ctxdl", "cancel", "done"} {
		for _, hl := range []int{0, 5000, 20000} {
			for _, wbuf := range []int{0, 64} {
				c20H(c, hl, wbuf, mode)
			}
		}
	}
}

// r8-C11b: the HTTP upgrader when the HTTP server has already buffered client bytes behind the request head (request and
// first frame in one segment): same outcome as when they arrive later (H09B, judged as H09)
func r8H09B(c *ctx) {
	h09Early = true
	defer func() { h09Early = false }()
	for _, v := range [][2]int{{1, 1}, {1, 0}} {
		h09(c, "up", "GET", v[0], v[1], "example.com", mandMap(""), nil, nil, nil, nil)
		h09(c, "ws", "GET", v[0], v[1], "example.com", mandMap(""), nil, nil, nil, nil)
	}
	h09(c, "up", "GET", 1, 1, "h", mandMap("Upgrade"), nil, nil, nil, nil)
	sel := []string{"chat"}
	h09(c, "up", "GET", 1, 1, "h", append(mandMap(""), hmEntry{"Sec-Websocket-Protocol", []string{"chat, superchat"}}), nil, &sel, nil, nil)
}

// r8-C16b: a compressed message whose source is CUT after k bytes and says so (io.ErrUnexpectedEOF, what the frame reader
// reports): the decompression reader reports an error at every k - also when k falls on a DEFLATE block boundary, where
// the bytes so far plus the tail would inflate cleanly to a prefix of the message.
//
//	C12U <compressed message> <k> <byte reader 0|1> -> <error 0|1> <bytes delivered>
func c12U(c *ctx, msg []byte, k int, br bool) {
	src := newSrc([][]byte{msg[:k]}, "uex", br)
	r := wsflate.NewReader(src, func(r io.Reader) wsflate.Decompressor { return flate.NewReader(r) })
	out, err := ioutil.ReadAll(r)
	c.emit("C12U %s %d %d -> %d %d", hx(msg), k, b2i(br), b2i(err != nil), len(out))
}

func r8C12U(c *ctx) {
	// suffixedReader itself
	base := []byte{0x61, 0, 0, 0xff, 0xff, 0x62}
	for n := 0; n <= len(base); n++ {
		for br := 0; br < 2; br++ {
			c12S(c, br == 1, "uex", [][]byte{base[:n]}, []string{"r4", "r4", "r4", "r4", "r4"})
			if br == 1 {
				c12S(c, true, "uex", [][]byte{base[:n]}, []string{"b", "b", "b", "b", "b", "b", "b", "b", "b", "b", "b", "b"})
			}
		}
	}
	// a message of several blocks (each Flush ends one), cut at every offset
	var b bytes.Buffer
	w := wsflate.NewWriter(&b, func(w io.Writer) wsflate.Compressor { f, _ := flate.NewWriter(w, 6); return f })
	for i := 0; i < 4; i++ {
		w.Write(bytes.Repeat([]byte{byte('a' + i)}, 60+i))
		w.Flush()
	}
	msg := append([]byte(nil), b.Bytes()...)
	for k := 0; k < len(msg); k++ {
		c12U(c, msg, k, k%2 == 0)
	}
}

// r8-C15: Sec-WebSocket-Key values of 24 characters that are NOT the base64 form of 16 bytes (no padding, one '=', padding
// overwritten, characters outside the alphabet, 24 bytes above 127): a value or an error, never a panic - both upgraders
func r8C15(c *ctx) {
	keys := []string{
		strings.Repeat("A", 24), strings.Repeat("A", 23) + "=", "dGhlIHNhbXBsZSBub25jZQAA", "dGhlIHNhbXBsZSBub25jZQ=A", "dGhlIHNhbXBsZSBub25jZQA=",
		strings.Repeat("/", 24), strings.Repeat("+", 22) + "==", strings.Repeat("=", 24), strings.Repeat("-", 24), strings.Repeat("_", 22) + "==",
		strings.Repeat("\xff", 24), strings.Repeat(" ", 24), "dGhlIHNhbXBsZSBub25jZQ==", strings.Repeat("A", 25), strings.Repeat("A", 22), "",
		"AAAAAAAAAAAAAAAAAAAAAAAAAAAAAAAA", strings.Repeat("A", 21) + "=A=", "====" + strings.Repeat("A", 20),
	}
	for _, k := range keys {
		req := "GET /ws HTTP/1.1\r\nHost: example.com\r\nUpgrade: websocket\r\nConnection: Upgrade\r\nSec-WebSocket-Version: 13\r\nSec-WebSocket-Key: " + k + "\r\n\r\n"
		fz(c, "up", []byte(req))
		fz(c, "upn", []byte(req))
		hdr := []hmEntry{{"Upgrade", []string{"websocket"}}, {"Connection", []string{"Upgrade"}}, {"Sec-Websocket-Version", []string{"13"}}, {"Sec-Websocket-Key", []string{k}}}
		h09(c, "up", "GET", 1, 1, "example.com", hdr, nil, nil, nil, nil)
	}
}

// r8-C16: Dial (context alive, not Background) over a conn whose Read delivers the first k bytes of a valid response and
// then fails with a TIMEOUT-type error of its own (a read deadline set by someone else, an i/o timeout of a proxy
// layer): the handshake was cut, Dial must report an error.
//
//	C16D <ctx kind> <k> -> <error 0|1> <class>
type c16dConn struct {
	net.Conn
	resp  []byte
	k     int
	given int
	in    bytes.Buffer
}

func (f *c16dConn) Write(p []byte) (int, error) { return f.in.Write(p) }
func (f *c16dConn) Read(p []byte) (int, error) {
	if f.resp == nil {
		f.resp = substAccept([]byte("HTTP/1.1 101 Switching Protocols\r\nUpgrade: websocket\r\nConnection: Upgrade\r\nSec-WebSocket-Accept: @@ACCEPT@@\r\n\r\n"), keyOfRequest(f.in.Bytes()))
	}
	end := f.k
	if end > len(f.resp) {
		end = len(f.resp)
	}
	if f.given >= end {
		return 0, errTimeout
	}
	n := copy(p, f.resp[f.given:end])
	f.given += n
	return n, nil
}
func (f *c16dConn) Close() error                     { return nil }
func (f *c16dConn) SetDeadline(time.Time) error      { return nil }
func (f *c16dConn) SetReadDeadline(time.Time) error  { return nil }
func (f *c16dConn) SetWriteDeadline(time.Time) error { return nil }

func c16D(c *ctx, kind string, k int) {
	ctx := context.Background()
	var cancel context.CancelFunc = func() {}
	switch kind {
	case "cancel":
		ctx, cancel = context.WithCancel(ctx)
	case "deadline":
		ctx, cancel = context.WithTimeout(ctx, time.Minute)
	case "value":
		ctx = context.WithValue(ctx, c16dKey{}, 1)
	}
	defer cancel()
	d := ws.Dialer{NetDial: func(ctx context.Context, network, addr string) (net.Conn, error) { return &c16dConn{k: k}, nil }}
	if kind == "timeout" {
		d.Timeout = time.Minute
	}
	cls := "hang"
	iserr := 0
	done := make(chan struct{})
	go func() {
		defer close(done)
		defer func() {
			if recover() != nil {
				cls = "panic"
			}
		}()
		_, br, _, err := d.Dial(ctx, "ws://c16d.example/")
		if br != nil {
			ws.PutReader(br)
		}
		cls = errClass(err)
		iserr = b2i(err != nil)
	}()
	select {
	case <-done:
	case <-time.After(3 * time.Second):
	}
	c.emit("C16D %s %d -> %d %s", kind, k, iserr, cls)
}

type c16dKey struct{}

func r8C16D(c *ctx) {
	for _, kind := range []string{"bg", "cancel", "deadline", "value", "timeout"} {
		for _, k := range []int{0, 1, 10, 40, 80, 120, 127, 128} {
			c16D(c, kind, k)
		}
	}
}
