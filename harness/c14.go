package main

// C14 — permessage-deflate negotiation.  Kinds:
//
//	C14N snct cnct smwb cmwb OPS -> ANSWERS STATES FRESH
//	   OPS     comma list of  R (Reset)  |  O<offer>
//	   <offer> hexname{;hexkey | ;hexkey=hexval}      ("=-" is a present, empty value)
//	   ANSWERS per O op:  E (error) | Z (zero option) | P (panic) | A<offer>
//	   STATES  per op:    accepted:snct:cnct:smwb:cmwb  from Extension.Accepted()
//	   FRESH   per O op:  the answer of a new Extension{Parameters: cfg} to that offer
//	C14P <offer> -> ok snct cnct smwb cmwb             Parameters.Parse directly
//	C14O snct cnct smwb cmwb -> <offer>|P ok snct cnct smwb cmwb    Option() then Parse()
//	C14U snct cnct smwb cmwb LINES -> status RESP FRESH
//	   LINES   header lines separated by "|", each a comma list of <offer>; sent as
//	           Sec-WebSocket-Extensions headers to ws.Upgrader{Negotiate: ext.Negotiate}
//	   RESP    options of the Sec-WebSocket-Extensions response header ("-" if none)

import (
	"bytes"
	"fmt"
	"strconv"
	"strings"

	"github.com/gobwas/httphead"
	"github.com/gobwas/ws"
	"github.com/gobwas/ws/wsflate"
)

type c14param struct {
	key, val []byte
	hasVal   bool
}
type c14offer struct {
	name   []byte
	params []c14param
}

func (o c14offer) String() string {
	var b strings.Builder
	b.WriteString(hx(o.name))
	for _, p := range o.params {
		b.WriteByte(';')
		b.WriteString(hx(p.key))
		if p.hasVal {
			b.WriteByte('=')
			b.WriteString(hx(p.val))
		}
	}
	return b.String()
}

func c14ParseOffer(s string) c14offer {
	parts := strings.Split(s, ";")
	o := c14offer{name: unhx(parts[0])}
	for _, p := range parts[1:] {
		if i := strings.IndexByte(p, '='); i >= 0 {
			v := unhx(p[i+1:])
			if v == nil {
				v = []byte{}
			}
			o.params = append(o.params, c14param{key: unhx(p[:i]), val: v, hasVal: true})
		} else {
			o.params = append(o.params, c14param{key: unhx(p)})
		}
	}
	return o
}

func (o c14offer) option() httphead.Option {
	opt := httphead.Option{Name: append([]byte(nil), o.name...)}
	for _, p := range o.params {
		var v []byte
		if p.hasVal {
			v = append([]byte{}, p.val...)
		}
		opt.Parameters.Set(append([]byte(nil), p.key...), v)
	}
	return opt
}

func c14FromOption(opt httphead.Option) c14offer {
	o := c14offer{name: opt.Name}
	opt.Parameters.ForEach(func(k, v []byte) bool {
		o.params = append(o.params, c14param{key: k, val: v, hasVal: len(v) > 0})
		return true
	})
	return o
}

type c14cfg struct {
	snct, cnct bool
	s, c       int
}

func (g c14cfg) String() string {
	return fmt.Sprintf("%d %d %d %d", b2i(g.snct), b2i(g.cnct), g.s, g.c)
}
func (g c14cfg) params() wsflate.Parameters {
	return wsflate.Parameters{ServerNoContextTakeover: g.snct, ClientNoContextTakeover: g.cnct,
		ServerMaxWindowBits: wsflate.WindowBits(g.s), ClientMaxWindowBits: wsflate.WindowBits(g.c)}
}
func c14CfgOf(in []string) c14cfg {
	a, _ := strconv.Atoi(in[0])
	b, _ := strconv.Atoi(in[1])
	s, _ := strconv.Atoi(in[2])
	c, _ := strconv.Atoi(in[3])
	return c14cfg{a != 0, b != 0, s, c}
}
func c14ParamsTok(p wsflate.Parameters, sep string) string {
	return fmt.Sprintf("%d%s%d%s%d%s%d", b2i(p.ServerNoContextTakeover), sep, b2i(p.ClientNoContextTakeover), sep,
		p.ServerMaxWindowBits, sep, p.ClientMaxWindowBits)
}

// c14Negotiate calls the real Negotiate and classifies the result.
func c14Negotiate(e *wsflate.Extension, o c14offer) (tok string) {
	defer func() {
		if r := recover(); r != nil {
			tok = "P"
		}
	}()
	acc, err := e.Negotiate(o.option())
	if err != nil {
		return "E"
	}
	if acc.Size() == 0 {
		return "Z"
	}
	return "A" + c14FromOption(acc).String()
}

type c14op struct {
	reset bool
	offer c14offer
}

func c14OpsString(ops []c14op) string {
	if len(ops) == 0 {
		return "-"
	}
	var s []string
	for _, o := range ops {
		if o.reset {
			s = append(s, "R")
		} else {
			s = append(s, "O"+o.offer.String())
		}
	}
	return strings.Join(s, ",")
}
func c14ParseOps(s string) []c14op {
	if s == "-" {
		return nil
	}
	var ops []c14op
	for _, t := range strings.Split(s, ",") {
		if t == "R" {
			ops = append(ops, c14op{reset: true})
		} else {
			ops = append(ops, c14op{offer: c14ParseOffer(t[1:])})
		}
	}
	return ops
}
func joinOrDash(s []string) string {
	if len(s) == 0 {
		return "-"
	}
	return strings.Join(s, ",")
}

func c14N(c *ctx, g c14cfg, ops []c14op) {
	e := &wsflate.Extension{Parameters: g.params()}
	var ans, states, fresh []string
	for _, o := range ops {
		if o.reset {
			e.Reset()
		} else {
			ans = append(ans, c14Negotiate(e, o.offer))
			f := &wsflate.Extension{Parameters: g.params()}
			fresh = append(fresh, c14Negotiate(f, o.offer))
		}
		p, ok := e.Accepted()
		states = append(states, fmt.Sprintf("%d:%s", b2i(ok), c14ParamsTok(p, ":")))
	}
	c.emit("C14N %s %s -> %s %s %s", g, c14OpsString(ops), joinOrDash(ans), joinOrDash(states), joinOrDash(fresh))
}

func c14P(c *ctx, o c14offer) {
	var p wsflate.Parameters
	// start from a dirty value: Parse must reset it
	p = wsflate.Parameters{ServerNoContextTakeover: true, ClientMaxWindowBits: 9}
	err := p.Parse(o.option())
	c.emit("C14P %s -> %d %s", o, b2i(err == nil), c14ParamsTok(p, " "))
}

func c14O(c *ctx, g c14cfg) {
	enc := "P"
	var back wsflate.Parameters
	ok := false
	func() {
		defer func() { recover() }()
		opt := g.params().Option()
		enc = c14FromOption(opt).String()
		// through a copy, as the handshake code does
		ok = back.Parse(opt.Clone()) == nil
	}()
	c.emit("C14O %s -> %s %d %s", g, enc, b2i(ok), c14ParamsTok(back, " "))
}

var c14TokenChar = func() (t [256]bool) {
	for ch := 33; ch < 127; ch++ {
		t[ch] = !strings.ContainsRune("()<>@,;:\\\"/[]?={} \t", rune(ch))
	}
	return
}()

func c14IsToken(b []byte) bool {
	if len(b) == 0 {
		return false
	}
	for _, ch := range b {
		if !c14TokenChar[ch] {
			return false
		}
	}
	return true
}

// c14Render writes an offer as header text; ok=false if it cannot be expressed.
func c14Render(o c14offer) (string, bool) {
	if !c14IsToken(o.name) {
		return "", false
	}
	var b strings.Builder
	b.Write(o.name)
	for _, p := range o.params {
		if !c14IsToken(p.key) {
			return "", false
		}
		b.WriteString("; ")
		b.Write(p.key)
		if p.hasVal {
			b.WriteByte('=')
			if c14IsToken(p.val) {
				b.Write(p.val)
			} else {
				for _, ch := range p.val {
					if ch < 32 || ch == 127 || ch == '"' || ch == '\\' {
						return "", false
					}
				}
				b.WriteByte('"')
				b.Write(p.val)
				b.WriteByte('"')
			}
		}
	}
	return b.String(), true
}

// c14SplitResponse is a small independent reader of "name; k=v; k, name ..." lists.
func c14SplitResponse(v string) []string {
	var out []string
	for _, item := range strings.Split(v, ",") {
		fields := strings.Split(item, ";")
		o := c14offer{name: []byte(strings.TrimSpace(fields[0]))}
		for _, f := range fields[1:] {
			f = strings.TrimSpace(f)
			if i := strings.IndexByte(f, '='); i >= 0 {
				val := strings.Trim(strings.TrimSpace(f[i+1:]), "\"")
				o.params = append(o.params, c14param{key: []byte(strings.TrimSpace(f[:i])), val: []byte(val), hasVal: true})
			} else {
				o.params = append(o.params, c14param{key: []byte(f)})
			}
		}
		out = append(out, o.String())
	}
	return out
}

type c14rw struct {
	r *bytes.Reader
	w bytes.Buffer
}

func (x *c14rw) Read(p []byte) (int, error)  { return x.r.Read(p) }
func (x *c14rw) Write(p []byte) (int, error) { return x.w.Write(p) }

func c14U(c *ctx, g c14cfg, lines [][]c14offer) {
	var req strings.Builder
	req.WriteString("GET /chat HTTP/1.1\r\nHost: example.com\r\nUpgrade: websocket\r\nConnection: Upgrade\r\n" +
		"Sec-WebSocket-Key: dGhlIHNhbXBsZSBub25jZQ==\r\nSec-WebSocket-Version: 13\r\n")
	var lineToks, fresh []string
	for _, l := range lines {
		var rs, ts []string
		for _, o := range l {
			r, ok := c14Render(o)
			if !ok {
				return // not expressible as header text: not a case
			}
			rs = append(rs, r)
			ts = append(ts, o.String())
			f := &wsflate.Extension{Parameters: g.params()}
			fresh = append(fresh, c14Negotiate(f, o))
		}
		req.WriteString("Sec-WebSocket-Extensions: " + strings.Join(rs, ", ") + "\r\n")
		lineToks = append(lineToks, strings.Join(ts, ","))
	}
	req.WriteString("\r\n")
	e := &wsflate.Extension{Parameters: g.params()}
	u := ws.Upgrader{Negotiate: e.Negotiate}
	conn := &c14rw{r: bytes.NewReader([]byte(req.String()))}
	status := 0
	func() {
		defer func() {
			if r := recover(); r != nil {
				status = -1
			}
		}()
		u.Upgrade(conn)
	}()
	resp := conn.w.String()
	var exts []string
	for i, l := range strings.Split(resp, "\r\n") {
		if i == 0 {
			f := strings.Fields(l)
			if status == 0 && len(f) >= 2 {
				status, _ = strconv.Atoi(f[1])
			}
			continue
		}
		if l == "" {
			break
		}
		if k := strings.IndexByte(l, ':'); k > 0 && strings.EqualFold(l[:k], "Sec-WebSocket-Extensions") {
			exts = append(exts, c14SplitResponse(l[k+1:])...)
		}
	}
	c.emit("C14U %s %s -> %d %s %s", g, strings.Join(lineToks, "|"), status, joinOrDash(exts), joinOrDash(fresh))
}

func init() {
	props["C14"] = runC14
	replayers["C14N"] = func(c *ctx, in []string) { c14N(c, c14CfgOf(in), c14ParseOps(in[4])) }
	replayers["C14P"] = func(c *ctx, in []string) { c14P(c, c14ParseOffer(in[0])) }
	replayers["C14O"] = func(c *ctx, in []string) { c14O(c, c14CfgOf(in)) }
	replayers["C14U"] = func(c *ctx, in []string) {
		var lines [][]c14offer
		for _, l := range strings.Split(in[4], "|") {
			var os []c14offer
			for _, t := range strings.Split(l, ",") {
				os = append(os, c14ParseOffer(t))
			}
			lines = append(lines, os)
		}
		c14U(c, c14CfgOf(in), lines)
	}
}

const (
	c14Name = "permessage-deflate"
	c14SNCT = "server_no_context_takeover"
	c14CNCT = "client_no_context_takeover"
	c14SMWB = "server_max_window_bits"
	c14CMWB = "client_max_window_bits"
)

func kv(k, v string) c14param     { return c14param{key: []byte(k), val: []byte(v), hasVal: true} }
func kflag(k string) c14param     { return c14param{key: []byte(k)} }
func pmd(ps ...c14param) c14offer { return c14offer{name: []byte(c14Name), params: ps} }

// c14GridOffer: s in 0 (absent), 8..15; cm in 0 (absent), 1 (valueless), 8..15
func c14GridOffer(snct, cnct bool, s, cm int) c14offer {
	var ps []c14param
	if snct {
		ps = append(ps, kflag(c14SNCT))
	}
	if cnct {
		ps = append(ps, kflag(c14CNCT))
	}
	if s != 0 {
		ps = append(ps, kv(c14SMWB, strconv.Itoa(s)))
	}
	if cm == 1 {
		ps = append(ps, kflag(c14CMWB))
	} else if cm != 0 {
		ps = append(ps, kv(c14CMWB, strconv.Itoa(cm)))
	}
	return pmd(ps...)
}

var c14Wins = []int{0, 8, 9, 10, 11, 12, 13, 14, 15}

func c14AllCfgs() []c14cfg {
	var out []c14cfg
	for a := 0; a < 2; a++ {
		for b := 0; b < 2; b++ {
			for _, s := range c14Wins {
				for _, cm := range c14Wins {
					out = append(out, c14cfg{a != 0, b != 0, s, cm})
				}
			}
		}
	}
	return out
}

func c14AllGridOffers() []c14offer {
	var out []c14offer
	for a := 0; a < 2; a++ {
		for b := 0; b < 2; b++ {
			for _, s := range c14Wins {
				for _, cm := range append([]int{1}, c14Wins...) {
					out = append(out, c14GridOffer(a != 0, b != 0, s, cm))
				}
			}
		}
	}
	return out
}

// malformed and odd parameter lists
func c14Malformed() []c14offer {
	keys := []string{c14SNCT, c14CNCT, c14SMWB, c14CMWB}
	var out []c14offer
	// every ordered pair of (key form) x (key form) with the same key: duplicates
	forms := func(k string) []c14param {
		switch k {
		case c14SMWB:
			return []c14param{kv(k, "10"), kv(k, "12"), kflag(k)}
		case c14CMWB:
			return []c14param{kflag(k), kv(k, "10"), kv(k, "12"), kv(k, "")}
		}
		return []c14param{kflag(k), kv(k, "")}
	}
	for _, k := range keys {
		for _, a := range forms(k) {
			for _, b := range forms(k) {
				out = append(out, pmd(a, b))
				out = append(out, pmd(a, kflag(c14CNCT+"x"), b)) // unknown in between
				for _, k2 := range keys {
					if k2 != k {
						out = append(out, pmd(a, forms(k2)[0], b))
						out = append(out, pmd(forms(k2)[0], a, b))
					}
				}
			}
		}
	}
	// ill-valued
	vals := []string{"7", "16", "08", "+9", "9x", "", "0", "1", "008", "010", "15 ", " 9", "-9", "9.0", "0x9", "1e1",
		":", ";", "<", "=", ">", "?", "0:", "0?", "1:", "99", "100", "255", "256", "264", "4294967304",
		"18446744073709551624", "00000000000000000009", "000000000000000000000000000010", "٩", "9\x00", "\x009"}
	for _, v := range vals {
		out = append(out, pmd(kv(c14SMWB, v)))
		out = append(out, pmd(kv(c14CMWB, v)))
		out = append(out, pmd(kflag(c14SNCT), kv(c14SMWB, v)))
		out = append(out, pmd(kv(c14CMWB, "9"), kv(c14SMWB, v)))
	}
	for _, v := range []string{"1", "true", "0", "8", " "} {
		out = append(out, pmd(kv(c14SNCT, v)), pmd(kv(c14CNCT, v)))
	}
	// unknown names, case variants, prefixes
	for _, k := range []string{"", "x", "server_max_window_bit", "server_max_window_bitss", "Server_Max_Window_Bits",
		"SERVER_NO_CONTEXT_TAKEOVER", "client_max_window_bits ", "mode", "client_no_context_takeover\x00"} {
		out = append(out, pmd(kflag(k)), pmd(kv(k, "10")), pmd(kflag(c14SNCT), kflag(k)), pmd(kflag(k), kv(c14CMWB, "10")))
	}
	// look-alike names: every known name with ONE byte replaced (by 'x', by the other case, by the byte of the
	// server_/client_ twin), at every position: same length, same prefix or suffix, still unknown
	for _, k := range keys {
		for i := 0; i < len(k); i++ {
			subs := []byte{'x', k[i] ^ 0x20}
			if i < 6 {
				subs = append(subs, "client"[i], "server"[i], '_')
			}
			for _, ch := range subs {
				if ch == k[i] {
					continue
				}
				n := []byte(k)
				n[i] = ch
				if string(n) == c14SNCT || string(n) == c14CNCT || string(n) == c14SMWB || string(n) == c14CMWB {
					continue
				}
				out = append(out, pmd(kflag(string(n))), pmd(kv(string(n), "10")))
			}
		}
	}
	for _, k := range []string{"clnt___max_window_bits", "proxy__no_context_takeover", "sxxxxx_max_window_bits", "xxxxxx_max_window_bits",
		"server_max_window_bitz", "server_xxx_window_bits", "s_____________________", "client_no_context_takeoveR", "servernocontexttakeover"} {
		out = append(out, pmd(kflag(k)), pmd(kv(k, "10")), pmd(kflag(c14SNCT), kv(k, "9")))
	}
	// more than 8 parameters (httphead switches to its dynamic storage)
	var many []c14param
	for i := 0; i < 9; i++ {
		many = append(many, kflag(fmt.Sprintf("p%d", i)))
	}
	out = append(out, pmd(many...), pmd(append([]c14param{kflag(c14SNCT), kflag(c14CNCT), kv(c14SMWB, "9"), kv(c14CMWB, "9")}, many...)...))
	var nine []c14param
	for i := 0; i < 9; i++ {
		nine = append(nine, kflag(c14CMWB))
	}
	out = append(out, pmd(nine...))
	return out
}

func c14Alphabet() []c14offer {
	return []c14offer{
		pmd(),
		pmd(kflag(c14CMWB)),
		pmd(kflag(c14SNCT), kflag(c14CNCT)),
		pmd(kv(c14SMWB, "10")),
		pmd(kv(c14SMWB, "15"), kv(c14CMWB, "15")),
		pmd(kflag(c14SNCT), kv(c14CMWB, "9")),
		pmd(kv(c14SMWB, "8"), kflag(c14CMWB), kflag(c14CNCT)),
		pmd(kv(c14CMWB, "12"), kv(c14SMWB, "12"), kflag(c14SNCT), kflag(c14CNCT)),
		pmd(kv(c14SMWB, "7")),                    // ill-valued
		pmd(kflag(c14SNCT), kflag(c14SNCT)),      // duplicate
		{name: []byte("x-webkit-deflate-frame")}, // other extension
		{name: []byte("permessage-deflatex"), params: []c14param{kv(c14SMWB, "99")}},
	}
}

func runC14(c *ctx) {
	cfgs := c14AllCfgs()
	grid := c14AllGridOffers()
	// 1. the full single-offer grid through Extension.Negotiate (exhaustive)
	for _, g := range cfgs {
		for _, o := range grid {
			c14N(c, g, []c14op{{offer: o}})
		}
	}
	// 2. Parse / Option directly
	for _, o := range grid {
		c14P(c, o)
	}
	mal := c14Malformed()
	for _, o := range mal {
		c14P(c, o)
	}
	for a := 0; a < 2; a++ {
		for b := 0; b < 2; b++ {
			for _, s := range c14Wins {
				for _, cm := range append([]int{1}, c14Wins...) {
					c14O(c, c14cfg{a != 0, b != 0, s, cm})
				}
			}
		}
	}
	// 3. malformed offers through Negotiate, alone and after/before a good one
	someCfgs := []c14cfg{{false, false, 0, 0}, {true, true, 0, 0}, {false, true, 15, 15}, {true, false, 10, 0},
		{false, false, 0, 10}, {true, true, 12, 9}, {false, false, 8, 8}, {true, false, 15, 8}, {false, true, 9, 15},
		{true, true, 11, 11}, {false, false, 13, 0}, {false, false, 0, 14}}
	for gi, g := range someCfgs {
		for _, o := range mal {
			c14N(c, g, []c14op{{offer: o}})
			if gi < 4 || c.thor {
				c14N(c, g, []c14op{{offer: pmd()}, {offer: o}, {offer: pmd()}})
				c14N(c, g, []c14op{{offer: o}, {offer: pmd()}, {reset: true}, {offer: o}})
			}
		}
	}
	// 4. all lists of <= 3 offers over the alphabet
	alpha := c14Alphabet()
	listCfgs := someCfgs
	if c.thor {
		listCfgs = append(listCfgs, c14cfg{true, false, 8, 15}, c14cfg{false, true, 14, 12}, c14cfg{true, true, 15, 15},
			c14cfg{true, true, 9, 0})
	}
	for _, g := range listCfgs {
		c14N(c, g, nil)
		for _, a := range alpha {
			c14N(c, g, []c14op{{offer: a}})
			for _, b := range alpha {
				c14N(c, g, []c14op{{offer: a}, {offer: b}})
				for _, d := range alpha {
					c14N(c, g, []c14op{{offer: a}, {offer: b}, {offer: d}})
				}
			}
		}
	}
	// 5. repeated negotiation with and without Reset (random scripts)
	pool := append(append([]c14offer{}, alpha...), mal...)
	nscripts := 4000
	if c.thor {
		nscripts = 60000
	}
	for i := 0; i < nscripts; i++ {
		g := cfgs[c.rng.Intn(len(cfgs))]
		n := 1 + c.rng.Intn(8)
		var ops []c14op
		for j := 0; j < n; j++ {
			switch r := c.rng.Intn(10); {
			case r < 2:
				ops = append(ops, c14op{reset: true})
			case r < 6:
				ops = append(ops, c14op{offer: grid[c.rng.Intn(len(grid))]})
			default:
				ops = append(ops, c14op{offer: pool[c.rng.Intn(len(pool))]})
			}
		}
		c14N(c, g, ops)
	}
	// 6. end to end through ws.Upgrader
	for _, g := range someCfgs {
		for _, a := range alpha {
			c14U(c, g, [][]c14offer{{a}})
			for _, b := range alpha {
				c14U(c, g, [][]c14offer{{a, b}})
				c14U(c, g, [][]c14offer{{a}, {b}})
			}
		}
		for _, o := range mal {
			c14U(c, g, [][]c14offer{{o}})
		}
	}
	nu := 3000
	if c.thor {
		nu = 40000
	}
	for i := 0; i < nu; i++ {
		g := cfgs[c.rng.Intn(len(cfgs))]
		var lines [][]c14offer
		nl := 1 + c.rng.Intn(2)
		for j := 0; j < nl; j++ {
			var l []c14offer
			for k := 1 + c.rng.Intn(3); k > 0; k-- {
				if c.rng.Intn(3) == 0 {
					l = append(l, pool[c.rng.Intn(len(pool))])
				} else {
					l = append(l, grid[c.rng.Intn(len(grid))])
				}
			}
			lines = append(lines, l)
		}
		c14U(c, g, lines)
	}
	if c.thor {
		// the grid once more end to end
		for i, g := range cfgs {
			for j, o := range grid {
				if (i+j)%3 == 0 {
					c14U(c, g, [][]c14offer{{o}})
				}
			}
		}
	}
}
