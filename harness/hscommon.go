package main

// Helpers shared by the handshake properties (C09, C10, C11): a transport that
// delivers scripted chunks, encodings of callback tables and options as line
// tokens, request/response grammar pieces.

import (
	"bytes"
	"encoding/hex"
	"errors"
	"io"
	"net/http"
	"sort"
	"strconv"
	"strings"

	"github.com/gobwas/httphead"
	"github.com/gobwas/ws"
)

var errTransport = errors.New("transport failure")

// chunkConn is an io.ReadWriter whose Read hands out the scripted chunks (never
// more than one chunk per call, (n>0,nil) or (0,err)); after the last chunk it
// returns tail. Writes are recorded.
type chunkConn struct {
	chunks [][]byte
	tail   error
	out    bytes.Buffer
	writes int
}

func (c *chunkConn) Read(p []byte) (int, error) {
	for len(c.chunks) > 0 && len(c.chunks[0]) == 0 {
		c.chunks = c.chunks[1:]
	}
	if len(c.chunks) == 0 {
		return 0, c.tail
	}
	n := copy(p, c.chunks[0])
	c.chunks[0] = c.chunks[0][n:]
	return n, nil
}

func (c *chunkConn) Write(p []byte) (int, error) {
	c.writes++
	return c.out.Write(p)
}

func (c *chunkConn) rest() []byte {
	var b []byte
	for _, x := range c.chunks {
		b = append(b, x...)
	}
	return b
}

func tailErr(s string) error {
	if s == "fail" {
		return errTransport
	}
	return io.EOF
}

// hxi: hex inside composite tokens ("_" when empty).
func hxi(b []byte) string {
	if len(b) == 0 {
		return "_"
	}
	return hex.EncodeToString(b)
}

func unhxi(s string) []byte {
	if s == "_" || s == "-" || s == "" {
		return nil
	}
	b, err := hex.DecodeString(s)
	if err != nil {
		panic("bad hex " + s)
	}
	return b
}

func encChunks(ch [][]byte) string {
	if len(ch) == 0 {
		return "-"
	}
	var s []string
	for _, c := range ch {
		s = append(s, hxi(c))
	}
	return strings.Join(s, ",")
}

func decChunks(s string) [][]byte {
	if s == "-" {
		return nil
	}
	var out [][]byte
	for _, x := range strings.Split(s, ",") {
		out = append(out, unhxi(x))
	}
	return out
}

func cloneChunks(ch [][]byte) [][]byte {
	out := make([][]byte, len(ch))
	for i, c := range ch {
		out[i] = append([]byte(nil), c...)
	}
	return out
}

// chunkings of a byte string
func chunkWhole(b []byte) [][]byte { return [][]byte{append([]byte(nil), b...)} }
func chunkBytes(b []byte) [][]byte {
	var out [][]byte
	for i := range b {
		out = append(out, []byte{b[i]})
	}
	return out
}
func chunkAt(b []byte, i int) [][]byte {
	return [][]byte{append([]byte(nil), b[:i]...), append([]byte(nil), b[i:]...)}
}
func chunkRandom(c *ctx, b []byte, maxLen int) [][]byte {
	var out [][]byte
	for len(b) > 0 {
		n := 1 + c.rng.Intn(maxLen)
		if n > len(b) {
			n = len(b)
		}
		out = append(out, append([]byte(nil), b[:n]...))
		b = b[n:]
	}
	return out
}

// ---- rejections -------------------------------------------------------------

type rejSpec struct {
	plain  bool // a plain error (not a ConnectionRejectedError)
	code   int
	hdr    []byte
	reason string
}

func (r rejSpec) err() error {
	if r.plain {
		return errors.New(r.reason)
	}
	opts := []ws.RejectOption{ws.RejectionReason(r.reason)}
	if r.code != 0 {
		opts = append(opts, ws.RejectionStatus(r.code))
	}
	if r.hdr != nil {
		opts = append(opts, ws.RejectionHeader(ws.HandshakeHeaderBytes(r.hdr)))
	}
	return ws.RejectConnectionError(opts...)
}

func (r rejSpec) enc() string {
	c := strconv.Itoa(r.code)
	if r.plain {
		c = "p"
	}
	return c + "/" + hxi(r.hdr) + "/" + hxi([]byte(r.reason))
}

func decRej(s string) rejSpec {
	p := strings.Split(s, "/")
	var r rejSpec
	if p[0] == "p" {
		r.plain = true
	} else {
		r.code, _ = strconv.Atoi(p[0])
	}
	r.hdr = unhxi(p[1])
	r.reason = string(unhxi(p[2]))
	return r
}

type kvRej struct {
	key []byte
	rej rejSpec
}

func encTable(t []kvRej) string {
	if len(t) == 0 {
		return "-"
	}
	var s []string
	for _, e := range t {
		s = append(s, hxi(e.key)+"="+e.rej.enc())
	}
	return strings.Join(s, ",")
}

func decTable(s string) []kvRej {
	if s == "-" {
		return nil
	}
	var out []kvRej
	for _, e := range strings.Split(s, ",") {
		i := strings.IndexByte(e, '=')
		out = append(out, kvRej{unhxi(e[:i]), decRej(e[i+1:])})
	}
	return out
}

func lookupTable(t []kvRej, key []byte) error {
	for _, e := range t {
		if bytes.Equal(e.key, key) {
			return e.rej.err()
		}
	}
	return nil
}

// ---- name sets (Protocol / Extension selectors) --------------------------------

func encSet(s *[]string) string {
	if s == nil {
		return "n"
	}
	var x []string
	for _, n := range *s {
		x = append(x, hxi([]byte(n)))
	}
	return "s:" + strings.Join(x, ",")
}

func decSet(s string) *[]string {
	if s == "n" {
		return nil
	}
	out := []string{}
	if s != "s:" {
		for _, x := range strings.Split(s[2:], ",") {
			out = append(out, string(unhxi(x)))
		}
	}
	return &out
}

func inSet(s []string, n string) bool {
	for _, x := range s {
		if x == n {
			return true
		}
	}
	return false
}

// ---- httphead options --------------------------------------------------------

func encOpt(o httphead.Option) string {
	s := hxi(o.Name)
	o.Parameters.ForEach(func(k, v []byte) bool {
		s += ";" + hxi(k) + "=" + hxi(v)
		return true
	})
	return s
}

func encOpts(os []httphead.Option) string {
	if len(os) == 0 {
		return "-"
	}
	var s []string
	for _, o := range os {
		s = append(s, encOpt(o))
	}
	return strings.Join(s, "|")
}

func decOpt(s string) httphead.Option {
	p := strings.Split(s, ";")
	o := httphead.Option{Name: unhxi(p[0])}
	if o.Name == nil {
		o.Name = []byte{}
	}
	for _, kv := range p[1:] {
		i := strings.IndexByte(kv, '=')
		k, v := unhxi(kv[:i]), unhxi(kv[i+1:])
		if k == nil {
			k = []byte{}
		}
		o.Parameters.Set(k, v)
	}
	return o
}

func decOpts(s string) []httphead.Option {
	if s == "-" {
		return nil
	}
	var out []httphead.Option
	for _, x := range strings.Split(s, "|") {
		out = append(out, decOpt(x))
	}
	return out
}

// ---- Negotiate tables ------------------------------------------------------------

type negEntry struct {
	name   string
	action byte // 'd' decline, 'e' echo the offer, 'a' answer with opt, 'r' reject
	opt    httphead.Option
	rej    rejSpec
}

func encNeg(t *[]negEntry) string {
	if t == nil {
		return "n"
	}
	var s []string
	for _, e := range *t {
		x := hxi([]byte(e.name)) + ":" + string(e.action)
		switch e.action {
		case 'a':
			x += "~" + encOpt(e.opt)
		case 'r':
			x += "~" + e.rej.enc()
		}
		s = append(s, x)
	}
	return "t:" + strings.Join(s, ",")
}

func decNeg(s string) *[]negEntry {
	if s == "n" {
		return nil
	}
	out := []negEntry{}
	if s != "t:" {
		for _, x := range strings.Split(s[2:], ",") {
			i := strings.IndexByte(x, ':')
			e := negEntry{name: string(unhxi(x[:i])), action: x[i+1]}
			if len(x) > i+3 {
				switch e.action {
				case 'a':
					e.opt = decOpt(x[i+3:])
				case 'r':
					e.rej = decRej(x[i+3:])
				}
			}
			out = append(out, e)
		}
	}
	return &out
}

func negFunc(t []negEntry) func(httphead.Option) (httphead.Option, error) {
	return func(o httphead.Option) (httphead.Option, error) {
		for _, e := range t {
			if e.name == string(o.Name) {
				switch e.action {
				case 'e':
					return o.Clone(), nil
				case 'a':
					return e.opt, nil
				case 'r':
					return httphead.Option{}, e.rej.err()
				}
				return httphead.Option{}, nil
			}
		}
		return httphead.Option{}, nil
	}
}

// ---- status texts the model needs (net/http is outside the model) ----------------------

func encStatusTexts(extra ...int) string {
	codes := map[int]bool{400: true, 405: true, 426: true, 500: true, 505: true}
	for _, c := range extra {
		if c > 0 {
			codes[c] = true
		}
	}
	var ks []int
	for k := range codes {
		ks = append(ks, k)
	}
	sort.Ints(ks)
	var s []string
	for _, k := range ks {
		s = append(s, strconv.Itoa(k)+":"+hxi([]byte(http.StatusText(k))))
	}
	return strings.Join(s, ",")
}

// ---- error classes ------------------------------------------------------------------

func upgradeErrClass(err error) string {
	switch {
	case err == nil:
		return "ok"
	case err == io.EOF:
		return "io:eof"
	case err == errTransport:
		return "io:fail"
	case err == io.ErrUnexpectedEOF:
		return "io:ueof"
	}
	if r, ok := err.(*ws.ConnectionRejectedError); ok {
		return "rej:" + strconv.Itoa(r.StatusCode())
	}
	return "rej:0" // a plain error from a callback
}

func pick(c *ctx, xs ...string) string { return xs[c.rng.Intn(len(xs))] }

// isListHeader: the list-valued headers the handshake scans with httphead.
func isListHeader(name string) bool {
	switch strings.ToLower(strings.Trim(name, " \t")) {
	case "connection", "sec-websocket-protocol", "sec-websocket-extensions":
		return true
	}
	return false
}

// headTag classifies a message head for known-finding matching: "htlist" when a
// list-valued header (Connection, Sec-WebSocket-Protocol, Sec-WebSocket-Extensions) has a
// horizontal tab inside its value (not merely around it).
func headTag(head []byte) string {
	for i, line := range bytes.Split(head, []byte("\n")) {
		line = bytes.TrimSuffix(line, []byte("\r"))
		if len(line) == 0 && i > 0 {
			break
		}
		c := bytes.IndexByte(line, ':')
		if c < 0 || !isListHeader(string(line[:c])) {
			continue
		}
		if bytes.IndexByte(bytes.Trim(line[c+1:], " \t"), '\t') >= 0 {
			return "htlist"
		}
	}
	return "-"
}
