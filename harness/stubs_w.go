package main

// write-side parts of C13/C16 are provided by the writer harness (writer.go);
// until it exists these are no-ops.
var runC13W = func(c *ctx) {}
var runC16W = func(c *ctx) {}
