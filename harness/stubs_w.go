package main

// hooks filled by other files
var runC13W = func(c *ctx) {}
var runC16W = func(c *ctx) {}
var runC08H = func(c *ctx) {}
var runC18R = func(c *ctx) {}
