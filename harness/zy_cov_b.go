package main

// Coverage-driven cases, handshake side (dialer.go, server.go, http.go, hijack*.go, util.go selectors,
// wsutil/dialer.go).  Every block listed by tools/coverage.sh as never executed was either given a
// case here, judged by the property it falls under, or is listed as deliberately uncovered in the
// comment at the end of this file.
//
// Kinds that re-use an existing judgement (the checker strips the first token and hands the rest to
// the existing handler; the first token only tells the REPLAYER how the configuration was built):
//   H9X v <H09 inputs>   HTTPUpgrader run as H09 with: v=to Timeout set (server.go:235), v=nh a request whose
//                        Header map is nil (http.go:178), v=sl / se Protocol = ws.SelectFromSlice / ws.SelectEqual
//   U9X v <U09 inputs>   Upgrader run as U09 with: v=sl / se Protocol built from ws.SelectFromSlice / SelectEqual,
//                        v=le.<where>.<name> the callback at <where> returns the LIBRARY's error value <name>
//                        (http.go:379-396: the precomputed error texts)
//   DDW <url>            package-level ws.Dial through ws.DefaultDialer (dialer.go:47), judged as DD10
// New kinds with their own monitor in ocaml/k_y_covb.ml:
//   HNH  C09  ResponseWriter that cannot be hijacked (server.go:159, hijack_go120.go:15, http.go:424)
//   UPC  C09  Upgrader.ProtocolCustom (server.go:553)
//   UXC  C09  Upgrader.ExtensionCustom (server.go:570)
//   SEL  C09  ws.SelectFromSlice / ws.SelectEqual called directly
//   OSE  C10  Dialer.OnStatusError (dialer.go:352)
//   DN10 C10  Dialer.NetDial == nil: the default net dialer against a loopback listener (dialer.go:235)
//   DF10 C10  NetDial fails, ws and wss (dialer.go:245)
// Existing kinds with new inputs: H09 (Negotiate failing with a plain error / a rejection without status:
// server.go:253), DBD (responses net/http's parser refuses: wsutil/dialer.go:155).

import (
	"bufio"
	"bytes"
	"context"
	"errors"
	"fmt"
	"io"
	"io/ioutil"
	"net"
	"net/http"
	"net/url"
	"strconv"
	"strings"
	"time"

	"github.com/gobwas/httphead"
	"github.com/gobwas/ws"
)

func init() {
	cvbWrap := func(id string, extra func(*ctx)) {
		old := props[id]
		props[id] = func(c *ctx) {
			if old != nil {
				old(c)
			}
			extra(c)
		}
	}
	atoi := func(s string) int { n, _ := strconv.Atoi(s); return n }
	replayers["H9X"] = func(c *ctx, in []string) {
		cvbH9X(c, in[0], string(unhx(in[2])), atoi(in[3]), atoi(in[4]), string(unhx(in[5])), decHeaderMap(in[6]),
			decHeaderMap(in[7]), decSet(in[8]), decSet(in[9]), decNeg(in[10]))
	}
	replayers["U9X"] = func(c *ctx, in []string) {
		cvbU9X(c, in[0], atoi(in[2]), atoi(in[3]), in[4], decChunks(in[5]), decUcfg(in[6:14]))
	}
	replayers["DDW"] = func(c *ctx, in []string) { cvbDDW(c, string(unhx(in[0]))) }
	replayers["HNH"] = func(c *ctx, in []string) { cvbHNH(c, in[0], in[1]) }
	replayers["UPC"] = func(c *ctx, in []string) {
		cvbUPC(c, in[0], in[1] == "1", atoi(in[2]), decChunks(in[3]), unhx(in[4]))
	}
	replayers["UXC"] = func(c *ctx, in []string) {
		cvbUXC(c, in[0], in[1] == "1", atoi(in[2]), decChunks(in[3]), unhx(in[4]))
	}
	replayers["SEL"] = func(c *ctx, in []string) { cvbSEL(c, in[0], *decSet(in[1]), string(unhx(in[2]))) }
	replayers["OSE"] = func(c *ctx, in []string) {
		cvbOSE(c, atoi(in[0]), in[1], unhx(in[2]), decInts(in[3]), in[4])
	}
	replayers["DN10"] = func(c *ctx, in []string) {
		var ps []string
		if in[2] != "-" {
			for _, x := range strings.Split(in[2], ",") {
				ps = append(ps, string(unhxi(x)))
			}
		}
		cvbDN10(c, in[0], string(unhx(in[1])), ps, unhx(in[3]))
	}
	replayers["DF10"] = func(c *ctx, in []string) { cvbDF10(c, in[0]) }
	cvbWrap("C09", cvbC09)
	cvbWrap("C10", cvbC10)
	cvbWrap("C11", cvbC11)
}

// ---------------------------------------------------------------- H9X: H09 with more of the configuration space

func cvbStrSelector(variant string, set []string) func(string) bool {
	switch variant {
	case "sl":
		return ws.SelectFromSlice(set)
	case "se":
		return ws.SelectEqual(set[0]) // generated with one-element sets only
	}
	return func(p string) bool { return inSet(set, p) }
}

func cvbH9X(c *ctx, variant, method string, major, minor int, host string, hdr []hmEntry, cfgHdr []hmEntry,
	proto, ext *[]string, neg *[]negEntry) {
	if variant == "nh" {
		hdr = nil
	}
	r := &http.Request{Method: method, ProtoMajor: major, ProtoMinor: minor, Host: host, Header: toHTTPHeader(hdr)}
	if r.Header == nil && variant != "nh" {
		r.Header = http.Header{}
	}
	w := &fakeHijacker{out: &bytes.Buffer{}, hdr: http.Header{}}
	u := ws.HTTPUpgrader{Header: toHTTPHeader(cfgHdr)}
	if variant == "to" {
		u.Timeout = time.Hour
	}
	if proto != nil {
		u.Protocol = cvbStrSelector(variant, *proto)
	}
	if ext != nil {
		set := *ext
		u.Extension = func(o httphead.Option) bool { return inSet(set, string(o.Name)) }
	}
	var codes []int
	if neg != nil {
		u.Negotiate = negFunc(*neg)
		for _, e := range *neg {
			if e.action == 'r' {
				codes = append(codes, e.rej.code)
			}
		}
	}
	var hs ws.Handshake
	var err error
	cls := ""
	func() {
		defer func() {
			if r := recover(); r != nil {
				cls = "panic"
			}
		}()
		_, _, hs, err = u.Upgrade(r, w)
		cls = upgradeErrClass(err)
	}()
	var hb bytes.Buffer
	if u.Header != nil {
		u.Header.Write(&hb)
	}
	tag := "-"
	for _, e := range hdr {
		if isListHeader(e.key) {
			for _, v := range e.vals {
				if strings.Contains(strings.Trim(v, " \t"), "\t") {
					tag = "htlist"
				}
			}
		}
	}
	c.emit("H9X %s up %s %d %d %s %s %s %s %s %s %s %s t=%s -> %s %s %s %s", variant, hx([]byte(method)), major, minor,
		hx([]byte(host)), encHeaderMap(hdr), encHeaderMap(cfgHdr), encSet(proto), encSet(ext), encNeg(neg),
		hx(hb.Bytes()), encStatusTexts(codes...), tag,
		cls, hx([]byte(hs.Protocol)), encOpts(hs.Extensions), hx(w.out.Bytes()))
}

// ---------------------------------------------------------------- U9X: U09 with more of the configuration space

var cvbLibErrs = []struct {
	name string
	err  error
	hdr  []byte
}{
	{"BadSecAccept", ws.ErrHandshakeBadSecAccept, nil},
	{"BadSecKey", ws.ErrHandshakeBadSecKey, nil},
	{"BadSecVersion", ws.ErrHandshakeBadSecVersion, nil},
	{"UpgradeRequired", ws.ErrHandshakeUpgradeRequired, []byte("Sec-WebSocket-Version: 13\r\n")},
	{"BadProtocol", ws.ErrHandshakeBadProtocol, nil},
	{"BadMethod", ws.ErrHandshakeBadMethod, nil},
	{"BadHost", ws.ErrHandshakeBadHost, nil},
	{"BadUpgrade", ws.ErrHandshakeBadUpgrade, nil},
	{"BadConnection", ws.ErrHandshakeBadConnection, nil},
	{"MalformedRequest", ws.ErrMalformedRequest, nil},
	{"NotHijacker", ws.ErrNotHijacker, nil},
}

// cvbLibRej: the rejection a library error value stands for (what U09's monitor and model are told).
func cvbLibRej(name string) (error, rejSpec) {
	for _, e := range cvbLibErrs {
		if e.name == name {
			return e.err, rejSpec{code: e.err.(*ws.ConnectionRejectedError).StatusCode(), hdr: e.hdr, reason: e.err.Error()}
		}
	}
	panic("unknown library error " + name)
}

func cvbU9X(c *ctx, variant string, rbuf, wbuf int, tail string, chunks [][]byte, cfg ucfg) {
	up := cfg.upgrader(rbuf, wbuf)
	switch {
	case variant == "sl" || variant == "se":
		sel := cvbStrSelector(variant, *cfg.proto)
		up.Protocol = func(p []byte) bool { return sel(string(p)) }
	case strings.HasPrefix(variant, "le."):
		// wherever the table callback would object, the library's own error VALUE is returned instead of an
		// equal-looking fresh rejection
		f := strings.Split(variant, ".")
		lib, _ := cvbLibRej(f[2])
		switch f[1] {
		case "req":
			orig := up.OnRequest
			up.OnRequest = func(uri []byte) error {
				if orig(uri) != nil {
					return lib
				}
				return nil
			}
		case "host":
			orig := up.OnHost
			up.OnHost = func(h []byte) error {
				if orig(h) != nil {
					return lib
				}
				return nil
			}
		case "hdr":
			orig := up.OnHeader
			up.OnHeader = func(k, v []byte) error {
				if orig(k, v) != nil {
					return lib
				}
				return nil
			}
		case "before":
			orig := up.OnBeforeUpgrade
			up.OnBeforeUpgrade = func() (ws.HandshakeHeader, error) {
				h, err := orig()
				if err != nil {
					return nil, lib
				}
				return h, nil
			}
		case "neg":
			orig := up.Negotiate
			up.Negotiate = func(o httphead.Option) (httphead.Option, error) {
				r, err := orig(o)
				if err != nil {
					return httphead.Option{}, lib
				}
				return r, nil
			}
		}
	}
	conn := &chunkConn{chunks: cloneChunks(chunks), tail: tailErr(tail)}
	var hs ws.Handshake
	cls := ""
	func() {
		defer func() {
			if r := recover(); r != nil {
				cls = "panic"
			}
		}()
		var err error
		hs, err = up.Upgrade(conn)
		cls = upgradeErrClass(err)
	}()
	var flat []byte
	for _, ch := range chunks {
		flat = append(flat, ch...)
	}
	c.emit("U9X %s up %d %d %s %s %s t=%s -> %s %s %s %s", variant, rbuf, wbuf, tail, encChunks(chunks), cfg.tokens(), headTag(flat),
		cls, hx([]byte(hs.Protocol)), encOpts(hs.Extensions), hx(conn.out.Bytes()))
}

// ---------------------------------------------------------------- HNH: a ResponseWriter that cannot be hijacked

type cvbPlainWriter struct {
	hdr   http.Header
	codes []int
	body  bytes.Buffer
}

func (w *cvbPlainWriter) Header() http.Header         { return w.hdr }
func (w *cvbPlainWriter) Write(p []byte) (int, error) { return w.body.Write(p) }
func (w *cvbPlainWriter) WriteHeader(code int)        { w.codes = append(w.codes, code) }

// cvbFailHijacker has a Hijack method that refuses.
type cvbFailHijacker struct {
	cvbPlainWriter
	err error
}

func (w *cvbFailHijacker) Hijack() (net.Conn, *bufio.ReadWriter, error) { return nil, nil, w.err }

var errCvbHijack = errors.New("verif: hijack refused\n")

func cvbHNH(c *ctx, wkind, reqkind string) {
	h := mandMap("")
	method := "GET"
	switch reqkind {
	case "badupgrade":
		h = append(mandMap("Upgrade"), hmEntry{"Upgrade", []string{"h2c"}})
	case "post":
		method = "POST"
	}
	r := &http.Request{Method: method, ProtoMajor: 1, ProtoMinor: 1, Host: "example.com", Header: toHTTPHeader(h)}
	var w http.ResponseWriter
	var pw *cvbPlainWriter
	switch wkind {
	case "plain": // no Hijack method at all
		pw = &cvbPlainWriter{hdr: http.Header{}}
		w = pw
	case "unsup": // a Hijack method reporting "not supported" the way net/http's wrappers do
		fw := &cvbFailHijacker{cvbPlainWriter{hdr: http.Header{}}, fmt.Errorf("wrapped: %w", http.ErrNotSupported)}
		pw, w = &fw.cvbPlainWriter, fw
	default: // "refuse": a Hijack method failing with some other error
		fw := &cvbFailHijacker{cvbPlainWriter{hdr: http.Header{}}, errCvbHijack}
		pw, w = &fw.cvbPlainWriter, fw
	}
	api := "up"
	if reqkind == "ws" {
		api = "ws"
	}
	var conn net.Conn
	var rw *bufio.ReadWriter
	var err error
	cls := ""
	func() {
		defer func() {
			if r := recover(); r != nil {
				cls = "panic"
			}
		}()
		if api == "ws" {
			conn, rw, _, err = ws.UpgradeHTTP(r, w)
		} else {
			conn, rw, _, err = ws.HTTPUpgrader{Header: http.Header{"X-Server": {"verif"}}}.Upgrade(r, w)
		}
		cls = upgradeErrClass(err)
	}()
	errStatus, errText := 0, ""
	if err != nil {
		errText = err.Error()
		if rj, ok := err.(*ws.ConnectionRejectedError); ok {
			errStatus = rj.StatusCode()
		}
	}
	clen := "-"
	if v := pw.hdr["Content-Length"]; len(v) > 0 {
		clen = hx([]byte(strings.Join(v, ",")))
	}
	c.emit("HNH %s %s -> %s %d %s %s %s %s %d", wkind, reqkind, cls, errStatus, hx([]byte(errText)), encInts(pw.codes), clen,
		hx(pw.body.Bytes()), b2i(conn == nil && rw == nil))
}

// ---------------------------------------------------------------- UPC / UXC: the custom header parsers

func cvbFirstToken(v []byte) string {
	s := string(v)
	if i := strings.IndexByte(s, ','); i >= 0 {
		s = s[:i]
	}
	return strings.Trim(s, " \t")
}

func cvbLastToken(v []byte) string {
	s := string(v)
	if i := strings.LastIndexByte(s, ','); i >= 0 {
		s = s[i+1:]
	}
	return strings.Trim(s, " \t")
}

func cvbRunUpgrader(up ws.Upgrader, chunks [][]byte) (cls string, hs ws.Handshake, out []byte) {
	conn := &chunkConn{chunks: cloneChunks(chunks), tail: io.EOF}
	func() {
		defer func() {
			if r := recover(); r != nil {
				cls = "panic"
			}
		}()
		var err error
		hs, err = up.Upgrade(conn)
		cls = upgradeErrClass(err)
	}()
	return cls, hs, conn.out.Bytes()
}

// cvbUPC: ProtocolCustom given by mode: first / last (that token of the value), fix.<hex> (always that string),
// empty ("" and true), second ("" for the first header line, then like first), bad ("" and false),
// badv ("x" and false), bad2 (like first for the first line, then "" and false).
func cvbUPC(c *ctx, mode string, both bool, rbuf int, chunks [][]byte, hdr []byte) {
	var calls []string
	nSel := 0
	up := ws.Upgrader{ReadBufferSize: rbuf}
	if hdr != nil {
		up.Header = ws.HandshakeHeaderBytes(hdr)
	}
	up.ProtocolCustom = func(v []byte) (ret string, ok bool) {
		n := len(calls)
		ok = true
		switch {
		case mode == "first":
			ret = cvbFirstToken(v)
		case mode == "last":
			ret = cvbLastToken(v)
		case strings.HasPrefix(mode, "fix."):
			ret = string(unhxi(mode[4:]))
		case mode == "empty":
		case mode == "second":
			if n > 0 {
				ret = cvbFirstToken(v)
			}
		case mode == "bad":
			ok = false
		case mode == "badv":
			ret, ok = "x", false
		case mode == "bad2":
			if n == 0 {
				ret = cvbFirstToken(v)
			} else {
				ok = false
			}
		}
		calls = append(calls, hxi(v)+":"+hxi([]byte(ret))+":"+strconv.Itoa(b2i(ok)))
		return ret, ok
	}
	if both {
		up.Protocol = func(p []byte) bool { nSel++; return true }
	}
	cls, hs, out := cvbRunUpgrader(up, chunks)
	cs := "-"
	if len(calls) > 0 {
		cs = strings.Join(calls, ",")
	}
	c.emit("UPC %s %d %d %s %s -> %s %s %s %d %s", mode, b2i(both), rbuf, encChunks(chunks), hx(hdr), cls, hx([]byte(hs.Protocol)), hx(out), nSel, cs)
}

// cvbUXC: ExtensionCustom given by mode: all / first (options of the value, appended to the given slice),
// name.<hex> (the options with that name), none, bad (nothing appended, false), badapp (all appended, false),
// bad2 (all for the first header line, then false).
func cvbUXC(c *ctx, mode string, both bool, rbuf int, chunks [][]byte, hdr []byte) {
	var calls []string
	nSel := 0
	up := ws.Upgrader{ReadBufferSize: rbuf}
	if hdr != nil {
		up.Header = ws.HandshakeHeaderBytes(hdr)
	}
	up.ExtensionCustom = func(v []byte, in []httphead.Option) (out []httphead.Option, ok bool) {
		n := len(calls)
		parsed, _ := httphead.ParseOptions(v, nil)
		out, ok = in, true
		add := func(os []httphead.Option) {
			for _, o := range os {
				out = append(out, o.Clone()) // must stay valid until Upgrade returns
			}
		}
		switch {
		case mode == "all":
			add(parsed)
		case mode == "first":
			if len(parsed) > 0 {
				add(parsed[:1])
			}
		case strings.HasPrefix(mode, "name."):
			want := unhxi(mode[5:])
			for _, o := range parsed {
				if bytes.Equal(o.Name, want) {
					add([]httphead.Option{o})
				}
			}
		case mode == "none":
		case mode == "bad":
			ok = false
		case mode == "badapp":
			add(parsed)
			ok = false
		case mode == "bad2":
			if n == 0 {
				add(parsed)
			} else {
				ok = false
			}
		}
		calls = append(calls, hxi(v)+":"+encOpts(out)+":"+strconv.Itoa(b2i(ok)))
		return out, ok
	}
	if both {
		up.Extension = func(o httphead.Option) bool { nSel++; return true }
	}
	cls, hs, out := cvbRunUpgrader(up, chunks)
	cs := "-"
	if len(calls) > 0 {
		cs = strings.Join(calls, ",")
	}
	c.emit("UXC %s %d %d %s %s -> %s %s %s %d %s", mode, b2i(both), rbuf, encChunks(chunks), hx(hdr), cls, encOpts(hs.Extensions), hx(out), nSel, cs)
}

// ---------------------------------------------------------------- SEL

func cvbSEL(c *ctx, kind string, set []string, probe string) {
	var r bool
	if kind == "se" {
		r = ws.SelectEqual(set[0])(probe)
	} else {
		r = ws.SelectFromSlice(set)(probe)
	}
	c.emit("SEL %s %s %s -> %d", kind, encSet(&set), hx([]byte(probe)), b2i(r))
}

// ---------------------------------------------------------------- OSE: Dialer.OnStatusError

// cvbOSE runs Dialer.Upgrade on the same scripted response twice, without and with OnStatusError.
// readmode: all (the callback reads resp to its end), none, n<k> (reads k bytes).
func cvbOSE(c *ctx, rbuf int, tail string, template []byte, sizes []int, readmode string) {
	u, _ := url.ParseRequestURI("ws://example.com/ws")
	type res struct {
		cls, hs, left string
		conn          *scriptConn
	}
	nCalls, status := 0, 0
	var reason, got []byte
	run := func(with bool) (r res) {
		r.conn = &scriptConn{template: template, sizes: sizes, tail: tailErr(tail)}
		d := ws.Dialer{ReadBufferSize: rbuf, Protocols: []string{"a", "b"}}
		if with {
			d.OnStatusError = func(st int, rs []byte, resp io.Reader) {
				nCalls++
				status, reason = st, append([]byte(nil), rs...)
				switch {
				case readmode == "all":
					b, _ := ioutil.ReadAll(resp)
					got = append(got, b...)
				case readmode == "none":
				default:
					k, _ := strconv.Atoi(readmode[1:])
					b := make([]byte, k)
					n, _ := io.ReadFull(resp, b)
					got = append(got, b[:n]...)
				}
			}
		}
		func() {
			defer func() {
				if rec := recover(); rec != nil {
					r.cls = "panic"
				}
			}()
			br, hs, err := d.Upgrade(r.conn, u)
			r.cls = dialErrClass(err)
			var left []byte
			if br != nil {
				left = make([]byte, br.Buffered())
				io.ReadFull(br, left)
				ws.PutReader(br)
			}
			if err == nil {
				left = append(left, r.conn.rest()...)
				r.hs, r.left = hxi([]byte(hs.Protocol))+"/"+encOpts(hs.Extensions), hx(left)
			}
		}()
		if r.hs == "" {
			r.hs, r.left = "-", "-"
		}
		return r
	}
	r0 := run(false)
	r1 := run(true)
	c.emit("OSE %d %s %s %s %s -> %s %s %s %s %s %s %s %d %d %s %s", rbuf, tail, hx(template), encInts(sizes), readmode,
		encChunks(r1.conn.actual), r0.cls, r0.hs, r0.left, r1.cls, r1.hs, r1.left, nCalls, status, hx(reason), hx(got))
}

// ---------------------------------------------------------------- DDW: package-level ws.Dial

func cvbDDW(c *ctx, urlstr string) {
	var network, addr, tlsHost string
	dials, tlsCalls := 0, 0
	saved := ws.DefaultDialer
	defer func() { ws.DefaultDialer = saved }()
	ws.DefaultDialer = ws.Dialer{
		NetDial: func(ctx context.Context, n, a string) (net.Conn, error) {
			dials++
			network, addr = n, a
			return nopConn{}, nil
		},
		TLSClient: func(conn net.Conn, hostname string) net.Conn {
			tlsCalls++
			tlsHost = hostname
			return conn
		},
	}
	u, perr := url.ParseRequestURI(urlstr)
	scheme, host := "-", "-"
	if perr == nil {
		scheme, host = hx([]byte(u.Scheme)), hx([]byte(u.Host))
	}
	func() {
		defer func() { recover() }()
		ws.Dial(context.Background(), urlstr)
	}()
	c.emit("DDW %s -> %d %s %s %d %s %s %d %s", hx([]byte(urlstr)), b2i(perr == nil), scheme, host, dials, hx([]byte(network)), hx([]byte(addr)), tlsCalls, hx([]byte(tlsHost)))
}

// ---------------------------------------------------------------- DN10: NetDial == nil, loopback listener

// cvbDN10 dials ws://<listener address><path> with no NetDial configured (api "ws": package-level ws.Dial with
// the zero DefaultDialer; "d": a Dialer value). The listener answers the first connection with a valid 101
// followed by trailing, and counts the connections it gets.
func cvbDN10(c *ctx, api, path string, protocols []string, trailing []byte) {
	ln, err := net.Listen("tcp", "127.0.0.1:0")
	if err != nil {
		c.emit("DN10 %s %s %s %s -> nolisten", api, hx([]byte(path)), cvbEncStrs(protocols), hx(trailing))
		return
	}
	type srv struct {
		n   int
		req []byte
	}
	done := make(chan srv, 1)
	release := make(chan struct{})
	go func() {
		var s srv
		for {
			if s.n > 0 {
				ln.(*net.TCPListener).SetDeadline(time.Now().Add(40 * time.Millisecond))
			} else {
				ln.(*net.TCPListener).SetDeadline(time.Now().Add(10 * time.Second))
			}
			conn, err := ln.Accept()
			if err != nil {
				break
			}
			s.n++
			if s.n > 1 {
				conn.Close()
				continue
			}
			conn.SetDeadline(time.Now().Add(10 * time.Second))
			br := bufio.NewReader(conn)
			for {
				line, err := br.ReadBytes('\n')
				s.req = append(s.req, line...)
				if err != nil || len(bytes.TrimRight(line, "\r\n")) == 0 {
					break
				}
			}
			resp := substAccept([]byte("HTTP/1.1 101 Switching Protocols\r\nUpgrade: websocket\r\nConnection: Upgrade\r\nSec-WebSocket-Accept: @@ACCEPT@@\r\n\r\n"), keyOfRequest(s.req))
			conn.Write(append(resp, trailing...))
			go func(conn net.Conn) { <-release; conn.Close() }(conn)
		}
		done <- s
	}()
	urlstr := "ws://" + ln.Addr().String() + path
	u, _ := url.ParseRequestURI(urlstr)
	ctx, cancel := context.WithTimeout(context.Background(), 10*time.Second)
	defer cancel()
	cls := ""
	var left []byte
	func() {
		defer func() {
			if r := recover(); r != nil {
				cls = "panic"
			}
		}()
		var conn net.Conn
		var br *bufio.Reader
		var err error
		if api == "ws" {
			conn, br, _, err = ws.Dial(ctx, urlstr)
		} else {
			conn, br, _, err = ws.Dialer{Protocols: protocols}.Dial(ctx, urlstr)
		}
		cls = dialErrClass(err)
		if err == nil {
			if br != nil {
				b := make([]byte, br.Buffered())
				io.ReadFull(br, b)
				left = append(left, b...)
				ws.PutReader(br)
			}
			conn.SetReadDeadline(time.Now().Add(10 * time.Second))
			for len(left) < len(trailing) {
				b := make([]byte, 512)
				n, e := conn.Read(b)
				left = append(left, b[:n]...)
				if e != nil {
					break
				}
			}
		}
		if conn != nil {
			conn.Close()
		}
	}()
	close(release)
	s := <-done
	ln.Close()
	c.emit("DN10 %s %s %s %s -> %d %s %s %s %s %s %s", api, hx([]byte(path)), cvbEncStrs(protocols), hx(trailing),
		s.n, hx([]byte(u.Host)), hx([]byte(u.RequestURI())), hx(keyOfRequest(s.req)), hx(s.req), cls, hx(left))
}

func cvbEncStrs(ps []string) string {
	if len(ps) == 0 {
		return "-"
	}
	var x []string
	for _, p := range ps {
		x = append(x, hxi([]byte(p)))
	}
	return strings.Join(x, ",")
}

// ---------------------------------------------------------------- DF10: the connection cannot be established

var errCvbDial = errors.New("verif: connection refused")

func cvbDF10(c *ctx, scheme string) {
	dials, tlsCalls := 0, 0
	d := ws.Dialer{
		NetDial: func(ctx context.Context, n, a string) (net.Conn, error) {
			dials++
			return nil, errCvbDial
		},
		TLSClient: func(conn net.Conn, hostname string) net.Conn {
			tlsCalls++
			return conn
		},
	}
	cls := ""
	var conn net.Conn
	func() {
		defer func() {
			if r := recover(); r != nil {
				cls = "panic"
			}
		}()
		var err error
		conn, _, _, err = d.Dial(context.Background(), scheme+"://example.com/ws")
		switch err {
		case nil:
			cls = "ok"
		case errCvbDial:
			cls = "dialerr"
		default:
			cls = "other"
		}
	}()
	c.emit("DF10 %s -> %s %d %d %d", scheme, cls, dials, tlsCalls, b2i(conn == nil))
}

// ---------------------------------------------------------------- generators

func cvbReq(lines ...string) []byte {
	r := baseReq()
	r.lines = append(canonLines(""), lines...)
	return r.bytes()
}

func cvbC09(c *ctx) {
	// --- HTTPUpgrader: Timeout set; nil Header map; the documented selector constructors
	protoHdrs := [][]string{nil, {"chat"}, {"superchat, chat"}, {"a", "chat, b"}, {"b,a"}, {"zzz"}, {"chat,"}, {"a b"}}
	big := []string{}
	for i := 0; i < 20; i++ {
		big = append(big, fmt.Sprintf("p%d", i))
	}
	sets := []*[]string{{"chat"}, {"superchat", "chat"}, {}, {"b", "a", "zzz"}, &big}
	for i, ph := range protoHdrs {
		h := mandMap("")
		if ph != nil {
			h = append(h, hmEntry{"Sec-Websocket-Protocol", ph})
		}
		for j, set := range sets {
			cvbH9X(c, "sl", "GET", 1, 1, "example.com", h, nil, set, nil, nil)
			if len(*set) == 1 {
				cvbH9X(c, "se", "GET", 1, 1, "example.com", h, nil, set, nil, nil)
			}
			// the same selectors in front of Upgrader.Protocol
			var ls []string
			for _, v := range ph {
				ls = append(ls, "Sec-WebSocket-Protocol: "+v)
			}
			cfg := ucfg{proto: set}
			cvbU9X(c, "sl", 0, 0, "eof", chunkRandom(c, cvbReq(ls...), 1+c.rng.Intn(60)), cfg)
			if len(*set) == 1 {
				cvbU9X(c, "se", 0, 0, "eof", chunkWhole(cvbReq(ls...)), cfg)
			}
			if (i+j)%3 == 0 {
				cvbH9X(c, "to", "GET", 1, 1, "example.com", h, []hmEntry{{"X-Server", []string{"verif"}}}, set, nil, nil)
			}
		}
	}
	// a client asking for one of more than 16 configured names (the map arm of SelectFromSlice)
	for _, v := range []string{"p19", "x, p7, p3", "p20", "P1, p0"} {
		h := append(mandMap(""), hmEntry{"Sec-Websocket-Protocol", []string{v}})
		cvbH9X(c, "sl", "GET", 1, 1, "example.com", h, nil, &big, nil, nil)
		cvbU9X(c, "sl", 0, 0, "eof", chunkWhole(cvbReq("Sec-WebSocket-Protocol: "+v)), ucfg{proto: &big})
	}
	for _, set := range [][]string{{}, {"a"}, {"a", "b", "a"}, big, big[:16], big[:17], {""}} {
		for _, p := range []string{"a", "b", "", "p0", "p15", "p16", "p19", "p2", "P2", "p20", "a "} {
			cvbSEL(c, "sl", set, p)
			if len(set) > 0 {
				cvbSEL(c, "se", set, p)
			}
		}
	}
	negPlain := []negEntry{{name: "foo", action: 'r', rej: rejSamples[2]}, {name: "bar", action: 'r', rej: rejSamples[3]},
		{name: "permessage-deflate", action: 'e'}}
	for _, m := range mandatory[1:] {
		// timeout with failing requests (the error response is written under the deadline too)
		cvbH9X(c, "to", "GET", 1, 1, "h", mandMap(m.name), nil, nil, nil, nil)
	}
	cvbH9X(c, "to", "POST", 1, 1, "h", mandMap(""), nil, nil, nil, &negPlain)
	cvbH9X(c, "to", "GET", 1, 1, "h", append(mandMap(""), hmEntry{"Sec-Websocket-Extensions", []string{"foo"}}), nil, nil, nil, &negPlain)
	// Header == nil (a hand-made request): every header is absent
	for _, v := range [][2]int{{1, 1}, {1, 0}, {2, 0}} {
		cvbH9X(c, "nh", "GET", v[0], v[1], "example.com", nil, nil, nil, nil, nil)
		cvbH9X(c, "nh", "GET", v[0], v[1], "example.com", nil, []hmEntry{{"X-A", []string{"1"}}}, &[]string{"chat"}, &[]string{"foo"}, nil)
	}
	cvbH9X(c, "nh", "PUT", 1, 1, "", nil, nil, nil, nil, &negPlain)
	// --- HTTPUpgrader.Negotiate failing with a plain error / a rejection that names no status (kind H09)
	for _, xv := range []string{"foo", "bar; a=1", "baz, bar", "permessage-deflate, foo", "baz", "foo, bar"} {
		for _, ch := range [][]hmEntry{nil, {{"X-Server", []string{"verif"}}}} {
			h09(c, "up", "GET", 1, 1, "example.com", append(mandMap(""), hmEntry{"Sec-Websocket-Extensions", []string{xv}}), ch, nil, nil, &negPlain)
		}
	}
	for _, rj := range rejSamples {
		t := []negEntry{{name: "foo", action: 'r', rej: rj}}
		h09(c, "up", "GET", 1, 1, "example.com", append(mandMap(""), hmEntry{"Sec-Websocket-Extensions", []string{"bar, foo; a=1, baz"}}), nil, nil, nil, &t)
	}
	// --- a callback returning one of the library's own error values
	wheres := []string{"req", "host", "hdr", "before", "neg"}
	for i, e := range cvbLibErrs {
		_, rj := cvbLibRej(e.name)
		for k, where := range wheres {
			if !c.thor && (i+k)%2 == 1 && e.name != "BadSecAccept" {
				continue
			}
			cfg := ucfg{}
			if (i+k)%3 == 0 {
				cfg.hdr = []byte("X-Server: verif\r\n")
			}
			lines := []string{"X-Test: 1"}
			switch where {
			case "req":
				cfg.onreq = []kvRej{{[]byte("/ws"), rj}}
			case "host":
				cfg.onhost = []kvRej{{[]byte("example.com"), rj}}
			case "hdr":
				cfg.onhdr = []kvRej{{[]byte("X-Test"), rj}}
			case "before":
				cfg.before = &beforeCfg{rej: &rj}
			case "neg":
				cfg.neg = &[]negEntry{{name: "foo", action: 'r', rej: rj}}
				lines = append(lines, "Sec-WebSocket-Extensions: bar, foo; a=1")
			}
			req := cvbReq(lines...)
			cvbU9X(c, "le."+where+"."+e.name, []int{0, 16, 64}[(i+k)%3], []int{0, 1, 16}[k%3], "eof", chunkRandom(c, req, 1+c.rng.Intn(80)), cfg)
		}
	}
	// --- a ResponseWriter that cannot be hijacked
	for _, wk := range []string{"plain", "unsup", "refuse"} {
		for _, rk := range []string{"good", "badupgrade", "post", "ws"} {
			cvbHNH(c, wk, rk)
		}
	}
	// --- ProtocolCustom / ExtensionCustom
	protoLines := [][]string{nil, {"chat"}, {"chat, superchat"}, {" superchat ,chat"}, {"a", "b, c"}, {"", "x"}, {"a,b", "c", "d"}, {"mqtt"}}
	pmodes := []string{"first", "last", "fix." + hxi([]byte("chat")), "fix." + hxi([]byte("not-offered")), "empty", "second", "bad", "badv", "bad2"}
	for i, pl := range protoLines {
		for j, mode := range pmodes {
			var ls []string
			for _, v := range pl {
				ls = append(ls, "Sec-WebSocket-Protocol: "+v)
			}
			if j%3 == 1 {
				ls = append([]string{"X-Other: 1"}, ls...)
			}
			var hdr []byte
			if (i+j)%4 == 0 {
				hdr = []byte("X-Server: verif\r\n")
			}
			req := cvbReq(ls...)
			cvbUPC(c, mode, (i+j)%2 == 0, []int{0, 16, 200}[j%3], chunkRandom(c, req, 1+c.rng.Intn(90)), hdr)
			if j == 0 {
				// a request that is refused for another reason: the custom parser's answer must not turn it into a success
				r := baseReq()
				r.lines = append(append(canonLines("Upgrade"), ls...), "Upgrade: h2c")
				cvbUPC(c, mode, false, 0, chunkWhole(r.bytes()), nil)
				r.lines = append(canonLines("Sec-WebSocket-Key"), ls...)
				cvbUPC(c, mode, true, 0, chunkWhole(r.bytes()), hdr)
			}
		}
	}
	extLines := [][]string{nil, {"foo"}, {"foo; a=1, bar"}, {"permessage-deflate; client_max_window_bits, foo"}, {"foo", "bar; b=2"},
		{"bar", "foo; x=y; z", "baz"}, {"foo; a=\"q r\""}, {""}, {"foo,, bar"}}
	xmodes := []string{"all", "first", "name." + hxi([]byte("foo")), "name." + hxi([]byte("permessage-deflate")), "none", "bad", "badapp", "bad2"}
	for i, xl := range extLines {
		for j, mode := range xmodes {
			var ls []string
			for _, v := range xl {
				ls = append(ls, "Sec-WebSocket-Extensions: "+v)
			}
			if j%3 == 2 {
				ls = append(ls, "Sec-WebSocket-Protocol: chat")
			}
			var hdr []byte
			if (i+j)%4 == 1 {
				hdr = []byte("X-Server: verif\r\n")
			}
			req := cvbReq(ls...)
			cvbUXC(c, mode, (i+j)%2 == 1, []int{0, 16, 200}[j%3], chunkRandom(c, req, 1+c.rng.Intn(90)), hdr)
			if j == 0 {
				r := baseReq()
				r.lines = append(append(canonLines("Connection"), ls...), "Connection: close")
				cvbUXC(c, mode, false, 0, chunkWhole(r.bytes()), nil)
			}
		}
	}
}

func cvbC10(c *ctx) {
	// --- OnStatusError: every status token, reasons, line ends, trailing body, chunkings, how much the callback reads
	bodies := []string{"", "Content-Length: 5\r\n\r\nhello", "Content-Type: text/plain\r\nX-A: b\r\n\r\n" + strings.Repeat("body ", 40)}
	readmodes := []string{"all", "none", "n1", "n9", "n20", "n4000"}
	i := 0
	for _, st := range append([]string{"403", "999", "000", "099"}, statusTokens...) {
		for _, reason := range []string{"Forbidden", "", "Not  Found here", "x"} {
			i++
			if !c.thor && i%3 != 0 && st != "403" && st != "101" {
				continue
			}
			eol := "\r\n"
			if i%5 == 0 {
				eol = "\n"
			}
			t := "HTTP/1.1 " + st + " " + reason + eol
			if i%7 == 0 {
				t = "HTTP/1.1 " + st + eol // no reason, no second blank
			}
			if st == "101" {
				t += "Upgrade: websocket" + eol + "Connection: Upgrade" + eol + "Sec-WebSocket-Accept: @@ACCEPT@@" + eol + eol + "\x81\x02hi"
			} else {
				t += strings.Replace(bodies[i%len(bodies)], "\r\n", eol, -1)
				if bodies[i%len(bodies)] == "" {
					t += eol
				}
			}
			cvbOSE(c, []int{0, 16, 64, 4096}[i%4], []string{"eof", "fail"}[i%2], []byte(t), randSizes(c), readmodes[i%len(readmodes)])
		}
	}
	for k, st := range []string{"200", "400", "404", "500", "301", "100", "102", "999", "000"} {
		for m, rm := range readmodes {
			t := "HTTP/1." + strconv.Itoa(1+(k+m)%3) + " " + st + " Some Reason\r\nServer: x\r\n" + bodies[(k+m)%len(bodies)]
			cvbOSE(c, []int{0, 16, 17, 64}[(k+m)%4], []string{"eof", "fail"}[m%2], []byte(t), randSizes(c), rm)
		}
	}
	for _, v := range []string{"HTTP/1.0", "HTTP/1.2", "HTTP/2.0", "HTTP/1.10", "http/1.1"} {
		cvbOSE(c, 0, "eof", []byte(v+" 404 Not Found\r\nContent-Length: 2\r\n\r\nno"), randSizes(c), "all")
	}
	for k := 0; k < 40; k++ { // the status line alone, cut anywhere, then the stream ends
		full := []byte("HTTP/1.1 503 Service Unavailable\r\nRetry-After: 1\r\n\r\nlater")
		cvbOSE(c, 16, pick(c, "eof", "fail"), full[:c.rng.Intn(len(full)+1)], randSizes(c), "all")
	}
	// --- package-level ws.Dial: address derivation as for Dialer.Dial
	for _, us := range urlForms {
		cvbDDW(c, us)
	}
	// --- no NetDial configured: the default dialer really connects to the URL's host and port
	cvbDN10(c, "ws", "/", nil, nil)
	cvbDN10(c, "ws", "/chat?x=1", nil, []byte("\x81\x05hello"))
	cvbDN10(c, "d", "/ws", []string{"a", "b"}, []byte("\x81\x02hi\x81\x02yo"))
	cvbDN10(c, "d", "/", nil, nil)
	// --- NetDial fails
	cvbDF10(c, "ws")
	cvbDF10(c, "wss")
}

func cvbC11(c *ctx) {
	// refused handshakes that carry a body (every rejection of the library's upgrader does), with and without
	// "Connection: close": OnResponse gets head and body, the outcome is unchanged
	for _, t := range []string{
		"HTTP/1.1 400 Bad Request\r\nContent-Type: text/plain\r\nContent-Length: 11\r\n\r\nbad request",
		"HTTP/1.1 400 Bad Request\r\nConnection: close\r\nContent-Length: 11\r\n\r\nbad request",
		"HTTP/1.1 403 Forbidden\r\nContent-Length: 9\r\nConnection: close\r\nX-Why: policy\r\n\r\nforbidden",
		"HTTP/1.1 426 Upgrade Required\r\nSec-WebSocket-Version: 13\r\nconnection: Close\r\ncontent-length: 300\r\n\r\n" + strings.Repeat("u", 300),
		"HTTP/1.1 500 Internal Server Error\r\nContent-Length: 0\r\nConnection: close\r\n\r\n",
	} {
		for _, rb := range []int{0, 16} {
			dbd(c, []byte(t), nil, rb, dcfg{}, true, true)
			dbd(c, []byte(t), []int{9, 1, 40}, rb, dialCfgs[1], false, true)
		}
	}
	// Responses that net/http's parser refuses (DebugDialer's prefetch falls back to "all bytes read"): delivered
	// in one piece and with nothing behind them, so that "the response bytes" are not in doubt.
	//
	// Regression note (defect F22, fixed in /repo): a response the DIALER ACCEPTS but net/http refuses (HTTP/1.10,
	// a header line with an empty name such as ": v") followed by frames, or arriving in more than one read, made
	// DebugDialer lose the frames / report only the first segment. These inputs are generated below.
	for _, t := range []string{
		"garbage\r\n\r\n",
		"HTTP/1.1 40 short\r\n\r\n",
		"HTTP/1.10 400 Bad Request\r\n\r\n",
		"HTTP/1.1 400 Bad Request\r\n: novalue-name\r\n\r\n",
		"HTTP/1.1 101 Switching Protocols\r\nUpgrade: websocket\r\nConnection: Upgrade\r\nSec-WebSocket-Accept: @@ACCEPT@@\r\n: novalue-name\r\n\r\n",
		"HTTP/1.10 101 Switching Protocols\r\nUpgrade: websocket\r\nConnection: Upgrade\r\nSec-WebSocket-Accept: @@ACCEPT@@\r\n\r\n",
		"HTTP/1.2 101 x\r\nUpgrade: websocket\r\nConnection: Upgrade\r\nSec-WebSocket-Accept: @@ACCEPTX@@\r\nX Y: z\r\n\r\n",
	} {
		for _, rb := range []int{0, 16} {
			dbd(c, []byte(t), nil, rb, dcfg{}, true, true)
			dbd(c, []byte(t), nil, rb, dialCfgs[1], false, true)
			if !strings.Contains(t, " 101 ") {
				continue // a refused, unparsable response read piecewise: "the response bytes" would be in doubt
			}
			// the same with frames right behind the head and/or delivered in several reads
			tt := []byte(t + "\x81\x05hello\x81\x02yo")
			dbd(c, tt, nil, rb, dcfg{}, true, true)
			dbd(c, tt, []int{7, 1, 30, 2, 500}, rb, dcfg{}, false, true)
			dbd(c, []byte(t), []int{5, 40, 3}, rb, dcfg{}, true, true)
			dbd(c, tt, randSizes(c), rb, dialCfgs[1], true, true)
			// bare-LF line ends (also only for the blank line), frames whose payload contains CR LF CR LF
			lf := strings.ReplaceAll(t, "\r\n", "\n")
			crlfFrames := "\x81\x06a\r\n\r\nb\x81\x02\n\n"
			dbd(c, []byte(lf+crlfFrames), nil, rb, dcfg{}, true, true)
			dbd(c, []byte(lf+crlfFrames), []int{11, 2, 300}, rb, dcfg{}, false, true)
			mixed := strings.TrimSuffix(lf, "\n\n") + "\n\r\n"
			dbd(c, []byte(mixed+crlfFrames), nil, rb, dcfg{}, true, true)
			dbd(c, []byte(t+crlfFrames), nil, rb, dialCfgs[1], true, true)
		}
	}
}

// Blocks of the handshake side that stay unexecuted, and why:
//   dialer.go:455, server.go:619   "unknown headers state": every value of headerSeen other than headerSeenAll
//                                  misses one of the bits tested before, the default arm cannot be reached
//   dialer.go:473 StatusError.Error   error texts are outside every property (only classes are observed)
//   http.go:397   `case nil` of httpWriteResponseError: both callers pass a non-nil error
//   http.go:508   writer.Write: http.Header.Write only calls WriteString on a writer that has it
//   nonce.go:32   math/rand.Read never fails; nonce.go:55,58: callers always pass 28 / 24 byte buffers
//   util.go:67    pow: dead code (no caller but the verification export)
//   wsflate/parameters.go:55 WindowBits.Bytes: a conversion helper no property speaks about and the library never calls
//   wsflate/parameters.go:184 setBits panic: only for a server CONFIGURATION outside 8..15 (never from a peer's offer,
//                                  Parse admits 8..15 only)
//   wsutil/dialer.go:80   resLen never exceeds the buffer it was computed from
