//go:build pool_sanitize

package main

// built with gobwas/pool's guard-page allocator (pbytes slices are unmapped after Put)
const poolSanitize = true
