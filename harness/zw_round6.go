package main

// Cases added after the sixth round of seeded changes (DESIGN 14.8). As in the earlier rounds every block
// generates an INPUT CLASS no earlier generator produced; the observation lines use existing kinds (judged by the
// existing monitors and models) wherever one observes the behaviour.

import (
	"bytes"
	"io"
	"net/http"
	"net/url"
	"strconv"
	"strings"

	"github.com/gobwas/ws"
)

func init() {
	r6Wrap := func(id string, extra func(*ctx)) {
		old := props[id]
		props[id] = func(c *ctx) {
			if old != nil {
				old(c)
			}
			extra(c)
		}
	}
	r6Wrap("C01", r6Dressed01)
	r6Wrap("C16", r6Dressed01)
	r6Wrap("C04", r6DressedReader)
	r6Wrap("C05", r6DressedReader)
	r6Wrap("C16", r6DressedReader)
	r6Wrap("C11", r6C11)
	r6Wrap("C06", r6C06)
	r6Wrap("C15", r6C15)
	r6Wrap("C16", r6C16W)
	r6Wrap("C18", r6C18)
	r6Wrap("C12", r6C12)
	r6Wrap("C09", r6HHW)
	r6Wrap("C10", r6HHW)
	replayers["HHW"] = func(c *ctx, in []string) { hhw(c, in[0], unhx(in[1])) }
	for _, id := range []string{"C04", "C07", "C18", "C19"} {
		r6Wrap(id, r6RXHistory)
	}
	r6Wrap("C13", r6C06)
	replayers["DBUW"] = func(c *ctx, in []string) {
		w, _ := strconv.Atoi(in[0])
		dbuW(c, w, unhx(in[1]), decInts(in[2]), decUcfg(in[3:11]), in[12] == "1", in[13] == "1")
	}
}

// r6-C11: DebugUpgrader.OnResponse kept only the LAST write of the response. The upgrader writes through a bufio.Writer
// (WriteBufferSize, default 512): a response longer than that buffer - a small buffer, or long extra headers with the
// default one - reaches the connection in several writes. Accepted and refused requests.
func r6C11(c *ctx) {
	long := []byte("X-Long: " + strings.Repeat("abcdefghij", 70) + "\r\n")
	for i := 0; i < 12; i++ {
		r := baseReq()
		r.lines = canonLines("")
		if i%3 == 1 {
			r.lines = append(canonLines("Upgrade"), "Upgrade: nope")
		}
		if i%4 == 2 {
			r.lines = append(r.lines, "Sec-WebSocket-Protocol: chat, superchat")
		}
		cfg := ucfg{}
		if i%2 == 0 {
			cfg = randCfg(c, r)
		}
		if i%3 != 2 {
			cfg.hdr = long
		}
		dbu(c, r.bytes(), randSizes(c), cfg, i%4 != 3, true)
		for _, w := range []int{16, 64, 100} {
			dbuW(c, w, r.bytes(), randSizes(c), cfg, i%4 != 3, true)
		}
	}
	// r6-C11b: extra headers of unusual but legal shapes, configured on either peer through the raw adapters: an empty
	// value with nothing after the colon, blanks and tabs around the value, colons inside it, a one-letter name, the
	// rarer token characters in a name, a field repeated, bytes above 127
	shapes := []string{
		"X-Note:\r\n", "X-Server: a\r\nX-Note:\r\n", "X-Note: \r\n", "X-Note:\t\r\n", "X-Note:v\r\n", "X-Note:  \t v \t \r\n",
		"X-Url: http://a:80/b:c\r\n", "a:b\r\n", "X!#$%&'*+-.^_`|~9: 1\r\n", "X-Dup: 1\r\nX-Dup: 2\r\nx-dup: 3\r\n",
		"X-Bin: caf\xc3\xa9 \xff\r\n", "X-A:\r\nX-B:\r\nX-C: c\r\n",
	}
	for i, sh := range shapes {
		for side := 0; side < 3; side++ {
			dc := dcfg{protocols: []string{"chat"}}
			uc := ucfg{proto: &[]string{"chat"}}
			if side != 1 {
				dc.hdr = []byte(sh)
			}
			if side != 0 {
				uc.hdr = []byte(sh)
			}
			B := []int{0, 16, 64}[(i+side)%3]
			a11(c, B, 0, B, 0, randSizes(c), randSizes(c), "ws://example.com/ws", dc, uc, []byte("\x81\x01x"))
		}
	}
}

// dresses: the concrete reader types a caller is likely to pass where the API says io.Reader. A fast path chosen by a
// type switch (`if br, ok := r.(*bufio.Reader)`) is invisible to every generator that always hands over one type.
var r6Dresses = []string{"B16", "B64", "B4096", "BR", "BB", "SR"}

func r6WholeOnly(d string) bool { return d == "BR" || d == "BB" || d == "SR" }

// ws.ReadHeader / ws.ReadFrame / the streaming reader's header decoder on complete and CUT frames behind every
// concrete reader type, both tails (r6-C01: a *bufio.Reader fast path in ReadFrame took a Peek that came back
// short for a complete payload)
func r6Dressed01(c *ctx) {
	lens := []int{0, 1, 2, 15, 16, 17, 125, 126, 300, 4096, 4097, 70000}
	for i, n := range lens {
		for m := 0; m < 2; m++ {
			p := make([]byte, n)
			c.rng.Read(p)
			h := ws.Header{Fin: true, OpCode: ws.OpBinary, Length: int64(n), Masked: m == 1}
			if h.Masked {
				c.rng.Read(h.Mask[:])
			}
			data, err := ws.CompileFrame(ws.Frame{Header: h, Payload: p})
			if err != nil {
				continue
			}
			hl := len(data) - n
			cuts := []int{0, 1, 2, hl - 1, hl, hl + 1, hl + n/2, len(data) - 1, len(data)}
			if n <= 20 && !c.thor {
				cuts = nil
				for k := 0; k <= len(data); k++ {
					cuts = append(cuts, k)
				}
			}
			for j, k := range cuts {
				if k < 0 || k > len(data) {
					continue
				}
				for di, d := range r6Dresses {
					if !c.thor && n > 300 && (i+j+di)%2 == 0 {
						continue
					}
					spec := d + "/" + []string{"-", "r1", "r3", "5,1,9", "r4096"}[(i+j+di)%5]
					tail := []string{"eof", "fail", "eofdata", "faildata"}[(j+di)%4]
					if r6WholeOnly(d) {
						spec, tail = d+"/-", "eof"
					}
					c01G(c, data[:k], spec, tail)
					if k <= hl+1 {
						c01D(c, data[:k], spec, tail)
					}
					if k == len(data) {
						c01F(c, h, p, []byte{0xAA, 0xBB, 0xCC}, spec)
					}
				}
			}
		}
	}
}

// the message reader, ReadMessage and the discard patterns over valid, rule-breaking and CUT streams behind every
// concrete reader type
func r6DressedReader(c *ctx) {
	n := 12
	if c.thor {
		n = 120
	}
	for j := 0; j < n; j++ {
		side := byte(1 + j%2)
		fs := c.randValidStream(side, 1+c.rng.Intn(5), 200)
		w := wireOf(fs)
		d := r6Dresses[j%len(r6Dresses)]
		spec := d + "/" + []string{"-", "r1", "r3", "5,1,9"}[j%4]
		if r6WholeOnly(d) {
			spec = d + "/-"
		}
		cfg := rcfg{state: side, cb: 1, chk: true}
		runRD(c, "RD", cfg, fs, "-", spec, "eof", bufSpecs[j%len(bufSpecs)])
		runRM(c, "RM", side, fs, "-", spec, "eof")
		step := 1 + len(w)/25
		for cut := 0; cut < len(w); cut += step {
			tail := []string{"eof", "fail"}[(cut+j)%2]
			if r6WholeOnly(d) {
				tail = "eof"
			}
			runRD(c, "RC", cfg, fs, strconv.Itoa(cut), spec, tail, bufSpecs[(j+cut)%len(bufSpecs)])
			runRM(c, "RMC", side, fs, strconv.Itoa(cut), spec, tail)
		}
	}
}

// r6-C06b: SetExtensions() with NO argument detaches the extensions (the list is replaced, also by the empty list): a
// long-lived writer with an extension, then none, then one again
func r6C06(c *ctx) {
	for _, side := range []byte{1 | 4, 2 | 4} {
		for _, ctor := range []string{"s125", "s5", "d0"} {
			runWH(c, "WHX", wcfg{ctor, side, 1, "1"}, "w3/1,fl,x-,w4/2,fl,w2/3,ff,w9/4,fl,x1,w2/1,fl,x-,w300/5,fl", "-")
			runWH(c, "WHX", wcfg{ctor, side, 2, "-"}, "x1,w3/1,fl,x-,w4/2,fl,x0,w2/3,fl,x-,t7/4,w2/1,fl", "-")
		}
	}
}

// r6-C07b: the ReadData family must judge every call on its own: a call that ended in the middle of a text message
// (invalid UTF-8, or a transport cut inside a multi-byte character) must leave nothing behind for the next call - in
// this process, on any connection (a pooled Reader that keeps its UTF-8 decoder state would)
func r6RXHistory(c *ctx) {
	mk := func(side byte, op byte, fin bool, p string) sframe {
		f := sframe{fin: fin, op: op, payload: []byte(p)}
		if side == 1 {
			f.masked = true
			c.rng.Read(f.key[:])
		}
		return f
	}
	for round := 0; round < 3; round++ {
		for _, side := range []byte{1, 2} {
			for _, want := range []string{"data", "text"} {
				// (1) invalid text, then valid text and binary
				runRX(c, "RX", side, want, []sframe{mk(side, 1, true, "ab\xff\xfe")}, "-", "-", "eof")
				runRX(c, "RX", side, want, []sframe{mk(side, 1, true, "hello")}, "-", "r3", "eof")
				runRX(c, "RX", side, "data", []sframe{mk(side, 2, true, "\x00\x01binary")}, "-", "-", "eof")
				// (2) cut inside a 3-byte character, then a message starting with the missing continuation byte
				// (invalid on its own) and an ASCII one (valid)
				euro := []sframe{mk(side, 1, true, "ab\xe2\x82\xac")}
				cut := len(wireOf(euro)) - 1
				runRX(c, "RXC", side, want, euro, strconv.Itoa(cut), "-", []string{"eof", "fail"}[round%2])
				runRX(c, "RX", side, want, []sframe{mk(side, 1, true, "\xacxyz")}, "-", "-", "eof")
				runRX(c, "RX", side, want, []sframe{mk(side, 1, true, "plain ascii")}, "-", "r1", "eof")
				// (3) a fragmented text message abandoned after its first fragment (stream ends), then a binary one
				runRX(c, "RXC", side, want, []sframe{mk(side, 1, false, "caf\xc3"), mk(side, 0, true, "\xa9")}, strconv.Itoa(len(wireOf([]sframe{mk(side, 1, false, "caf\xc3")}))), "-", "eof")
				runRX(c, "RX", side, "data", []sframe{mk(side, 2, true, "\xa9\xa9")}, "-", "-", "eof")
			}
		}
	}
}

// r6-C10b: the caller's extra headers through EVERY adapter type (HandshakeHeaderString / Bytes / Func / HTTP): the
// header block the adapter writes, the request the Dialer sends with it, the 101 and the error response the Upgrader
// writes with it. Fields with several values, repeated fields, hand-assigned (non-canonical) keys.
// HHW <adapter> <hex of the configured field lines "Key: value\r\n"...> -> <WriteTo bytes> <dialer request> <101> <error response>
func hhw(c *ctx, adapter string, text []byte) {
	mk := func() ws.HandshakeHeader {
		switch adapter {
		case "string":
			return ws.HandshakeHeaderString(text)
		case "bytes":
			return ws.HandshakeHeaderBytes(text)
		case "func":
			return ws.HandshakeHeaderFunc(func(w io.Writer) (int64, error) {
				n, err := w.Write(text)
				return int64(n), err
			})
		}
		h := http.Header{}
		for _, l := range strings.Split(string(text), "\r\n") {
			if i := strings.Index(l, ": "); i > 0 {
				h[l[:i]] = append(h[l[:i]], l[i+2:])
			}
		}
		return ws.HandshakeHeaderHTTP(h)
	}
	var direct bytes.Buffer
	mk().WriteTo(&direct)
	// the Dialer's request
	conn := &scriptConn{template: []byte("HTTP/1.1 400 Bad Request\r\n\r\n"), tail: io.EOF}
	u, _ := url.ParseRequestURI("ws://example.com/ws")
	func() {
		defer func() { recover() }()
		ws.Dialer{Header: mk()}.Upgrade(conn, u)
	}()
	// the Upgrader's 101 and its error response
	good := baseReq()
	good.lines = canonLines("")
	bad := baseReq()
	bad.lines = append(canonLines("Upgrade"), "Upgrade: nope")
	var outs [2][]byte
	for i, r := range []reqSpec{good, bad} {
		sc := &chunkConn{chunks: [][]byte{r.bytes()}, tail: io.EOF}
		func() {
			defer func() { recover() }()
			ws.Upgrader{Header: mk()}.Upgrade(sc)
		}()
		outs[i] = sc.out.Bytes()
	}
	c.emit("HHW %s %s -> %s %s %s %s", adapter, hx(text), hx(direct.Bytes()), hx(conn.in.Bytes()), hx(outs[0]), hx(outs[1]))
}

func r6HHW(c *ctx) {
	texts := []string{
		"Origin: http://example.com\r\n",
		"Cookie: a=1\r\nCookie: b=2\r\n",
		"X-Trace: t1\r\nX-Trace: t2\r\nX-Trace: t3\r\nOrigin: x\r\n",
		"Set-Cookie: s=1\r\nX-A: 1\r\nSet-Cookie: t=2\r\nX-B: 2\r\nSet-Cookie: u=3\r\n",
		"x-token: lower\r\nX-Token: canon\r\n",
		"B: 2\r\nA: 1\r\nC: 3\r\nA: 4\r\n",
		"X-Long: " + strings.Repeat("v", 600) + "\r\nX-Long: " + strings.Repeat("w", 600) + "\r\n",
	}
	for _, t := range texts {
		for _, a := range []string{"string", "bytes", "func", "http"} {
			hhw(c, a, []byte(t))
		}
	}
}

// r6-C12: the decompression reader re-used through Reset after a source it never drained (a placeholder given to
// NewReader, an abandoned message), old and new source of different kinds (io.ByteReader or not) - so far generated for
// C18 only; the recovery clause of C12 ("recovers the original ... for any chunking, byte-reader and plain sources")
// covers a re-used reader as well
func r6C12(c *ctx) {
	for _, n := range []int{300, 70000} {
		for kinds := 0; kinds < 4; kinds++ {
			for _, k := range []int{0, 5} {
				frp(c, n, k, kinds, 100+c.rng.Intn(500))
			}
		}
	}
}

// r6-C16: the destination fails with a TIMEOUT-type error (what a net.Conn reports for an expired write deadline, or
// os.ErrDeadlineExceeded): it is a failed write like any other - sticky, nothing more is sent
func r6C16W(c *ctx) {
	for _, ctor := range []string{"s7", "s125", "b20", "d0"} {
		for _, side := range []byte{1, 2} {
			cfg := wcfg{ctor, side, 2, "-"}
			for j, h := range []string{"w9/1,ff,w30/2,fl,w5/3,fl,w300/4,t3/5,ff,fl", "w200/1,w200/2,w3/3,fl,w2/4,fl", "r500/1/-,fl,w3/2,fl"} {
				dst := newRecWriter()
				w, _ := newWriter(dst, cfg)
				runWops(w, dst, strings.Split(h, ","))
				for k := 0; k <= len(dst.calls) && k < 7; k++ {
					runWH(c, "WHF", cfg, h, []string{"t", "d"}[(j+k)%2]+strconv.Itoa(k))
				}
			}
		}
	}
}

// r6-C18b: a writer that had k extensions before Reset / the pool cycle is given k' > k extensions afterwards: all of
// them are attached, as on a new writer ("01": the SECOND one sets RSV1)
func r6C18(c *ctx) {
	type pc struct {
		ctor  string
		state byte
	}
	for _, p := range []pc{{"s125", 1}, {"s125", 2}, {"u132", 1}, {"u136", 2}, {"s128", 1}} {
		for _, exts := range []string{"1", "0", "-"} {
			for _, mode := range []string{"reset", "pool"} {
				for _, h2 := range []string{"x01,w3/1,fl,w200/2,fl", "x001,w3/1,fl", "x0,w3/1,fl,x01,w4/2,fl", "x1,w3/1,fl"} {
					cfg := wcfg{p.ctor, p.state, 1, exts}
					if exts != "-" {
						cfg.state |= 4
					}
					runW18(c, cfg, "w3/1,fl", "-", mode, p.state|4, 1, h2)
				}
			}
		}
	}
}

// r6-C15b: resources that grow with the NUMBER of frames in the peer's stream. A message made of a million EMPTY
// non-final fragments (2 bytes each from a server, 6 from a client: a few megabytes on the wire) and as many empty
// pings / pongs between two fragments must be read in constant stack; run in a child process with the goroutine stack
// capped at 4 MB, so recursion per frame ends in the runtime's fatal stack overflow ("crash")
func r6C15(c *ctx) {
	count := 300000
	if c.thor {
		count = 2000000
	}
	for _, side := range []int{1, 2} {
		fr := func(b0 byte, payload []byte) []byte { // a frame as the PEER of side sends it
			f := sframe{fin: b0&0x80 != 0, op: b0 & 0x0f, payload: payload}
			if side == 1 {
				f.masked = true
				f.key = [4]byte{1, 2, 3, 4}
			}
			return f.wire()
		}
		for _, e := range []string{"xr", "xm"} {
			entry := e + strconv.Itoa(side)
			// empty continuation fragments
			fzx(c, entry, fzRep(fr(0x01, []byte("ab")), fr(0x00, nil), count, fr(0x80, []byte("c"))))
			// one-byte fragments
			fzx(c, entry, fzRep(fr(0x02, nil), fr(0x00, []byte("x")), count/4, fr(0x80, nil)))
			// empty pings and pongs between two fragments
			fzx(c, entry, fzRep(fr(0x01, []byte("ab")), append(fr(0x89, nil), fr(0x8a, nil)...), count/2, fr(0x80, []byte("c"))))
			// empty unfragmented messages one after the other
			if e == "xr" {
				fzx(c, entry, fzRep(nil, fr(0x82, nil), count, nil))
			}
		}
	}
}
