package main

import (
	"bytes"
	"compress/flate"
	"fmt"
	"io"
	"io/ioutil"
	"strings"

	"github.com/gobwas/ws/wsflate"

	"github.com/gobwas/ws/wsutil"
)

func init() {
	replayers["U8R"] = func(c *ctx, in []string) { u8r(c, unhx(in[0]), in[1], in[2]) }
	replayers["FWR"] = func(c *ctx, in []string) {
		var a, b int
		fmt.Sscan(in[2], &a)
		fmt.Sscan(in[3], &b)
		fwr(c, unhx(in[0]), unhx(in[1]), a, b)
	}
	replayers["CRS"] = func(c *ctx, in []string) { crs(c, unhx(in[0]), unhx(in[1]), key4(in[2])) }
	replayers["FRP"] = func(c *ctx, in []string) {
		var n, k, kinds, n2 int
		fmt.Sscan(in[0], &n)
		fmt.Sscan(in[1], &k)
		fmt.Sscan(in[2], &kinds)
		fmt.Sscan(in[3], &n2)
		frp(c, n, k, kinds, n2)
	}
	replayers["U8RS"] = func(c *ctx, in []string) { u8rs(c, unhx(in[0]), unhx(in[1]), in[2]) }
	runC18R = runC18Rimpl
}

// U8RS / CRRS: a UTF8Reader (and a CipherReader) that has read [before], is Reset onto a new
// source and then reads [after] — side by side with fresh readers reading [after]
func u8rs(c *ctx, before, after []byte, bufs string) {
	drive := func(u *wsutil.UTF8Reader, n int) (out []byte, e string) {
		bs := intsSpec(bufs)
		var err error
		for i := 0; i < n+5; i++ {
			buf := make([]byte, bs[i%len(bs)])
			var k int
			k, err = u.Read(buf)
			out = append(out, buf[:k]...)
			if err != nil {
				break
			}
		}
		e = "other"
		if err == io.EOF {
			e = "eof"
		} else if err == wsutil.ErrInvalidUTF8 {
			e = "invalidutf8"
		}
		return
	}
	a := wsutil.NewUTF8Reader(newChunkReader(before, "-", "eof"))
	drive(a, len(before))
	a.Reset(newChunkReader(after, "r3", "eof"))
	a0v, a0a := a.Valid(), a.Accepted()
	ao, ae := drive(a, len(after))
	f := wsutil.NewUTF8Reader(newChunkReader(after, "r3", "eof"))
	f0v, f0a := f.Valid(), f.Accepted()
	fo, fe := drive(f, len(after))
	// CipherReader likewise
	key := [4]byte{9, 8, 7, 6}
	cr := wsutil.NewCipherReader(newChunkReader(before, "-", "eof"), [4]byte{1, 2, 3, 4})
	tmp := make([]byte, len(before)+1)
	cr.Read(tmp)
	cr.Reset(newChunkReader(after, "-", "eof"), key)
	x := make([]byte, len(after)+1)
	xn, _ := cr.Read(x)
	cf := wsutil.NewCipherReader(newChunkReader(after, "-", "eof"), key)
	y := make([]byte, len(after)+1)
	yn, _ := cf.Read(y)
	c.emit("U8RS %s %s %s -> %d.%d.%s.%s.%d.%d %d.%d.%s.%s.%d.%d %s %s", hx(before), hx(after), bufs,
		b2i(a0v), a0a, hx(ao), ae, b2i(a.Valid()), a.Accepted(),
		b2i(f0v), f0a, hx(fo), fe, b2i(f.Valid()), f.Accepted(), hx(x[:xn]), hx(y[:yn]))
}

// FWR: wsflate.Writer / Reader reused through Reset (optionally after a destination error) vs fresh ones
func fwr(c *ctx, msg1, msg2 []byte, failAt int, level int) {
	if failAt == -2 {
		// the second message repeats text of the first: a compressor that kept its window would refer back to it
		msg2 = append(append([]byte(nil), msg1...), msg2...)
	}
	ctor := func(w io.Writer) wsflate.Compressor {
		f, _ := flate.NewWriter(w, level)
		if failAt == -2 { // a user-supplied compressor without Reset(io.Writer)
			return plainComp{f}
		}
		return f
	}
	run := func(w *wsflate.Writer, d *recWriter, msg []byte) string {
		n, e1 := w.Write(msg)
		e2 := w.Flush()
		return fmt.Sprintf("%d.%s.%s.%s.%s", n, werrClass(e1), werrClass(e2), werrClass(w.Err()), hx(d.all()))
	}
	d1 := newRecWriter()
	if failAt >= 0 {
		d1.failAt = failAt
	}
	a := wsflate.NewWriter(d1, ctor)
	a.Write(msg1)
	a.Flush()
	dA := newRecWriter()
	a.Reset(dA)
	ra := run(a, dA, msg2)
	dB := newRecWriter()
	b := wsflate.NewWriter(dB, ctor)
	rb := run(b, dB, msg2)
	// reader: msg1's compressed bytes truncated (error), Reset, msg2's compressed bytes
	dctor := func(r io.Reader) wsflate.Decompressor { return flate.NewReader(r) }
	comp := func(m []byte) []byte {
		var buf bytes.Buffer
		w := wsflate.NewWriter(&buf, ctor)
		w.Write(m)
		w.Flush()
		return buf.Bytes()
	}
	c1, c2 := comp(msg1), comp(msg2)
	if len(c1) > 2 {
		c1 = c1[:len(c1)/2]
	}
	ra2, rb2 := "panic", "panic"
	mkSrc := func(first bool, data []byte) io.Reader {
		// the first source is an io.ByteReader and the second is not (the other way round for odd levels)
		if first == (level%2 == 0) {
			return bytes.NewReader(data)
		}
		return newChunkReader(data, "r3", "eof")
	}
	func() {
		defer func() { recover() }()
		r := wsflate.NewReader(mkSrc(true, c1), dctor)
		io.Copy(ioutil.Discard, r)
		r.Reset(mkSrc(false, c2))
		out, err := ioutil.ReadAll(r)
		ra2 = fmt.Sprintf("%s.%s.%s", hx(out), readErrClass(err), readErrClass(r.Err()))
	}()
	func() {
		defer func() { recover() }()
		f := wsflate.NewReader(mkSrc(false, c2), dctor)
		out2, err2 := ioutil.ReadAll(f)
		rb2 = fmt.Sprintf("%s.%s.%s", hx(out2), readErrClass(err2), readErrClass(f.Err()))
	}()
	c.emit("FWR %s %s %d %d -> %s %s %s %s", hx(msg1), hx(msg2), failAt, level, ra, rb, ra2, rb2)
}

// message reader: a text message read partially (ending inside a multi-byte character) and
// discarded; the next text message must be validated from a clean state
func runUtf8Discard(c *ctx, n int) {
	texts := [][]byte{[]byte("h\xc3\xa9llo w\xc3\xb6rld \xe2\x82\xac!"), []byte("\xf0\x9f\x98\x80\xf0\x9f\x98\x80"), []byte("\xe2\x82\xac\xe2\x82\xac\xe2\x82\xac")}
	for i := 0; i < n; i++ {
		side := byte(1 + i%2)
		var fs []sframe
		for k := 0; k < 3; k++ {
			tx := texts[(i+k)%len(texts)]
			cut := 1 + c.rng.Intn(len(tx)-1)
			f1 := c.mkFrame(side, false, 1, 0)
			f1.payload = tx[:cut]
			f2 := c.mkFrame(side, true, 0, 0)
			f2.payload = tx[cut:]
			fs = append(fs, f1, f2)
		}
		ok := c.mkFrame(side, true, 1, 0)
		ok.payload = []byte("ok \xc3\xa9")
		fs = append(fs, ok)
		runRDD(c, rcfg{state: side, chk: true, cb: 1}, fs, chunkSpecs[i%len(chunkSpecs)], "eof", []string{"1", "2", "3", "5"}[i%4], []string{"p", "pr", "ppr", "dpr"}[i%4])
	}
}

// plainComp hides flate.Writer's Reset method: a Compressor that can only Write and Flush
type plainComp struct{ w *flate.Writer }

func (p plainComp) Write(b []byte) (int, error) { return p.w.Write(b) }
func (p plainComp) Flush() error                { return p.w.Flush() }

func runC18Rimpl(c *ctx) {
	n := 150
	if c.thor {
		n = 3000
	}
	for i := 0; i < n; i++ {
		u8rs(c, randUtf8ish(c, 1+c.rng.Intn(10)), randUtf8ish(c, c.rng.Intn(10)), bufSpecs[c.rng.Intn(len(bufSpecs))])
	}
	runUtf8Discard(c, 60)
	// compression writer / reader reuse after Reset, also after an I/O error
	for i := 0; i < 40; i++ {
		fwr(c, c.payload(1+c.rng.Intn(400)), c.payload(c.rng.Intn(400)), []int{-1, 0, 1, -2}[i%4], []int{-1, 1, 9, 0}[(i/4)%4])
	}
	u8rs(c, []byte("abc"), nil, "4096")
	u8rs(c, []byte("\xe2\x82"), []byte("\xac"), "1")
	u8rsPending(c)
	// CipherReader reset onto the SAME source object with the SAME key after k bytes (k not a multiple of 4)
	for k := 0; k <= 9; k++ {
		for _, n := range []int{0, 1, 5, 8, 13} {
			crs(c, c.payload(k), c.payload(n), [4]byte{0x11, 0x22, 0x33, byte(0x40 + k)})
		}
	}
	// compression reader: a BIG first message abandoned after k bytes (its source not drained), then
	// Reset onto a source of another kind (io.ByteReader or not)
	for _, n := range []int{300, 70000, 200000} {
		for kinds := 0; kinds < 4; kinds++ {
			for _, k := range []int{0, 5, 40000} {
				if k > n || (!c.thor && n == 200000 && k == 40000) {
					continue
				}
				frp(c, n, k, kinds, 100+c.rng.Intn(500))
			}
		}
	}
}

func u8rsPending(c *ctx) {
	// the stream before the Reset ends INSIDE a multi-byte sequence (pending decoder state); the one after it is
	// valid, empty, or starts with just the continuation bytes that would complete the old sequence
	for _, before := range []string{"\xc3", "\xe2", "\xe2\x82", "\xf0", "\xf0\x9f", "\xf0\x9f\x98", "ok \xe2\x82", "\xe2\x82\xac\xf0\x9f"} {
		for _, after := range []string{"", "plain", "\xe2\x82\xac", "\xac", "\x82\xac", "\x98\x80", "\xa9", "\x80\x80\x80", "z\xc3\xa9"} {
			u8rs(c, []byte(before), []byte(after), []string{"1", "4096", "2,7,1"}[(len(before)+len(after))%3])
		}
	}
}

// CRS: CipherReader.Reset(sameSource, sameKey) in the middle of a stream restarts the key stream
func crs(c *ctx, before, after []byte, key [4]byte) {
	all := append(append([]byte(nil), before...), after...)
	src := bytes.NewReader(all)
	cr := wsutil.NewCipherReader(src, key)
	io.ReadFull(cr, make([]byte, len(before)))
	cr.Reset(src, key)
	x := make([]byte, len(after)+1)
	xn, _ := io.ReadFull(cr, x)
	cf := wsutil.NewCipherReader(bytes.NewReader(after), key)
	y := make([]byte, len(after)+1)
	yn, _ := io.ReadFull(cf, y)
	c.emit("CRS %s %s %s -> %s %s", hx(before), hx(after), hx(key[:]), hx(x[:xn]), hx(y[:yn]))
}

type plainReader struct{ r io.Reader }

func (p plainReader) Read(b []byte) (int, error) { return p.r.Read(b) }

// FRP: reused compression reader after an abandoned message vs a fresh one, on the same second message
func frp(c *ctx, n, k, kinds, n2 int) {
	ctor := func(w io.Writer) wsflate.Compressor { f, _ := flate.NewWriter(w, 1); return f }
	dctor := func(r io.Reader) wsflate.Decompressor { return flate.NewReader(r) }
	comp := func(m []byte) []byte {
		var buf bytes.Buffer
		w := wsflate.NewWriter(&buf, ctor)
		w.Write(m)
		w.Flush()
		return buf.Bytes()
	}
	big := make([]byte, n)
	rnd := uint32(n*31 + k + 7)
	for i := range big { // incompressible
		rnd = rnd*1664525 + 1013904223
		big[i] = byte(rnd >> 24)
	}
	msg2 := patBytes(n2, kinds+1)
	c1, c2 := comp(big), comp(msg2)
	mk := func(byteReader bool, data []byte) io.Reader {
		if byteReader {
			return bytes.NewReader(data)
		}
		return plainReader{bytes.NewReader(data)}
	}
	one := func(f func() string) (out string) {
		out = "panic"
		res := fzRun(func() error { out = f(); return nil })
		if res.class == "panic" || res.class == "hang" {
			out = res.class
		}
		return out
	}
	ra := one(func() string {
		r := wsflate.NewReader(mk(kinds&1 != 0, c1), dctor)
		got, _ := io.ReadFull(r, make([]byte, k))
		if got != k {
			return "shortfirst"
		}
		r.Reset(mk(kinds&2 != 0, c2))
		out, err := ioutil.ReadAll(r)
		return fmt.Sprintf("%s.%s.%s", hx(out), readErrClass(err), readErrClass(r.Err()))
	})
	rb := one(func() string {
		f := wsflate.NewReader(mk(kinds&2 != 0, c2), dctor)
		out, err := ioutil.ReadAll(f)
		return fmt.Sprintf("%s.%s.%s", hx(out), readErrClass(err), readErrClass(f.Err()))
	})
	want := fmt.Sprintf("%s.nil.nil", hx(msg2))
	c.emit("FRP %d %d %d %d -> %s %s %d", n, k, kinds, n2, ra, rb, b2i(rb == want))
}

// standalone UTF8Reader over a chunked source with caller buffers
func u8r(c *ctx, p []byte, spec, bufs string) {
	// a spec ending in "!": the source returns its last bytes TOGETHER with io.EOF
	src := newChunkReader(p, strings.TrimSuffix(spec, "!"), map[bool]string{true: "eofdata", false: "eof"}[strings.HasSuffix(spec, "!")])
	u := wsutil.NewUTF8Reader(src)
	bs := intsSpec(bufs)
	var out []byte
	var err error
	for i := 0; i < len(p)+5; i++ {
		buf := make([]byte, bs[i%len(bs)])
		var n int
		n, err = u.Read(buf)
		out = append(out, buf[:n]...)
		if err != nil {
			break
		}
	}
	e := "other"
	if err == io.EOF {
		e = "eof"
	} else if err == wsutil.ErrInvalidUTF8 {
		e = "invalidutf8"
	}
	c.emit("U8R %s %s %s -> %s %s %d %d", hx(p), spec, bufs, hx(out), e, b2i(u.Valid()), u.Accepted())
}

func runU8R(c *ctx) {
	edges := []byte{0x00, 0x7f, 0x80, 0x8f, 0x90, 0x9f, 0xa0, 0xbf, 0xc0, 0xc1, 0xc2, 0xdf, 0xe0, 0xe1, 0xec, 0xed, 0xee, 0xef, 0xf0, 0xf1, 0xf3, 0xf4, 0xf5, 0xff}
	i := 0
	for a := 0; a < 256; a++ {
		u8r(c, []byte{byte(a)}, "-", "1")
		u8r(c, []byte{0x61, byte(a)}, "r1!", "4096")
		for _, b := range edges {
			i++
			u8r(c, []byte{byte(a), b}, []string{"-", "r1"}[i%2], []string{"1", "4096"}[(i/2)%2])
			if a >= 0xc0 {
				for _, d := range edges {
					i++
					u8r(c, []byte{byte(a), b, d, 0x41}, []string{"-", "r1", "r2"}[i%3], []string{"1", "4096", "2"}[(i/3)%3])
				}
			}
		}
	}
	n := 500
	if c.thor {
		n = 20000
	}
	for j := 0; j < n; j++ {
		p := randUtf8ish(c, 1+c.rng.Intn(20))
		u8r(c, p, c.randChunkSpec(len(p)), bufSpecs[c.rng.Intn(len(bufSpecs))])
		u8r(c, p, c.randChunkSpec(len(p))+"!", bufSpecs[c.rng.Intn(len(bufSpecs))])
	}
}
