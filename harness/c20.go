package main

// C20 — Dial honours cancellation at any moment without poisoning or leaking the conn.
//
// A scenario drives the real ws.Dialer.Dial over a scripted NetDial and a fake net.Conn
// that honours deadlines.  Every SetDeadline / Read / Write / Close on the conn, every
// NetDial call and every context event the harness causes or observes is logged, with a
// goroutine tag, under ONE mutex (so the log order is the linearisation order of the conn
// operations).  The log is one observation line; the OCaml side checks that it is a trace
// of the extracted LTS (coq/model/DialLTS.v) and evaluates the extracted property monitor.
//
// Event tokens: ds dok de:<err> sd:<g>:<k> is:<g> io:<g> it:<g> if:<g> cl:<g> cc se st r:<err>
//   g = m (the goroutine that called Dial) | o (any other);  k = n(one) f(uture) p(ast)
//   err = nil canceled deadline iotimeout other
//   cc = the harness called cancel() (atomic with the log entry)
//   se = ctx.Done() observed closed with DeadlineExceeded; st = the Timeout-derived deadline
//        observed passed (dialctx done with DeadlineExceeded while ctx is live)
//
// Real-time events (expiry, timer) are never assumed to happen at a particular time: the LTS
// treats them as hidden steps and the markers se/st only say "has happened by now".  The
// only real-time judgement is the watchdog (3 s for something that takes microseconds).

import (
	"context"
	"crypto/sha1"
	"encoding/base64"
	"errors"
	"fmt"
	"io"
	"net"
	"os"
	"runtime"
	"strconv"
	"strings"
	"sync"
	"time"

	"github.com/gobwas/ws"
)

const (
	c20Short    = 20 * time.Millisecond
	c20Long     = 60 * time.Second
	c20Watchdog = 3 * time.Second
	c20Grace    = 2 * time.Millisecond
)

type c20Scenario struct {
	ctxk    string // bg plain dlshort dllong
	tmo     string // none short long
	procs   int
	nchunks int    // reads a complete response takes
	resp    string // valid invalid
	silent  int    // peer silent from this I/O index on (-1: never)
	eof     int    // peer fails the I/O with this index (-1: never)
	trig    string // none cancel expire timer
	pos     int    // -1: dial phase (honouring NetDial), -2: dial phase (NetDial ignores ctx), -3: NetDial refuses; >=0: I/O index
	mode    string // pre mid midd post async
	jitter  int    // microseconds the peer takes per operation (0 = immediate)
}

func (s c20Scenario) String() string {
	return fmt.Sprintf("%s %s %d %d %s %d %d %s %d %s %d", s.ctxk, s.tmo, s.procs, s.nchunks, s.resp, s.silent, s.eof, s.trig, s.pos, s.mode, s.jitter)
}

func c20Parse(in []string) c20Scenario {
	a := func(i int) int { v, _ := strconv.Atoi(in[i]); return v }
	return c20Scenario{ctxk: in[0], tmo: in[1], procs: a(2), nchunks: a(3), resp: in[4], silent: a(5), eof: a(6),
		trig: in[7], pos: a(8), mode: in[9], jitter: a(10)}
}

func init() {
	props["C20"] = runC20
	replayers["C20"] = func(c *ctx, in []string) { c20Run(c, c20Parse(in)) }
}

func goid() int64 {
	var buf [64]byte
	n := runtime.Stack(buf[:], false)
	f := strings.Fields(string(buf[:n]))
	id, _ := strconv.ParseInt(f[1], 10, 64)
	return id
}

type c20Timeout struct{}

func (c20Timeout) Error() string   { return "fake conn: i/o timeout" }
func (c20Timeout) Timeout() bool   { return true }
func (c20Timeout) Temporary() bool { return true }

// c20State is the scenario state: log + fake conn + scripted NetDial, one mutex.
type c20State struct {
	sc   c20Scenario
	mu   sync.Mutex
	cond *sync.Cond
	log  []string
	// bookkeeping
	frozen  bool
	aborted bool
	mainG   int64
	start   time.Time
	// contexts
	ctx     context.Context
	cancel  context.CancelFunc
	dialctx context.Context
	stop    chan struct{}
	wg      sync.WaitGroup
	// conn
	deadline  time.Time
	rdl, wdl  bool // a read / write deadline is currently set
	dlTimer   *time.Timer
	closed    bool
	poisoned  bool
	ioIndex   int
	resp      [][]byte
	respReady bool
	triggered bool
}

func (st *c20State) who() string {
	if goid() == st.mainG {
		return "m"
	}
	return "o"
}

// add appends to the log; st.mu must be held.
func (st *c20State) add(ev string) {
	if !st.frozen {
		st.log = append(st.log, ev)
	}
}

func errClass(err error) string {
	switch {
	case err == nil:
		return "nil"
	case err == context.Canceled:
		return "canceled"
	case err == context.DeadlineExceeded:
		return "deadline"
	}
	var ne net.Error
	if errors.As(err, &ne) && ne.Timeout() {
		return "iotimeout"
	}
	return "other"
}

// observeEnds logs the markers for what can be seen to have happened; st.mu held.
func (st *c20State) observeEnds() {
	ctxErr := st.ctx.Err()
	if ctxErr == context.DeadlineExceeded {
		st.addOnce("se")
	}
	if st.dialctx != nil && st.dialctx != st.ctx && ctxErr == nil && st.dialctx.Err() == context.DeadlineExceeded {
		st.addOnce("st")
	}
}

func (st *c20State) addOnce(ev string) {
	for _, e := range st.log {
		if e == ev {
			return
		}
	}
	st.add(ev)
}

// trigger performs the scenario's context event. Called with st.mu held; may release it
// while waiting for real time to pass.
func (st *c20State) trigger() {
	if st.triggered {
		return
	}
	st.triggered = true
	switch st.sc.trig {
	case "cancel", "cancelc":
		if st.cancel != nil {
			st.cancel() // synchronous: Done is closed (and derived contexts cancelled) on return
			st.add("cc")
		}
	case "expire", "expirec":
		st.mu.Unlock()
		select {
		case <-st.ctx.Done():
		case <-time.After(c20Watchdog):
		}
		st.mu.Lock()
		st.observeEnds()
	case "timer":
		dc := st.dialctx
		st.mu.Unlock()
		if dc != nil {
			select {
			case <-dc.Done():
			case <-time.After(c20Watchdog):
			}
		}
		st.mu.Lock()
		st.observeEnds()
	}
}

// netDial is Dialer.NetDial.
func (st *c20State) netDial(dctx context.Context, network, addr string) (net.Conn, error) {
	st.mu.Lock()
	defer st.mu.Unlock()
	st.dialctx = dctx
	st.add("ds")
	// marker goroutine for the derived deadline
	if dctx != st.ctx {
		st.wg.Add(1)
		go func() {
			defer st.wg.Done()
			select {
			case <-dctx.Done():
				st.mu.Lock()
				st.observeEnds()
				st.mu.Unlock()
			case <-st.stop:
			}
		}()
	}
	switch st.sc.pos {
	case -3:
		st.add("de:other")
		return nil, errors.New("fake dial: connection refused")
	case -1, -2:
		st.trigger()
		if st.sc.pos == -1 {
			if err := dctx.Err(); err != nil {
				st.add("de:" + errClass(err))
				return nil, err
			}
		}
	}
	st.add("dok")
	return (*c20Conn)(st), nil
}

type c20Conn c20State

func (c *c20Conn) LocalAddr() net.Addr  { return &net.TCPAddr{} }
func (c *c20Conn) RemoteAddr() net.Addr { return &net.TCPAddr{} }

// the read and the write deadline are also tracked separately (a Dial that arms both and clears one leaves
// the conn with a deadline); for the trace and the blocking behaviour either of them counts as "the deadline"
func (c *c20Conn) SetReadDeadline(t time.Time) error  { return c.setDeadline(t, 1) }
func (c *c20Conn) SetWriteDeadline(t time.Time) error { return c.setDeadline(t, 2) }
func (c *c20Conn) SetDeadline(t time.Time) error      { return c.setDeadline(t, 3) }

func (c *c20Conn) setDeadline(t time.Time, which int) error {
	st := (*c20State)(c)
	st.mu.Lock()
	defer st.mu.Unlock()
	if st.aborted {
		return nil
	}
	if !st.frozen {
		if which&1 != 0 {
			st.rdl = !t.IsZero()
		}
		if which&2 != 0 {
			st.wdl = !t.IsZero()
		}
	}
	k := "f"
	switch {
	case t.IsZero():
		k = "n"
	case t.Before(st.start):
		k = "p"
		st.poisoned = true
	}
	st.add("sd:" + st.who() + ":" + k)
	st.deadline = t
	if st.dlTimer != nil {
		st.dlTimer.Stop()
		st.dlTimer = nil
	}
	if k == "f" {
		st.dlTimer = time.AfterFunc(time.Until(t)+time.Millisecond, func() {
			st.mu.Lock()
			st.cond.Broadcast()
			st.mu.Unlock()
		})
	}
	st.cond.Broadcast()
	return nil
}

func (c *c20Conn) Close() error {
	st := (*c20State)(c)
	st.mu.Lock()
	defer st.mu.Unlock()
	if st.aborted {
		return nil
	}
	st.add("cl:" + st.who())
	st.closed = true
	st.cond.Broadcast()
	return nil
}

func (c *c20Conn) Read(p []byte) (int, error)  { return c.op(p, false) }
func (c *c20Conn) Write(p []byte) (int, error) { return c.op(p, true) }

func (st *c20State) deadlinePassed() bool {
	return !st.deadline.IsZero() && !time.Now().Before(st.deadline)
}

// op is one I/O operation of the handshake.
func (c *c20Conn) op(p []byte, write bool) (int, error) {
	st := (*c20State)(c)
	sc := st.sc
	st.mu.Lock()
	defer st.mu.Unlock()
	if st.aborted {
		return 0, net.ErrClosed
	}
	idx := st.ioIndex
	st.ioIndex++
	w := st.who()
	at := sc.pos == idx && sc.trig != "none"
	if at && sc.mode == "pre" {
		st.trigger()
	}
	if at && sc.mode == "async" {
		st.wg.Add(1)
		go func() {
			defer st.wg.Done()
			st.mu.Lock()
			st.trigger()
			st.cond.Broadcast()
			st.mu.Unlock()
		}()
	}
	st.add("is:" + w)
	if at && (sc.mode == "mid" || sc.mode == "midd") {
		st.trigger()
	}
	if at && (sc.mode == "mid" || sc.mode == "midd") && sc.ctxk != "bg" {
		// give the watcher the chance to poison the conn first (forced order); if nothing
		// poisons it (fast path, or the event does not concern this Dial) carry on
		deadline := time.Now().Add(300 * time.Millisecond)
		for !st.poisoned && !st.closed && !st.aborted && time.Now().Before(deadline) {
			t := time.AfterFunc(20*time.Millisecond, func() { st.mu.Lock(); st.cond.Broadcast(); st.mu.Unlock() })
			st.cond.Wait()
			t.Stop()
		}
	}
	if sc.jitter > 0 {
		st.mu.Unlock()
		time.Sleep(time.Duration(sc.jitter) * time.Microsecond)
		st.mu.Lock()
	}
	forceData := at && sc.mode == "midd"
	for {
		if st.aborted {
			return 0, net.ErrClosed
		}
		if st.closed {
			st.add("if:" + w)
			return 0, net.ErrClosed
		}
		responsive := (sc.silent < 0 || idx < sc.silent) && !(sc.eof >= 0 && idx >= sc.eof)
		if st.deadlinePassed() && !(forceData && responsive) {
			st.observeEnds()
			st.add("it:" + w)
			return 0, &net.OpError{Op: "read", Net: "fake", Err: c20Timeout{}}
		}
		if sc.eof >= 0 && idx >= sc.eof {
			st.add("if:" + w)
			if write {
				return 0, io.ErrClosedPipe
			}
			return 0, io.EOF
		}
		if sc.silent < 0 || idx < sc.silent {
			// the peer is responsive: the operation completes
			n := 0
			if write {
				n = len(p)
				if !st.respReady {
					st.buildResponse(p)
				}
			} else {
				if len(st.resp) == 0 {
					st.add("if:" + w)
					return 0, io.EOF
				}
				n = copy(p, st.resp[0])
				if n < len(st.resp[0]) {
					st.resp[0] = st.resp[0][n:]
				} else {
					st.resp = st.resp[1:]
				}
			}
			st.add("io:" + w)
			if at && sc.mode == "post" {
				st.trigger()
			}
			return n, nil
		}
		// silent peer: block until the deadline, a close or the watchdog's abort
		st.cond.Wait()
	}
}

// buildResponse scripts the peer's answer to the request in p.
func (st *c20State) buildResponse(req []byte) {
	st.respReady = true
	key := ""
	for _, line := range strings.Split(string(req), "\r\n") {
		if i := strings.IndexByte(line, ':'); i > 0 && strings.EqualFold(line[:i], "Sec-WebSocket-Key") {
			key = strings.TrimSpace(line[i+1:])
		}
	}
	h := sha1.Sum([]byte(key + "258EAFA5-E914-47DA-95CA-C5AB0DC85B11"))
	accept := base64.StdEncoding.EncodeToString(h[:])
	var r string
	if st.sc.resp == "valid" {
		r = "HTTP/1.1 101 Switching Protocols\r\nUpgrade: websocket\r\nConnection: Upgrade\r\nSec-WebSocket-Accept: " + accept + "\r\n\r\n"
	} else {
		r = "HTTP/1.1 101 Switching Protocols\r\nUpgrade: websocket\r\nConnection: Upgrade\r\nSec-WebSocket-Accept: AAAAAAAAAAAAAAAAAAAAAAAAAAA=\r\n\r\n"
	}
	n := st.sc.nchunks
	if n < 1 {
		n = 1
	}
	b := []byte(r)
	for i := 0; i < n; i++ {
		lo, hi := len(b)*i/n, len(b)*(i+1)/n
		st.resp = append(st.resp, b[lo:hi])
	}
}

func c20Run(c *ctx, sc c20Scenario) {
	old := runtime.GOMAXPROCS(sc.procs)
	defer runtime.GOMAXPROCS(old)
	st := &c20State{sc: sc, stop: make(chan struct{})}
	st.cond = sync.NewCond(&st.mu)
	st.start = time.Now()
	var cleanup []func()
	switch sc.ctxk {
	case "bg":
		st.ctx = context.Background()
	case "plain":
		st.ctx, st.cancel = context.WithCancel(context.Background())
		if sc.trig == "cancelc" {
			// a cause-carrying context (context.WithCancelCause), ended with an application error as its cause:
			// "the context's error" is still ctx.Err() = context.Canceled
			cctx, cancelCause := context.WithCancelCause(context.Background())
			st.ctx, st.cancel = cctx, func() { cancelCause(errors.New("verif: application-level cause")) }
		}
	case "dlshort":
		st.ctx, st.cancel = context.WithTimeout(context.Background(), c20Short)
		if sc.trig == "expirec" {
			st.ctx, st.cancel = context.WithTimeoutCause(context.Background(), c20Short, errors.New("verif: application-level cause"))
		}
	case "dllong":
		st.ctx, st.cancel = context.WithTimeout(context.Background(), c20Long)
	}
	if st.cancel != nil {
		cleanup = append(cleanup, st.cancel)
	}
	d := ws.Dialer{NetDial: st.netDial}
	switch sc.tmo {
	case "short":
		d.Timeout = c20Short
	case "long":
		d.Timeout = c20Long
	}
	// marker goroutine for the caller's deadline
	n0 := runtime.NumGoroutine()
	if sc.ctxk == "dlshort" {
		st.wg.Add(1)
		go func() {
			defer st.wg.Done()
			select {
			case <-st.ctx.Done():
				st.mu.Lock()
				st.observeEnds()
				st.mu.Unlock()
			case <-st.stop:
			}
		}()
	}
	done := make(chan struct{})
	go func() {
		st.mu.Lock()
		st.mainG = goid()
		st.mu.Unlock()
		_, br, _, err := d.Dial(st.ctx, "ws://c20.test/")
		st.mu.Lock()
		st.add("r:" + errClass(err))
		st.mu.Unlock()
		if br != nil {
			ws.PutReader(br)
		}
		close(done)
	}()
	hang := false
	wd := time.NewTimer(c20Watchdog)
	select {
	case <-done:
		wd.Stop()
	case <-wd.C:
		hang = true
	}
	if hang {
		// progress failure: record, then unblock the stuck Dial without logging
		st.mu.Lock()
		st.observeEnds()
		st.frozen = true
		st.aborted = true
		st.cond.Broadcast()
		st.mu.Unlock()
		for _, f := range cleanup {
			f()
		}
		select {
		case <-done:
		case <-time.After(c20Watchdog):
		}
	}
	// grace period: anything that still touches the conn gets logged after r:
	time.Sleep(c20Grace)
	st.mu.Lock()
	st.frozen = true
	if st.dlTimer != nil {
		st.dlTimer.Stop()
	}
	st.mu.Unlock()
	close(st.stop)
	st.wg.Wait()
	// goroutine count: everything Dial started must be gone
	leak := 0
	if !hang {
		t0 := time.Now()
		for runtime.NumGoroutine() > n0 {
			if time.Since(t0) > 3*time.Second {
				leak = 1
				break
			}
			time.Sleep(200 * time.Microsecond)
		}
	}
	for _, f := range cleanup {
		f()
	}
	st.mu.Lock()
	tr := "-"
	if len(st.log) > 0 {
		tr = strings.Join(st.log, ",")
	}
	st.mu.Unlock()
	st.mu.Lock()
	dl := fmt.Sprintf("%d%d", b2i(st.rdl), b2i(st.wdl))
	st.mu.Unlock()
	c.emit("C20 %s -> %s %d %d %s", sc, tr, b2i(hang), leak, dl)
	_ = os.Stderr
}

func runC20(c *ctx) {
	type cfgT struct{ ctxk, tmo string }
	cfgs := []cfgT{{"bg", "none"}, {"bg", "short"}, {"bg", "long"}, {"plain", "none"}, {"plain", "short"}, {"plain", "long"},
		{"dlshort", "none"}, {"dlshort", "long"}, {"dllong", "short"}, {"dllong", "none"}}
	type peerT struct {
		n           int
		resp        string
		silent, eof int
	}
	peers := []peerT{{2, "valid", -1, -1}, {1, "valid", -1, -1}, {3, "valid", -1, -1}, {2, "invalid", -1, -1},
		{2, "valid", 0, -1}, {2, "valid", 1, -1}, {2, "valid", 2, -1}, {2, "valid", -1, 1}, {3, "valid", -1, 2}}
	modes := []string{"pre", "mid", "midd", "post", "async"}
	count := 0
	procsOf := func() int {
		count++
		if count%2 == 0 {
			return 1
		}
		return 4
	}
	run := func(sc c20Scenario) {
		// a scenario in which nothing ever ends the wait of a silent peer is not a test of Dial
		if sc.silent >= 0 {
			timed := sc.tmo == "short" || sc.ctxk == "dlshort"
			reached := sc.pos < 0 || sc.pos < sc.silent || (sc.pos == sc.silent && sc.mode != "post")
			if !timed && !(sc.trig != "none" && reached) {
				return
			}
		}
		c20Run(c, sc)
	}
	timedCfg := func(k cfgT) bool { return k.tmo == "short" || k.ctxk == "dlshort" }
	for _, k := range cfgs {
		// 1. no trigger: plain success / failure paths, natural expiry on silent peers
		for _, p := range peers {
			if p.silent >= 0 && !timedCfg(k) {
				continue
			}
			if p.silent >= 0 && !c.thor && p.silent != 1 {
				continue
			}
			run(c20Scenario{ctxk: k.ctxk, tmo: k.tmo, procs: procsOf(), nchunks: p.n, resp: p.resp, silent: p.silent, eof: p.eof, trig: "none", pos: 0, mode: "pre"})
		}
		run(c20Scenario{ctxk: k.ctxk, tmo: k.tmo, procs: procsOf(), nchunks: 2, resp: "valid", silent: -1, eof: -1, trig: "none", pos: -3, mode: "pre"})
		// 2. triggers
		var trigs []string
		if k.ctxk != "bg" {
			trigs = append(trigs, "cancel")
			if k.ctxk == "plain" {
				trigs = append(trigs, "cancelc")
			}
		}
		if k.ctxk == "dlshort" {
			trigs = append(trigs, "expire", "expirec")
		}
		if k.tmo == "short" {
			trigs = append(trigs, "timer")
		}
		for _, tg := range trigs {
			slow := tg != "cancel" && tg != "cancelc"
			ps := peers
			if slow && !c.thor {
				ps = []peerT{peers[0], peers[5]}
			}
			for _, p := range ps {
				for _, pos := range []int{-1, -2} {
					run(c20Scenario{ctxk: k.ctxk, tmo: k.tmo, procs: procsOf(), nchunks: p.n, resp: p.resp, silent: p.silent, eof: p.eof, trig: tg, pos: pos, mode: "pre"})
				}
				for pos := 0; pos <= p.n; pos++ {
					for _, m := range modes {
						if slow && !c.thor && (m == "async" && pos != 1) {
							continue
						}
						run(c20Scenario{ctxk: k.ctxk, tmo: k.tmo, procs: procsOf(), nchunks: p.n, resp: p.resp, silent: p.silent, eof: p.eof, trig: tg, pos: pos, mode: m})
					}
				}
			}
		}
	}
	// 3. unforced races: asynchronous cancel against a peer that takes a few microseconds per operation
	nr := 150
	if c.thor {
		nr = 3000
	}
	for i := 0; i < nr; i++ {
		k := []cfgT{{"plain", "none"}, {"plain", "long"}, {"dllong", "none"}, {"plain", "short"}}[c.rng.Intn(4)]
		n := 1 + c.rng.Intn(3)
		sc := c20Scenario{ctxk: k.ctxk, tmo: k.tmo, procs: []int{1, 2, 4, 16}[c.rng.Intn(4)], nchunks: n, resp: "valid", silent: -1, eof: -1,
			trig: "cancel", pos: c.rng.Intn(n + 1), mode: "async", jitter: c.rng.Intn(40)}
		if c.rng.Intn(4) == 0 {
			sc.silent = c.rng.Intn(n + 1)
			if sc.pos > sc.silent {
				sc.pos = sc.silent
			}
		}
		run(sc)
	}
}
