// Command harness runs generated cases against the real gobwas/ws packages
// (built from /repo's working tree) and prints one observation per line:
//
//	KIND in1 in2 ... -> out1 out2 ...
//
// Byte strings are hex ("-" when empty). Every random choice derives from one
// PRNG seeded by -seed. The OCaml checker (extracted Coq model + monitors)
// re-computes each line.
package main

import (
	"bufio"
	"encoding/hex"
	"flag"
	"fmt"
	"math/rand"
	"os"
	"sort"
	"strings"
)

type ctx struct {
	w    *bufio.Writer
	rng  *rand.Rand
	tier string
	thor bool
	args []string
}

func (c *ctx) emit(format string, a ...interface{}) {
	fmt.Fprintf(c.w, format, a...)
	c.w.WriteByte('\n')
}

func hx(b []byte) string {
	if len(b) == 0 {
		return "-"
	}
	return hex.EncodeToString(b)
}

func unhx(s string) []byte {
	if s == "-" {
		return nil
	}
	b, err := hex.DecodeString(s)
	if err != nil {
		panic(err)
	}
	return b
}

func b2i(b bool) int {
	if b {
		return 1
	}
	return 0
}

var props = map[string]func(*ctx){}

// replayers re-run a single observation line's inputs (tokens before "->").
var replayers = map[string]func(*ctx, []string){}

func main() {
	seed := flag.Int64("seed", 1, "PRNG seed")
	tier := flag.String("tier", "quick", "quick|thorough")
	replay := flag.String("replay", "", "file with observation/case lines to re-run")
	flag.Parse()
	w := bufio.NewWriterSize(os.Stdout, 1<<20)
	defer w.Flush()
	c := &ctx{w: w, rng: rand.New(rand.NewSource(*seed)), tier: *tier, thor: *tier == "thorough"}
	if *replay != "" {
		data, err := os.ReadFile(*replay)
		if err != nil {
			fmt.Fprintln(os.Stderr, err)
			os.Exit(2)
		}
		for _, line := range strings.Split(string(data), "\n") {
			line = strings.TrimSpace(line)
			if line == "" || strings.HasPrefix(line, "#") {
				continue
			}
			toks := strings.Fields(line)
			var in []string
			for _, t := range toks[1:] {
				if t == "->" {
					break
				}
				in = append(in, t)
			}
			f, ok := replayers[toks[0]]
			if !ok {
				fmt.Fprintf(os.Stderr, "no replayer for kind %s\n", toks[0])
				os.Exit(2)
			}
			f(c, in)
		}
		return
	}
	if flag.NArg() < 1 {
		var names []string
		for k := range props {
			names = append(names, k)
		}
		sort.Strings(names)
		fmt.Fprintln(os.Stderr, "usage: harness [-seed N] [-tier T] <prop>; props:", names)
		os.Exit(2)
	}
	f, ok := props[flag.Arg(0)]
	if !ok {
		fmt.Fprintln(os.Stderr, "unknown property", flag.Arg(0))
		os.Exit(2)
	}
	c.args = flag.Args()[1:]
	f(c)
}
