(* C11, third clause: wsutil.DebugDialer / wsutil.DebugUpgrader against the full model
   (coq/model/HsDebugFull.v).  Kinds DFD / DFU / DBH (harness/zz_dbgfull.go).
   Viol: the Go observation contradicts the property text (outcome changed, callback bytes wrong,
   post-handshake bytes lost).  Diff: model and Go differ, or a hypothesis about net/http that the
   theorems assume does not hold of the observed net/http behaviour. *)
open Base
open BinNums
open K_c09
open K_c10
open K_c11

let opt_tok = function None -> "none" | Some b -> hex_of_bytes b
let obs_tok n got = if n = "0" then "none" else if n = "1" then got else "called" ^ n
let nat_of_len l = nat_of_int (List.length l)
let rec int_of_nat = function Datatypes.O -> 0 | Datatypes.S n -> 1 + int_of_nat n
let hs_tok cls (hs : HsHttp.handshake) =
  if cls <> "ok" then "- -" else hex_of_bytes hs.HsHttp.hs_protocol ^ " " ^ enc_opts hs.HsHttp.hs_exts
let sizes_of s = List.map n_of_int (dec_ints s)
let parse_fun ans = fun (_ : coq_N list) -> if ans < 0 then None else Some (nat_of_int ans)
let wcut1 (x : coq_N list) = [x]
(* headLen's search on the observed bytes, for the monitors (the model's own [head_end] is List.rev-based and
   quadratic after extraction; both are compared on inputs up to 600 bytes) *)
let head_end_ml (p : coq_N list) : int option =
  let lf = byte_tab.(10) and cr = byte_tab.(13) in
  let rec go i linelen only_cr = function
    | [] -> None
    | b :: r ->
      if b = lf then (if linelen = 0 || (linelen = 1 && only_cr) then Some (i + 1) else go (i + 1) 0 false r)
      else go (i + 1) (linelen + 1) (linelen = 0 && b = cr) r in
  go 0 0 false p
let head_end_chk (p : coq_N list) : int option =
  let m = head_end_ml p in
  if List.length p <= 600 then begin
    let c = (match HsDebugFull.head_end p with None -> None | Some h -> Some (int_of_nat h)) in
    if c <> m then failwith "head_end: OCaml and Coq versions differ"
  end;
  m

let () =
  register "DFD" (fun i o -> match i, o with
    | _template :: _sizes :: rbuf :: rest,
      [pcls; pproto; pexts; pbr; prest; cls; proto; exts; br; crest; writes; nreq; gotreq; nresp; gotresp;
       nonce; actual; hreads; ans; captured; same] ->
      let setreq = List.nth rest 5 = "1" and setresp = List.nth rest 6 = "1" in
      let left b r = (if b = "nil" then [] else bytes_of_hex b) @ bytes_of_hex r in
      let written = List.concat (dec_chunks writes) in
      if cls = "panic" || pcls = "panic" then Viol "panic"
      else if cls <> pcls || proto <> pproto || exts <> pexts then Viol "DebugDialer changes the outcome"
      else if cls = "ok" && left br crest <> left pbr prest then Viol "DebugDialer loses or alters post-handshake bytes"
      else if setreq && nreq <> "1" then Viol "OnRequest not called exactly once"
      else if setresp && nresp <> "1" then Viol "OnResponse not called exactly once"
      else if (not setreq && nreq <> "0") || (not setresp && nresp <> "0") then Viol "callback called though not set"
      else if setreq && bytes_of_hex gotreq <> written then Viol "OnRequest does not receive exactly the request bytes"
      else begin
        let dcfg = dec_dcfg (take_n 5 rest) in
        let chunks = dec_chunks actual in
        let resp = List.concat chunks in
        let ans = int_of_string ans in
        let cap = bytes_of_hex captured in
        let b = HsBufio.pool_buf_size (n_of_int (int_of_string rbuf)) default_client_read_buffer in
        (* hypotheses on net/http assumed by C11_debug_dialer_response_and_leftover *)
        let hyp =
          if not setresp then None
          else if same <> "1" then Some "net/http reads differently on the same chunks"
          else if ans > List.length cap then Some "parser consumed more than was captured"
          else if cls = "ok" && ans >= 0 && head_end_chk cap <> Some ans
          then Some "accepted 101: net/http does not stop at the first empty line"
          else None in
        match hyp with
        | Some m -> Diff ("hypothesis on net/http fails: " ^ m)
        | None ->
          let w = HsDebugFull.debug_dialer_full (parse_fun ans) wcut1 setreq setresp dcfg
                    (bytes_of_hex "6578616d706c652e636f6d") (bytes_of_hex "2f7773") (bytes_of_hex nonce)
                    b (sizes_of hreads) chunks HsBufio.TEof in
          let mcls = derr_class w.HsDebugFull.fd_err in
          if mcls <> cls then Diff ("model outcome " ^ mcls)
          else if hs_tok cls w.HsDebugFull.fd_hs <> proto ^ " " ^ exts then Diff "model handshake differs"
          else if List.concat w.HsDebugFull.fd_conn_out <> written then Diff "model request differs"
          else if opt_tok w.HsDebugFull.fd_on_request <> obs_tok nreq gotreq then Diff "model OnRequest differs"
          else if opt_tok w.HsDebugFull.fd_on_response <> obs_tok nresp gotresp then Diff "model OnResponse differs"
          else if setresp && w.HsDebugFull.fd_captured <> cap then Diff "model captured bytes differ"
          else if (match w.HsDebugFull.fd_br with None -> "nil" | Some x -> hex_of_bytes x) <> br then Diff "model returned buffer differs"
          else if List.concat w.HsDebugFull.fd_conn <> bytes_of_hex crest then Diff "model conn remainder differs"
          else
            (* the statement of the theorem on the observed values: on success OnResponse = the head, leftover = the rest *)
            if cls = "ok" && setresp then
              (match head_end_chk resp with
               | Some h ->
                 if bytes_of_hex gotresp <> take_n h resp then Viol "OnResponse does not receive exactly the response head"
                 else if left br crest <> drop_n h resp then Viol "bytes behind the response head lost or altered"
                 else Pass true
               | None -> Viol "success without a complete head")
            else Pass true
      end
    | _ -> Diff "malformed line");

  register "DFU" (fun i o -> match i, o with
    | _req :: _sizes :: rest,
      [pcls; pproto; pexts; pout; prest; cls; proto; exts; out; crest; nreq; gotreq; nresp; gotresp;
       actual; hreads; ans; captured; same; order] ->
      let setreq = List.nth rest 9 = "1" and setresp = List.nth rest 10 = "1" in
      let chunks = dec_chunks actual in
      let all = List.concat chunks in
      let ans = int_of_string ans in
      let got = bytes_of_hex gotreq in
      if cls = "panic" || pcls = "panic" then Viol "panic"
      else if cls <> pcls || proto <> pproto || exts <> pexts || out <> pout then Viol "DebugUpgrader changes the outcome"
      else if setreq && nreq <> "1" then Viol "OnRequest not called exactly once"
      else if setresp && nresp <> "1" then Viol "OnResponse not called exactly once"
      else if (not setreq && nreq <> "0") || (not setresp && nresp <> "0") then Viol "callback called though not set"
      else if setreq && setresp && order <> "qr" then Viol "OnResponse runs before OnRequest"
      else if setresp && gotresp <> out then Viol "OnResponse does not receive exactly the response bytes"
      else if setreq && not (starts_with got all) then Viol "OnRequest receives bytes the client did not send"
      else if setreq && cls = "ok" && (match head_end_chk all with
                                       | Some h -> List.length got < h
                                       | None -> true) then Viol "OnRequest does not receive the whole request"
      else if setreq && cls = "ok" && got @ bytes_of_hex crest <> all then Viol "bytes neither reported nor left on the conn"
      else if setreq && same <> "1" then Diff "hypothesis on net/http fails: net/http reads differently on the same chunks"
      else begin
        ignore prest;
        let (ucfg, stext) = dec_ucfg (take_n 9 rest) in
        let b = HsBufio.pool_buf_size N0 default_server_read_buffer in
        let w = HsDebugFull.debug_upgrader_full (parse_fun ans) wcut1 setreq setresp stext ucfg b (sizes_of hreads) chunks HsBufio.TEof in
        let r = w.HsDebugFull.fu_res in
        let mcls = class_of_uerr r.HsUpgrader.u_err in
        if mcls <> cls then Diff ("model outcome " ^ mcls)
        else if hs_tok cls r.HsUpgrader.u_hs <> proto ^ " " ^ exts then Diff "model handshake differs"
        else if List.concat w.HsDebugFull.fu_conn_out <> bytes_of_hex out then Diff "model response differs"
        else if opt_tok w.HsDebugFull.fu_on_request <> obs_tok nreq gotreq then Diff "model OnRequest differs"
        else if opt_tok w.HsDebugFull.fu_on_response <> obs_tok nresp gotresp then Diff "model OnResponse differs"
        else if setreq && fst (HsDebugFull.tee_fetch (sizes_of hreads) [] chunks) <> bytes_of_hex captured then Diff "model captured bytes differ"
        else if List.concat w.HsDebugFull.fu_conn <> bytes_of_hex crest then Diff "model conn remainder differs"
        else Pass true
      end
    | _ -> Diff "malformed line");

  (* a wrapper that is still blocked when the watchdog fires, where the plain handshake has returned *)
  register "DBH" (fun i o -> match i, o with
    | [scenario], [plain; debug] ->
      let v s = match String.index_opt s '=' with Some k -> String.sub s (k + 1) (String.length s - k - 1) | None -> s in
      let plain = v plain and debug = v debug in
      if plain = "hang" then Pass false      (* void: the plain handshake did not return either *)
      else if debug = "hang" then Viol ("the debugging wrapper blocks where the plain handshake returns (" ^ scenario ^ ")")
      else if debug <> plain then Viol ("the debugging wrapper changes the outcome (" ^ scenario ^ ")")
      else Pass true
    | _ -> Diff "malformed line")
