(* C20: a logged execution of the real Dial must be a trace of the extracted LTS
   (DialLTS.accepts) and satisfy the extracted property monitor (DialLTS.monitor). *)
open Base
open DialLTS

let derr_of = function
  | "nil" -> ENil | "canceled" -> ECanceled | "deadline" -> EDeadline
  | "iotimeout" -> EIoTimeout | "other" -> EOther | s -> failwith ("error class " ^ s)
let who_of = function "m" -> GMain | "o" -> GOther | s -> failwith ("goroutine tag " ^ s)
let dlk_of = function "n" -> DNone | "f" -> DFuture | "p" -> DPast | s -> failwith ("deadline kind " ^ s)

let label_of (t : string) : label =
  match String.split_on_char ':' t with
  | ["ds"] -> LDialStart | ["dok"] -> LDialOk | ["de"; e] -> LDialErr (derr_of e)
  | ["sd"; w; k] -> LSetDl (who_of w, dlk_of k)
  | ["is"; w] -> LIoStart (who_of w) | ["io"; w] -> LIoOk (who_of w)
  | ["it"; w] -> LIoTimeout (who_of w) | ["if"; w] -> LIoFail (who_of w)
  | ["cl"; w] -> LClose (who_of w)
  | ["cc"] -> LCtxCancel | ["se"] -> LSeenExpired | ["st"] -> LSeenTimer
  | ["r"; e] -> LRet (derr_of e)
  | _ -> failwith ("event " ^ t)

let verdict_name = function
  | VOk -> "ok"
  | VTouchAfterReturn -> "the conn is operated on (or Dial's goroutines are still active) after Dial returned"
  | VNilNoConn -> "nil error without a conn"
  | VNilClosed -> "nil error but the conn was closed"
  | VNilDeadline -> "nil error but a deadline was left set on the conn"
  | VErrNotClosed -> "non-nil error but the conn was not closed"
  | VErrNotCtx -> "ctx ended before the handshake I/O finished, yet the error is not the context's error"
  | VRawTimeout -> "raw i/o timeout returned although the Dial was watching a context"

(* harness tokens -> model configuration (Dial's derivation of dialctx) *)
let cfg_of ctxk tmo resp : cfg =
  let k = match ctxk, tmo with
    | "bg", _ -> CtxBg
    | "plain", _ -> CtxPlain
    | "dlshort", _ -> CtxDlEarly        (* 20 ms deadline: never after now+Timeout (60 s or none) *)
    | "dllong", "short" -> CtxDlLate    (* 60 s deadline, 20 ms Timeout *)
    | "dllong", _ -> CtxDlEarly         (* Timeout = 0: the distinction is void *)
    | _ -> failwith "ctx kind" in
  { c_ctx = k; c_tmo = (tmo <> "none"); c_valid = (resp = "valid") }

let rec int_of_nat = function Datatypes.O -> 0 | Datatypes.S n -> 1 + int_of_nat n

let () =
  register "C20" (fun i o -> match i, o with
    | [ctxk; tmo; _procs; _n; resp; _silent; _eof; _trig; _pos; _mode; _jit], (tr :: hang :: leak :: dlrest) ->
      let dl_left = (match dlrest with [d] -> d <> "00" | _ -> false) in
      let c = cfg_of ctxk tmo resp in
      let evs = List.map label_of (split_list tr) in
      let has_ret = List.exists (function LRet _ -> true | _ -> false) evs in
      let interesting = List.exists (function LCtxCancel | LSeenExpired | LSeenTimer -> true | _ -> false) evs in
      (match monitor c evs with
       | VOk ->
         if hang = "1" then begin
           if must_have_returned c evs then
             Viol "progress: ctx ended / Timeout elapsed on a deadline-honouring conn, Dial had not returned after 3 s"
           else if tmo = "short" && _silent <> "-1" then
             Viol "progress: Dialer.Timeout (20 ms) elapsed in real time on a silent peer, Dial had not returned after 3 s"
           else Diff "scenario hung although nothing ended (harness scenario without a trigger)"
         end
         else if leak = "1" then Viol "a goroutine started by Dial is still alive 3 s after Dial returned"
         else if dl_left && List.exists (function LRet ENil -> true | _ -> false) evs then
           Viol "nil error but a read or write deadline was left set on the conn"
         else if not has_ret then Diff "no return event in the trace"
         else if not (accepts c evs) then
           Diff (Printf.sprintf "trace is not a trace of the Dial LTS (first %d events are)" (int_of_nat (accepted_prefix c evs)))
         else Pass interesting
       | v -> Viol (verdict_name v))
    | _ -> Diff "malformed line")
