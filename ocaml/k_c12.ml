(* C12 kinds: permessage-deflate payloads (see harness/c12.go for the line formats) *)
open Base
open BinNums
open Datatypes
open Flate

let nat_of_int_tr (i : int) : Datatypes.nat =
  let rec go acc i = if i <= 0 then acc else go (Datatypes.S acc) (i - 1) in go Datatypes.O i
let int_of_nat (n : Datatypes.nat) : int =
  let rec go acc = function Datatypes.O -> acc | Datatypes.S m -> go (acc + 1) m in go 0 n

let chunks_of_tok (s : string) : coq_N list list =
  if s = "/" then [] else List.map bytes_of_hex (String.split_on_char '+' s)
let rev_append_all (ls : coq_N list list) : coq_N list =
  (* concat without deep recursion *)
  List.rev (List.fold_left (fun acc l -> List.rev_append l acc) [] ls)
let rec take n l = if n <= 0 then [] else match l with [] -> [] | x :: r -> x :: take (n - 1) r
let take_tr n l =
  let rec go acc n l = if n <= 0 then List.rev acc else match l with [] -> List.rev acc | x :: r -> go (x :: acc) (n - 1) r in
  go [] n l
let tail4 = compression_tail
let append_tr a b = List.rev_append (List.rev a) b
let left_of_int i = if i < 0 then None else Some (nat_of_int_tr i)

let werr_of = function "none" -> Some WNone | "comp" -> Some WComp | "tail" -> Some WTail | _ -> None
let status_of = function "nil" -> RNil | "eof" -> REOF | _ -> RErr

let inflate_is (input : coq_N list) (expect : coq_N list) : bool =
  match Inflate.inflate input with Some m -> m = expect | None -> false

type wobs = { kind : char; data : coq_N list; n : int; err : string; len : int;
              called : bool; chunks : coq_N list list; cerr : bool }

let () =
  register "C12W" (fun i o -> match i, o with
    | [comp; dstfail; ops], [res; lens; ems; logs; z] ->
      let is_flate = String.length comp > 0 && comp.[0] = 'f' in
      let dstfail = int_of_string dstfail in
      let ops = split_list ops and res = split_list res and lens = split_list lens and ems = split_list ems in
      let logs = List.map chunks_of_tok (String.split_on_char '|' logs) in
      if List.length ops <> List.length res || List.length ops <> List.length lens || List.length ops <> List.length ems
      then Diff "malformed line (lengths)" else begin
        let obs = List.map2 (fun (op, r) (l, e) ->
          let (n, err) = match String.split_on_char ':' r with [n; e] -> (int_of_string n, e) | _ -> failwith "res" in
          let called = e <> "x" in
          let cerr = called && e.[String.length e - 1] = '!' in
          let e' = if cerr then String.sub e 0 (String.length e - 1) else e in
          { kind = op.[0]; data = (if op.[0] = 'W' then bytes_of_hex (String.sub op 1 (String.length op - 1)) else []);
            n; err; len = int_of_string l; called; chunks = (if called then chunks_of_tok e' else []); cerr })
          (List.combine ops res) (List.combine lens ems) in
        (* split into segments at R *)
        let rec segs cur acc = function
          | [] -> List.rev (List.rev cur :: acc)
          | x :: r when x.kind = 'R' -> segs [] (List.rev cur :: acc) r
          | x :: r -> segs (x :: cur) acc r in
        let segments = segs [] [] obs in
        if List.length segments <> List.length logs then Diff "malformed line (segments)" else begin
          let viol = ref None and diff = ref None and nontriv = ref false in
          let setv m = if !viol = None then viol := Some m and setd m = if !diff = None then diff := Some m in
          if z = "0" then setv "python zlib does not inflate destination++tail to the written message";
          List.iter2 (fun seg log ->
            let dest = rev_append_all log in
            (* --- monitors on the observations --- *)
            let raw = ref [] and accepted = ref [] and failed = ref false and lastlen = ref 0 in
            List.iter (fun x ->
              if !failed then begin
                if x.err = "none" then setv "an operation succeeded after an operation had failed (error not sticky)";
                if x.len <> !lastlen then setv "bytes reached the destination after an operation had failed"
              end else begin
                raw := List.rev_append (rev_append_all x.chunks) !raw;
                if x.kind = 'W' then accepted := List.rev_append (take_tr x.n x.data) !accepted;
                if x.err <> "none" then failed := true
                else if x.kind = 'F' || x.kind = 'C' then begin
                  nontriv := true;
                  let d = take_tr x.len dest in
                  let rawf = List.rev !raw in
                  if not (c12_tail_monitor d rawf) then
                    setv "successful Flush/Close but destination ++ 00 00 ff ff is not what the compressor produced"
                  else if is_flate && not (c12_inflate_monitor d (List.rev !accepted)) then
                    setv "destination ++ 00 00 ff ff does not inflate (RFC 1951 decoder) to the written message"
                end
              end;
              lastlen := x.len) seg;
            (* --- the model --- *)
            let w = ref (fw_new (dst_new (left_of_int dstfail))) in
            List.iter (fun x ->
              let e = { em_chunks = x.chunks; em_n = nat_of_int_tr x.n; em_err = x.cerr } in
              let op = match x.kind with 'W' -> WWrite (x.data, e) | 'F' -> WFlush e | _ -> WClose e in
              let was_ok = (!w).fw_err = WNone in
              let (w', (n, err)) = fw_step !w op in
              w := w';
              if was_ok <> x.called && not (x.kind = 'C' && not x.called) then setd "model disagrees on whether the compressor is reached";
              (match werr_of x.err with
               | Some e' -> if e' <> err then setd "model error class differs"
               | None -> setd "unclassified error");
              if int_of_nat n <> x.n then setd "model byte count differs";
              if List.length (d_flat w'.fw_cbuf.cb_dst) <> x.len then setd "model destination length differs") seg;
            if (!w).fw_cbuf.cb_dst.d_log <> log then setd "model destination write log differs") segments logs;
          match !viol, !diff with
          | Some m, _ -> Viol m
          | None, Some m -> Diff m
          | None, None -> Pass !nontriv
        end
      end
    | _ -> Diff "malformed line");
  register "C12R" (fun i o -> match i, o with
    | [api; dec; chunking; br; enc; payload; msg], [ok; out] ->
      let payload = bytes_of_hex payload and msg = bytes_of_hex msg in
      let out_same = (out = "=") || bytes_of_hex out = payload in
      (* the input really is a sync-flushed DEFLATE stream of the payload minus its tail *)
      if not (inflate_is (append_tr msg tail4) payload) then
        Diff "encoder output ++ 00 00 ff ff does not inflate to the payload with the Coq decoder"
      else if enc = "stored" && Inflate.stored_message payload <> msg then
        Diff "harness stored encoder differs from the Coq encoder"
      else if not (inflate_is (append_tr msg compression_read_tail) payload) then
        Diff "Coq decoder on message ++ read tail differs"
      else if ok <> "1" || not out_same then
        Viol ("decompression reader did not recover the message (" ^ api ^ ", decompressor " ^ dec
              ^ (if br = "1" then ", io.ByteReader source" else ", plain source") ^ ")")
      else Pass (payload <> [])
    | _ -> Diff "malformed line");
  register "C12C" (fun i o -> match i, o with
    | [dstfail; chunks], [res; log; held; n; err] ->
      let dstfail = int_of_string dstfail in
      let ws = chunks_of_tok chunks and log = chunks_of_tok log and held = bytes_of_hex held in
      let n = int_of_string n in
      let flat = rev_append_all log in
      if dstfail < 0 && not (c12_cbuf_monitor ws flat held (nat_of_int_tr n)) then
        Viol "cbuf: destination is not all-but-the-last-4 bytes / withheld bytes wrong"
      else begin
        let c = ref (cbuf_reset (dst_new (left_of_int dstfail))) in
        let rs = List.map (fun p -> let (c', (k, e)) = cbuf_write !c p in c := c';
                            Printf.sprintf "%d:%s" (int_of_nat k) (tok_of_bool e)) ws in
        if rs <> split_list res then Diff "model cbuf.Write results differ"
        else if (!c).cb_dst.d_log <> log then Diff "model destination write log differs"
        else if (!c).cb_buf <> held || int_of_nat (!c).cb_n <> n then Diff "model withheld bytes differ"
        else if tok_of_bool (!c).cb_err <> err then Diff "model error flag differs"
        else Pass (ws <> [])
      end
    | _ -> Diff "malformed line");
  register "C12S" (fun i o -> match i, o with
    | [br; end_; chunks; reqs], [outs] ->
      let cs = chunks_of_tok chunks in
      let fails = (end_ = "fail" || end_ = "uex") in   (* uex: the source ends with io.ErrUnexpectedEOF - a failure like any other *)
      let outs = List.map (fun t -> match String.split_on_char ':' t with
        | [d; s] -> (bytes_of_hex d, status_of s) | _ -> failwith "out") (split_list outs) in
      let reqs = List.map (fun q -> if q = "b" then RqByte
                            else RqRead (nat_of_int_tr (int_of_string (String.sub q 1 (String.length q - 1))))) (split_list reqs) in
      let total = append_tr (rev_append_all cs) compression_read_tail in
      if not (c12_sr_monitor total fails outs) then
        Viol "suffixedReader: consumer does not see source ++ 00 00 ff ff 01 00 00 ff ff then EOF"
      else begin
        let e = match end_ with "eof" -> EndEOF | "eofl" -> EndEOFWithLast | _ -> EndFail in
        let m = sr_run (sr_new { s_chunks = cs; s_end = e }) reqs in
        if m <> outs then Diff "model suffixedReader responses differ" else Pass true
      end
    | _ -> Diff "malformed line");
  register "C12H" (fun i o ->
    let hdr fin rsv op masked mask len =
      { Check.h_fin = bool_of_tok fin; h_rsv = n_of_int (int_of_string rsv); h_op = n_of_int (int_of_string op);
        h_masked = bool_of_tok masked; h_mask = bytes_of_hex mask; h_len = z_of_int len } in
    let same_but h h' rsv' len' =
      h'.Check.h_fin = h.Check.h_fin && h'.Check.h_op = h.Check.h_op && h'.Check.h_masked = h.Check.h_masked
      && h'.Check.h_mask = h.Check.h_mask && h'.Check.h_rsv = rsv' && h'.Check.h_len = len' in
    let r1 rsv = int_of_string rsv land 4 <> 0 in
    let first_data op = let o = int_of_string op in o land 8 = 0 && o <> 0 in
    let herr_name = function HFragmented -> "frag" | HBit -> "bit" | HEngine -> "engine" in
    match i, o with
    | ["c"; fin; rsv; op; masked; mask; p], out ->
      let p = bytes_of_hex p in
      let h = hdr fin rsv op masked mask (List.length p) in
      let f = { f_hdr = h; f_payload = p } in
      (match out with
       | [e] ->
         if fin = "1" && first_data op && not (r1 rsv) then Viol "CompressFrame failed on a final data frame"
         else (match compress_frame (fun _ -> Some []) f with
           | Coq_inr me -> if herr_name me = e then Pass true else Diff "model error class differs"
           | Coq_inl _ -> if fin = "0" then Viol "model accepts?" else Diff "model accepts, implementation refuses")
       | [fin'; rsv'; op'; masked'; mask'; len'; c] ->
         let c = bytes_of_hex c in
         let h' = hdr fin' rsv' op' masked' mask' (int_of_string len') in
         if fin = "0" then Viol "CompressFrame accepted a non-final frame"
         else if first_data op && not (r1 rsv) &&
                 not (same_but h h' (n_of_int (int_of_string rsv lor 4)) (z_of_int (List.length c))) then
           Viol "CompressFrame: header differs in more than the compression bit and the length"
         else if first_data op && not (inflate_is (append_tr c tail4) p) then
           Viol "CompressFrame: payload ++ 00 00 ff ff does not inflate to the original payload"
         else (match compress_frame (fun _ -> Some c) f with
           | Coq_inl mf -> if mf.f_hdr = h' && mf.f_payload = c then Pass true else Diff "model frame differs"
           | Coq_inr _ -> Diff "model refuses, implementation accepts")
       | _ -> Diff "malformed line")
    | ["d"; fin; rsv; op; masked; mask; c; p], out ->
      let p = bytes_of_hex p and c = bytes_of_hex c in
      let h = hdr fin rsv op masked mask (List.length c) in
      let f = { f_hdr = h; f_payload = c } in
      (match out with
       | [e] ->
         if fin = "1" && first_data op then Viol "DecompressFrame failed on a final data frame with a valid payload"
         else (match decompress_frame (fun _ -> Some p) f with
           | Coq_inr me -> if herr_name me = e then Pass true else Diff "model error class differs"
           | Coq_inl _ -> Diff "model accepts, implementation refuses")
       | [fin'; rsv'; op'; masked'; mask'; len'; out] ->
         let out = bytes_of_hex out in
         let h' = hdr fin' rsv' op' masked' mask' (int_of_string len') in
         if fin = "0" then Viol "DecompressFrame accepted a non-final frame"
         else if first_data op && r1 rsv &&
                 not (same_but h h' (n_of_int (int_of_string rsv land 3)) (z_of_int (List.length p)) && out = p) then
           Viol "DecompressFrame: not the original payload / header differs in more than the compression bit and the length"
         else if first_data op && not (r1 rsv) && not (h' = h && out = c) then
           Viol "DecompressFrame changed a frame that is not compressed"
         else (match decompress_frame (fun _ -> Some p) f with
           | Coq_inl mf -> if mf.f_hdr = h' && mf.f_payload = out then Pass true else Diff "model frame differs"
           | Coq_inr _ -> Diff "model refuses, implementation accepts")
       | _ -> Diff "malformed line")
    | _ -> Diff "malformed line");
  register "C12B" (fun i o -> match i, o with
    | [p], [c; ok; out] ->
      let p = bytes_of_hex p and c = bytes_of_hex c and out = bytes_of_hex out in
      if ok <> "1" || out <> p then Viol "Helper.Decompress(Helper.Compress(p)) is not p"
      else if not (inflate_is (append_tr c tail4) p) then
        Viol "Helper.Compress output ++ 00 00 ff ff does not inflate to the payload"
      else Pass true
    | _ -> Diff "malformed line")
