(* kinds added after the seventh round of seeded changes (harness/zv_round7.go) *)
open Base

let () =
  (* DW: the concrete type of the destination must not change the bytes that arrive *)
  register "DW" (fun i o -> match i, o with
    | [api; dress; side; n], [same; plain; _dressed] ->
      let ends_with s suf = let a = String.length s and b = String.length suf in a >= b && String.sub s (a - b) b = suf in
      if ends_with plain "/panic" then Viol ("panic in " ^ api)
      else if same <> "1" then Viol (Printf.sprintf "%s (side %s, %s bytes): the bytes that reach a destination of type %s differ from those a plain io.Writer receives" api side n dress)
      else Pass true
    | _ -> Diff "malformed line");
  (* C02WV <via> <C02W line>: the mask writer fed alternately through io.WriteString and Write; judged as C02W *)
  register "C02WV" (fun i o -> match i with
    | _via :: rest -> (Hashtbl.find handlers "C02W") rest o
    | _ -> Diff "malformed line");
  (* C03N: a close body handed out earlier and then modified by its owner must not change the next one *)
  register "C03N" (fun i o -> match i, o with
    | [code; rl], [pc; pr; blen] ->
      let rl = int_of_string rl in
      if pc <> code then Viol (Printf.sprintf "NewCloseFrameBody(%s) built after an earlier body of the same code was modified by its owner parses back to code %s" code pc)
      else if List.length (bytes_of_hex pr) <> rl || int_of_string blen <> 2 + rl then Viol "close body built after an earlier one was modified: wrong reason / size"
      else Pass true
    | _ -> Diff "malformed line")
