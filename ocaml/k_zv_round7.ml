(* kinds added after the seventh round of seeded changes (harness/zv_round7.go) *)
open Base

let () =
  (* DW: the concrete type of the destination must not change the bytes that arrive *)
  register "DW" (fun i o -> match i, o with
    | [api; dress; side; n], [same; plain; _dressed] ->
      let ends_with s suf = let a = String.length s and b = String.length suf in a >= b && String.sub s (a - b) b = suf in
      if ends_with plain "/panic" then Viol ("panic in " ^ api)
      else if same <> "1" then Viol (Printf.sprintf "%s (side %s, %s bytes): the bytes that reach a destination of type %s differ from those a plain io.Writer receives" api side n dress)
      else Pass true
    | _ -> Diff "malformed line");
  (* C02WV <via> <C02W line>: the mask writer fed alternately through io.WriteString and Write; judged as C02W *)
  register "C02WV" (fun i o -> match i with
    | _via :: rest -> (Hashtbl.find handlers "C02W") rest o
    | _ -> Diff "malformed line");
  (* C03N: a close body handed out earlier and then modified by its owner must not change the next one *)
  register "C03N" (fun i o -> match i, o with
    | [code; rl], (pc :: pr :: blen :: rest) ->
      let rl = int_of_string rl in
      if rest = ["0"] then Viol (Printf.sprintf "building another close body for code %s changed a body handed out earlier (two results share memory)" code)
      else if pc <> code then Viol (Printf.sprintf "NewCloseFrameBody(%s) built after an earlier body of the same code was modified by its owner parses back to code %s" code pc)
      else if List.length (bytes_of_hex pr) <> rl || int_of_string blen <> 2 + rl then Viol "close body built after an earlier one was modified: wrong reason / size"
      else Pass true
    | _ -> Diff "malformed line")

let () =
  (* H09W: the HTTP upgraders behind a ResponseWriter that reaches its Hijacker through Unwrap(); judged as H09 *)
  register "H09W" (fun i o -> (Hashtbl.find handlers "H09") i o);
  (* DBUF: DebugUpgrader over a conn that refuses its k-th write: same outcome as the plain Upgrader, OnResponse called
     once with exactly the bytes the conn accepted *)
  register "DBUF" (fun i o -> match i, o with
    | [_; _; _], [plain; debug; accepted; got; n] ->
      if debug = "panic" then Viol "DebugUpgrader panicked over a failing connection"
      else if plain <> debug then Viol "DebugUpgrader changes the outcome over a connection that refuses a write"
      else if n <> "1" then Viol "OnResponse not called exactly once"
      else if got <> accepted then Viol "OnResponse reports response bytes the connection did not accept (or misses some it did)"
      else Pass true
    | _ -> Diff "malformed line");
  (* C19D: sessions using the default net dialer one after the other *)
  register "C19D" (fun i o -> match o with
    | ["0"; _; _; _; _] -> Pass false
    | ["1"; _a; b; alone; c] ->
      if alone <> "ok" then Pass false   (* no usable loopback: the case says nothing *)
      else if b <> "ok" then Viol "a session without Timeout failed after another session had used the default net dialer with a tiny Timeout (it succeeds alone)"
      else if c <> "ok" then Viol "a session with a generous Timeout failed after another session had used the default net dialer with a tiny one"
      else Pass true
    | _ -> Diff "malformed line")

let () =
  (* C17HX: the values of one handshake result are what the peer sent and do not share memory with each other *)
  register "C17HX" (fun i o -> match o with
    | ["err"; _; _] -> Diff "handshake failed in the harness"
    | ["ok"; equal; shared] ->
      if equal <> "1" then Viol "returned extensions / parameters are not those the peer sent (several parameterised extensions in one header line)"
      else if shared <> "0" then Viol "two values of one handshake result share memory: a write through one shows up in the other"
      else Pass true
    | _ -> Diff "malformed line")
