(* Kinds added after mutation testing (harness/zx_mut.go, tools/mutation-results.md).  Most of the cases
   generated there are lines of EXISTING kinds (DBD, U09, H09, RXC, ...) and are judged by the existing
   monitors; the kinds below exist because no earlier kind observes the behaviour.

   ZMCPL name op code -> bytes
     C01 "Whole-frame read/write/compile are the header codec followed by exactly `length` payload
     bytes": each package-level precompiled frame (ws.CompiledPing, ..., ws.CompiledCloseTLSHandshake)
     is the compiled form of the frame its name says: a final, unmasked ping / pong / close frame with
     zero reserved bits whose payload is empty or exactly the named status code in network byte order.
   ZMBIT fin rsv op -> unset_rsv was_set unset_err unset_rest_same set_rsv set_err set_rest_same is_compressed is_err
     C13 for the stateless helpers wsflate.UnsetBit / SetBit / IsCompressed (a fresh message state and one
     header): "RSV1 on a continuation or control frame is rejected as a protocol error"; "the header
     handed to the application has RSV1 cleared with the other bits untouched"; the state "reports
     'compressed' exactly when the first frame of the current data message had RSV1"; "a message marked
     compressed has RSV1 set on its first frame and on no other frame ... all control frames carry no
     RSV1".  What SetBit does with a header that already carries RSV1 is left open. *)
open Base
open Check
open Frame

let () =
  register "ZMCPL" (fun i o -> match i, o with
    | [_name; op; code], [bytes] ->
      let op = int_of_string op and code = int_of_string code in
      let payload = if code < 0 then [] else [n_of_int (code lsr 8); n_of_int (code land 255)] in
      let h = { h_fin = true; h_rsv = n_of_int 0; h_op = n_of_int op; h_masked = false; h_mask = [];
                h_len = z_of_int (List.length payload) } in
      let expect = rfc_header h @ payload in
      if bytes_of_hex bytes <> expect then
        Viol "precompiled frame is not the header codec ++ payload of the frame it names"
      else (match compile_frame { f_header = h; f_payload = payload } with
        | Datatypes.Coq_inr cb when cb = expect -> Pass true
        | _ -> Diff "model compile_frame differs")
    | _ -> Diff "malformed line");

  register "ZMBIT" (fun i o -> match i, o with
    | [_fin; rsv; op], [ursv; was; uerr; usame; srsv; serr; ssame; ic; ierr] ->
      let rsv = int_of_string rsv and op = int_of_string op in
      let ursv = int_of_string ursv and srsv = int_of_string srsv in
      let r1 = rsv land 4 <> 0 in
      let first_data = (op = 1 || op = 2) in
      let reserved_op = (op >= 3 && op <= 7) || op >= 11 in
      if reserved_op then Pass false   (* reserved opcodes: the property does not speak about them *)
      else if usame <> "1" || ssame <> "1" then Viol "UnsetBit/SetBit changed a header field other than the reserved bits"
      else if first_data then begin
        (* first frame of a data message *)
        if uerr <> "0" || ierr <> "0" then Viol "RSV1 handling refuses the first frame of a data message"
        else if ursv <> rsv land 3 then Viol "UnsetBit: RSV1 not cleared / other reserved bits touched on a first data frame"
        else if (was = "1") <> r1 || (ic = "1") <> r1 then Viol "compressed is not reported exactly when the first frame had RSV1"
        else if (not r1) && (serr <> "0" || srsv <> (rsv lor 4)) then Viol "SetBit does not set RSV1 (only) on the first frame of a compressed message"
        else Pass true
      end else begin
        (* continuation or control frame *)
        if r1 then begin
          if uerr <> "1" || ierr <> "1" then Viol "RSV1 on a continuation or control frame is not rejected"
          else Pass true
        end else begin
          if uerr <> "0" || ierr <> "0" then Viol "a continuation/control frame without RSV1 is rejected"
          else if ursv <> rsv then Viol "UnsetBit touched reserved bits of a continuation/control frame"
          else if was = "1" || ic = "1" then Viol "compressed reported for a frame without RSV1"
          else if serr <> "0" || srsv <> rsv then Viol "SetBit put RSV1 on (or refused) a continuation/control frame"
          else Pass true
        end
      end
    | _ -> Diff "malformed line")

(* ZMDU url -> dials result conn_nil
     C10 "The dialer reports success exactly when the status line is HTTP/1.x (x >= 1) with a status code
     that is literally 101 and ...": the transport of this kind answers every read with EOF, so no response
     is ever received and Dial must not report success -- in particular not for a URL that does not parse
     or whose scheme is not ws/wss, for which it does not even dial. *)
let () =
  register "ZMDU" (fun i o -> match i, o with
    | [_url], [dials; res; connnil] ->
      if res = "panic" then Viol "Dial panicked"
      else if res = "ok" then Viol "Dial reported success although no 101 response was received"
      else Pass (dials = "0")
    | _ -> Diff "malformed line")
