(* Coverage-driven kinds, framing / messaging side (harness/zy_cov_a.go).

   ALIASES: the observation has the format of an existing kind (after a leading variant token) but was
   produced through another public entry point of the library; it is judged by the very same monitor
   and compared with the same extracted model:
     YRD / YRC   -> RD / RC    C04/C05/C07/C13/C16 "all entry points (Reader, NextReader, ...)": Readers made
                               by NewReader / NewClientSideReader / NewServerSideReader, the package
                               function NextReader, a Reader with an OnContinuation callback, the compression
                               state attached through RecvExtensionFunc
     YRM / YRMC  -> RM / RMC   ReadClientMessage / ReadServerMessage ("the read helpers built on it")
     YC01G       -> C01G       MustReadFrame    (C01 "whole-frame read ... is the header codec followed by
     YC01F       -> C01F       MustWriteFrame / MustCompileFrame          exactly length payload bytes")
     YWX         -> WHX        C13 send side, MessageState attached through SendExtensionFunc
     YC12H       -> C12H       C12 "the frame-level helpers": package-level *FrameBuffer functions, own Helper
     YC17W       -> C17W       C17 "client-side message writes ... leave the caller's byte slices intact":
                               WriteClientText/Binary, WriteServerText/Binary
   NEW monitors (each states the clause it checks): YRSV, YMW, YWM, YWZ, YCHF, YC12E, YFWR. *)
open Base
open Check
open Frame
open Stream0
open Writer
open Handler

let ni = n_of_int
let split c s = String.split_on_char c s
let rec drop k l = if k <= 0 then l else match l with [] -> [] | _ :: r -> drop (k-1) r
let starts_with p s = String.length s >= String.length p && String.sub s 0 (String.length p) = p

let delegate target i o =
  match Hashtbl.find_opt handlers target with
  | None -> Diff ("no handler for kind " ^ target)
  | Some f -> f i o

let alias kind target = register kind (fun i o -> delegate target (drop 1 i) o)

let () =
  (* ---------------------------------------------------------------- aliases *)
  let yrd target = (fun i o -> match i, o with
    | variant :: (_ :: frames :: _ as rest), (_ :: _ :: err :: _ :: ncont :: _) ->
      (match delegate target rest o with
       | Pass nt ->
         (* OnContinuation is documented to be called for every continuation frame: on a stream read to
            its clean end that is the number of continuation frames (not part of C04's statement: a
            difference is reported as model/implementation difference, not as a violation) *)
         if variant = "oncont" && err = "eof" && target = "RD" then begin
           let fs = K_reader.frames_of_tok frames in
           let nc = List.length (List.filter (fun f -> int_of_n f.Reader.sf_op = 0) fs) in
           if int_of_string ncont <> nc then Diff "OnContinuation was not called once per continuation frame" else Pass nt
         end else Pass nt
       | v -> v)
    | _ -> Diff "malformed line") in
  register "YRD" (yrd "RD");
  register "YRC" (yrd "RC");
  alias "YRM" "RM";
  alias "YRMC" "RMC";
  register "YC01G" (delegate "C01G");
  register "YC01F" (delegate "C01F");
  alias "YWX" "WHX";
  alias "YC12H" "C12H";
  register "YC17W" (fun i o -> match i with
    | [fn; p; junk] -> delegate "C17W" [fn; (if starts_with "client" fn then "1" else "0"); p; junk] o
    | _ -> Diff "malformed line");

  (* ---------------------------------------------------------------- YRSV
     C01 "exactly the RFC 6455 §5.2 layout" with "3 reserved bits": RSV1, RSV2, RSV3 are bits 0x40, 0x20,
     0x10 of the first header byte; Header.Rsv1/2/3, ws.RsvBits and ws.Rsv name exactly these bits. *)
  register "YRSV" (fun i o -> match i, o with
    | [b0], [ok; rsv; acc; bits; back] ->
      let b0 = int_of_string b0 in
      let want = Printf.sprintf "%d%d%d" ((b0 lsr 6) land 1) ((b0 lsr 5) land 1) ((b0 lsr 4) land 1) in
      if ok <> "1" then Viol "ReadHeader refused a complete 2-byte header"
      else if int_of_string rsv <> (b0 lsr 4) land 7 then Viol "decoded Rsv is not bits 4..6 of the first byte"
      else if acc <> want then Viol "Header.Rsv1/Rsv2/Rsv3 do not report the RFC 6455 RSV1/RSV2/RSV3 bits"
      else if bits <> want then Viol "ws.RsvBits does not report the RFC 6455 RSV1/RSV2/RSV3 bits"
      else if back <> rsv then Viol "ws.Rsv(r1, r2, r3) does not rebuild the reserved bits"
      else Pass ((b0 lsr 4) land 7 <> 0)
    | _ -> Diff "malformed line");

  (* ---------------------------------------------------------------- YMW
     C16 "if ... the transport returns an error at any byte offset, no API reports success for the frame":
     when a Write call of the destination failed, WriteFrame returns an error and MustWriteFrame panics.
     (Only demanded when a failing call was actually made: an encoder doing fewer Write calls is fine.)
     C01 "whole-frame ... write" otherwise: header codec followed by the payload. *)
  register "YMW" (fun i o ->
    let (h, rest) = K_c01.hdr_of_toks i in
    match rest, o with
    | [payload; fail_at], [werr; n1; must; n2; bytes] ->
      let fail_at = int_of_string fail_at in
      let failed n = fail_at >= 0 && int_of_string n > fail_at in
      if failed n1 && werr = "ok" then Viol "WriteFrame reported success although a destination write failed"
      else if failed n2 && must = "returned" then Viol "MustWriteFrame returned normally although a destination write failed"
      else if (not (failed n1)) && werr <> "ok" then Viol "WriteFrame failed on a valid frame and a working destination"
      else if not (failed n2) then begin
        if must <> "returned" then Viol "MustWriteFrame panicked on a valid frame and a working destination"
        else if bytes_of_hex bytes <> rfc_header h @ bytes_of_hex payload then Viol "frame bytes are not header codec ++ payload"
        else Pass false
      end
      else if must <> "panic:fail" || werr <> "fail" then Diff "the destination's own error is not what WriteFrame returns / MustWriteFrame panics with"
      else Pass true
    | _ -> Diff "malformed line");

  (* ---------------------------------------------------------------- YWM
     WriteClientText / WriteClientBinary / WriteServerText / WriteServerBinary next to
     WriteMessage(state, op) on the same payload (documented: "the same as Write{Client,Server}Message
     with ws.OpText / ws.OpBinary"). No property of the list speaks about the one-shot writers' frame
     (C17's part is judged by YC17W), so a difference is a model/implementation difference. *)
  register "YWM" (fun i o -> match i, o with
    | [fn; p; _], [ok; dest; refok; refd] ->
      let p = bytes_of_hex p in
      let client = starts_with "client" fn in
      let op = if String.length fn >= 4 && String.sub fn (String.length fn - 4) 4 = "text" then 1 else 2 in
      if ok <> "1" || refok <> "1" then Diff "one-shot message write failed on a working destination"
      else (match frames_of (bytes_of_hex dest), frames_of (bytes_of_hex refd) with
        | Some [f], Some [g] ->
          let hf = f.pf_header and hg = g.pf_header in
          if not (hf.h_fin && int_of_n hf.h_rsv = 0 && int_of_n hf.h_op = op && hf.h_masked = client) then
            Diff "helper did not send one final frame of its opcode, masked iff client side"
          else if hf.h_fin <> hg.h_fin || hf.h_rsv <> hg.h_rsv || hf.h_op <> hg.h_op || hf.h_masked <> hg.h_masked || hf.h_len <> hg.h_len then
            Diff "helper's frame header differs from WriteMessage's"
          else if pf_unmasked f <> p || pf_unmasked g <> p then Diff "unmasked payload is not the message"
          else Pass (p <> [])
        | _ -> Diff "destination bytes are not exactly one frame")
    | _ -> Diff "malformed line");

  (* ---------------------------------------------------------------- YWZ
     C06 on histories containing reader-to-writer copies from a source that returns (0, nil): "the bytes
     sent to the destination form whole frames at every call boundary and, between two final flushes,
     exactly one message ... The concatenated unmasked payloads equal the bytes the writer reported as
     accepted, in order" (c06_monitor, the monitor of WH), and every call returns.
     The copy itself is documented to behave like bufio.Writer: it gives up with io.ErrNoProgress after
     100 consecutive empty reads, having accepted what came before (reported as a difference). *)
  register "YWZ" (fun i o -> match i, o with
    | [cfg; ops], [obs; log] ->
      let (ctor, st, op, exts) = K_writer.parse_cfg cfg in
      let log = bytes_list_of_tok log in
      let zinfo = Hashtbl.create 4 in
      let ops_l = List.mapi (fun k t ->
        if t.[0] = 'z' then
          (match List.map int_of_string (split '/' (String.sub t 1 (String.length t - 1))) with
           | [n; seed; at; stalls; _] ->
             Hashtbl.replace zinfo k (n, at, stalls);
             WReadFrom (K_writer.pat_bytes n seed, [])
           | _ -> failwith "z op")
        else K_writer.wop_of_tok t) (split ',' ops) in
      let gtoks = split ',' obs in
      let gobs = List.map K_writer.obs_of_tok gtoks in
      let errs = List.map (fun t -> match split '.' t with _ :: e :: _ -> e | _ -> "?") gtoks in
      let steps = List.mapi (fun k ob -> { s_op = List.nth ops_l k; s_obs = ob }) gobs in
      if List.exists (fun ob -> ob.o_panic <> None) gobs then Viol "Writer panicked"
      else if List.mem "hang" errs then Viol "Writer call did not return (no progress)"
      else (match K_writer.mk_writer ctor st op exts (K_writer.masks_of (List.concat log)) None with
        | None -> Diff "model constructor panics, Go did not"
        | Some w0 ->
          if not (c06_monitor (st_client st) op false w0.w_buflen steps log) then
            Viol "destination bytes are not one well-formed message per final flush carrying the accepted bytes"
          else begin
            let bad = ref None in
            List.iteri (fun k (ob, e) ->
              match Hashtbl.find_opt zinfo k with
              | Some (n, at, stalls) ->
                let (wn, we) = if stalls < 0 then (at, "dest") (* the source's own error *)
                  else if stalls >= 100 then (at, "noprogress") else (n, "nil") in
                if int_of_n ob.o_n <> wn || e <> we then bad := Some k
              | None -> ()) (List.combine gobs errs);
            match !bad with
            | Some k -> Diff ("ReadFrom from a stalling source: count/error differ from the documented bufio behaviour at op " ^ string_of_int k)
            | None -> Pass true
          end)
    | _ -> Diff "malformed line");

  (* ---------------------------------------------------------------- YCHF
     The CH case of C08 with a destination whose k-th Write call fails. C08 "the library writes exactly
     the reply RFC 6455 asks for" / C16 "no API reports success" when the transport returns an error: a
     handler that could not write the reply it owes must not return nil. When no write failed the
     ordinary reply monitor applies. The result and the write log are compared with the handler model
     running on a failing destination. *)
  register "YCHF" (fun i o -> match i, o with
    | [side; op; payload; key; entry; spec; fail_at], [log; res] ->
      let state = ni (int_of_string side) and op = ni (int_of_string op) in
      let payload = bytes_of_hex payload in
      let log = bytes_list_of_tok log in
      let fail_at = int_of_string fail_at in
      let failed = List.length log > fail_at in
      (match K_x_handler.hres_of_string res with
       | None -> Viol ("control handler returned an unclassified result: " ^ res)
       | Some r ->
         if failed && r = HNil then Viol "control handler reported success although its reply could not be written"
         else if (not failed) && not (c08_reply_monitor state op payload log r) then
           Viol "automatic control reply is not the single valid frame RFC 6455 asks for (or wrong result reported)"
         else begin
           let r = (match r with HIoErr EFail -> HWriteErr | x -> x) in   (* the destination's error, handed back as it is *)
           let masked = key <> "-" && int_of_string side = 1 in
           let k = if masked then bytes_of_hex key else zero_mask in
           let h = { h_fin = true; h_rsv = BinNums.N0; h_op = op; h_masked = masked; h_mask = k;
                     h_len = z_of_int (List.length payload) } in
           let avail = if masked then Cipher.mask_spec payload k BinNums.N0 else payload in
           let copy_sizes = if entry = "hcm" || entry = "hcm2" then [] else sizes_of_spec spec (List.length payload) in
           let masks = K_writer.masks_of (List.concat log) in
           let d = { d_calls = []; d_fail_at = Some (ni fail_at) } in
           let (mr, d') = handle state masked h avail TEOF copy_sizes masks d in
           if mr <> r then Diff "model handler result differs (failing destination)"
           else if List.length (dest_log d') <> List.length log then Diff "model handler makes a different number of destination writes"
           else if (not failed) && List.concat (dest_log d') <> List.concat log then Diff "model handler reply bytes differ"
           else Pass failed
         end)
    | _ -> Diff "malformed line");

  (* ---------------------------------------------------------------- YC12E
     C12 "a compressor that does not end a flush with the required tail is reported as an error instead
     of producing a corrupt message", and the round trip of the Helper's byte- and frame-level calls:
     whenever a Helper call over the given engine reports success, what it produced ++ 00 00 ff ff is
     exactly what the engine emitted and inflates (Coq RFC 1951 decoder) to the payload; a conforming
     engine is not refused; no call panics (C15). An engine error that the Helper swallowed while the
     output is still right is reported as a difference (documented: errors are returned). *)
  register "YC12E" (fun i o -> match i, o with
    | [dir; api; kind; p], [res; out; raw] ->
      let p = bytes_of_hex p and out = bytes_of_hex out and raw = bytes_of_hex raw in
      if res = "panic" then Viol ("wsflate.Helper panicked (" ^ api ^ ", engine " ^ kind ^ ")")
      else if dir = "c" then begin
        if res = "ok" then begin
          if not (Flate.c12_tail_monitor out raw) then
            Viol "Helper reported success but its output ++ 00 00 ff ff is not what the compressor produced"
          else if not (K_c12.inflate_is (K_c12.append_tr out K_c12.tail4) p) then
            Viol "Helper reported success but its output ++ 00 00 ff ff does not inflate to the payload"
          else if kind <> "f9" then Diff ("engine defect '" ^ kind ^ "' was not reported by the Helper")
          else Pass (p <> [])
        end
        else if kind = "f9" then Viol "Helper failed with a conforming compressor"
        else Pass true
      end else begin
        if res = "ok" then begin
          if (kind = "rd" || kind = "closeerr") && out <> p then Viol "Helper reported success but did not recover the message"
          else if kind = "closeerr" then Diff "the decompressor's Close error was not reported by the Helper"
          else Pass (kind = "rd" && p <> [])   (* damaged input: the engine's own verdict is left open *)
        end
        else if kind = "rd" then Viol "Helper failed on its own compressor's output with a conforming decompressor"
        else Pass true
      end
    | _ -> Diff "malformed line");

  (* ---------------------------------------------------------------- YFWR
     C18 "after a reset ... the compression ... reader ... behave[s] exactly like freshly constructed
     instances ... whatever happened before": here the decompressor offers Reset(io.Reader) itself
     (wsflate.ReadResetter), and the history may include a truncated message and a failed Close.
     The message read after the reset is also the one C12 promises. The stickiness of a Close error
     before the reset is documented behaviour only (difference). *)
  register "YFWR" (fun i o -> match i, o with
    | [_; m2; mode; _], [ra; rb; pre] ->
      if ra = "panic" || rb = "panic" then Viol "decompression reader panicked"
      else if ra <> rb then Viol "decompression reader after Reset (decompressor re-pointed by its own Reset) differs from a fresh one"
      else if rb <> m2 ^ ".nil.nil" then Viol "decompression reader did not recover the message (C12)"
      else if mode = "close" && pre <> "1.0.1.1.1" then Diff "after a failed Close, Read/Close/Err did not keep reporting the error"
      else Pass true
    | _ -> Diff "malformed line")
