(* kinds added after the ninth round of seeded changes (harness/zt_round9.go) *)
open Base

let () =
  (* C19Q: a user callback panics inside a handshake; the next handshakes of the process must be unaffected *)
  register "C19Q" (fun i o -> match i, o with
    | [side; point], [before; after; panicked] ->
      if before <> "1" then Diff "nested sessions differ from their solo runs before anything panicked"
      else if after <> "1" then Viol (Printf.sprintf "after a %s-side handshake whose %s callback panicked (and was recovered by the application) later handshakes of the process no longer see the results they see alone (pooled reader / writer returned twice or left dirty)" side point)
      else Pass (panicked = "1")
    | _ -> Diff "malformed line")

let () =
  (* NFC: frame constructors *)
  register "NFC" (fun i o -> match i, o with
    | [ctor; fin; p], [ffin; rsv; op; masked; len; payload; comp] ->
      let want_op = match ctor with
        | "frame1" | "text" -> "1" | "frame2" | "binary" -> "2" | "frame0" -> "0" | "ping" -> "9" | "pong" -> "10" | "close" -> "8" | _ -> "?" in
      let want_fin = if String.length ctor >= 5 && String.sub ctor 0 5 = "frame" then fin else "1" in
      let pb = bytes_of_hex p in
      let n = List.length pb in
      if ffin <> want_fin || op <> want_op || rsv <> "0" || masked <> "0" then Viol ("frame constructor " ^ ctor ^ ": wrong FIN / opcode / reserved bits / mask flag")
      else if int_of_string len <> n then Viol ("frame constructor " ^ ctor ^ ": Header.Length is not the length of the payload given")
      else if bytes_of_hex payload <> pb then Viol ("frame constructor " ^ ctor ^ ": payload is not the bytes given")
      else begin
        let h = { Check.h_fin = (want_fin = "1"); h_rsv = BinNums.N0; h_op = n_of_int (int_of_string want_op); h_masked = false;
                  h_mask = Frame.zero_mask; h_len = z_of_int n } in
        match Frame.write_header h with
        | Datatypes.Coq_inr hb -> if bytes_of_hex comp = hb @ pb then Pass (n > 0) else Viol ("frame constructor " ^ ctor ^ ": compiled frame is not header codec ++ payload")
        | _ -> Diff "model encoder refuses the header"
      end
    | _ -> Diff "malformed line")

let () =
  (* C20D: a conn whose SetDeadline calls fail *)
  register "C20D" (fun i o -> match i, o with
    | [kind; _tmo; full], [cls; closed] ->
      if cls = "hang" || cls = "panic" then Viol ("Dial over a conn without deadline support: " ^ cls)
      else if cls <> "nil" && closed <> "1" then Viol (Printf.sprintf "Dial returned a non-nil error without closing the conn (its SetDeadline fails; context: %s)" kind)
      else if cls = "nil" && full <> "1" then Viol "Dial reported success although the response was cut"
      else if cls = "nil" && closed = "1" then Viol "Dial returned a nil error with a conn it has closed"
      else Pass true
    | _ -> Diff "malformed line")
