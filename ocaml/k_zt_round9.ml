(* kinds added after the ninth round of seeded changes (harness/zt_round9.go) *)
open Base

let () =
  (* C19Q: a user callback panics inside a handshake; the next handshakes of the process must be unaffected *)
  register "C19Q" (fun i o -> match i, o with
    | [side; point], [before; after; panicked] ->
      if before <> "1" then Diff "nested sessions differ from their solo runs before anything panicked"
      else if after <> "1" then Viol (Printf.sprintf "after a %s-side handshake whose %s callback panicked (and was recovered by the application) later handshakes of the process no longer see the results they see alone (pooled reader / writer returned twice or left dirty)" side point)
      else Pass (panicked = "1")
    | _ -> Diff "malformed line")
