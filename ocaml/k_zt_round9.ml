(* kinds added after the ninth round of seeded changes (harness/zt_round9.go) *)
open Base

let () =
  (* C19Q: a user callback panics inside a handshake; the next handshakes of the process must be unaffected *)
  register "C19Q" (fun i o -> match i, o with
    | [side; point], [before; after; panicked] ->
      if before <> "1" then Diff "nested sessions differ from their solo runs before anything panicked"
      else if after <> "1" then Viol (Printf.sprintf "after a %s-side handshake whose %s callback panicked (and was recovered by the application) later handshakes of the process no longer see the results they see alone (pooled reader / writer returned twice or left dirty)" side point)
      else Pass (panicked = "1")
    | _ -> Diff "malformed line")

let () =
  (* NFC: frame constructors *)
  register "NFC" (fun i o -> match i, o with
    | [ctor; fin; p], [ffin; rsv; op; masked; len; payload; comp] ->
      let want_op = match ctor with
        | "frame1" | "text" -> "1" | "frame2" | "binary" -> "2" | "frame0" -> "0" | "ping" -> "9" | "pong" -> "10" | "close" -> "8" | _ -> "?" in
      let want_fin = if String.length ctor >= 5 && String.sub ctor 0 5 = "frame" then fin else "1" in
      let pb = bytes_of_hex p in
      let n = List.length pb in
      if ffin <> want_fin || op <> want_op || rsv <> "0" || masked <> "0" then Viol ("frame constructor " ^ ctor ^ ": wrong FIN / opcode / reserved bits / mask flag")
      else if int_of_string len <> n then Viol ("frame constructor " ^ ctor ^ ": Header.Length is not the length of the payload given")
      else if bytes_of_hex payload <> pb then Viol ("frame constructor " ^ ctor ^ ": payload is not the bytes given")
      else begin
        let h = { Check.h_fin = (want_fin = "1"); h_rsv = BinNums.N0; h_op = n_of_int (int_of_string want_op); h_masked = false;
                  h_mask = Frame.zero_mask; h_len = z_of_int n } in
        match Frame.write_header h with
        | Datatypes.Coq_inr hb -> if bytes_of_hex comp = hb @ pb then Pass (n > 0) else Viol ("frame constructor " ^ ctor ^ ": compiled frame is not header codec ++ payload")
        | _ -> Diff "model encoder refuses the header"
      end
    | _ -> Diff "malformed line")

let () =
  (* C20D: a conn whose SetDeadline calls fail *)
  register "C20D" (fun i o -> match i, o with
    | [kind; _tmo; full], [cls; closed] ->
      if cls = "hang" || cls = "panic" then Viol ("Dial over a conn without deadline support: " ^ cls)
      else if cls <> "nil" && closed <> "1" then Viol (Printf.sprintf "Dial returned a non-nil error without closing the conn (its SetDeadline fails; context: %s)" kind)
      else if cls = "nil" && full <> "1" then Viol "Dial reported success although the response was cut"
      else if cls = "nil" && closed = "1" then Viol "Dial returned a nil error with a conn it has closed"
      else Pass true
    | _ -> Diff "malformed line")

let () =
  (* WXL: an extension deciding from the header's Length: what it saw is the frame that left, RSV2 iff odd length *)
  register "WXL" (fun i o -> match o with
    | [frames; _nseen] ->
      if frames = "-" then Pass false else begin
        let bad = List.exists (fun t -> match String.split_on_char ':' t with
          | [seen; rsv; len] ->
            let len = int_of_string len and rsv = int_of_string rsv in
            int_of_string seen <> len || (rsv land 2 <> 0) <> (len mod 2 = 1) || rsv land 5 <> 0
          | _ -> true) (String.split_on_char ',' frames) in
        if bad then Viol "an extension deciding from the header it is shown did not see the frame that left (Length differs), or its reserved bit was lost / set on the wrong frame"
        else Pass true
      end
    | _ -> Diff "malformed line");
  (* FRF: decompression reader reused after a message read with io.ReadFull of its known length *)
  register "FRF" (fun i o -> match o with
    | [reused; fresh; freshok] ->
      if freshok <> "1" then Diff "a fresh decompression reader does not recover the second message"
      else if reused = "shortfirst" then Diff "the first message was not read completely"
      else if reused <> fresh then Viol "decompression reader reused through Reset after a message read with io.ReadFull of its length differs from a fresh one"
      else Pass true
    | _ -> Diff "malformed line");
  (* RDT: a one-shot transport error in the middle of the stream: reported, or nothing is lost *)
  register "RDT" (fun i o -> match i, o with
    | [_; _; k; api], [sawerr; msgs; cls] ->
      if cls <> "ok" then Viol ("reading over a transport that reports an error once: " ^ cls)
      (* the error arrives WITH data and the transport goes on delivering, so no byte is missing: a read that completes a
         fixed-size hop may legitimately drop the error (io.ReadFull does). What must not happen is silent loss: either the
         error is reported, or every message of the stream is delivered *)
      else if sawerr <> "1" && msgs <> "2" then Viol (Printf.sprintf "the transport reported an error once after %s bytes and went on delivering: %s neither reported it nor delivered both messages (%s delivered)" k api msgs)
      else Pass true
    | _ -> Diff "malformed line")

let () =
  (* C19K: control frames with payloads handled concurrently by sessions of both roles *)
  register "C19K" (fun i o -> match o with
    | [wrong; races] ->
      if int_of_string races > 0 then Viol (Printf.sprintf "the race detector reported %s data race(s) between sessions handling control frames with payloads (or writing client messages) at the same time" races)
      else if wrong <> "0" then Viol (wrong ^ " control replies were wrong while other sessions handled control frames at the same time")
      else Pass true
    | _ -> Diff "malformed line")
