(* C17: poison-and-recheck observations against the extracted heap+pool machine.
   Viol: what a result reads as changed after recycling (or a fault in the sanitize build),
   a caller's slice changed, or destination bytes depend on the caller's later scribble.
   Diff: monitor fine but the extracted model predicts other bytes / the transcribed path is
   not accepted by the discipline checker. *)
open Base
open Ownership
open BinNums

let hexlist (s : string) : coq_N list list =
  if s = "-" then [] else List.map (fun t -> if t = "." then [] else bytes_of_hex t) (String.split_on_char ',' s)

let items_of (s : string) : item list =
  if s = "-" then [] else
  List.map (fun t -> match String.split_on_char ':' t with
    | ["x"; h] -> ILit (bytes_of_hex h)
    | [o; n] -> ICopy (nat_of_int (int_of_string o), nat_of_int (int_of_string n))
    | _ -> failwith "piece") (String.split_on_char ',' s)

let rec drop_last = function [] -> [] | [_] -> [] | x :: r -> x :: drop_last r
let nat_len l = nat_of_int (List.length l)
let poison = n_of_int 0xAA
let rec ceil2 n k = if k >= n then k else ceil2 n (2 * k)

(* model: run the path, then let another session recycle 4 buffers of the class and poison them *)
let experiment prog size = poison_experiment prog (nat_of_int 4) (nat_of_int size) poison

let check_stable ~san ~status ~before ~after ~(model : (coq_N list list * coq_N list list) Lazy.t) ~prog nontriv =
  if status = "fault" then Viol "fault while re-reading a result after the pools were recycled (pool_sanitize)"
  else if status <> "ok" then Diff ("operation failed in the harness: " ^ status)
  else if not (c17_stable_monitor before after) then Viol "a returned value reads differently after the library's pooled buffers were recycled"
  else if not (disciplined prog) then Diff "transcribed path is rejected by the discipline checker"
  else begin
    let (mb, ma) = Lazy.force model in
    ignore san;
    if not (bytes_list_eqb mb before) then Diff "model predicts other result bytes"
    else if not (bytes_list_eqb ma after) then Diff "model predicts other bytes after recycling"
    else Pass nontriv
  end

let () =
  register "C17R" (fun i o -> match i, o with
    (* handshakes *)
    | [path; _protos; _exts; _pick; _bs; _pad; san; buf; loc], [before; after; status]
      when path = "upg_proto" || path = "upg_ext" || path = "upg_negotiate" || path = "httpupg" || path = "dial" ->
      if status = "err" then Diff "handshake failed in the harness" else
      let buf = bytes_of_hex buf and items = items_of loc in
      let before = hexlist before and after = hexlist after in
      let prog, strip = match path with
        | "httpupg" -> path_httpupgrade buf items, (fun l -> l)
        | "dial" -> path_dial [] buf items, (fun l -> match l with _ :: r -> r | [] -> [])
        | _ -> path_upgrade buf items [], drop_last in
      let model = lazy (let (b, a) = experiment prog (max 8 (ceil2 (List.length buf) 128)) in (strip b, strip a)) in
      check_stable ~san ~status ~before ~after ~model ~prog (List.exists (fun b -> b <> []) before)
    (* close reasons *)
    | [path; _client; payload; san], [before; after; status] when path = "close" || path = "closedata" ->
      if status = "err" then Diff "close handling failed in the harness" else
      let payload = bytes_of_hex payload in
      let prog = path_handle_close payload in
      let model = lazy (let (b, a) = experiment prog 128 in
                        ((match b with x :: _ -> [x] | [] -> []), (match a with x :: _ -> [x] | [] -> []))) in
      check_stable ~san ~status ~before:(hexlist before) ~after:(hexlist after) ~model ~prog (List.length payload > 2)
    (* message payloads *)
    | [path; _client; payload; _frags; san], [before; after; status] when path = "readmsg" || path = "readdata" ->
      if status = "err" then Diff "read failed in the harness" else
      let payload = bytes_of_hex payload in
      let prog = path_read_message payload in
      let model = lazy (experiment prog (max 8 (ceil2 (List.length payload) 128))) in
      check_stable ~san ~status ~before:(hexlist before) ~after:(hexlist after) ~model ~prog (payload <> [])
    | _ -> Diff "malformed line");

  (* positive control: the documented-unsafe parser on a pooled slice MUST be seen to change
     (or fault) — otherwise the poisoning does not reach the pool and the run proves nothing *)
  register "C17X" (fun i o -> match i, o with
    | [san; payload], [before; after; status] ->
      let payload = bytes_of_hex payload in
      let n = List.length payload in
      let pooled = n > 64 && n <= 65536 in
      let before = hexlist before and after = hexlist after in
      let prog = path_close_unsafe payload in
      if disciplined prog then Diff "the unsafe variant is accepted by the discipline checker"
      else if san = "1" then
        (if status = "fault" || not pooled then Pass true else Diff "pool_sanitize build: stale view did not fault")
      else if status <> "ok" then Diff ("control failed: " ^ status)
      else begin
        let (mb, ma) = experiment prog (ceil2 n 128) in
        if not (bytes_list_eqb mb before) then Diff "control: model predicts other bytes before"
        else if pooled && not (bytes_list_eqb ma after) then Diff "control: recycling did not reach the pooled slice (poisoning ineffective)"
        else if (not pooled) && not (bytes_list_eqb before after) then Diff "control: unpooled slice changed"
        else Pass true
      end
    | _ -> Diff "malformed line");

  register "C17W" (fun i o -> match i, o with
    | [path; client; p; junk], [caller_after; hdrlen; key; mid; final; status] ->
      let p = bytes_of_hex p and caller_after = bytes_of_hex caller_after in
      let key = bytes_of_hex key and mid = bytes_of_hex mid and final = bytes_of_hex final in
      let hdrlen = int_of_string hdrlen and client = (client = "1") in
      let rec take k l = if k = 0 then [] else match l with [] -> [] | x :: r -> x :: take (k-1) r in
      let hdr = take hdrlen final in
      let buffered = (path = "writer" || path = "getwriter") in
      let junkb = List.map (fun _ -> n_of_int (int_of_string junk)) p in
      let prog = match path with
        | "cipher" -> path_cipher_writer p key
        | "writer" | "getwriter" -> path_writer_write_flush p junkb hdr key client
        | _ -> if client then path_write_client p hdr key else path_write_server p hdr in
      if status = "fault" then Viol "fault in a write path (pool_sanitize)"
      else if status <> "ok" then Diff ("write failed in the harness: " ^ status)
      else if caller_after <> p then Viol "the caller's slice was modified by a write API documented as non-mutating"
      else if (not buffered) && mid <> final then Viol "bytes already handed to the destination changed when the caller reused its slice"
      else if not (disciplined prog) then Diff "transcribed write path is rejected by the discipline checker"
      else (match solo_transcript prog with
        | None -> Diff "model run failed"
        | Some tr ->
          if List.concat tr <> final then
            (if buffered then Viol "destination bytes are not those of the slice at the time of Write (caller's later scribble leaked or wrong bytes)"
             else Diff "model predicts other destination bytes")
          else Pass (p <> []))
    | _ -> Diff "malformed line");

  register "C17M" (fun i o -> match i, o with
    | [_fn; p; key], [caller_after; before; after; status] ->
      let p = bytes_of_hex p and key = bytes_of_hex key in
      let caller_after = bytes_of_hex caller_after and before = bytes_of_hex before and after = bytes_of_hex after in
      let prog = path_mask_frame p key in
      if status <> "ok" then Viol ("fault in a copying mask helper: " ^ status)
      else if caller_after <> p then Viol "a copying mask helper modified the caller's payload"
      else if before <> after then Viol "the returned frame's payload changed when the caller reused its slice (aliasing)"
      else if not (disciplined prog) then Diff "transcribed helper is rejected by the discipline checker"
      else (match solo_transcript prog with
        | Some [x] when x = before -> Pass (p <> [])
        | _ -> Diff "model predicts other payload bytes")
    | _ -> Diff "malformed line")
