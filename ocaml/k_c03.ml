(* C03 kinds *)
open Base
open Check

let rule_of_name = function
  | "none" -> Some None
  | "ReservedOp" -> Some (Some ReservedOp) | "ControlTooLong" -> Some (Some ControlTooLong)
  | "ControlNotFinal" -> Some (Some ControlNotFinal) | "RsvWithoutExt" -> Some (Some RsvWithoutExt)
  | "MaskRequired" -> Some (Some MaskRequired) | "MaskUnexpected" -> Some (Some MaskUnexpected)
  | "ContinuationExpected" -> Some (Some ContinuationExpected)
  | "ContinuationUnexpected" -> Some (Some ContinuationUnexpected)
  | _ -> None
let cerr_of_name = function
  | "none" -> Some None | "NotInUse" -> Some (Some NotInUse) | "AppLevel" -> Some (Some AppLevel)
  | "NoMeaning" -> Some (Some NoMeaning) | "Unknown" -> Some (Some Unknown)
  | "BadUtf8" -> Some (Some BadUtf8) | _ -> None

let () =
  register "C03H" (fun i o -> match i, o with
    | [fin; rsv; op; m; l; st], [e] ->
      let h = { h_fin = bool_of_tok fin; h_rsv = n_of_int (int_of_string rsv);
                h_op = n_of_int (int_of_string op); h_masked = bool_of_tok m;
                h_mask = []; h_len = z_of_i64_string l } in
      let s = n_of_int (int_of_string st) in
      (match rule_of_name e with
       | None -> Viol ("unclassified error " ^ e)
       | Some v ->
         add_coq_case (fun () -> Printf.sprintf "Bool.eqb (c03_header_monitor (mkHeader %s %s %s %s [] %s) %s %s) %s"
           (cq_bool h.h_fin) (cq_n h.h_rsv) (cq_n h.h_op) (cq_bool h.h_masked) (cq_z h.h_len) (cq_n s)
           (match v with None -> "None" | Some r -> "(Some " ^ e ^ ")") (cq_bool (c03_header_monitor h s v)));
         if not (c03_header_monitor h s v) then Viol "verdict contradicts the rule set"
         else if check_header h s <> v then Diff "model reports a different (also broken) rule"
         else Pass (broken h s <> []))
    | _ -> Diff "malformed line");
  register "C03C" (fun i o -> match i, o with
    | [code; r], [e] ->
      let c = n_of_int (int_of_string code) and r = bytes_of_hex r in
      (match cerr_of_name e with
       | None -> Viol ("unclassified error " ^ e)
       | Some v ->
         add_coq_case (fun () -> Printf.sprintf "Bool.eqb (c03_close_monitor %s %s %s) %s" (cq_n c) (cq_bytes r)
           (cq_bool (v = None)) (cq_bool (c03_close_monitor c r (v = None))));
         if not (c03_close_monitor c r (v = None)) then Viol "close verdict contradicts accept/refuse sets"
         else if check_close c r <> v then Diff "model reports a different error"
         else Pass true)
    | _ -> Diff "malformed line");
  register "C03B" (fun i o -> match i, o with
    | [code; r], [body; pc; pr; agree] ->
      let c = n_of_int (int_of_string code) and r = bytes_of_hex r in
      let body = bytes_of_hex body and pc = n_of_int (int_of_string pc) and pr = bytes_of_hex pr in
      if not (c03_body_monitor c r body pc pr) then Viol "close body size/round-trip"
      else if agree <> "1" then Viol "ParseCloseFrameData and ...Unsafe disagree"
      else if new_close_body c r <> body then Diff "model body differs"
      else Pass (List.length r > 0)
    | _ -> Diff "malformed line");
  (* C03K: "Close bodies built by the library ... parse back to the same code": the precompiled frames *)
  register "C03K" (fun i o -> match i, o with
    | [name; code], (hfin :: hrsv :: hop :: hmasked :: _hmask :: hlen :: rest) when List.length rest = 3 ->
      (match rest with
       | [pc; pr; total] ->
         let code = int_of_string code in
         if hfin <> "1" || hrsv <> "0" || hop <> "8" || hmasked <> "0" then Viol ("precompiled close frame " ^ name ^ " is not a final unmasked close frame")
         else if int_of_string total <> 2 + int_of_string hlen then Viol ("precompiled close frame " ^ name ^ " has bytes beyond its frame")
         else if int_of_string pc <> code then Viol (Printf.sprintf "precompiled close frame %s carries code %s, not %d" name pc code)
         else if code = 0 && hlen <> "0" then Viol "the empty precompiled close frame has a payload"
         else if check_close (n_of_int code) (bytes_of_hex pr) <> None && code <> 0 && code <> 1004 && code <> 1015 then Viol ("precompiled close frame " ^ name ^ " would be refused by the close-payload check")
         else Pass true
       | _ -> Diff "malformed line")
    | [name; op], [b] ->
      let want = (match name with "Ping" -> "8900" | _ -> "8a00") in
      if b <> want then Viol ("precompiled " ^ name ^ " frame is not the empty unmasked " ^ name ^ " frame (opcode " ^ op ^ ")") else Pass true
    | [name; _], ("bad" :: _) -> Viol ("precompiled close frame " ^ name ^ " does not parse as a frame")
    | _ -> Diff "malformed line");
  register "C03P" (fun i o -> match i, o with
    | [_], [_; _; "panic"] -> Viol "close-payload parser panicked"
    | [p], [pc; pr; agree] ->
      let p = bytes_of_hex p in
      let (mc, mr) = parse_close p in
      let pc = n_of_int (int_of_string pc) and pr = bytes_of_hex pr in
      if List.length p < 2 && not (pc = BinNums.N0 && pr = []) then Viol "short payload must parse as no code"
      else if agree <> "1" then Viol "ParseCloseFrameData and ...Unsafe disagree"
      else if (mc, mr) <> (pc, pr) then
        (if List.length p >= 2 then Viol "parse of code/reason wrong" else Diff "model parse differs")
      else Pass true
    | _ -> Diff "malformed line");
  register "C03O" (fun i o -> match i, o with
    | [op], [c; d; r] ->
      let opi = int_of_string op in
      let op = n_of_int opi in
      let ok = tok_of_bool (op_is_control op) = c && tok_of_bool (op_is_data op) = d
               && tok_of_bool (op_is_reserved op) = r in
      if ok then Pass true
      else if opi < 16 then Viol "opcode predicate wrong on a 4-bit opcode" else Diff "opcode predicate differs (op>=16)"
    | _ -> Diff "malformed line");
  register "C03S" (fun i o -> match i, o with
    | [code], [a; b; c; d; e; f; g] ->
      let cn = n_of_int (int_of_string code) in
      let ok = tok_of_bool (sc_not_used cn) = a && tok_of_bool (sc_application_spec cn) = b
        && tok_of_bool (sc_private_spec cn) = c && tok_of_bool (sc_protocol_spec cn) = d
        && tok_of_bool (sc_protocol_defined cn) = e && tok_of_bool (sc_protocol_reserved cn) = f
        && tok_of_bool (cn = BinNums.N0) = g in
      if ok then Pass true else Viol "status-code predicate differs from its set definition"
    | _ -> Diff "malformed line");
  (* validation of the UTF-8 SPEC against Go's unicode/utf8 *)
  register "U8" (fun i o -> match i, o with
    | [p], [v] ->
      if tok_of_bool (Utf8Spec.valid_utf8 (bytes_of_hex p)) = v then Pass (String.length p > 2)
      else Diff "Coq valid_utf8 (Table 3-7) disagrees with Go unicode/utf8"
    | _ -> Diff "malformed line")
