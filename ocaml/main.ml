(* Reads observation lines on stdin, dispatches to handlers, prints
   VIOL/DIFF lines and a final STATS JSON line. *)
open Base

type kstat = { mutable n : int; mutable nontriv : (int, unit) Hashtbl.t; mutable samples : string list;
               mutable viol : int; mutable diff : int }

let () =
  let stats : (string, kstat) Hashtbl.t = Hashtbl.create 16 in
  let maxrep = 50 in
  let nrep = ref 0 in
  (* reported lines are capped per distinct message (and DIFF separately from VIOL), so that one
     frequent message cannot hide another kind of failure *)
  let permsg : (string, int) Hashtbl.t = Hashtbl.create 16 in
  let report tag msg line =
    let k = tag ^ msg in
    let c = (match Hashtbl.find_opt permsg k with Some c -> c | None -> 0) + 1 in
    Hashtbl.replace permsg k c;
    if c <= 5 && !nrep < 4 * maxrep then (incr nrep; Printf.printf "%s\t%s\t%s\n" tag msg line) in
  (try
    while true do
      let line = input_line stdin in
      if String.length line > 0 && line.[0] <> '#' then begin
        let toks = List.filter (fun s -> s <> "") (String.split_on_char ' ' line) in
        match toks with
        | [] -> ()
        | kind :: rest ->
          let st = match Hashtbl.find_opt stats kind with
            | Some s -> s
            | None -> let s = { n = 0; nontriv = Hashtbl.create 1024; samples = []; viol = 0; diff = 0 } in
              Hashtbl.add stats kind s; s in
          st.n <- st.n + 1;
          let (i, o) = split_arrow rest in
          let v = match Hashtbl.find_opt handlers kind with
            | None -> Diff "no handler for kind"
            | Some f -> (try f i o with e -> Diff ("checker exception: " ^ Printexc.to_string e)) in
          (match v with
           | Pass nt ->
             if nt then begin
               Hashtbl.replace st.nontriv (Hashtbl.hash line) ();
               if List.length st.samples < 3 || (st.n mod 997 = 0 && List.length st.samples < 6) then
                 st.samples <- (if String.length line > 300 then String.sub line 0 300 ^ "..." else line) :: st.samples
             end
           | Viol msg -> st.viol <- st.viol + 1;
             report "VIOL" msg line
           | Diff msg -> st.diff <- st.diff + 1;
             report "DIFF" msg line)
      end
    done
  with End_of_file -> ());
  let esc s = String.concat "\\\"" (String.split_on_char '"' (String.concat "\\\\" (String.split_on_char '\\' s))) in
  let items = Hashtbl.fold (fun k s acc ->
    Printf.sprintf "\"%s\":{\"n\":%d,\"nontrivial\":%d,\"viol\":%d,\"diff\":%d,\"samples\":[%s]}"
      k s.n (Hashtbl.length s.nontriv) s.viol s.diff
      (String.concat "," (List.map (fun x -> "\"" ^ esc x ^ "\"") (List.rev s.samples))) :: acc) stats [] in
  Printf.printf "STATS {%s}\n" (String.concat "," (List.sort compare items));
  write_coq_cases ()
