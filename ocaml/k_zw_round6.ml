(* kinds added after the sixth round of seeded changes (harness/zw_round6.go) *)
open Base

let () =
  (* DBUW <wbuf> <DBU line>: DebugUpgrader with an Upgrader writing through a small buffer; judged as DBU *)
  register "DBUW" (fun i o -> match i with
    | _wbuf :: rest -> (Hashtbl.find handlers "DBU") rest o
    | _ -> Diff "malformed line")

(* HHW: the caller's extra headers through every adapter type.  Expected header block E: the configured text verbatim
   for the string / bytes / func adapters; for the http.Header adapter the fields sorted by key (byte order, keys as
   assigned), every value of a field on its own line in the configured order ("Key: value CRLF").  E must be what
   WriteTo writes, the dialer's request must end with E CRLF, the upgrader's 101 must end with E CRLF and its error
   response must contain E (C09 "with the caller's extra headers", C10 "the configured ... extra headers"). *)
let () =
  let str_of_hex h = String.concat "" (List.map (fun b -> String.make 1 (Char.chr (int_of_n b))) (bytes_of_hex h)) in
  let contains s sub =
    let n = String.length s and m = String.length sub in
    let rec go i = i + m <= n && (String.sub s i m = sub || go (i + 1)) in
    m = 0 || go 0 in
  let ends_with s sub =
    let n = String.length s and m = String.length sub in n >= m && String.sub s (n - m) m = sub in
  let split_crlf s =
    let rec go acc i j =
      if j + 1 >= String.length s then List.rev (if i < String.length s then String.sub s i (String.length s - i) :: acc else acc)
      else if s.[j] = '\r' && s.[j+1] = '\n' then go (String.sub s i (j - i) :: acc) (j + 2) (j + 2)
      else go acc i (j + 1) in
    go [] 0 0 in
  register "HHW" (fun i o -> match i, o with
    | [adapter; text], [direct; req; ok101; errresp] ->
      let text = if text = "-" then "" else str_of_hex text in
      let hx s = if s = "-" then "" else str_of_hex s in
      let expected =
        if adapter <> "http" then text
        else begin
          let fields = List.filter_map (fun l ->
            let n = String.length l in
            let rec find k = if k + 1 >= n then None else if l.[k] = ':' && l.[k+1] = ' ' then Some k else find (k + 1) in
            match find 0 with Some k when k > 0 -> Some (String.sub l 0 k, String.sub l (k + 2) (n - k - 2)) | _ -> None) (split_crlf text) in
          let keys = List.sort_uniq compare (List.map fst fields) in
          String.concat "" (List.concat_map (fun k ->
            List.filter_map (fun (k', v) -> if k' = k then Some (k ^ ": " ^ v ^ "\r\n") else None) fields) keys)
        end in
      if hx direct <> expected then Viol ("extra headers: the " ^ adapter ^ " adapter does not write the configured fields (every value of every field)")
      else if not (ends_with (hx req) (expected ^ "\r\n")) then Viol ("the dialer's request does not carry the configured extra headers (" ^ adapter ^ " adapter)")
      else if not (ends_with (hx ok101) (expected ^ "\r\n")) then Viol ("the upgrader's 101 does not carry the caller's extra headers (" ^ adapter ^ " adapter)")
      else if not (contains (hx errresp) expected) then Viol ("the upgrader's error response does not carry the caller's extra headers (" ^ adapter ^ " adapter)")
      else Pass true
    | _ -> Diff "malformed line")

(* C19N: a complete other pair of sessions run inside one callback of session A (deterministic interleaving at a
   callback point): A and the inner sessions must see exactly what they see alone *)
let () =
  register "C19N" (fun i o -> match i, o with
    | [side; hook; sel], [same; solo; _nested; bok] ->
      if solo = "panic" then Viol "handshake panicked"
      else if same <> "1" then Viol (Printf.sprintf "a %s-side handshake whose %s callback ran other complete sessions in between did not return the results / write the bytes it does alone (selectors: %s)" side hook sel)
      else if bok <> "1" then Viol (Printf.sprintf "a session run inside the %s callback of another (%s side) did not see the result it sees alone" hook side)
      else Pass (hook <> "none")
    | _ -> Diff "malformed line")

(* C19IO: other sessions' pool traffic run inside every Read / Write of session A's transport (deterministic
   interleaving at the I/O points, after a prelude through the library's error paths): A must send / return what it
   does alone *)
let () =
  register "C19IO" (fun i o -> match i, o with
    | [op; side; n], [same; solo; _nested] ->
      if solo = "panic" then Viol ("panic in " ^ op)
      else if same <> "1" then Viol (Printf.sprintf "%s (side %s, %s bytes): with other sessions using the shared pools during its I/O the session did not send / return what it does alone" op side n)
      else Pass true
    | _ -> Diff "malformed line")
