(* C19: stress-run summaries (transcript equality with the solo run, race-detector reports) and,
   for sessions with small payloads, a run of the extracted N-session heap+pool machine under a
   pseudo-random schedule: each session's model transcript must be its solo transcript
   (theorem C19_noninterference, evaluated on the instance), no two sessions' next steps may
   touch the same buffer (C19_no_conflict), and the reader's transcript must be what the Go
   server received in the concurrent run. *)
open Base
open Ownership
open BinNums

let hexlist (s : string) : coq_N list list =
  if s = "-" then [] else List.map (fun t -> if t = "." then [] else bytes_of_hex t) (String.split_on_char ',' s)

let rec int_of_nat = function Datatypes.O -> 0 | Datatypes.S n -> 1 + int_of_nat n

(* interleave nsess sessions step by step under an LCG schedule; a Get takes the pool's head or a
   fresh buffer at random.  Returns the final state, or an error text. *)
let run_model (progs : op list array) (seed : int) : (gstate, string) result =
  let nsess = Array.length progs in
  let st = ref (ginit (fun i -> let k = int_of_nat i in if k < nsess then progs.(k) else [])) in
  let rng = ref (seed * 2 + 1) in
  let next () = rng := (!rng * 1103515245 + 12345) land 0x3fffffff; !rng lsr 8 in
  let err = ref None in
  let alive () = List.filter (fun i -> (!st).g_sess (nat_of_int i) |> fun s -> s.s_code <> []) (List.init nsess (fun i -> i)) in
  let steps = ref 0 in
  while !err = None && alive () <> [] && !steps < 100000 do
    incr steps;
    let a = alive () in
    (* data-race freedom at buffer granularity, on every visited state *)
    List.iter (fun i -> List.iter (fun j ->
      if i < j then
        let ai = access !st (nat_of_int i) and aj = access !st (nat_of_int j) in
        if List.exists (fun l -> List.mem l aj) ai then err := Some "two sessions' next steps touch the same buffer") a) a;
    let i = List.nth a (next () mod List.length a) in
    let choice = match (!st).g_free with
      | l :: _ when next () mod 2 = 0 -> Some l
      | _ -> None in
    (match step !st (nat_of_int i, choice) with
     | Some s' -> st := s'
     | None -> (match step !st (nat_of_int i, None) with
                | Some s' -> st := s'
                | None -> err := Some "model step refused"))
  done;
  match !err with Some e -> Error e | None -> Ok !st

let () =
  register "C19" (fun i o -> match i, o with
    | [_n; _procs; _seed; race], [_ok; mism; races; status; first] ->
      if status <> "ok" then Diff ("scenario failed in the harness: " ^ status)
      else if int_of_string races > 0 then Viol (Printf.sprintf "the race detector reported %s data race(s) during the concurrent run" races)
      else if int_of_string mism > 0 then Viol (Printf.sprintf "%s session(s) observed a transcript different from the one the same script produces alone (first: %s)" mism first)
      else if race <> "1" then Diff "the harness was not built with -race"
      else Pass true
    | _ -> Diff "malformed line");

  (* the run only counts if a deliberate race in the harness is seen by the detector *)
  register "C19X" (fun i o -> match i, o with
    | [race], [n] ->
      if race <> "1" then Diff "the harness was not built with -race"
      else if int_of_string n < 1 then Diff "race-detector control: a deliberate data race was not reported (log plumbing broken)"
      else Pass true
    | _ -> Diff "malformed line");

  register "C19M" (fun i o -> match i, o with
    | [seed; msgs], [received] ->
      let msgs = hexlist msgs and received = hexlist received in
      let key = List.map n_of_int [1; 2; 3; 4] in
      let writer = List.concat_map (fun m -> path_write_client m [] key) msgs in
      let reader = List.concat (List.mapi (fun k m -> path_read_message_at (nat_of_int k) m) msgs) in
      let other = poison_prog (nat_of_int 3) (nat_of_int 64) (n_of_int 0xAA) in
      let progs = [| writer; reader; other; reader |] in
      if not (bytes_list_eqb msgs received) then Viol "the server received other payloads in the concurrent run than the client sent"
      else if not (Array.for_all disciplined progs) then Diff "a transcribed session program is rejected by the discipline checker"
      else (match run_model progs (int_of_string seed) with
        | Error e -> Diff ("model: " ^ e)
        | Ok st ->
          let tr k = transcript st (nat_of_int k) in
          let solo k = match solo_transcript progs.(k) with Some t -> t | None -> [[n_of_int 999]] in
          if not (List.for_all (fun k -> bytes_list_eqb (tr k) (solo k)) [0; 1; 2; 3]) then
            Diff "model: an interleaved session's transcript differs from its solo transcript"
          else if not (bytes_list_eqb (tr 1) received) then Diff "model reader's transcript differs from what the Go server received"
          else Pass (msgs <> []))
    | _ -> Diff "malformed line")
