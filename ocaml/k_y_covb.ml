(* Coverage-driven kinds, handshake side (harness/zy_cov_b.go).  Monitors only: the Coq models have no
   ProtocolCustom / ExtensionCustom / OnStatusError / non-hijacker fields, so these kinds are judged against
   the property text alone (Viol), except where an existing handler (and its model) can be re-used. *)
open Base
open BinNums
open K_c09
open HsMonitor

(* ---- kinds judged by an existing handler: drop the leading variant token (it only tells the replayer how
   the configuration was built: Timeout set, nil Header map, ws.SelectFromSlice / ws.SelectEqual as the selector,
   a callback returning one of the library's own error values, package-level ws.Dial) ---- *)
let delegate kind target drop =
  register kind (fun i o ->
    let rec dropn n l = if n = 0 then l else match l with [] -> [] | _ :: r -> dropn (n-1) r in
    match Hashtbl.find_opt handlers target with
    | Some f -> f (dropn drop i) o
    | None -> Diff ("no handler " ^ target))
let () =
  delegate "H9X" "H09" 1;     (* C09, all clauses, for HTTPUpgrader configurations H09 cannot encode *)
  delegate "U9X" "U09" 1;     (* C09, all clauses, for Upgrader configurations U09 cannot encode *)
  delegate "DDW" "DD10" 0     (* C10 "ws/wss URLs are dialed at the URL's host and port with defaults 80/443" for ws.Dial *)

let dec_calls s = List.map (fun e -> match String.split_on_char ':' e with
    | [a; r; ok] -> (unhxi a, r, ok = "1")
    | _ -> failwith "call") (split_list s)
let is_io cls = String.length cls >= 3 && String.sub cls 0 3 = "io:"

(* what the statement says about the request itself (U09's reading), for requests delivered completely *)
let builtin_of flat = let v = c09_view_of flat in (v.v9_builtin, v.v9_headers)

let stext_std : coq_N -> coq_N list = fun c -> bytes_of_string (match int_of_n c with
    | 400 -> "Bad Request" | 405 -> "Method Not Allowed" | 426 -> "Upgrade Required"
    | 500 -> "Internal Server Error" | 505 -> "HTTP Version Not Supported" | _ -> "")

(* the frame shared by UPC and UXC: C09 "success exactly when … and no user callback objected", "On failure no 101
   is ever written; … an HTTP error response is written instead … with the caller's extra headers and the error
   text as a correctly sized body" *)
let judge_custom ~flat ~cls ~out ~hdr ~any_bad ~(on_ok : (coq_N list * coq_N list) list -> string option) =
  let (builtin, hs) = builtin_of flat in
  if cls = "panic" then Viol "panic"
  else if cls = "ok" then begin
    if builtin = JMustFail then Viol "success although the request is not compliant"
    else if any_bad then Viol "success although the custom header parser reported the header as malformed"
    else match on_ok hs with
      | Some m when String.length m > 0 && m.[0] = '~' -> Diff (String.sub m 1 (String.length m - 1))   (* documented behaviour, not property text *)
      | Some m -> Viol m
      | None -> Pass true
  end else begin
    if builtin = JMustSucceed && not any_bad then Viol "compliant request without objecting callback is refused"
    else if is_io cls then Viol "I/O error reported although the head is complete"
    else match check_failure ~out ~cls ~must_respond:true ~stext:stext_std ~cfg_hdr:hdr ~allowed_codes:[400; 405; 505; 426] with
      | Some m -> Viol m
      | None -> Pass true
  end

let () =
  (* UPC — C09 "The subprotocol returned and sent is the first one in the client's order that the selector
     accepts": with ProtocolCustom the selector is the custom function, so returned = sent = the first non-empty
     answer it gave; an answer with ok=false is an objection (error response, no 101). *)
  register "UPC" (fun i o -> match i, o with
    | [_mode; _both; _rbuf; chunks; hdr], [cls; hproto; out; nsel; calls] ->
      let flat = List.concat (dec_chunks chunks) and hdr = bytes_of_hex hdr in
      let out = bytes_of_hex out and hproto = bytes_of_hex hproto in
      let calls = dec_calls calls in
      let any_bad = List.exists (fun (_, _, ok) -> not ok) calls in
      let expected = match List.filter (fun (_, r, _) -> r <> "_") calls with (_, r, _) :: _ -> unhxi r | [] -> [] in
      judge_custom ~flat ~cls ~out ~hdr ~any_bad ~on_ok:(fun hs ->
        if hproto <> expected then Some "subprotocol returned is not the one ProtocolCustom selected first"
        else if hdr_values "Sec-WebSocket-Protocol" hs <> [] && calls = [] then Some "ProtocolCustom is set but was not consulted"
        else if nsel <> "0" then Some "~Protocol consulted although ProtocolCustom is set (documented: used instead of Protocol)"
        else check_101 ~out ~keys:(hdr_values "Sec-WebSocket-Key" hs) ~proto:hproto ~expect_proto:None ~extra:[hdr])
    | _ -> Diff "malformed line");

  (* UXC — C09 "returned extensions come only from the client's offer" and the 101 response lists what is returned:
     with ExtensionCustom the returned list is the slice the custom function handed back last; ok=false is an
     objection. *)
  register "UXC" (fun i o -> match i, o with
    | [_mode; _both; _rbuf; chunks; hdr], [cls; hexts; out; nsel; calls] ->
      let flat = List.concat (dec_chunks chunks) and hdr = bytes_of_hex hdr in
      let out = bytes_of_hex out in
      let calls = dec_calls calls in
      let any_bad = List.exists (fun (_, _, ok) -> not ok) calls in
      let expected = match List.rev calls with (_, r, _) :: _ -> r | [] -> "-" in
      judge_custom ~flat ~cls ~out ~hdr ~any_bad ~on_ok:(fun hs ->
        let offered_vals = hdr_values "Sec-WebSocket-Extensions" hs in
        let offered = List.map sp_option_list offered_vals in
        let exts = dec_opts hexts in
        let pairs = List.map (fun (x : HsHttpHead.hopt) -> (x.HsHttpHead.o_name, x.HsHttpHead.o_params)) exts in
        let tokenish = List.for_all (fun (n, ps) -> sp_token n && List.for_all (fun (k, v) -> sp_token k && (v = [] || sp_token v)) ps) pairs in
        if hexts <> expected then Some "extensions returned are not those ExtensionCustom handed back"
        else if offered_vals <> [] && calls = [] then Some "ExtensionCustom is set but was not consulted"
        else if nsel <> "0" then Some "~Extension consulted although ExtensionCustom is set (documented: used instead of Extension)"
        else if List.for_all (fun x -> x <> None) offered
             && not (List.for_all (fun (n, _) -> List.exists (function Some l -> List.exists (fun (m, _) -> m = n) l | None -> false) offered) pairs)
        then Some "returned extensions do not come from the client's offer"
        else match check_101 ~out ~keys:(hdr_values "Sec-WebSocket-Key" hs) ~proto:[] ~expect_proto:None ~extra:[hdr] with
          | Some m -> Some m
          | None ->
            (match sp_parse_head out with
             | None -> Some "no response head"
             | Some h ->
               let xv = hdr_values "Sec-WebSocket-Extensions" h.sh_headers in
               if exts = [] then (if xv = [] then None else Some "101 lists extensions although none is returned")
               else if not tokenish then None
               else (match xv with
                   | [v] when sp_option_list v = Some pairs -> None
                   | _ -> Some "101 does not list exactly the returned extensions")))
    | _ -> Diff "malformed line");

  (* HNH — C09 "On failure no 101 is ever written; … an HTTP error response is written instead - … the rejecting
     callback's chosen status (500 for a plain error) … with … the error text as a correctly sized body", for a
     ResponseWriter that cannot be hijacked: there is no connection, so the upgrade cannot succeed and the error
     response goes through the ResponseWriter. *)
  register "HNH" (fun i o -> match i, o with
    | [_w; _r], [cls; errstatus; errtext; codes; clen; body; connnil] ->
      let want = (match int_of_string errstatus with 0 -> 500 | c -> c) in
      if cls = "panic" then Viol "panic"
      else if cls = "ok" then Viol "success although the connection could not be taken over"
      else if is_io cls then Viol "I/O error reported without any I/O"
      else (match ints_of_tok codes with
          | [] -> Viol "no HTTP error response written"
          | [101] -> Viol "failure but a 101 response was written"
          | [c] when c <> want -> Viol "status of the error response differs from the error returned"
          | [_] ->
            if body <> errtext then Viol "body of the error response is not the error text"
            else if string_of_bytes (bytes_of_hex clen) <> string_of_int (List.length (bytes_of_hex body)) then Viol "error response body is not correctly sized (Content-Length)"
            else if connnil <> "1" then Diff "a connection is returned although hijacking failed"
            else Pass true
          | _ -> Viol "more than one status written")
    | _ -> Diff "malformed line");

  (* SEL — the documented selector constructors (C09 "the selector accepts"): SelectFromSlice accepts exactly the
     members of the slice, SelectEqual exactly the given string. *)
  register "SEL" (fun i o -> match i, o with
    | [kind; set; probe], [r] ->
      let set = (match dec_set set with Some s -> s | None -> []) and probe = bytes_of_hex probe in
      let want = if kind = "se" then (match set with v :: _ -> v = probe | [] -> false) else List.mem probe set in
      if tok_of_bool want <> r then Viol "selector constructor does not accept exactly the configured names" else Pass true
    | _ -> Diff "malformed line");

  (* OSE — C10 "The dialer reports success exactly when … a status code that is literally 101": setting OnStatusError
     changes nothing about the outcome (same error class, same handshake data and leftover on success); for a
     status error the callback runs exactly once with that status, the reason text of the status line, and a
     reader yielding the response bytes in order: status line, line end, everything after. *)
  register "OSE" (fun i o -> match i, o with
    | [_rbuf; _tail; _template; _sizes; readmode], [chunks; cls0; hs0; left0; cls1; hs1; left1; ncalls; status; reason; got] ->
      let flat = List.concat (dec_chunks chunks) in
      let got = bytes_of_hex got and reason = bytes_of_hex reason in
      if cls0 = "panic" || cls1 = "panic" then Viol "panic"
      else if cls0 <> cls1 then Viol "OnStatusError changes the outcome"
      else if cls1 = "ok" && (hs0 <> hs1 || left0 <> left1) then Viol "OnStatusError changes the handshake data or the bytes left readable"
      else if cls1 = "ok" then (if ncalls <> "0" then Viol "OnStatusError called for a 101 response" else Pass false)
      else if String.length cls1 > 7 && String.sub cls1 0 7 = "status:" then begin
        let code = String.sub cls1 7 (String.length cls1 - 7) in
        if ncalls <> "1" then Viol "OnStatusError not called exactly once for a status error"
        else if status <> code then Viol "OnStatusError receives a status other than the one reported"
        else match HsBufio.raw_lines flat with
          | (l :: rest, rem) ->
            let line = HsBufio.cut_eol l in
            let after = List.concat rest @ rem in
            let want_reason = (match sp_split (byte_tab.(32)) line with
                | _ :: _ :: r :: rs -> List.concat (r :: List.map (fun x -> byte_tab.(32) :: x) rs)
                | _ -> []) in
            let full = line @ bytes_of_string "\r\n" @ after in
            let cut l = match readmode with
              | "all" -> l
              | "none" -> []
              | m -> let k = int_of_string (String.sub m 1 (String.length m - 1)) in
                List.filteri (fun j _ -> j < k) l in
            (* a bare-LF status line may be handed over either as sent or with the line end normalised *)
            let expect = cut full and alt = cut flat in
            if reason <> want_reason then Viol "OnStatusError receives a reason other than the status line's"
            else if got <> expect && got <> alt then Viol "OnStatusError's reader does not yield the response bytes, once and in order"
            else Pass true
          | _ -> Viol "status error without a status line"
      end
      else Pass false   (* other failures: the statement does not say whether the callback runs *)
    | _ -> Diff "malformed line");

  (* DN10 — C10 "ws/wss URLs are dialed at the URL's host and port" with no NetDial configured: the listener at the
     URL's address gets exactly one connection carrying the compliant request; its valid 101 is accepted and the
     bytes after the head stay readable. *)
  register "DN10" (fun i o -> match i, o with
    | _, ["nolisten"] -> Pass false
    | [_api; _path; protos; trailing], [naccept; host; uri; nonce; req; cls; left] ->
      let protocols = List.map unhxi (split_list protos) in
      if cls = "panic" then Viol "panic"
      else if naccept <> "1" then Viol "the URL's host:port was not dialed exactly once"
      else (match K_c10.check_request ~req:(bytes_of_hex req) ~uri:(bytes_of_hex uri) ~host:(bytes_of_hex host)
                    ~nonce:(bytes_of_hex nonce) ~protocols ~exts:[] ~hdr:[] with
          | Some m -> Viol m
          | None ->
            if cls <> "ok" then Viol "valid 101 response refused"
            else if left <> trailing then Viol "bytes after the response head are not all readable, once and in order"
            else Pass true)
    | _ -> Diff "malformed line");

  (* DF10 — C10 "reports success exactly when …": no connection, no response, hence no success.  That the TLS
     client is not started on a missing connection and that nil is returned is the transcription (Diff). *)
  register "DF10" (fun i o -> match i, o with
    | [_scheme], [cls; dials; tlscalls; connnil] ->
      if cls = "panic" then Viol "panic"
      else if cls = "ok" then Viol "success although the connection could not be established"
      else if dials <> "1" then Diff "not dialed exactly once"
      else if tlscalls <> "0" then Diff "TLS client started although the dial failed"
      else if connnil <> "1" then Diff "a connection is returned although the dial failed"
      else if cls <> "dialerr" then Diff "the dial error is not returned as it is"
      else Pass true
    | _ -> Diff "malformed line")
