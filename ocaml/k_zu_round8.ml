(* kinds added after the eighth round of seeded changes (harness/zu_round8.go) *)
open Base

let () =
  (* C12WT: a destination that refuses exactly one write and then works again *)
  register "C12WT" (fun i o -> match i, o with
    | [_comp; _k; _ops], [res; refused; z] ->
      let all_ok = List.for_all (fun r -> match String.split_on_char ':' r with [_; "1"] -> true | _ -> false) (String.split_on_char ',' res) in
      if refused = "1" && all_ok then Viol "the destination refused a write, yet every Write / Flush / Close reported success (the message went out with a hole in it)"
      else if z = "0" then Viol "python zlib does not inflate destination++tail to the written message after a Flush/Close that reported success"
      else Pass (refused = "1")
    | _ -> Diff "malformed line")

let () =
  (* C14A: the answer of Negotiate does not live in the offer's memory *)
  register "C14A" (fun i o -> match o with
    | [_; before; after] ->
      if before <> after then Viol "the answer of Negotiate changed when the memory of the client's offer was reused (it aliases the request)"
      else Pass (before <> "-")
    | _ -> Diff "malformed line")

let () =
  (* C19F: the first use of the library in a fresh process, made concurrently by several sessions *)
  register "C19F" (fun i o -> match i, o with
    | [_; race], [n; ok] ->
      if ok <> "1" then Viol "a fresh process whose first sessions start concurrently crashed or hung"
      else if int_of_string n > 0 then Viol (Printf.sprintf "the race detector reported %s data race(s) between the FIRST sessions of a fresh process (lazily initialised shared state)" n)
      else Pass (race = "true" || race = "1")
    | _ -> Diff "malformed line")

let () =
  (* CHC: a control frame whose payload did not arrive completely: nothing is written for it, an error is reported *)
  register "CHC" (fun i o -> match i, o with
    | [_side; op; _payload; _key; entry; _k; _tail], [log; res] ->
      let wrote = List.exists (fun x -> x <> []) (bytes_list_of_tok log) in
      if wrote then Viol (Printf.sprintf "a reply was written for a control frame (opcode %s, entry %s) whose payload did not arrive completely" op entry)
      else if res = "nil" || (String.length res >= 6 && String.sub res 0 6 = "closed") then
        Viol "a control frame whose payload did not arrive completely was handled as if it were complete"
      else if res = "panic" then Viol "control handler panicked on a cut payload"
      else Pass true
    | _ -> Diff "malformed line")

let () =
  (* RDE: a reader that goes on after an invalid text message (Discard) judges every later message as a new reader would *)
  register "RDE" (fun i o -> match o with
    | [got; want; final] ->
      if got <> want then Viol "a reader that went on after an invalid text message (Discard) did not judge the messages as a new reader would (verdict per message differs from the definition of UTF-8)"
      else if final <> "eof" then Viol ("the stream of RDE did not end cleanly: " ^ final)
      else Pass true
    | _ -> Diff "malformed line")

let () =
  (* C20H: the context ends while the request (long extra header, several writes) is being written to a peer that does not read *)
  register "C20H" (fun i o -> match i, o with
    | [_; _; mode], [out; cls; at] ->
      if out = "hang" then Viol "Dial was still writing its request to a silent peer 3 s after the context had ended"
      else if cls = "nil" then Viol "Dial reported success against a peer that never read the request"
      else if (mode = "ctxdl" && cls <> "deadline") || ((mode = "cancel" || mode = "done") && cls <> "canceled") then
        Viol "the context ended while the request was being written, yet the error is not the context's error"
      else if at <> "1" then Viol "non-nil error but the conn was not closed when Dial returned"
      else Pass true
    | _ -> Diff "malformed line")

let () =
  (* H09B: the HTTP upgraders when the hijacked reader already holds client bytes; judged as H09 *)
  register "H09B" (fun i o -> (Hashtbl.find handlers "H09") i o)

let () =
  (* C12U: a compressed message whose source is cut and says so must end in an error at every cut offset *)
  register "C12U" (fun i o -> match i, o with
    | [_; k; _], [iserr; n] ->
      if iserr <> "1" then Viol (Printf.sprintf "a compressed message cut after %s bytes (source reporting io.ErrUnexpectedEOF) was read without error (%s bytes delivered as if complete)" k n)
      else Pass true
    | _ -> Diff "malformed line")

let () =
  (* C16D: the response is cut by a timeout-type error of the transport while the dial context is still alive *)
  register "C16D" (fun i o -> match i, o with
    | [kind; k], [iserr; cls] ->
      if cls = "hang" || cls = "panic" then Viol ("Dial over a transport that fails inside the response: " ^ cls)
      else if iserr <> "1" then Viol (Printf.sprintf "Dial reported success although the transport failed (timeout-type error) after %s bytes of the response (context: %s, still alive)" k kind)
      else Pass true
    | _ -> Diff "malformed line")
