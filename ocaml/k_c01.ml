(* C01 kinds *)
open Base
open Check
open Frame
open Stream0

let hdr_of_toks = function
  | fin :: rsv :: op :: m :: mask :: l :: rest ->
    ({ h_fin = bool_of_tok fin; h_rsv = n_of_int (int_of_string rsv); h_op = n_of_int (int_of_string op);
       h_masked = bool_of_tok m; h_mask = bytes_of_hex mask; h_len = z_of_i64_string l }, rest)
  | _ -> failwith "header tokens"

let mk_src data spec tail =
  { chunks = (match chunks_of_spec ~trailing:(tail <> "eofdata" && tail <> "faildata") spec data with Some cs -> cs | None -> chunk_by (sizes_of_spec spec (List.length data)) data);
    tl = (if tail = "fail" || tail = "faildata" then TFail else TEOF) }

let cls_of_model = function
  | Datatypes.Coq_inr _ -> "ok"
  | Datatypes.Coq_inl (HIo EEOF) -> "eof"
  | Datatypes.Coq_inl (HIo EUnexpected) -> "unexpected"
  | Datatypes.Coq_inl (HIo EFail) -> "fail"
  | Datatypes.Coq_inl HMsb -> "msb"
  | Datatypes.Coq_inl HLenUnexpected -> "lenunexpected"

let cls_num = function
  | "ok" -> 0 | "eof" | "unexpected" | "fail" -> 1 | "msb" -> 2 | _ -> 3

let () =
  register "C01E" (fun i o ->
    let (h, _) = hdr_of_toks i in
    match o with
    | [out; ncalls; size; e] ->
      let out = bytes_of_hex out in
      add_coq_case (fun () -> Printf.sprintf "Bool.eqb (c01_enc_monitor (mkHeader %s %s %s %s %s %s) %s %s) %s"
        (cq_bool h.h_fin) (cq_n h.h_rsv) (cq_n h.h_op) (cq_bool h.h_masked) (cq_bytes h.h_mask) (cq_z h.h_len)
        (cq_bytes out) (cq_z (z_of_int (int_of_string size))) (cq_bool (c01_enc_monitor h out (z_of_int (int_of_string size)))));
      if not (wf_headerb h) then Diff "generator produced a header outside the domain"
      else if e <> "ok" then Viol "encoder refused a header of the domain"
      else if not (c01_enc_monitor h out (z_of_int (int_of_string size))) then Viol "encoded bytes or reported size differ from the RFC layout"
      else if ncalls <> "1" then Diff "WriteHeader used more than one Write call"
      else (match write_header h with
        | Datatypes.Coq_inr b when b = out && int_of_z (header_size h) = int_of_string size -> Pass true
        | _ -> Diff "model encoder differs")
    | _ -> Diff "malformed line");
  register "C01D" (fun i o -> match i with
    | [data; spec; tail] ->
      let data = bytes_of_hex data in
      (match o with
       | c1 :: rest ->
         let (h1, rest) = hdr_of_toks rest in
         (match rest with
          | n1 :: c2 :: rest ->
            let (h2, rest) = hdr_of_toks rest in
            let n2 = List.hd rest in
            let n1i = int_of_string n1 in
            if not (c01_dec_monitor data (n_of_int (cls_num c1)) h1 (n_of_int n1i)) then
              Viol "ReadHeader disagrees with the RFC layout (fields, consumption or error class)"
            else if cls_num c1 <> cls_num c2 || (c1 = "ok" && (not (header_eqb h1 h2) || n1 <> n2)) then
              Viol "the two header decoders disagree"
            else begin
              let s = mk_src data spec tail in
              let (r, s') = read_header s in
              let (r2, s2') = reader_read_header s in
              let consumed x = List.length data - List.length (flat x) in
              let same_err = if tail = "fail" && cls_num c1 = 1 then c1 = "fail" else true in
              if cls_of_model r <> c1 || cls_of_model r2 <> c2 then Diff "model outcome class differs"
              else if (match r with Datatypes.Coq_inr h -> not (header_eqb h h1) || consumed s' <> n1i | _ -> false)
              then Diff "model header/consumption differs"
              else if (match r2 with Datatypes.Coq_inr h -> not (header_eqb h h2) || consumed s2' <> int_of_string n2 | _ -> false)
              then Diff "model (reader copy) header/consumption differs"
              else if not same_err then Diff "failing transport not reported as its error"
              else Pass (List.length data >= 2)
            end
          | _ -> Diff "malformed line")
       | _ -> Diff "malformed line")
    | _ -> Diff "malformed line");
  register "C01F" (fun i o ->
    let (h, rest) = hdr_of_toks i in
    match rest, o with
    | [payload; trailing; spec], (writes :: comp :: okw :: okc :: okmust :: "|" :: rc :: r2) ->
      let payload = bytes_of_hex payload and trailing = bytes_of_hex trailing in
      let comp = bytes_of_hex comp and writes = bytes_list_of_tok writes in
      let (rh, r3) = hdr_of_toks r2 in
      (match r3 with
       | [rp; consumed] ->
         let rp = bytes_of_hex rp in
         let f = { f_header = h; f_payload = payload } in
         let expect = rfc_header h @ payload in
         if okw <> "1" || okc <> "1" then Viol "WriteFrame/CompileFrame failed on a valid frame"
         else if comp <> expect || List.concat writes <> expect then Viol "frame bytes are not header codec ++ payload"
         else if okmust <> "1" then Viol "MustCompileFrame differs from CompileFrame"
         else if rc <> "ok" || not (header_eqb rh (norm_header h)) || rp <> payload
                 || int_of_string consumed <> List.length expect then
           Viol "ReadFrame of the written frame does not return the same frame / consumes beyond it"
         else begin
           let s = mk_src (comp @ trailing) spec "eof" in
           match write_frame f, compile_frame f, read_frame s with
           | Datatypes.Coq_inr ws, Datatypes.Coq_inr cb, (Datatypes.Coq_inr g, s') ->
             if List.filter (fun x -> x <> []) ws <> List.filter (fun x -> x <> []) writes || cb <> comp then Diff "model write_frame differs"
             else if not (header_eqb g.f_header rh) || g.f_payload <> rp || flat s' <> trailing then Diff "model read_frame differs"
             else Pass (payload <> [])
           | _ -> Diff "model fails on this frame"
         end
       | _ -> Diff "malformed line")
    | _ -> Diff "malformed line");
  register "C01G" (fun i o -> match i with
    | [data; spec; tail] ->
      let data = bytes_of_hex data in
      (match o with
       | rc :: rest ->
         let (rh, r3) = hdr_of_toks rest in
         (match r3 with
          | [rp; consumed] ->
            let rp = bytes_of_hex rp in
            let s = mk_src data spec tail in
            let (r, s') = read_frame s in
            (* monitor: complete header and enough payload <-> success with exactly Length bytes *)
            let verdict = match rfc_parse data with
              | PComplete (h, r0) ->
                let l = int_of_z h.h_len in
                if List.length r0 >= l then
                  rc = "ok" && header_eqb rh h && List.length rp = l
                  && int_of_string consumed = List.length data - (List.length r0 - l)
                else cls_num rc = 1
              | PIncomplete -> cls_num rc = 1
              | PMsb -> rc = "msb" in
            if not verdict then Viol "ReadFrame is not header codec + exactly Length payload bytes"
            else if cls_of_model r <> rc then Diff "model read_frame outcome differs"
            else (match r with
              | Datatypes.Coq_inr g when g.f_payload <> rp || List.length data - List.length (flat s') <> int_of_string consumed ->
                Diff "model read_frame payload/consumption differs"
              | _ -> Pass (List.length data > 2))
          | _ -> Diff "malformed line")
       | _ -> Diff "malformed line")
    | _ -> Diff "malformed line")
