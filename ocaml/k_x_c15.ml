(* C15 kinds: FZ (in-process) and FZX (child process): entry point on hostile bytes *)
open Base

let () =
  let h = (fun i o -> match i, o with
    | [entry; data], [cls; detail; over; nev] ->
      if cls = "panic" then Viol ("decoding entry point panicked: " ^ detail)
      else if cls = "crash" then Viol ("decoding entry point crashed the runtime: " ^ detail)
      else if cls = "hang" then Viol "decoding entry point did not return"
      else if over = "1" then Viol "decoding entry point allocated in proportion to an announced length"
      else if cls <> "ok" && cls <> "err" then Diff "unclassified outcome"
      else begin
        (* frame-level entry points: the reader model must end the same way *)
        let is_rd = String.length entry >= 3 && String.sub entry 0 2 = "rd" in
        if is_rd then begin
          let bytes = bytes_of_hex data in
          let side = int_of_string (String.sub entry 2 1) in
          let c = { Reader.c_state = n_of_int side; c_check_utf8 = true;
                    c_max = (if String.length entry = 4 then z_of_int 1000 else BinNums.Z0); c_ext = false } in
          let m = K_reader.drive_model (c, false, true) bytes "-" "eof" "512" 8 in
          let me = K_reader.string_of_rerror m.Reader.dr_err in
          if me = "toolarge" && detail <> "toolarge" then
            Viol "a frame announcing more than MaxFrameSize was not refused (or not before its payload was read)"
          else if me <> detail then Diff ("model reader ends with " ^ me)
          else if List.length m.Reader.dr_events <> int_of_string nev then Diff "model reader event count differs"
          else Pass (List.length bytes > 2)
        end else Pass (String.length data > 4)
      end
    | _ -> Diff "malformed line") in
  register "FZ" h; register "FZX" h
