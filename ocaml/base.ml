(* Glue between observation lines and the extracted Coq model: conversions,
   registry of per-kind handlers, statistics.  Trusted (hand-written). *)
open BinNums

let rec pos_of_int (i : int) : positive =
  if i = 1 then Coq_xH
  else if i land 1 = 0 then Coq_xO (pos_of_int (i lsr 1))
  else Coq_xI (pos_of_int (i lsr 1))
let n_of_int (i : int) : coq_N = if i = 0 then N0 else Npos (pos_of_int i)
let rec int_of_pos = function
  | Coq_xH -> 1 | Coq_xO p -> 2 * int_of_pos p | Coq_xI p -> 2 * int_of_pos p + 1
let int_of_n = function N0 -> 0 | Npos p -> int_of_pos p
let z_of_int (i : int) : coq_Z =
  if i = 0 then Z0 else if i > 0 then Zpos (pos_of_int i) else Zneg (pos_of_int (-i))
let int_of_z = function Z0 -> 0 | Zpos p -> int_of_pos p | Zneg p -> - (int_of_pos p)

(* 64-bit values, given as decimal strings (signed or unsigned) *)
let rec pos_of_int64u (i : int64) : positive =
  if Int64.equal i 1L then Coq_xH
  else
    let h = Int64.shift_right_logical i 1 in
    if Int64.equal (Int64.logand i 1L) 0L then Coq_xO (pos_of_int64u h) else Coq_xI (pos_of_int64u h)
let n_of_u64_string (s : string) : coq_N =
  let i = Int64.of_string ("0u" ^ s) in
  if Int64.equal i 0L then N0 else Npos (pos_of_int64u i)
let z_of_i64_string (s : string) : coq_Z =
  let i = Int64.of_string s in
  if Int64.equal i 0L then Z0
  else if Int64.compare i 0L > 0 then Zpos (pos_of_int64u i)
  else Zneg (pos_of_int64u (Int64.neg i)) (* min_int: neg wraps, bit pattern 2^63 is right unsigned *)
let string_of_n (n : coq_N) : string =
  (* values up to 2^64-1 *)
  let rec go p = match p with
    | Coq_xH -> 1L | Coq_xO p -> Int64.mul 2L (go p) | Coq_xI p -> Int64.add (Int64.mul 2L (go p)) 1L in
  match n with N0 -> "0" | Npos p -> Printf.sprintf "%Lu" (go p)

let byte_tab : coq_N array = Array.init 256 n_of_int
let hexval c = match c with
  | '0'..'9' -> Char.code c - 48 | 'a'..'f' -> Char.code c - 87 | 'A'..'F' -> Char.code c - 55
  | _ -> failwith "hex"
let bytes_of_hex (s : string) : coq_N list =
  if s = "-" then [] else begin
    let n = String.length s / 2 in
    let rec go i acc = if i < 0 then acc
      else go (i-1) (byte_tab.(hexval s.[2*i] * 16 + hexval s.[2*i+1]) :: acc) in
    go (n-1) []
  end
let hex_of_bytes (l : coq_N list) : string =
  if l = [] then "-" else begin
    let b = Buffer.create 64 in
    List.iter (fun x -> Buffer.add_string b (Printf.sprintf "%02x" (int_of_n x))) l;
    Buffer.contents b
  end
let bool_of_tok s = (s = "1")
let tok_of_bool b = if b then "1" else "0"

(* comma-separated lists; "-" = empty *)
let split_list (s : string) : string list = if s = "-" then [] else String.split_on_char ',' s
let ints_of_tok s = List.map int_of_string (split_list s)
let rec nat_of_int (i : int) : Datatypes.nat = if i <= 0 then Datatypes.O else Datatypes.S (nat_of_int (i-1))

(* verdicts *)
type verdict =
  | Pass of bool          (* property monitor holds and model agrees; flag = non-trivial case *)
  | Viol of string        (* the Go observation violates the property itself *)
  | Diff of string        (* monitor passes but model and implementation differ *)

(* handler: inputs (tokens before "->") and outputs (after) *)
let handlers : (string, string list -> string list -> verdict) Hashtbl.t = Hashtbl.create 64
let register kind f = Hashtbl.replace handlers kind f

let split_arrow (toks : string list) : string list * string list =
  let rec go acc = function
    | [] -> (List.rev acc, [])
    | "->" :: r -> (List.rev acc, r)
    | t :: r -> go (t :: acc) r in
  go [] toks

(* ---- streams ---- *)
let bytes_list_of_tok (s : string) : coq_N list list =
  if s = "-" then [] else List.map (fun x -> if x = "" || x = "_" then [] else bytes_of_hex x) (String.split_on_char ',' s)

(* chunk spec: "-" whole | "r<k>" repeat | "a,b,c"; an optional prefix "<dress>/" says which concrete Go reader
   type stood between the chunked transport and the library (B<size> = *bufio.Reader, BR = *bytes.Reader, BB =
   *bytes.Buffer ...): the models do not see it - what they compute is proved independent of the chunking - so the
   prefix is dropped here *)
let undress (spec : string) : string =
  match String.index_opt spec '/' with
  | Some i -> String.sub spec (i + 1) (String.length spec - i - 1)
  | None -> spec
let sizes_of_spec (spec : string) (n : int) : coq_N list =
  let spec = undress spec in
  if spec = "-" then []
  else if spec.[0] = 'r' then begin
    let k = max 1 (int_of_string (String.sub spec 1 (String.length spec - 1))) in
    List.init (n / k + 1) (fun _ -> n_of_int k)
  end else
    (* "z" = an empty read (0, nil) of the Go-side transport: the same bytes arrive, the model's chunk list skips it *)
    List.map (fun x -> n_of_int (max 1 (int_of_string x))) (List.filter (fun x -> x <> "z") (String.split_on_char ',' spec))

(* a spec with "z" entries: the chunk list itself, with an EMPTY chunk for every empty read the Go-side
   transport answers (the models' read1 returns ([], None) on an empty chunk, like (0, nil)) *)
(* [trailing]: the "z" entries still listed when the data is exhausted are idle reads between the last byte and
   the end of the stream (one empty chunk each); false for a transport that returns its last bytes TOGETHER with
   the final error ("eofdata"/"faildata"): nothing is read after that *)
let chunks_of_spec ?(trailing = true) (spec : string) (data : 'a list) : 'a list list option =
  let spec = undress spec in
  if spec = "-" || spec.[0] = 'r' || not (List.mem "z" (String.split_on_char ',' spec)) then None
  else begin
    let rec take k l = if k <= 0 then [] else match l with [] -> [] | x :: r -> x :: take (k-1) r in
    let rec drop k l = if k <= 0 then l else match l with [] -> [] | _ :: r -> drop (k-1) r in
    let rec go toks data = match data with
      | [] -> if trailing then List.filter_map (fun t -> if t = "z" then Some [] else None) toks else []
      | _ -> (match toks with
          | [] -> [data]
          | "z" :: r -> [] :: go r data
          | t :: r -> let k = max 1 (int_of_string t) in take k data :: go r (drop k data)) in
    Some (go (String.split_on_char ',' spec) data)
  end

(* ---- in-kernel replay (thorough tier): a sample of cases is written out as Coq boolean
   expressions over the same model/monitor functions; the driver evaluates them with
   vm_compute to cross-check extraction against the kernel's evaluator ---- *)
let coq_cases : string list ref = ref []
let coq_case_count = ref 0
let coq_case_limit = 400
let coq_case_stride = ref 0
let add_coq_case (mk : unit -> string) =
  incr coq_case_stride;
  if !coq_case_count < coq_case_limit && (!coq_case_stride mod 37 = 1) then begin
    incr coq_case_count; coq_cases := mk () :: !coq_cases
  end
let cq_n (n : coq_N) = "(" ^ string_of_n n ^ ")%N"
let cq_z (z : coq_Z) = match z with
  | Z0 -> "0%Z" | Zpos p -> "(" ^ string_of_n (Npos p) ^ ")%Z" | Zneg p -> "(-" ^ string_of_n (Npos p) ^ ")%Z"
let cq_bool b = if b then "true" else "false"
let cq_bytes (l : coq_N list) = "[" ^ String.concat "; " (List.map (fun x -> string_of_int (int_of_n x)) l) ^ "]%N"
let write_coq_cases () =
  match Sys.getenv_opt "VERIF_COQCASES" with
  | Some path when !coq_cases <> [] ->
    let oc = open_out path in
    List.iter (fun c -> output_string oc (c ^ "\n")) (List.rev !coq_cases);
    close_out oc
  | _ -> ()
