(* C09 kinds (server handshake) and helpers shared by the handshake properties C09-C11. *)
open Base
open BinNums

(* ---------- shared helpers ---------- *)
let bytes_of_string (s : string) : coq_N list =
  List.init (String.length s) (fun i -> byte_tab.(Char.code s.[i]))
let string_of_bytes (l : coq_N list) : string =
  let b = Buffer.create 64 in
  List.iter (fun x -> Buffer.add_char b (Char.chr (int_of_n x land 255))) l; Buffer.contents b
let unhxi s = if s = "_" || s = "-" || s = "" then [] else bytes_of_hex s
let hxi l = if l = [] then "_" else hex_of_bytes l
let coq_string (s : string) : String0.string =
  let asc c = let b i = (Char.code c lsr i) land 1 = 1 in
    Ascii.Ascii (b 0, b 1, b 2, b 3, b 4, b 5, b 6, b 7) in
  let rec go i = if i >= String.length s then String0.EmptyString else String0.String (asc s.[i], go (i+1)) in
  go 0
let dec_chunks s = List.map unhxi (split_list s)
let tail_of = function "fail" -> HsBufio.TFail | _ -> HsBufio.TEof
let reader_of chunks tail = { HsBufio.r_pending = []; r_chunks = chunks; r_tail = tail }

let dec_rej s : HsHttp.rej =
  match String.split_on_char '/' s with
  | [c; h; r] -> { HsHttp.rj_code = (if c = "p" then N0 else n_of_int (int_of_string c));
                   rj_header = unhxi h; rj_reason = unhxi r }
  | _ -> failwith "rej"
let split_first c s = let i = String.index s c in (String.sub s 0 i, String.sub s (i+1) (String.length s - i - 1))
let dec_table s : (coq_N list * HsHttp.rej) list =
  List.map (fun e -> let (k, r) = split_first '=' e in (unhxi k, dec_rej r)) (split_list s)
let lookup_table t key = List.assoc_opt key t
let dec_set s : coq_N list list option =
  if s = "n" then None
  else if s = "s:" then Some []
  else Some (List.map unhxi (String.split_on_char ',' (String.sub s 2 (String.length s - 2))))
let dec_opt s : HsHttpHead.hopt =
  match String.split_on_char ';' s with
  | n :: ps -> { HsHttpHead.o_name = unhxi n;
                 o_params = List.map (fun kv -> let (k, v) = split_first '=' kv in (unhxi k, unhxi v)) ps }
  | [] -> failwith "opt"
let dec_opts s = if s = "-" then [] else List.map dec_opt (String.split_on_char '|' s)
let enc_opt (o : HsHttpHead.hopt) =
  String.concat ";" (hxi o.HsHttpHead.o_name :: List.map (fun (k, v) -> hxi k ^ "=" ^ hxi v) o.HsHttpHead.o_params)
let enc_opts l = if l = [] then "-" else String.concat "|" (List.map enc_opt l)

type neg_action = NDecline | NEcho | NAnswer of HsHttpHead.hopt | NReject of HsHttp.rej
let dec_neg s : (coq_N list * neg_action) list option =
  if s = "n" then None
  else if s = "t:" then Some []
  else Some (List.map (fun e ->
    let (n, a) = split_first ':' e in
    let act = match a.[0] with
      | 'd' -> NDecline | 'e' -> NEcho
      | 'a' -> NAnswer (dec_opt (String.sub a 2 (String.length a - 2)))
      | 'r' -> NReject (dec_rej (String.sub a 2 (String.length a - 2)))
      | _ -> failwith "neg" in
    (unhxi n, act)) (String.split_on_char ',' (String.sub s 2 (String.length s - 2))))
let neg_fun tbl (o : HsHttpHead.hopt) : HsHttp.neg_res =
  match List.assoc_opt o.HsHttpHead.o_name tbl with
  | Some NEcho -> HsHttp.NegOk o
  | Some (NAnswer a) -> HsHttp.NegOk a
  | Some (NReject r) -> HsHttp.NegErr r
  | Some NDecline | None -> HsHttp.NegOk { HsHttpHead.o_name = []; o_params = [] }
let dec_stext s : coq_N -> coq_N list =
  let t = List.map (fun e -> let (c, x) = split_first ':' e in (int_of_string c, unhxi x)) (split_list s) in
  fun c -> match List.assoc_opt (int_of_n c) t with Some x -> x | None -> []
let n_eq a b = (a : coq_N) = b
let starts_with (p : coq_N list) (l : coq_N list) =
  let rec go p l = match p, l with [], _ -> true | x :: p', y :: l' -> x = y && go p' l' | _ -> false in go p l
let rec is_infix p l = starts_with p l || (match l with [] -> false | _ :: r -> is_infix p r)
let class_of_uerr = function
  | None -> "ok"
  | Some (HsUpgrader.EIO HsBufio.TEof) -> "io:eof"
  | Some (HsUpgrader.EIO HsBufio.TFail) -> "io:fail"
  | Some HsUpgrader.EReqLine -> "rej:400"
  | Some HsUpgrader.EFuel -> "fuel"
  | Some (HsUpgrader.ERej r) -> "rej:" ^ string_of_int (int_of_n r.HsHttp.rj_code)
let default_server_read_buffer = n_of_int 4096
let string_of_z (z : coq_Z) : string = match z with
  | Z0 -> "0" | Zpos p -> string_of_n (Npos p) | Zneg p -> "-" ^ string_of_n (Npos p)
let max_int_n = n_of_u64_string "9223372036854775807"

(* ---------- C09 monitor pieces ---------- *)
open HsMonitor
let hdr_values name hs = sp_values (coq_string name) hs

(* checks on a successful upgrade's bytes and handshake; returns Some message on violation *)
let check_101 ~(out : coq_N list) ~(keys : coq_N list list) ~(proto : coq_N list)
    ~(expect_proto : coq_N list option) ~(extra : coq_N list list) : string option =
  match sp_parse_head out with
  | None -> Some "success but the bytes written are not a complete response head"
  | Some h ->
    let hv n = hdr_values n h.sh_headers in
    if h.sh_first <> bytes_of_string "HTTP/1.1 101 Switching Protocols" then Some "success but no 101 status line"
    else if h.sh_rest <> [] then Some "bytes after the 101 response head"
    else if hv "Upgrade" <> [bytes_of_string "websocket"] then Some "101 without Upgrade: websocket"
    else if hv "Connection" <> [bytes_of_string "Upgrade"] then Some "101 without Connection: Upgrade"
    else (match hv "Sec-WebSocket-Accept" with
      | [a] when List.exists (fun k -> accept_value k = a) keys ->
        let pv = hv "Sec-WebSocket-Protocol" in
        if (proto = [] && pv <> []) || (proto <> [] && pv <> [proto]) then Some "subprotocol returned and subprotocol sent differ"
        else (match expect_proto with
          | Some p when p <> proto -> Some "subprotocol is not the first one in the client's order that the selector accepts"
          | _ ->
            if List.for_all (fun x -> is_infix x out) extra then None
            else Some "caller's extra headers missing from the 101 response")
      | _ -> Some "Sec-WebSocket-Accept is not base64(SHA-1(key + GUID)) of the key received")

(* checks on the bytes written by a failed upgrade *)
let check_failure ~(out : coq_N list) ~(cls : string) ~(must_respond : bool) ~(stext : coq_N -> coq_N list)
    ~(cfg_hdr : coq_N list) ~(allowed_codes : int list) : string option =
  if HsUpgrader.is_101 out then Some "failure but a 101 response was written"
  else if out = [] then (if must_respond then Some "request line parsed but no HTTP error response written" else None)
  else match sp_parse_error_response out with
    | None -> Some "bytes written on failure are not a well-formed error response with a correctly sized body"
    | Some e ->
      let code = int_of_n e.er_code in
      let want = (try let c = int_of_string (String.sub cls 4 (String.length cls - 4)) in if c = 0 then 500 else c
                  with _ -> -1) in
      if String.length cls < 4 || String.sub cls 0 4 <> "rej:" then Some "error response written although an I/O error is reported"
      else if code <> want then Some "status of the error response differs from the error returned"
      else if not (List.mem code allowed_codes) then Some "status is neither 400/405/505/426 nor a callback's choice"
      else if e.er_text <> stext e.er_code @ [byte_tab.(32)] then Some "status text"
      else if not (starts_with cfg_hdr e.er_extra) then Some "caller's extra headers missing from the error response"
      else if code = 426 && not (is_infix (bytes_of_string "Sec-WebSocket-Version: 13\r\n") e.er_extra)
        && List.length (List.filter (fun c -> c = 426) allowed_codes) = 1   (* no callback chose 426 itself *)
      then Some "426 without Sec-WebSocket-Version: 13"
      else None

let rej_code (r : HsHttp.rej) = let c = int_of_n r.HsHttp.rj_code in if c = 0 then 500 else c

let () =
  register "U09" (fun i o -> match i, o with
    | [api; rbuf; _wbuf; tail; chunks; hdr; proto; ext; neg; onreq; onhost; onhdr; before; stext; _tag],
      [cls; hproto; hexts; out] ->
      let chunks = dec_chunks chunks and tail = tail_of tail in
      let flat = List.concat chunks in
      let hdr = bytes_of_hex hdr and proto = dec_set proto and ext = dec_set ext and neg = dec_neg neg in
      let onreq = dec_table onreq and onhost = dec_table onhost and onhdr = dec_table onhdr in
      let before = if before = "n" then None
        else if before.[0] = 'r' then Some (Datatypes.Coq_inr (dec_rej (String.sub before 2 (String.length before - 2))))
        else Some (Datatypes.Coq_inl (unhxi (String.sub before 2 (String.length before - 2)))) in
      let stext = dec_stext stext in
      let out = bytes_of_hex out and hproto = bytes_of_hex hproto in
      let _ = api in
      (* ---- monitor: the property read on the raw request ---- *)
      let v = c09_view_of flat in
      let hs = v.v9_headers in
      let rejs = ref [] in
      let objects =
        v.v9_structure_ok &&
        ((match lookup_table onreq v.v9_uri with Some r -> rejs := r :: !rejs; true | None -> false)
         || List.exists (fun h -> match lookup_table onhost h with Some r -> rejs := r :: !rejs; true | None -> false)
              (hdr_values "Host" hs)
         || List.exists (fun (n, _) -> not (sp_known_header n) &&
              List.exists (fun (k, r) -> if sp_eq_nocase k n then (rejs := r :: !rejs; true) else false) onhdr) hs
         || (match before with Some (Datatypes.Coq_inr r) -> rejs := r :: !rejs; true | _ -> false)) in
      let ext_vals = hdr_values "Sec-WebSocket-Extensions" hs in
      let ext_clean = List.map sp_option_list ext_vals in
      let ext_open = (neg <> None || ext <> None) && List.exists (fun x -> x = None) ext_clean in
      let offered = List.concat (List.map (function Some l -> l | None -> []) ext_clean) in
      let neg_rejects = match neg with
        | Some t when not ext_open ->
          List.exists (fun (n, _) -> match List.assoc_opt n t with Some (NReject r) -> rejs := r :: !rejs; true | _ -> false) offered
        | _ -> false in
      let proto_vals = hdr_values "Sec-WebSocket-Protocol" hs in
      let expect_proto = match proto with
        | None -> Some []
        | Some set -> sp_first_accepted (fun t -> List.mem t set) proto_vals in
      let proto_open = (proto <> None && expect_proto = None) in
      let judgement =
        if v.v9_builtin = JMustFail || objects || neg_rejects then JMustFail
        else if v.v9_builtin = JOpen || ext_open || proto_open then JOpen
        else JMustSucceed in
      (* all possible rejection sources, for the admissible status codes *)
      List.iter (fun (_, r) -> rejs := r :: !rejs) (onreq @ onhost @ onhdr);
      (match neg with Some t -> List.iter (function (_, NReject r) -> rejs := r :: !rejs | _ -> ()) t | None -> ());
      let allowed_codes = [400; 405; 505; 426] @ List.map rej_code !rejs in
      let head_complete = sp_parse_head flat <> None in
      let rl_parsed = match HsBufio.raw_lines flat with
        | (l :: _, _) -> (match sp_split (byte_tab.(32)) (HsBufio.cut_eol l) with
            | [_; _; ver] -> (match sp_version ver with Some (_, small) -> small | None -> false)
            | _ -> false)
        | _ -> false in
      let viol =
        if cls = "panic" then Some "panic"
        else if cls = "ok" then begin
          if judgement = JMustFail then Some "success although the request is not compliant or a callback objected"
          else
            let extra = [hdr] @ (match before with Some (Datatypes.Coq_inl h) -> [h] | _ -> []) in
            let exts_ok = match ext, neg with
              | Some set, None when not ext_open ->
                List.for_all (fun (o : HsHttpHead.hopt) ->
                  List.mem o.HsHttpHead.o_name set && List.exists (fun (n, _) -> n = o.HsHttpHead.o_name) offered)
                  (dec_opts hexts)
              | None, None -> hexts = "-"
              | _ -> true in
            if not exts_ok then Some "returned extensions do not come from the client's offer"
            else check_101 ~out ~keys:(hdr_values "Sec-WebSocket-Key" hs) ~proto:hproto
                ~expect_proto:(if proto_open then None else expect_proto) ~extra
        end else begin
          if judgement = JMustSucceed then Some "compliant request without objecting callback is refused"
          else if head_complete && String.length cls >= 3 && String.sub cls 0 3 = "io:" then Some "I/O error reported although the head is complete"
          else check_failure ~out ~cls ~must_respond:(rl_parsed && String.sub cls 0 3 <> "io:") ~stext ~cfg_hdr:hdr ~allowed_codes
        end in
      (match viol with
       | Some m -> Viol m
       | None ->
         (* ---- model ---- *)
         let cfg = { HsUpgrader.uc_header = hdr;
                     uc_protocol = (match proto with Some set -> Some (fun t -> List.mem t set) | None -> None);
                     uc_extension = (match ext with Some set -> Some (fun (o : HsHttpHead.hopt) -> List.mem o.HsHttpHead.o_name set) | None -> None);
                     uc_negotiate = (match neg with Some t -> Some (neg_fun t) | None -> None);
                     uc_on_request = (fun u -> lookup_table onreq u);
                     uc_on_host = (fun h -> lookup_table onhost h);
                     uc_on_header = (fun k _ -> lookup_table onhdr k);
                     uc_on_before_upgrade = before } in
         let b = HsBufio.pool_buf_size (n_of_int (int_of_string rbuf)) default_server_read_buffer in
         let r = HsUpgrader.upgrader stext cfg b (reader_of chunks tail) in
         let mcls = class_of_uerr r.HsUpgrader.u_err in
         if mcls <> cls then Diff ("model outcome " ^ mcls)
         else if r.HsUpgrader.u_out <> out then Diff "model writes different bytes"
         else if cls = "ok" && (r.HsUpgrader.u_hs.HsHttp.hs_protocol <> hproto
                                || enc_opts r.HsUpgrader.u_hs.HsHttp.hs_exts <> hexts) then Diff "model handshake differs"
         else Pass (List.length chunks > 1 || cls <> "ok"))
    | _ -> Diff "malformed line")

(* ---------- H09: HTTPUpgrader on the structured request ---------- *)
let dec_header_map s : (coq_N list * coq_N list list) list =
  List.map (fun e ->
    let (k, vs) = split_first ':' e in
    (unhxi k, if vs = "" then [] else List.map unhxi (String.split_on_char ';' vs))) (split_list s)

let () =
  register "H09" (fun i o -> match i, o with
    | [_api; meth; major; minor; host; hdrs; _cfghdr; proto; ext; neg; hdrbytes; stext; _tag], [cls; hproto; hexts; out] ->
      let meth = bytes_of_hex meth and host = bytes_of_hex host in
      let major = int_of_string major and minor = int_of_string minor in
      let hdrs = dec_header_map hdrs in
      let proto = dec_set proto and ext = dec_set ext and neg = dec_neg neg in
      let hdrbytes = bytes_of_hex hdrbytes and stext = dec_stext stext in
      let out = bytes_of_hex out and hproto = bytes_of_hex hproto in
      let vals k = match List.assoc_opt (bytes_of_string k) hdrs with Some v -> v | None -> [] in
      let padded v = sp_trim v <> v in
      let vd f vs = verdict_all (List.map (fun v -> if padded v then VOpen else f v) vs) in
      let b2v b = if b then VGood else VBad in
      let verdicts = [
        b2v (meth = bytes_of_string "GET"); b2v (major = 1 && minor >= 1); b2v (host <> []);
        vd sp_upgrade_verdict (vals "Upgrade");
        vd (fun v -> sp_has_token v (coq_string "upgrade")) (vals "Connection");
        vd (fun v -> b2v (v = bytes_of_string "13")) (vals "Sec-Websocket-Version");
        vd sp_key_verdict (vals "Sec-Websocket-Key") ] in
      let ext_vals = vals "Sec-Websocket-Extensions" and proto_vals = vals "Sec-Websocket-Protocol" in
      let ext_clean = List.map sp_option_list ext_vals in
      let ext_open = (neg <> None || ext <> None) && List.exists (fun x -> x = None) ext_clean in
      let offered = List.concat (List.map (function Some l -> l | None -> []) ext_clean) in
      let rejs = ref [] in
      let neg_rejects = match neg with
        | Some t when not ext_open ->
          List.exists (fun (n, _) -> match List.assoc_opt n t with Some (NReject r) -> rejs := r :: !rejs; true | _ -> false) offered
        | _ -> false in
      (match neg with Some t -> List.iter (function (_, NReject r) -> rejs := r :: !rejs | _ -> ()) t | None -> ());
      let expect_proto = match proto with
        | None -> Some []
        | Some set -> sp_first_accepted (fun t -> List.mem t set) proto_vals in
      let proto_open = proto <> None && expect_proto = None in
      let judgement =
        if List.mem VBad verdicts || neg_rejects then JMustFail
        else if List.mem VOpen verdicts || ext_open || proto_open then JOpen else JMustSucceed in
      let allowed_codes = [400; 405; 505; 426] @ List.map rej_code !rejs in
      let viol =
        if cls = "panic" then Some "panic"
        else if cls = "ok" then begin
          if judgement = JMustFail then Some "success although the request is not compliant"
          else
            let exts_ok = match ext, neg with
              | Some set, None when not ext_open ->
                List.for_all (fun (o : HsHttpHead.hopt) ->
                  List.mem o.HsHttpHead.o_name set && List.exists (fun (n, _) -> n = o.HsHttpHead.o_name) offered)
                  (dec_opts hexts)
              | None, None -> hexts = "-"
              | _ -> true in
            if not exts_ok then Some "returned extensions do not come from the client's offer"
            else check_101 ~out ~keys:(vals "Sec-Websocket-Key") ~proto:hproto
                ~expect_proto:(if proto_open then None else expect_proto) ~extra:[hdrbytes]
        end else begin
          if judgement = JMustSucceed then Some "compliant request is refused"
          else check_failure ~out ~cls ~must_respond:true ~stext ~cfg_hdr:hdrbytes ~allowed_codes
        end in
      (match viol with
       | Some m -> Viol m
       | None ->
         let cfg = { HsUpgrader.hc_header = hdrbytes;
                     hc_protocol = (match proto with Some set -> Some (fun t -> List.mem t set) | None -> None);
                     hc_extension = (match ext with Some set -> Some (fun (o : HsHttpHead.hopt) -> List.mem o.HsHttpHead.o_name set) | None -> None);
                     hc_negotiate = (match neg with Some t -> Some (neg_fun t) | None -> None) } in
         let q = { HsUpgrader.hq_method = meth; hq_major = z_of_int major; hq_minor = z_of_int minor;
                   hq_host = host; hq_header = hdrs } in
         let r = HsUpgrader.http_upgrader stext cfg q in
         let mcls = class_of_uerr r.HsUpgrader.u_err in
         if mcls <> cls then Diff ("model outcome " ^ mcls)
         else if r.HsUpgrader.u_out <> out then Diff "model writes different bytes"
         else if cls = "ok" && (r.HsUpgrader.u_hs.HsHttp.hs_protocol <> hproto
                                || enc_opts r.HsUpgrader.u_hs.HsHttp.hs_exts <> hexts) then Diff "model handshake differs"
         else Pass true)
    | _ -> Diff "malformed line")

(* ---------- unit kinds ---------- *)
let () =
  (* readLine over bufio over a chunked transport *)
  register "RL" (fun i o -> match i, o with
    | [_b; tail; chunks; n], [size; outs; left] ->
      let chunks = dec_chunks chunks and tail = tail_of tail in
      let flat = List.concat chunks in
      let b = n_of_int (int_of_string size) in
      let n = int_of_string n in
      (* monitor: lines = the flat stream cut at '\n' (minus \r?\n), in order; what is left is the rest *)
      let rec spec k data acc =
        if k = 0 then (List.rev acc, data)
        else match HsBufio.split_nl data with
          | Some (l, rest) -> spec (k-1) rest (("l:" ^ hxi (HsBufio.cut_eol l)) :: acc)
          | None -> (List.rev (("e:" ^ (if tail = HsBufio.TEof then "eof" else "fail") ^ ":" ^ hxi data) :: acc), []) in
      let (souts, sleft) = spec n flat [] in
      let souts = String.concat "," souts in
      if souts <> outs || hex_of_bytes sleft <> left then Viol "readLine result depends on chunking/buffer size (differs from the flat stream's lines)"
      else
        let rec model k r acc =
          if k = 0 then (List.rev acc, HsBufio.flat r)
          else match HsBufio.read_line b r with
            | (HsBufio.LOk l, r') -> model (k-1) r' (("l:" ^ hxi l) :: acc)
            | (HsBufio.LErr (t, p), r') ->
              (List.rev (("e:" ^ (if t = HsBufio.TEof then "eof" else "fail") ^ ":" ^ hxi p) :: acc), HsBufio.flat r')
            | (HsBufio.LFuel, _) -> (["fuel"], []) in
        let (mouts, mleft) = model n (reader_of chunks tail) [] in
        if String.concat "," mouts <> outs || hex_of_bytes mleft <> left then Diff "model readLine differs"
        else Pass (List.length chunks > 1)
    | _ -> Diff "malformed line");
  register "A2I" (fun i o -> match i, o with
    | [b], [r] ->
      let b = bytes_of_hex b in
      let spec = match sp_decimal b with
        | Some v when BinNat.N.leb v max_int_n -> `Val (string_of_n v)
        | Some _ -> `Err       (* not representable: any number returned is a wrong number *)
        | None -> `Err in
      let m = match HsHttp.ascii_to_int b with Some z -> string_of_z z | None -> "err" in
      (match spec with
       | `Val v when r <> v -> Viol "asciiToInt: decimal string not converted to its value"
       | `Err when r <> "err" -> Viol "asciiToInt accepts a string that is not a decimal number"
       | _ -> if m <> r then Diff ("model asciiToInt = " ^ m) else Pass true)
    | _ -> Diff "malformed line");
  register "PV" (fun i o -> match i, o with
    | [b], r ->
      let b = bytes_of_hex b in
      let m = match HsHttp.http_parse_version HsHttp.ascii_to_int b with
        | Some (a, c) -> [string_of_z a; string_of_z c] | None -> ["err"] in
      let spec = sp_version b in
      (match spec, r with
       | None, [_; _] -> Viol "httpParseVersion accepts a token that is not HTTP/digits.digits"
       | Some ((a, c), true), [x; y] when string_of_n a <> x || string_of_n c <> y -> Viol "httpParseVersion: wrong numbers"
       | Some (_, true), ["err"] -> Viol "httpParseVersion refuses a well-formed version"
       | _ -> if m <> r then Diff "model httpParseVersion differs" else Pass true)
    | _ -> Diff "malformed line");
  register "HL" (fun i o -> match i, o with
    | [l], [ok; k; v] ->
      let l = bytes_of_hex l in
      (match HsHttp.http_parse_header_line l with
       | None -> if ok = "0" then Pass true else Diff "model: no colon"
       | Some (mk, mv) ->
         if ok <> "1" || hex_of_bytes mk <> k || hex_of_bytes mv <> v then Diff "model header line differs" else Pass true)
    | _ -> Diff "malformed line");
  register "TOK" (fun i o -> match i, o with
    | [h], [ok; toks; has] ->
      let h = bytes_of_hex h in
      let (mt, mok) = HsHttpHead.token_list h in
      let mtoks = if mt = [] then "-" else String.concat "," (List.map hxi mt) in
      if tok_of_bool mok <> ok || mtoks <> toks then Diff "model ScanTokens differs"
      else if tok_of_bool (HsHttp.bts_has_token h (bytes_of_string "upgrade")) <> has then Diff "model btsHasToken differs"
      else Pass (mt <> [])
    | _ -> Diff "malformed line");
  register "OPT" (fun i o -> match i, o with
    | [h], [ok; opts; written] ->
      let h = bytes_of_hex h in
      let (mo, mok) = HsHttpHead.parse_options h in
      (* a '(' is abstracted (see HsHttpHead.v): the option list next to ok=false is not compared then *)
      let paren = List.exists (fun c -> int_of_n c = 40) h in
      if tok_of_bool mok <> ok || (enc_opts mo <> opts && not (paren && ok = "0")) then Diff "model ScanOptions differs"
      else if hex_of_bytes (HsHttpHead.write_options (dec_opts opts)) <> written then Diff "model WriteOptions differs"
      else Pass (mo <> [])
    | _ -> Diff "malformed line");
  register "EQF" (fun i o -> match i, o with
    | [v], [a; b] ->
      let v = bytes_of_hex v in
      let m = tok_of_bool (HsHttp.equal_fold_word v (bytes_of_string "websocket")) in
      if a <> b then Diff "bytes.EqualFold and strings.EqualFold disagree"
      else if m <> a then Diff "model EqualFold differs"
      else if List.for_all (fun c -> int_of_n c < 128) v
           && tok_of_bool (HsHttp.equal_fold_ascii v (bytes_of_string "websocket")) <> a
      then Viol "ASCII value: EqualFold is not ASCII case-insensitive equality"
      else Pass true
    | _ -> Diff "malformed line");
  register "ACC" (fun i o -> match i, o with
    | [k], [a] ->
      if hex_of_bytes (accept_value (bytes_of_hex k)) <> a
      then Diff "Coq SHA-1/base64 spec disagrees with Go crypto/sha1 + encoding/base64"
      else Pass true
    | _ -> Diff "malformed line");
  register "POOL" (fun i o -> match i, o with
    | [n], [s] ->
      if string_of_n (HsBufio.pool_buf_size (n_of_int (int_of_string n)) default_server_read_buffer) <> s
      then Diff "model pool size class differs" else Pass true
    | _ -> Diff "malformed line")
