(* C10 kinds (client handshake) *)
open Base
open BinNums
open K_c09
open HsMonitor

let derr_class = function
  | None -> "ok"
  | Some (HsDialer.DIO HsBufio.TEof) -> "io:eof"
  | Some (HsDialer.DIO HsBufio.TFail) -> "io:fail"
  | Some HsDialer.DMalformed -> "malformed"
  | Some HsDialer.DBadProtocol -> "badproto"
  | Some (HsDialer.DStatus z) -> "status:" ^ string_of_z z
  | Some HsDialer.DBadUpgrade -> "badupgrade"
  | Some HsDialer.DBadConnection -> "badconnection"
  | Some HsDialer.DBadSecAccept -> "badaccept"
  | Some HsDialer.DBadSubProtocol -> "badsubprotocol"
  | Some HsDialer.DBadExtensions -> "badextensions"
  | Some HsDialer.DCallback -> "callback"
  | Some HsDialer.DFuel -> "fuel"

let default_client_read_buffer = n_of_int 4096
let sp = byte_tab.(32)
let lower_string l = List.map sp_lower l

(* the request the dialer must write (property text), checked on the bytes written *)
let check_request ~(req : coq_N list) ~(uri : coq_N list) ~(host : coq_N list) ~(nonce : coq_N list)
    ~(protocols : coq_N list list) ~(exts : HsHttpHead.hopt list) ~(hdr : coq_N list) : string option =
  match sp_parse_head req with
  | None -> Some "request written is not a complete head"
  | Some h ->
    let hv n = K_c09.hdr_values n h.sh_headers in
    if h.sh_first <> bytes_of_string "GET " @ uri @ bytes_of_string " HTTP/1.1" then Some "request line is not GET <request-uri> HTTP/1.1"
    else if h.sh_rest <> [] then Some "bytes after the request head"
    else if hv "Host" <> [sp_trim host] then Some "Host header is not the URL host / the configured override"
    else if hv "Upgrade" <> [bytes_of_string "websocket"] then Some "Upgrade: websocket missing"
    else if hv "Connection" <> [bytes_of_string "Upgrade"] then Some "Connection: Upgrade missing"
    else if hv "Sec-WebSocket-Version" <> [bytes_of_string "13"] then Some "Sec-WebSocket-Version: 13 missing"
    else if hv "Sec-WebSocket-Key" <> [nonce] || sp_key_verdict nonce <> VGood then Some "Sec-WebSocket-Key is not base64 of 16 bytes"
    else
      let tokenish l = List.for_all (fun p -> sp_token p) l in
      let pv = hv "Sec-WebSocket-Protocol" in
      let proto_ok =
        if protocols = [] then pv = []
        else if not (tokenish protocols) then true
        else (match pv with [v] -> sp_token_list v = Some protocols | _ -> false) in
      if not proto_ok then Some "configured subprotocols are not sent as offered"
      else
        let xv = hv "Sec-WebSocket-Extensions" in
        let ext_tokenish = List.for_all (fun (o : HsHttpHead.hopt) ->
          sp_token o.HsHttpHead.o_name && List.for_all (fun (k, v) -> sp_token k && (v = [] || sp_token v)) o.HsHttpHead.o_params) exts in
        let ext_ok =
          if exts = [] then xv = []
          else if not ext_tokenish then true
          else (match xv with
              | [v] -> sp_option_list v = Some (List.map (fun (o : HsHttpHead.hopt) -> (o.HsHttpHead.o_name, o.HsHttpHead.o_params)) exts)
              | _ -> false) in
        if not ext_ok then Some "configured extensions are not sent as offered"
        else if not (is_infix hdr req) then Some "configured extra headers are not sent"
        else None

let () =
  register "D10" (fun i o -> match i, o with
    | [rbuf; _wbuf; tail; _url; _template; _sizes; protos; exts; hdr; host; onhdr; _tag],
      [uhost; uri; nonce; chunks; cls; hproto; hexts; req; brnn; left] ->
      let tail = tail_of tail in
      let protocols = List.map unhxi (split_list protos) and exts = dec_opts exts in
      let hdr = bytes_of_hex hdr and host = bytes_of_hex host and onhdr = dec_set onhdr in
      let uhost = bytes_of_hex uhost and uri = bytes_of_hex uri and nonce = bytes_of_hex nonce in
      let chunks = dec_chunks chunks in
      let flat = List.concat chunks in
      let req = bytes_of_hex req and hproto = bytes_of_hex hproto and left = bytes_of_hex left in
      (* ---- monitor ---- *)
      let reqv = check_request ~req ~uri ~host:(if host = [] then uhost else host) ~nonce ~protocols ~exts ~hdr in
      let head = sp_parse_head flat in
      let b2v b = if b then VGood else VBad in
      let judgement, expect = match head with
        | None -> JMustFail, None
        | Some h ->
          let hs = h.sh_headers in
          let hv n = K_c09.hdr_values n hs in
          let status = match sp_split sp h.sh_first with
            | ver :: code :: _ :: _ ->
              let vv = (match sp_version ver with
                  | Some ((ma, mi), small) -> if int_of_n ma = 1 && BinNat.N.leb (n_of_int 1) mi then (if small then VGood else VOpen) else VBad
                  | None -> VBad) in
              [vv; b2v (code = bytes_of_string "101")]
            | _ -> [VOpen] in   (* no separator after the status code: the statement is silent *)
          let conn_v v = if sp_eq_nocase v (bytes_of_string "upgrade") then VGood
            else (match sp_has_token v (coq_string "upgrade") with VBad -> VBad | _ -> VOpen) in
          let proto_vals = hv "Sec-WebSocket-Protocol" in
          let proto_v = if List.for_all (fun v -> List.mem v protocols) proto_vals then VGood else VBad in
          let ext_vals = hv "Sec-WebSocket-Extensions" in
          let ext_clean = List.map (fun v -> if v = [] then Some [] else sp_option_list v) ext_vals in
          let ext_v =
            if List.exists (fun x -> x = None) ext_clean then
              (if List.exists (function Some l -> List.exists (fun (n, _) -> not (List.exists (fun (w : HsHttpHead.hopt) -> w.HsHttpHead.o_name = n) exts)) l | None -> false) ext_clean
               then VBad else VOpen)
            else if List.for_all (function Some l -> List.for_all (fun (n, _) -> List.exists (fun (w : HsHttpHead.hopt) -> w.HsHttpHead.o_name = n) exts) l | None -> true) ext_clean
            then VGood else VBad in
          let cb_v = match onhdr with
            | None -> VGood
            | Some keys ->
              if List.exists (fun (n, _) ->
                  not (List.exists (fun k -> sp_eq_nocase n (bytes_of_string k))
                         ["Upgrade"; "Connection"; "Sec-WebSocket-Accept"; "Sec-WebSocket-Protocol"; "Sec-WebSocket-Extensions"])
                  && List.exists (fun k -> sp_eq_nocase k n) keys) hs then VBad else VGood in
          let vs = status @ [
              verdict_all (List.map sp_upgrade_verdict (hv "Upgrade"));
              verdict_all (List.map conn_v (hv "Connection"));
              verdict_all (List.map (fun v -> b2v (v = accept_value nonce)) (hv "Sec-WebSocket-Accept"));
              proto_v; ext_v; cb_v ] in
          let j = if List.mem VBad vs then JMustFail else if List.mem VOpen vs then JOpen else JMustSucceed in
          let distinct l = List.sort_uniq compare l in
          let eproto = (match distinct proto_vals with [] -> Some [] | [p] -> Some p | _ -> None) in
          let eexts = if List.for_all (fun x -> x <> None) ext_clean
            then Some (List.concat (List.map (function Some l -> l | None -> []) ext_clean)) else None in
          j, Some (eproto, eexts, h.sh_rest) in
      let viol =
        if cls = "panic" then Some "panic"
        else match reqv with Some m -> Some m | None ->
          if cls = "ok" then begin
            if judgement = JMustFail then Some "success although the response does not satisfy the conditions"
            else match expect with
              | None -> Some "success without a complete response head"
              | Some (eproto, eexts, rest) ->
                if (match eproto with Some p -> p <> hproto | None -> false) then Some "returned subprotocol is not the one the server sent"
                else if (match eexts with
                    | Some l -> List.map (fun (o : HsHttpHead.hopt) -> (o.HsHttpHead.o_name, o.HsHttpHead.o_params)) (dec_opts hexts) <> l
                    | None -> false) then Some "returned extensions are not those the server sent"
                else if left <> rest then Some "bytes after the response head are not all readable, once and in order"
                else None
          end else begin
            if judgement = JMustSucceed then Some "valid 101 response refused" else None
          end in
      (match viol with
       | Some m -> Viol m
       | None ->
         let cfg = { HsDialer.dc_protocols = protocols; dc_extensions = exts; dc_header = hdr; dc_host = host;
                     dc_on_header = (fun k _ -> match onhdr with Some keys -> List.mem k keys | None -> false) } in
         let b = HsBufio.pool_buf_size (n_of_int (int_of_string rbuf)) default_client_read_buffer in
         let r = HsDialer.dialer_upgrade cfg uhost uri nonce b (reader_of chunks tail) in
         let mcls = derr_class r.HsDialer.d_err in
         if mcls <> cls then Diff ("model outcome " ^ mcls)
         else if r.HsDialer.d_request <> req then Diff "model request differs"
         else if cls = "ok" && (r.HsDialer.d_hs.HsHttp.hs_protocol <> hproto || enc_opts r.HsDialer.d_hs.HsHttp.hs_exts <> hexts)
         then Diff "model handshake differs"
         else if cls = "ok" && HsBufio.flat r.HsDialer.d_reader <> left then Diff "model leftover differs"
         else if tok_of_bool (HsDialer.d_returns_br r) <> brnn then Diff "model: returned buffer nil/non-nil differs"
         else Pass (List.length chunks > 1 || cls <> "ok"))
    | _ -> Diff "malformed line");

  register "DD10" (fun i o -> match i, o with
    | [_url], [parsed; scheme; host; dials; network; addr; tlscalls; tlshost] ->
      if parsed = "0" then (if dials = "0" then Pass false else Viol "dialed although the URL does not parse")
      else begin
        let scheme = bytes_of_hex scheme and host = bytes_of_hex host in
        let addr = bytes_of_hex addr and tlshost = bytes_of_hex tlshost in
        let colon = [byte_tab.(58)] in
        (* monitor: host:port of the URL, defaults 80/443 *)
        let is_ws = scheme = bytes_of_string "ws" and is_wss = scheme = bytes_of_string "wss" in
        let spec = if is_ws || is_wss then HsDialer.spec_split_host_port host else None in
        let dflt = bytes_of_string (if is_wss then "443" else "80") in
        let viol = match spec with
          | Some (hn, port) when hn <> [] ->
            let want = hn @ colon @ (match port with Some p when p <> [] -> p | _ -> dflt) in
            if dials <> "1" then Some "ws/wss URL not dialed exactly once"
            else if bytes_of_hex network <> bytes_of_string "tcp" then Some "network is not tcp"
            else if addr <> want then Some "dialed address is not the URL's host:port (default 80/443)"
            else if is_wss && (tlscalls <> "1" || tlshost <> hn) then Some "TLS server name is not the URL host without port"
            else if is_ws && tlscalls <> "0" then Some "TLS used for ws://"
            else None
          | _ -> if not (is_ws || is_wss) && dials <> "0" then Some "dialed for a scheme other than ws/wss" else None in
        match viol with
        | Some m -> Viol m
        | None ->
          (match HsDialer.dial_plan_of scheme host with
           | HsDialer.DialPlain a -> if dials = "1" && a = addr && tlscalls = "0" then Pass true else Diff "model dial plan differs"
           | HsDialer.DialTLS (a, hn) -> if dials = "1" && a = addr && tlscalls = "1" && hn = tlshost then Pass true else Diff "model dial plan differs"
           | HsDialer.DialBadScheme -> if dials = "0" then Pass true else Diff "model: bad scheme")
      end
    | _ -> Diff "malformed line");

  register "NON" (fun i o -> match i, o with
    | [_n], [keys] ->
      let ks = List.map unhxi (String.split_on_char ',' keys) in
      if List.exists (fun k -> sp_key_verdict k <> VGood) ks then Viol "a key is not the base64 form of 16 bytes"
      else if List.length (List.sort_uniq compare ks) <> List.length ks then Viol "keys repeat over consecutive upgrades"
      else Pass true
    | _ -> Diff "malformed line");

  register "HP" (fun i o -> match i, o with
    | [host; dflt], [hn; addr] ->
      let (mh, ma) = HsDialer.hostport (bytes_of_hex host) (bytes_of_hex dflt) in
      if hex_of_bytes mh <> hn || hex_of_bytes ma <> addr then Diff "model hostport differs" else Pass true
    | _ -> Diff "malformed line");

  register "MX" (fun i o -> match i, o with
    | [sel; wanted; received], [err; out] ->
      let (mo, me) = HsDialer.match_selected_extensions (bytes_of_hex sel) (dec_opts wanted) (dec_opts received) in
      let mes = match me with None -> "ok" | Some HsDialer.MxMalformed -> "malformed" | Some HsDialer.MxBadExtensions -> "badextensions" in
      if mes <> err then Diff ("model matchSelectedExtensions: " ^ mes)
      else if err = "ok" && enc_opts mo <> out then Diff "model matched extensions differ"
      else Pass true
    | _ -> Diff "malformed line");

  register "RSL" (fun i o -> match i, o with
    | [line], r ->
      let line = bytes_of_hex line in
      let m = match HsDialer.http_parse_response_line HsHttp.ascii_to_int line with
        | Some sl -> [string_of_z sl.HsHttp.sl_major; string_of_z sl.HsHttp.sl_minor; string_of_z sl.HsHttp.sl_status; hex_of_bytes sl.HsHttp.sl_reason]
        | None -> ["err"] in
      (* monitor: a status token that is not three digits must not yield a status *)
      let tok = match sp_split sp line with _ :: c :: _ -> c | _ -> [] in
      let three = List.length tok = 3 && List.for_all (fun c -> let x = int_of_n c in x >= 48 && x <= 57) tok in
      (match r with
       | [_; _; st; _] when not three -> Viol ("status token is not a three-digit code but parses as " ^ st)
       | [_; _; st; _] when st <> string_of_bytes tok -> Viol "status value differs from the token"
       | _ -> if m <> r then Diff "model httpParseResponseLine differs" else Pass true)
    | _ -> Diff "malformed line")
