#!/bin/sh
# Extract the Coq models to OCaml and build the checker. Run from anywhere.
set -e
D=$(cd "$(dirname "$0")" && pwd)
mkdir -p "$D/gen" && cd "$D/gen"
rm -f *.ml *.mli *.cm* *.o
coqc -R "$D/../coq" WS "$D/../coq/extract/Extract.v" > extract.log 2>&1 || { cat extract.log; exit 1; }
cd "$D"
GEN=$(cd gen && ocamlfind ocamldep -sort *.ml *.mli | tr ' ' '\n' | grep '\.ml$' | sed 's|^|gen/|' | tr '\n' ' ')
GENI=$(cd gen && ocamlfind ocamldep -sort *.ml *.mli | tr ' ' '\n' | grep -v '^$' | sed 's|^|gen/|' | tr '\n' ' ')
K=$(ls k_*.ml | sort | tr '\n' ' ')
ocamlfind ocamlopt -w -a -I gen -I . $GENI base.ml $K main.ml -o checker
rm -f *.cmi *.cmx *.o gen/*.cmi gen/*.cmx gen/*.o
