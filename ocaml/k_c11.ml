(* C11 kinds: agreement of both peers, chunking independence, debug wrappers *)
open Base
open BinNums
open K_c09
open K_c10
open HsMonitor

let dec_ints s = List.map int_of_string (split_list s)
let split_sizes (b : coq_N list) (sizes : int list) : coq_N list list =
  let rec take n l acc = if n = 0 then (List.rev acc, l) else match l with [] -> (List.rev acc, []) | x :: r -> take (n-1) r (x :: acc) in
  let rec go b sizes acc =
    if b = [] then List.rev acc
    else
      let (n, rest) = match sizes with [] -> (max_int, []) | [x] -> (x, [x]) | x :: r -> (x, r) in
      let n = if n < 1 then 1 else n in
      let (c, b') = take n b [] in
      go b' rest (c :: acc) in
  go b sizes []

let mk_ucfg hdr proto ext neg onreq onhost onhdr before : HsUpgrader.ucfg =
  { HsUpgrader.uc_header = hdr;
    uc_protocol = (match proto with Some set -> Some (fun t -> List.mem t set) | None -> None);
    uc_extension = (match ext with Some set -> Some (fun (o : HsHttpHead.hopt) -> List.mem o.HsHttpHead.o_name set) | None -> None);
    uc_negotiate = (match neg with Some t -> Some (neg_fun t) | None -> None);
    uc_on_request = (fun u -> lookup_table onreq u);
    uc_on_host = (fun h -> lookup_table onhost h);
    uc_on_header = (fun k _ -> lookup_table onhdr k);
    uc_on_before_upgrade = before }
let dec_before before =
  if before = "n" then None
  else if before.[0] = 'r' then Some (Datatypes.Coq_inr (dec_rej (String.sub before 2 (String.length before - 2))))
  else Some (Datatypes.Coq_inl (unhxi (String.sub before 2 (String.length before - 2))))
let dec_ucfg = function
  | [hdr; proto; ext; neg; onreq; onhost; onhdr; before; stext] ->
    (mk_ucfg (bytes_of_hex hdr) (dec_set proto) (dec_set ext) (dec_neg neg) (dec_table onreq) (dec_table onhost) (dec_table onhdr) (dec_before before),
     dec_stext stext)
  | _ -> failwith "ucfg"
let dec_dcfg = function
  | [protos; exts; hdr; host; onhdr] ->
    let onhdr = dec_set onhdr in
    { HsDialer.dc_protocols = List.map unhxi (split_list protos); dc_extensions = dec_opts exts;
      dc_header = bytes_of_hex hdr; dc_host = bytes_of_hex host;
      dc_on_header = (fun k _ -> match onhdr with Some keys -> List.mem k keys | None -> false) }
  | _ -> failwith "dcfg"
let rec take_n n l = if n = 0 then [] else match l with [] -> [] | x :: r -> x :: take_n (n-1) r
let rec drop_n n l = if n = 0 then l else match l with [] -> [] | _ :: r -> drop_n (n-1) r

(* the head of a message: bytes up to and including the blank line (CRLF or bare LF line ends) *)
let head_of (b : coq_N list) : coq_N list option =
  match sp_parse_head b with
  | Some h -> Some (take_n (List.length b - List.length h.sh_rest) b)
  | None -> None

let () =
  register "A11" (fun i o -> match i, o with
    | drbuf :: _dwbuf :: urbuf :: _uwbuf :: _rs :: _ps :: _url :: rest, [uhost; uri; nonce; reqchunks; respchunks; ccls; cproto; cexts; scls; sproto; sexts; req; left] ->
      let dc_toks = take_n 5 rest and uc_toks = take_n 9 (drop_n 5 rest) in
      let trailing = bytes_of_hex (List.nth rest 14) in
      let left = bytes_of_hex left in
      let viol =
        if ccls = "panic" || scls = "panic" then Some "panic"
        else if ccls = "hang" || scls = "hang" then Some "handshake does not terminate"
        else if ccls = "ok" && scls = "ok" then
          (if cproto <> sproto then Some "both succeed but report different subprotocols"
           else if cexts <> sexts then Some "both succeed but report different extensions / parameters"
           else if left <> trailing then Some "post-handshake bytes lost or altered"
           else None)
        else if ccls <> "ok" && scls <> "ok" then None
        else Some ("one peer succeeds, the other fails (dialer " ^ ccls ^ ", upgrader " ^ scls ^ ")") in
      (match viol with
       | Some m -> Viol m
       | None ->
         let dcfg = dec_dcfg dc_toks and (ucfg, stext) = dec_ucfg uc_toks in
         let uhost = bytes_of_hex uhost and uri = bytes_of_hex uri and nonce = bytes_of_hex nonce in
         let mreq = HsDialer.write_upgrade_request dcfg uhost uri nonce in
         if mreq <> bytes_of_hex req then Diff "model request differs"
         else
           let ub = HsBufio.pool_buf_size (n_of_int (int_of_string urbuf)) default_server_read_buffer in
           let u = HsUpgrader.upgrader stext ucfg ub (reader_of (dec_chunks reqchunks) HsBufio.TEof) in
           let mscls = class_of_uerr u.HsUpgrader.u_err in
           if mscls <> scls then Diff ("model upgrader outcome " ^ mscls)
           else
             let resp = u.HsUpgrader.u_out @ (if mscls = "ok" then trailing else []) in
             if resp <> List.concat (dec_chunks respchunks) then Diff "model response differs"
             else
               let db = HsBufio.pool_buf_size (n_of_int (int_of_string drbuf)) default_client_read_buffer in
               let d = HsDialer.dialer_upgrade dcfg uhost uri nonce db (reader_of (dec_chunks respchunks) HsBufio.TEof) in
               let mccls = derr_class d.HsDialer.d_err in
               if mccls <> ccls then Diff ("model dialer outcome " ^ mccls)
               else if ccls = "ok" && (hex_of_bytes d.HsDialer.d_hs.HsHttp.hs_protocol <> cproto
                                       || enc_opts d.HsDialer.d_hs.HsHttp.hs_exts <> cexts
                                       || hex_of_bytes u.HsUpgrader.u_hs.HsHttp.hs_protocol <> sproto
                                       || enc_opts u.HsUpgrader.u_hs.HsHttp.hs_exts <> sexts) then Diff "model handshakes differ"
               else Pass true)
    | _ -> Diff "malformed line");

  register "CIU" (fun i o -> match i, o with
    | req :: rest, [outs] ->
      let outs = String.split_on_char ',' outs in
      (match outs with
       | [] -> Diff "no outcomes"
       | first :: others ->
         if List.exists (fun x -> x <> first) others then Viol "outcome / handshake / bytes written depend on chunking or buffer sizes"
         else
           let (ucfg, stext) = dec_ucfg (take_n 9 rest) in
           let u = HsUpgrader.upgrader stext ucfg (n_of_int 4096) (reader_of [bytes_of_hex req] HsBufio.TEof) in
           let cls = class_of_uerr u.HsUpgrader.u_err in
           let hs = if cls = "ok" then u.HsUpgrader.u_hs else { HsHttp.hs_protocol = []; hs_exts = [] } in
           let m = cls ^ "/" ^ hxi hs.HsHttp.hs_protocol ^ "/" ^ enc_opts hs.HsHttp.hs_exts ^ "/" ^ hxi u.HsUpgrader.u_out in
           if m <> first then Diff "model outcome differs" else Pass true)
    | _ -> Diff "malformed line");

  register "CID" (fun i o -> match i, o with
    | _ :: _, [outs] ->
      (match String.split_on_char ',' outs with
       | [] -> Diff "no outcomes"
       | first :: others ->
         if List.exists (fun x -> x <> first) others then Viol "outcome / handshake / request / leftover bytes depend on chunking or buffer sizes"
         else Pass true)
    | _ -> Diff "malformed line");

  register "DBU" (fun i o -> match i, o with
    | req :: _sizes :: rest, [rcls; rproto; rexts; rout; cls; proto; exts; out; nreq; gotreq; nresp; gotresp] ->
      let setreq = List.nth rest 9 = "1" and setresp = List.nth rest 10 = "1" in
      if cls = "panic" then Viol "panic"
      else if cls <> rcls || out <> rout || (cls = "ok" && (proto <> rproto || exts <> rexts)) then Viol "DebugUpgrader changes the outcome"
      else if setreq && nreq <> "1" then Viol "OnRequest not called exactly once"
      else if setresp && nresp <> "1" then Viol "OnResponse not called exactly once"
      else if setresp && gotresp <> out then Viol "OnResponse does not receive exactly the response bytes"
      else if setreq && cls = "ok" && gotreq <> req then Viol "OnRequest does not receive exactly the request bytes"
      else Pass true
    | _ -> Diff "malformed line");

  register "DBD" (fun i o -> match i, o with
    | _template :: _sizes :: _rbuf :: rest, [rcls; rproto; rexts; rleft; cls; proto; exts; left; req; nreq; gotreq; nresp; gotresp; actual] ->
      let setreq = List.nth rest 5 = "1" and setresp = List.nth rest 6 = "1" in
      let resp = List.concat (dec_chunks actual) in
      if cls = "panic" then Viol "panic"
      else if cls <> rcls || (cls = "ok" && (proto <> rproto || exts <> rexts)) then Viol "DebugDialer changes the outcome"
      else if cls = "ok" && left <> rleft then Viol "DebugDialer loses or alters post-handshake bytes"
      else if setreq && nreq <> "1" then Viol "OnRequest not called exactly once"
      else if setresp && nresp <> "1" then Viol "OnResponse not called exactly once"
      else if setreq && gotreq <> req then Viol "OnRequest does not receive exactly the request bytes"
      else if setresp && (match head_of resp with
          | Some h ->
            (* a refused handshake may carry a body: with a Content-Length it belongs to "the response bytes" *)
            let hs = String.lowercase_ascii (String.concat "" (List.map (fun b -> String.make 1 (Char.chr (int_of_n b))) h)) in
            let lines = String.split_on_char '\n' hs in
            let status = (match lines with l :: _ -> (match String.split_on_char ' ' (String.trim l) with _ :: st :: _ -> st | _ -> "") | [] -> "") in
            let cl = List.fold_left (fun acc l ->
              let l = String.trim l in
              if String.length l > 15 && String.sub l 0 15 = "content-length:" then
                (try Some (int_of_string (String.trim (String.sub l 15 (String.length l - 15)))) with _ -> acc)
              else acc) None lines in
            let body_len = (match cl with Some n when status <> "101" && n >= 0 -> min n (List.length resp - List.length h) | _ -> 0) in
            hex_of_bytes (take_n (List.length h + body_len) resp) <> gotresp
          | None -> false)
      then Viol "OnResponse does not receive exactly the response bytes"
      else Pass true
    | _ -> Diff "malformed line")
